/-
Concrete runs of the model refuting the three statements of `SMD/Properties/C03Prune.lean` as first
written, evaluated by the kernel (every set operation is rewritten into its fuel-recursive copy of
`SMD/Proofs/SetOpsKernel.lean`, then the closed equation is closed by `Eq.refl`).

World K (empty schema): the object is a map of lists keyed by `name`; the item type (`C14.cxItem`)
declares the fields `name` (with the schema default "d") and `x`.  World S (empty schema): the object
is a struct with one struct field `spec : {a : scalar, b : set of scalars}`.  Identity converter, no
ignore configuration, every record at version "v".

* `dangling`: the applier "a" abandons the item `.l[name=c]` (its previous record is the item and its
  key field); "o" owns only the leaf `.l[name=c].x`.  The item is pruned and the leaf with it (the
  intended behaviour of the library, cf. `remove_one_with_dangling_subitem_keep_one` of
  `multiple_appliers_test.go`): an owned scalar does not survive.
* `struct`: "o" owns the struct field `.spec` (a container), the applier abandons `.spec.a`; what is
  left of `.spec` (`{b: []}`) has an empty field set, so the third stage removes `.spec`: an owned
  container does not survive, although every hypothesis of `prune_keeps_owned_of_way_owned` but the
  scalar one holds.
* `collide`: the applier's previous record is the key field `.l[name=a].name` alone; the item loses its
  key, takes the default identity `name=d` and shadows the item `name=d`: the path `.l[name=d].x`, which
  has no prefix in the previous record, designates 1 instead of 2 after pruning — and after the whole
  `apply` of a configuration that sets `.l[name=d].x` to 2.
* `defaulted`: the only field `x` of an item whose key is defaulted is abandoned: the item becomes
  `null` and the path `.l[name=d]`, outside the previous record, designates nothing.
-/
import SMD.Proofs.PruneLaws
import SMD.Proofs.SetOpsKernel
import SMD.Proofs.FindingWorlds
import Lean.Elab.Tactic.Basic
set_option maxRecDepth 100000
namespace SMD.CounterPrune
open SMD SMD.C14 SetTrie NodeLaws

/-- closes `a = b` with `Eq.refl a`, leaving the conversion check to the kernel -/
elab "kernel_refl" : tactic => do
  let g ← Lean.Elab.Tactic.getMainGoal
  let t ← Lean.instantiateMVars (← g.getType)
  match t.eq? with
  | some (α, a, _) =>
    let u ← Lean.Meta.getLevel α
    g.assign (Lean.mkApp2 (Lean.mkConst ``Eq.refl [u]) α a)
  | none => Lean.throwError "kernel_refl: the goal is not an equality"

macro "cx_eval_prune" : tactic =>
  `(tactic| (unfold prune addBackOwned addBackDangling addBackForVersion
             simp only [unionS_eq, interS_eq, diffS_eq, managedAtVersionS_eq]
             kernel_refl))
macro "cx_eval_apply" : tactic =>
  `(tactic| (unfold apply prune addBackOwned addBackDangling addBackForVersion updateCore applyIgnore filterCmp
             simp only [unionS_eq, interS_eq, diffS_eq, rdiffS_eq, managedAtVersionS_eq, updateLoopS_eq]
             kernel_refl))

def upd : Updater := { converter := Converter.identity, ignore := fun _ => none }
def sc0 : Schema := ⟨[]⟩

/-! ### world K -/

/-- a map of lists keyed by `name` (no declared field) -/
def rootK : TypeRef := .mk none (.mk none none (some (.mk [] [] cxKeyed ""))) none
def keyA : PE := .key [("name", .str "a")]
def keyC : PE := .key [("name", .str "c")]
def keyD : PE := .key [("name", .str "d")]

/-! #### dangling -/

/-- `{l: [{name: c, x: 1}]}` -/
def mergedC : TV := ⟨.map [("l", .list [.map [("name", .str "c"), ("x", .int 1)]])], rootK⟩
/-- `{l: null}` -/
def outC : TV := ⟨.map [("l", .null)], rootK⟩
/-- the applier's previous record `{.l[name=c], .l[name=c].name}` -/
def lastC : VersionedSet := ⟨ofPaths [[.field "l", keyC], [.field "l", keyC, .field "name"]], "v", true⟩
/-- "o" owns `.l[name=c].x` -/
def setO : SetTrie := ofPaths [[.field "l", keyC, .field "x"]]
def mgrsC : Managed := [("o", ⟨setO, "v", false⟩)]
def pC : Path := [.field "l", keyC, .field "x"]

theorem dangling_prune : prune upd sc0 mergedC mgrsC "a" (some lastC) = .ok outC := by cx_eval_prune
theorem dangling_allAt : ∀ x ∈ mgrsC, x.2.version = "v" := by
  intro x hx; simp only [mgrsC, List.mem_singleton] at hx; subst hx; rfl
theorem dangling_valid : validateV sc0 false mergedC.type mergedC.value = .ok () := rfl
theorem dangling_owned : ∃ r ∈ mgrsC, r.2.set.has pC = true :=
  ⟨("o", ⟨setO, "v", false⟩), List.mem_singleton.2 rfl, by decide⟩
theorem dangling_at_merged : Nodes.valueAt sc0 mergedC.type mergedC.value pC = some (.int 1) := rfl
theorem dangling_at_out : Nodes.valueAt sc0 outC.type outC.value pC = none := rfl

/-! #### collide -/

/-- `{l: [{name: a, x: 1}, {name: d, x: 2}]}` -/
def mergedB : TV :=
  ⟨.map [("l", .list [.map [("name", .str "a"), ("x", .int 1)], .map [("name", .str "d"), ("x", .int 2)]])], rootK⟩
/-- `{l: [{x: 1}, {name: d, x: 2}]}` -/
def outB : TV := ⟨.map [("l", .list [.map [("x", .int 1)], .map [("name", .str "d"), ("x", .int 2)]])], rootK⟩
/-- the applier's previous record `{.l[name=a].name}` -/
def lastB : VersionedSet := ⟨ofPaths [[.field "l", keyA, .field "name"]], "v", true⟩
def pB : Path := [.field "l", keyD, .field "x"]

theorem collide_prune : prune upd sc0 mergedB [] "m" (some lastB) = .ok outB := by cx_eval_prune
theorem collide_valid : validateV sc0 false mergedB.type mergedB.value = .ok () := rfl
theorem collide_at_merged : Nodes.valueAt sc0 mergedB.type mergedB.value pB = some (.int 2) := rfl
theorem collide_at_out : Nodes.valueAt sc0 outB.type outB.value pB = some (.int 1) := rfl
theorem collide_outside : ∀ q, q <+: pB → q ≠ [] → (lastB.set.ensureNamed sc0 mergedB.type).has q = false := by
  intro q hq hne
  have hm := mem_prefixes_of_isPrefix pB q hq hne
  have hall : (C15.prefixes pB).all (fun r => !(lastB.set.ensureNamed sc0 mergedB.type).has r) = true := by
    decide
  simpa using List.all_eq_true.1 hall q hm

/-- the live object `{l: [{name: a, x: 1}, {name: d, x: 0}]}` -/
def liveB : TV :=
  ⟨.map [("l", .list [.map [("name", .str "a"), ("x", .int 1)], .map [("name", .str "d"), ("x", .int 0)]])], rootK⟩
/-- the configuration `{l: [{name: d, x: 2}]}` -/
def cfgB : TV := ⟨.map [("l", .list [.map [("name", .str "d"), ("x", .int 2)]])], rootK⟩
def mB : Managed := [("m", lastB)]
/-- the field set of the configuration -/
def setCfgB : SetTrie :=
  ofPaths [[.field "l"], [.field "l", keyD], [.field "l", keyD, .field "name"], [.field "l", keyD, .field "x"]]

theorem collide_apply :
    apply upd sc0 liveB cfgB "v" mB "m" true = .ok (some outB, [("m", ⟨setCfgB, "v", true⟩)]) := by
  cx_eval_apply
theorem collide_allAt : ∀ x ∈ mB, x.2.version = "v" := by
  intro x hx; simp only [mB, List.mem_singleton] at hx; subst hx; rfl
theorem collide_valid_live : validateV sc0 false liveB.type liveB.value = .ok () := rfl
theorem collide_valid_cfg : validateV sc0 false cfgB.type cfgB.value = .ok () := rfl
theorem collide_at_cfg : Nodes.valueAt sc0 cfgB.type cfgB.value pB = some (.int 2) := rfl
theorem collide_at_result : Nodes.valueAt sc0 cfgB.type outB.value pB = some (.int 1) := rfl
theorem collide_no_index : ∀ pe ∈ pB, PE.isIndex pe = false := by
  intro pe hpe
  simp only [pB, List.mem_cons, List.not_mem_nil, or_false] at hpe
  rcases hpe with rfl | rfl | rfl <;> rfl
theorem collide_keys_live : keysScalar sc0 liveB.type liveB.value = true := by decide
theorem collide_keys_cfg : keysScalar sc0 cfgB.type cfgB.value = true := by decide

/-! #### defaulted -/

/-- `{l: [{x: 1}]}`: the key of the item is the schema default `name=d` -/
def mergedA : TV := ⟨.map [("l", .list [.map [("x", .int 1)]])], rootK⟩
/-- `{l: [null]}` -/
def outA : TV := ⟨.map [("l", .list [.null])], rootK⟩
/-- the applier's previous record `{.l[name=d].x}` -/
def lastA : VersionedSet := ⟨ofPaths [[.field "l", keyD, .field "x"]], "v", true⟩
def pA : Path := [.field "l", keyD]

theorem defaulted_prune : prune upd sc0 mergedA [] "m" (some lastA) = .ok outA := by cx_eval_prune
theorem defaulted_valid : validateV sc0 false mergedA.type mergedA.value = .ok () := rfl
theorem defaulted_at_merged :
    Nodes.valueAt sc0 mergedA.type mergedA.value pA = some (.map [("x", .int 1)]) := rfl
theorem defaulted_at_out : Nodes.valueAt sc0 outA.type outA.value pA = none := rfl
theorem defaulted_outside : ∀ q, q <+: pA → q ≠ [] → (lastA.set.ensureNamed sc0 mergedA.type).has q = false := by
  intro q hq hne
  have hm := mem_prefixes_of_isPrefix pA q hq hne
  have hall : (C15.prefixes pA).all (fun r => !(lastA.set.ensureNamed sc0 mergedA.type).has r) = true := by
    decide
  simpa using List.all_eq_true.1 hall q hm

/-! ### world S -/

/-- `{a : scalar, b : set of scalars}` -/
def specT : TypeRef :=
  .mk none (.mk none none (some (.mk [.mk "a" cxScalar none, .mk "b" cxSet none] [] .zero ""))) none
/-- `{spec : specT}` -/
def rootS : TypeRef := .mk none (.mk none none (some (.mk [.mk "spec" specT none] [] .zero ""))) none
/-- `{spec: {a: 1, b: []}}` -/
def mergedS : TV := ⟨.map [("spec", .map [("a", .int 1), ("b", .list [])])], rootS⟩
def outS : TV := ⟨.null, rootS⟩
/-- the applier's previous record `{.spec.a}` -/
def lastS : VersionedSet := ⟨ofPaths [[.field "spec", .field "a"]], "v", true⟩
/-- "o" owns `.spec` -/
def setSpec : SetTrie := ofPaths [[.field "spec"]]
def mgrsS : Managed := [("o", ⟨setSpec, "v", false⟩)]
def pS : Path := [.field "spec"]

theorem struct_prune : prune upd sc0 mergedS mgrsS "a" (some lastS) = .ok outS := by cx_eval_prune
theorem struct_allAt : ∀ x ∈ mgrsS, x.2.version = "v" := by
  intro x hx; simp only [mgrsS, List.mem_singleton] at hx; subst hx; rfl
theorem struct_valid : validateV sc0 false mergedS.type mergedS.value = .ok () := rfl
theorem struct_owned : ∃ r ∈ mgrsS, r.2.set.has pS = true :=
  ⟨("o", ⟨setSpec, "v", false⟩), List.mem_singleton.2 rfl, by decide⟩
theorem struct_at_merged :
    Nodes.valueAt sc0 mergedS.type mergedS.value pS = some (.map [("a", .int 1), ("b", .list [])]) := rfl
theorem struct_at_out : Nodes.valueAt sc0 outS.type outS.value pS = none := rfl

/-! ### non-vacuity of the re-proved laws: the world of finding D11 (`SMD/Proofs/FindingWorlds.lean`)

Schema: a struct `root` with a list `l` of items keyed by `name` (no schema default), each carrying a set
`sub` of numerics.  a1 applied `{l: [{name: c, sub: [0]}]}`, u1 added `1` to `sub`; a1 now applies
`{l: [{name: c}]}` at the version of every record: `0` is pruned from `sub`, u1's `1` stays. -/

open FW in
/-- the records before the re-apply -/
def nvBefore : Managed := [("a1", ⟨setSub0, "v1", true⟩), ("u1", ⟨setSub1, "v1", false⟩)]
open FW in
/-- the records handed to `prune`: a1's new record written -/
def nvManagers : Managed := [("a1", ⟨setBare, "v1", true⟩), ("u1", ⟨setSub1, "v1", false⟩)]
open FW in
/-- a1's previous record -/
def nvLast : VersionedSet := ⟨setSub0, "v1", true⟩
/-- the path `.l[name=c].name` of the configuration -/
def nvName : Path := [.field "l", FW.keyC, .field "name"]

open FW in
theorem nv_apply : apply plain sc (tv objSub01) (tv cfgBare) "v1" nvBefore "a1" false =
    .ok (some (tv objSub1), nvManagers) := by cx_eval_apply
open FW in
theorem nv_prune : prune plain sc (tv objSub01) nvManagers "a1" (some nvLast) = .ok (tv objSub1) := by cx_eval_prune
open FW in
theorem nv_merge : mergeTV sc (tv objSub01) (tv cfgBare) = .ok (tv objSub01) := by
  unfold mergeTV
  kernel_refl

theorem nv_allAt_before : ∀ x ∈ nvBefore, x.2.version = "v1" := by
  intro x hx
  simp only [nvBefore, List.mem_cons, List.not_mem_nil, or_false] at hx
  rcases hx with rfl | rfl <;> rfl
theorem nv_allAt : ∀ x ∈ nvManagers, x.2.version = "v1" := by
  intro x hx
  simp only [nvManagers, List.mem_cons, List.not_mem_nil, or_false] at hx
  rcases hx with rfl | rfl <;> rfl
theorem nv_wf_before : ∀ x ∈ nvBefore, x.2.set.wf = true := by
  intro x hx
  simp only [nvBefore, List.mem_cons, List.not_mem_nil, or_false] at hx
  rcases hx with rfl | rfl <;> decide
theorem nv_wf : ∀ x ∈ nvManagers, x.2.set.wf = true := by
  intro x hx
  simp only [nvManagers, List.mem_cons, List.not_mem_nil, or_false] at hx
  rcases hx with rfl | rfl <;> decide
theorem nv_wf_last : nvLast.set.wf = true := by decide

open FW in
theorem nv_valid_live : validateV sc false (tv objSub01).type (tv objSub01).value = .ok () := by
  with_unfolding_all rfl
open FW in
theorem nv_valid_cfg : validateV sc false (tv cfgBare).type (tv cfgBare).value = .ok () := by
  with_unfolding_all rfl
open FW in
theorem nv_keys_live : keysScalar sc (tv objSub01).type (tv objSub01).value = true := by with_unfolding_all rfl
open FW in
theorem nv_keys_cfg : keysScalar sc (tv cfgBare).type (tv cfgBare).value = true := by with_unfolding_all rfl
open FW in
theorem nv_merged : ∀ merged, mergeTV sc (tv objSub01) (tv cfgBare) = .ok merged →
    validateV sc false merged.type merged.value = .ok () ∧ keysScalar sc merged.type merged.value = true := by
  intro merged h
  rw [nv_merge] at h
  cases h
  exact ⟨nv_valid_live, nv_keys_live⟩

open FW in
theorem nv_name_at_cfg : Nodes.valueAt sc (tv cfgBare).type (tv cfgBare).value nvName = some (.str "c") := by
  with_unfolding_all rfl
theorem nv_name_no_index : ∀ pe ∈ nvName, PE.isIndex pe = false := by
  intro pe hpe
  simp only [nvName, List.mem_cons, List.not_mem_nil, or_false] at hpe
  rcases hpe with rfl | rfl | rfl <;> rfl
open FW in
theorem nv_name_atomic : throughAtomic sc (tv cfgBare).type (tv cfgBare).value nvName = false := by
  with_unfolding_all rfl
open FW in
theorem nv_name_nkd : nkdOn sc (tv cfgBare).type (tv cfgBare).value nvName = true := by
  with_unfolding_all rfl

/-! the leaf `.l[name=c].sub[=1]` of u1 -/

open FW in
theorem nv_sub_at_merged : Nodes.valueAt sc (tv objSub01).type (tv objSub01).value pathSub1 = some (.int 1) := by
  with_unfolding_all rfl
open FW in
theorem nv_sub_owned : ∃ r ∈ nvManagers, r.2.set.has pathSub1 = true :=
  ⟨("u1", ⟨setSub1, "v1", false⟩), by simp [nvManagers], by with_unfolding_all rfl⟩
open FW in
theorem nv_sub_way : ∀ q, q <+: pathSub1 → q ≠ [] →
    ∃ r ∈ nvManagers, (r.2.set.ensureNamed sc (tv objSub01).type).has q = true := by
  intro q hq hne
  have hm := mem_prefixes_of_isPrefix pathSub1 q hq hne
  have hall : (C15.prefixes pathSub1).all (fun q =>
      nvManagers.any (fun r => (r.2.set.ensureNamed sc (tv objSub01).type).has q)) = true := by
    with_unfolding_all rfl
  obtain ⟨r, hr, h⟩ := List.any_eq_true.1 (List.all_eq_true.1 hall q hm)
  exact ⟨r, hr, h⟩
open FW in
theorem nv_sub_keys : ∀ q ∈ keyFieldPaths pathSub1,
    ∃ r ∈ nvManagers, (r.2.set.ensureNamed sc (tv objSub01).type).has q = true := by
  intro q hq
  have hall : (keyFieldPaths pathSub1).all (fun q =>
      nvManagers.any (fun r => (r.2.set.ensureNamed sc (tv objSub01).type).has q)) = true := by
    with_unfolding_all rfl
  obtain ⟨r, hr, h⟩ := List.any_eq_true.1 (List.all_eq_true.1 hall q hq)
  exact ⟨r, hr, h⟩
open FW in
theorem nv_sub_no_index : ∀ pe ∈ pathSub1, PE.isIndex pe = false := by
  intro pe hpe
  simp only [pathSub1, List.mem_cons, List.not_mem_nil, or_false] at hpe
  rcases hpe with rfl | rfl | rfl | rfl <;> rfl
open FW in
theorem nv_sub_atomic : throughAtomic sc (tv objSub01).type (tv objSub01).value pathSub1 = false := by
  with_unfolding_all rfl
open FW in
theorem nv_sub_nkd : nkdOn sc (tv objSub01).type (tv objSub01).value pathSub1 = true := by
  with_unfolding_all rfl

/-! a leaf `.f1.x` outside a1's previous record -/

/-- `{f1: {x: 1}, l: [{name: c, sub: [0]}]}` -/
def nvWide : Value :=
  .map [("f1", .map [("x", .int 1)]), ("l", .list [.map [("name", .str "c"), ("sub", .list [.int 0])]])]
/-- `{f1: {x: 1}, l: [{name: c}]}` -/
def nvWideOut : Value := .map [("f1", .map [("x", .int 1)]), ("l", .list [.map [("name", .str "c")]])]
open FW in
def nvOne : Managed := [("a1", ⟨setBare, "v1", true⟩)]
def nvX : Path := [.field "f1", .field "x"]

open FW in
theorem nv_wide_prune : prune plain sc (tv nvWide) nvOne "a1" (some nvLast) = .ok (tv nvWideOut) := by cx_eval_prune
theorem nv_wide_allAt : ∀ x ∈ nvOne, x.2.version = "v1" := by
  intro x hx; simp only [nvOne, List.mem_singleton] at hx; subst hx; rfl
open FW in
theorem nv_wide_valid : validateV sc false (tv nvWide).type (tv nvWide).value = .ok () := by with_unfolding_all rfl
open FW in
theorem nv_wide_keys : keysScalar sc (tv nvWide).type (tv nvWide).value = true := by with_unfolding_all rfl
open FW in
theorem nv_wide_at : Nodes.valueAt sc (tv nvWide).type (tv nvWide).value nvX = some (.int 1) := by
  with_unfolding_all rfl
open FW in
theorem nv_wide_outside : ∀ q, q <+: nvX → q ≠ [] → (nvLast.set.ensureNamed sc (tv nvWide).type).has q = false := by
  intro q hq hne
  have hm := mem_prefixes_of_isPrefix nvX q hq hne
  have hall : (C15.prefixes nvX).all (fun r => !(nvLast.set.ensureNamed sc (tv nvWide).type).has r) = true := by
    with_unfolding_all rfl
  simpa using List.all_eq_true.1 hall q hm
open FW in
theorem nv_wide_keys_outside : ∀ q ∈ keyFieldPaths nvX, (nvLast.set.ensureNamed sc (tv nvWide).type).has q = false := by
  intro q hq
  have : keyFieldPaths nvX = [] := by with_unfolding_all rfl
  rw [this] at hq; cases hq
theorem nv_wide_no_index : ∀ pe ∈ nvX, PE.isIndex pe = false := by
  intro pe hpe
  simp only [nvX, List.mem_cons, List.not_mem_nil, or_false] at hpe
  rcases hpe with rfl | rfl <;> rfl
open FW in
theorem nv_wide_atomic : throughAtomic sc (tv nvWide).type (tv nvWide).value nvX = false := by
  with_unfolding_all rfl
open FW in
theorem nv_wide_nkd : nkdOn sc (tv nvWide).type (tv nvWide).value nvX = true := by with_unfolding_all rfl

end SMD.CounterPrune
