/- helper lemmas for SMD/Properties/C03Prune.lean: what `prune` (remove, add back owned, add back
dangling) keeps, for managers at a single version under the identity converter -/
import SMD.Proofs.NodeRemove
import SMD.Proofs.NodeFieldSet
import SMD.Proofs.OwnershipShape
import SMD.Proofs.FirstApply
import SMD.Proofs.MergeNodes
import SMD.Proofs.AlongPath
import SMD.Proofs.AlongFieldSet
import SMD.Proofs.EnsureNamed
import SMD.Proofs.PruneShape
import SMD.Properties.C14Nodes
import SMD.Properties.C15
set_option linter.unusedSimpArgs false
set_option linter.unusedVariables false
set_option linter.unnecessarySimpa false
namespace SMD
namespace NodeLaws
open SetTrie CmpX

/-! ### the key fields of the items on the way are nodes too -/

theorem identity_key_lookup {s : Schema} {lt : ListT} {m : List (String × Value)} {fl : FieldList}
    (hnd : noKeyDefault s lt = true) (hid : Conf.identity s lt (.map m) = some (.key fl)) :
    ∀ n ∈ fl.map (·.1), n ∈ lt.keys ∧ ∃ v, lookupField n m = some v := by
  intro n hn
  cases hke : lt.keys.isEmpty with
  | true => simp [Conf.identity, hke, Value.isScalar] at hid
  | false =>
    rw [identity_keyed s lt m hke] at hid
    by_cases hall : (lt.keys.map (keyVal s lt m)).all Option.isSome = true
    · rw [if_pos hall] at hid
      simp only [Option.some.injEq, PE.key.injEq] at hid
      subst hid
      rw [mem_map_fst_sort] at hn
      obtain ⟨e, he, rfl⟩ := List.mem_map.1 hn
      obtain ⟨oe, hoe, hoe'⟩ := List.mem_filterMap.1 he
      simp only [id] at hoe'
      subst hoe'
      obtain ⟨k, hk, hkv⟩ := List.mem_map.1 hoe
      have hfst := keyVal_fst s lt m k e hkv
      rw [hfst]
      refine ⟨hk, ?_⟩
      rw [keyVal_nodefault hnd m hk] at hkv
      cases hl : lookupField k m with
      | none => rw [hl] at hkv; cases hkv
      | some v => exact ⟨v, rfl⟩
    · rw [if_neg hall] at hid; cases hid

/-- the key fields of the keyed items on the way to a scalar are scalar nodes of the object -/
theorem Along.keyPath {s : Schema} {tr : TypeRef} {v : Value} {p : Path} {trx : TypeRef} {x : Value}
    (h : Along s tr v p trx x) : x.isScalar = true → validateV s true tr v = .ok () → keysScalar s tr v = true →
    ∀ q ∈ keyPaths p, ∃ trq y, Along s tr v q trq y ∧ y.isScalar = true := by
  induction h with
  | nil tr v => intro _ _ _ q hq; cases hq
  | @field tr a mt m k c rest tr' x hres ha hat hl hal ih =>
    intro hxs hv hks q hq
    obtain ⟨a', mt', hres', ha', hvf⟩ := validateV_map_inv hv
    rw [hres] at hres'; cases hres'
    rw [ha] at ha'; cases ha'
    simp only [keyPaths, List.nil_append, List.mem_map] at hq
    obtain ⟨q', hq', rfl⟩ := hq
    obtain ⟨trq, y, h1, h2⟩ := ih hxs (validateFields_mem s true mt m hvf (k, c) (mem_of_lookupField hl))
      (keysScalar_map_child s tr a mt m hres ha hat hks k c hl) q' hq'
    exact ⟨trq, y, Along.field hres ha hat hl h1, h2⟩
  | @item tr a lt l1 c l2 pe rest tr' x hres ha hrel hnd hhit h1 h2 hal ih =>
    intro hxs hv hks q hq
    obtain ⟨a', lt', hres', ha', hitems⟩ := validateV_list_inv hv
    rw [hres] at hres'; cases hres'
    rw [ha] at ha'; cases ha'
    have hat : lt.rel ≠ "atomic" := by rw [hrel]; decide
    have hall := validateItems_assoc s true lt hrel _ [] 0 hitems
    have hksl := keysScalar_list_items s tr a lt _ hres ha hat hks
    have hcl : c ∈ l1 ++ c :: l2 := by simp
    obtain ⟨_, hvc⟩ := hall c hcl
    obtain ⟨hksc, hks1⟩ := hksl c hcl
    simp only [keyPaths, List.mem_append, List.mem_map] at hq
    rcases hq with hq | ⟨q', hq', rfl⟩
    · obtain ⟨_, _, id, hid, heq⟩ := hitOf_inv hhit
      cases pe with
      | key fl =>
        simp only [List.mem_map] at hq
        obtain ⟨kv, hkv, rfl⟩ := hq
        -- the identity of the item is a key with the same names
        have hidk : ∃ fl0, id = PE.key fl0 := by
          cases id <;> simp [PE.equals] at heq
          exact ⟨_, rfl⟩
        obtain ⟨fl0, rfl⟩ := hidk
        obtain ⟨fl1, h1', hnames⟩ := key_of_equals heq
        cases h1'
        have hke : lt.keys.isEmpty = false := by
          cases hke : lt.keys.isEmpty with
          | false => rfl
          | true => have := (identity_set s lt hke c _ hid).2; cases this
        obtain ⟨m, rfl⟩ := identity_not_map s lt hke c _ hid
        obtain ⟨hkeys, v1, hl1⟩ := identity_key_lookup hnd hid kv.1 (by rw [hnames]; exact List.mem_map_of_mem hkv)
        have hv1s : v1.isScalar = true := itemKeysScalar_lookup _ _ _ _ hksc hkeys hl1
        -- the item is a non-atomic map: the path goes on below it
        cases hal with
        | nil => simp [Value.isScalar] at hxs
        | @field _ a2 mt2 _ k2 c2 rest2 _ _ hres2 ha2 hat2 hl2 hal2 =>
          exact ⟨_, v1, Along.item hres ha hrel hnd hhit h1 h2 (Along.field hres2 ha2 hat2 hl1 (Along.nil _ _)), hv1s⟩
      | _ => simp at hq
    · obtain ⟨trq, y, h3, h4⟩ := ih hxs hvc hks1 q' hq'
      exact ⟨trq, y, Along.item hres ha hrel hnd hhit h1 h2 h3, h4⟩

/-! ### the paths to keep: the prefixes of the path and the key fields on the way -/

theorem self_mem_prefixes : ∀ (p : Path), p ≠ [] → p ∈ C15.prefixes p
  | [], h => absurd rfl h
  | [pe], _ => by simp [C15.prefixes]
  | pe :: b :: rest, _ => by
    simp only [C15.prefixes, List.mem_cons, List.mem_map]
    right
    exact ⟨b :: rest, by simpa [C15.prefixes] using self_mem_prefixes (b :: rest) (by simp), rfl⟩

theorem prefixes_isPrefix : ∀ (p q : Path), q ∈ C15.prefixes p → q <+: p ∧ q ≠ []
  | [], q, h => by cases h
  | pe :: rest, q, h => by
    simp only [C15.prefixes, List.mem_cons, List.mem_map] at h
    rcases h with rfl | ⟨q', hq', rfl⟩
    · exact ⟨by simp, by simp⟩
    · exact ⟨by simpa using (prefixes_isPrefix rest q' hq').1, by simp⟩

theorem mem_prefixes_of_isPrefix : ∀ (p q : Path), q <+: p → q ≠ [] → q ∈ C15.prefixes p
  | [], q, h, hne => by simp at h; exact absurd h hne
  | pe :: rest, [], _, hne => absurd rfl hne
  | pe :: rest, b :: q', h, _ => by
    rw [List.cons_prefix_cons] at h
    obtain ⟨rfl, h'⟩ := h
    simp only [C15.prefixes, List.mem_cons, List.mem_map]
    by_cases hq : q' = []
    · left; rw [hq]
    · right; exact ⟨q', mem_prefixes_of_isPrefix rest q' h' hq, rfl⟩

/-- the paths to keep for a key-field path are among those of the path -/
theorem req_of_keyPath : ∀ (p q : Path), q ∈ keyPaths p →
    (∀ r ∈ C15.prefixes q, r ∈ C15.prefixes p ∨ r ∈ keyPaths p) ∧ (∀ r ∈ keyPaths q, r ∈ keyPaths p)
  | [], q, h => by cases h
  | pe :: rest, q, h => by
    simp only [keyPaths, List.mem_append, List.mem_map] at h
    rcases h with h | ⟨q', hq', rfl⟩
    · cases pe with
      | key fl =>
        simp only [List.mem_map] at h
        obtain ⟨kv, hkv, rfl⟩ := h
        constructor
        · intro r hr
          simp only [C15.prefixes, List.map_cons, List.map_nil, List.mem_cons, List.not_mem_nil, or_false] at hr
          rcases hr with rfl | rfl
          · left; simp [C15.prefixes]
          · right; simp only [keyPaths, List.mem_append, List.mem_map]; left; exact ⟨kv, hkv, rfl⟩
        · intro r hr
          simp only [keyPaths, List.map_nil, List.append_nil, List.nil_append, List.mem_map] at hr
          simp only [keyPaths, List.mem_append, List.mem_map]
          left; exact hr
      | _ => simp at h
    · obtain ⟨ih1, ih2⟩ := req_of_keyPath rest q' hq'
      constructor
      · intro r hr
        simp only [C15.prefixes, List.mem_cons, List.mem_map] at hr
        rcases hr with rfl | ⟨r', hr', rfl⟩
        · left; simp [C15.prefixes]
        · rcases ih1 r' hr' with h | h
          · left; exact prefixes_cons_mem h
          · right; exact keyPaths_cons_mem h
      · intro r hr
        simp only [keyPaths, List.mem_append, List.mem_map] at hr ⊢
        rcases hr with hr | ⟨r', hr', rfl⟩
        · left; exact hr
        · right; exact ⟨r', ih2 r' hr', rfl⟩

theorem notIndex_of_isIndex_false {p : Path} (h : ∀ pe ∈ p, PE.isIndex pe = false) :
    ∀ pe ∈ p, pe.notIndex = true := by
  intro pe hpe
  have := h pe hpe
  cases pe <;> simp_all [PE.isIndex, PE.notIndex]

theorem validateV_true_of_false' (s : Schema) (tr : TypeRef) (v : Value) (h : validateV s false tr v = .ok ()) :
    validateV s true tr v = .ok () :=
  (validateV_iff s true v tr).2 (conforms_dup_mono s v tr ((validateV_iff s false v tr).1 h))

/-- removing from a validated object a set that avoids the prefixes of a path to a scalar and the key
fields of the items on the way keeps the scalar -/
theorem removeItemsTV_keeps_leaf {s : Schema} {tv : TV} {p : Path} {trx : TypeRef} {x : Value} {S : SetTrie}
    (hal : Along s tv.type tv.value p trx x) (hv : validateV s true tv.type tv.value = .ok ())
    (hks : keysScalar s tv.type tv.value = true) (hw : S.wf = true) (hxs : x.isScalar = true)
    (hpre : ∀ r ∈ C15.prefixes p, S.has r = false) (hkey : ∀ r ∈ keyPaths p, S.has r = false) :
    Along s tv.type (removeItemsTV s tv S).value p trx x := by
  obtain ⟨val, typ⟩ := tv
  simp only at hal hv hks ⊢
  by_cases hp : p = []
  · subst hp
    cases hal
    simp only [removeItemsTV]
    rw [removeV_scalar hv hxs]
    exact Along.nil _ _
  · obtain ⟨v', h1, h2⟩ := removeV_along hal S hv hks hw hp hxs hpre hkey
    simp only [removeItemsTV, h1]
    exact h2

end NodeLaws

open NodeLaws SetTrie in
/-- `toFieldSet` in terms of the path list -/
theorem toFieldSet_inv {sc : Schema} {tv : TV} {fs : SetTrie} (h : toFieldSet sc tv = .ok fs) :
    ∃ ps, fsV sc tv.type tv.value = .ok ps ∧ fs = SetTrie.ofPaths ps := by
  simp only [toFieldSet, toFieldSetPaths] at h
  split at h
  · next ps hps => simp only [Res.ok.injEq] at h; exact ⟨ps, hps, h.symm⟩
  · cases h
  · cases h

open NodeLaws SetTrie in
/-- single version, identity converter: a scalar of the merged object outside the applier's previous
record (closed under named parents), the items on the way and their key fields being outside too,
survives pruning -/
theorem prune_keeps_outside_last_leaf (u : Updater) (sc : Schema) (merged out : TV) (managers : Managed)
    (mgr : String) (last : VersionedSet) (v : String) (p : Path) (x : Value)
    (hconv : u.converter = Converter.identity)
    (hall : ∀ r ∈ managers, r.2.version = v) (hlast : last.version = v)
    (hvalid : validateV sc false merged.type merged.value = .ok ())
    (hprune : prune u sc merged managers mgr (some last) = .ok out)
    (houtside : ∀ q, q <+: p → q ≠ [] → (last.set.ensureNamed sc merged.type).has q = false)
    (hx : Nodes.valueAt sc merged.type merged.value p = some x)
    (hlwf : last.set.wf = true)
    (hkeys : ∀ q ∈ keyPaths p, (last.set.ensureNamed sc merged.type).has q = false)
    (hni : ∀ pe ∈ p, PE.isIndex pe = false)
    (hatomic : throughAtomic sc merged.type merged.value p = false)
    (hnd : nkdOn sc merged.type merged.value p = true)
    (hks : keysScalar sc merged.type merged.value = true)
    (hleaf : x.isScalar = true) :
    Nodes.valueAt sc out.type out.value p = some x := by
  rcases prune_single_inv u sc merged out managers mgr last v hconv hall hlast hprune with rfl | h
  · exact hx
  · obtain ⟨ms, pr, ps, hms, hps, rfl, _⟩ := h
    obtain ⟨trx, hal⟩ := along_of_valueAt sc p _ _ x hvalid (notIndex_of_isIndex_false hni) hatomic hnd hx
    have hvt := validateV_true_of_false' sc _ _ hvalid
    have hwE : (ms.ensureNamed sc merged.type).wf = true := wf_ensureNamed _ _ _ (toFieldSet_wf hms)
    have hwX : ((ms.ensureNamed sc merged.type).diff (ps.ensureNamed sc merged.type)).wf = true :=
      wf_diff_left _ _ hwE
    have hwL : (last.set.ensureNamed sc merged.type).wf = true := wf_ensureNamed _ _ _ hlwf
    have hS : ∀ q, (last.set.ensureNamed sc merged.type).has q = false →
        (((ms.ensureNamed sc merged.type).diff (ps.ensureNamed sc merged.type)).inter
          (last.set.ensureNamed sc merged.type)).has q = false := by
      intro q hq
      rw [SetTrie.has_inter q _ _ hwX hwL, hq, Bool.and_false]
    exact (removeItemsTV_keeps_leaf hal hvt hks (wf_inter _ _ hwX hwL) hleaf
      (fun r hr => hS r (houtside r (prefixes_isPrefix p r hr).1 (prefixes_isPrefix p r hr).2))
      (fun r hr => hS r (hkeys r hr))).valueAt

open NodeLaws SetTrie in
/-- the closed field set of what is left after a removal that avoids the path and the key fields on
the way contains every prefix of the path and every key field on the way -/
theorem closed_fieldset_after_removal {sc : Schema} {tv : TV} {p : Path} {trx : TypeRef} {x : Value} {S fs : SetTrie}
    (hal : Along sc tv.type tv.value p trx x) (hv : validateV sc true tv.type tv.value = .ok ())
    (hks : keysScalar sc tv.type tv.value = true) (hw : S.wf = true) (hxs : x.isScalar = true)
    (hpre : ∀ r ∈ C15.prefixes p, S.has r = false) (hkey : ∀ r ∈ keyPaths p, S.has r = false)
    (hfs : toFieldSet sc (removeItemsTV sc tv S) = .ok fs) :
    (∀ q ∈ C15.prefixes p, (fs.ensureNamed sc tv.type).has q = true) ∧
    (∀ q ∈ keyPaths p, (fs.ensureNamed sc tv.type).has q = true) := by
  obtain ⟨ps, hps, rfl⟩ := toFieldSet_inv hfs
  have hty : (removeItemsTV sc tv S).type = tv.type := rfl
  rw [hty] at hps
  constructor
  · have hal2 := removeItemsTV_keeps_leaf hal hv hks hw hxs hpre hkey
    exact hal2.closed_has hps (fsV_scalar (hal.valid hv) hxs)
  · intro q hq
    obtain ⟨trq, y, halq, hys⟩ := hal.keyPath hxs hv hks q hq
    obtain ⟨hr1, hr2⟩ := req_of_keyPath p q hq
    have hal2 := removeItemsTV_keeps_leaf halq hv hks hw hys
      (fun r hr => by rcases hr1 r hr with h | h; exact hpre r h; exact hkey r h)
      (fun r hr => hkey r (hr2 r hr))
    exact hal2.closed_has hps (fsV_scalar (halq.valid hv) hys) q
      (self_mem_prefixes q (keyPaths_ne_nil p q hq))

open NodeLaws SetTrie in
/-- single version, identity converter: a scalar of the merged object at a path a record contains
survives pruning when every prefix of the path and every key field of an item on the way is in the
closed set of some record -/
theorem prune_keeps_owned_leaf (u : Updater) (sc : Schema) (merged out : TV) (managers : Managed)
    (mgr : String) (last : VersionedSet) (v : String) (p : Path) (x : Value)
    (hconv : u.converter = Converter.identity)
    (hall : ∀ r ∈ managers, r.2.version = v) (hlast : last.version = v)
    (hvalid : validateV sc false merged.type merged.value = .ok ())
    (hprune : prune u sc merged managers mgr (some last) = .ok out)
    (hx : Nodes.valueAt sc merged.type merged.value p = some x)
    (hmwf : ∀ r ∈ managers, r.2.set.wf = true) (hlwf : last.set.wf = true)
    (hway : ∀ q, q <+: p → q ≠ [] → ∃ r ∈ managers, (r.2.set.ensureNamed sc merged.type).has q = true)
    (hkeys : ∀ q ∈ keyPaths p, ∃ r ∈ managers, (r.2.set.ensureNamed sc merged.type).has q = true)
    (hni : ∀ pe ∈ p, PE.isIndex pe = false)
    (hatomic : throughAtomic sc merged.type merged.value p = false)
    (hnd : nkdOn sc merged.type merged.value p = true)
    (hks : keysScalar sc merged.type merged.value = true)
    (hleaf : x.isScalar = true) :
    Nodes.valueAt sc out.type out.value p = some x := by
  rcases prune_single_inv u sc merged out managers mgr last v hconv hall hlast hprune with rfl | h
  · exact hx
  · obtain ⟨ms, pr, ps, hms, hps, rfl, hstage⟩ := h
    obtain ⟨trx, hal⟩ := along_of_valueAt sc p _ _ x hvalid (notIndex_of_isIndex_false hni) hatomic hnd hx
    have hvt := validateV_true_of_false' sc _ _ hvalid
    have hwE : (ms.ensureNamed sc merged.type).wf = true := wf_ensureNamed _ _ _ (toFieldSet_wf hms)
    have hwP : (ps.ensureNamed sc merged.type).wf = true := wf_ensureNamed _ _ _ (toFieldSet_wf hps)
    have hwX : ((ms.ensureNamed sc merged.type).diff (ps.ensureNamed sc merged.type)).wf = true :=
      wf_diff_left _ _ hwE
    have hwL : (last.set.ensureNamed sc merged.type).wf = true := wf_ensureNamed _ _ _ hlwf
    -- the closed field set of the second stage contains the paths to keep
    have hP2 : (∀ q ∈ C15.prefixes p, (ps.ensureNamed sc merged.type).has q = true) ∧
        (∀ q ∈ keyPaths p, (ps.ensureNamed sc merged.type).has q = true) := by
      rcases hstage with ⟨hnil, rfl⟩ | ⟨hne, ps1, hps1, rfl⟩
      · -- no record: impossible, a record owns the path (or the path is empty)
        subst hnil
        constructor
        · intro q hq
          obtain ⟨r, hr, _⟩ := hway q (prefixes_isPrefix p q hq).1 (prefixes_isPrefix p q hq).2
          cases hr
        · intro q hq
          obtain ⟨r, hr, _⟩ := hkeys q hq
          cases hr
      · have hwM : ((unionAll managers).ensureNamed sc merged.type).wf = true :=
          wf_ensureNamed _ _ _ (wf_unionAll managers hmwf)
        have hwP1 : (ps1.ensureNamed sc merged.type).wf = true := wf_ensureNamed _ _ _ (toFieldSet_wf hps1)
        have hwU := SetTrie.wf_union _ _ hwP1 hwM
        have hinM : ∀ q, (∃ r ∈ managers, (r.2.set.ensureNamed sc merged.type).has q = true) →
            ((ms.ensureNamed sc merged.type).diff
              ((ps1.ensureNamed sc merged.type).union ((unionAll managers).ensureNamed sc merged.type))).has q = false := by
          rintro q ⟨r, hr, hq⟩
          have hqM : ((unionAll managers).ensureNamed sc merged.type).has q = true :=
            has_ensureNamed_mono sc merged.type r.2.set (unionAll managers) (hmwf r hr) (wf_unionAll managers hmwf)
              (fun q' hq' => by
                rw [has_unionAll managers hmwf q']
                exact List.any_eq_true.2 ⟨r, hr, hq'⟩) q hq
          rw [SetTrie.has_diff q _ _ hwE hwU, SetTrie.has_union q _ _ hwP1 hwM, hqM]
          simp
        exact closed_fieldset_after_removal hal hvt hks (SetTrie.wf_diff _ _ hwE hwU) hleaf
          (fun r hr => hinM r (hway r (prefixes_isPrefix p r hr).1 (prefixes_isPrefix p r hr).2))
          (fun r hr => hinM r (hkeys r hr)) hps
    have hS : ∀ q, (ps.ensureNamed sc merged.type).has q = true →
        (((ms.ensureNamed sc merged.type).diff (ps.ensureNamed sc merged.type)).inter
          (last.set.ensureNamed sc merged.type)).has q = false := by
      intro q hq
      rw [SetTrie.has_inter q _ _ hwX hwL, SetTrie.has_diff q _ _ hwE hwP, hq]
      simp
    exact (removeItemsTV_keeps_leaf hal hvt hks (wf_inter _ _ hwX hwL) hleaf
      (fun r hr => hS r (hP2.1 r hr)) (fun r hr => hS r (hP2.2 r hr))).valueAt

namespace NodeLaws
end NodeLaws
end SMD
