import SMD.Proofs.UpdaterShape
import SMD.Proofs.SetOpsKernel
namespace SMD

/-- the union of all recorded sets, as `managedAtVersion` folds it -/
def unionAll (m : Managed) : SetTrie := m.foldl (fun acc x => acc.union x.2.set) SetTrie.empty

theorem wf_foldUnion (m : Managed) (hwf : ∀ x ∈ m, x.2.set.wf = true) :
    ∀ s : SetTrie, s.wf = true → (m.foldl (fun acc x => acc.union x.2.set) s).wf = true := by
  induction m with
  | nil => intro s hs; exact hs
  | cons x rest ih =>
    intro s hs
    simp only [List.foldl_cons]
    apply ih (fun y hy => hwf y (List.mem_cons_of_mem _ hy))
    exact SetTrie.wf_union _ _ hs (hwf x (List.mem_cons_self ..))

theorem wf_unionAll (m : Managed) (hwf : ∀ x ∈ m, x.2.set.wf = true) : (unionAll m).wf = true :=
  wf_foldUnion m hwf _ SetTrie.wf_empty

theorem has_foldUnion (m : Managed) (hwf : ∀ x ∈ m, x.2.set.wf = true) (q : Path) :
    ∀ s : SetTrie, s.wf = true →
      (m.foldl (fun acc x => acc.union x.2.set) s).has q = (s.has q || m.any (fun x => x.2.set.has q)) := by
  induction m with
  | nil => intro s hs; simp
  | cons x rest ih =>
    intro s hs
    have hx := hwf x (List.mem_cons_self ..)
    simp only [List.foldl_cons, List.any_cons]
    rw [ih (fun y hy => hwf y (List.mem_cons_of_mem _ hy)) _ (SetTrie.wf_union _ _ hs hx),
      SetTrie.has_union q _ _ hs hx, Bool.or_assoc]

theorem has_unionAll (m : Managed) (hwf : ∀ x ∈ m, x.2.set.wf = true) (q : Path) :
    (unionAll m).has q = m.any (fun x => x.2.set.has q) := by
  unfold unionAll
  rw [has_foldUnion m hwf q _ SetTrie.wf_empty, SetTrie.has_empty, Bool.false_or]

theorem managedAtVersion_fold_single (v : String) (m : Managed) (h : ∀ x ∈ m, x.2.version = v) :
    ∀ s : SetTrie,
      m.foldl (fun (acc : List (String × SetTrie)) (x : String × VersionedSet) =>
        managedAtVersion.upd x x.2.version acc) [(v, s)] =
      [(v, m.foldl (fun acc x => acc.union x.2.set) s)] := by
  induction m with
  | nil => intro s; rfl
  | cons x rest ih =>
    intro s
    have hx : x.2.version = v := h x (List.mem_cons_self ..)
    simp only [List.foldl_cons, hx, managedAtVersion.upd, beq_self_eq_true, ↓reduceIte]
    exact ih (fun y hy => h y (List.mem_cons_of_mem _ hy)) _

/-- with all records at one version there is one entry: the union of all sets -/
theorem managedAtVersion_allAt (v : String) (m : Managed) (h : ∀ x ∈ m, x.2.version = v) :
    managedAtVersion m = if m = [] then [] else [(v, unionAll m)] := by
  cases m with
  | nil => rfl
  | cons x rest =>
    have hx : x.2.version = v := h x (List.mem_cons_self ..)
    simp only [reduceCtorEq, ↓reduceIte]
    unfold managedAtVersion unionAll
    simp only [List.foldl_cons, hx, managedAtVersion.upd]
    exact managedAtVersion_fold_single v rest (fun y hy => h y (List.mem_cons_of_mem _ hy)) _

/-! ### the identity converter -/

theorem addBackForVersion_identity (u : Updater) (sc : Schema) (merged pruned : TV) (version : String)
    (managed : SetTrie) (hconv : u.converter = Converter.identity) :
    addBackForVersion u sc merged pruned version managed =
      liftRes (toFieldSet sc merged) fun mergedSet =>
      liftRes (toFieldSet sc pruned) fun prunedSet =>
        .ok (merged, removeItemsTV sc merged
          ((mergedSet.ensureNamed sc merged.type).diff
            ((prunedSet.ensureNamed sc merged.type).union (managed.ensureNamed sc merged.type)))) := by
  unfold addBackForVersion
  rw [hconv]
  rfl

theorem addBackOwned_nil (u : Updater) (sc : Schema) (merged pruned : TV) (ver : String) :
    addBackOwned u sc merged pruned ver [] = .ok pruned := rfl

theorem addBackOwned_single (u : Updater) (sc : Schema) (merged pruned : TV) (v : String) (managers : Managed)
    (hall : ∀ x ∈ managers, x.2.version = v) (hne : managers ≠ []) :
    addBackOwned u sc merged pruned v managers =
      match addBackForVersion u sc merged pruned v (unionAll managers) with
      | .ok (_, pruned) => .ok pruned
      | .conflict c => .conflict c
      | .err => .err
      | .panic => .panic := by
  unfold addBackOwned
  rw [managedAtVersion_allAt v managers hall]
  simp only [hne, ↓reduceIte, List.find?_cons, beq_self_eq_true, List.filter_cons, bne_self_eq_false,
    Bool.false_eq_true, List.filter_nil, List.foldl_nil]
  cases addBackForVersion u sc merged pruned v (unionAll managers) with
  | ok a => obtain ⟨a1, a2⟩ := a; rfl
  | _ => rfl

theorem addBackDangling_identity(u : Updater) (sc : Schema) (merged pruned : TV) (last : VersionedSet)
    (hconv : u.converter = Converter.identity) :
    addBackDangling u sc merged pruned last =
      liftRes (toFieldSet sc pruned) fun prunedSet =>
      liftRes (toFieldSet sc merged) fun mergedSet =>
        .ok (removeItemsTV sc merged
          (((mergedSet.ensureNamed sc merged.type).diff (prunedSet.ensureNamed sc merged.type)).inter
            (last.set.ensureNamed sc merged.type))) := by
  unfold addBackDangling
  rw [hconv]
  rfl

theorem liftRes_eq_ok {α β : Type} {r : Res α} {k : α → Outcome β} {b : β} (h : liftRes r k = .ok b) :
    ∃ a, r = .ok a ∧ k a = .ok b := by
  cases r with
  | ok a => exact ⟨a, rfl, h⟩
  | err => simp [liftRes] at h
  | panic => simp [liftRes] at h

theorem addBackDangling_identity_ok (u : Updater) (sc : Schema) (merged pruned out : TV) (last : VersionedSet)
    (hconv : u.converter = Converter.identity)
    (h : addBackDangling u sc merged pruned last = .ok out) :
    ∃ ms ps, toFieldSet sc merged = .ok ms ∧ toFieldSet sc pruned = .ok ps ∧
      out = removeItemsTV sc merged
        (((ms.ensureNamed sc merged.type).diff (ps.ensureNamed sc merged.type)).inter
          (last.set.ensureNamed sc merged.type)) := by
  rw [addBackDangling_identity _ _ _ _ _ hconv] at h
  obtain ⟨ps, hps, h⟩ := liftRes_eq_ok h
  obtain ⟨ms, hms, h⟩ := liftRes_eq_ok h
  exact ⟨ms, ps, hms, hps, (Outcome.ok.inj h).symm⟩

theorem addBackForVersion_identity_ok (u : Updater) (sc : Schema) (merged pruned : TV) (version : String)
    (managed : SetTrie) (r : TV × TV) (hconv : u.converter = Converter.identity)
    (h : addBackForVersion u sc merged pruned version managed = .ok r) :
    ∃ ms ps, toFieldSet sc merged = .ok ms ∧ toFieldSet sc pruned = .ok ps ∧
      r = (merged, removeItemsTV sc merged
          ((ms.ensureNamed sc merged.type).diff
            ((ps.ensureNamed sc merged.type).union (managed.ensureNamed sc merged.type)))) := by
  rw [addBackForVersion_identity _ _ _ _ _ _ hconv] at h
  obtain ⟨ms, hms, h⟩ := liftRes_eq_ok h
  obtain ⟨ps, hps, h⟩ := liftRes_eq_ok h
  exact ⟨ms, ps, hms, hps, (Outcome.ok.inj h).symm⟩

/-- single version, identity converter: what `prune` returns -/
theorem prune_single_inv (u : Updater) (sc : Schema) (merged out : TV) (managers : Managed) (mgr : String)
    (last : VersionedSet) (v : String)
    (hconv : u.converter = Converter.identity)
    (hall : ∀ x ∈ managers, x.2.version = v) (hlast : last.version = v)
    (hprune : prune u sc merged managers mgr (some last) = .ok out) :
    out = merged ∨
    ∃ ms pr ps, toFieldSet sc merged = .ok ms ∧ toFieldSet sc pr = .ok ps ∧
      out = removeItemsTV sc merged
        (((ms.ensureNamed sc merged.type).diff (ps.ensureNamed sc merged.type)).inter
          (last.set.ensureNamed sc merged.type)) ∧
      ((managers = [] ∧ pr = removeItemsTV sc merged (last.set.ensureNamed sc merged.type)) ∨
       (managers ≠ [] ∧ ∃ ps1,
          toFieldSet sc (removeItemsTV sc merged (last.set.ensureNamed sc merged.type)) = .ok ps1 ∧
          pr = removeItemsTV sc merged
            ((ms.ensureNamed sc merged.type).diff
              ((ps1.ensureNamed sc merged.type).union ((unionAll managers).ensureNamed sc merged.type))))) := by
  unfold prune at hprune
  simp only at hprune
  split at hprune
  · left; exact (Outcome.ok.inj hprune).symm
  · right
    have hc : ∀ (x : TV) (w : String), u.converter.convert x w = .ok x := by
      intro x w; rw [hconv]; rfl
    rw [hc] at hprune
    simp only at hprune
    split at hprune
    · rename_i pr hown
      split at hprune
      · rename_i out' hdang
        rw [hc] at hprune
        simp only at hprune
        have hout : out' = out := Outcome.ok.inj hprune
        subst hout
        obtain ⟨ms, ps, hms, hps, hout⟩ := addBackDangling_identity_ok _ _ _ _ _ _ hconv hdang
        refine ⟨ms, pr, ps, hms, hps, hout, ?_⟩
        by_cases hne : managers = []
        · left
          subst hne
          rw [addBackOwned_nil] at hown
          exact ⟨rfl, (Outcome.ok.inj hown).symm⟩
        · right
          refine ⟨hne, ?_⟩
          rw [hlast, addBackOwned_single _ _ _ _ _ _ hall hne] at hown
          split at hown
          · rename_i m' p' hfv
            obtain ⟨ms1, ps1, hms1, hps1, hr⟩ := addBackForVersion_identity_ok _ _ _ _ _ _ _ hconv hfv
            have hp : p' = pr := Outcome.ok.inj hown
            subst hp
            rw [hms] at hms1
            have : ms = ms1 := Res.ok.inj hms1
            subst this
            exact ⟨ps1, hps1, (Prod.mk.inj hr).2⟩
          · cases hown
          · cases hown
          · cases hown
      · rename_i e hne
        exact absurd hprune (hne out)
    · rename_i e hne
      exact absurd hprune (hne out)

end SMD
