/-
Concrete runs of the model refuting the two statements of `SMD/Properties/C07Reapply.lean` as first
written, evaluated by the kernel (same technique as `SMD/Proofs/PruneCounterexamples.lean`).

World K of `PruneCounterexamples` (empty schema): the object is a map of lists keyed by `name`; the item
type declares the fields `name` (with the schema default "d") and `x`.  Identity converter, no ignore
configuration, version "v", no record before the first apply.

The live object holds the item `{name: d}` of the list `l`; the manager "m" applies a configuration whose
list `l` holds the EMPTY item `{}` (its key takes the schema default: the same item `name=d`).  The field
set of the configuration holds the item `.l[name=d]` but not its key field `.l[name=d].name` (the
configuration does not spell it out), and nobody owns that key field.  On the re-apply `prune` first
removes what "m" owned before (the item), finds the key field `.l[name=d].name` owned by nobody and
removes it from the merged object in its second stage: the item becomes `null`, has no identity any more,
the third stage no longer finds `.l[name=d]` in what is left and removes the item: the second apply
returns `{…, l: null}` instead of reporting a no-op.
-/
import SMD.Proofs.PruneCounterexamples
set_option maxRecDepth 100000
namespace SMD.CounterReapply
open SMD SMD.C14 SetTrie SMD.CounterPrune

/-! ### the second apply after an apply that changed nothing -/

/-- `{l: [{name: d}]}` -/
def liveX : TV := ⟨.map [("l", .list [.map [("name", .str "d")]])], rootK⟩
/-- `{l: [{}]}`: the key of the item is the schema default `name=d` -/
def cfgX : TV := ⟨.map [("l", .list [.map []])], rootK⟩
/-- the field set of `cfgX`: `{.l, .l[name=d]}` -/
def setX : SetTrie := .node [.field "l"] [(.field "l", .node [keyD] [])]
def mfX : Managed := [("m", ⟨setX, "v", true⟩)]
/-- `{l: null}` -/
def outX : TV := ⟨.map [("l", .null)], rootK⟩

theorem x_first : apply upd sc0 liveX cfgX "v" [] "m" false = .ok (none, mfX) := by cx_eval_apply
theorem x_second : apply upd sc0 liveX cfgX "v" mfX "m" false = .ok (some outX, mfX) := by cx_eval_apply
theorem x_valid_live : validateV sc0 false liveX.type liveX.value = .ok () := rfl
theorem x_valid_cfg : validateV sc0 false cfgX.type cfgX.value = .ok () := rfl

/-! ### the second apply after an apply that changed the object -/

/-- `{k: [{name: e}], l: [{}]}` -/
def cfgY : TV := ⟨.map [("k", .list [.map [("name", .str "e")]]), ("l", .list [.map []])], rootK⟩
def keyE : PE := .key [("name", .str "e")]
/-- `{k: [{name: e}], l: [{name: d}]}` -/
def objY : TV := ⟨.map [("k", .list [.map [("name", .str "e")]]), ("l", .list [.map [("name", .str "d")]])], rootK⟩
/-- the field set of `cfgY`: `{.k, .l, .k[name=e], .k[name=e].name, .l[name=d]}` -/
def setY : SetTrie :=
  .node [.field "k", .field "l"]
    [(.field "k", .node [keyE] [(keyE, .node [.field "name"] [])]), (.field "l", .node [keyD] [])]
def mfY : Managed := [("m", ⟨setY, "v", true⟩)]
/-- `{k: [{name: e}], l: null}` -/
def outY : TV := ⟨.map [("k", .list [.map [("name", .str "e")]]), ("l", .null)], rootK⟩

theorem y_first : apply upd sc0 liveX cfgY "v" [] "m" false = .ok (some objY, mfY) := by cx_eval_apply
theorem y_second : apply upd sc0 objY cfgY "v" mfY "m" false = .ok (some outY, mfY) := by cx_eval_apply
theorem y_valid_cfg : validateV sc0 false cfgY.type cfgY.value = .ok () := rfl

/-! ### an empty map in the configuration (world S: `{spec: {a: scalar, b: set of scalars}}`, no key default anywhere)

The live object is `{spec: {a: 1, b: []}}`, owned by nobody; "m" applies `{spec: {}}`.  The field set of the
configuration is `{.spec}` (an empty map under a declared field is a member).  Nothing changes on the first
apply.  On the re-apply the second stage of `prune` removes the unowned `.spec.a`; what is left of `.spec`,
`{b: []}`, has an empty field set (an empty list under a declared field is not a member), so the third stage
no longer finds `.spec` and removes it: the second apply returns the object `null`. -/

/-- `{spec: {a: 1, b: []}}` -/
def liveS : TV := ⟨.map [("spec", .map [("a", .int 1), ("b", .list [])])], rootS⟩
/-- `{spec: {}}` -/
def cfgS : TV := ⟨.map [("spec", .map [])], rootS⟩
def mfS : Managed := [("m", ⟨.node [.field "spec"] [], "v", true⟩)]
def outS' : TV := ⟨.null, rootS⟩

theorem s_first : apply upd sc0 liveS cfgS "v" [] "m" false = .ok (none, mfS) := by cx_eval_apply
theorem s_second : apply upd sc0 liveS cfgS "v" mfS "m" false = .ok (some outS', mfS) := by cx_eval_apply
theorem s_valid_live : validateV sc0 false liveS.type liveS.value = .ok () := rfl
theorem s_valid_cfg : validateV sc0 false cfgS.type cfgS.value = .ok () := rfl

end SMD.CounterReapply
