/-
Non-vacuity of the re-proved C07 statements (`SMD/Properties/C07Reapply.lean`): the world of finding D11
(`SMD/Proofs/FindingWorlds.lean`: a struct with a list `l` of items keyed by `name` — no schema default —,
each carrying a set `sub` of numerics).  The manager a1 applies `{l: [{name: c, sub: [0]}]}` to the empty
object, then applies it again: every hypothesis of `first_reapply_is_noop_partial` holds, and the second
apply is the no-op.
-/
import SMD.Proofs.ReapplyNoop
import SMD.Proofs.ReapplyCounterexamples
set_option maxRecDepth 100000
namespace SMD.CounterReapply
open SMD SMD.C14 SetTrie SMD.CounterPrune NodeLaws
open FW

def nvMf : Managed := [("a1", ⟨setSub0, "v1", true⟩)]

theorem nv_first : apply plain sc live0 (tv cfgSub0) "v1" [] "a1" false = .ok (some (tv cfgSub0), nvMf) := by cx_eval_apply
theorem nv_second : apply plain sc (tv cfgSub0) (tv cfgSub0) "v1" nvMf "a1" false = .ok (none, nvMf) := by cx_eval_apply
theorem nv_rec : reconcileManaged plain sc (tv cfgSub0) nvMf = .ok nvMf := by
  with_unfolding_all rfl
theorem nv_fs : toFieldSet sc (tv cfgSub0) = .ok setSub0 := by with_unfolding_all rfl
theorem nv_paths : (setSub0.ensureNamed sc (tv cfgSub0).type).paths =
    [[.field "l"], [.field "l", FW.keyC], [.field "l", FW.keyC, .field "name"], [.field "l", FW.keyC, .field "sub"],
     [.field "l", FW.keyC, .field "sub", .value (.int 0)]] := by with_unfolding_all rfl

def nvP1 : Path := [.field "l", FW.keyC, .field "name"]
def nvP2 : Path := [.field "l", FW.keyC, .field "sub", .value (.int 0)]
theorem nv_p1_noindex : ∀ pe ∈ nvP1, PE.isIndex pe = false := by
  intro pe hpe
  simp only [nvP1, List.mem_cons, List.not_mem_nil, or_false] at hpe
  rcases hpe with rfl | rfl | rfl <;> rfl
theorem nv_p2_noindex : ∀ pe ∈ nvP2, PE.isIndex pe = false := by
  intro pe hpe
  simp only [nvP2, List.mem_cons, List.not_mem_nil, or_false] at hpe
  rcases hpe with rfl | rfl | rfl | rfl <;> rfl

theorem nv_gen : LeafGenerated sc (tv cfgSub0) setSub0 := by
  intro q hq
  rw [nv_paths] at hq
  simp only [List.mem_cons, List.not_mem_nil, or_false] at hq
  have w1 : Nodes.valueAt sc (tv cfgSub0).type (tv cfgSub0).value nvP1 = some (.str "c") ∧
      throughAtomic sc (tv cfgSub0).type (tv cfgSub0).value nvP1 = false ∧
      nkdOn sc (tv cfgSub0).type (tv cfgSub0).value nvP1 = true :=
    ⟨by with_unfolding_all rfl, by with_unfolding_all rfl, by with_unfolding_all rfl⟩
  have w2 : Nodes.valueAt sc (tv cfgSub0).type (tv cfgSub0).value nvP2 = some (.int 0) ∧
      throughAtomic sc (tv cfgSub0).type (tv cfgSub0).value nvP2 = false ∧
      nkdOn sc (tv cfgSub0).type (tv cfgSub0).value nvP2 = true :=
    ⟨by with_unfolding_all rfl, by with_unfolding_all rfl, by with_unfolding_all rfl⟩
  rcases hq with rfl | rfl | rfl | rfl | rfl
  · exact ⟨nvP1, _, .inl (by simp [nvP1, C15.prefixes]), w1.1, .inl rfl, nv_p1_noindex, w1.2.1, w1.2.2⟩
  · exact ⟨nvP1, _, .inl (by simp [nvP1, C15.prefixes]), w1.1, .inl rfl, nv_p1_noindex, w1.2.1, w1.2.2⟩
  · exact ⟨nvP1, _, .inl (by simp [nvP1, C15.prefixes]), w1.1, .inl rfl, nv_p1_noindex, w1.2.1, w1.2.2⟩
  · exact ⟨nvP2, _, .inl (by simp [nvP2, C15.prefixes]), w2.1, .inl rfl, nv_p2_noindex, w2.2.1, w2.2.2⟩
  · exact ⟨nvP2, _, .inl (by simp [nvP2, C15.prefixes]), w2.1, .inl rfl, nv_p2_noindex, w2.2.1, w2.2.2⟩

theorem nv_valid_live0 : validateV sc false live0.type live0.value = .ok () := by with_unfolding_all rfl
theorem nv_valid_cfg0 : validateV sc false (tv cfgSub0).type (tv cfgSub0).value = .ok () := by with_unfolding_all rfl
theorem nv_keys_live0 : keysScalar sc live0.type live0.value = true := by with_unfolding_all rfl
theorem nv_keys_cfg0 : keysScalar sc (tv cfgSub0).type (tv cfgSub0).value = true := by with_unfolding_all rfl

theorem nv_canon_live0 : C12.canonical live0.value = true := rfl
theorem nv_canon_cfg0 : C12.canonical (tv cfgSub0).value = true := by with_unfolding_all rfl

/-! ### leaves that are not scalars: an atomic list and a null under a scalar-typed field

Empty schema, the struct `{a: scalar, at: atomic list of scalars}`; the live object is `{at: [3]}`, the manager
"m" applies `{a: null, at: [1, 2]}` twice. -/

/-- an atomic list of scalars -/
def atomicListT : TypeRef := .mk none (.mk none (some (.mk cxScalar "atomic" [])) none) none
/-- `{a: scalar, at: atomic list}` -/
def rootL : TypeRef :=
  .mk none (.mk none none (some (.mk [.mk "a" cxScalar none, .mk "at" atomicListT none] [] .zero ""))) none
def liveL : TV := ⟨.map [("at", .list [.int 3])], rootL⟩
def cfgL : TV := ⟨.map [("a", .null), ("at", .list [.int 1, .int 2])], rootL⟩
/-- the field set of `cfgL`: `{.a, .at}` -/
def setL : SetTrie := .node [.field "a", .field "at"] []
def mfL : Managed := [("m", ⟨setL, "v", true⟩)]

theorem l_first : apply upd sc0 liveL cfgL "v" [] "m" false = .ok (some cfgL, mfL) := by cx_eval_apply
theorem l_second : apply upd sc0 cfgL cfgL "v" mfL "m" false = .ok (none, mfL) := by cx_eval_apply
theorem l_rec : reconcileManaged upd sc0 cfgL mfL = .ok mfL := by with_unfolding_all rfl
theorem l_fs : toFieldSet sc0 cfgL = .ok setL := by with_unfolding_all rfl
theorem l_paths : (setL.ensureNamed sc0 cfgL.type).paths = [[.field "a"], [.field "at"]] := by
  with_unfolding_all rfl
theorem l_valid_live : validateV sc0 false liveL.type liveL.value = .ok () := by with_unfolding_all rfl
theorem l_valid_cfg : validateV sc0 false cfgL.type cfgL.value = .ok () := by with_unfolding_all rfl
theorem l_keys_live : keysScalar sc0 liveL.type liveL.value = true := by with_unfolding_all rfl
theorem l_keys_cfg : keysScalar sc0 cfgL.type cfgL.value = true := by with_unfolding_all rfl
theorem l_canon_live : C12.canonical liveL.value = true := rfl
theorem l_canon_cfg : C12.canonical cfgL.value = true := by with_unfolding_all rfl

theorem l_gen : LeafGenerated sc0 cfgL setL := by
  intro q hq
  rw [l_paths] at hq
  simp only [List.mem_cons, List.not_mem_nil, or_false] at hq
  rcases hq with rfl | rfl
  · refine ⟨[.field "a"], .null, .inl (by simp [C15.prefixes]), by with_unfolding_all rfl,
      .inr ⟨rfl, by with_unfolding_all rfl⟩, ?_, by with_unfolding_all rfl, by with_unfolding_all rfl⟩
    intro pe hpe
    simp only [List.mem_singleton] at hpe
    subst hpe; rfl
  · refine ⟨[.field "at"], .list [.int 1, .int 2], .inl (by simp [C15.prefixes]), by with_unfolding_all rfl,
      .inr ⟨rfl, by with_unfolding_all rfl⟩, ?_, by with_unfolding_all rfl, by with_unfolding_all rfl⟩
    intro pe hpe
    simp only [List.mem_singleton] at hpe
    subst hpe; rfl

end SMD.CounterReapply
