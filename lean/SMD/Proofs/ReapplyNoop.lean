/-
Helper lemmas for `SMD/Properties/C07Reapply.lean` (re-applying the same configuration is a fixed point).

* sets without members, removal of such a set (`removeItemsTV_isEmpty_of_along`);
* the nodes of two `Equals` objects (`nodeAt_equals`), hence their comparison reports nothing
  (`compareTV_isSame_of_equals`);
* writing a record that is already there (`mfSet_of_mfGet`, `mfSet_filter_of_empty`);
* `updateCore` when the comparison reports nothing (`updateCore_same`);
* `prune` with a previous record every path of which leads to an owned leaf removes nothing
  (`prune_id_of_generated`, on top of `SMD/Proofs/LeafEnds.lean`);
* the fixed point (`apply_fixed_point`): an apply on an object into which the configuration is already
  merged, by a manager whose record is already the field set of the configuration, changes nothing;
* what a successful apply leaves in the managed fields (`apply_managedAt`), and the corollaries for two
  successive applies (`reapply_noop_of_merge`, `reapply_after_noop_of_merged`, `first_reapply_noop`,
  `first_reapply_after_noop`, `reapply_noop_of_absorbed`).
-/
import SMD.Proofs.ApplyPrune
import SMD.Proofs.PruneShape
import SMD.Proofs.EnsureNamed
import SMD.Proofs.MergeValid
import SMD.Proofs.CanonicalKeys
import SMD.Proofs.CompareExact
import SMD.Properties.C07
import SMD.Properties.C11
import SMD.Properties.C14
import SMD.Properties.C03Prune
import SMD.Proofs.LeafEnds
set_option linter.unusedSimpArgs false
set_option linter.unusedVariables false
set_option linter.unnecessarySimpa false
namespace SMD
open SetTrie NodeLaws

/-! ### sets without members -/

theorem isEmpty_of_no_member {t : SetTrie} (hw : t.wf = true) (h : ∀ q, t.has q = false) : t.isEmpty = true := by
  cases he : t.isEmpty with
  | true => rfl
  | false =>
    obtain ⟨q, hq⟩ := exists_has_of_not_isEmpty t hw he
    rw [h q] at hq; cases hq

theorem withPrefix_isEmpty_of_isEmpty (pe : PE) (D : SetTrie) (h : D.isEmpty = true) :
    (withPrefix pe D).isEmpty = true := by
  obtain ⟨m, c⟩ := D
  simp only [isEmpty_node, Bool.and_eq_true, List.all_eq_true] at h
  unfold withPrefix
  simp only [children]
  cases hg : getChild pe c with
  | none => rfl
  | some t =>
    obtain ⟨x, hx, _⟩ := mem_of_getChild hg
    exact h.2 _ hx

/-! ### removing a set without members -/

theorem removeFields_isEmpty (s : Schema) (t : MapT) (D : SetTrie) (h : D.isEmpty = true) :
    ∀ m, removeFields s false t D m = m
  | [] => by simp [removeFields]
  | (k, v) :: rest => by
    rw [removeFields_cons, removeFields_isEmpty s t D h rest]
    simp [remEntry, has_of_isEmpty _ D h, withPrefix_isEmpty_of_isEmpty _ D h]

theorem removeItems_isEmpty (s : Schema) (t : ListT) (D : SetTrie) (h : D.isEmpty = true) :
    ∀ l, removeItems s false t D l = l
  | [] => by simp [removeItems]
  | item :: rest => by
    rw [removeItems_cons, removeItems_isEmpty s t D h rest]
    simp [remItem, has_of_isEmpty _ D h, withPrefix_isEmpty_of_isEmpty _ D h]

/-- removing a set without members from an object in which a non-empty path designates a node (through
non-atomic maps and lists) changes nothing -/
theorem removeItemsTV_isEmpty_of_along {s : Schema} {tv : TV} {p : Path} {trx : TypeRef} {x : Value} {D : SetTrie}
    (hal : Along s tv.type tv.value p trx x) (hp : p ≠ []) (h : D.isEmpty = true) :
    removeItemsTV s tv D = tv := by
  obtain ⟨val, typ⟩ := tv
  simp only at hal
  simp only [removeItemsTV]
  congr 1
  cases hal with
  | nil => exact absurd rfl hp
  | field hres ha hat hl _ =>
    rename_i a mt m k c rest hrest
    have hm : m ≠ [] := by intro hm; subst hm; simp [lookupField] at hl
    rw [removeV_map_some D m hres ha hat (by rw [removeFields_isEmpty s mt D h]; exact hm) hm,
      removeFields_isEmpty s mt D h]
    rfl
  | item hres ha hrel hnd hhit h1 h2 _ =>
    rename_i a lt l1 c l2 pe rest hrest
    have hat : lt.rel ≠ "atomic" := by rw [hrel]; decide
    have hl : l1 ++ c :: l2 ≠ [] := by simp
    rw [removeV_list_some D _ hres ha hat (by rw [removeItems_isEmpty s lt D h]; exact hl) hl,
      removeItems_isEmpty s lt D h]
    rfl


/-! ### the nodes of two `Equals` objects -/

namespace CmpX

/-- two optional values: both absent, or both present and `Equals` -/
def OptEq : Option Value → Option Value → Prop
  | none, none => True
  | some x, some y => Value.equals x y = true
  | _, _ => False

theorem lookupField_equalsFields : ∀ (m m' : List (String × Value)), Value.equalsFields m m' = true →
    ∀ k, OptEq (lookupField k m) (lookupField k m')
  | [], [], _, k => by simp [lookupField, OptEq]
  | [], _ :: _, h, _ => by simp [Value.equalsFields] at h
  | _ :: _, [], h, _ => by simp [Value.equalsFields] at h
  | (k1, v1) :: as, (k2, v2) :: bs, h, k => by
    simp only [Value.equalsFields, Bool.and_eq_true, beq_iff_eq] at h
    obtain ⟨⟨rfl, hv⟩, hrest⟩ := h
    simp only [lookupField]
    split
    · exact hv
    · exact lookupField_equalsFields as bs hrest k

theorem identity_isSome_congr (s : Schema) (t : ListT) (a b : Value) (h : Value.equals a b = true) :
    (Conf.identity s t a).isSome = (Conf.identity s t b).isSome := by
  have hsh := sameShape_of_equals h
  cases hk : t.keys.isEmpty with
  | true =>
    simp only [Conf.identity, hk, if_true, hsh.1]
    split <;> rfl
  | false =>
    cases a with
    | map m =>
      cases b with
      | map m' =>
        simp only [Value.equals] at h
        rw [identity_keyed s t m hk, identity_keyed s t m' hk]
        have : (t.keys.map (keyVal s t m)).all Option.isSome = (t.keys.map (keyVal s t m')).all Option.isSome := by
          rw [List.all_map, List.all_map]
          congr 1
          funext k
          have := lookupField_equalsFields m m' h k
          simp only [Function.comp, keyVal]
          cases h1 : lookupField k m <;> cases h2 : lookupField k m' <;> simp_all [OptEq]
        rw [this]
        split <;> rfl
      | _ => simp [Value.equals] at h
    | _ =>
      cases b <;> simp [Value.equals] at h <;> simp [Conf.identity, hk]

/-- `Equals` items are addressed by `Equals` path elements -/
theorem peOf_equals_congr (s : Schema) (t : ListT) (a b : Value) (h : Value.equals a b = true) :
    PE.equals (peOf s t a) (peOf s t b) = true := by
  by_cases hrel : t.rel = "associative"
  · have hc := identity_isSome_congr s t a b h
    cases ha : Conf.identity s t a with
    | none =>
      rw [ha] at hc
      have hb : Conf.identity s t b = none := by
        cases hb : Conf.identity s t b with
        | none => rfl
        | some _ => rw [hb] at hc; cases hc
      simp [peOf, listItemToPE_eq s t _ hrel, ha, hb, PE.equals]
    | some pa =>
      rw [ha] at hc
      cases hb : Conf.identity s t b with
      | none => rw [hb] at hc; cases hc
      | some pb =>
        rw [peOf_of_identity hrel ha, peOf_of_identity hrel hb]
        exact identity_equals_congr s t a b pa pb h ha hb
  · have : ∀ c, peOf s t c = .invalid := by
      intro c
      simp only [peOf, listItemToPE]
      have : (t.rel != "associative") = true := by simpa using hrel
      simp [this]
    rw [this a, this b]; rfl

theorem find_equalsList (P Q : Value → Bool) (hPQ : ∀ a b, Value.equals a b = true → P a = Q b) :
    ∀ (l l' : List Value), Value.equalsList l l' = true → OptEq (l.find? P) (l'.find? Q)
  | [], [], _ => by simp [OptEq]
  | [], _ :: _, h => by simp [Value.equalsList] at h
  | _ :: _, [], h => by simp [Value.equalsList] at h
  | a :: as, b :: bs, h => by
    simp only [Value.equalsList, Bool.and_eq_true] at h
    simp only [List.find?_cons, hPQ a b h.1]
    split
    · exact h.1
    · exact find_equalsList P Q hPQ as bs h.2

/-- the same paths designate nodes in two `Equals` objects, and the nodes are `Equals` -/
theorem nodeAt_equals (s : Schema) : ∀ (p : Path) (tr : TypeRef) (a b : Value), Value.equals a b = true →
    OptEq (nodeAt s tr a p) (nodeAt s tr b p)
  | [], tr, a, b, h => by simpa [nodeAt, OptEq] using h
  | pe :: rest, tr, a, b, h => by
    have hsh := sameShape_of_equals h
    have hk : resolveKind s tr (some a) = resolveKind s tr (some b) := by
      simp only [resolveKind, deduceAtom_of_sameShape hsh]
    rw [nodeAt, nodeAt, hk]
    cases hK : resolveKind s tr (some b) with
    | none => simp [OptEq]
    | some K =>
      cases K with
      | invalid => simp [OptEq]
      | scalar t => simp [OptEq]
      | map t =>
        simp only []
        split
        · simp [OptEq]
        · cases a with
          | map m =>
            cases b with
            | map m' =>
              simp only [Value.equals] at h
              cases pe with
              | field k =>
                simp only []
                have := lookupField_equalsFields m m' h k
                cases h1 : lookupField k m <;> cases h2 : lookupField k m' <;> simp_all [OptEq]
                exact nodeAt_equals s rest _ _ _ this
              | _ => simp [OptEq]
            | _ => simp [Value.equals] at h
          | _ =>
            cases b <;> simp [Value.equals] at h <;> simp [OptEq]
      | list t =>
        simp only []
        split
        · simp [OptEq]
        · cases a with
          | list l =>
            cases b with
            | list l' =>
              simp only [Value.equals] at h
              simp only []
              have := find_equalsList (fun c => PE.equals (peOf s t c) pe) (fun c => PE.equals (peOf s t c) pe)
                (fun x y hxy => PE.equals_congr_left (peOf_equals_congr s t x y hxy) pe) l l' h
              cases h1 : l.find? (fun c => PE.equals (peOf s t c) pe) <;>
                cases h2 : l'.find? (fun c => PE.equals (peOf s t c) pe) <;> simp_all [OptEq]
              exact nodeAt_equals s rest _ _ _ this
            | _ => simp [Value.equals] at h
          | _ =>
            cases b <;> simp [Value.equals] at h <;> simp [OptEq]

/-- comparing two `Equals` objects reports nothing -/
theorem compareTV_isSame_of_equals (s : Schema) (l r : TV) (c : Comparison) (htype : l.type = r.type)
    (hl : validateV s false l.type l.value = .ok ()) (hr : validateV s false r.type r.value = .ok ())
    (h : compareTV s l r = .ok c) (heq : Value.equals l.value r.value = true) : c.isSame = true := by
  obtain ⟨w1, w2, w3⟩ := compareTV_wf h
  have key : ∀ p, OptEq (nodeAt s l.type l.value p) (nodeAt s r.type r.value p) := by
    intro p; rw [← htype]; exact nodeAt_equals s p l.type l.value r.value heq
  simp only [Comparison.isSame, Bool.and_eq_true]
  refine ⟨⟨isEmpty_of_no_member w1 ?_, isEmpty_of_no_member w2 ?_⟩, isEmpty_of_no_member w3 ?_⟩
  · intro p
    rw [compareTV_removed_nodes s l r c hl hr h p]
    have := key p
    cases h1 : nodeAt s l.type l.value p <;> cases h2 : nodeAt s r.type r.value p <;> simp_all [OptEq]
  · intro p
    cases hm : c.modified.has p with
    | false => rfl
    | true =>
      obtain ⟨lv, rv, h1, h2, h3⟩ := compareTV_modified_nodes s l r c hl hr h p hm
      have := key p
      rw [h1, h2] at this
      simp only [OptEq] at this
      rw [this] at h3; cases h3
  · intro p
    rw [compareTV_added_nodes s l r c hl hr h p]
    have := key p
    cases h1 : nodeAt s l.type l.value p <;> cases h2 : nodeAt s r.type r.value p <;> simp_all [OptEq]

end CmpX


/-! ### the managed fields: writing a record that is already there -/

theorem mfSet_of_mfGet {m : Managed} {k : String} {r : VersionedSet} (hs : SortedManaged m)
    (hg : mfGet m k = some r) : mfSet m k r = m := by
  simp only [mfSet]
  induction m with
  | nil => simp [mfGet] at hg
  | cons y m ih =>
    obtain ⟨k0, v0⟩ := y
    have hm' := List.pairwise_cons.1 hs
    simp only [mfSet.ins]
    by_cases h : k = k0
    · subst h
      simp only [mfGet, List.find?_cons, beq_self_eq_true, Option.map_some, Option.some.injEq] at hg
      subst hg
      simp
    · have h1 : (k == k0) = false := by simpa using h
      have h1' : (k0 == k) = false := by simpa using fun e => h e.symm
      have hg' : mfGet m k = some r := by
        simpa [mfGet, List.find?_cons, h1'] using hg
      have hlt : k0 < k := hm'.1 (k, r) (mem_of_mfGet hg')
      have h2 : ¬ k < k0 := by grind
      simp only [h1, Bool.false_eq_true, if_false, h2]
      rw [ih hm'.2 hg']

theorem mfSet_filter_of_empty {m : Managed} {k : String} {r : VersionedSet}
    (hg : mfGet m k = none) (hr : r.set.isEmpty = true) (hne : ∀ x ∈ m, x.2.set.isEmpty = false) :
    (mfSet m k r).filter (fun x => !x.2.set.isEmpty) = m := by
  simp only [mfSet]
  induction m with
  | nil => simp [mfSet.ins, hr]
  | cons y m ih =>
    obtain ⟨k0, v0⟩ := y
    have hk : k0 ≠ k := (mfGet_eq_none_iff.1 hg) (k0, v0) (by simp)
    have h1 : (k == k0) = false := by simpa using fun e => hk e.symm
    have hg' : mfGet m k = none := by
      rw [mfGet_eq_none_iff] at hg ⊢
      intro x hx; exact hg x (List.mem_cons_of_mem _ hx)
    have hne' : ∀ x ∈ m, x.2.set.isEmpty = false := fun x hx => hne x (List.mem_cons_of_mem _ hx)
    have h0 : v0.set.isEmpty = false := hne (k0, v0) (by simp)
    have hfm : m.filter (fun x => !x.2.set.isEmpty) = m := by
      rw [List.filter_eq_self]; intro x hx; simp [hne' x hx]
    simp only [mfSet.ins, h1, Bool.false_eq_true, if_false]
    split
    · simp [List.filter_cons, hr, h0, hfm]
    · simp only [List.filter_cons, h0, Bool.not_false, if_true]
      rw [ih hg' hne']

theorem filter_nonempty_id {m : Managed} (hne : ∀ x ∈ m, x.2.set.isEmpty = false) :
    m.filter (fun x => !x.2.set.isEmpty) = m := by
  rw [List.filter_eq_self]; intro x hx; simp [hne x hx]

/-! ### `updateCore` when the comparison reports nothing -/

theorem inter_isEmpty_of_same {A : SetTrie} {cmp : Comparison} (hA : A.wf = true)
    (hw : cmp.removed.wf = true ∧ cmp.modified.wf = true ∧ cmp.added.wf = true)
    (hsame : cmp.isSame = true) : (A.inter (cmp.modified.union cmp.added)).isEmpty = true := by
  simp only [Comparison.isSame, Bool.and_eq_true] at hsame
  have hwu := wf_union _ _ hw.2.1 hw.2.2
  apply isEmpty_of_no_member (wf_inter _ _ hA hwu)
  intro q
  rw [has_inter q _ _ hA hwu, has_union q _ _ hw.2.1 hw.2.2, has_of_isEmpty q _ hsame.1.2,
    has_of_isEmpty q _ hsame.2]
  simp

theorem updateLoop_same (u : Updater) (sc : Schema) (o n : TV) (w v : String) (cmp : Comparison)
    (hw : cmp.removed.wf = true ∧ cmp.modified.wf = true ∧ cmp.added.wf = true)
    (hsame : cmp.isSame = true) :
    ∀ (iter : List (String × VersionedSet)) (ms : Managed) (cs rs : List (String × VersionedSet)),
      (∀ x ∈ iter, x.2.version = v) → (∀ x ∈ iter, x.2.set.wf = true) →
      updateLoop u sc o n w iter ms [(v, cmp)] cs rs = .ok (ms, cs.reverse, rs.reverse) := by
  intro iter
  induction iter with
  | nil => intro ms cs rs _ _; simp [updateLoop]
  | cons hd rest ih =>
    intro ms cs rs hall hwf
    obtain ⟨manager, vs⟩ := hd
    have hv : vs.version = v := hall (manager, vs) (by simp)
    have hvw : vs.set.wf = true := hwf (manager, vs) (by simp)
    have ih' := ih ms cs rs (fun x hx => hall x (List.mem_cons_of_mem _ hx))
      (fun x hx => hwf x (List.mem_cons_of_mem _ hx))
    rw [updateLoop]
    split
    · exact ih'
    · have hc : cacheGet [(v, cmp)] vs.version = some cmp := by simp [cacheGet, hv]
      have he1 := inter_isEmpty_of_same hvw hw hsame
      have he2 : cmp.removed.isEmpty = true := by
        simp only [Comparison.isSame, Bool.and_eq_true] at hsame; exact hsame.1.1
      simp only [hc, he1, he2, Bool.not_true, Bool.false_eq_true, if_false]
      exact ih'

theorem updateCore_same {u : Updater} {sc : Schema} {o n : TV} {v : String} {ms : Managed} {w : String}
    {force : Bool} {cmp : Comparison}
    (hig : u.ignore v = none) (hcmp : compareTV sc o n = .ok cmp) (hsame : cmp.isSame = true)
    (hall : ∀ x ∈ ms, x.2.version = v) (hwf : ∀ x ∈ ms, x.2.set.wf = true) :
    updateCore u sc o n v ms w force = .ok (ms.filter (fun m => !m.2.set.isEmpty), cmp) := by
  simp only [updateCore, hcmp, hig, filterCmp]
  rw [updateLoop_same u sc o n w v cmp (compareTV_wf hcmp) hsame ms ms [] [] hall hwf]
  simp


/-! ### pruning with a previous record every path of which leads to an owned scalar -/

/-- single version, identity converter: when every member of the (closed) previous record of the applier
lies on the way to a leaf of the merged object (a scalar, or a node of a leaf type under a field name in a
canonical object) all of whose prefixes and key fields are in the closed set of some record, pruning
removes nothing -/
theorem prune_id_of_generated (u : Updater) (sc : Schema) (merged out : TV) (managers : Managed)
    (mgr : String) (last : VersionedSet) (v : String)
    (hconv : u.converter = Converter.identity)
    (hall : ∀ r ∈ managers, r.2.version = v) (hlast : last.version = v)
    (hvalid : validateV sc false merged.type merged.value = .ok ())
    (hks : keysScalar sc merged.type merged.value = true)
    (hprune : prune u sc merged managers mgr (some last) = .ok out)
    (hmwf : ∀ r ∈ managers, r.2.set.wf = true) (hlwf : last.set.wf = true)
    (hgen : ∀ q, (last.set.ensureNamed sc merged.type).has q = true →
      ∃ q' p x, Path.equals q' q = true ∧ (q' ∈ C15.prefixes p ∨ q' ∈ keyPaths p) ∧
        Nodes.valueAt sc merged.type merged.value p = some x ∧
        (x.isScalar = true ∨ (endsWithField p = true ∧ leafTypeAt sc merged.type merged.value p = true ∧
          canon merged.value = true)) ∧
        (∀ pe ∈ p, PE.isIndex pe = false) ∧
        throughAtomic sc merged.type merged.value p = false ∧ nkdOn sc merged.type merged.value p = true ∧
        (∀ r ∈ C15.prefixes p, ∃ m ∈ managers, (m.2.set.ensureNamed sc merged.type).has r = true) ∧
        (∀ r ∈ keyPaths p, ∃ m ∈ managers, (m.2.set.ensureNamed sc merged.type).has r = true)) :
    out = merged := by
  by_cases hle : last.set.isEmpty = true
  · rw [prune_empty u sc merged managers mgr last hle] at hprune
    exact (Outcome.ok.inj hprune).symm
  have hle : last.set.isEmpty = false := by simpa using hle
  rcases prune_single_inv u sc merged out managers mgr last v hconv hall hlast hprune with rfl | h
  · rfl
  obtain ⟨ms, pr, ps, hms, hps, rfl, hstage⟩ := h
  have hvt := validateV_true_of_false' sc _ _ hvalid
  have hwE : (ms.ensureNamed sc merged.type).wf = true := wf_ensureNamed _ _ _ (toFieldSet_wf hms)
  have hwP : (ps.ensureNamed sc merged.type).wf = true := wf_ensureNamed _ _ _ (toFieldSet_wf hps)
  have hwX : ((ms.ensureNamed sc merged.type).diff (ps.ensureNamed sc merged.type)).wf = true :=
    wf_diff_left _ _ hwE
  have hwL : (last.set.ensureNamed sc merged.type).wf = true := wf_ensureNamed _ _ _ hlwf
  -- the closed field set of the second stage contains every member of the closed previous record
  have hP2 : ∀ q, (last.set.ensureNamed sc merged.type).has q = true →
      (ps.ensureNamed sc merged.type).has q = true := by
    intro q hq
    obtain ⟨q', p, x, hqq, hqp, hx, hleaf, hni, hatomic, hnd, hway, hkeys⟩ := hgen q hq
    rw [← has_congr_path hqq]
    obtain ⟨trx, hal⟩ := along_of_valueAt sc p _ _ x hvalid (notIndex_of_isIndex_false hni) hatomic hnd hx
    have hp : p ≠ [] := by
      rintro rfl
      rcases hqp with h | h <;> cases h
    have hxleaf : fsV sc trx x = .ok [[]] := by
      rcases hleaf with h | ⟨_, h, _⟩
      · exact fsV_scalar (hal.valid hvt) h
      · exact fsV_leafType (hal.valid hvt) (by rw [← hal.leafTypeAt_eq]; exact h)
    have hend2 : x.isScalar = true ∨ endsWithField p = true := hleaf.imp id (fun h => h.1)
    have both : (∀ q ∈ C15.prefixes p, (ps.ensureNamed sc merged.type).has q = true) ∧
        (∀ q ∈ keyPaths p, (ps.ensureNamed sc merged.type).has q = true) := by
      rcases hstage with ⟨hnil, rfl⟩ | ⟨hne, ps1, hps1, rfl⟩
      · subst hnil
        constructor
        · intro r hr
          obtain ⟨m, hm, _⟩ := hway r hr
          cases hm
        · intro r hr
          obtain ⟨m, hm, _⟩ := hkeys r hr
          cases hm
      · have hwM : ((unionAll managers).ensureNamed sc merged.type).wf = true :=
          wf_ensureNamed _ _ _ (wf_unionAll managers hmwf)
        have hwP1 : (ps1.ensureNamed sc merged.type).wf = true := wf_ensureNamed _ _ _ (toFieldSet_wf hps1)
        have hwU := SetTrie.wf_union _ _ hwP1 hwM
        have hinM : ∀ q, (∃ r ∈ managers, (r.2.set.ensureNamed sc merged.type).has q = true) →
            ((ms.ensureNamed sc merged.type).diff
              ((ps1.ensureNamed sc merged.type).union ((unionAll managers).ensureNamed sc merged.type))).has q = false := by
          rintro q ⟨r, hr, hq⟩
          have hqM : ((unionAll managers).ensureNamed sc merged.type).has q = true :=
            has_ensureNamed_mono sc merged.type r.2.set (unionAll managers) (hmwf r hr) (wf_unionAll managers hmwf)
              (fun q' hq' => by
                rw [has_unionAll managers hmwf q']
                exact List.any_eq_true.2 ⟨r, hr, hq'⟩) q hq
          rw [SetTrie.has_diff q _ _ hwE hwU, SetTrie.has_union q _ _ hwP1 hwM, hqM]
          simp
        have hend1 : x.isScalar = true ∨ ∀ r, r ≠ [] →
            ((ms.ensureNamed sc merged.type).diff
              ((ps1.ensureNamed sc merged.type).union ((unionAll managers).ensureNamed sc merged.type))).has (p ++ r)
              = false := by
          rcases hleaf with h | ⟨_, _, hc⟩
          · exact .inl h
          · refine .inr fun r hr => ?_
            rw [SetTrie.has_diff _ _ _ hwE hwU, en_none_beneath hal hc hxleaf hms r hr]
            rfl
        exact closed_fieldset_after_removal' hal hvt hks (SetTrie.wf_diff _ _ hwE hwU) hp hxleaf hend1 hend2
          (fun r hr => hinM r (hway r hr)) (fun r hr => hinM r (hkeys r hr)) hps
    rcases hqp with h | h
    · exact both.1 q' h
    · exact both.2 q' h
  -- nothing is left to remove in the third stage
  have hD : (((ms.ensureNamed sc merged.type).diff (ps.ensureNamed sc merged.type)).inter
      (last.set.ensureNamed sc merged.type)).isEmpty = true := by
    apply isEmpty_of_no_member (wf_inter _ _ hwX hwL)
    intro q
    rw [SetTrie.has_inter q _ _ hwX hwL, SetTrie.has_diff q _ _ hwE hwP]
    cases hq : (last.set.ensureNamed sc merged.type).has q with
    | false => simp
    | true => rw [hP2 q hq]; simp
  -- and the merged object is not empty
  obtain ⟨q0, hq0⟩ := exists_has_of_not_isEmpty _ hlwf hle
  obtain ⟨q', p, x, _, hqp, hx, hleaf, hni, hatomic, hnd, _, _⟩ :=
    hgen q0 (has_ensureNamed_of_has sc merged.type _ q0 hlwf hq0)
  obtain ⟨trx, hal⟩ := along_of_valueAt sc p _ _ x hvalid (notIndex_of_isIndex_false hni) hatomic hnd hx
  have hp : p ≠ [] := by
    rintro rfl
    rcases hqp with h | h <;> cases h
  exact removeItemsTV_isEmpty_of_along hal hp hD


/-! ### the fixed point -/

/-- every member of the closed field set of the configuration (the field set with the declared fields on
the way to a member added, `Set.EnsureNamedFieldsAreMembers`) lies on the way to a LEAF of the
configuration — as a prefix of its path or as a key field of an item on it —: a scalar, or a node under a
field name whose type is a leaf type (all its list / map members are atomic: an atomic list, an atomic
map, a scalar-typed field that holds null); the leaf is reached through non-atomic maps and through
associative lists that declare no schema default for a key field -/
def LeafGenerated (sc : Schema) (cfg : TV) (fs : SetTrie) : Prop :=
  ∀ q ∈ (fs.ensureNamed sc cfg.type).paths,
    ∃ p x, (q ∈ C15.prefixes p ∨ q ∈ keyFieldPaths p) ∧
      Nodes.valueAt sc cfg.type cfg.value p = some x ∧
      (x.isScalar = true ∨ (endsWithField p = true ∧ leafTypeAt sc cfg.type cfg.value p = true)) ∧
      (∀ pe ∈ p, PE.isIndex pe = false) ∧
      throughAtomic sc cfg.type cfg.value p = false ∧ nkdOn sc cfg.type cfg.value p = true

/-- the structural invariant of the managed fields at one version: keys strictly ascending, every
record a well-formed non-empty set at version `v` -/
def ManagedAt (v : String) (m : Managed) : Prop :=
  SortedManaged m ∧ (∀ x ∈ m, x.2.set.wf = true) ∧ (∀ x ∈ m, x.2.set.isEmpty = false) ∧
    (∀ x ∈ m, x.2.version = v)

/-- single version, identity converter, no ignore configuration: an apply on an object into which the
configuration is already merged, by a manager whose record is already the field set of the
configuration, changes nothing — or fails with an error of the typed operations; it never reports a
conflict -/
theorem apply_fixed_point (u : Updater) (sc : Schema) (obj cfg : TV) (v : String) (mf : Managed)
    (mgr : String) (force : Bool) (fs : SetTrie)
    (hconv : u.converter = Converter.identity) (hig : ∀ w, u.ignore w = none)
    (hnoop : u.returnInputOnNoop = false) (htype : obj.type = cfg.type)
    (hrec : reconcileManaged u sc obj mf = .ok mf) (hinv : ManagedAt v mf)
    (hfs : toFieldSet sc cfg = .ok fs)
    (hrecord : mfGet mf mgr = if fs.isEmpty then none else some ⟨fs, v, true⟩)
    (hvo : validateV sc false obj.type obj.value = .ok ()) (hvc : validateV sc false cfg.type cfg.value = .ok ())
    (hko : keysScalar sc obj.type obj.value = true) (hkc : keysScalar sc cfg.type cfg.value = true)
    (hco : canon obj.value = true) (hcc : canon cfg.value = true)
    (habs : ∀ merged, mergeTV sc obj cfg = .ok merged → Value.equals obj.value merged.value = true)
    (hgen : LeafGenerated sc cfg fs) :
    apply u sc obj cfg v mf mgr force = .ok (none, mf) ∨
      apply u sc obj cfg v mf mgr force = .err ∨ apply u sc obj cfg v mf mgr force = .panic := by
  obtain ⟨hsorted, hmwf, hmne, hmv⟩ := hinv
  have hai : applyIgnore u v fs = fs := by simp [applyIgnore, hig]
  rw [apply_eq]
  unfold applyPre
  rw [hrec]
  simp only
  cases hm : mergeTV sc obj cfg with
  | err => simp [liftRes]
  | panic => simp [liftRes]
  | ok merged =>
    simp only [hfs, liftRes, hai]
    have heq := habs merged hm
    obtain ⟨hvm, hkm⟩ := mergeTV_valid sc obj cfg merged hvo hvc htype hko hkc hm
    obtain ⟨out, hmn, hmerged⟩ := mergeTV_inv hm
    have htm : merged.type = obj.type := by rw [hmerged]
    -- the managed fields `prune` and `updateCore` work with
    have hfilter : (mfSet mf mgr ⟨fs, v, true⟩).filter (fun m => !m.2.set.isEmpty) = mf := by
      by_cases hfe : fs.isEmpty = true
      · rw [if_pos hfe] at hrecord
        exact mfSet_filter_of_empty hrecord hfe hmne
      · rw [if_neg hfe] at hrecord
        rw [mfSet_of_mfGet hsorted hrecord, filter_nonempty_id hmne]
    -- what `prune` returns
    have hprune : ∀ obj2, prune u sc merged (mfSet mf mgr ⟨fs, v, true⟩) mgr (mfGet mf mgr) = .ok obj2 →
        obj2 = merged := by
      intro obj2 hp
      by_cases hfe : fs.isEmpty = true
      · rw [if_pos hfe] at hrecord
        rw [hrecord, prune_none] at hp
        exact (Outcome.ok.inj hp).symm
      · rw [if_neg hfe] at hrecord
        rw [mfSet_of_mfGet hsorted hrecord, hrecord] at hp
        have hmem : (mgr, (⟨fs, v, true⟩ : VersionedSet)) ∈ mf := mem_of_mfGet hrecord
        refine prune_id_of_generated u sc merged obj2 mf mgr ⟨fs, v, true⟩ v hconv hmv rfl hvm hkm hp hmwf
          (toFieldSet_wf hfs) ?_
        intro q hq
        rw [htm, htype] at hq
        obtain ⟨q', hq', hqq⟩ := (C15.has_iff_mem_paths _ q
          (wf_ensureNamed _ _ _ (toFieldSet_wf hfs))).1 hq
        obtain ⟨p, x, hqp, hx, hleaf, hni, hatomic, hnd⟩ := hgen q' hq'
        rw [← keyPaths_eq_keyFieldPaths] at hqp
        obtain ⟨ov, ot⟩ := obj
        obtain ⟨cv, ct⟩ := cfg
        simp only at htype hvo hvc hko hkc hx hatomic hnd hmn hmerged htm hco hcc hleaf
        subst htype
        subst hmerged
        simp only at hvm hkm ⊢
        have hrw := right_wins_aux sc p ot (some ov) cv out _ x hvc
          (.inr ⟨hni, fun l' h' => by cases h'; exact hko, hkc⟩) hmn hx
        obtain ⟨trx, halc⟩ := along_of_valueAt sc p ot cv x hvc (notIndex_of_isIndex_false hni) hatomic hnd hx
        have hvct := validateV_true_of_false' sc _ _ hvc
        have hcm : canon out = true :=
          CanonKeys.merge_canon sc _ (some ov) (some cv) ot out (fun l hl => by cases hl; exact hco)
            (fun r hr => by cases hr; exact hcc) hmn
        rcases hleaf with hxs | ⟨hef, hlt⟩
        · have hxm : Nodes.valueAt sc ot out p = some x := hrw.2 hxs
          obtain ⟨hta, hnk⟩ := path_shape_transfer sc p ot cv out x x hni hx hxm
          obtain ⟨hc1, hc2⟩ := closed_fieldset_has (tv := ⟨cv, ot⟩) halc hvct hkc hxs hfs
          exact ⟨q', p, x, hqq, hqp, hxm, .inl hxs, hni, by rw [← hta]; exact hatomic, by rw [← hnk]; exact hnd,
            fun r hr => ⟨_, hmem, hc1 r hr⟩, fun r hr => ⟨_, hmem, hc2 r hr⟩⟩
        · obtain ⟨x', hxm⟩ := Option.isSome_iff_exists.1 hrw.1
          obtain ⟨hta, hnk⟩ := path_shape_transfer sc p ot cv out x x' hni hx hxm
          have hatm : throughAtomic sc ot out p = false := by rw [← hta]; exact hatomic
          have hndm : nkdOn sc ot out p = true := by rw [← hnk]; exact hnd
          obtain ⟨trx', halm⟩ := along_of_valueAt sc p ot out x' hvm (notIndex_of_isIndex_false hni) hatm hndm hxm
          have htt : trx = trx' := halc.type_unique halm
          have hltx : leafType sc trx = true := by rw [← halc.leafTypeAt_eq]; exact hlt
          have hltm : leafTypeAt sc ot out p = true := by rw [halm.leafTypeAt_eq, ← htt]; exact hltx
          obtain ⟨hc1, hc2⟩ := closed_fieldset_has' (tv := ⟨cv, ot⟩) halc hvct hkc
            (fsV_leafType (halc.valid hvct) hltx) (.inr hef) hfs
          exact ⟨q', p, x', hqq, hqp, hxm, .inr ⟨hef, hltm, hcm⟩, hni, hatm, hndm,
            fun r hr => ⟨_, hmem, hc1 r hr⟩, fun r hr => ⟨_, hmem, hc2 r hr⟩⟩
    cases hp : prune u sc merged (mfSet mf mgr ⟨fs, v, true⟩) mgr (mfGet mf mgr) with
    | err => simp
    | panic => simp
    | conflict c => exact absurd hp (prune_ne_conflict _ _ _ _ _ _ _)
    | ok obj2 =>
      have := hprune obj2 hp
      subst this
      simp only
      have hall' : ∀ x ∈ mfSet mf mgr ⟨fs, v, true⟩, x.2.version = v := by
        intro x hx
        rcases mem_mfSet hx with rfl | hx
        · rfl
        · exact hmv x hx
      have hwf' : ∀ x ∈ mfSet mf mgr ⟨fs, v, true⟩, x.2.set.wf = true := by
        intro x hx
        rcases mem_mfSet hx with rfl | hx
        · exact toFieldSet_wf hfs
        · exact hmwf x hx
      cases hcmp : compareTV sc obj obj2 with
      | err => simp [updateCore, hcmp, applyFinish]
      | panic => simp [updateCore, hcmp, applyFinish]
      | ok cmp0 =>
        have hsame : cmp0.isSame = true :=
          CmpX.compareTV_isSame_of_equals sc obj obj2 cmp0 htm.symm hvo hvm hcmp heq
        rw [updateCore_same (hig v) hcmp hsame hall' hwf', hfilter, applyFinish_ok]
        simp [hnoop, heq]

/-- the same for a second apply that is known to succeed -/
theorem apply_fixed_point_ok (u : Updater) (sc : Schema) (obj cfg : TV) (v : String) (mf : Managed)
    (mgr : String) (force : Bool) (fs : SetTrie) (o2 : Option TV) (mf2 : Managed)
    (hconv : u.converter = Converter.identity) (hig : ∀ w, u.ignore w = none)
    (hnoop : u.returnInputOnNoop = false) (htype : obj.type = cfg.type)
    (hrec : reconcileManaged u sc obj mf = .ok mf) (hinv : ManagedAt v mf)
    (hfs : toFieldSet sc cfg = .ok fs)
    (hrecord : mfGet mf mgr = if fs.isEmpty then none else some ⟨fs, v, true⟩)
    (hvo : validateV sc false obj.type obj.value = .ok ()) (hvc : validateV sc false cfg.type cfg.value = .ok ())
    (hko : keysScalar sc obj.type obj.value = true) (hkc : keysScalar sc cfg.type cfg.value = true)
    (hco : canon obj.value = true) (hcc : canon cfg.value = true)
    (habs : ∀ merged, mergeTV sc obj cfg = .ok merged → Value.equals obj.value merged.value = true)
    (hgen : LeafGenerated sc cfg fs)
    (h2 : apply u sc obj cfg v mf mgr force = .ok (o2, mf2)) :
    o2 = none ∧ mf2 = mf := by
  rcases apply_fixed_point u sc obj cfg v mf mgr force fs hconv hig hnoop htype hrec hinv hfs hrecord hvo hvc hko hkc
    hco hcc habs hgen with h | h | h
  · rw [h] at h2
    simp only [Outcome.ok.injEq, Prod.mk.injEq] at h2
    exact ⟨h2.1.symm, h2.2.symm⟩
  · rw [h] at h2; cases h2
  · rw [h] at h2; cases h2

/-! ### what a successful apply leaves in the managed fields -/

theorem apply_managedAt {u : Updater} {sc : Schema} {live cfg : TV} {v : String} {m : Managed} {mgr : String}
    {force : Bool} {o : Option TV} {mf : Managed} (hig : ∀ w, u.ignore w = none)
    (hall : ∀ x ∈ m, x.2.version = v) (hsorted : SortedManaged m) (hmwf : ∀ r ∈ m, r.2.set.wf = true)
    (h : apply u sc live cfg v m mgr force = .ok (o, mf)) :
    ∃ fs, toFieldSet sc cfg = .ok fs ∧ ManagedAt v mf ∧
      mfGet mf mgr = (if fs.isEmpty then none else some ⟨fs, v, true⟩) := by
  obtain ⟨fs, hfs, hrecord⟩ := apply_owner_entries_sorted h hsorted
  have hai : applyIgnore u v fs = fs := by simp [applyIgnore, hig]
  rw [hai] at hrecord
  refine ⟨fs, hfs, ?_, hrecord⟩
  obtain ⟨m0, fs', newObj, cmp, hrec, hfs', hcore⟩ := apply_ok_inv h
  rw [hfs] at hfs'; cases hfs'
  rw [hai] at hcore
  have hs0 := reconcileManaged_sorted hrec hsorted
  have hw0 := reconcileManaged_wf hrec hmwf
  obtain ⟨_, _, mm⟩ := updateCore_ok hcore
  refine ⟨updateCore_sorted hcore (sortedManaged_mfSet _ _ hs0), fun x hx => ?_, fun x hx => (mm x hx).1,
    fun x hx => ?_⟩
  · obtain ⟨y, hy, hxy⟩ := (mm x hx).2
    refine (hxy.2.2.2 ?_).1
    rcases mem_mfSet hy with rfl | hy
    · exact toFieldSet_wf hfs
    · exact hw0 y hy
  · obtain ⟨y, hy, hxy⟩ := (mm x hx).2
    rw [hxy.2.1]
    rcases mem_mfSet hy with rfl | hy
    · rfl
    · obtain ⟨z, hz, he⟩ := reconcileManaged_version hrec y hy
      rw [he]; exact hall z hz

theorem mfGet_reconcile_none {u : Updater} {sc : Schema} {live : TV} {m m0 : Managed} {mgr : String}
    (hrec : reconcileManaged u sc live m = .ok m0) (h : mfGet m mgr = none) : mfGet m0 mgr = none := by
  rw [mfGet_eq_none_iff] at h ⊢
  intro x hx
  have hsub := reconcileManaged_keys hrec
  have hmem : x.1 ∈ m.map (·.1) := hsub.subset (List.mem_map.2 ⟨x, hx, rfl⟩)
  obtain ⟨y, hy, he⟩ := List.mem_map.1 hmem
  rw [← he]; exact h y hy

/-! ### the re-apply after an apply that pruned nothing -/

/-- an apply that returned the plain merge of the configuration over the live object (nothing was pruned),
then the same apply again on what the first one returned: the second one changes nothing (or fails with an
error of the typed operations), provided the schema reconciliation leaves the managed fields as they are
and every path of the configuration's field set leads to a leaf -/
theorem reapply_noop_of_merge (u : Updater) (sc : Schema) (live cfg obj : TV) (v : String) (m mf : Managed)
    (mgr : String) (force : Bool)
    (hconv : u.converter = Converter.identity) (hig : ∀ w, u.ignore w = none)
    (hnoop : u.returnInputOnNoop = false)
    (hall : ∀ x ∈ m, x.2.version = v) (htype : live.type = cfg.type)
    (hsorted : SortedManaged m) (hmwf : ∀ r ∈ m, r.2.set.wf = true)
    (hl : validateV sc false live.type live.value = .ok ()) (hr : validateV sc false cfg.type cfg.value = .ok ())
    (hkl : keysScalar sc live.type live.value = true) (hkr : keysScalar sc cfg.type cfg.value = true)
    (hcl : canon live.value = true) (hcr : canon cfg.value = true)
    (happly : apply u sc live cfg v m mgr force = .ok (some obj, mf))
    (hm : mergeTV sc live cfg = .ok obj)
    (hrec2 : reconcileManaged u sc obj mf = .ok mf)
    (hgen : ∀ fs, toFieldSet sc cfg = .ok fs → LeafGenerated sc cfg fs) :
    apply u sc obj cfg v mf mgr force = .ok (none, mf) ∨
      apply u sc obj cfg v mf mgr force = .err ∨ apply u sc obj cfg v mf mgr force = .panic := by
  obtain ⟨fs, hfs, hinv, hrecord⟩ := apply_managedAt hig hall hsorted hmwf happly
  obtain ⟨hvo, hko⟩ := mergeTV_valid sc live cfg obj hl hr htype hkl hkr hm
  obtain ⟨out, hmn, hmerged⟩ := mergeTV_inv hm
  have hto : obj.type = cfg.type := by rw [hmerged]; exact htype
  have hco : canon obj.value = true := by
    rw [hmerged]
    exact CanonKeys.merge_canon sc _ (some live.value) (some cfg.value) live.type out
      (fun l hl => by cases hl; exact hcl) (fun r hr => by cases hr; exact hcr) hmn
  refine apply_fixed_point u sc obj cfg v mf mgr force fs hconv hig hnoop hto hrec2 hinv hfs hrecord
    hvo hr hko hkr hco hcr ?_ (hgen fs hfs)
  intro merged2 hm2
  obtain ⟨out2, hmn2, hmerged2⟩ := mergeTV_inv hm2
  rw [hmerged2, Value.equals_symm]
  subst hmerged
  simp only at hmn2 ⊢
  rw [← htype] at hr hkr
  exact MV.merge_idempotent sc live.type live.value cfg.value out out2 _ _ hl hr hkl hkr hmn hmn2

/-- an apply that changed nothing because the configuration was already merged into the live object, then
the same apply again on the same object: the second one changes nothing either (or fails with an error of
the typed operations) -/
theorem reapply_after_noop_of_merged (u : Updater) (sc : Schema) (live cfg : TV) (v : String) (m mf : Managed)
    (mgr : String) (force : Bool)
    (hconv : u.converter = Converter.identity) (hig : ∀ w, u.ignore w = none)
    (hnoop : u.returnInputOnNoop = false)
    (hall : ∀ x ∈ m, x.2.version = v) (htype : live.type = cfg.type)
    (hsorted : SortedManaged m) (hmwf : ∀ r ∈ m, r.2.set.wf = true)
    (hl : validateV sc false live.type live.value = .ok ()) (hr : validateV sc false cfg.type cfg.value = .ok ())
    (hkl : keysScalar sc live.type live.value = true) (hkr : keysScalar sc cfg.type cfg.value = true)
    (hcl : canon live.value = true) (hcr : canon cfg.value = true)
    (happly : apply u sc live cfg v m mgr force = .ok (none, mf))
    (hm : ∀ merged, mergeTV sc live cfg = .ok merged → Value.equals live.value merged.value = true)
    (hrec2 : reconcileManaged u sc live mf = .ok mf)
    (hgen : ∀ fs, toFieldSet sc cfg = .ok fs → LeafGenerated sc cfg fs) :
    apply u sc live cfg v mf mgr force = .ok (none, mf) ∨
      apply u sc live cfg v mf mgr force = .err ∨ apply u sc live cfg v mf mgr force = .panic := by
  obtain ⟨fs, hfs, hinv, hrecord⟩ := apply_managedAt hig hall hsorted hmwf happly
  exact apply_fixed_point u sc live cfg v mf mgr force fs hconv hig hnoop htype hrec2 hinv hfs hrecord
    hl hr hkl hkr hcl hcr hm (hgen fs hfs)

/-! ### the re-apply after a manager's first apply -/

/-- a manager's first apply returns the plain merge -/
theorem first_apply_merge {u : Updater} {sc : Schema} {live cfg : TV} {v : String} {m mf : Managed}
    {mgr : String} {force : Bool} {o : Option TV} (hfirst : mfGet m mgr = none)
    (happly : apply u sc live cfg v m mgr force = .ok (o, mf)) :
    ∃ merged, mergeTV sc live cfg = .ok merged ∧
      (o = some merged ∨ (o = none ∧ Value.equals live.value merged.value = true)) := by
  obtain ⟨m0, _, _, _, hrec, _, _⟩ := apply_ok_inv happly
  exact apply_of_prune_id u sc live cfg v m m0 mgr force o mf hrec
    (fun merged ms => by rw [mfGet_reconcile_none hrec hfirst]; exact prune_none u sc merged ms mgr) happly

/-- a manager's first apply, then the same apply again on what the first one returned -/
theorem first_reapply_noop (u : Updater) (sc : Schema) (live cfg obj : TV) (v : String) (m mf : Managed)
    (mgr : String) (force : Bool)
    (hconv : u.converter = Converter.identity) (hig : ∀ w, u.ignore w = none)
    (hnoop : u.returnInputOnNoop = false)
    (hall : ∀ x ∈ m, x.2.version = v) (htype : live.type = cfg.type)
    (hsorted : SortedManaged m) (hmwf : ∀ r ∈ m, r.2.set.wf = true)
    (hl : validateV sc false live.type live.value = .ok ()) (hr : validateV sc false cfg.type cfg.value = .ok ())
    (hkl : keysScalar sc live.type live.value = true) (hkr : keysScalar sc cfg.type cfg.value = true)
    (hcl : canon live.value = true) (hcr : canon cfg.value = true)
    (hfirst : mfGet m mgr = none)
    (happly : apply u sc live cfg v m mgr force = .ok (some obj, mf))
    (hrec2 : reconcileManaged u sc obj mf = .ok mf)
    (hgen : ∀ fs, toFieldSet sc cfg = .ok fs → LeafGenerated sc cfg fs) :
    apply u sc obj cfg v mf mgr force = .ok (none, mf) ∨
      apply u sc obj cfg v mf mgr force = .err ∨ apply u sc obj cfg v mf mgr force = .panic := by
  obtain ⟨merged, hm, hobj⟩ := first_apply_merge hfirst happly
  have hobj : obj = merged := by
    rcases hobj with h | ⟨h, _⟩
    · exact (Option.some.inj h)
    · cases h
  subst hobj
  exact reapply_noop_of_merge u sc live cfg obj v m mf mgr force hconv hig hnoop hall htype hsorted hmwf hl hr hkl hkr
    hcl hcr happly hm hrec2 hgen

/-- an apply that changed nothing, then the same apply again on the same object, when the manager had no
record before -/
theorem first_reapply_after_noop (u : Updater) (sc : Schema) (live cfg : TV) (v : String) (m mf : Managed)
    (mgr : String) (force : Bool)
    (hconv : u.converter = Converter.identity) (hig : ∀ w, u.ignore w = none)
    (hnoop : u.returnInputOnNoop = false)
    (hall : ∀ x ∈ m, x.2.version = v) (htype : live.type = cfg.type)
    (hsorted : SortedManaged m) (hmwf : ∀ r ∈ m, r.2.set.wf = true)
    (hl : validateV sc false live.type live.value = .ok ()) (hr : validateV sc false cfg.type cfg.value = .ok ())
    (hkl : keysScalar sc live.type live.value = true) (hkr : keysScalar sc cfg.type cfg.value = true)
    (hcl : canon live.value = true) (hcr : canon cfg.value = true)
    (hfirst : mfGet m mgr = none)
    (happly : apply u sc live cfg v m mgr force = .ok (none, mf))
    (hrec2 : reconcileManaged u sc live mf = .ok mf)
    (hgen : ∀ fs, toFieldSet sc cfg = .ok fs → LeafGenerated sc cfg fs) :
    apply u sc live cfg v mf mgr force = .ok (none, mf) ∨
      apply u sc live cfg v mf mgr force = .err ∨ apply u sc live cfg v mf mgr force = .panic := by
  obtain ⟨merged, hm, hobj⟩ := first_apply_merge hfirst happly
  have heq : Value.equals live.value merged.value = true := by
    rcases hobj with h | ⟨_, h⟩
    · cases h
    · exact h
  refine reapply_after_noop_of_merged u sc live cfg v m mf mgr force hconv hig hnoop hall htype hsorted hmwf hl hr
    hkl hkr hcl hcr happly ?_ hrec2 hgen
  intro merged2 hm2
  rw [hm] at hm2; cases hm2
  exact heq

/-! ### the re-apply in general, for an object into which the configuration is already merged -/

/-- single version, identity converter: the object an apply returns has the type of the live object -/
theorem apply_some_type {u : Updater} {sc : Schema} {live cfg obj : TV} {v : String} {m mf : Managed}
    {mgr : String} {force : Bool} (hconv : u.converter = Converter.identity) (hig : ∀ w, u.ignore w = none)
    (hall : ∀ x ∈ m, x.2.version = v)
    (happly : apply u sc live cfg v m mgr force = .ok (some obj, mf)) : obj.type = live.type := by
  obtain ⟨m0, merged, fs, hrec, hm, hfs, hp⟩ := apply_some_inv happly
  have hai : applyIgnore u v fs = fs := by simp [applyIgnore, hig]
  rw [hai] at hp
  obtain ⟨out, hmn, hmerged⟩ := mergeTV_inv hm
  have htm : merged.type = live.type := by rw [hmerged]
  cases hlast : mfGet m0 mgr with
  | none =>
    rw [hlast, prune_none] at hp
    cases hp
    exact htm
  | some last =>
    rw [hlast] at hp
    have hlmem : (mgr, last) ∈ m0 := mem_of_mfGet hlast
    have hlv : last.version = v := by
      obtain ⟨y, hy, he⟩ := reconcileManaged_version hrec _ hlmem
      rw [he]; exact hall y hy
    have hall' : ∀ r ∈ mfSet m0 mgr ⟨fs, v, true⟩, r.2.version = v := by
      intro r hr'
      rcases mem_mfSet hr' with rfl | hr'
      · rfl
      · obtain ⟨y, hy, he⟩ := reconcileManaged_version hrec _ hr'
        rw [he]; exact hall y hy
    rw [prune_single_type u sc merged obj _ mgr last v hconv hall' hlv hp]
    exact htm

/-- an apply, then the same apply again on what the first one returned: the second one changes nothing
(or fails with an error of the typed operations), provided the schema reconciliation leaves the managed
fields as they are, the object returned is valid, merging the configuration into it again yields an
`Equals` object, and every path of the configuration's field set leads to a scalar -/
theorem reapply_noop_of_absorbed (u : Updater) (sc : Schema) (live cfg obj : TV) (v : String) (m mf : Managed)
    (mgr : String) (force : Bool)
    (hconv : u.converter = Converter.identity) (hig : ∀ w, u.ignore w = none)
    (hnoop : u.returnInputOnNoop = false)
    (hall : ∀ x ∈ m, x.2.version = v) (htype : live.type = cfg.type)
    (hsorted : SortedManaged m) (hmwf : ∀ r ∈ m, r.2.set.wf = true)
    (hr : validateV sc false cfg.type cfg.value = .ok ()) (hkr : keysScalar sc cfg.type cfg.value = true)
    (happly : apply u sc live cfg v m mgr force = .ok (some obj, mf))
    (hvo : validateV sc false obj.type obj.value = .ok ()) (hko : keysScalar sc obj.type obj.value = true)
    (hco : canon obj.value = true) (hcr : canon cfg.value = true)
    (habs : ∀ merged, mergeTV sc obj cfg = .ok merged → Value.equals obj.value merged.value = true)
    (hrec2 : reconcileManaged u sc obj mf = .ok mf)
    (hgen : ∀ fs, toFieldSet sc cfg = .ok fs → LeafGenerated sc cfg fs) :
    apply u sc obj cfg v mf mgr force = .ok (none, mf) ∨
      apply u sc obj cfg v mf mgr force = .err ∨ apply u sc obj cfg v mf mgr force = .panic := by
  obtain ⟨fs, hfs, hinv, hrecord⟩ := apply_managedAt hig hall hsorted hmwf happly
  have hto : obj.type = cfg.type := by rw [apply_some_type hconv hig hall happly]; exact htype
  exact apply_fixed_point u sc obj cfg v mf mgr force fs hconv hig hnoop hto hrec2 hinv hfs hrecord
    hvo hr hko hkr hco hcr habs (hgen fs hfs)

end SMD
