/- helper lemmas for SMD/Properties/C20Reconcile.lean -/
import SMD.Proofs.HistoryInvariants
import SMD.Properties.C15
import SMD.Properties.C20
namespace SMD
open SetTrie

/-! ### a relative-path presentation of `reconcileNode`

`reconcileNode` always emits the same list for removal and for addition, and the emitted paths are
the current path followed by a relative path.  `recon` computes the relative paths; the member loops
are presented as one list of calls (`visitList`) whose results are concatenated (`seqAll`). -/

/-- sequencing of two results: the first failure wins -/
def seqR : Res (List Path) → Res (List Path) → Res (List Path)
  | .ok a, .ok b => .ok (a ++ b)
  | .ok _, e => e
  | e, _ => e

/-- left-to-right concatenation of results -/
def seqAll (rs : List (Res (List Path))) : Res (List Path) := rs.foldl seqR (.ok [])

/-- the paths of a successful result -/
def getOk : Res (List Path) → List Path
  | .ok e => e
  | _ => []

def consAll (pe : PE) : Res (List Path) → Res (List Path)
  | .ok E => .ok (E.map (fun p => pe :: p))
  | .err => .err
  | .panic => .panic

/-- absolute (toRemove, toAdd) from relative emitted paths -/
def lift2 (path : Path) : Res (List Path) → Res (List Path × List Path)
  | .ok E => .ok (E.map (fun p => path ++ p), E.map (fun p => path ++ p))
  | .err => .err
  | .panic => .panic

/-- the elements visited at a node: children that are not members (`isMember = false`), then members -/
def visitList (s : SetTrie) : List (PE × Bool) :=
  (s.children.filter (fun x => !peHas x.1 s.members)).map (fun x => (x.1, false)) ++
    s.members.map (fun pe => (pe, true))

def callWith (rec : Option SetTrie → TypeRef → Bool → Res (List Path)) (s : SetTrie)
    (typeOf : PE → Option TypeRef) (x : PE × Bool) : Res (List Path) :=
  match typeOf x.1 with
  | none => .ok []
  | some tr' =>
    consAll x.1 (rec (getChild x.1 s.children) tr' (x.2 && (getChild x.1 s.children).isNone))

def visitWith (rec : Option SetTrie → TypeRef → Bool → Res (List Path)) (s : SetTrie)
    (typeOf : PE → Option TypeRef) : Res (List Path) :=
  seqAll ((visitList s).map (callWith rec s typeOf))

/-- the relative paths emitted by `reconcileNode` -/
def recon (sc : Schema) : Nat → Option SetTrie → TypeRef → Bool → Res (List Path)
  | 0, _, _, _ => .err
  | fuel + 1, fso, tr, ia =>
    match sc.resolve tr with
    | none => .err
    | some a =>
      match atomKind a with
      | .invalid => .err
      | .scalar _ => .ok []
      | .list t =>
        if !ia && t.rel == "atomic" then .ok [[]]
        else
          (match fso with
           | some s => visitWith (recon sc fuel) s (fun _ => some t.elementType)
           | none => .ok [])
      | .map t =>
        if isUntypedDeducedMap t then .ok []
        else if !ia && t.rel == "atomic" then
          (match fso with
           | some s => if s.size > 0 then .ok [[]] else .ok []
           | none => .ok [])
        else
          (match fso with
           | some s => visitWith (recon sc fuel) s (typeRefAtPath t)
           | none => .ok [])

/-! ### `seqAll` -/

theorem seqR_ok_nil (r : Res (List Path)) : seqR r (.ok []) = r := by
  cases r <;> simp [seqR]

theorem foldl_seqR_err (rs : List (Res (List Path))) : rs.foldl seqR .err = .err := by
  induction rs with
  | nil => rfl
  | cons r rs ih => simpa [List.foldl_cons, seqR] using ih

theorem foldl_seqR_panic (rs : List (Res (List Path))) : rs.foldl seqR .panic = .panic := by
  induction rs with
  | nil => rfl
  | cons r rs ih => simpa [List.foldl_cons, seqR] using ih

theorem foldl_seqR_ok {α : Type} (g : α → Res (List Path)) (l : List α) : ∀ (E0 E : List Path),
    (l.map g).foldl seqR (.ok E0) = .ok E ↔
      (∀ x ∈ l, ∃ e, g x = .ok e) ∧ E = E0 ++ l.flatMap (fun x => getOk (g x)) := by
  induction l with
  | nil => intro E0 E; simp [eq_comm]
  | cons x l ih =>
    intro E0 E
    simp only [List.map_cons, List.foldl_cons, List.mem_cons, forall_eq_or_imp, List.flatMap_cons]
    cases hg : g x with
    | ok e => simp [seqR, ih, getOk, List.append_assoc]
    | err => simp [seqR, foldl_seqR_err]
    | panic => simp [seqR, foldl_seqR_panic]

theorem seqAll_ok {α : Type} (g : α → Res (List Path)) (l : List α) (E : List Path) :
    seqAll (l.map g) = .ok E ↔
      (∀ x ∈ l, ∃ e, g x = .ok e) ∧ E = l.flatMap (fun x => getOk (g x)) := by
  simpa [seqAll] using foldl_seqR_ok g l [] E

/-- (a) every call succeeded and contributed its paths -/
theorem seqAll_call {α : Type} {g : α → Res (List Path)} {l : List α} {E : List Path}
    (h : seqAll (l.map g) = .ok E) {x : α} (hx : x ∈ l) : ∃ e, g x = .ok e ∧ ∀ p ∈ e, p ∈ E := by
  obtain ⟨h1, rfl⟩ := (seqAll_ok g l E).1 h
  obtain ⟨e, he⟩ := h1 x hx
  exact ⟨e, he, fun p hp => List.mem_flatMap.2 ⟨x, hx, by simpa [he, getOk] using hp⟩⟩

/-- (b) every path comes from a call -/
theorem seqAll_mem {α : Type} {g : α → Res (List Path)} {l : List α} {E : List Path}
    (h : seqAll (l.map g) = .ok E) {p : Path} (hp : p ∈ E) : ∃ x ∈ l, ∃ e, g x = .ok e ∧ p ∈ e := by
  obtain ⟨h1, rfl⟩ := (seqAll_ok g l E).1 h
  obtain ⟨x, hx, hp⟩ := List.mem_flatMap.1 hp
  obtain ⟨e, he⟩ := h1 x hx
  exact ⟨x, hx, e, he, by simpa [he, getOk] using hp⟩

/-- (c) quiet calls give a quiet result -/
theorem seqAll_quiet {α : Type} {g : α → Res (List Path)} {l : List α}
    (h : ∀ x ∈ l, g x = .ok []) : seqAll (l.map g) = .ok [] := by
  rw [seqAll_ok]
  refine ⟨fun x hx => ⟨[], h x hx⟩, ?_⟩
  symm
  rw [List.flatMap_eq_nil_iff]
  intro x hx
  simp [h x hx, getOk]

def seq2 : Res (List Path × List Path) → Res (List Path × List Path) → Res (List Path × List Path)
  | .ok (rm, ad), .ok (rm', ad') => .ok (rm ++ rm', ad ++ ad')
  | .ok _, e => e
  | e, _ => e

theorem seq2_lift2 (path : Path) (a b : Res (List Path)) :
    seq2 (lift2 path a) (lift2 path b) = lift2 path (seqR a b) := by
  cases a <;> cases b <;> simp [seq2, lift2, seqR]

theorem seq2_ok_nil (r : Res (List Path × List Path)) : seq2 r (.ok ([], [])) = r := by
  rcases r with ⟨rm, ad⟩ | _ | _ <;> simp [seq2]

/-- the literal step of the member loops of `reconcileNode` -/
def handleM (sc : Schema) (fuel : Nat) (s : SetTrie) (typeOf : PE → Option TypeRef) (path : Path)
    (acc : Res (List Path × List Path)) (pe : PE) (isMember : Bool) : Res (List Path × List Path) :=
  match acc with
  | .ok (rm, ad) =>
    (match typeOf pe with
     | none => .ok (rm, ad)
     | some tr' =>
       let sub := SetTrie.getChild pe s.children
       match reconcileNode sc fuel sub tr' (isMember && sub.isNone) (path ++ [pe]) with
       | .ok (rm', ad') => .ok (rm ++ rm', ad ++ ad')
       | .err => .err
       | .panic => .panic)
  | e => e

theorem handleM_eq {sc : Schema} {fuel : Nat}
    (ih : ∀ fso tr ia path, reconcileNode sc fuel fso tr ia path = lift2 path (recon sc fuel fso tr ia))
    (s : SetTrie) (typeOf : PE → Option TypeRef) (path : Path)
    (acc : Res (List Path × List Path)) (pe : PE) (b : Bool) :
    handleM sc fuel s typeOf path acc pe b =
      seq2 acc (lift2 path (callWith (recon sc fuel) s typeOf (pe, b))) := by
  rcases acc with ⟨rm, ad⟩ | _ | _
  · simp only [handleM, callWith]
    cases typeOf pe with
    | none => simp [lift2, seq2]
    | some tr' =>
      simp only [ih]
      cases recon sc fuel (getChild pe s.children) tr' (b && (getChild pe s.children).isNone) <;>
        simp [lift2, consAll, seq2, List.map_map, Function.comp_def]
  · simp [handleM, seq2]
  · simp [handleM, seq2]

theorem foldl_seq2_lift2 {α : Type} (path : Path) (g : α → Res (List Path)) (l : List α) :
    ∀ r0 : Res (List Path),
      l.foldl (fun acc x => seq2 acc (lift2 path (g x))) (lift2 path r0) =
        lift2 path ((l.map g).foldl seqR r0) := by
  induction l with
  | nil => intro r0; rfl
  | cons x l ih => intro r0; simp only [List.foldl_cons, List.map_cons, seq2_lift2, ih]

theorem foldl_seqR_filter {α : Type} (p : α → Bool) (g : α → Res (List Path)) (l : List α) :
    ∀ r0, (l.map (fun x => if p x then g x else .ok [])).foldl seqR r0 = ((l.filter p).map g).foldl seqR r0 := by
  induction l with
  | nil => intro r0; rfl
  | cons x l ih =>
    intro r0
    cases hp : p x <;> simp [hp, ih, seqR_ok_nil]

theorem visit_bridge {sc : Schema} {fuel : Nat}
    (ih : ∀ fso tr ia path, reconcileNode sc fuel fso tr ia path = lift2 path (recon sc fuel fso tr ia))
    (s : SetTrie) (typeOf : PE → Option TypeRef) (path : Path) :
    s.members.foldl (fun acc pe => handleM sc fuel s typeOf path acc pe true)
      (s.children.foldl (fun acc (x : PE × SetTrie) =>
        if peHas x.1 s.members then acc else handleM sc fuel s typeOf path acc x.1 false) (.ok ([], []))) =
      lift2 path (visitWith (recon sc fuel) s typeOf) := by
  have h1 : ∀ (acc : Res (List Path × List Path)) (x : PE × SetTrie),
      (if peHas x.1 s.members then acc else handleM sc fuel s typeOf path acc x.1 false) =
        seq2 acc (lift2 path (if !peHas x.1 s.members then callWith (recon sc fuel) s typeOf (x.1, false) else .ok [])) := by
    intro acc x
    cases peHas x.1 s.members
    · simp [handleM_eq ih]
    · simp [lift2, seq2_ok_nil]
  simp only [h1]
  simp only [handleM_eq ih]
  have e0 : (Res.ok ([], []) : Res (List Path × List Path)) = lift2 path (.ok []) := by simp [lift2]
  rw [e0, foldl_seq2_lift2 path, foldl_seq2_lift2 path (fun pe => callWith (recon sc fuel) s typeOf (pe, true))]
  have hf := foldl_seqR_filter (fun (x : PE × SetTrie) => !peHas x.1 s.members)
    (fun x => callWith (recon sc fuel) s typeOf (x.1, false)) s.children (.ok [])
  rw [hf]
  simp only [visitWith, visitList, seqAll, List.map_append, List.foldl_append, List.map_map, Function.comp_def]

theorem reconcileNode_eq (sc : Schema) : ∀ fuel fso tr ia path,
    reconcileNode sc fuel fso tr ia path = lift2 path (recon sc fuel fso tr ia) := by
  intro fuel
  induction fuel with
  | zero => intro fso tr ia path; simp [reconcileNode, recon, lift2]
  | succ fuel ih =>
    intro fso tr ia path
    simp only [reconcileNode, recon]
    cases sc.resolve tr with
    | none => simp [lift2]
    | some a =>
      simp only []
      cases atomKind a with
      | invalid => simp [lift2]
      | scalar _ => simp [lift2]
      | list t =>
        simp only []
        split
        · simp [lift2]
        · cases fso with
          | none => simp [lift2]
          | some s => exact visit_bridge ih s (fun _ => some t.elementType) path
      | map t =>
        simp only []
        split
        · simp [lift2]
        · split
          · cases fso with
            | none => simp [lift2]
            | some s => simp only []; split <;> simp [lift2]
          · cases fso with
            | none => simp [lift2]
            | some s => exact visit_bridge ih s (typeRefAtPath t) path

/-! ### what `recon` does at a node, by the type alone -/

inductive Mode where
  | fail
  | quiet
  | emit
  | emitIfNonempty
  | visit (typeOf : PE → Option TypeRef)

def mode (sc : Schema) (tr : TypeRef) (ia : Bool) : Mode :=
  match sc.resolve tr with
  | none => .fail
  | some a =>
    match atomKind a with
    | .invalid => .fail
    | .scalar _ => .quiet
    | .list t => if !ia && t.rel == "atomic" then .emit else .visit (fun _ => some t.elementType)
    | .map t =>
      if isUntypedDeducedMap t then .quiet
      else if !ia && t.rel == "atomic" then .emitIfNonempty
      else .visit (typeRefAtPath t)

theorem recon_succ (sc : Schema) (fuel : Nat) (fso : Option SetTrie) (tr : TypeRef) (ia : Bool) :
    recon sc (fuel + 1) fso tr ia =
      match mode sc tr ia with
      | .fail => .err
      | .quiet => .ok []
      | .emit => .ok [[]]
      | .emitIfNonempty =>
        (match fso with
         | some s => if s.size > 0 then .ok [[]] else .ok []
         | none => .ok [])
      | .visit typeOf =>
        (match fso with
         | some s => visitWith (recon sc fuel) s typeOf
         | none => .ok []) := by
  simp only [recon, mode]
  cases sc.resolve tr with
  | none => rfl
  | some a =>
    simp only []
    cases atomKind a with
    | invalid => rfl
    | scalar _ => rfl
    | list t => simp only []; split <;> rfl
    | map t => simp only []; split; · rfl
               split <;> rfl

theorem recon_zero (sc : Schema) (fso : Option SetTrie) (tr : TypeRef) (ia : Bool) :
    recon sc 0 fso tr ia = .err := rfl

theorem typeRefAtPath_congr (t : MapT) {a b : PE} (h : PE.equals a b = true) :
    typeRefAtPath t a = typeRefAtPath t b := by
  cases a <;> cases b <;> simp [PE.equals] at h <;> simp [typeRefAtPath, h]

theorem mode_visit_congr {sc : Schema} {tr : TypeRef} {ia : Bool} {typeOf : PE → Option TypeRef}
    (h : mode sc tr ia = .visit typeOf) {a b : PE} (hab : PE.equals a b = true) : typeOf a = typeOf b := by
  simp only [mode] at h
  split at h
  · cases h
  · split at h
    · cases h
    · cases h
    · split at h
      · cases h
      · cases h; rfl
    · split at h
      · cases h
      · split at h
        · cases h
        · cases h; exact typeRefAtPath_congr _ hab

/-- with `isAtomic = true` a node never emits; it fails exactly when it fails with `isAtomic = false` -/
theorem mode_true (sc : Schema) (tr : TypeRef) (ia : Bool) (h : mode sc tr ia ≠ .fail) :
    mode sc tr true = .quiet ∨ ∃ typeOf, mode sc tr true = .visit typeOf := by
  revert h
  simp only [mode]
  cases sc.resolve tr with
  | none => simp
  | some a =>
    simp only []
    cases atomKind a with
    | invalid => simp
    | scalar _ => simp
    | list t => simp
    | map t => intro _; simp only []; split <;> simp

/-! ### prefixes up to `PathElement.Equals` -/

/-- `p` is a (possibly improper) prefix of `q`, element-wise up to `Equals` -/
def prefEq : Path → Path → Bool
  | [], _ => true
  | _ :: _, [] => false
  | a :: as, b :: bs => PE.equals a b && prefEq as bs

theorem prefEq_nil_right (p : Path) : prefEq p [] = p.isEmpty := by cases p <;> rfl

theorem any_prefixesOf (p : Path) : ∀ q : Path,
    (prefixesOf q).any (fun r => Path.equals p r) = (!p.isEmpty && prefEq p q) := by
  intro q
  induction q generalizing p with
  | nil => cases p <;> simp [prefixesOf, prefEq]
  | cons b bs ih =>
    cases p with
    | nil => simp [prefixesOf, Path.equals]
    | cons a as =>
      simp only [prefixesOf, List.any_cons, List.any_map, Function.comp_def, Path.equals, prefEq,
        List.isEmpty_cons, Bool.not_false, Bool.true_and, path_equals_nil_right]
      have : (prefixesOf bs).any (fun r => PE.equals a b && Path.equals as r) =
          (PE.equals a b && (prefixesOf bs).any (fun r => Path.equals as r)) := by
        induction prefixesOf bs with
        | nil => simp
        | cons r rs ihr => simp only [List.any_cons, ihr]; cases PE.equals a b <;> simp
      rw [this, ih]
      cases as with
      | nil => simp [prefEq]
      | cons _ _ => simp

theorem prefEq_take : ∀ {e p : Path}, prefEq e p = true → Path.equals e (p.take e.length) = true
  | [], _, _ => by simp [Path.equals]
  | _ :: _, [], h => by simp [prefEq] at h
  | a :: as, b :: bs, h => by
    simp only [prefEq, Bool.and_eq_true] at h
    simp only [List.length_cons, List.take_succ_cons, Path.equals, Bool.and_eq_true]
    exact ⟨h.1, prefEq_take h.2⟩

theorem path_equals_length : ∀ {a b : Path}, Path.equals a b = true → a.length = b.length
  | [], [], _ => rfl
  | [], _ :: _, h => by simp [Path.equals] at h
  | _ :: _, [], h => by simp [Path.equals] at h
  | _ :: as, _ :: bs, h => by
    simp only [Path.equals, Bool.and_eq_true] at h
    simp [path_equals_length h.2]

/-- a path equal to `q` is a prefix of every path equal to an extension of `q` -/
theorem prefEq_of_equals : ∀ {e q e2 : Path} (r : Path), Path.equals e q = true →
    Path.equals e2 (q ++ r) = true → prefEq e e2 = true
  | [], _, _, _, _, _ => rfl
  | _ :: _, [], _, _, h, _ => by simp [Path.equals] at h
  | _ :: _, _ :: _, [], _, _, h => by simp [Path.equals] at h
  | a :: as, b :: bs, c :: cs, r, h1, h2 => by
    simp only [Path.equals, Bool.and_eq_true, List.cons_append] at h1 h2
    simp only [prefEq, Bool.and_eq_true]
    exact ⟨PE.equals_trans h1.1 (PE.equals_symm_of h2.1), prefEq_of_equals r h1.2 h2.2⟩

theorem prefEq_append_of_equals {e q : Path} (r : Path) (h : Path.equals e q = true) :
    prefEq e (q ++ r) = true :=
  prefEq_of_equals r h (path_equals_refl _)

theorem prefEq_of_path_equals {e q : Path} (h : Path.equals e q = true) : prefEq e q = true := by
  simpa using prefEq_append_of_equals [] h

/-- membership in a reconciled set -/
theorem has_reconciled {fs : SetTrie} (hw : fs.wf = true) (E : List Path) (q : Path) :
    ((fs.rdiff (ofPaths E)).union (ofPaths E)).has q =
      ((fs.has q && !E.any (fun p => !p.isEmpty && prefEq p q)) ||
        E.any (fun p => !p.isEmpty && Path.equals p q)) := by
  rw [has_union q _ _ (wf_rdiff _ _ hw (wf_ofPaths _)) (wf_ofPaths _), has_rdiff q _ _ hw (wf_ofPaths _)]
  simp only [has_ofPaths]
  congr 2
  congr 1
  rw [Bool.eq_iff_iff]
  simp only [List.any_eq_true, Bool.and_eq_true]
  constructor
  · rintro ⟨r, hr, p, hp, hne, he⟩
    refine ⟨p, hp, hne, ?_⟩
    have := any_prefixesOf p q
    rw [hne, Bool.true_and] at this
    rw [← this, List.any_eq_true]
    exact ⟨r, hr, he⟩
  · rintro ⟨p, hp, hne, hpre⟩
    have := any_prefixesOf p q
    rw [hne, Bool.true_and, hpre, List.any_eq_true] at this
    obtain ⟨r, hr, he⟩ := this
    exact ⟨r, hr, p, hp, hne, he⟩

/-! ### the list of visited elements -/

theorem mem_visitList {s : SetTrie} {y : PE} {b : Bool} :
    (y, b) ∈ visitList s ↔
      (b = false ∧ (∃ t, (y, t) ∈ s.children) ∧ peHas y s.members = false) ∨ (b = true ∧ y ∈ s.members) := by
  simp only [visitList, List.mem_append, List.mem_map, List.mem_filter, Prod.mk.injEq, Prod.exists]
  constructor
  · rintro (⟨y', t, ⟨hm, hp⟩, rfl, rfl⟩ | ⟨y', hm, rfl, rfl⟩)
    · exact .inl ⟨rfl, ⟨t, hm⟩, by simpa using hp⟩
    · exact .inr ⟨rfl, hm⟩
  · rintro (⟨rfl, ⟨t, hm⟩, hp⟩ | ⟨rfl, hm⟩)
    · exact .inl ⟨y, t, ⟨hm, by simpa using hp⟩, rfl, rfl⟩
    · exact .inr ⟨y, hm, rfl, rfl⟩

theorem sortedPE_inj {l : List PE} (h : SortedPE l) {x y : PE} (hx : x ∈ l) (hy : y ∈ l)
    (e : PE.equals x y = true) : x = y := by
  induction l with
  | nil => simp at hx
  | cons a l ih =>
    rw [sortedPE_cons] at h
    rcases List.mem_cons.1 hx with hx' | hx' <;> rcases List.mem_cons.1 hy with hy' | hy'
    · rw [hx', hy']
    · subst hx'; have := PE.not_equals_of_less (h.1 y hy'); simp [e] at this
    · subst hy'; have := PE.not_equals_of_less' (h.1 x hx'); simp [e] at this
    · exact ih h.2 hx' hy'

theorem visitList_inj {s : SetTrie} (hw : s.wf = true) {a b : PE × Bool} (ha : a ∈ visitList s)
    (hb : b ∈ visitList s) (e : PE.equals a.1 b.1 = true) : a = b := by
  obtain ⟨m, c⟩ := s
  obtain ⟨hm, hc, _⟩ := wf_node.1 hw
  obtain ⟨y1, b1⟩ := a
  obtain ⟨y2, b2⟩ := b
  simp only [mem_visitList, SetTrie.children, SetTrie.members] at ha hb
  simp only at e
  rcases ha with ⟨rfl, ⟨t1, h1⟩, p1⟩ | ⟨rfl, h1⟩ <;> rcases hb with ⟨rfl, ⟨t2, h2⟩, p2⟩ | ⟨rfl, h2⟩
  · have hk : SortedPE (c.map Prod.fst) := (sortedKeys_iff_map c).1 hc
    have : y1 = y2 := sortedPE_inj hk (List.mem_map.2 ⟨_, h1, rfl⟩) (List.mem_map.2 ⟨_, h2, rfl⟩) e
    simp [this]
  · have : peHas y2 m = true := (peHas_iff_exists hm y2).2 ⟨y2, h2, PE.equals_refl _⟩
    rw [← peHas_congr e, p1] at this; cases this
  · have : peHas y1 m = true := (peHas_iff_exists hm y1).2 ⟨y1, h1, PE.equals_refl _⟩
    rw [peHas_congr e, p2] at this; cases this
  · simp [sortedPE_inj hm h1 h2 e]

/-! ### calls -/

theorem callWith_ok {rec : Option SetTrie → TypeRef → Bool → Res (List Path)} {s : SetTrie}
    {typeOf : PE → Option TypeRef} {x : PE × Bool} {e : List Path} (h : callWith rec s typeOf x = .ok e) :
    (typeOf x.1 = none ∧ e = []) ∨
      ∃ tr' e0, typeOf x.1 = some tr' ∧
        rec (getChild x.1 s.children) tr' (x.2 && (getChild x.1 s.children).isNone) = .ok e0 ∧
        e = e0.map (fun p => x.1 :: p) := by
  simp only [callWith] at h
  split at h
  · rename_i hn
    simp only [Res.ok.injEq] at h
    exact .inl ⟨hn, h.symm⟩
  · rename_i tr' hs
    cases hr : rec (getChild x.1 s.children) tr' (x.2 && (getChild x.1 s.children).isNone) with
    | ok e0 => rw [hr] at h; simp only [consAll, Res.ok.injEq] at h; exact .inr ⟨tr', e0, hs, hr, h.symm⟩
    | err => rw [hr] at h; simp [consAll] at h
    | panic => rw [hr] at h; simp [consAll] at h

/-- every emitted path of a visit comes from the call of one visited element -/
theorem visit_mem {rec : Option SetTrie → TypeRef → Bool → Res (List Path)} {s : SetTrie}
    {typeOf : PE → Option TypeRef} {E : List Path} (h : visitWith rec s typeOf = .ok E) {p : Path}
    (hp : p ∈ E) :
    ∃ x ∈ visitList s, ∃ tr' e0 p0, typeOf x.1 = some tr' ∧
      rec (getChild x.1 s.children) tr' (x.2 && (getChild x.1 s.children).isNone) = .ok e0 ∧
      p0 ∈ e0 ∧ p = x.1 :: p0 := by
  obtain ⟨x, hx, e, he, hpe⟩ := seqAll_mem h hp
  rcases callWith_ok he with ⟨_, rfl⟩ | ⟨tr', e0, ht, hr, rfl⟩
  · simp at hpe
  · obtain ⟨p0, hp0, rfl⟩ := List.mem_map.1 hpe
    exact ⟨x, hx, tr', e0, p0, ht, hr, hp0, rfl⟩

/-- every visited element of a successful visit was called successfully and contributed its paths -/
theorem visit_call {rec : Option SetTrie → TypeRef → Bool → Res (List Path)} {s : SetTrie}
    {typeOf : PE → Option TypeRef} {E : List Path} (h : visitWith rec s typeOf = .ok E) {x : PE × Bool}
    (hx : x ∈ visitList s) {tr' : TypeRef} (ht : typeOf x.1 = some tr') :
    ∃ e0, rec (getChild x.1 s.children) tr' (x.2 && (getChild x.1 s.children).isNone) = .ok e0 ∧
      ∀ p0 ∈ e0, x.1 :: p0 ∈ E := by
  obtain ⟨e, he, hsub⟩ := seqAll_call h hx
  rcases callWith_ok he with ⟨hn, _⟩ | ⟨tr'', e0, ht', hr, rfl⟩
  · rw [hn] at ht; cases ht
  · rw [ht] at ht'; cases ht'
    exact ⟨e0, hr, fun p0 hp0 => hsub _ (List.mem_map.2 ⟨p0, hp0, rfl⟩)⟩

theorem visit_quiet {rec : Option SetTrie → TypeRef → Bool → Res (List Path)} {s : SetTrie}
    {typeOf : PE → Option TypeRef}
    (h : ∀ x ∈ visitList s, ∀ tr', typeOf x.1 = some tr' →
      rec (getChild x.1 s.children) tr' (x.2 && (getChild x.1 s.children).isNone) = .ok []) :
    visitWith rec s typeOf = .ok [] := by
  apply seqAll_quiet
  intro x hx
  simp only [callWith]
  cases ht : typeOf x.1 with
  | none => rfl
  | some tr' => simp [h x hx tr' ht, consAll]

/-! ### first facts about `recon` -/

theorem mode_emit_ia {sc : Schema} {tr : TypeRef} {ia : Bool}
    (h : mode sc tr ia = .emit ∨ mode sc tr ia = .emitIfNonempty) : ia = false := by
  revert h
  simp only [mode]
  cases sc.resolve tr with
  | none => simp
  | some a =>
    simp only []
    cases atomKind a with
    | invalid => simp
    | scalar _ => simp
    | list t => cases ia <;> simp
    | map t => simp only []; cases isUntypedDeducedMap t <;> cases ia <;> simp

/-- a node either emits exactly itself (and then was not treated as a leaf member by its parent) or
only paths strictly beneath itself -/
theorem recon_here_or_below {sc : Schema} {fuel : Nat} {fso : Option SetTrie} {tr : TypeRef} {ia : Bool}
    {E : List Path} (h : recon sc fuel fso tr ia = .ok E) :
    (E = [[]] ∧ ia = false) ∨ ∀ p ∈ E, p ≠ [] := by
  cases fuel with
  | zero => simp [recon_zero] at h
  | succ fuel =>
    rw [recon_succ] at h
    cases hm : mode sc tr ia with
    | fail => simp [hm] at h
    | quiet => simp only [hm, Res.ok.injEq] at h; subst h; right; simp
    | emit => simp only [hm, Res.ok.injEq] at h; subst h; exact .inl ⟨rfl, mode_emit_ia (.inl hm)⟩
    | emitIfNonempty =>
      simp only [hm] at h
      have hia := mode_emit_ia (.inr hm)
      cases fso with
      | none => simp only [Res.ok.injEq] at h; subst h; right; simp
      | some s =>
        simp only [] at h
        split at h
        · simp only [Res.ok.injEq] at h; subst h; exact .inl ⟨rfl, hia⟩
        · simp only [Res.ok.injEq] at h; subst h; right; simp
    | visit typeOf =>
      simp only [hm] at h
      cases fso with
      | none => simp only [Res.ok.injEq] at h; subst h; right; simp
      | some s =>
        right
        intro p hp
        obtain ⟨x, _, tr', e0, p0, _, _, _, rfl⟩ := visit_mem h hp
        simp

theorem recon_eq_reconcileNode {sc : Schema} {fuel : Nat} {fso : Option SetTrie} {tr : TypeRef} {ia : Bool}
    {E : List Path} (h : recon sc fuel fso tr ia = .ok E) :
    reconcileNode sc fuel fso tr ia [] = .ok (E, E) := by
  rw [reconcileNode_eq, h]; simp [lift2]

/-- every emitted path other than the node itself is a prefix of a member -/
theorem recon_covered {sc : Schema} {fuel : Nat} {s : SetTrie} {tr : TypeRef} {ia : Bool}
    {E : List Path} (h : recon sc fuel (some s) tr ia = .ok E) (hw : s.wf = true) {p : Path} (hp : p ∈ E)
    (hne : p ≠ []) : Covered s p := by
  rcases reconcileNode_added sc fuel (some s) tr ia [] E E (recon_eq_reconcileNode h)
    (fun t ht => by cases ht; exact hw) p hp with ⟨rfl, _⟩ | ⟨t, r, ht, _, rfl, hc⟩
  · exact absurd rfl hne
  · cases ht; simpa using hc

theorem recon_none_below {sc : Schema} {fuel : Nat} {tr : TypeRef} {ia : Bool}
    {E : List Path} (h : recon sc fuel none tr ia = .ok E) {p : Path} (hp : p ∈ E) : p = [] := by
  rcases reconcileNode_added sc fuel none tr ia [] E E (recon_eq_reconcileNode h)
    (fun t ht => by cases ht) p hp with ⟨rfl, _⟩ | ⟨t, r, ht, _, _, _⟩
  · rfl
  · cases ht

/-- a leaf member of a type that reconciles without error is quiet -/
theorem recon_none_true {sc : Schema} {fuel : Nat} {fso : Option SetTrie} {tr : TypeRef} {ia : Bool}
    {E : List Path} (h : recon sc fuel fso tr ia = .ok E) (fuel' : Nat) :
    recon sc (fuel' + 1) none tr true = .ok [] := by
  cases fuel with
  | zero => simp [recon_zero] at h
  | succ fuel =>
    rw [recon_succ] at h
    have hm : mode sc tr ia ≠ .fail := by intro hm; simp [hm] at h
    rw [recon_succ]
    rcases mode_true sc tr ia hm with h1 | ⟨typeOf, h1⟩ <;> simp [h1]

/-- no emitted path is a prefix of another one -/
theorem recon_antichain (sc : Schema) : ∀ (fuel : Nat) (fso : Option SetTrie) (tr : TypeRef) (ia : Bool)
    (E : List Path), recon sc fuel fso tr ia = .ok E → (∀ s, fso = some s → s.wf = true) →
    ∀ p ∈ E, ∀ q ∈ E, prefEq p q = true → p = q := by
  intro fuel
  induction fuel with
  | zero => intro fso tr ia E h; simp [recon_zero] at h
  | succ fuel ih =>
    intro fso tr ia E h hw p hp q hq hpq
    rcases recon_here_or_below h with ⟨rfl, _⟩ | hbelow
    · simp only [List.mem_singleton] at hp hq; rw [hp, hq]
    · rw [recon_succ] at h
      cases hm : mode sc tr ia with
      | fail => simp [hm] at h
      | quiet => simp only [hm, Res.ok.injEq] at h; subst h; simp at hp
      | emit => simp only [hm, Res.ok.injEq] at h; subst h; exact absurd rfl (hbelow [] (by simp))
      | emitIfNonempty =>
        simp only [hm] at h
        cases fso with
        | none => simp only [Res.ok.injEq] at h; subst h; simp at hp
        | some s =>
          simp only [] at h
          split at h
          · simp only [Res.ok.injEq] at h; subst h; exact absurd rfl (hbelow [] (by simp))
          · simp only [Res.ok.injEq] at h; subst h; simp at hp
      | visit typeOf =>
        simp only [hm] at h
        cases fso with
        | none => simp only [Res.ok.injEq] at h; subst h; simp at hp
        | some s =>
          simp only [] at h
          have hws := hw s rfl
          obtain ⟨x1, hx1, tr1, e1, p0, ht1, hr1, hp0, rfl⟩ := visit_mem h hp
          obtain ⟨x2, hx2, tr2, e2, q0, ht2, hr2, hq0, rfl⟩ := visit_mem h hq
          simp only [prefEq, Bool.and_eq_true] at hpq
          have hx := visitList_inj hws hx1 hx2 hpq.1
          subst hx
          rw [ht1] at ht2; cases ht2
          rw [hr1] at hr2; cases hr2
          have hwc : ∀ t, getChild x1.1 s.children = some t → t.wf = true := by
            intro t ht
            obtain ⟨m, c⟩ := s
            exact (wf_of_getChild hws ht).1
          rw [ih _ _ _ _ hr1 hwc p0 hp0 q0 hq0 hpq.2]

/-! ### `reconcileFieldSet` -/

theorem reconcileFieldSet_recon {sc : Schema} {fs fs' : SetTrie} {tr : TypeRef}
    (h : reconcileFieldSet sc fs tr = .ok (some fs')) :
    ∃ E, recon sc (fs.depth + 1) (some fs) tr false = .ok E ∧
      fs' = (fs.rdiff (ofPaths E)).union (ofPaths E) := by
  obtain ⟨rm, ad, hr, rfl⟩ := reconcileFieldSet_some h
  rw [reconcileNode_eq] at hr
  cases hE : recon sc (fs.depth + 1) (some fs) tr false with
  | ok E =>
    rw [hE] at hr
    simp only [lift2, List.nil_append, List.map_id', Res.ok.injEq, Prod.mk.injEq] at hr
    obtain ⟨rfl, rfl⟩ := hr
    exact ⟨E, rfl, rfl⟩
  | err => rw [hE] at hr; simp [lift2] at hr
  | panic => rw [hE] at hr; simp [lift2] at hr

theorem reconcileFieldSet_none_of_recon {sc : Schema} {fs : SetTrie} {tr : TypeRef}
    (h : recon sc (fs.depth + 1) (some fs) tr false = .ok []) : reconcileFieldSet sc fs tr = .ok none := by
  simp [reconcileFieldSet, reconcileNode_eq, h, lift2]

theorem reconcileFieldSet_some_of_recon {sc : Schema} {fs : SetTrie} {tr : TypeRef} {E : List Path}
    (h : recon sc (fs.depth + 1) (some fs) tr false = .ok E) (hE : E ≠ []) :
    reconcileFieldSet sc fs tr = .ok (some ((fs.rdiff (ofPaths E)).union (ofPaths E))) := by
  cases E with
  | nil => exact absurd rfl hE
  | cons p E => simp [reconcileFieldSet, reconcileNode_eq, h, lift2]

theorem reconcile_covers_old' {sc : Schema} {fs fs' : SetTrie} {tr : TypeRef} {p : Path}
    (hwf : fs.wf = true) (h : reconcileFieldSet sc fs tr = .ok (some fs')) (hp : fs.has p = true) :
    ∃ q, q <+: p ∧ q ≠ [] ∧ fs'.has q = true := by
  obtain ⟨E, _, rfl⟩ := reconcileFieldSet_recon h
  by_cases hany : E.any (fun e => !e.isEmpty && prefEq e p) = true
  · obtain ⟨e, he, hc⟩ := List.any_eq_true.1 hany
    simp only [Bool.and_eq_true, Bool.not_eq_true', List.isEmpty_eq_false_iff] at hc
    have heq := prefEq_take hc.2
    have hne : p.take e.length ≠ [] := by
      intro h0
      have := path_equals_length heq
      rw [h0] at this
      exact hc.1 (List.eq_nil_of_length_eq_zero (by simpa using this))
    refine ⟨p.take e.length, List.take_prefix _ _, hne, ?_⟩
    rw [has_reconciled hwf, Bool.or_eq_true]
    right
    exact List.any_eq_true.2 ⟨e, he, by simp [hc.1, heq]⟩
  · refine ⟨p, List.prefix_refl _, has_true_ne_nil hp, ?_⟩
    rw [has_reconciled hwf, Bool.or_eq_true]
    left
    simp [hp, hany]

theorem reconcile_new_from_old' {sc : Schema} {fs fs' : SetTrie} {tr : TypeRef} {q : Path}
    (hwf : fs.wf = true) (h : reconcileFieldSet sc fs tr = .ok (some fs')) (hq : fs'.has q = true) :
    fs.has q = true ∨ ∃ r, r ≠ [] ∧ fs.has (q ++ r) = true := by
  obtain ⟨r, hr⟩ := reconcileFieldSet_covered h hwf hq
  by_cases h0 : r = []
  · subst h0; left; simpa using hr
  · exact .inr ⟨r, h0, hr⟩

theorem reconcile_nothing_beneath_added' {sc : Schema} {fs fs' : SetTrie} {tr : TypeRef} {q r : Path}
    (hwf : fs.wf = true) (h : reconcileFieldSet sc fs tr = .ok (some fs'))
    (hq : fs'.has q = true) (hnew : fs.has q = false) (hr : r ≠ []) :
    fs'.has (q ++ r) = false := by
  obtain ⟨E, hE, rfl⟩ := reconcileFieldSet_recon h
  rw [has_reconciled hwf, hnew, Bool.false_and, Bool.false_or] at hq
  obtain ⟨e, he, hc⟩ := List.any_eq_true.1 hq
  simp only [Bool.and_eq_true, Bool.not_eq_true', List.isEmpty_eq_false_iff] at hc
  rw [has_reconciled hwf]
  have h1 : E.any (fun p => !p.isEmpty && prefEq p (q ++ r)) = true :=
    List.any_eq_true.2 ⟨e, he, by simp [hc.1, prefEq_append_of_equals r hc.2]⟩
  have h2 : E.any (fun p => !p.isEmpty && Path.equals p (q ++ r)) = false := by
    rw [List.any_eq_false]
    intro e2 he2 hc2
    simp only [Bool.and_eq_true] at hc2
    have hpre := prefEq_of_equals r hc.2 hc2.2
    have := recon_antichain sc _ _ _ _ _ hE (fun s hs => by cases hs; exact hwf) e he e2 he2 hpre
    subst this
    have l1 := path_equals_length hc.2
    have l2 := path_equals_length hc2.2
    rw [l1, List.length_append] at l2
    exact hr (List.eq_nil_of_length_eq_zero (by omega))
  simp [h1, h2]

/-! ### the second run is quiet -/

/-- `s'` is `s` without everything at or beneath the (non-empty) paths of `E`, plus those paths -/
def Rel (E : List Path) (s s' : SetTrie) : Prop :=
  ∀ q, s'.has q = ((s.has q && !E.any (fun p => prefEq p q)) || E.any (fun p => Path.equals p q))

def RelO (E : List Path) : Option SetTrie → Option SetTrie → Prop
  | none, none => True
  | some s, some s' => s'.wf = true ∧ Rel E s s'
  | _, _ => False

def odepth : Option SetTrie → Nat
  | none => 0
  | some s => s.depth

def IdemOK (sc : Schema) (fuel : Nat) : Prop :=
  ∀ (fso : Option SetTrie) (tr : TypeRef) (ia : Bool) (E : List Path),
    recon sc fuel fso tr ia = .ok E → (∀ s, fso = some s → s.wf = true) → (∀ p ∈ E, p ≠ []) →
    ∀ (fso' : Option SetTrie) (fuel' : Nat), RelO E fso fso' → odepth fso' + 1 ≤ fuel' →
      recon sc fuel' fso' tr ia = .ok []

theorem depth_getChild {pe : PE} {t : SetTrie} : ∀ {c : Children}, getChild pe c = some t →
    t.depth ≤ SetTrie.depthChildren c
  | [], h => by simp [getChild] at h
  | (x, u) :: c, h => by
    simp only [getChild] at h
    simp only [SetTrie.depthChildren]
    split at h
    · have := depth_getChild h; omega
    · split at h
      · cases h; omega
      · cases h

theorem depth_pos (s : SetTrie) : 1 ≤ s.depth := by
  obtain ⟨m, c⟩ := s; simp [SetTrie.depth]

theorem has_cons_child {s : SetTrie} {pe : PE} {q : Path} (hq : q ≠ []) :
    s.has (pe :: q) = hasOpt q (getChild pe s.children) := by
  obtain ⟨m, c⟩ := s; exact has_cons hq pe m c

theorem has_single_members {s : SetTrie} {pe : PE} : s.has [pe] = peHas pe s.members := by
  obtain ⟨m, c⟩ := s; exact has_single pe m c

theorem wf_getChild {s t : SetTrie} {pe : PE} (hw : s.wf = true) (h : getChild pe s.children = some t) :
    t.wf = true ∧ t.isEmpty = false := by
  obtain ⟨m, c⟩ := s; exact wf_of_getChild hw h

theorem sortedPE_members {s : SetTrie} (hw : s.wf = true) : SortedPE s.members := by
  obtain ⟨m, c⟩ := s; exact (wf_node.1 hw).1

theorem sortedKeys_children {s : SetTrie} (hw : s.wf = true) : SortedKeys s.children := by
  obtain ⟨m, c⟩ := s; exact (wf_node.1 hw).2.1

/-- the flag of a visited element says whether it is a member -/
theorem visitList_flag {s : SetTrie} (hw : s.wf = true) {x : PE × Bool} (hx : x ∈ visitList s) :
    x.2 = s.has [x.1] := by
  obtain ⟨y, b⟩ := x
  rw [has_single_members]
  rcases mem_visitList.1 hx with ⟨rfl, _, hp⟩ | ⟨rfl, hm⟩
  · exact hp.symm
  · exact ((peHas_iff_exists (sortedPE_members hw) y).2 ⟨y, hm, PE.equals_refl _⟩).symm

/-- an element with a member at or beneath it is visited -/
theorem visited_of_has {s : SetTrie} (hw : s.wf = true) {pe : PE} {q : Path} (h : s.has (pe :: q) = true) :
    ∃ x ∈ visitList s, PE.equals x.1 pe = true := by
  by_cases hm : peHas pe s.members = true
  · obtain ⟨y, hy, he⟩ := (peHas_iff_exists (sortedPE_members hw) pe).1 hm
    exact ⟨(y, true), mem_visitList.2 (.inr ⟨rfl, hy⟩), he⟩
  · have hq : q ≠ [] := by
      rintro rfl
      rw [has_single_members] at h
      exact hm h
    rw [has_cons_child hq] at h
    cases hg : getChild pe s.children with
    | none => rw [hg] at h; simp [hasOpt] at h
    | some t =>
      obtain ⟨y, hy, he⟩ := mem_of_getChild hg
      refine ⟨(y, false), mem_visitList.2 (.inl ⟨rfl, ⟨t, hy⟩, ?_⟩), he⟩
      rw [peHas_congr he]; simpa using hm

/-- a visited element has a member at or beneath it -/
theorem has_of_visited {s : SetTrie} (hw : s.wf = true) {x : PE × Bool} (hx : x ∈ visitList s) :
    ∃ q, s.has (x.1 :: q) = true := by
  obtain ⟨y, b⟩ := x
  rcases mem_visitList.1 hx with ⟨rfl, ⟨t, ht⟩, _⟩ | ⟨rfl, hm⟩
  · have hg := getChild_of_mem (sortedKeys_children hw) ht (PE.equals_refl y)
    obtain ⟨q, hq⟩ := exists_has_of_not_isEmpty t (wf_getChild hw hg).1 (wf_getChild hw hg).2
    exact ⟨q, has_cons_of_getChild hg hq⟩
  · refine ⟨[], ?_⟩
    rw [has_single_members]
    exact (peHas_iff_exists (sortedPE_members hw) y).2 ⟨y, hm, PE.equals_refl _⟩

theorem size_eq_zero_iff {s : SetTrie} (hw : s.wf = true) : s.size = 0 ↔ ∀ q, s.has q = false := by
  rw [size_eq_length_paths]
  constructor
  · intro h q
    cases hq : s.has q with
    | false => rfl
    | true =>
      obtain ⟨p, hp, _⟩ := (has_iff_mem_paths q s hw).1 hq
      rw [List.eq_nil_of_length_eq_zero h] at hp
      simp at hp
  · intro h
    cases hp : s.paths with
    | nil => rfl
    | cons p ps =>
      have := (has_iff_mem_paths p s hw).2 ⟨p, by simp [hp], path_equals_refl p⟩
      rw [h p] at this; cases this

theorem visit_idem {sc : Schema} {fuel : Nat} (ih : IdemOK sc fuel) {s s' : SetTrie}
    {typeOf : PE → Option TypeRef}
    (hcongr : ∀ {a b : PE}, PE.equals a b = true → typeOf a = typeOf b) {E : List Path}
    (h : visitWith (recon sc fuel) s typeOf = .ok E) (hw : s.wf = true) (hw' : s'.wf = true)
    (hrel : Rel E s s') {f' : Nat} (hf : s'.depth ≤ f') :
    visitWith (recon sc f') s' typeOf = .ok [] := by
  apply visit_quiet
  rintro ⟨pe', b'⟩ hx' tr' ht'
  simp only at ht' ⊢
  -- the corresponding element of the first run
  have hocc : ∃ x ∈ visitList s, PE.equals x.1 pe' = true := by
    obtain ⟨q0, hq0⟩ := has_of_visited hw' hx'
    rw [hrel, Bool.or_eq_true] at hq0
    rcases hq0 with hq0 | hq0
    · simp only [Bool.and_eq_true] at hq0
      exact visited_of_has hw hq0.1
    · obtain ⟨p, hp, he⟩ := List.any_eq_true.1 hq0
      obtain ⟨x, hx, _, _, p0, _, _, _, rfl⟩ := visit_mem h hp
      simp only [Path.equals, Bool.and_eq_true] at he
      exact ⟨x, hx, he.1⟩
  obtain ⟨⟨y, b⟩, hx, hy⟩ := hocc
  simp only at hy
  have hty : typeOf y = some tr' := by rw [hcongr hy]; exact ht'
  obtain ⟨e0, hr, hsub⟩ := visit_call h hx hty
  simp only at hr hsub
  rw [getChild_congr hy] at hr
  -- the paths of `E` through `pe'` are those of this call
  have hE : ∀ p ∈ E, ∃ y2 p2, p = y2 :: p2 ∧ (PE.equals y2 pe' = true → y2 = y ∧ p2 ∈ e0) := by
    intro p hp
    obtain ⟨x2, hx2, tr2, e2, p2, ht2, hr2, hp2, rfl⟩ := visit_mem h hp
    refine ⟨x2.1, p2, rfl, fun he => ?_⟩
    have := visitList_inj hw hx2 hx (PE.equals_trans he (PE.equals_symm_of hy))
    subst this
    simp only at ht2 hr2
    rw [hty] at ht2; cases ht2
    rw [getChild_congr hy, hr] at hr2; cases hr2
    exact ⟨rfl, hp2⟩
  have hany : ∀ (ρ : Path → Path → Bool),
      (∀ a as b bs, ρ (a :: as) (b :: bs) = (PE.equals a b && ρ as bs)) → ∀ q,
      E.any (fun p => ρ p (pe' :: q)) = e0.any (fun p => ρ p q) := by
    intro ρ hρ q
    rw [Bool.eq_iff_iff]
    simp only [List.any_eq_true]
    constructor
    · rintro ⟨p, hp, hpq⟩
      obtain ⟨y2, p2, rfl, hy2⟩ := hE p hp
      rw [hρ, Bool.and_eq_true] at hpq
      exact ⟨p2, (hy2 hpq.1).2, hpq.2⟩
    · rintro ⟨p0, hp0, hpq⟩
      exact ⟨y :: p0, hsub p0 hp0, by rw [hρ, hy, hpq]; rfl⟩
  have hpre := hany prefEq (fun _ _ _ _ => rfl)
  have heq := hany Path.equals (fun _ _ _ _ => rfl)
  -- membership beneath `pe'` in the reconciled set
  have hstar : ∀ q, q ≠ [] → hasOpt q (getChild pe' s'.children) =
      ((hasOpt q (getChild pe' s.children) && !e0.any (fun p => prefEq p q)) ||
        e0.any (fun p => Path.equals p q)) := by
    intro q hq
    rw [← has_cons_child hq, ← has_cons_child hq, hrel, hpre, heq]
  have hf1 : 1 ≤ f' := Nat.le_trans (depth_pos s') hf
  rcases recon_here_or_below hr with ⟨rfl, _⟩ | hbelow
  · -- emitted at `pe'`: it is now a member without children
    have hnone : getChild pe' s'.children = none := by
      cases hg : getChild pe' s'.children with
      | none => rfl
      | some t' =>
        obtain ⟨q, hq⟩ := exists_has_of_not_isEmpty t' (wf_getChild hw' hg).1 (wf_getChild hw' hg).2
        have hqn := has_true_ne_nil hq
        have := hstar q hqn
        rw [hg] at this
        simp only [hasOpt, hq, List.any_cons, prefEq, List.any_nil, Bool.or_false, Bool.not_true,
          Bool.and_false, Bool.false_or, path_equals_nil_left] at this
        exact absurd (List.isEmpty_iff.1 this.symm) hqn
    have hb' : b' = true := by
      rcases mem_visitList.1 hx' with ⟨_, ⟨t', ht'⟩, _⟩ | ⟨hb, _⟩
      · rw [getChild_of_mem (sortedKeys_children hw') ht' (PE.equals_refl _)] at hnone; cases hnone
      · exact hb
    subst hb'
    rw [hnone]
    obtain ⟨f'', rfl⟩ : ∃ f'', f' = f'' + 1 := ⟨f' - 1, by omega⟩
    exact recon_none_true hr f''
  · -- not emitted at `pe'`: same membership, the sub-sets are related
    have hnoE : ∀ (ρ : Path → Path → Bool), (∀ p, ρ p [] = p.isEmpty) →
        e0.any (fun p => ρ p []) = false := by
      intro ρ hρ
      rw [List.any_eq_false]
      intro p hp
      rw [hρ]
      simpa using hbelow p hp
    have hmem : s'.has [pe'] = s.has [pe'] := by
      rw [hrel, hpre, heq, hnoE prefEq prefEq_nil_right, hnoE Path.equals path_equals_nil_right]
      simp
    have hb : b' = b := by
      have h1 := visitList_flag hw' hx'
      have h2 := visitList_flag hw hx
      simp only at h1 h2
      rw [h1, h2, hmem, has_congr_path (a := [y]) (b := [pe']) (by simp [Path.equals, hy])]
    subst hb
    have hrelO : RelO e0 (getChild pe' s.children) (getChild pe' s'.children) := by
      cases hg : getChild pe' s.children with
      | none =>
        cases hg' : getChild pe' s'.children with
        | none => trivial
        | some t' =>
          exfalso
          obtain ⟨q, hq⟩ := exists_has_of_not_isEmpty t' (wf_getChild hw' hg').1 (wf_getChild hw' hg').2
          have := hstar q (has_true_ne_nil hq)
          rw [hg, hg'] at this
          simp only [hasOpt, hq, Bool.false_and, Bool.false_or] at this
          obtain ⟨p0, hp0, _⟩ := List.any_eq_true.1 this.symm
          rw [hg] at hr
          exact hbelow p0 hp0 (recon_none_below hr hp0)
      | some t =>
        cases hg' : getChild pe' s'.children with
        | none =>
          exfalso
          obtain ⟨q, hq⟩ := exists_has_of_not_isEmpty t (wf_getChild hw hg).1 (wf_getChild hw hg).2
          have h1 := hstar q (has_true_ne_nil hq)
          rw [hg, hg'] at h1
          simp only [hasOpt, hq, Bool.true_and] at h1
          have h2 : e0.any (fun p => prefEq p q) = true := by
            cases hc : e0.any (fun p => prefEq p q) with
            | true => rfl
            | false => rw [hc] at h1; simp at h1
          obtain ⟨p0, hp0, _⟩ := List.any_eq_true.1 h2
          have h3 := hstar p0 (hbelow p0 hp0)
          rw [hg'] at h3
          have h4 : e0.any (fun p => Path.equals p p0) = true :=
            List.any_eq_true.2 ⟨p0, hp0, path_equals_refl p0⟩
          rw [h4] at h3
          simp [hasOpt] at h3
        | some t' =>
          refine ⟨(wf_getChild hw' hg').1, fun q => ?_⟩
          by_cases hq : q = []
          · subst hq
            rw [hnoE Path.equals path_equals_nil_right]
            simp [has_nil]
          · have := hstar q hq
            rw [hg, hg'] at this
            exact this
    have hdepth : odepth (getChild pe' s'.children) + 1 ≤ f' := by
      cases hg' : getChild pe' s'.children with
      | none => simp [odepth]; omega
      | some t' =>
        have := depth_getChild hg'
        obtain ⟨m', c'⟩ := s'
        simp only [SetTrie.depth, SetTrie.children] at hf this
        simp only [odepth]; omega
    have hiso : (getChild pe' s'.children).isNone = (getChild pe' s.children).isNone := by
      cases hg : getChild pe' s.children <;> cases hg' : getChild pe' s'.children <;>
        simp [hg, hg', RelO] at hrelO ⊢
    rw [hiso]
    exact ih _ _ _ _ hr (fun t ht => (wf_getChild hw ht).1) hbelow _ _ hrelO hdepth

theorem recon_idem (sc : Schema) : ∀ fuel, IdemOK sc fuel := by
  intro fuel
  induction fuel with
  | zero => intro fso tr ia E h; simp [recon_zero] at h
  | succ fuel ih =>
    intro fso tr ia E h hw hne fso' fuel' hrel hfuel
    obtain ⟨f', rfl⟩ : ∃ f', fuel' = f' + 1 := ⟨fuel' - 1, by omega⟩
    rw [recon_succ] at h ⊢
    cases hm : mode sc tr ia with
    | fail => simp [hm] at h
    | quiet => rfl
    | emit => simp only [hm, Res.ok.injEq] at h; subst h; exact absurd rfl (hne [] (by simp))
    | emitIfNonempty =>
      simp only [hm] at h ⊢
      cases fso with
      | none => cases fso' with
        | none => rfl
        | some s' => simp [RelO] at hrel
      | some s => cases fso' with
        | none => simp [RelO] at hrel
        | some s' =>
          simp only [RelO] at hrel
          simp only [] at h ⊢
          split at h
          · simp only [Res.ok.injEq] at h; subst h; exact absurd rfl (hne [] (by simp))
          · rename_i hsz
            simp only [Res.ok.injEq] at h; subst h
            have h0 : s.size = 0 := by omega
            have h0' : s'.size = 0 := by
              rw [size_eq_zero_iff hrel.1]
              intro q
              rw [hrel.2 q, (size_eq_zero_iff (hw s rfl)).1 h0 q]
              simp
            simp [h0']
    | visit typeOf =>
      simp only [hm] at h ⊢
      cases fso with
      | none => cases fso' with
        | none => rfl
        | some s' => simp [RelO] at hrel
      | some s => cases fso' with
        | none => simp [RelO] at hrel
        | some s' =>
          simp only [RelO] at hrel
          simp only [] at h ⊢
          simp only [odepth] at hfuel
          exact visit_idem ih (fun hab => mode_visit_congr hm hab) h (hw s rfl) hrel.1 hrel.2 (by omega)

/-! ### reconciling again -/

/-- when the root itself is emitted (`toRemove = toAdd = [[]]`), the set keeps its members -/
theorem has_reconciled_root {fs : SetTrie} (hw : fs.wf = true) (q : Path) :
    ((fs.rdiff (ofPaths [[]])).union (ofPaths [[]])).has q = fs.has q := by
  rw [has_reconciled hw]; simp

theorem rel_reconciled {fs : SetTrie} (hw : fs.wf = true) {E : List Path} (hne : ∀ p ∈ E, p ≠ []) :
    Rel E fs ((fs.rdiff (ofPaths E)).union (ofPaths E)) := by
  intro q
  rw [has_reconciled hw]
  have : ∀ ρ : Path → Bool, E.any (fun p => !p.isEmpty && ρ p) = E.any ρ := by
    intro ρ
    induction E with
    | nil => rfl
    | cons p E ih =>
      have hp : p.isEmpty = false := by simpa using hne p (by simp)
      simp only [List.any_cons, hp, Bool.not_false, Bool.true_and]
      rw [ih (fun p hp => hne p (by simp [hp]))]
  rw [this (fun p => prefEq p q), this (fun p => Path.equals p q)]

/-- the root is emitted again on the reconciled set -/
theorem recon_root_again {sc : Schema} {fs fs' : SetTrie} {tr : TypeRef} {f f' : Nat} (hw : fs.wf = true)
    (hw' : fs'.wf = true) (hsame : ∀ q, fs'.has q = fs.has q)
    (h : recon sc (f + 1) (some fs) tr false = .ok [[]]) :
    recon sc (f' + 1) (some fs') tr false = .ok [[]] := by
  rw [recon_succ] at h ⊢
  cases hm : mode sc tr false with
  | fail => simp [hm] at h
  | quiet => simp [hm] at h
  | emit => rfl
  | emitIfNonempty =>
    simp only [hm] at h ⊢
    split at h
    · rename_i hsz
      have : fs'.size > 0 := by
        apply Nat.pos_of_ne_zero
        intro h0
        have h1 : fs.size = 0 := by
          rw [size_eq_zero_iff hw]
          intro q
          rw [← hsame q]
          exact (size_eq_zero_iff hw').1 h0 q
        omega
      simp [this]
    · simp at h
  | visit typeOf =>
    simp only [hm] at h
    obtain ⟨x, _, _, _, p0, _, _, _, hp⟩ := visit_mem h (p := []) (by simp)
    cases hp

theorem reconcile_idempotent_of_changed' {sc : Schema} {fs fs' : SetTrie} {tr : TypeRef}
    (hwf : fs.wf = true) (h : reconcileFieldSet sc fs tr = .ok (some fs'))
    (hch : ∃ p, fs'.has p ≠ fs.has p) :
    reconcileFieldSet sc fs' tr = .ok none := by
  obtain ⟨E, hE, rfl⟩ := reconcileFieldSet_recon h
  rcases recon_here_or_below hE with ⟨rfl, _⟩ | hne
  · obtain ⟨p, hp⟩ := hch
    exact absurd (has_reconciled_root hwf p) hp
  · apply reconcileFieldSet_none_of_recon
    exact recon_idem sc _ _ _ _ _ hE (fun s hs => by cases hs; exact hwf) hne (some _) _
      ⟨reconcileFieldSet_wf h hwf, rel_reconciled hwf hne⟩ (Nat.le_refl _)

theorem reconcile_idempotent_partial' {sc : Schema} {fs fs' : SetTrie} {tr : TypeRef}
    (hwf : fs.wf = true) (h : reconcileFieldSet sc fs tr = .ok (some fs')) :
    reconcileFieldSet sc fs' tr = .ok none ∨
      ∃ fs'', reconcileFieldSet sc fs' tr = .ok (some fs'') ∧ ∀ p, fs''.has p = fs'.has p := by
  have hwf' := reconcileFieldSet_wf h hwf
  obtain ⟨E, hE, rfl⟩ := reconcileFieldSet_recon h
  rcases recon_here_or_below hE with ⟨rfl, _⟩ | hne
  · right
    have h2 := recon_root_again (f' := SetTrie.depth ((fs.rdiff (ofPaths [[]])).union (ofPaths [[]])))
      hwf hwf' (has_reconciled_root hwf) hE
    exact ⟨_, reconcileFieldSet_some_of_recon h2 (by simp), has_reconciled_root hwf'⟩
  · left
    apply reconcileFieldSet_none_of_recon
    exact recon_idem sc _ _ _ _ _ hE (fun s hs => by cases hs; exact hwf) hne (some _) _
      ⟨hwf', rel_reconciled hwf hne⟩ (Nat.le_refl _)

/-! ### an atomic root: the second run is not `nil` -/

namespace ReconcileCx

/-- a list of strings whose element relationship is `atomic` -/
def atomicList : TypeRef :=
  TypeRef.mk none (Atom.mk none (some (ListT.mk (TypeRef.mk none (Atom.mk (some "string") none none) none)
    "atomic" [])) none) none

/-- a record owning item 0 of the (root) list -/
def owned : SetTrie := node [PE.index 0] []

theorem owned_wf : owned.wf = true := by decide

/-- the root type is atomic: `toRemove = toAdd = [[]]`, and the result is a non-nil copy of the set -/
theorem first : reconcileFieldSet ⟨[]⟩ owned atomicList = .ok (some owned) := by
  simp [reconcileFieldSet, reconcileNode, atomicList, owned, Schema.resolve, Schema.resolveNoOverrides,
    TypeRef.rel, TypeRef.named, TypeRef.inlined, atomKind, Atom.map, Atom.scalar, Atom.list, ListT.rel,
    SetTrie.empty, ofPaths, SetTrie.insert, rdiff, union, peDiff, peUnion, rdiffChildren, unionChildren]

end ReconcileCx

end SMD
