/- helper lemmas for SMD/Properties/C18Reflect.lean -/
import SMD.Spec.GoFamily
import SMD.Proofs.ValueOrder
namespace SMD

/-! ### association lists sorted by key -/

/-- strictly ascending keys -/
def KSorted {α : Type} (l : List (String × α)) : Prop := l.Pairwise (fun a b => a.1 < b.1)

theorem str_tri {a b : String} (h1 : ¬ a < b) (h2 : ¬ (a == b) = true) : b < a := by
  have : a ≠ b := by simpa using h2
  grind

theorem mem_insertSorted {α : Type} (k : String) (a : α) :
    ∀ (l : List (String × α)) (b : String × α), b ∈ insertSorted k a l → b = (k, a) ∨ b ∈ l
  | [], b, h => by simp [insertSorted] at h; exact Or.inl h
  | (k', a') :: rest, b, h => by
    simp only [insertSorted] at h
    split at h
    · simp at h; simp; grind
    · split at h
      · simp at h; simp; grind
      · simp only [List.mem_cons] at h
        rcases h with h | h
        · simp [h]
        · rcases mem_insertSorted k a rest b h with h | h
          · exact Or.inl h
          · simp [h]

theorem mem_keys_insertSorted {α : Type} (k : String) (a : α) (l : List (String × α)) (k' : String)
    (h : k' ∈ (insertSorted k a l).map (·.1)) : k' = k ∨ k' ∈ l.map (·.1) := by
  rw [List.mem_map] at h
  obtain ⟨b, hb, rfl⟩ := h
  rcases mem_insertSorted k a l b hb with h | h
  · left; rw [h]
  · right; exact List.mem_map_of_mem h

theorem insertSorted_sorted {α : Type} (k : String) (a : α) :
    ∀ (l : List (String × α)), KSorted l → KSorted (insertSorted k a l)
  | [], _ => by simp [insertSorted, KSorted]
  | (k', a') :: rest, h => by
    unfold KSorted at h
    have h' := List.pairwise_cons.1 h
    simp only [insertSorted]
    split
    · rename_i hlt
      refine List.pairwise_cons.2 ⟨?_, h⟩
      intro b hb
      rcases List.mem_cons.1 hb with hb | hb
      · subst hb; exact hlt
      · exact String.lt_trans hlt (h'.1 b hb)
    · split
      · rename_i _ heq
        have : k = k' := by simpa using heq
        subst this
        exact List.pairwise_cons.2 ⟨h'.1, h'.2⟩
      · rename_i hlt hne
        refine List.pairwise_cons.2 ⟨?_, insertSorted_sorted k a rest h'.2⟩
        intro b hb
        rcases mem_insertSorted k a rest b hb with hb | hb
        · subst hb; exact str_tri hlt hne
        · exact h'.1 b hb

theorem insertSorted_of_lt_all {α : Type} (k : String) (a : α) :
    ∀ (l : List (String × α)), (∀ b ∈ l, k < b.1) → insertSorted k a l = (k, a) :: l
  | [], _ => rfl
  | (k', a') :: rest, h => by
    have : k < k' := h (k', a') (by simp)
    simp [insertSorted, this]

/-- with a new key, `insertNew` is `insertSorted` -/
theorem insertNew_eq_insertSorted {α : Type} (k : String) (a : α) :
    ∀ (l : List (String × α)), k ∉ l.map (·.1) → insertNew k a l = some (insertSorted k a l)
  | [], _ => rfl
  | (k', a') :: rest, h => by
    have hne : ¬ (k == k') = true := by
      intro he; apply h; simp at he; simp [he]
    have hr : k ∉ rest.map (·.1) := fun hm => h (by simp at hm ⊢; exact Or.inr hm)
    simp only [insertNew, insertSorted]
    split
    · rfl
    · simp only [insertNew_eq_insertSorted k a rest hr]; rfl

/-! ### present fields -/

theorem mem_presentFields : ∀ (acc : Fields) (b : String × Value),
    b ∈ presentFields acc → (b.1, some b.2) ∈ acc
  | [], b, h => by simp [presentFields] at h
  | (k, some v) :: rest, b, h => by
    simp only [presentFields, List.mem_cons] at h
    rcases h with h | h
    · subst h; simp
    · exact List.mem_cons_of_mem _ (mem_presentFields rest b h)
  | (k, none) :: rest, b, h => by
    simp only [presentFields] at h
    exact List.mem_cons_of_mem _ (mem_presentFields rest b h)

theorem presentFields_sorted : ∀ (acc : Fields), KSorted acc → KSorted (presentFields acc)
  | [], _ => by simp [presentFields, KSorted]
  | (k, some v) :: rest, h => by
    unfold KSorted at h
    have h' := List.pairwise_cons.1 h
    simp only [presentFields]
    refine List.pairwise_cons.2 ⟨?_, presentFields_sorted rest h'.2⟩
    intro b hb
    exact h'.1 _ (mem_presentFields rest b hb)
  | (k, none) :: rest, h => by
    unfold KSorted at h
    have h' := List.pairwise_cons.1 h
    simp only [presentFields]
    exact presentFields_sorted rest h'.2

theorem presentFields_insertSorted_none (k : String) :
    ∀ (acc : Fields), k ∉ acc.map (·.1) → presentFields (insertSorted k none acc) = presentFields acc
  | [], _ => rfl
  | (k', a') :: rest, h => by
    have hne : ¬ (k == k') = true := by
      intro he; apply h; simp at he; simp [he]
    have hr : k ∉ rest.map (·.1) := fun hm => h (by simp at hm ⊢; exact Or.inr hm)
    simp only [insertSorted]
    split
    · rfl
    · cases a' <;> simp [presentFields, presentFields_insertSorted_none k rest hr]

theorem presentFields_insertSorted_some (k : String) (x : Value) :
    ∀ (acc : Fields), KSorted acc → k ∉ acc.map (·.1) →
      presentFields (insertSorted k (some x) acc) = insertSorted k x (presentFields acc)
  | [], _, _ => rfl
  | (k', a') :: rest, hs, h => by
    have hne : ¬ (k == k') = true := by
      intro he; apply h; simp at he; simp [he]
    have hr : k ∉ rest.map (·.1) := fun hm => h (by simp at hm ⊢; exact Or.inr hm)
    have hs' := List.pairwise_cons.1 hs
    simp only [insertSorted]
    split
    · rename_i hlt
      rw [insertSorted_of_lt_all]
      · rfl
      · intro b hb
        have hm := mem_presentFields _ b hb
        rcases List.mem_cons.1 hm with hm | hm
        · have : b.1 = k' := by simpa using congrArg Prod.fst hm
          rw [this]; exact hlt
        · exact String.lt_trans hlt (hs'.1 _ hm)
    · rename_i hlt
      have ih := presentFields_insertSorted_some k x rest hs'.2 hr
      cases a' with
      | none => simp only [presentFields]; exact ih
      | some v => simp only [presentFields, insertSorted, if_neg hlt, if_neg hne, ih]

/-! ### unfolding and totality of reflection -/

theorem reflectFields_cons (goName : String) (tagName : Option String) (dash omitempty inline embedded : Bool)
    (type : GoType) (fs : List GoField) (v : GoVal) (vs : List GoVal) (acc : Fields) :
    reflectFields (.mk goName tagName dash omitempty inline embedded type :: fs) (v :: vs) acc =
    if dash then reflectFields fs vs acc
    else if inline then
      match type, v with
      | .struct inner, .struct ivals =>
        (match reflectFields inner ivals acc with
         | some acc' => reflectFields fs vs acc'
         | none => none)
      | .ptr (.struct inner), .ptr (.struct ivals) =>
        (match reflectFields inner ivals acc with
         | some acc' => reflectFields fs vs acc'
         | none => none)
      | .ptr (.struct inner), .nil => reflectFields fs vs (absentFields inner acc)
      | .struct _, _ => none
      | .ptr (.struct _), _ => none
      | _, _ => reflectFields fs vs acc
    else if omitempty && v.isEmptyValue then reflectFields fs vs (insertSorted (tagName.getD goName) none acc)
    else
      match reflectV type v with
      | some x => reflectFields fs vs (insertSorted (tagName.getD goName) (some x) acc)
      | none => none := by
  conv => lhs; unfold reflectFields
  rfl


mutual
theorem reflectV_total (ub : Int) (hb : ub ≤ (2 ^ 64 : Int)) : ∀ (v : GoVal) (t : GoType), GoVal.hasTypeB ub t v = true → (reflectV t v).isSome = true
  | .nil, t, _ => by cases t <;> simp [reflectV]
  | .bool b, t, h => by cases t <;> simp_all [reflectV, GoVal.hasTypeB]
  | .int i, t, h => by cases t <;> simp_all [reflectV, GoVal.hasTypeB] <;> omega
  | .float u z, t, h => by cases t <;> simp_all [reflectV, GoVal.hasTypeB]
  | .float32 u z s, t, h => by cases t <;> simp_all [reflectV, GoVal.hasTypeB]
  | .str s, t, h => by cases t <;> simp_all [reflectV, GoVal.hasTypeB]
  | .bytes b, t, h => by cases t <;> simp_all [reflectV, GoVal.hasTypeB]
  | .ptr v, t, h => by
    cases t <;> simp [GoVal.hasTypeB] at h
    simp only [reflectV]; exact reflectV_total ub hb v _ h
  | .iface t' v, t, h => by
    cases t <;> simp [GoVal.hasTypeB] at h
    simp only [reflectV]; exact reflectV_total ub hb v _ h
  | .slice l, t, h => by
    cases t <;> simp [GoVal.hasTypeB] at h
    simp only [reflectV, Option.isSome_map]; exact reflectList_total ub hb l _ h
  | .map m, t, h => by
    cases t <;> simp [GoVal.hasTypeB] at h
    simp only [reflectV, Option.isSome_map]; exact reflectEntries_total ub hb m _ h
  | .struct vals, t, h => by
    cases t <;> simp [GoVal.hasTypeB] at h
    simp only [reflectV, Option.isSome_map]; exact reflectFields_total ub hb vals _ [] h
theorem reflectList_total (ub : Int) (hb : ub ≤ (2 ^ 64 : Int)) : ∀ (l : List GoVal) (t : GoType), GoVal.allHaveTypeB ub t l = true → (reflectList t l).isSome = true
  | [], t, _ => by simp [reflectList]
  | v :: rest, t, h => by
    simp [GoVal.allHaveTypeB] at h
    have h1 := reflectV_total ub hb v t h.1
    have h2 := reflectList_total ub hb rest t h.2
    rw [Option.isSome_iff_exists] at h1 h2
    obtain ⟨x, hx⟩ := h1; obtain ⟨xs, hxs⟩ := h2
    simp [reflectList, hx, hxs]
theorem reflectEntries_total (ub : Int) (hb : ub ≤ (2 ^ 64 : Int)) : ∀ (l : List (String × GoVal)) (t : GoType), GoVal.entriesHaveTypeB ub t l = true → (reflectEntries t l).isSome = true
  | [], t, _ => by simp [reflectEntries]
  | (k, v) :: rest, t, h => by
    simp [GoVal.entriesHaveTypeB] at h
    have h1 := reflectV_total ub hb v t h.1
    have h2 := reflectEntries_total ub hb rest t h.2
    rw [Option.isSome_iff_exists] at h1 h2
    obtain ⟨x, hx⟩ := h1; obtain ⟨xs, hxs⟩ := h2
    simp [reflectEntries, hx, hxs]
theorem reflectFields_total (ub : Int) (hb : ub ≤ (2 ^ 64 : Int)) : ∀ (vals : List GoVal) (fs : List GoField) (acc : Fields),
    GoVal.fieldsHaveTypeB ub fs vals = true → (reflectFields fs vals acc).isSome = true
  | [], fs, acc, h => by cases fs <;> simp_all [GoVal.fieldsHaveTypeB, reflectFields]
  | v :: vs, [], acc, h => by simp [GoVal.fieldsHaveTypeB] at h
  | v :: vs, (.mk goName tagName dash omitempty inline embedded type) :: fs, acc, h => by
    simp [GoVal.fieldsHaveTypeB] at h
    have ihr := fun acc => reflectFields_total ub hb vs fs acc h.2
    rw [reflectFields_cons]
    split
    · exact ihr _
    split
    · split
      · have h1 := reflectFields_total ub hb _ _ acc (by simpa [GoVal.hasTypeB] using h.1)
        rw [Option.isSome_iff_exists] at h1
        obtain ⟨x, hx⟩ := h1
        simp only [hx]; exact ihr _
      · have h1 := reflectFields_total ub hb _ _ acc (by simpa [GoVal.hasTypeB] using h.1)
        rw [Option.isSome_iff_exists] at h1
        obtain ⟨x, hx⟩ := h1
        simp only [hx]; exact ihr _
      · exact ihr _
      · rename_i hns
        cases v <;> simp [GoVal.hasTypeB] at h
        exact absurd rfl (hns _)
      · rename_i hns hnn
        cases v <;> simp [GoVal.hasTypeB] at h hnn
        rename_i v'
        cases v' <;> simp [GoVal.hasTypeB] at h
        exact absurd rfl (hns _)
      · exact ihr _
    split
    · exact ihr _
    · have h1 := reflectV_total ub hb v type h.1
      rw [Option.isSome_iff_exists] at h1
      obtain ⟨x, hx⟩ := h1
      simp only [hx]; exact ihr _
end

/-! ### absent fields -/

theorem fieldNames_cons (goName : String) (tagName : Option String) (dash omitempty inline embedded : Bool)
    (type : GoType) (fs : List GoField) :
    fieldNames (.mk goName tagName dash omitempty inline embedded type :: fs) =
      if dash then fieldNames fs
      else if inline then inlineNames type ++ fieldNames fs
      else (tagName.getD goName) :: fieldNames fs := by
  conv => lhs; unfold fieldNames

theorem absentFields_sorted (fs : List GoField) (acc : Fields) :
    KSorted acc → KSorted (absentFields fs acc) := by
  refine absentFields.induct (motive_1 := fun t acc => KSorted acc → KSorted (absentOfType t acc))
    (motive_2 := fun fs acc => KSorted acc → KSorted (absentFields fs acc)) ?_ ?_ ?_ ?_ ?_ ?_ ?_ fs acc
  · intro inner acc ih h; simpa [absentOfType] using ih h
  · intro inner acc ih h; simpa [absentOfType] using ih h
  · intro t acc h1 h2 h; rw [absentOfType.eq_3 _ _ h1 h2]; exact h
  · intro acc h; simpa [absentFields] using h
  · intro goName tagName omitempty inline embedded type fs acc ih h
    simpa [absentFields] using ih h
  · intro goName tagName dash omitempty embedded type fs acc hd ih1 ih2 h
    simp only [absentFields, if_neg hd, if_true]
    exact ih2 (ih1 h)
  · intro goName tagName dash omitempty inline embedded type fs acc hd hi ih h
    simp only [absentFields, if_neg hd, if_neg hi]
    exact ih (insertSorted_sorted _ _ _ h)

theorem absent_keys :
    (∀ (t : GoType) (acc : Fields), ∀ k ∈ (absentOfType t acc).map (·.1), k ∈ acc.map (·.1) ∨ k ∈ inlineNames t) ∧
    (∀ (fs : List GoField) (acc : Fields), ∀ k ∈ (absentFields fs acc).map (·.1), k ∈ acc.map (·.1) ∨ k ∈ fieldNames fs) := by
  refine absentOfType.mutual_induct
    (motive_1 := fun t acc => ∀ k ∈ (absentOfType t acc).map (·.1), k ∈ acc.map (·.1) ∨ k ∈ inlineNames t)
    (motive_2 := fun fs acc => ∀ k ∈ (absentFields fs acc).map (·.1), k ∈ acc.map (·.1) ∨ k ∈ fieldNames fs)
    ?_ ?_ ?_ ?_ ?_ ?_ ?_
  · intro inner acc ih k hk; simpa [absentOfType, inlineNames] using ih k (by simpa [absentOfType] using hk)
  · intro inner acc ih k hk; simpa [absentOfType, inlineNames] using ih k (by simpa [absentOfType] using hk)
  · intro t acc h1 h2 k hk; rw [absentOfType.eq_3 _ _ h1 h2] at hk; exact Or.inl hk
  · intro acc k hk; left; simpa [absentFields] using hk
  · intro goName tagName omitempty inline embedded type fs acc ih k hk
    rw [fieldNames_cons]; simp only [absentFields, if_true] at hk ⊢
    exact ih k hk
  · intro goName tagName dash omitempty embedded type fs acc hd ih1 ih2 k hk
    rw [fieldNames_cons]; simp only [absentFields, if_neg hd, if_true] at hk ⊢
    rcases ih2 k hk with h | h
    · rcases ih1 k h with h | h
      · exact Or.inl h
      · exact Or.inr (List.mem_append_left _ h)
    · exact Or.inr (List.mem_append_right _ h)
  · intro goName tagName dash omitempty inline embedded type fs acc hd hi ih k hk
    rw [fieldNames_cons]; simp only [absentFields, if_neg hd, if_neg hi] at hk ⊢
    rcases ih k hk with h | h
    · rcases mem_keys_insertSorted _ _ _ _ h with h | h
      · right; simp [h]
      · exact Or.inl h
    · right; simp [h]

theorem absentFields_keys (fs : List GoField) (acc : Fields) :
    ∀ k ∈ (absentFields fs acc).map (·.1), k ∈ acc.map (·.1) ∨ k ∈ fieldNames fs := absent_keys.2 fs acc

theorem absentFields_present (fs : List GoField) (acc : Fields) :
    (fieldNames fs).Nodup → (∀ k ∈ acc.map (·.1), k ∉ fieldNames fs) →
      presentFields (absentFields fs acc) = presentFields acc := by
  refine absentFields.induct
    (motive_1 := fun t acc => (inlineNames t).Nodup → (∀ k ∈ acc.map (·.1), k ∉ inlineNames t) →
      presentFields (absentOfType t acc) = presentFields acc)
    (motive_2 := fun fs acc => (fieldNames fs).Nodup → (∀ k ∈ acc.map (·.1), k ∉ fieldNames fs) →
      presentFields (absentFields fs acc) = presentFields acc)
    ?_ ?_ ?_ ?_ ?_ ?_ ?_ fs acc
  · intro inner acc ih hn hd; simpa [absentOfType] using ih (by simpa [inlineNames] using hn) (by simpa [inlineNames] using hd)
  · intro inner acc ih hn hd; simpa [absentOfType] using ih (by simpa [inlineNames] using hn) (by simpa [inlineNames] using hd)
  · intro t acc h1 h2 _ _; rw [absentOfType.eq_3 _ _ h1 h2]
  · intro acc _ _; simp [absentFields]
  · intro goName tagName omitempty inline embedded type fs acc ih hn hd
    rw [fieldNames_cons] at hn hd; simp only [absentFields, if_true] at hn hd ⊢
    exact ih hn hd
  · intro goName tagName dash omitempty embedded type fs acc hdash ih1 ih2 hn hd
    rw [fieldNames_cons] at hn hd; simp only [absentFields, if_neg hdash, if_true] at hn hd ⊢
    rw [List.nodup_append] at hn
    rw [ih2 hn.2.1, ih1 hn.1]
    · intro k hk hm; exact hd k hk (List.mem_append_left _ hm)
    · intro k hk hm
      rcases absent_keys.1 type acc k hk with h | h
      · exact hd k h (List.mem_append_right _ hm)
      · exact hn.2.2 k h k hm rfl
  · intro goName tagName dash omitempty inline embedded type fs acc hdash hi ih hn hd
    rw [fieldNames_cons] at hn hd; simp only [absentFields, if_neg hdash, if_neg hi] at hn hd ⊢
    rw [List.nodup_cons] at hn
    rw [ih hn.2, presentFields_insertSorted_none]
    · intro hm; exact hd _ hm (by simp)
    · intro k hk hm
      rcases mem_keys_insertSorted _ _ _ _ hk with h | h
      · subst h; exact hn.1 hm
      · exact hd k h (by simp [hm])

/-! ### invariants of the field walk -/

theorem jsonFields_cons (goName : String) (tagName : Option String) (dash omitempty inline embedded : Bool)
    (type : GoType) (fs : List GoField) (v : GoVal) (vs : List GoVal) (acc : List (String × Value)) :
    jsonFields (.mk goName tagName dash omitempty inline embedded type :: fs) (v :: vs) acc =
    if dash then jsonFields fs vs acc
    else if embedded && tagName.isNone then
      match type, v with
      | .struct inner, .struct ivals =>
        (match jsonFields inner ivals acc with
         | some acc' => jsonFields fs vs acc'
         | none => none)
      | .ptr (.struct inner), .ptr (.struct ivals) =>
        (match jsonFields inner ivals acc with
         | some acc' => jsonFields fs vs acc'
         | none => none)
      | .ptr (.struct _), .nil => jsonFields fs vs acc
      | _, _ => none
    else if omitempty && v.isEmptyValue then jsonFields fs vs acc
    else
      match jsonV type v with
      | some x =>
        (match insertNew (tagName.getD goName) x acc with
         | some acc' => jsonFields fs vs acc'
         | none => none)
      | none => none := by
  conv => lhs; unfold jsonFields
  rfl

/-- reflection keeps the collected fields sorted, and only adds names of the fields it walks -/
theorem reflectFields_inv : ∀ (vals : List GoVal) (fs : List GoField) (acc acc' : Fields),
    reflectFields fs vals acc = some acc' →
      (KSorted acc → KSorted acc') ∧ (∀ k ∈ acc'.map (·.1), k ∈ acc.map (·.1) ∨ k ∈ fieldNames fs)
  | [], fs, acc, acc', h => by
    cases fs <;> simp [reflectFields] at h
    subst h; exact ⟨id, fun k hk => Or.inl hk⟩
  | v :: vs, [], acc, acc', h => by simp [reflectFields] at h
  | v :: vs, (.mk goName tagName dash omitempty inline embedded type) :: fs, acc, acc', h => by
    rw [reflectFields_cons] at h
    rw [fieldNames_cons]
    split at h
    · rename_i hd; simp only [hd, if_true]; exact reflectFields_inv vs fs acc acc' h
    rename_i hd
    simp only [if_neg hd]
    split at h
    · rename_i hi
      simp only [hi, if_true]
      split at h
      · rename_i inner ivals
        cases h1 : reflectFields inner ivals acc with
        | none => simp [h1] at h
        | some acc1 =>
          simp only [h1] at h
          have i1 := reflectFields_inv _ _ acc acc1 h1
          have i2 := reflectFields_inv vs fs acc1 acc' h
          refine ⟨fun hs => i2.1 (i1.1 hs), fun k hk => ?_⟩
          rcases i2.2 k hk with hk | hk
          · rcases i1.2 k hk with hk | hk
            · exact Or.inl hk
            · right; simp [inlineNames, hk]
          · right; simp [hk]
      · rename_i inner ivals
        cases h1 : reflectFields inner ivals acc with
        | none => simp [h1] at h
        | some acc1 =>
          simp only [h1] at h
          have i1 := reflectFields_inv _ _ acc acc1 h1
          have i2 := reflectFields_inv vs fs acc1 acc' h
          refine ⟨fun hs => i2.1 (i1.1 hs), fun k hk => ?_⟩
          rcases i2.2 k hk with hk | hk
          · rcases i1.2 k hk with hk | hk
            · exact Or.inl hk
            · right; simp [inlineNames, hk]
          · right; simp [hk]
      · have i2 := reflectFields_inv vs fs _ acc' h
        refine ⟨fun hs => i2.1 (absentFields_sorted _ _ hs), fun k hk => ?_⟩
        rcases i2.2 k hk with hk | hk
        · rcases absentFields_keys _ _ k hk with hk | hk
          · exact Or.inl hk
          · right; simp [inlineNames, hk]
        · right; simp [hk]
      · simp at h
      · simp at h
      · have i2 := reflectFields_inv vs fs _ acc' h
        refine ⟨i2.1, fun k hk => ?_⟩
        rcases i2.2 k hk with hk | hk
        · exact Or.inl hk
        · right; simp [hk]
    rename_i hi
    simp only [if_neg hi]
    split at h
    · have i2 := reflectFields_inv vs fs _ acc' h
      refine ⟨fun hs => i2.1 (insertSorted_sorted _ _ _ hs), fun k hk => ?_⟩
      rcases i2.2 k hk with hk | hk
      · rcases mem_keys_insertSorted _ _ _ _ hk with hk | hk
        · right; simp [hk]
        · exact Or.inl hk
      · right; simp [hk]
    · cases h1 : reflectV type v with
      | none => simp [h1] at h
      | some x =>
        simp only [h1] at h
        have i2 := reflectFields_inv vs fs _ acc' h
        refine ⟨fun hs => i2.1 (insertSorted_sorted _ _ _ hs), fun k hk => ?_⟩
        rcases i2.2 k hk with hk | hk
        · rcases mem_keys_insertSorted _ _ _ _ hk with hk | hk
          · right; simp [hk]
          · exact Or.inl hk
        · right; simp [hk]


/-! ### the relation between the two field lists, numbers, the family -/

theorem equalsFields_keys : ∀ (l1 l2 : List (String × Value)),
    Value.equalsFields l1 l2 = true → l1.map (·.1) = l2.map (·.1)
  | [], [], _ => rfl
  | [], _ :: _, h => by simp [Value.equalsFields] at h
  | _ :: _, [], h => by simp [Value.equalsFields] at h
  | (k, v) :: as, (k', v') :: bs, h => by
    simp [Value.equalsFields] at h
    simp [h.1.1, equalsFields_keys as bs h.2]

theorem equalsFields_insertSorted (k : String) (x y : Value) (hxy : Value.equals x y = true) :
    ∀ (l1 l2 : List (String × Value)), Value.equalsFields l1 l2 = true →
      Value.equalsFields (insertSorted k x l1) (insertSorted k y l2) = true
  | [], [], _ => by simp [insertSorted, Value.equalsFields, hxy]
  | [], _ :: _, h => by simp [Value.equalsFields] at h
  | _ :: _, [], h => by simp [Value.equalsFields] at h
  | (k1, v) :: as, (k', v') :: bs, h => by
    have h0 := h
    simp [Value.equalsFields] at h
    obtain ⟨⟨rfl, hv⟩, hr⟩ := h
    simp only [insertSorted]
    split
    · simp [Value.equalsFields, hxy, hv, hr]
    · split
      · simp [Value.equalsFields, hxy, hr]
      · simp [Value.equalsFields, hv, equalsFields_insertSorted k x y hxy as bs hr]

theorem jsonNum_equals (u : Int) (z : Bool) : Value.equals (.float u z) (jsonNum u) = true := by
  unfold jsonNum
  split
  · rename_i h
    simp only [Bool.and_eq_true, beq_iff_eq] at h
    have h1 : u % scale = 0 := h.1.1
    have : u = u / scale * scale := (Int.ediv_mul_cancel_of_emod_eq_zero h1).symm
    simp [Value.equals]; exact this
  · simp [Value.equals]

theorem isStructOrPtrStruct_cases (t : GoType) (h : t.isStructOrPtrStruct = true) :
    (∃ inner, t = .struct inner) ∨ (∃ inner, t = .ptr (.struct inner)) := by
  cases t <;> simp [GoType.isStructOrPtrStruct] at h ⊢
  rename_i t; cases t <;> simp at h ⊢

theorem fieldsInFamily_cons (goName : String) (tagName : Option String) (dash omitempty inline embedded : Bool)
    (type : GoType) (fs : List GoField) :
    fieldsInFamily (.mk goName tagName dash omitempty inline embedded type :: fs) =
      ((dash || ((inline == (embedded && tagName.isNone)) && (!inline || type.isStructOrPtrStruct) && type.inFamily))
        && fieldsInFamily fs) := by
  conv => lhs; unfold fieldsInFamily

theorem inFamily_struct (fs : List GoField) :
    (GoType.struct fs).inFamily = (fieldsInFamily fs && decide (fieldNames fs).Nodup) := by
  conv => lhs; unfold GoType.inFamily

theorem inFamily_ptr (t : GoType) : (GoType.ptr t).inFamily = t.inFamily := by
  conv => lhs; unfold GoType.inFamily
theorem inFamily_slice (t : GoType) : (GoType.slice t).inFamily = t.inFamily := by
  conv => lhs; unfold GoType.inFamily
theorem inFamily_map (t : GoType) : (GoType.map t).inFamily = t.inFamily := by
  conv => lhs; unfold GoType.inFamily

/-! ### totality of the reference on the family -/

theorem family_field {goName : String} {tagName : Option String} {dash omitempty inline embedded : Bool}
    {type : GoType} {fs : List GoField}
    (hf : fieldsInFamily (.mk goName tagName dash omitempty inline embedded type :: fs) = true)
    (hd : ¬ dash = true) :
    (embedded && tagName.isNone) = inline ∧ (inline = true → type.isStructOrPtrStruct = true) ∧
      type.inFamily = true ∧ fieldsInFamily fs = true := by
  rw [fieldsInFamily_cons] at hf
  cases inline <;> cases embedded <;> simp_all

theorem allInFamily_cons (v : GoVal) (vs : List GoVal) :
    GoVal.allInFamily (v :: vs) = (v.inFamily && GoVal.allInFamily vs) := by
  conv => lhs; unfold GoVal.allInFamily

theorem inFamily_vstruct (l : List GoVal) : (GoVal.struct l).inFamily = GoVal.allInFamily l := by
  conv => lhs; unfold GoVal.inFamily
theorem inFamily_vptr (v : GoVal) : (GoVal.ptr v).inFamily = v.inFamily := by
  conv => lhs; unfold GoVal.inFamily

/-! ### the names encoding/json sees: in the family they are the library's names, without repeats -/

theorem hasRepeat_eq_false_iff : ∀ (l : List String), hasRepeat l = false ↔ l.Nodup
  | [] => by simp [hasRepeat]
  | x :: rest => by
    simp [hasRepeat, List.nodup_cons, hasRepeat_eq_false_iff rest]

theorem jsonNames_cons (goName : String) (tagName : Option String) (dash omitempty inline embedded : Bool)
    (type : GoType) (fs : List GoField) :
    jsonNames (.mk goName tagName dash omitempty inline embedded type :: fs) =
      if dash then jsonNames fs
      else if embedded && tagName.isNone then jsonNamesOfType type ++ jsonNames fs
      else (tagName.getD goName) :: jsonNames fs := by
  conv => lhs; unfold jsonNames

theorem jsonNames_eq_fieldNames :
    (∀ (fs : List GoField), fieldsInFamily fs = true → jsonNames fs = fieldNames fs) ∧
    (∀ (t : GoType), t.inFamily = true → jsonNamesOfType t = inlineNames t) := by
  refine jsonNames.mutual_induct
    (motive_1 := fun fs => fieldsInFamily fs = true → jsonNames fs = fieldNames fs)
    (motive_2 := fun t => t.inFamily = true → jsonNamesOfType t = inlineNames t)
    ?_ ?_ ?_ ?_ ?_ ?_ ?_
  · intro inner ih hf
    rw [inFamily_struct] at hf; simp only [Bool.and_eq_true] at hf
    simpa [jsonNamesOfType, inlineNames] using ih hf.1
  · intro inner ih hf
    rw [inFamily_ptr, inFamily_struct] at hf; simp only [Bool.and_eq_true] at hf
    simpa [jsonNamesOfType, inlineNames] using ih hf.1
  · intro t h1 h2 _
    rw [jsonNamesOfType.eq_3 _ h1 h2, inlineNames.eq_3 _ h1 h2]
  · intro _; simp [jsonNames, fieldNames]
  · intro goName tagName omitempty inline embedded type fs ih hf
    rw [fieldsInFamily_cons] at hf; simp only [Bool.true_or, Bool.true_and] at hf
    rw [jsonNames_cons, fieldNames_cons]; simp only [if_true]; exact ih hf
  · intro goName tagName dash omitempty inline embedded type fs hd he ih1 ih2 hf
    obtain ⟨he', _, htf, hff⟩ := family_field hf hd
    have hi : inline = true := by rw [← he', he]
    rw [jsonNames_cons, fieldNames_cons]
    simp only [if_neg hd, he, hi, if_true, ih1 htf, ih2 hff]
  · intro goName tagName dash omitempty inline embedded type fs hd he ih hf
    obtain ⟨he', _, _, hff⟩ := family_field hf hd
    have hi : ¬ inline = true := by rw [← he']; exact he
    rw [jsonNames_cons, fieldNames_cons]
    simp only [if_neg hd, if_neg he, if_neg hi, ih hff]

theorem jsonNames_of_family (fs : List GoField) (hf : fieldsInFamily fs = true) :
    jsonNames fs = fieldNames fs := jsonNames_eq_fieldNames.1 fs hf

theorem hasRepeat_jsonNames_of_family (fs : List GoField) (hf : fieldsInFamily fs = true)
    (hn : (fieldNames fs).Nodup) : hasRepeat (jsonNames fs) = false := by
  rw [jsonNames_of_family fs hf]; exact (hasRepeat_eq_false_iff _).2 hn

mutual
theorem jsonV_total : ∀ (v : GoVal) (t : GoType), GoVal.hasType t v = true → t.inFamily = true →
    v.inFamily = true → (jsonV t v).isSome = true
  | .nil, t, _, _, _ => by cases t <;> simp [jsonV]
  | .bool b, t, h, _, _ => by cases t <;> simp_all [jsonV, GoVal.hasType]
  | .int i, t, h, _, _ => by cases t <;> simp_all [jsonV, GoVal.hasType] <;> omega
  | .float u z, t, h, _, _ => by cases t <;> simp_all [jsonV, GoVal.hasType]
  | .float32 u z s, t, h, _, _ => by cases t <;> simp_all [jsonV, GoVal.hasType]
  | .str s, t, h, _, _ => by cases t <;> simp_all [jsonV, GoVal.hasType]
  | .bytes b, t, h, _, _ => by cases t <;> simp_all [jsonV, GoVal.hasType]
  | .ptr v, t, h, hf, hv => by
    cases t <;> simp [GoVal.hasType] at h
    rw [inFamily_ptr] at hf; rw [inFamily_vptr] at hv
    simp only [jsonV]; exact jsonV_total v _ h hf hv
  | .iface t' v, t, h, hf, hv => by
    cases t <;> simp [GoVal.hasType] at h
    simp [GoVal.inFamily] at hv
    simp only [jsonV]; exact jsonV_total v _ h hv.1 hv.2
  | .slice l, t, h, hf, hv => by
    cases t <;> simp [GoVal.hasType] at h
    rw [inFamily_slice] at hf; simp [GoVal.inFamily] at hv
    simp only [jsonV, Option.isSome_map]; exact jsonList_total l _ h hf hv
  | .map m, t, h, hf, hv => by
    cases t <;> simp [GoVal.hasType] at h
    rw [inFamily_map] at hf; simp [GoVal.inFamily] at hv
    simp only [jsonV, Option.isSome_map]; exact jsonEntries_total m _ h hf hv
  | .struct vals, t, h, hf, hv => by
    cases t <;> simp [GoVal.hasType] at h
    rw [inFamily_struct] at hf; rw [inFamily_vstruct] at hv
    simp only [Bool.and_eq_true, decide_eq_true_eq] at hf
    obtain ⟨j, hj, _⟩ := jsonFields_total vals _ [] h hf.1 hf.2 hv (by simp)
    simp [jsonV, hj, hasRepeat_jsonNames_of_family _ hf.1 hf.2]
theorem jsonList_total : ∀ (l : List GoVal) (t : GoType), GoVal.allHaveType t l = true → t.inFamily = true →
    GoVal.allInFamily l = true → (jsonList t l).isSome = true
  | [], t, _, _, _ => by simp [jsonList]
  | v :: rest, t, h, hf, hv => by
    simp [GoVal.allHaveType] at h
    rw [allInFamily_cons] at hv; simp at hv
    have h1 := jsonV_total v t h.1 hf hv.1
    have h2 := jsonList_total rest t h.2 hf hv.2
    rw [Option.isSome_iff_exists] at h1 h2
    obtain ⟨x, hx⟩ := h1; obtain ⟨xs, hxs⟩ := h2
    simp [jsonList, hx, hxs]
theorem jsonEntries_total : ∀ (l : List (String × GoVal)) (t : GoType), GoVal.entriesHaveType t l = true →
    t.inFamily = true → GoVal.entriesInFamily l = true → (jsonEntries t l).isSome = true
  | [], t, _, _, _ => by simp [jsonEntries]
  | (k, v) :: rest, t, h, hf, hv => by
    simp [GoVal.entriesHaveType] at h
    simp [GoVal.entriesInFamily] at hv
    have h1 := jsonV_total v t h.1 hf hv.1
    have h2 := jsonEntries_total rest t h.2 hf hv.2
    rw [Option.isSome_iff_exists] at h1 h2
    obtain ⟨x, hx⟩ := h1; obtain ⟨xs, hxs⟩ := h2
    simp [jsonEntries, hx, hxs]
theorem jsonFields_total : ∀ (vals : List GoVal) (fs : List GoField) (jacc : List (String × Value)),
    GoVal.fieldsHaveType fs vals = true → fieldsInFamily fs = true → (fieldNames fs).Nodup →
    GoVal.allInFamily vals = true → (∀ k ∈ jacc.map (·.1), k ∉ fieldNames fs) →
    ∃ jacc', jsonFields fs vals jacc = some jacc' ∧
      ∀ k ∈ jacc'.map (·.1), k ∈ jacc.map (·.1) ∨ k ∈ fieldNames fs
  | [], fs, jacc, h, _, _, _, _ => by
    cases fs <;> simp [GoVal.fieldsHaveType] at h
    exact ⟨jacc, by simp [jsonFields], fun k hk => Or.inl hk⟩
  | v :: vs, [], jacc, h, _, _, _, _ => by simp [GoVal.fieldsHaveType] at h
  | v :: vs, (.mk goName tagName dash omitempty inline embedded type) :: fs, jacc, h, hf, hn, hv, hdis => by
    simp [GoVal.fieldsHaveType] at h
    rw [allInFamily_cons] at hv; simp at hv
    rw [jsonFields_cons]
    rw [fieldNames_cons] at hn hdis ⊢
    by_cases hd : dash = true
    · simp only [hd, if_true] at hn hdis ⊢
      rw [fieldsInFamily_cons] at hf; simp [hd] at hf
      exact jsonFields_total vs fs jacc h.2 hf hn hv.2 hdis
    obtain ⟨he, hst, htf, hff⟩ := family_field hf hd
    simp only [if_neg hd] at hn hdis ⊢
    rw [he]
    by_cases hi : inline = true
    · simp only [hi, if_true] at hn hdis ⊢
      rw [List.nodup_append] at hn
      rcases isStructOrPtrStruct_cases type (hst hi) with ⟨inner, rfl⟩ | ⟨inner, rfl⟩
      · cases v <;> simp [GoVal.hasType] at h
        rename_i ivals
        rw [inFamily_struct] at htf; simp at htf
        rw [inFamily_vstruct] at hv
        simp only [inlineNames] at hn hdis ⊢
        obtain ⟨j1, hj1, hk1⟩ := jsonFields_total ivals inner jacc h.1 htf.1 htf.2 hv.1
          (fun k hk hm => hdis k hk (List.mem_append_left _ hm))
        obtain ⟨j2, hj2, hk2⟩ := jsonFields_total vs fs j1 h.2 hff hn.2.1 hv.2 (by
          intro k hk hm
          rcases hk1 k hk with hk | hk
          · exact hdis k hk (List.mem_append_right _ hm)
          · exact hn.2.2 k hk k hm rfl)
        refine ⟨j2, by simp only [hj1, hj2], fun k hk => ?_⟩
        rcases hk2 k hk with hk | hk
        · rcases hk1 k hk with hk | hk
          · exact Or.inl hk
          · exact Or.inr (List.mem_append_left _ hk)
        · exact Or.inr (List.mem_append_right _ hk)
      · cases v <;> simp [GoVal.hasType] at h
        · -- nil
          simp only [inlineNames] at hn hdis ⊢
          obtain ⟨j2, hj2, hk2⟩ := jsonFields_total vs fs jacc h hff hn.2.1 hv.2
            (fun k hk hm => hdis k hk (List.mem_append_right _ hm))
          refine ⟨j2, by simp only [hj2], fun k hk => ?_⟩
          rcases hk2 k hk with hk | hk
          · exact Or.inl hk
          · exact Or.inr (List.mem_append_right _ hk)
        · rename_i v'
          cases v' <;> simp [GoVal.hasType] at h
          rename_i ivals
          rw [inFamily_ptr, inFamily_struct] at htf; simp at htf
          rw [inFamily_vptr, inFamily_vstruct] at hv
          simp only [inlineNames] at hn hdis ⊢
          obtain ⟨j1, hj1, hk1⟩ := jsonFields_total ivals inner jacc h.1 htf.1 htf.2 hv.1
            (fun k hk hm => hdis k hk (List.mem_append_left _ hm))
          obtain ⟨j2, hj2, hk2⟩ := jsonFields_total vs fs j1 h.2 hff hn.2.1 hv.2 (by
            intro k hk hm
            rcases hk1 k hk with hk | hk
            · exact hdis k hk (List.mem_append_right _ hm)
            · exact hn.2.2 k hk k hm rfl)
          refine ⟨j2, by simp only [hj1, hj2], fun k hk => ?_⟩
          rcases hk2 k hk with hk | hk
          · rcases hk1 k hk with hk | hk
            · exact Or.inl hk
            · exact Or.inr (List.mem_append_left _ hk)
          · exact Or.inr (List.mem_append_right _ hk)
    · simp only [hi] at hn hdis ⊢
      simp only [Bool.false_eq_true, if_false] at hn hdis ⊢
      rw [List.nodup_cons] at hn
      by_cases ho : (omitempty && v.isEmptyValue) = true
      · simp only [ho, if_true]
        obtain ⟨j2, hj2, hk2⟩ := jsonFields_total vs fs jacc h.2 hff hn.2 hv.2
          (fun k hk hm => hdis k hk (List.mem_cons_of_mem _ hm))
        refine ⟨j2, hj2, fun k hk => ?_⟩
        rcases hk2 k hk with hk | hk
        · exact Or.inl hk
        · exact Or.inr (List.mem_cons_of_mem _ hk)
      · simp only [if_neg ho]
        have h1 := jsonV_total v type h.1 htf hv.1
        rw [Option.isSome_iff_exists] at h1
        obtain ⟨x, hx⟩ := h1
        have hnew : tagName.getD goName ∉ jacc.map (·.1) := fun hm => hdis _ hm (by simp)
        simp only [hx, insertNew_eq_insertSorted _ x jacc hnew]
        obtain ⟨j2, hj2, hk2⟩ := jsonFields_total vs fs (insertSorted (tagName.getD goName) x jacc)
          h.2 hff hn.2 hv.2 (by
            intro k hk hm
            rcases mem_keys_insertSorted _ _ _ _ hk with hk | hk
            · subst hk; exact hn.1 hm
            · exact hdis k hk (List.mem_cons_of_mem _ hm))
        refine ⟨j2, hj2, fun k hk => ?_⟩
        rcases hk2 k hk with hk | hk
        · rcases mem_keys_insertSorted _ _ _ _ hk with hk | hk
          · right; simp [hk]
          · exact Or.inl hk
        · exact Or.inr (List.mem_cons_of_mem _ hk)
end

/-! ### the reflected value equals the reference -/

theorem mem_keys_presentFields (acc : Fields) (k : String) (h : k ∈ (presentFields acc).map (·.1)) :
    k ∈ acc.map (·.1) := by
  rw [List.mem_map] at h
  obtain ⟨b, hb, rfl⟩ := h
  exact List.mem_map.2 ⟨_, mem_presentFields acc b hb, rfl⟩

mutual
theorem reflectV_equals (ub : Int) (hb : ub ≤ (2 ^ 63 : Int)) : ∀ (v : GoVal) (t : GoType) (r j : Value), GoVal.hasTypeB ub t v = true →
    t.inFamily = true → v.inFamily = true → reflectV t v = some r → jsonV t v = some j →
    Value.equals r j = true
  | .nil, t, r, j, _, _, _, hr, hj => by
    cases t <;> simp [reflectV, jsonV] at hr hj <;> subst hr <;> subst hj <;> rfl
  | .bool b, t, r, j, h, _, _, hr, hj => by
    cases t <;> simp [GoVal.hasTypeB] at h
    simp [reflectV, jsonV] at hr hj; subst hr; subst hj; exact Value.equals_refl _
  | .int i, t, r, j, h, _, _, hr, hj => by
    cases t <;> simp [GoVal.hasTypeB] at h
    · simp [reflectV, jsonV] at hr hj; subst hr; subst hj; exact Value.equals_refl _
    · simp [reflectV, jsonV] at hr hj
      obtain ⟨_, rfl⟩ := hr; obtain ⟨_, rfl⟩ := hj
      have hlt : i < (2 ^ 63 : Int) := by omega
      rw [if_pos (by simpa using hlt)]
      exact Value.equals_refl _
  | .float u z, t, r, j, h, _, _, hr, hj => by
    cases t <;> simp [GoVal.hasTypeB] at h
    simp [reflectV, jsonV] at hr hj; subst hr; subst hj; exact jsonNum_equals u z
  | .float32 u z s, t, r, j, h, _, _, hr, hj => by
    cases t <;> simp [GoVal.hasTypeB] at h
    simp [reflectV, jsonV] at hr hj; subst hr; subst hj; exact jsonNum_equals s z
  | .str s, t, r, j, h, _, _, hr, hj => by
    cases t <;> simp [GoVal.hasTypeB] at h
    simp [reflectV, jsonV] at hr hj; subst hr; subst hj; exact Value.equals_refl _
  | .bytes b, t, r, j, h, _, _, hr, hj => by
    cases t <;> simp [GoVal.hasTypeB] at h
    simp [reflectV, jsonV] at hr hj; subst hr; subst hj; exact Value.equals_refl _
  | .ptr v, t, r, j, h, hf, hv, hr, hj => by
    cases t <;> simp [GoVal.hasTypeB] at h
    rw [inFamily_ptr] at hf; rw [inFamily_vptr] at hv
    simp only [reflectV] at hr; simp only [jsonV] at hj
    exact reflectV_equals ub hb v _ r j h hf hv hr hj
  | .iface t' v, t, r, j, h, hf, hv, hr, hj => by
    cases t <;> simp [GoVal.hasTypeB] at h
    simp [GoVal.inFamily] at hv
    simp only [reflectV] at hr; simp only [jsonV] at hj
    exact reflectV_equals ub hb v _ r j h hv.1 hv.2 hr hj
  | .slice l, t, r, j, h, hf, hv, hr, hj => by
    cases t <;> simp [GoVal.hasTypeB] at h
    rw [inFamily_slice] at hf; simp [GoVal.inFamily] at hv
    simp only [reflectV, Option.map_eq_some_iff] at hr; simp only [jsonV, Option.map_eq_some_iff] at hj
    obtain ⟨rs, hrs, rfl⟩ := hr; obtain ⟨js, hjs, rfl⟩ := hj
    simp only [Value.equals]
    exact reflectList_equals ub hb l _ rs js h hf hv hrs hjs
  | .map m, t, r, j, h, hf, hv, hr, hj => by
    cases t <;> simp [GoVal.hasTypeB] at h
    rw [inFamily_map] at hf; simp [GoVal.inFamily] at hv
    simp only [reflectV, Option.map_eq_some_iff] at hr; simp only [jsonV, Option.map_eq_some_iff] at hj
    obtain ⟨rs, hrs, rfl⟩ := hr; obtain ⟨js, hjs, rfl⟩ := hj
    simp only [Value.equals]
    exact reflectEntries_equals ub hb m _ rs js h hf hv hrs hjs
  | .struct vals, t, r, j, h, hf, hv, hr, hj => by
    cases t <;> simp [GoVal.hasTypeB] at h
    rw [inFamily_struct] at hf; rw [inFamily_vstruct] at hv
    simp only [Bool.and_eq_true, decide_eq_true_eq] at hf
    simp only [reflectV, Option.map_eq_some_iff] at hr
    simp only [jsonV, hasRepeat_jsonNames_of_family _ hf.1 hf.2, Bool.false_eq_true, if_false,
      Option.map_eq_some_iff] at hj
    obtain ⟨rs, hrs, rfl⟩ := hr; obtain ⟨js, hjs, rfl⟩ := hj
    simp only [Value.equals]
    exact reflectFields_rel ub hb vals _ [] rs [] js h hf.1 hf.2 hv List.Pairwise.nil (by simp)
      (by simp [presentFields, Value.equalsFields]) hrs hjs
theorem reflectList_equals (ub : Int) (hb : ub ≤ (2 ^ 63 : Int)) : ∀ (l : List GoVal) (t : GoType) (rs js : List Value),
    GoVal.allHaveTypeB ub t l = true → t.inFamily = true → GoVal.allInFamily l = true →
    reflectList t l = some rs → jsonList t l = some js → Value.equalsList rs js = true
  | [], t, rs, js, _, _, _, hr, hj => by
    simp [reflectList] at hr; simp [jsonList] at hj; subst hr; subst hj; simp [Value.equalsList]
  | v :: rest, t, rs, js, h, hf, hv, hr, hj => by
    simp [GoVal.allHaveTypeB] at h
    rw [allInFamily_cons] at hv; simp at hv
    cases h1 : reflectV t v with
    | none => simp [reflectList, h1] at hr
    | some x =>
    cases h2 : reflectList t rest with
    | none => simp [reflectList, h1, h2] at hr
    | some xs =>
    cases h3 : jsonV t v with
    | none => simp [jsonList, h3] at hj
    | some y =>
    cases h4 : jsonList t rest with
    | none => simp [jsonList, h3, h4] at hj
    | some ys =>
    simp [reflectList, h1, h2] at hr; simp [jsonList, h3, h4] at hj
    subst hr; subst hj
    simp [Value.equalsList, reflectV_equals ub hb v t x y h.1 hf hv.1 h1 h3,
      reflectList_equals ub hb rest t xs ys h.2 hf hv.2 h2 h4]
theorem reflectEntries_equals (ub : Int) (hb : ub ≤ (2 ^ 63 : Int)) : ∀ (l : List (String × GoVal)) (t : GoType) (rs js : List (String × Value)),
    GoVal.entriesHaveTypeB ub t l = true → t.inFamily = true → GoVal.entriesInFamily l = true →
    reflectEntries t l = some rs → jsonEntries t l = some js → Value.equalsFields rs js = true
  | [], t, rs, js, _, _, _, hr, hj => by
    simp [reflectEntries] at hr; simp [jsonEntries] at hj; subst hr; subst hj; simp [Value.equalsFields]
  | (k, v) :: rest, t, rs, js, h, hf, hv, hr, hj => by
    simp [GoVal.entriesHaveTypeB] at h
    simp [GoVal.entriesInFamily] at hv
    cases h1 : reflectV t v with
    | none => simp [reflectEntries, h1] at hr
    | some x =>
    cases h2 : reflectEntries t rest with
    | none => simp [reflectEntries, h1, h2] at hr
    | some xs =>
    cases h3 : jsonV t v with
    | none => simp [jsonEntries, h3] at hj
    | some y =>
    cases h4 : jsonEntries t rest with
    | none => simp [jsonEntries, h3, h4] at hj
    | some ys =>
    simp [reflectEntries, h1, h2] at hr; simp [jsonEntries, h3, h4] at hj
    subst hr; subst hj
    simp [Value.equalsFields, reflectV_equals ub hb v t x y h.1 hf hv.1 h1 h3,
      reflectEntries_equals ub hb rest t xs ys h.2 hf hv.2 h2 h4]
theorem reflectFields_rel (ub : Int) (hb : ub ≤ (2 ^ 63 : Int)) : ∀ (vals : List GoVal) (fs : List GoField) (acc acc' : Fields)
    (jacc jacc' : List (String × Value)),
    GoVal.fieldsHaveTypeB ub fs vals = true → fieldsInFamily fs = true → (fieldNames fs).Nodup →
    GoVal.allInFamily vals = true → KSorted acc → (∀ k ∈ acc.map (·.1), k ∉ fieldNames fs) →
    Value.equalsFields (presentFields acc) jacc = true →
    reflectFields fs vals acc = some acc' → jsonFields fs vals jacc = some jacc' →
    Value.equalsFields (presentFields acc') jacc' = true
  | [], fs, acc, acc', jacc, jacc', h, _, _, _, _, _, hrel, hr, hj => by
    cases fs <;> simp [GoVal.fieldsHaveTypeB] at h
    simp [reflectFields] at hr; simp [jsonFields] at hj; subst hr; subst hj; exact hrel
  | v :: vs, [], _, _, _, _, h, _, _, _, _, _, _, _, _ => by simp [GoVal.fieldsHaveTypeB] at h
  | v :: vs, (.mk goName tagName dash omitempty inline embedded type) :: fs, acc, acc', jacc, jacc',
      h, hf, hn, hv, hs, hdis, hrel, hr, hj => by
    simp [GoVal.fieldsHaveTypeB] at h
    rw [allInFamily_cons] at hv; simp at hv
    rw [reflectFields_cons] at hr
    rw [jsonFields_cons] at hj
    rw [fieldNames_cons] at hn hdis
    by_cases hd : dash = true
    · simp only [hd, if_true] at hn hdis hr hj
      rw [fieldsInFamily_cons] at hf; simp [hd] at hf
      exact reflectFields_rel ub hb vs fs acc acc' jacc jacc' h.2 hf hn hv.2 hs hdis hrel hr hj
    obtain ⟨he, hst, htf, hff⟩ := family_field hf hd
    simp only [if_neg hd] at hn hdis hr hj
    rw [he] at hj
    by_cases hi : inline = true
    · simp only [hi, if_true] at hn hdis hr hj
      rw [List.nodup_append] at hn
      rcases isStructOrPtrStruct_cases type (hst hi) with ⟨inner, rfl⟩ | ⟨inner, rfl⟩
      · cases v <;> simp [GoVal.hasTypeB] at h
        rename_i ivals
        rw [inFamily_struct] at htf; simp at htf
        rw [inFamily_vstruct] at hv
        simp only [inlineNames] at hn hdis
        cases h1 : reflectFields inner ivals acc with
        | none => simp [h1] at hr
        | some acc1 =>
        cases h2 : jsonFields inner ivals jacc with
        | none => simp [h2] at hj
        | some j1 =>
        simp only [h1] at hr; simp only [h2] at hj
        have hrel1 := reflectFields_rel ub hb ivals inner acc acc1 jacc j1 h.1 htf.1 htf.2 hv.1 hs
          (fun k hk hm => hdis k hk (List.mem_append_left _ hm)) hrel h1 h2
        have inv1 := reflectFields_inv ivals inner acc acc1 h1
        exact reflectFields_rel ub hb vs fs acc1 acc' j1 jacc' h.2 hff hn.2.1 hv.2 (inv1.1 hs) (by
          intro k hk hm
          rcases inv1.2 k hk with hk | hk
          · exact hdis k hk (List.mem_append_right _ hm)
          · exact hn.2.2 k hk k hm rfl) hrel1 hr hj
      · cases v <;> simp [GoVal.hasTypeB] at h
        · simp only [inlineNames] at hn hdis
          exact reflectFields_rel ub hb vs fs _ acc' jacc jacc' h hff hn.2.1 hv.2 (absentFields_sorted _ _ hs) (by
            intro k hk hm
            rcases absentFields_keys _ _ k hk with hk | hk
            · exact hdis k hk (List.mem_append_right _ hm)
            · exact hn.2.2 k hk k hm rfl)
            (by rw [absentFields_present inner acc hn.1
                  (fun k hk hm => hdis k hk (List.mem_append_left _ hm))]; exact hrel) hr hj
        · rename_i v'
          cases v' <;> simp [GoVal.hasTypeB] at h
          rename_i ivals
          rw [inFamily_ptr, inFamily_struct] at htf; simp at htf
          rw [inFamily_vptr, inFamily_vstruct] at hv
          simp only [inlineNames] at hn hdis
          cases h1 : reflectFields inner ivals acc with
          | none => simp [h1] at hr
          | some acc1 =>
          cases h2 : jsonFields inner ivals jacc with
          | none => simp [h2] at hj
          | some j1 =>
          simp only [h1] at hr; simp only [h2] at hj
          have hrel1 := reflectFields_rel ub hb ivals inner acc acc1 jacc j1 h.1 htf.1 htf.2 hv.1 hs
            (fun k hk hm => hdis k hk (List.mem_append_left _ hm)) hrel h1 h2
          have inv1 := reflectFields_inv ivals inner acc acc1 h1
          exact reflectFields_rel ub hb vs fs acc1 acc' j1 jacc' h.2 hff hn.2.1 hv.2 (inv1.1 hs) (by
            intro k hk hm
            rcases inv1.2 k hk with hk | hk
            · exact hdis k hk (List.mem_append_right _ hm)
            · exact hn.2.2 k hk k hm rfl) hrel1 hr hj
    · simp only [hi] at hn hdis hr hj
      simp only [Bool.false_eq_true, if_false] at hn hdis hr hj
      rw [List.nodup_cons] at hn
      have hk0 : tagName.getD goName ∉ acc.map (·.1) := fun hm => hdis _ hm (by simp)
      by_cases ho : (omitempty && v.isEmptyValue) = true
      · simp only [ho, if_true] at hr hj
        exact reflectFields_rel ub hb vs fs _ acc' jacc jacc' h.2 hff hn.2 hv.2 (insertSorted_sorted _ _ _ hs) (by
          intro k hk hm
          rcases mem_keys_insertSorted _ _ _ _ hk with hk | hk
          · subst hk; exact hn.1 hm
          · exact hdis k hk (List.mem_cons_of_mem _ hm))
          (by rw [presentFields_insertSorted_none _ _ hk0]; exact hrel) hr hj
      · simp only [if_neg ho] at hr hj
        cases h1 : reflectV type v with
        | none => simp [h1] at hr
        | some x =>
        cases h2 : jsonV type v with
        | none => simp [h2] at hj
        | some y =>
        simp only [h1] at hr; simp only [h2] at hj
        have hxy := reflectV_equals ub hb v type x y h.1 htf hv.1 h1 h2
        have hkj : tagName.getD goName ∉ jacc.map (·.1) := by
          rw [← equalsFields_keys _ _ hrel]
          exact fun hm => hk0 (mem_keys_presentFields _ _ hm)
        rw [insertNew_eq_insertSorted _ y jacc hkj] at hj
        simp only at hj
        exact reflectFields_rel ub hb vs fs _ acc' _ jacc' h.2 hff hn.2 hv.2 (insertSorted_sorted _ _ _ hs) (by
          intro k hk hm
          rcases mem_keys_insertSorted _ _ _ _ hk with hk | hk
          · subst hk; exact hn.1 hm
          · exact hdis k hk (List.mem_cons_of_mem _ hm))
          (by rw [presentFields_insertSorted_some _ _ _ hs hk0]
              exact equalsFields_insertSorted _ _ _ hxy _ _ hrel) hr hj
end

/-! ### the keys of a struct do not depend on the values of its fields -/

theorem keys_insertSorted_congr (k : String) (x y : Value) :
    ∀ (l1 l2 : List (String × Value)), l1.map (·.1) = l2.map (·.1) →
      (insertSorted k x l1).map (·.1) = (insertSorted k y l2).map (·.1)
  | [], [], _ => by simp [insertSorted]
  | [], _ :: _, h => by simp at h
  | _ :: _, [], h => by simp at h
  | (k1, a1) :: r1, (k2, a2) :: r2, h => by
    simp only [List.map_cons, List.cons.injEq] at h
    obtain ⟨hk, hr⟩ := h
    subst hk
    have ih := keys_insertSorted_congr k x y r1 r2 hr
    simp only [insertSorted]
    split
    · simp [hr]
    · split
      · simp [hr]
      · simp [ih]

/-- `reflectFields_rel` for the keys alone: whatever the field values are read as -/
theorem reflectFields_keys : ∀ (vals : List GoVal) (fs : List GoField) (acc acc' : Fields)
    (jacc jacc' : List (String × Value)),
    GoVal.fieldsHaveType fs vals = true → fieldsInFamily fs = true → (fieldNames fs).Nodup →
    GoVal.allInFamily vals = true → KSorted acc → (∀ k ∈ acc.map (·.1), k ∉ fieldNames fs) →
    (presentFields acc).map (·.1) = jacc.map (·.1) →
    reflectFields fs vals acc = some acc' → jsonFields fs vals jacc = some jacc' →
    (presentFields acc').map (·.1) = jacc'.map (·.1)
  | [], fs, acc, acc', jacc, jacc', h, _, _, _, _, _, hrel, hr, hj => by
    cases fs <;> simp [GoVal.fieldsHaveType] at h
    simp [reflectFields] at hr; simp [jsonFields] at hj; subst hr; subst hj; exact hrel
  | v :: vs, [], _, _, _, _, h, _, _, _, _, _, _, _, _ => by simp [GoVal.fieldsHaveType] at h
  | v :: vs, (.mk goName tagName dash omitempty inline embedded type) :: fs, acc, acc', jacc, jacc',
      h, hf, hn, hv, hs, hdis, hrel, hr, hj => by
    simp [GoVal.fieldsHaveType] at h
    rw [allInFamily_cons] at hv; simp at hv
    rw [reflectFields_cons] at hr
    rw [jsonFields_cons] at hj
    rw [fieldNames_cons] at hn hdis
    by_cases hd : dash = true
    · simp only [hd, if_true] at hn hdis hr hj
      rw [fieldsInFamily_cons] at hf; simp [hd] at hf
      exact reflectFields_keys vs fs acc acc' jacc jacc' h.2 hf hn hv.2 hs hdis hrel hr hj
    obtain ⟨he, hst, htf, hff⟩ := family_field hf hd
    simp only [if_neg hd] at hn hdis hr hj
    rw [he] at hj
    by_cases hi : inline = true
    · simp only [hi, if_true] at hn hdis hr hj
      rw [List.nodup_append] at hn
      rcases isStructOrPtrStruct_cases type (hst hi) with ⟨inner, rfl⟩ | ⟨inner, rfl⟩
      · cases v <;> simp [GoVal.hasType] at h
        rename_i ivals
        rw [inFamily_struct] at htf; simp at htf
        rw [inFamily_vstruct] at hv
        simp only [inlineNames] at hn hdis
        cases h1 : reflectFields inner ivals acc with
        | none => simp [h1] at hr
        | some acc1 =>
        cases h2 : jsonFields inner ivals jacc with
        | none => simp [h2] at hj
        | some j1 =>
        simp only [h1] at hr; simp only [h2] at hj
        have hrel1 := reflectFields_keys ivals inner acc acc1 jacc j1 h.1 htf.1 htf.2 hv.1 hs
          (fun k hk hm => hdis k hk (List.mem_append_left _ hm)) hrel h1 h2
        have inv1 := reflectFields_inv ivals inner acc acc1 h1
        exact reflectFields_keys vs fs acc1 acc' j1 jacc' h.2 hff hn.2.1 hv.2 (inv1.1 hs) (by
          intro k hk hm
          rcases inv1.2 k hk with hk | hk
          · exact hdis k hk (List.mem_append_right _ hm)
          · exact hn.2.2 k hk k hm rfl) hrel1 hr hj
      · cases v <;> simp [GoVal.hasType] at h
        · simp only [inlineNames] at hn hdis
          exact reflectFields_keys vs fs _ acc' jacc jacc' h hff hn.2.1 hv.2 (absentFields_sorted _ _ hs) (by
            intro k hk hm
            rcases absentFields_keys _ _ k hk with hk | hk
            · exact hdis k hk (List.mem_append_right _ hm)
            · exact hn.2.2 k hk k hm rfl)
            (by rw [absentFields_present inner acc hn.1
                  (fun k hk hm => hdis k hk (List.mem_append_left _ hm))]; exact hrel) hr hj
        · rename_i v'
          cases v' <;> simp [GoVal.hasType] at h
          rename_i ivals
          rw [inFamily_ptr, inFamily_struct] at htf; simp at htf
          rw [inFamily_vptr, inFamily_vstruct] at hv
          simp only [inlineNames] at hn hdis
          cases h1 : reflectFields inner ivals acc with
          | none => simp [h1] at hr
          | some acc1 =>
          cases h2 : jsonFields inner ivals jacc with
          | none => simp [h2] at hj
          | some j1 =>
          simp only [h1] at hr; simp only [h2] at hj
          have hrel1 := reflectFields_keys ivals inner acc acc1 jacc j1 h.1 htf.1 htf.2 hv.1 hs
            (fun k hk hm => hdis k hk (List.mem_append_left _ hm)) hrel h1 h2
          have inv1 := reflectFields_inv ivals inner acc acc1 h1
          exact reflectFields_keys vs fs acc1 acc' j1 jacc' h.2 hff hn.2.1 hv.2 (inv1.1 hs) (by
            intro k hk hm
            rcases inv1.2 k hk with hk | hk
            · exact hdis k hk (List.mem_append_right _ hm)
            · exact hn.2.2 k hk k hm rfl) hrel1 hr hj
    · simp only [hi] at hn hdis hr hj
      simp only [Bool.false_eq_true, if_false] at hn hdis hr hj
      rw [List.nodup_cons] at hn
      have hk0 : tagName.getD goName ∉ acc.map (·.1) := fun hm => hdis _ hm (by simp)
      by_cases ho : (omitempty && v.isEmptyValue) = true
      · simp only [ho, if_true] at hr hj
        exact reflectFields_keys vs fs _ acc' jacc jacc' h.2 hff hn.2 hv.2 (insertSorted_sorted _ _ _ hs) (by
          intro k hk hm
          rcases mem_keys_insertSorted _ _ _ _ hk with hk | hk
          · subst hk; exact hn.1 hm
          · exact hdis k hk (List.mem_cons_of_mem _ hm))
          (by rw [presentFields_insertSorted_none _ _ hk0]; exact hrel) hr hj
      · simp only [if_neg ho] at hr hj
        cases h1 : reflectV type v with
        | none => simp [h1] at hr
        | some x =>
        cases h2 : jsonV type v with
        | none => simp [h2] at hj
        | some y =>
        simp only [h1] at hr; simp only [h2] at hj
        have hkj : tagName.getD goName ∉ jacc.map (·.1) := by
          rw [← hrel]
          exact fun hm => hk0 (mem_keys_presentFields _ _ hm)
        rw [insertNew_eq_insertSorted _ y jacc hkj] at hj
        simp only at hj
        exact reflectFields_keys vs fs _ acc' _ jacc' h.2 hff hn.2 hv.2 (insertSorted_sorted _ _ _ hs) (by
          intro k hk hm
          rcases mem_keys_insertSorted _ _ _ _ hk with hk | hk
          · subst hk; exact hn.1 hm
          · exact hdis k hk (List.mem_cons_of_mem _ hm))
          (by rw [presentFields_insertSorted_some _ _ _ hs hk0]
              exact keys_insertSorted_congr _ _ _ _ _ hrel) hr hj

/-! ### structs -/

theorem reflectV_struct_sorted (fs : List GoField) (vals : List GoVal) (m : List (String × Value))
    (hr : reflectV (.struct fs) (.struct vals) = some (.map m)) : KSorted m := by
  simp only [reflectV, Option.map_eq_some_iff] at hr
  obtain ⟨hits, hh, he⟩ := hr
  cases he
  exact presentFields_sorted _ ((reflectFields_inv vals fs [] hits hh).1 List.Pairwise.nil)

theorem reflectV_struct_keys (fs : List GoField) (vals : List GoVal) (m j : List (String × Value))
    (ht : GoVal.hasType (.struct fs) (.struct vals) = true)
    (hf : (GoType.struct fs).inFamily = true) (hv : (GoVal.struct vals).inFamily = true)
    (hr : reflectV (.struct fs) (.struct vals) = some (.map m))
    (hj : jsonV (.struct fs) (.struct vals) = some (.map j)) :
    m.map (·.1) = j.map (·.1) := by
  rw [inFamily_struct] at hf; rw [inFamily_vstruct] at hv
  simp only [Bool.and_eq_true, decide_eq_true_eq] at hf
  simp only [GoVal.hasType] at ht
  simp only [reflectV, Option.map_eq_some_iff] at hr
  simp only [jsonV, hasRepeat_jsonNames_of_family _ hf.1 hf.2, Bool.false_eq_true, if_false,
    Option.map_eq_some_iff] at hj
  obtain ⟨rs, hrs, hm⟩ := hr; obtain ⟨js, hjs, hjm⟩ := hj
  cases hm; cases hjm
  exact reflectFields_keys vals _ [] rs [] _ ht hf.1 hf.2 hv List.Pairwise.nil (by simp)
    (by simp [presentFields]) hrs hjs

/-! ### the bounded typing implies the typing -/

mutual
theorem hasTypeB_hasType (ub : Int) : ∀ (v : GoVal) (t : GoType), GoVal.hasTypeB ub t v = true → GoVal.hasType t v = true
  | .nil, t, h => by cases t <;> simp_all [GoVal.hasTypeB, GoVal.hasType]
  | .bool _, t, h => by cases t <;> simp_all [GoVal.hasTypeB, GoVal.hasType]
  | .int _, t, h => by cases t <;> simp_all [GoVal.hasTypeB, GoVal.hasType]
  | .float _ _, t, h => by cases t <;> simp_all [GoVal.hasTypeB, GoVal.hasType]
  | .float32 _ _ _, t, h => by cases t <;> simp_all [GoVal.hasTypeB, GoVal.hasType]
  | .str _, t, h => by cases t <;> simp_all [GoVal.hasTypeB, GoVal.hasType]
  | .bytes _, t, h => by cases t <;> simp_all [GoVal.hasTypeB, GoVal.hasType]
  | .ptr v, t, h => by
    cases t <;> simp [GoVal.hasTypeB] at h
    simp only [GoVal.hasType]; exact hasTypeB_hasType ub v _ h
  | .iface t' v, t, h => by
    cases t <;> simp [GoVal.hasTypeB] at h
    simp only [GoVal.hasType]; exact hasTypeB_hasType ub v _ h
  | .slice l, t, h => by
    cases t <;> simp [GoVal.hasTypeB] at h
    simp only [GoVal.hasType]; exact allHaveTypeB_allHaveType ub l _ h
  | .map m, t, h => by
    cases t <;> simp [GoVal.hasTypeB] at h
    simp only [GoVal.hasType]; exact entriesHaveTypeB_entriesHaveType ub m _ h
  | .struct vals, t, h => by
    cases t <;> simp [GoVal.hasTypeB] at h
    simp only [GoVal.hasType]; exact fieldsHaveTypeB_fieldsHaveType ub vals _ h
theorem allHaveTypeB_allHaveType (ub : Int) : ∀ (l : List GoVal) (t : GoType), GoVal.allHaveTypeB ub t l = true → GoVal.allHaveType t l = true
  | [], t, _ => by simp [GoVal.allHaveType]
  | v :: rest, t, h => by
    simp [GoVal.allHaveTypeB] at h
    simp [GoVal.allHaveType, hasTypeB_hasType ub v t h.1, allHaveTypeB_allHaveType ub rest t h.2]
theorem entriesHaveTypeB_entriesHaveType (ub : Int) : ∀ (l : List (String × GoVal)) (t : GoType), GoVal.entriesHaveTypeB ub t l = true → GoVal.entriesHaveType t l = true
  | [], t, _ => by simp [GoVal.entriesHaveType]
  | (k, v) :: rest, t, h => by
    simp [GoVal.entriesHaveTypeB] at h
    simp [GoVal.entriesHaveType, hasTypeB_hasType ub v t h.1, entriesHaveTypeB_entriesHaveType ub rest t h.2]
theorem fieldsHaveTypeB_fieldsHaveType (ub : Int) : ∀ (vals : List GoVal) (fs : List GoField), GoVal.fieldsHaveTypeB ub fs vals = true → GoVal.fieldsHaveType fs vals = true
  | [], fs, h => by cases fs <;> simp_all [GoVal.fieldsHaveTypeB, GoVal.fieldsHaveType]
  | v :: vs, [], h => by simp [GoVal.fieldsHaveTypeB] at h
  | v :: vs, (.mk _ _ _ _ _ _ type) :: fs, h => by
    simp [GoVal.fieldsHaveTypeB] at h
    simp [GoVal.fieldsHaveType, hasTypeB_hasType ub v type h.1, fieldsHaveTypeB_fieldsHaveType ub vs fs h.2]
end

/-! ### a concrete member of the family (non-vacuity witness for C18): an inline struct three levels
deep, an omitempty field that is empty, a nil embedded pointer, a float32, a []byte, an interface holding
a typed slice, a `json:"-"` field -/
namespace C18Ex
def exL3 : List GoField :=
  [.mk "F32" (some "f32") false false false false .float32,
   .mk "Raw" (some "raw") false false false false .bytes]
def exL2 : List GoField :=
  [.mk "L3" none false false true true (.struct exL3),
   .mk "Any" (some "any") false false false false .iface]
def exL1 : List GoField :=
  [.mk "L2" none false false true true (.struct exL2),
   .mk "Opt" (some "opt") false true false false .string,
   .mk "Nil" none false false true true (.ptr (.struct [.mk "Gone" (some "gone") false false false false .int]))]
def exT : GoType :=
  .struct [.mk "Name" (some "name") false false false false .string,
           .mk "L1" none false false true true (.struct exL1),
           .mk "Skip" none true false false false .int]
def exV : GoVal :=
  .struct [.str "x",
           .struct [.struct [.struct [.float32 0 false 0, .bytes [104, 105]],
                             .iface (.slice .int) (.slice [.int 1, .int 2])],
                    .str "", .nil],
           .int 7]
end C18Ex

/-- a `uint` holding 2^63 is read by the reflection wrappers as -2^63 (`int64(r.Value.Uint())`), by
encoding/json as 2^63 -/
theorem reflect_uint_wraps :
    reflectV .uint (.int (2 ^ 63)) = some (.int (-(2 ^ 63))) ∧ jsonV .uint (.int (2 ^ 63)) = some (.int (2 ^ 63)) ∧
      Value.equals (.int (-(2 ^ 63))) (.int (2 ^ 63)) = false := by
  refine ⟨by simp [reflectV], by simp [jsonV], by simp [Value.equals]⟩

end SMD
