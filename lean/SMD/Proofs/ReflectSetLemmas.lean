/- helper lemmas for SMD/Properties/C18Set.lean: association lists, the flattened fields of a struct under
`putField`, Go maps and slices under replacement of one element -/
import SMD.Model.ReflectSet
import SMD.Proofs.ReflectJSON
namespace SMD

/-! ### association lists: first entry of a key -/

def alook {α : Type} (k : String) : List (String × α) → Option α
  | [] => none
  | (k', a) :: rest => if k == k' then some a else alook k rest

theorem lookupField_eq_alook (k : String) : ∀ (m : List (String × Value)), lookupField k m = alook k m
  | [] => rfl
  | (k', a) :: rest => by simp only [lookupField, alook, lookupField_eq_alook k rest]

theorem goLookup_eq_alook (k : String) : ∀ (m : List (String × GoVal)), goLookup k m = alook k m
  | [] => rfl
  | (k', a) :: rest => by simp only [goLookup, alook, goLookup_eq_alook k rest]

theorem alook_insertSorted_same {α : Type} (k : String) (a : α) :
    ∀ (l : List (String × α)), alook k (insertSorted k a l) = some a
  | [] => by simp [insertSorted, alook]
  | (k', a') :: rest => by
    simp only [insertSorted]
    split
    · simp [alook]
    · split
      · simp [alook]
      · rename_i _ hne
        simp only [alook, hne]
        exact alook_insertSorted_same k a rest

theorem alook_insertSorted_other {α : Type} (k j : String) (a : α) (h : j ≠ k) :
    ∀ (l : List (String × α)), alook j (insertSorted k a l) = alook j l
  | [] => by simp [insertSorted, alook, h]
  | (k', a') :: rest => by
    simp only [insertSorted]
    split
    · simp [alook, h]
    · split
      · rename_i _ heq
        have : k = k' := by simpa using heq
        subst this
        simp [alook, h]
      · simp only [alook]
        rw [alook_insertSorted_other k j a h rest]

theorem alook_eraseKey_same {α : Type} (k : String) :
    ∀ (l : List (String × α)), alook k (eraseKey k l) = none
  | [] => rfl
  | (k', a') :: rest => by
    simp only [eraseKey]
    split
    · exact alook_eraseKey_same k rest
    · rename_i hne
      simp only [alook, hne]
      exact alook_eraseKey_same k rest

theorem alook_eraseKey_other {α : Type} (k j : String) (h : j ≠ k) :
    ∀ (l : List (String × α)), alook j (eraseKey k l) = alook j l
  | [] => rfl
  | (k', a') :: rest => by
    simp only [eraseKey]
    split
    · rename_i heq
      have : k = k' := by simpa using heq
      subst this
      simp [alook, h, alook_eraseKey_other k j h rest]
    · simp only [alook, alook_eraseKey_other k j h rest]

theorem alook_replaceFirst_same {α : Type} (k : String) (a : α) :
    ∀ (l : List (String × α)), (alook k l).isSome = true → alook k (replaceFirst k a l) = some a
  | [], h => by simp [alook] at h
  | (k', a') :: rest, h => by
    simp only [replaceFirst]
    split
    · rename_i heq; simp [alook, heq]
    · rename_i hne
      simp only [alook, hne] at h ⊢
      exact alook_replaceFirst_same k a rest h

theorem alook_replaceFirst_other {α : Type} (k j : String) (a : α) (h : j ≠ k) :
    ∀ (l : List (String × α)), alook j (replaceFirst k a l) = alook j l
  | [] => rfl
  | (k', a') :: rest => by
    simp only [replaceFirst]
    split
    · rename_i heq
      have : k = k' := by simpa using heq
      subst this
      simp [alook, h]
    · simp only [alook, alook_replaceFirst_other k j a h rest]

theorem keys_replaceFirst {α : Type} (k : String) (a : α) :
    ∀ (l : List (String × α)), (replaceFirst k a l).map (·.1) = l.map (·.1)
  | [] => rfl
  | (k', a') :: rest => by
    simp only [replaceFirst]
    split
    · rfl
    · simp [keys_replaceFirst k a rest]

theorem ksorted_of_keys {α β : Type} (l : List (String × α)) (l' : List (String × β))
    (hk : l'.map (·.1) = l.map (·.1)) (hs : KSorted l) : KSorted l' := by
  unfold KSorted at hs ⊢
  have h1 : (l.map (·.1)).Pairwise (· < ·) := List.pairwise_map.2 hs
  rw [← hk] at h1
  exact List.pairwise_map.1 h1

theorem replaceFirst_sorted {α : Type} (k : String) (a : α) (l : List (String × α)) (hs : KSorted l) :
    KSorted (replaceFirst k a l) :=
  ksorted_of_keys l _ (keys_replaceFirst k a l) hs

theorem alook_none_of_lt_all {α : Type} (k : String) :
    ∀ (l : List (String × α)), (∀ b ∈ l, k < b.1) → alook k l = none
  | [], _ => rfl
  | (k', a') :: rest, h => by
    have hlt : k < k' := h (k', a') (by simp)
    have hne : ¬ (k == k') = true := by
      intro he
      have : k = k' := by simpa using he
      subst this
      exact absurd hlt (String.lt_irrefl k)
    simp only [alook, hne]
    exact alook_none_of_lt_all k rest fun b hb => h b (List.mem_cons_of_mem _ hb)

theorem alook_some_of_mem_keys {α : Type} (k : String) :
    ∀ (l : List (String × α)), k ∈ l.map (·.1) → (alook k l).isSome = true
  | [], h => by simp at h
  | (k', a') :: rest, h => by
    simp only [alook]
    split
    · rfl
    · rename_i hne
      apply alook_some_of_mem_keys k rest
      simp only [List.map_cons, List.mem_cons] at h
      rcases h with h | h
      · subst h; simp at hne
      · exact h

/-- a sorted association list is determined by its lookups -/
theorem ksorted_ext {α : Type} : ∀ (l l' : List (String × α)), KSorted l → KSorted l' →
    (∀ k, alook k l = alook k l') → l = l'
  | [], [], _, _, _ => rfl
  | [], (k', a') :: rest', _, _, h => by
    have := h k'; simp [alook] at this
  | (k, a) :: rest, [], _, _, h => by
    have := h k; simp [alook] at this
  | (k, a) :: rest, (k', a') :: rest', hs, hs', h => by
    have hp := List.pairwise_cons.1 hs
    have hp' := List.pairwise_cons.1 hs'
    have hkk : k = k' := by
      by_cases hlt : k < k'
      · have h1 := h k
        rw [alook_none_of_lt_all k ((k', a') :: rest')] at h1
        · simp [alook] at h1
        · intro b hb
          rcases List.mem_cons.1 hb with hb | hb
          · subst hb; exact hlt
          · exact String.lt_trans hlt (hp'.1 b hb)
      · by_cases heq : (k == k') = true
        · simpa using heq
        · have hgt := str_tri hlt heq
          have h1 := h k'
          rw [alook_none_of_lt_all k' ((k, a) :: rest)] at h1
          · simp [alook] at h1
          · intro b hb
            rcases List.mem_cons.1 hb with hb | hb
            · subst hb; exact hgt
            · exact String.lt_trans hgt (hp.1 b hb)
    subst hkk
    have haa : a = a' := by
      have h1 := h k
      simpa [alook] using h1
    subst haa
    have : rest = rest' := by
      apply ksorted_ext rest rest' hp.2 hp'.2
      intro j
      by_cases hj : (j == k) = true
      · have : j = k := by simpa using hj
        subst this
        rw [alook_none_of_lt_all j rest hp.1, alook_none_of_lt_all j rest' hp'.1]
      · have h1 := h j
        simpa [alook, hj] using h1
    rw [this]

/-! ### present fields -/

theorem alook_presentFields (k : String) : ∀ (F : Fields), KSorted F →
    alook k (presentFields F) = (alook k F).join
  | [], _ => rfl
  | (k', some v) :: rest, hs => by
    have hp := List.pairwise_cons.1 hs
    simp only [presentFields, alook]
    split
    · rfl
    · exact alook_presentFields k rest hp.2
  | (k', none) :: rest, hs => by
    have hp := List.pairwise_cons.1 hs
    simp only [presentFields, alook]
    split
    · rename_i heq
      have : k = k' := by simpa using heq
      subst this
      rw [alook_none_of_lt_all k (presentFields rest)]
      · rfl
      · intro b hb
        exact hp.1 _ (mem_presentFields rest b hb)
    · exact alook_presentFields k rest hp.2

/-! ### one field at a time -/

/-- what an inlined field adds to the fields collected so far -/
def inlineStep (type : GoType) (v : GoVal) (acc : Fields) : Option Fields :=
  match type, v with
  | .struct inner, .struct ivals => reflectFields inner ivals acc
  | .ptr (.struct inner), .ptr (.struct ivals) => reflectFields inner ivals acc
  | .ptr (.struct inner), .nil => some (absentFields inner acc)
  | .struct _, _ => none
  | .ptr (.struct _), _ => none
  | _, _ => some acc

/-- what one field adds to the fields collected so far -/
def fieldStep : GoField → GoVal → Fields → Option Fields
  | .mk goName tagName dash omitempty inline _ type, v, acc =>
    if dash then some acc
    else if inline then inlineStep type v acc
    else if omitempty && v.isEmptyValue then some (insertSorted (tagName.getD goName) none acc)
    else (reflectV type v).map fun x => insertSorted (tagName.getD goName) (some x) acc

/-- the JSON names one field contributes -/
def namesOf : GoField → List String
  | .mk goName tagName dash _ inline _ type =>
    if dash then [] else if inline then inlineNames type else [tagName.getD goName]

theorem fieldNames_step (f : GoField) (fs : List GoField) : fieldNames (f :: fs) = namesOf f ++ fieldNames fs := by
  obtain ⟨goName, tagName, dash, omitempty, inline, embedded, type⟩ := f
  rw [fieldNames_cons]
  simp only [namesOf]
  split
  · rfl
  · split <;> rfl

theorem reflectFields_step (f : GoField) (fs : List GoField) (v : GoVal) (vs : List GoVal) (acc : Fields) :
    reflectFields (f :: fs) (v :: vs) acc = (fieldStep f v acc).bind fun a => reflectFields fs vs a := by
  obtain ⟨goName, tagName, dash, omitempty, inline, embedded, type⟩ := f
  rw [reflectFields_cons]
  simp only [fieldStep]
  split
  · rfl
  split
  · unfold inlineStep
    split
    · dsimp only
      cases reflectFields _ _ acc <;> rfl
    · dsimp only
      cases reflectFields _ _ acc <;> rfl
    · rfl
    · split <;> first | rfl | (exfalso; simp_all)
    · split <;> first | rfl | (exfalso; simp_all)
    · split <;> first | rfl | (exfalso; simp_all)
  split
  · rfl
  · cases reflectV type v <;> rfl

/-! ### the fields collected so far matter only at the names a struct does not have -/

theorem inlineNames_other (t : GoType) (h1 : ∀ fields, t = GoType.struct fields → False)
    (h2 : ∀ fields, t = (GoType.struct fields).ptr → False) : inlineNames t = [] := by
  unfold inlineNames
  split
  · exact absurd rfl (h1 _)
  · exact absurd rfl (h2 _)
  · rfl

theorem inlineNames_struct (inner : List GoField) : inlineNames (.struct inner) = fieldNames inner := by
  simp [inlineNames]

theorem inlineNames_ptr (inner : List GoField) : inlineNames (.ptr (.struct inner)) = fieldNames inner := by
  simp [inlineNames]

theorem alook_absent :
    (∀ (t : GoType) (acc : Fields) (k : String),
      alook k (absentOfType t acc) = if k ∈ inlineNames t then some none else alook k acc) ∧
    (∀ (fs : List GoField) (acc : Fields) (k : String),
      alook k (absentFields fs acc) = if k ∈ fieldNames fs then some none else alook k acc) := by
  refine absentOfType.mutual_induct
    (motive_1 := fun t acc => ∀ k, alook k (absentOfType t acc) = if k ∈ inlineNames t then some none else alook k acc)
    (motive_2 := fun fs acc => ∀ k, alook k (absentFields fs acc) = if k ∈ fieldNames fs then some none else alook k acc)
    ?_ ?_ ?_ ?_ ?_ ?_ ?_
  · intro inner acc ih k
    have e1 : absentOfType (.struct inner) acc = absentFields inner acc := by simp [absentOfType]
    rw [e1, inlineNames_struct]; exact ih k
  · intro inner acc ih k
    have e1 : absentOfType (.ptr (.struct inner)) acc = absentFields inner acc := by simp [absentOfType]
    rw [e1, inlineNames_ptr]; exact ih k
  · intro t acc h1 h2 k
    rw [absentOfType.eq_3 _ _ h1 h2, inlineNames_other t h1 h2]; simp
  · intro acc k; simp [absentFields, fieldNames]
  · intro goName tagName omitempty inline embedded type fs acc ih k
    rw [fieldNames_cons]; simp only [absentFields, if_true]
    exact ih k
  · intro goName tagName dash omitempty embedded type fs acc hd ih1 ih2 k
    rw [fieldNames_cons]; simp only [absentFields, if_neg hd, if_true]
    rw [ih2 k, ih1 k]
    by_cases h1 : k ∈ fieldNames fs <;> by_cases h2 : k ∈ inlineNames type <;> simp [h1, h2]
  · intro goName tagName dash omitempty inline embedded type fs acc hd hi ih k
    rw [fieldNames_cons]; simp only [absentFields, if_neg hd, if_neg hi]
    rw [ih k]
    by_cases h1 : k ∈ fieldNames fs
    · simp [h1]
    · by_cases h2 : k = tagName.getD goName
      · subst h2; simp [h1, alook_insertSorted_same]
      · simp [h1, h2, alook_insertSorted_other _ _ _ h2]

/-- `reflectFields` succeeds or fails whatever was collected before, and its result at a name depends on
what was collected before only for the names the struct does not have -/
def AccIndep (fs : List GoField) : Prop :=
  ∀ (vals : List GoVal) (acc acc' F : Fields), reflectFields fs vals acc = some F →
    ∃ F', reflectFields fs vals acc' = some F' ∧
      ∀ k, alook k F' = if k ∈ fieldNames fs then alook k F else alook k acc'

def StepIndep (f : GoField) : Prop :=
  ∀ (v : GoVal) (acc acc' A : Fields), fieldStep f v acc = some A →
    ∃ A', fieldStep f v acc' = some A' ∧
      ∀ k, alook k A' = if k ∈ namesOf f then alook k A else alook k acc'

theorem accIndep_self {fs : List GoField} (h : AccIndep fs) {vals : List GoVal} {acc F : Fields}
    (hr : reflectFields fs vals acc = some F) (k : String) (hk : k ∉ fieldNames fs) :
    alook k F = alook k acc := by
  obtain ⟨F', h1, h2⟩ := h vals acc acc F hr
  rw [hr] at h1
  cases h1
  simpa [hk] using h2 k

theorem accIndep_cons (f : GoField) (fs : List GoField) (hstep : StepIndep f) (ih : AccIndep fs) :
    AccIndep (f :: fs) := by
  intro vals acc acc' F h
  cases vals with
  | nil => simp [reflectFields] at h
  | cons v vs =>
    rw [reflectFields_step] at h
    cases hA : fieldStep f v acc with
    | none => simp [hA] at h
    | some A =>
      simp only [hA, Option.bind] at h
      obtain ⟨A', hA', hA'k⟩ := hstep v acc acc' A hA
      obtain ⟨F', hF', hF'k⟩ := ih vs A A' F h
      refine ⟨F', ?_, ?_⟩
      · rw [reflectFields_step, hA']; exact hF'
      · intro k
        rw [fieldNames_step, hF'k k]
        by_cases h1 : k ∈ fieldNames fs
        · simp [h1]
        · rw [hA'k k, accIndep_self ih h k h1]
          by_cases h2 : k ∈ namesOf f <;> simp [h1, h2]

theorem accIndep_all : ∀ (fs : List GoField), AccIndep fs := by
  refine fieldNames.induct (motive_1 := fun fs => AccIndep fs)
    (motive_2 := fun t => ∀ (v : GoVal) (acc acc' A : Fields), inlineStep t v acc = some A →
      ∃ A', inlineStep t v acc' = some A' ∧
        ∀ k, alook k A' = if k ∈ inlineNames t then alook k A else alook k acc')
    ?_ ?_ ?_ ?_ ?_ ?_ ?_
  · intro fields ih v acc acc' A h
    cases v <;> simp [inlineStep] at h
    rename_i ivals
    obtain ⟨F', h1, h2⟩ := ih ivals acc acc' A h
    refine ⟨F', by simpa [inlineStep] using h1, ?_⟩
    rw [inlineNames_struct]; exact h2
  · intro fields ih v acc acc' A h
    cases v with
    | nil =>
      simp [inlineStep] at h
      subst h
      refine ⟨absentFields fields acc', by simp [inlineStep], ?_⟩
      intro k
      rw [alook_absent.2, alook_absent.2, inlineNames_ptr]
      by_cases hk : k ∈ fieldNames fields <;> simp [hk]
    | ptr v' =>
      cases v' <;> simp [inlineStep] at h
      rename_i ivals
      obtain ⟨F', h1, h2⟩ := ih ivals acc acc' A h
      refine ⟨F', by simpa [inlineStep] using h1, ?_⟩
      rw [inlineNames_ptr]; exact h2
    | _ => simp [inlineStep] at h
  · intro t h1 h2 v acc acc' A h
    have hstep : ∀ a, inlineStep t v a = some a := by
      intro a
      unfold inlineStep
      split <;> first | rfl | (exfalso; simp_all)
    rw [hstep] at h
    cases h
    exact ⟨acc', hstep acc', by simp [inlineNames_other t h1 h2]⟩
  · intro vals acc acc' F h
    cases vals <;> simp [reflectFields] at h
    subst h
    exact ⟨acc', by simp [reflectFields], by simp [fieldNames]⟩
  · intro goName tagName omitempty inline embedded type fs ih
    apply accIndep_cons _ _ _ ih
    intro v acc acc' A h
    simp [fieldStep] at h
    subst h
    exact ⟨acc', by simp [fieldStep], by simp [namesOf]⟩
  · intro goName tagName dash omitempty embedded type fs hd ih2 ih
    apply accIndep_cons _ _ _ ih
    intro v acc acc' A h
    simp only [fieldStep, if_neg hd, if_true] at h
    obtain ⟨A', h1, h2⟩ := ih2 v acc acc' A h
    exact ⟨A', by simpa [fieldStep, hd] using h1, by simpa [namesOf, hd] using h2⟩
  · intro goName tagName dash omitempty inline embedded type fs hd hi ih
    apply accIndep_cons _ _ _ ih
    intro v acc acc' A h
    simp only [fieldStep, if_neg hd, if_neg hi] at h
    split at h
    · cases h
      refine ⟨_, by simp only [fieldStep, if_neg hd, if_neg hi]; rw [if_pos (by assumption)], ?_⟩
      intro k
      by_cases hk : k = tagName.getD goName
      · subst hk; simp [namesOf, hd, hi, alook_insertSorted_same]
      · simp [namesOf, hd, hi, hk, alook_insertSorted_other _ _ _ hk]
    · rename_i hne
      cases hx : reflectV type v with
      | none => simp [hx] at h
      | some x =>
        simp only [hx, Option.map] at h
        cases h
        refine ⟨insertSorted (tagName.getD goName) (some x) acc', by simp only [fieldStep, if_neg hd, if_neg hi, if_neg hne, hx, Option.map], ?_⟩
        intro k
        by_cases hk : k = tagName.getD goName
        · subst hk; simp [namesOf, hd, hi, alook_insertSorted_same]
        · simp [namesOf, hd, hi, hk, alook_insertSorted_other _ _ _ hk]

/-! ### a struct with one field replaced -/

/-- after a change of the fields collected so far at `key` only, the rest of a struct that has no field
`key` yields the same fields except at `key` -/
theorem rest_frame (fs : List GoField) (vs : List GoVal) (key : String) (hk : key ∉ fieldNames fs)
    (A A' F : Fields) (hF : reflectFields fs vs A = some F) (hA : ∀ k, k ≠ key → alook k A' = alook k A) :
    ∃ F', reflectFields fs vs A' = some F' ∧ (∀ k, k ≠ key → alook k F' = alook k F) ∧
      alook key F' = alook key A' ∧ alook key F = alook key A := by
  obtain ⟨F', h1, h2⟩ := accIndep_all fs vs A A' F hF
  refine ⟨F', h1, ?_, ?_, accIndep_self (accIndep_all fs) hF key hk⟩
  · intro k hne
    rw [h2 k]
    by_cases hm : k ∈ fieldNames fs
    · simp [hm]
    · simp only [hm, if_false]
      rw [hA k hne, accIndep_self (accIndep_all fs) hF k hm]
  · simpa [hk] using h2 key

/-- the entry a field contributes: absent when omitempty and empty -/
def entryOf (o : Bool) (v : GoVal) (x : Option Value) : Option Value :=
  if o && v.isEmptyValue then none else x

/-- the entry as `fieldStep` computes it: `none` when the field cannot be read -/
def entryOf' (o : Bool) (v : GoVal) (x : Option Value) : Option (Option Value) :=
  if o && v.isEmptyValue then some none else x.map some

def PutSpec (key : String) (o : Bool) (ft : GoType) (fv nv : GoVal) (x' : Value) (F : Fields) (F'? : Option Fields) : Prop :=
  (∃ e, entryOf' o fv (reflectV ft fv) = some e ∧ alook key F = some e) ∧
    ∃ F', F'? = some F' ∧ (∀ k, k ≠ key → alook k F' = alook k F) ∧
      alook key F' = some (entryOf o nv (some x'))

theorem putField_spec : ∀ (fs : List GoField) (vals : List GoVal) (key : String),
    ∀ (o : Bool) (ft : GoType) (fv : GoVal) (viaPtr : Bool), getField fs vals key = .hit o ft fv viaPtr →
    ∀ (nv : GoVal) (x' : Value) (acc F : Fields), reflectV ft nv = some x' → reflectFields fs vals acc = some F →
      PutSpec key o ft fv nv x' F (reflectFields fs (putField fs vals key nv) acc) := by
  refine getField.induct
    (motive_1 := fun fs vals key =>
      ∀ (o : Bool) (ft : GoType) (fv : GoVal) (viaPtr : Bool), getField fs vals key = .hit o ft fv viaPtr →
      ∀ (nv : GoVal) (x' : Value) (acc F : Fields), reflectV ft nv = some x' → reflectFields fs vals acc = some F →
        PutSpec key o ft fv nv x' F (reflectFields fs (putField fs vals key nv) acc))
    (motive_2 := fun type v key =>
      ∀ (o : Bool) (ft : GoType) (fv : GoVal) (viaPtr : Bool), getInline type v key = .hit o ft fv viaPtr →
      ∀ (nv : GoVal) (x' : Value) (acc A : Fields), reflectV ft nv = some x' → inlineStep type v acc = some A →
        PutSpec key o ft fv nv x' A (inlineStep type (putInline type v key nv) acc))
    ?_ ?_ ?_ ?_ ?_ ?_ ?_ ?_ ?_ ?_ ?_
  · intro inner ivals key ih o ft fv viaPtr hg nv x' acc A hx hA
    have h1 : getInline (.struct inner) (.struct ivals) key = getField inner ivals key := by simp [getInline]
    have h2 : putInline (.struct inner) (.struct ivals) key nv = .struct (putField inner ivals key nv) := by simp [putInline]
    rw [h1] at hg
    rw [h2]
    simp only [inlineStep] at hA ⊢
    exact ih o ft fv viaPtr hg nv x' acc A hx hA
  · intro inner ivals key ih o ft fv viaPtr hg nv x' acc A hx hA
    have h1 : getInline (.ptr (.struct inner)) (.ptr (.struct ivals)) key = (getField inner ivals key).markViaPtr := by
      simp [getInline]
    have h2 : putInline (.ptr (.struct inner)) (.ptr (.struct ivals)) key nv = .ptr (.struct (putField inner ivals key nv)) := by
      simp [putInline]
    rw [h1] at hg
    rw [h2]
    simp only [inlineStep] at hA ⊢
    cases hgf : getField inner ivals key with
    | noField => simp [hgf, FieldGet.markViaPtr] at hg
    | behindNil => simp [hgf, FieldGet.markViaPtr] at hg
    | hit o2 ft2 fv2 vp2 =>
      simp only [hgf, FieldGet.markViaPtr, FieldGet.hit.injEq] at hg
      obtain ⟨rfl, rfl, rfl, _⟩ := hg
      exact ih _ _ _ vp2 hgf nv x' acc A hx hA
  · intro inner key hc o ft fv viaPtr hg
    simp only [getInline, hc, if_true] at hg
    cases hg
  · intro inner key hc o ft fv viaPtr hg
    simp only [getInline, hc] at hg
    cases hg
  · intro t x key h1 h2 h3 o ft fv viaPtr hg
    unfold getInline at hg
    split at hg <;> first | (exfalso; simp_all; done) | (simp at hg; done)
  · intro goName tagName dash omitempty inline embedded type fs v vs key hc ih o ft fv viaPtr hg nv x' acc F hx hF
    have h1 : getField (.mk goName tagName dash omitempty inline embedded type :: fs) (v :: vs) key = getField fs vs key := by
      simp only [getField, hc, if_true]
    have h2 : putField (.mk goName tagName dash omitempty inline embedded type :: fs) (v :: vs) key nv = v :: putField fs vs key nv := by
      simp only [putField, hc, if_true]
    rw [h1] at hg
    rw [h2, reflectFields_step]
    rw [reflectFields_step] at hF
    cases hA : fieldStep (.mk goName tagName dash omitempty inline embedded type) v acc with
    | none => simp [hA] at hF
    | some A =>
      simp only [hA, Option.bind] at hF ⊢
      exact ih o ft fv viaPtr hg nv x' A F hx hF
  · intro goName tagName omitempty inline embedded type fs v vs key hc o ft fv viaPtr hg
    simp only [getField, hc, if_true] at hg
    cases hg
  · intro goName tagName dash omitempty embedded type fs v vs key hc hd ih o ft fv viaPtr hg nv x' acc F hx hF
    have hk : key ∉ fieldNames fs := by simpa using hc
    have h1 : getField (.mk goName tagName dash omitempty true embedded type :: fs) (v :: vs) key = getInline type v key := by
      simp only [getField, hc, hd, if_true]; rfl
    have h2 : putField (.mk goName tagName dash omitempty true embedded type :: fs) (v :: vs) key nv = putInline type v key nv :: vs := by
      simp only [putField, hc, hd, if_true]; rfl
    rw [h1] at hg
    rw [h2, reflectFields_step]
    rw [reflectFields_step] at hF
    simp only [fieldStep, if_neg hd, if_true] at hF ⊢
    cases hA : inlineStep type v acc with
    | none => simp [hA] at hF
    | some A =>
      simp only [hA, Option.bind] at hF
      obtain ⟨hold, A', hA', hk', hnew⟩ := ih o ft fv viaPtr hg nv x' acc A hx hA
      obtain ⟨F', hF', hF'k, hF'key, hFkey⟩ := rest_frame fs vs key hk A A' F hF hk'
      obtain ⟨e, he1, he2⟩ := hold
      refine ⟨⟨e, he1, by rw [hFkey]; exact he2⟩, F', ?_, hF'k, by rw [hF'key]; exact hnew⟩
      rw [hA']; exact hF'
  · intro goName tagName dash omitempty inline embedded type fs v vs key hc hd hi hname o ft fv viaPtr hg nv x' acc F hx hF
    have hk : key ∉ fieldNames fs := by simpa using hc
    have hname' : tagName.getD goName = key := by simpa using hname
    have h1 : getField (.mk goName tagName dash omitempty inline embedded type :: fs) (v :: vs) key = .hit omitempty type v false := by
      simp only [getField, hc, hd, hi, hname, if_true]; rfl
    have h2 : putField (.mk goName tagName dash omitempty inline embedded type :: fs) (v :: vs) key nv = nv :: vs := by
      simp only [putField, hc, hd, hi, hname, if_true]; rfl
    rw [h1] at hg
    simp only [FieldGet.hit.injEq] at hg
    obtain ⟨rfl, rfl, rfl, _⟩ := hg
    rw [h2, reflectFields_step]
    rw [reflectFields_step] at hF
    have hstep : ∀ (w : GoVal), fieldStep (.mk goName tagName dash omitempty inline embedded type) w acc =
        (entryOf' omitempty w (reflectV type w)).map fun e => insertSorted key e acc := by
      intro w
      simp only [fieldStep, if_neg hd, if_neg hi, hname', entryOf']
      split
      · rfl
      · cases reflectV type w <;> rfl
    rw [hstep] at hF ⊢
    cases hA : entryOf' omitempty v (reflectV type v) with
    | none => simp [hA] at hF
    | some e =>
      simp only [hA, Option.map, Option.bind] at hF
      have hA' : entryOf' omitempty nv (reflectV type nv) = some (entryOf omitempty nv (some x')) := by
        simp only [entryOf', entryOf, hx]
        split <;> rfl
      simp only [hA', Option.map, Option.bind]
      obtain ⟨F', hF', hF'k, hF'key, hFkey⟩ := rest_frame fs vs key hk (insertSorted key e acc)
        (insertSorted key (entryOf omitempty nv (some x')) acc) F hF
        (fun k hne => by rw [alook_insertSorted_other _ _ _ hne, alook_insertSorted_other _ _ _ hne])
      refine ⟨⟨e, hA, ?_⟩, F', hF', hF'k, by rw [hF'key, alook_insertSorted_same]⟩
      rw [hFkey, alook_insertSorted_same]
  · intro goName tagName dash omitempty inline embedded type fs v vs key hc hd hi hname o ft fv viaPtr hg
    simp only [getField, hc, hd, hi, hname] at hg
    cases hg
  · intro t x key hne o ft fv viaPtr hg
    unfold getField at hg
    split at hg
    · exact absurd hg (by exfalso; exact hne _ _ _ _ _ _ _ _ _ _ rfl rfl)
    · simp at hg

end SMD
