/- `Set` / `Delete` on one container: what is stored, and what the library reads afterwards (helper
lemmas for SMD/Properties/C18Set.lean) -/
import SMD.Proofs.ReflectSetNav
namespace SMD

/-! ### generic data stored as Go data reads back as itself -/

theorem ofGeneric_reads_all :
    (∀ (val : Value) (t : GoType) (g : GoVal), ofGeneric val = some (t, g) → reflectV t g = some val) := by
  intro val
  refine ofGeneric.induct
    (motive_1 := fun val => ∀ (t : GoType) (g : GoVal), ofGeneric val = some (t, g) → reflectV t g = some val)
    (motive_2 := fun m => reflectEntries .iface (ofGenericEntries m) = some m)
    (motive_3 := fun l => reflectList .iface (ofGenericList l) = some l)
    ?_ ?_ ?_ ?_ ?_ ?_ ?_ ?_ ?_ ?_ ?_ val
  · intro t g h; simp [ofGeneric] at h
  · intro b t g h; simp [ofGeneric] at h; obtain ⟨rfl, rfl⟩ := h; simp [reflectV]
  · intro i t g h; simp [ofGeneric] at h; obtain ⟨rfl, rfl⟩ := h; simp [reflectV]
  · intro u z t g h; simp [ofGeneric] at h; obtain ⟨rfl, rfl⟩ := h; simp [reflectV]
  · intro s t g h; simp [ofGeneric] at h; obtain ⟨rfl, rfl⟩ := h; simp [reflectV]
  · intro l ih t g h; simp [ofGeneric] at h; obtain ⟨rfl, rfl⟩ := h; simp [reflectV, ih]
  · intro m ih t g h; simp [ofGeneric] at h; obtain ⟨rfl, rfl⟩ := h; simp [reflectV, ih]
  · simp [ofGenericList, reflectList]
  · intro x rest ihx ihr
    simp only [ofGenericList, reflectList]
    cases hx : ofGeneric x with
    | none =>
      have : x = .null := by cases x <;> simp [ofGeneric] at hx; rfl
      subst this
      simp [reflectV, ihr]
    | some p =>
      obtain ⟨t, g⟩ := p
      simp [reflectV, ihx t g hx, ihr]
  · simp [ofGenericEntries, reflectEntries]
  · intro k x rest ihx ihr
    simp only [ofGenericEntries, reflectEntries]
    cases hx : ofGeneric x with
    | none =>
      have : x = .null := by cases x <;> simp [ofGeneric] at hx; rfl
      subst this
      simp [reflectV, ihr]
    | some p =>
      obtain ⟨t, g⟩ := p
      simp [reflectV, ihx t g hx, ihr]

theorem ofGeneric_reads (val : Value) (t : GoType) (g : GoVal) (h : ofGeneric val = some (t, g)) :
    reflectV t g = some val := ofGeneric_reads_all val t g h

theorem ofGeneric_none (val : Value) : ofGeneric val = none ↔ val = .null := by
  cases val <;> simp [ofGeneric]

theorem ofGenericList_isEmpty (l : List Value) : (ofGenericList l).isEmpty = l.isEmpty := by
  cases l <;> simp [ofGenericList]

theorem ofGenericEntries_isEmpty (m : List (String × Value)) : (ofGenericEntries m).isEmpty = m.isEmpty := by
  cases m with
  | nil => simp [ofGenericEntries]
  | cons a rest => obtain ⟨k, x⟩ := a; simp [ofGenericEntries]

theorem ofGeneric_empty (val : Value) (t : GoType) (g : GoVal) (h : ofGeneric val = some (t, g)) :
    g.isEmptyValue = val.isEmptyGeneric := by
  cases val <;> simp [ofGeneric] at h <;> obtain ⟨rfl, rfl⟩ := h <;>
    simp [GoVal.isEmptyValue, Value.isEmptyGeneric, ofGenericList_isEmpty, ofGenericEntries_isEmpty]

theorem genericIdentical_eq (T t : GoType) (h : genericIdentical T t = true) : T = t := by
  unfold genericIdentical at h
  split at h <;> first | rfl | simp at h

/-! ### zero values -/

set_option linter.unusedSimpArgs false in
/-- the zero value of a type is a value of it, whatever the (positive) bound on uints -/
theorem zeroOf_hasType_all (ub : Int) (hub : 0 < ub) : ∀ (T : GoType), GoVal.hasTypeB ub T (zeroOf T) = true := by
  refine zeroOf.induct (motive_1 := fun T => GoVal.hasTypeB ub T (zeroOf T) = true)
    (motive_2 := fun fs => GoVal.fieldsHaveTypeB ub fs (zeroFields fs) = true)
    ?_ ?_ ?_ ?_ ?_ ?_ ?_ ?_ ?_ ?_ ?_ ?_ ?_ ?_
  all_goals first
    | (simp [zeroOf, GoVal.hasTypeB]; done)
    | (simp [zeroOf, GoVal.hasTypeB]; exact hub)
    | (intro t; simp [zeroOf, GoVal.hasTypeB]; done)
    | skip
  · simp [zeroFields, GoVal.fieldsHaveTypeB]
  · intro goName tagName dash omitempty inline embedded type fs ih1 ih2
    simp [zeroFields, GoVal.fieldsHaveTypeB, ih1, ih2]

theorem zeroOf_reads (T : GoType) : ∃ x, reflectV T (zeroOf T) = some x := by
  have := reflectV_total 1 (by decide) (zeroOf T) T (zeroOf_hasType_all 1 (by decide) T)
  exact Option.isSome_iff_exists.1 this

theorem zeroOf_empty (T : GoType) (h : T.isStruct = false) : (zeroOf T).isEmptyValue = true := by
  cases T <;> simp [zeroOf, GoVal.isEmptyValue, GoType.isStruct] at h ⊢

theorem zeroOf_ptr_reads (T : GoType) (h : T.isPtr = true) : reflectV T (zeroOf T) = some .null := by
  cases T <;> simp [GoType.isPtr] at h
  simp [zeroOf, reflectV]

/-! ### what `Set` stores -/

theorem storeAs_spec (T : GoType) (val : Value) (nv : GoVal) (h : storeAs T val = some nv) :
    ∃ x, reflectV T nv = some x ∧ (val ≠ .null → x = val) ∧ (val = .null → nv = zeroOf T) ∧
      (nv.isEmptyValue = true → val.isEmptyGeneric = true) := by
  unfold storeAs at h
  split at h
  · rename_i hg
    have hnull := (ofGeneric_none val).1 hg
    simp only [Option.some.injEq] at h
    subst h
    obtain ⟨x, hx⟩ := zeroOf_reads T
    exact ⟨x, hx, fun hne => absurd hnull hne, fun _ => rfl, fun _ => by rw [hnull]; rfl⟩
  · rename_i t g hg
    have hne : val ≠ .null := by
      intro hn; rw [hn] at hg; simp [ofGeneric] at hg
    split at h
    · simp only [Option.some.injEq] at h
      subst h
      refine ⟨val, by simp only [reflectV]; exact ofGeneric_reads val t g hg, fun _ => rfl,
        fun hn => absurd hn hne, fun he => ?_⟩
      simp [GoVal.isEmptyValue] at he
    · split at h
      · rename_i hid
        simp only [Option.some.injEq] at h
        subst h
        have := genericIdentical_eq _ _ hid
        subst this
        refine ⟨val, ofGeneric_reads val _ _ hg, fun _ => rfl, fun hn => absurd hn hne, fun he => ?_⟩
        rw [← ofGeneric_empty val _ _ hg]; exact he
      · cases h

/-! ### a field behind a nil inlined pointer is absent -/

theorem behindNil_spec : ∀ (fs : List GoField) (vals : List GoVal) (key : String),
    getField fs vals key = .behindNil → ∀ (acc F : Fields), reflectFields fs vals acc = some F →
      alook key F = some none := by
  refine getField.induct
    (motive_1 := fun fs vals key => getField fs vals key = .behindNil →
      ∀ (acc F : Fields), reflectFields fs vals acc = some F → alook key F = some none)
    (motive_2 := fun type v key => getInline type v key = .behindNil →
      ∀ (acc A : Fields), inlineStep type v acc = some A → alook key A = some none)
    ?_ ?_ ?_ ?_ ?_ ?_ ?_ ?_ ?_ ?_ ?_
  · intro inner ivals key ih hg acc A hA
    have h1 : getInline (.struct inner) (.struct ivals) key = getField inner ivals key := by simp [getInline]
    rw [h1] at hg
    simp only [inlineStep] at hA
    exact ih hg acc A hA
  · intro inner ivals key ih hg acc A hA
    have h1 : getInline (.ptr (.struct inner)) (.ptr (.struct ivals)) key = (getField inner ivals key).markViaPtr := by
      simp [getInline]
    rw [h1] at hg
    simp only [inlineStep] at hA
    cases hgf : getField inner ivals key with
    | noField => simp [hgf, FieldGet.markViaPtr] at hg
    | behindNil => exact ih hgf acc A hA
    | hit o2 ft2 fv2 vp2 => simp [hgf, FieldGet.markViaPtr] at hg
  · intro inner key hc _ acc A hA
    have hk : key ∈ fieldNames inner := by simpa using hc
    simp only [inlineStep, Option.some.injEq] at hA
    subst hA
    rw [alook_absent.2]; simp [hk]
  · intro inner key hc hg
    simp only [getInline, hc] at hg
    cases hg
  · intro t x key h1 h2 h3 hg
    unfold getInline at hg
    split at hg <;> first | (exfalso; simp_all; done) | (simp at hg; done)
  · intro goName tagName dash omitempty inline embedded type fs v vs key hc ih hg acc F hF
    have h1 : getField (.mk goName tagName dash omitempty inline embedded type :: fs) (v :: vs) key = getField fs vs key := by
      simp only [getField, hc, if_true]
    rw [h1] at hg
    rw [reflectFields_step] at hF
    cases hA : fieldStep (.mk goName tagName dash omitempty inline embedded type) v acc with
    | none => simp [hA] at hF
    | some A =>
      simp only [hA, Option.bind] at hF
      exact ih hg A F hF
  · intro goName tagName omitempty inline embedded type fs v vs key hc hg
    simp only [getField, hc, if_true] at hg
    cases hg
  · intro goName tagName dash omitempty embedded type fs v vs key hc hd ih hg acc F hF
    have hk : key ∉ fieldNames fs := by simpa using hc
    have h1 : getField (.mk goName tagName dash omitempty true embedded type :: fs) (v :: vs) key = getInline type v key := by
      simp only [getField, hc, hd, if_true]; rfl
    rw [h1] at hg
    rw [reflectFields_step] at hF
    simp only [fieldStep, if_neg hd, if_true] at hF
    cases hA : inlineStep type v acc with
    | none => simp [hA] at hF
    | some A =>
      simp only [hA, Option.bind] at hF
      rw [accIndep_self (accIndep_all fs) hF key hk]
      exact ih hg acc A hA
  · intro goName tagName dash omitempty inline embedded type fs v vs key hc hd hi hname hg
    simp only [getField, hc, hd, hi, hname, if_true] at hg
    cases hg
  · intro goName tagName dash omitempty inline embedded type fs v vs key hc hd hi hname hg
    simp only [getField, hc, hd, hi, hname] at hg
    cases hg
  · intro t x key hne hg
    unfold getField at hg
    split at hg
    · exact absurd hg (by exfalso; exact hne _ _ _ _ _ _ _ _ _ _ rfl rfl)
    · simp at hg

theorem struct_behindNil (fs : List GoField) (vals : List GoVal) (key : String)
    (hg : getField fs vals key = .behindNil) (m : List (String × Value))
    (hm : reflectV (.struct fs) (.struct vals) = some (.map m)) : lookupField key m = none := by
  rw [reflectV_struct_eq] at hm
  cases hF : reflectFields fs vals [] with
  | none => simp [hF] at hm
  | some F =>
    simp only [hF, Option.map, Option.some.injEq, Value.map.injEq] at hm
    subst hm
    have hsF : KSorted F := (reflectFields_inv vals fs [] F hF).1 ksorted_nil
    rw [lookupField_eq_alook, alook_presentFields key F hsF, behindNil_spec fs vals key hg [] F hF]; rfl

/-! ### one container -/

/-- the reading of a container after `Set` / `Delete`: every other entry as before; the entry of the key
as described by `what` -/
structure LocalSpec (key : String) (m m' : List (String × Value)) (what : Option Value → Prop) : Prop where
  others : ∀ k, k ≠ key → lookupField k m' = lookupField k m
  entry : what (lookupField key m')

/-- the entry after `Set(key, val)`: the value stored (`nv`, of the Go type `T` of the field or element)
as the library reads it, absent when the field is omitempty and the stored value empty -/
def SetEntry (val : Value) (e : Option Value) : Prop :=
  ∃ (o : Bool) (T : GoType) (nv : GoVal) (x' : Value),
    storeAs T val = some nv ∧ reflectV T nv = some x' ∧ e = entryOf o nv (some x')

/-- the entry after `Delete(key)`: absent (a Go map entry; an omitempty field whose zero value is empty;
a field behind a nil inlined pointer), or the zero value of a field that is a pointer or omitempty, as
the library reads it -/
def DelEntry (e : Option Value) : Prop :=
  e = none ∨ ∃ (o : Bool) (T : GoType) (x' : Value),
    (T.isPtr || o) = true ∧ reflectV T (zeroOf T) = some x' ∧ e = entryOf o (zeroOf T) (some x')

def OpEntry : MapOp → Option Value → Prop
  | .set val => SetEntry val
  | .del => DelEntry

theorem structOp_spec (fs : List GoField) (vals : List GoVal) (settable : Bool) (key : String) (op : MapOp)
    (out : GoVal) (h : structOp fs vals settable key op = .ok out) (m : List (String × Value))
    (hm : reflectV (.struct fs) (.struct vals) = some (.map m)) :
    ∃ vals' m', out = .struct vals' ∧ reflectV (.struct fs) (.struct vals') = some (.map m') ∧
      LocalSpec key m m' (OpEntry op) := by
  cases op with
  | set val =>
    simp only [structOp] at h
    split at h
    · cases h
    · cases h
    · rename_i o ft fv viaPtr hg
      split at h
      · cases h
      · rename_i nv hst
        split at h
        · simp only [SetOutcome.ok.injEq] at h
          subst h
          obtain ⟨x', hx', _⟩ := storeAs_spec ft val nv hst
          obtain ⟨_, m', hm', _, _, hk, hnew⟩ := struct_put fs vals key o ft fv viaPtr hg nv x' hx' m hm
          exact ⟨_, m', rfl, hm', hk, o, ft, nv, x', hst, hx', hnew⟩
        · cases h
  | del =>
    simp only [structOp] at h
    split at h
    · cases h
    · rename_i hg
      simp only [SetOutcome.ok.injEq] at h
      subst h
      exact ⟨vals, m, rfl, hm, fun _ _ => rfl, Or.inl (struct_behindNil fs vals key hg m hm)⟩
    · rename_i o ft fv viaPtr hg
      split at h
      · rename_i hok
        split at h
        · simp only [SetOutcome.ok.injEq] at h
          subst h
          obtain ⟨x', hx'⟩ := zeroOf_reads ft
          obtain ⟨_, m', hm', _, _, hk, hnew⟩ := struct_put fs vals key o ft fv viaPtr hg (zeroOf ft) x' hx' m hm
          exact ⟨_, m', rfl, hm', hk, Or.inr ⟨o, ft, x', hok, hx', hnew⟩⟩
        · cases h
      · cases h

theorem mapOp_spec (E : GoType) (mm : List (String × GoVal)) (key : String) (op : MapOp)
    (out : GoVal) (h : mapOp E mm key op = .ok out) (m : List (String × Value))
    (hm : reflectV (.map E) (.map mm) = some (.map m)) :
    ∃ mm' m', out = .map mm' ∧ reflectV (.map E) (.map mm') = some (.map m') ∧
      LocalSpec key m m' (OpEntry op) ∧ m'.length = mm'.length ∧ m.length = mm.length := by
  simp only [reflectV] at hm
  cases hr : reflectEntries E mm with
  | none => simp [hr] at hm
  | some r =>
    simp only [hr, Option.map, Option.some.injEq, Value.map.injEq] at hm
    subst hm
    cases op with
    | set val =>
      simp only [mapOp] at h
      split at h
      · cases h
      · rename_i nv hst
        simp only [SetOutcome.ok.injEq] at h
        subst h
        obtain ⟨x', hx', _⟩ := storeAs_spec E val nv hst
        have h2 := reflectEntries_insertSorted E key nv x' hx' mm r hr
        refine ⟨_, insertSorted key x' r, rfl, by simp [reflectV, h2], ⟨?_, ?_⟩,
          reflectEntries_length E _ _ h2, reflectEntries_length E _ _ hr⟩
        · intro k hne
          rw [lookupField_eq_alook, lookupField_eq_alook, alook_insertSorted_other _ _ _ hne]
        · refine ⟨false, E, nv, x', hst, hx', ?_⟩
          rw [lookupField_eq_alook, alook_insertSorted_same]; rfl
    | del =>
      simp only [mapOp, SetOutcome.ok.injEq] at h
      subst h
      have h2 := reflectEntries_eraseKey E key mm r hr
      refine ⟨_, eraseKey key r, rfl, by simp [reflectV, h2], ⟨?_, ?_⟩,
        reflectEntries_length E _ _ h2, reflectEntries_length E _ _ hr⟩
      · intro k hne
        rw [lookupField_eq_alook, lookupField_eq_alook, alook_eraseKey_other _ _ hne]
      · left
        rw [lookupField_eq_alook, alook_eraseKey_same]

/-- `Set` / `Delete` on the container a path leads to -/
theorem localOp_spec (key : String) (op : MapOp) (tgt : Target) (cv' : GoVal)
    (h : localOp key op tgt = .ok cv') (c : Value) (hc : reflectV tgt.type tgt.val = some c) :
    ∃ m m', c = .map m ∧ reflectV tgt.type cv' = some (.map m') ∧ LocalSpec key m m' (OpEntry op) ∧
      (((∃ val, op = .set val) ∨ tgt.isStruct = true ∨ (m' = [] → m = [])) →
        cv'.isEmptyValue = true → tgt.val.isEmptyValue = true) := by
  cases tgt with
  | struct fs vals settable =>
    simp only [Target.type, Target.val] at hc ⊢
    obtain ⟨m, rfl⟩ := reflectV_struct_is_map hc
    obtain ⟨vals', m', hout, hm', hs⟩ := structOp_spec fs vals settable key op cv' h m hc
    subst hout
    exact ⟨m, m', rfl, hm', hs, fun _ he => by simp [GoVal.isEmptyValue] at he⟩
  | goMap E mm =>
    simp only [Target.type, Target.val] at hc ⊢
    have : ∃ m, c = .map m := by
      simp only [reflectV] at hc
      cases hr : reflectEntries E mm with
      | none => simp [hr] at hc
      | some r => simp [hr] at hc; exact ⟨r, hc.symm⟩
    obtain ⟨m, rfl⟩ := this
    obtain ⟨mm', m', hout, hm', hs, hl', hl⟩ := mapOp_spec E mm key op cv' h m hc
    subst hout
    refine ⟨m, m', rfl, hm', hs, fun hemp he => ?_⟩
    simp only [GoVal.isEmptyValue, List.isEmpty_iff] at he ⊢
    subst he
    have hm'nil : m' = [] := List.eq_nil_of_length_eq_zero (by simpa using hl')
    rcases hemp with ⟨val, hop⟩ | hst | hemp
    · exfalso
      subst hop
      simp only [localOp, mapOp] at h
      split at h
      · cases h
      · simp only [SetOutcome.ok.injEq, GoVal.map.injEq] at h
        have := congrArg List.length h
        cases mm with
        | nil => simp [insertSorted] at this
        | cons a rest =>
          obtain ⟨k', a'⟩ := a
          simp only [insertSorted] at this
          split at this
          · simp at this
          · split at this <;> simp at this
    · simp [Target.isStruct] at hst
    · have := hemp hm'nil
      subst this
      exact List.eq_nil_of_length_eq_zero (by simpa using hl.symm)

end SMD
