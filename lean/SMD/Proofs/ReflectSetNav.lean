/- the reading of a struct / Go map / slice with one field / element replaced, and of the root after
`modifyAt` (helper lemmas for SMD/Properties/C18Set.lean) -/
import SMD.Proofs.ReflectSetLemmas
namespace SMD

/-! ### a struct with one field replaced, as the library reads it -/

theorem reflectV_struct_eq (fs : List GoField) (vals : List GoVal) :
    reflectV (.struct fs) (.struct vals) = (reflectFields fs vals []).map fun F => .map (presentFields F) := by
  simp [reflectV]

theorem ksorted_nil {α : Type} : KSorted ([] : List (String × α)) := List.Pairwise.nil

/-- the old entry of the field is what `Get` sees; with the field replaced by `nv` (read as `x'`) every
other entry is as before, the entry of the field is `x'` unless omitted -/
theorem struct_put (fs : List GoField) (vals : List GoVal) (key : String) (o : Bool) (ft : GoType)
    (fv : GoVal) (viaPtr : Bool) (hg : getField fs vals key = .hit o ft fv viaPtr)
    (nv : GoVal) (x' : Value) (hx : reflectV ft nv = some x')
    (m : List (String × Value)) (hm : reflectV (.struct fs) (.struct vals) = some (.map m)) :
    (∃ e, entryOf' o fv (reflectV ft fv) = some e ∧ lookupField key m = e) ∧
    ∃ m', reflectV (.struct fs) (.struct (putField fs vals key nv)) = some (.map m') ∧
      KSorted m ∧ KSorted m' ∧
      (∀ k, k ≠ key → lookupField k m' = lookupField k m) ∧
      lookupField key m' = entryOf o nv (some x') := by
  rw [reflectV_struct_eq] at hm
  cases hF : reflectFields fs vals [] with
  | none => simp [hF] at hm
  | some F =>
    simp only [hF, Option.map, Option.some.injEq, Value.map.injEq] at hm
    subst hm
    have hsF : KSorted F := (reflectFields_inv vals fs [] F hF).1 ksorted_nil
    obtain ⟨⟨e, he1, he2⟩, F', hF', hk, hnew⟩ := putField_spec fs vals key o ft fv viaPtr hg nv x' [] F hx hF
    have hsF' : KSorted F' := (reflectFields_inv _ fs [] F' hF').1 ksorted_nil
    refine ⟨⟨e, he1, ?_⟩, presentFields F', ?_, presentFields_sorted F hsF, presentFields_sorted F' hsF', ?_, ?_⟩
    · rw [lookupField_eq_alook, alook_presentFields key F hsF, he2]; rfl
    · rw [reflectV_struct_eq, hF']; rfl
    · intro k hne
      rw [lookupField_eq_alook, lookupField_eq_alook, alook_presentFields k F hsF,
        alook_presentFields k F' hsF', hk k hne]
    · rw [lookupField_eq_alook, alook_presentFields key F' hsF', hnew]; rfl

/-! ### Go maps and slices with one element replaced -/

theorem reflectEntries_replaceFirst (E : GoType) (k : String) (ev' : GoVal) (x' : Value)
    (hx : reflectV E ev' = some x') :
    ∀ (m : List (String × GoVal)) (r : List (String × Value)) (ev : GoVal),
      reflectEntries E m = some r → alook k m = some ev →
      (∃ x, reflectV E ev = some x ∧ alook k r = some x) ∧
      reflectEntries E (replaceFirst k ev' m) = some (replaceFirst k x' r)
  | [], r, ev, _, hl => by simp [alook] at hl
  | (k', v) :: rest, r, ev, hr, hl => by
    simp only [reflectEntries] at hr
    cases hv : reflectV E v with
    | none => simp [hv] at hr
    | some xv =>
      cases hrest : reflectEntries E rest with
      | none => simp [hv, hrest] at hr
      | some rr =>
        simp only [hv, hrest, Option.some.injEq] at hr
        subst hr
        simp only [alook] at hl
        simp only [replaceFirst]
        split
        · rename_i heq
          simp only [heq, if_true, Option.some.injEq] at hl
          subst hl
          refine ⟨⟨xv, hv, by simp [alook, heq]⟩, ?_⟩
          simp [reflectEntries, hx, hrest]
        · rename_i hne
          simp only [hne] at hl
          obtain ⟨h1, h2⟩ := reflectEntries_replaceFirst E k ev' x' hx rest rr ev hrest hl
          refine ⟨by simpa [alook, hne] using h1, ?_⟩
          simp [reflectEntries, hv, h2]

theorem reflectEntries_insertSorted (E : GoType) (k : String) (nv : GoVal) (x : Value)
    (hx : reflectV E nv = some x) :
    ∀ (m : List (String × GoVal)) (r : List (String × Value)),
      reflectEntries E m = some r → reflectEntries E (insertSorted k nv m) = some (insertSorted k x r)
  | [], r, hr => by
    simp [reflectEntries] at hr; subst hr
    simp [insertSorted, reflectEntries, hx]
  | (k', v) :: rest, r, hr => by
    simp only [reflectEntries] at hr
    cases hv : reflectV E v with
    | none => simp [hv] at hr
    | some xv =>
      cases hrest : reflectEntries E rest with
      | none => simp [hv, hrest] at hr
      | some rr =>
        simp only [hv, hrest, Option.some.injEq] at hr
        subst hr
        simp only [insertSorted]
        split
        · simp [reflectEntries, hx, hv, hrest]
        · split
          · simp [reflectEntries, hx, hrest]
          · simp [reflectEntries, hv, reflectEntries_insertSorted E k nv x hx rest rr hrest]

theorem reflectEntries_eraseKey (E : GoType) (k : String) :
    ∀ (m : List (String × GoVal)) (r : List (String × Value)),
      reflectEntries E m = some r → reflectEntries E (eraseKey k m) = some (eraseKey k r)
  | [], r, hr => by
    simp [reflectEntries] at hr; subst hr
    simp [eraseKey, reflectEntries]
  | (k', v) :: rest, r, hr => by
    simp only [reflectEntries] at hr
    cases hv : reflectV E v with
    | none => simp [hv] at hr
    | some xv =>
      cases hrest : reflectEntries E rest with
      | none => simp [hv, hrest] at hr
      | some rr =>
        simp only [hv, hrest, Option.some.injEq] at hr
        subst hr
        simp only [eraseKey]
        split
        · exact reflectEntries_eraseKey E k rest rr hrest
        · simp [reflectEntries, hv, reflectEntries_eraseKey E k rest rr hrest]

theorem reflectList_set (E : GoType) (ev' : GoVal) (x' : Value) (hx : reflectV E ev' = some x') :
    ∀ (l : List GoVal) (r : List Value) (i : Nat) (ev : GoVal),
      reflectList E l = some r → l[i]? = some ev →
      (∃ x, reflectV E ev = some x ∧ r[i]? = some x) ∧
      reflectList E (l.set i ev') = some (r.set i x')
  | [], r, i, ev, _, hl => by simp at hl
  | v :: rest, r, i, ev, hr, hl => by
    simp only [reflectList] at hr
    cases hv : reflectV E v with
    | none => simp [hv] at hr
    | some xv =>
      cases hrest : reflectList E rest with
      | none => simp [hv, hrest] at hr
      | some rr =>
        simp only [hv, hrest, Option.some.injEq] at hr
        subst hr
        cases i with
        | zero =>
          simp only [List.getElem?_cons_zero, Option.some.injEq] at hl
          subst hl
          exact ⟨⟨xv, hv, by simp⟩, by simp [reflectList, hx, hrest]⟩
        | succ j =>
          simp only [List.getElem?_cons_succ] at hl
          obtain ⟨h1, h2⟩ := reflectList_set E ev' x' hx rest rr j ev hrest hl
          exact ⟨by simpa using h1, by simp [reflectList, hv, h2]⟩

theorem reflectEntries_length (E : GoType) : ∀ (m : List (String × GoVal)) (r : List (String × Value)),
    reflectEntries E m = some r → r.length = m.length
  | [], r, hr => by simp [reflectEntries] at hr; subst hr; rfl
  | (k', v) :: rest, r, hr => by
    simp only [reflectEntries] at hr
    cases hv : reflectV E v with
    | none => simp [hv] at hr
    | some xv =>
      cases hrest : reflectEntries E rest with
      | none => simp [hv, hrest] at hr
      | some rr =>
        simp only [hv, hrest, Option.some.injEq] at hr
        subst hr
        simp [reflectEntries_length E rest rr hrest]

/-! ### through pointers and interfaces -/

theorem derefOf_other (t : GoType) (v : GoVal) (addr : Bool)
    (h1 : ∀ t1 v1, t = GoType.ptr t1 → v = GoVal.ptr v1 → False)
    (h2 : ∀ t1 v1, t = GoType.iface → v = GoVal.iface t1 v1 → False) :
    derefOf t v addr = (t, v, addr) := by
  unfold derefOf
  split
  · exact absurd rfl (fun h => h1 _ _ rfl h)
  · exact absurd rfl (fun h => h2 _ _ rfl h)
  · rfl

theorem rewrap_other (t : GoType) (v inner : GoVal)
    (h1 : ∀ t1 v1, t = GoType.ptr t1 → v = GoVal.ptr v1 → False)
    (h2 : ∀ t1 v1, t = GoType.iface → v = GoVal.iface t1 v1 → False) :
    rewrap t v inner = inner := by
  unfold rewrap
  split
  · exact absurd rfl (fun h => h1 _ _ rfl h)
  · exact absurd rfl (fun h => h2 _ _ rfl h)
  · rfl

/-- the wrappers do not change the reading, and a value behind a pointer or in an interface is never
empty -/
theorem derefOf_spec : ∀ (t : GoType) (v : GoVal) (addr : Bool),
    reflectV t v = reflectV (derefOf t v addr).1 (derefOf t v addr).2.1 ∧
    ∀ inner, reflectV t (rewrap t v inner) = reflectV (derefOf t v addr).1 inner ∧
      ((inner.isEmptyValue = true → (derefOf t v addr).2.1.isEmptyValue = true) →
        (rewrap t v inner).isEmptyValue = true → v.isEmptyValue = true) := by
  intro t v addr
  induction t, v, addr using derefOf.induct with
  | case1 t v x ih =>
    have e1 : derefOf (.ptr t) (.ptr v) x = derefOf t v true := by simp [derefOf]
    rw [e1]
    refine ⟨by simp only [reflectV]; exact ih.1, fun inner => ?_⟩
    have e2 : rewrap (.ptr t) (.ptr v) inner = .ptr (rewrap t v inner) := by simp [rewrap]
    rw [e2]
    refine ⟨by simp only [reflectV]; exact (ih.2 inner).1, fun _ h => ?_⟩
    simp [GoVal.isEmptyValue] at h
  | case2 t v x ih =>
    have e1 : derefOf .iface (.iface t v) x = derefOf t v false := by simp [derefOf]
    rw [e1]
    refine ⟨by simp only [reflectV]; exact ih.1, fun inner => ?_⟩
    have e2 : rewrap .iface (.iface t v) inner = .iface t (rewrap t v inner) := by simp [rewrap]
    rw [e2]
    refine ⟨by simp only [reflectV]; exact (ih.2 inner).1, fun _ h => ?_⟩
    simp [GoVal.isEmptyValue] at h
  | case3 t v addr h1 h2 =>
    rw [derefOf_other t v addr h1 h2]
    refine ⟨rfl, fun inner => ?_⟩
    rw [rewrap_other t v inner h1 h2]
    exact ⟨rfl, fun h => h⟩

/-! ### one step -/

theorem entryOf'_visible {o : Bool} {fv : GoVal} {r : Option Value} {e : Option Value}
    (hvis : ¬ (o && fv.isEmptyValue) = true) (he : entryOf' o fv r = some e) : r = e ∧ ∃ x, e = some x := by
  simp only [entryOf', if_neg hvis] at he
  cases r with
  | none => simp at he
  | some x => simp at he; subst he; exact ⟨rfl, x, rfl⟩

theorem struct_get (fs : List GoField) (vals : List GoVal) (key : String) (o : Bool) (ft : GoType)
    (fv : GoVal) (viaPtr : Bool) (hg : getField fs vals key = .hit o ft fv viaPtr)
    (m : List (String × Value)) (hm : reflectV (.struct fs) (.struct vals) = some (.map m)) :
    ∃ e, entryOf' o fv (reflectV ft fv) = some e ∧ lookupField key m = e :=
  (struct_put fs vals key o ft fv viaPtr hg .nil .null (by simp [reflectV]) m hm).1

theorem reflectV_struct_is_map {fs : List GoField} {vals : List GoVal} {R : Value}
    (hR : reflectV (.struct fs) (.struct vals) = some R) : ∃ m, R = .map m := by
  rw [reflectV_struct_eq] at hR
  cases hF : reflectFields fs vals [] with
  | none => simp [hF] at hR
  | some F => simp [hF] at hR; exact ⟨_, hR.symm⟩

theorem stepChild_struct (k : String) (fs : List GoField) (vals : List GoVal) (o : Bool) (ft : GoType)
    (fv : GoVal) (viaPtr : Bool) (hg : getField fs vals k = .hit o ft fv viaPtr)
    (hvis : ¬ (o && fv.isEmptyValue) = true) (R : Value)
    (hR : reflectV (.struct fs) (.struct vals) = some R) :
    ∃ x, reflectV ft fv = some x ∧ R.child (.key k) = some x ∧
      ∀ cv' x', reflectV ft cv' = some x' → (cv'.isEmptyValue = true → fv.isEmptyValue = true) →
        reflectV (.struct fs) (.struct (putField fs vals k cv')) = some (R.setChild (.key k) x') := by
  obtain ⟨m, rfl⟩ := reflectV_struct_is_map hR
  obtain ⟨e, he1, he2⟩ := struct_get fs vals k o ft fv viaPtr hg m hR
  obtain ⟨hre, x, hx⟩ := entryOf'_visible hvis he1
  subst hx
  refine ⟨x, hre, by simpa [Value.child] using he2, ?_⟩
  intro cv' x' hx' hemp
  obtain ⟨_, m', hm', hs, hs', hk, hnew⟩ := struct_put fs vals k o ft fv viaPtr hg cv' x' hx' m hR
  rw [hm']
  have hvis' : ¬ (o && cv'.isEmptyValue) = true := by
    intro h
    apply hvis
    simp only [Bool.and_eq_true] at h ⊢
    exact ⟨h.1, hemp h.2⟩
  simp only [entryOf, if_neg hvis'] at hnew
  simp only [Value.setChild, Option.some.injEq, Value.map.injEq]
  apply ksorted_ext _ _ hs' (replaceFirst_sorted k x' m hs)
  intro j
  by_cases hj : j = k
  · subst hj
    rw [← lookupField_eq_alook, hnew, alook_replaceFirst_same]
    rw [← lookupField_eq_alook, he2]; rfl
  · rw [alook_replaceFirst_other _ _ _ hj, ← lookupField_eq_alook, ← lookupField_eq_alook, hk j hj]

theorem stepChild_map (k : String) (E : GoType) (m : List (String × GoVal)) (ev : GoVal)
    (hl : goLookup k m = some ev) (R : Value) (hR : reflectV (.map E) (.map m) = some R) :
    ∃ x, reflectV E ev = some x ∧ R.child (.key k) = some x ∧
      ∀ cv' x', reflectV E cv' = some x' →
        reflectV (.map E) (.map (replaceFirst k cv' m)) = some (R.setChild (.key k) x') := by
  simp only [reflectV] at hR
  cases hr : reflectEntries E m with
  | none => simp [hr] at hR
  | some r =>
    simp only [hr, Option.map, Option.some.injEq] at hR
    subst hR
    rw [goLookup_eq_alook] at hl
    obtain ⟨⟨x, hx1, hx2⟩, _⟩ := reflectEntries_replaceFirst E k .nil .null (by simp [reflectV]) m r ev hr hl
    refine ⟨x, hx1, by simpa [Value.child, lookupField_eq_alook] using hx2, ?_⟩
    intro cv' x' hx'
    obtain ⟨_, h2⟩ := reflectEntries_replaceFirst E k cv' x' hx' m r ev hr hl
    simp [reflectV, h2, Value.setChild]

theorem stepChild_slice (i : Nat) (E : GoType) (l : List GoVal) (ev : GoVal)
    (hl : l[i]? = some ev) (R : Value) (hR : reflectV (.slice E) (.slice l) = some R) :
    ∃ x, reflectV E ev = some x ∧ R.child (.index i) = some x ∧
      ∀ cv' x', reflectV E cv' = some x' →
        reflectV (.slice E) (.slice (l.set i cv')) = some (R.setChild (.index i) x') := by
  simp only [reflectV] at hR
  cases hr : reflectList E l with
  | none => simp [hr] at hR
  | some r =>
    simp only [hr, Option.map, Option.some.injEq] at hR
    subst hR
    obtain ⟨⟨x, hx1, hx2⟩, _⟩ := reflectList_set E .nil .null (by simp [reflectV]) l r i ev hr hl
    refine ⟨x, hx1, by simpa [Value.child] using hx2, ?_⟩
    intro cv' x' hx'
    obtain ⟨_, h2⟩ := reflectList_set E cv' x' hx' l r i ev hr hl
    simp [reflectV, h2, Value.setChild]

/-- the child a step leads to is the child the same step leads to in the reading; replacing it by a
value that is not omitted where the old one was not replaces that child in the reading -/
theorem stepChild_spec (s : Step) (t' : GoType) (v' : GoVal) (addr' : Bool) (c : Child) (R : Value)
    (hc : stepChild s t' v' addr' = some c) (hR : reflectV t' v' = some R) :
    ∃ x, reflectV c.type c.val = some x ∧ R.child s = some x ∧
      ∀ cv' x', reflectV c.type cv' = some x' → (cv'.isEmptyValue = true → c.val.isEmptyValue = true) →
        reflectV t' (c.put cv') = some (R.setChild s x') ∧
        ((c.put cv').isEmptyValue = true → v'.isEmptyValue = true) := by
  induction s, t', v', addr' using stepChild.fun_cases with
  | case1 k fs vals addr o t v viaPtr hg hvis =>
    simp [stepChild, hg, hvis] at hc
  | case2 k fs vals addr o t v viaPtr hg hvis =>
    simp only [stepChild, hg, if_neg hvis, Option.some.injEq] at hc
    subst hc
    obtain ⟨x, h1, h2, h3⟩ := stepChild_struct k fs vals o t v viaPtr hg hvis R hR
    refine ⟨x, h1, h2, fun cv' x' hx' hemp => ⟨h3 cv' x' hx' hemp, ?_⟩⟩
    intro h; simp [GoVal.isEmptyValue] at h
  | case3 k fs vals addr hn =>
    unfold stepChild at hc
    split at hc
    · exact absurd (by assumption) (hn _ _ _ _)
    · cases hc
  | case4 k E m x ev hl =>
    simp only [stepChild, hl, Option.some.injEq] at hc
    subst hc
    obtain ⟨x, h1, h2, h3⟩ := stepChild_map k E m ev hl R hR
    refine ⟨x, h1, h2, fun cv' x' hx' _ => ⟨h3 cv' x' hx', ?_⟩⟩
    intro h
    have hlen : ∀ (m : List (String × GoVal)), (replaceFirst k cv' m).isEmpty = m.isEmpty := by
      intro m; cases m with
      | nil => rfl
      | cons a rest => obtain ⟨k', a'⟩ := a; simp only [replaceFirst]; split <;> rfl
    simpa [GoVal.isEmptyValue, hlen] using h
  | case5 k E m x hl =>
    simp [stepChild, hl] at hc
  | case6 i E l x ev hl =>
    simp only [stepChild, hl, Option.some.injEq] at hc
    subst hc
    obtain ⟨x, h1, h2, h3⟩ := stepChild_slice i E l ev hl R hR
    refine ⟨x, h1, h2, fun cv' x' hx' _ => ⟨h3 cv' x' hx', ?_⟩⟩
    intro h
    simpa [GoVal.isEmptyValue] using h
  | case7 i E l x hl =>
    simp [stepChild, hl] at hc
  | case8 s t v a h1 h2 h3 =>
    unfold stepChild at hc
    split at hc <;> first | (exfalso; simp_all; done) | cases hc

/-! ### a child that becomes empty under an omitempty field disappears -/

theorem mem_eraseKey {α : Type} (k : String) : ∀ (l : List (String × α)) (b : String × α),
    b ∈ eraseKey k l → b ∈ l
  | [], b, h => by simp [eraseKey] at h
  | (k', a') :: rest, b, h => by
    simp only [eraseKey] at h
    split at h
    · exact List.mem_cons_of_mem _ (mem_eraseKey k rest b h)
    · rcases List.mem_cons.1 h with h | h
      · subst h; simp
      · exact List.mem_cons_of_mem _ (mem_eraseKey k rest b h)

theorem eraseKey_sorted {α : Type} (k : String) : ∀ (l : List (String × α)), KSorted l → KSorted (eraseKey k l)
  | [], _ => by simp [eraseKey, KSorted]
  | (k', a') :: rest, hs => by
    have hp := List.pairwise_cons.1 hs
    simp only [eraseKey]
    split
    · exact eraseKey_sorted k rest hp.2
    · exact List.pairwise_cons.2 ⟨fun b hb => hp.1 b (mem_eraseKey k rest b hb), eraseKey_sorted k rest hp.2⟩

/-- a field that becomes omitted -/
theorem stepChild_struct_erase (k : String) (fs : List GoField) (vals : List GoVal) (o : Bool) (ft : GoType)
    (fv : GoVal) (viaPtr : Bool) (hg : getField fs vals k = .hit o ft fv viaPtr) (R : Value)
    (hR : reflectV (.struct fs) (.struct vals) = some R)
    (cv' : GoVal) (x' : Value) (hx' : reflectV ft cv' = some x') (hom : (o && cv'.isEmptyValue) = true) :
    reflectV (.struct fs) (.struct (putField fs vals k cv')) = some (R.eraseChild (.key k)) := by
  obtain ⟨m, rfl⟩ := reflectV_struct_is_map hR
  obtain ⟨_, m', hm', hs, hs', hk, hnew⟩ := struct_put fs vals k o ft fv viaPtr hg cv' x' hx' m hR
  rw [hm']
  simp only [entryOf, if_pos hom] at hnew
  simp only [Value.eraseChild, Option.some.injEq, Value.map.injEq]
  apply ksorted_ext _ _ hs' (eraseKey_sorted k m hs)
  intro j
  by_cases hj : j = k
  · subst hj
    rw [← lookupField_eq_alook, hnew, alook_eraseKey_same]
  · rw [alook_eraseKey_other _ _ hj, ← lookupField_eq_alook, ← lookupField_eq_alook, hk j hj]

theorem replaceFirst_isEmpty {α : Type} (k : String) (a : α) (l : List (String × α)) :
    (replaceFirst k a l).isEmpty = l.isEmpty := by
  cases l with
  | nil => rfl
  | cons b rest => obtain ⟨k', a'⟩ := b; simp only [replaceFirst]; split <;> rfl

/-- a parent is empty after a step's `put` only if it was empty before (it never is) -/
theorem stepChild_put_empty (s : Step) (t' : GoType) (v' : GoVal) (addr' : Bool) (c : Child)
    (hc : stepChild s t' v' addr' = some c) (cv' : GoVal) :
    (c.put cv').isEmptyValue = true → v'.isEmptyValue = true := by
  induction s, t', v', addr' using stepChild.fun_cases with
  | case1 k fs vals addr o t v viaPtr hg hvis => simp [stepChild, hg, hvis] at hc
  | case2 k fs vals addr o t v viaPtr hg hvis =>
    simp only [stepChild, hg, if_neg hvis, Option.some.injEq] at hc
    subst hc
    intro h; simp [GoVal.isEmptyValue] at h
  | case3 k fs vals addr hn =>
    unfold stepChild at hc
    split at hc
    · exact absurd (by assumption) (hn _ _ _ _)
    · cases hc
  | case4 k E m x ev hl =>
    simp only [stepChild, hl, Option.some.injEq] at hc
    subst hc
    intro h
    simpa [GoVal.isEmptyValue, replaceFirst_isEmpty] using h
  | case5 k E m x hl => simp [stepChild, hl] at hc
  | case6 i E l x ev hl =>
    simp only [stepChild, hl, Option.some.injEq] at hc
    subst hc
    intro h
    simpa [GoVal.isEmptyValue] using h
  | case7 i E l x hl => simp [stepChild, hl] at hc
  | case8 s t v a h1 h2 h3 =>
    unfold stepChild at hc
    split at hc <;> first | (exfalso; simp_all; done) | cases hc

/-- replacing a child by one that may be omitted: the child is replaced in the reading, or its entry
disappears (an omitempty struct field whose value became empty) -/
theorem stepChild_spec_any (s : Step) (t' : GoType) (v' : GoVal) (addr' : Bool) (c : Child) (R : Value)
    (hc : stepChild s t' v' addr' = some c) (hR : reflectV t' v' = some R)
    (cv' : GoVal) (x' : Value) (hx' : reflectV c.type cv' = some x') :
    reflectV t' (c.put cv') = some (R.setChild s x') ∨
      (cv'.isEmptyValue = true ∧ c.val.isEmptyValue = false ∧ reflectV t' (c.put cv') = some (R.eraseChild s)) := by
  induction s, t', v', addr' using stepChild.fun_cases with
  | case1 k fs vals addr o t v viaPtr hg hvis => simp [stepChild, hg, hvis] at hc
  | case2 k fs vals addr o t v viaPtr hg hvis =>
    simp only [stepChild, hg, if_neg hvis, Option.some.injEq] at hc
    subst hc
    by_cases hom : (o && cv'.isEmptyValue) = true
    · right
      simp only [Bool.and_eq_true] at hom
      refine ⟨hom.2, ?_, stepChild_struct_erase k fs vals o t v viaPtr hg R hR cv' x' hx' (by simp [hom])⟩
      cases hv : v.isEmptyValue with
      | false => rfl
      | true => exact absurd (by simp [hom.1, hv]) hvis
    · left
      obtain ⟨m, rfl⟩ := reflectV_struct_is_map hR
      obtain ⟨⟨e, he1, he2⟩, m', hm', hs, hs', hk, hnew⟩ := struct_put fs vals k o t v viaPtr hg cv' x' hx' m hR
      obtain ⟨_, x0, hx0⟩ := entryOf'_visible hvis he1
      subst hx0
      show reflectV (.struct fs) (.struct (putField fs vals k cv')) = _
      rw [hm']
      simp only [entryOf, if_neg hom] at hnew
      simp only [Value.setChild, Option.some.injEq, Value.map.injEq]
      apply ksorted_ext _ _ hs' (replaceFirst_sorted k x' m hs)
      intro j
      by_cases hj : j = k
      · subst hj
        rw [← lookupField_eq_alook, hnew, alook_replaceFirst_same]
        rw [← lookupField_eq_alook, he2]; rfl
      · rw [alook_replaceFirst_other _ _ _ hj, ← lookupField_eq_alook, ← lookupField_eq_alook, hk j hj]
  | case3 k fs vals addr hn =>
    unfold stepChild at hc
    split at hc
    · exact absurd (by assumption) (hn _ _ _ _)
    · cases hc
  | case4 k E m x ev hl =>
    simp only [stepChild, hl, Option.some.injEq] at hc
    subst hc
    obtain ⟨x, _, _, h3⟩ := stepChild_map k E m ev hl R hR
    exact Or.inl (h3 cv' x' hx')
  | case5 k E m x hl => simp [stepChild, hl] at hc
  | case6 i E l x ev hl =>
    simp only [stepChild, hl, Option.some.injEq] at hc
    subst hc
    obtain ⟨x, _, _, h3⟩ := stepChild_slice i E l ev hl R hR
    exact Or.inl (h3 cv' x' hx')
  | case7 i E l x hl => simp [stepChild, hl] at hc
  | case8 s t v a h1 h2 h3 =>
    unfold stepChild at hc
    split at hc <;> first | (exfalso; simp_all; done) | cases hc

/-! ### the whole path -/

theorem mapRoot_ok {g : GoVal → GoVal} {o : SetOutcome} {out : GoVal} (h : o.mapRoot g = .ok out) :
    ∃ o', o = .ok o' ∧ out = g o' := by
  cases o with
  | ok o' => simp only [SetOutcome.mapRoot, SetOutcome.ok.injEq] at h; exact ⟨o', rfl, h.symm⟩
  | refused => simp [SetOutcome.mapRoot] at h
  | panic => simp [SetOutcome.mapRoot] at h

theorem targetOf_spec (t' : GoType) (v' : GoVal) (s : Bool) (tgt : Target) (h : targetOf t' v' s = some tgt) :
    tgt.type = t' ∧ tgt.val = v' := by
  induction t', v', s using targetOf.fun_cases with
  | case1 fs vals settable => simp only [targetOf, Option.some.injEq] at h; subst h; exact ⟨rfl, rfl⟩
  | case2 E m x => simp only [targetOf, Option.some.injEq] at h; subst h; exact ⟨rfl, rfl⟩
  | case3 t v x h1 h2 =>
    unfold targetOf at h
    split at h <;> first | (exfalso; simp_all; done) | cases h

/-- `modifyAt` succeeds only on a container the path resolves to; that container is what the same path
leads to in the reading of the root; when the new container is not omitted where the old one was not, the
reading of the new root is the old reading with the reading of the new container in its place -/
theorem modifyAt_frame (f : Target → SetOutcome) : ∀ (path : List Step) (t : GoType) (v : GoVal)
    (addr pm : Bool) (out : GoVal), modifyAt f path t v addr pm = .ok out →
    ∃ tgt cv', resolve path t v addr pm = some tgt ∧ f tgt = .ok cv' ∧
      ∀ R, reflectV t v = some R →
        (∃ c, reflectV tgt.type tgt.val = some c ∧ R.at path = some c) ∧
        ∀ c', reflectV tgt.type cv' = some c' → (cv'.isEmptyValue = true → tgt.val.isEmptyValue = true) →
          reflectV t out = some (R.replaceAt path c') ∧ (out.isEmptyValue = true → v.isEmptyValue = true)
  | [], t, v, addr, pm, out, h => by
    have hd := derefOf_spec t v addr
    simp only [modifyAt, resolve] at h ⊢
    generalize derefOf t v addr = d at h hd ⊢
    obtain ⟨t', v', addr'⟩ := d
    simp only at h hd ⊢
    cases htg : targetOf t' v' (addr' || pm) with
    | none => simp [htg] at h
    | some tgt =>
      simp only [htg] at h
      obtain ⟨cv', hf, hout⟩ := mapRoot_ok h
      obtain ⟨ht1, ht2⟩ := targetOf_spec t' v' _ tgt htg
      refine ⟨tgt, cv', rfl, hf, ?_⟩
      intro R hR
      rw [ht1, ht2]
      refine ⟨⟨R, by rw [← hd.1]; exact hR, rfl⟩, ?_⟩
      intro c' hc' hemp
      subst hout
      refine ⟨?_, (hd.2 cv').2 hemp⟩
      rw [(hd.2 cv').1]; exact hc'
  | s :: rest, t, v, addr, pm, out, h => by
    have hd := derefOf_spec t v addr
    simp only [modifyAt, resolve] at h ⊢
    generalize derefOf t v addr = d at h hd ⊢
    obtain ⟨t', v', addr'⟩ := d
    simp only at h hd ⊢
    cases hc : stepChild s t' v' addr' with
    | none => simp [hc] at h
    | some c =>
      simp only [hc] at h ⊢
      obtain ⟨out1, h1, hout⟩ := mapRoot_ok h
      obtain ⟨tgt, cv', hres, hf, hrest⟩ := modifyAt_frame f rest c.type c.val c.addr c.pm out1 h1
      refine ⟨tgt, cv', hres, hf, ?_⟩
      intro R hR
      rw [hd.1] at hR
      obtain ⟨x, hx1, hx2, hx3⟩ := stepChild_spec s t' v' addr' c R hc hR
      obtain ⟨⟨cc, hcc1, hcc2⟩, hrep⟩ := hrest x hx1
      refine ⟨⟨cc, hcc1, by simp only [Value.at, hx2]; exact hcc2⟩, ?_⟩
      intro c' hc' hemp
      obtain ⟨hr1, hr2⟩ := hrep c' hc' hemp
      obtain ⟨hp1, hp2⟩ := hx3 out1 (x.replaceAt rest c') hr1 hr2
      subst hout
      refine ⟨?_, (hd.2 (c.put out1)).2 hp2⟩
      rw [(hd.2 (c.put out1)).1, hp1]
      simp only [Value.replaceAt, hx2]

/-- the outcome without the new root -/
def SetOutcome.shape : SetOutcome → SetOutcome
  | .ok _ => .ok .nil
  | .refused => .refused
  | .panic => .panic

theorem shape_mapRoot (g : GoVal → GoVal) (o : SetOutcome) : (o.mapRoot g).shape = o.shape := by
  cases o <;> rfl

/-- what `modifyAt` answers is what `f` answers on the container the path resolves to; it refuses when
the path resolves to none -/
theorem modifyAt_shape (f : Target → SetOutcome) : ∀ (path : List Step) (t : GoType) (v : GoVal)
    (addr pm : Bool), (modifyAt f path t v addr pm).shape =
      match resolve path t v addr pm with
      | some tgt => (f tgt).shape
      | none => .refused
  | [], t, v, addr, pm => by
    simp only [modifyAt, resolve]
    generalize derefOf t v addr = d
    obtain ⟨t', v', addr'⟩ := d
    simp only
    cases targetOf t' v' (addr' || pm) with
    | none => rfl
    | some tgt => simp only [shape_mapRoot]
  | s :: rest, t, v, addr, pm => by
    simp only [modifyAt, resolve]
    generalize derefOf t v addr = d
    obtain ⟨t', v', addr'⟩ := d
    simp only
    cases stepChild s t' v' addr' with
    | none => rfl
    | some c => simp only [shape_mapRoot]; exact modifyAt_shape f rest c.type c.val c.addr c.pm

theorem eraseAt_cons_nonempty (R : Value) (s : Step) (rest : List Step) (hne : rest ≠ []) (x : Value)
    (hx : R.child s = some x) : R.eraseAt (s :: rest) = R.setChild s (x.eraseAt rest) := by
  have : rest.isEmpty = false := by cases rest <;> simp_all
  simp only [Value.eraseAt, this, hx]; rfl

/-- whatever becomes of the emptiness of the container: the reading of the new root is the old reading
with the new container in its place, or (the container became empty directly under an omitempty struct
field) with the container's entry removed from its parent -/
theorem modifyAt_frame_any (f : Target → SetOutcome) : ∀ (path : List Step) (t : GoType) (v : GoVal)
    (addr pm : Bool) (out : GoVal), modifyAt f path t v addr pm = .ok out →
    ∃ tgt cv', resolve path t v addr pm = some tgt ∧ f tgt = .ok cv' ∧
      ∀ R, reflectV t v = some R → ∀ c', reflectV tgt.type cv' = some c' →
        (reflectV t out = some (R.replaceAt path c') ∨
          (path ≠ [] ∧ reflectV t out = some (R.eraseAt path))) ∧
        (path ≠ [] → out.isEmptyValue = true → v.isEmptyValue = true)
  | [], t, v, addr, pm, out, h => by
    obtain ⟨tgt, cv', hres, hf, hrest⟩ := modifyAt_frame f [] t v addr pm out h
    refine ⟨tgt, cv', hres, hf, fun R hR c' hc' => ⟨Or.inl ?_, fun hne => absurd rfl hne⟩⟩
    have hd := derefOf_spec t v addr
    simp only [modifyAt, resolve] at h hres
    generalize derefOf t v addr = d at h hd hres
    obtain ⟨t', v', addr'⟩ := d
    simp only at h hd hres
    simp only [hres] at h
    obtain ⟨cv'', hf', hout⟩ := mapRoot_ok h
    rw [hf] at hf'
    cases hf'
    obtain ⟨ht1, _⟩ := targetOf_spec t' v' _ tgt hres
    subst hout
    rw [(hd.2 cv').1, ← ht1]
    exact hc'
  | s :: rest, t, v, addr, pm, out, h => by
    have hd := derefOf_spec t v addr
    simp only [modifyAt, resolve] at h ⊢
    generalize derefOf t v addr = d at h hd ⊢
    obtain ⟨t', v', addr'⟩ := d
    simp only at h hd ⊢
    cases hc : stepChild s t' v' addr' with
    | none => simp [hc] at h
    | some c =>
      simp only [hc] at h ⊢
      obtain ⟨out1, h1, hout⟩ := mapRoot_ok h
      obtain ⟨tgt, cv', hres, hf, hrest⟩ := modifyAt_frame_any f rest c.type c.val c.addr c.pm out1 h1
      refine ⟨tgt, cv', hres, hf, ?_⟩
      intro R hR c' hc'
      rw [hd.1] at hR
      obtain ⟨x, hx1, hx2, _⟩ := stepChild_spec s t' v' addr' c R hc hR
      obtain ⟨hread, hemp⟩ := hrest x hx1 c' hc'
      subst hout
      refine ⟨?_, fun _ he => (hd.2 (c.put out1)).2 (stepChild_put_empty s t' v' addr' c hc out1) he⟩
      rw [(hd.2 (c.put out1)).1]
      have key : ∀ y, reflectV c.type out1 = some y →
          reflectV t' (c.put out1) = some (R.setChild s y) ∨
            (rest = [] ∧ reflectV t' (c.put out1) = some (R.eraseChild s)) := by
        intro y hy
        rcases stepChild_spec_any s t' v' addr' c R hc hR out1 y hy with h | ⟨he1, he2, h⟩
        · exact Or.inl h
        · by_cases hr : rest = []
          · exact Or.inr ⟨hr, h⟩
          · have := hemp hr he1
            rw [he2] at this
            cases this
      rcases hread with hy | ⟨hne, hy⟩
      · rcases key _ hy with hk | ⟨hr, hk⟩
        · left; rw [hk]; simp only [Value.replaceAt, hx2]
        · right
          subst hr
          exact ⟨by simp, by rw [hk]; simp [Value.eraseAt]⟩
      · rcases key _ hy with hk | ⟨hr, _⟩
        · right
          exact ⟨by simp, by rw [hk, eraseAt_cons_nonempty R s rest hne x hx2]⟩
        · exact absurd hr hne

end SMD
