/- `Set` / `Delete` on reflected data keep the Go data well typed (helper lemmas for
SMD/Properties/C18Set.lean) -/
import SMD.Proofs.ReflectSetLocal
namespace SMD

/-! ### what is stored has the type of the place -/

theorem ofGeneric_hasType (ub : Int) (val : Value) : ∀ (t : GoType) (g : GoVal), ofGeneric val = some (t, g) →
    GoVal.hasTypeB ub t g = true := by
  refine ofGeneric.induct
    (motive_1 := fun val => ∀ (t : GoType) (g : GoVal), ofGeneric val = some (t, g) → GoVal.hasTypeB ub t g = true)
    (motive_2 := fun m => GoVal.entriesHaveTypeB ub .iface (ofGenericEntries m) = true)
    (motive_3 := fun l => GoVal.allHaveTypeB ub .iface (ofGenericList l) = true)
    ?_ ?_ ?_ ?_ ?_ ?_ ?_ ?_ ?_ ?_ ?_ val
  · intro t g h; simp [ofGeneric] at h
  · intro b t g h; simp [ofGeneric] at h; obtain ⟨rfl, rfl⟩ := h; simp [GoVal.hasTypeB]
  · intro i t g h; simp [ofGeneric] at h; obtain ⟨rfl, rfl⟩ := h; simp [GoVal.hasTypeB]
  · intro u z t g h; simp [ofGeneric] at h; obtain ⟨rfl, rfl⟩ := h; simp [GoVal.hasTypeB]
  · intro s t g h; simp [ofGeneric] at h; obtain ⟨rfl, rfl⟩ := h; simp [GoVal.hasTypeB]
  · intro l ih t g h; simp [ofGeneric] at h; obtain ⟨rfl, rfl⟩ := h; simpa [GoVal.hasTypeB] using ih
  · intro m ih t g h; simp [ofGeneric] at h; obtain ⟨rfl, rfl⟩ := h; simpa [GoVal.hasTypeB] using ih
  · simp [ofGenericList, GoVal.allHaveTypeB]
  · intro x rest ihx ihr
    simp only [ofGenericList, GoVal.allHaveTypeB, Bool.and_eq_true]
    refine ⟨?_, ihr⟩
    cases hx : ofGeneric x with
    | none => simp [GoVal.hasTypeB]
    | some p => obtain ⟨t, g⟩ := p; simpa [GoVal.hasTypeB] using ihx t g hx
  · simp [ofGenericEntries, GoVal.entriesHaveTypeB]
  · intro k x rest ihx ihr
    simp only [ofGenericEntries, GoVal.entriesHaveTypeB, Bool.and_eq_true]
    refine ⟨?_, ihr⟩
    cases hx : ofGeneric x with
    | none => simp [GoVal.hasTypeB]
    | some p => obtain ⟨t, g⟩ := p; simpa [GoVal.hasTypeB] using ihx t g hx

theorem storeAs_hasType (ub : Int) (hub : 0 < ub) (T : GoType) (val : Value) (nv : GoVal) (h : storeAs T val = some nv) :
    GoVal.hasTypeB ub T nv = true := by
  unfold storeAs at h
  split at h
  · simp only [Option.some.injEq] at h
    subst h
    exact zeroOf_hasType_all ub hub T
  · rename_i t g hg
    split at h
    · simp only [Option.some.injEq] at h
      subst h
      simpa [GoVal.hasTypeB] using ofGeneric_hasType ub val t g hg
    · split at h
      · rename_i hid
        simp only [Option.some.injEq] at h
        subst h
        rw [genericIdentical_eq _ _ hid]
        exact ofGeneric_hasType ub val t g hg
      · cases h

/-! ### fields -/

theorem fieldsHaveType_cons (ub : Int) (f : GoField) (fs : List GoField) (v : GoVal) (vs : List GoVal) :
    GoVal.fieldsHaveTypeB ub (f :: fs) (v :: vs) = (GoVal.hasTypeB ub f.type v && GoVal.fieldsHaveTypeB ub fs vs) := by
  obtain ⟨goName, tagName, dash, omitempty, inline, embedded, type⟩ := f
  simp [GoVal.fieldsHaveTypeB, GoField.type]

theorem field_typed (ub : Int) : ∀ (fs : List GoField) (vals : List GoVal) (key : String),
    GoVal.fieldsHaveTypeB ub fs vals = true →
    ∀ (o : Bool) (ft : GoType) (fv : GoVal) (viaPtr : Bool), getField fs vals key = .hit o ft fv viaPtr →
      GoVal.hasTypeB ub ft fv = true ∧
      ∀ nv, GoVal.hasTypeB ub ft nv = true → GoVal.fieldsHaveTypeB ub fs (putField fs vals key nv) = true := by
  refine getField.induct
    (motive_1 := fun fs vals key => GoVal.fieldsHaveTypeB ub fs vals = true →
      ∀ (o : Bool) (ft : GoType) (fv : GoVal) (viaPtr : Bool), getField fs vals key = .hit o ft fv viaPtr →
        GoVal.hasTypeB ub ft fv = true ∧
        ∀ nv, GoVal.hasTypeB ub ft nv = true → GoVal.fieldsHaveTypeB ub fs (putField fs vals key nv) = true)
    (motive_2 := fun type v key => GoVal.hasTypeB ub type v = true →
      ∀ (o : Bool) (ft : GoType) (fv : GoVal) (viaPtr : Bool), getInline type v key = .hit o ft fv viaPtr →
        GoVal.hasTypeB ub ft fv = true ∧
        ∀ nv, GoVal.hasTypeB ub ft nv = true → GoVal.hasTypeB ub type (putInline type v key nv) = true)
    ?_ ?_ ?_ ?_ ?_ ?_ ?_ ?_ ?_ ?_ ?_
  · intro inner ivals key ih ht o ft fv viaPtr hg
    have h1 : getInline (.struct inner) (.struct ivals) key = getField inner ivals key := by simp [getInline]
    rw [h1] at hg
    obtain ⟨h2, h3⟩ := ih (by simpa [GoVal.hasTypeB] using ht) o ft fv viaPtr hg
    refine ⟨h2, fun nv hnv => ?_⟩
    have e : putInline (.struct inner) (.struct ivals) key nv = .struct (putField inner ivals key nv) := by
      simp [putInline]
    rw [e]; simpa [GoVal.hasTypeB] using h3 nv hnv
  · intro inner ivals key ih ht o ft fv viaPtr hg
    have h1 : getInline (.ptr (.struct inner)) (.ptr (.struct ivals)) key = (getField inner ivals key).markViaPtr := by
      simp [getInline]
    rw [h1] at hg
    cases hgf : getField inner ivals key with
    | noField => simp [hgf, FieldGet.markViaPtr] at hg
    | behindNil => simp [hgf, FieldGet.markViaPtr] at hg
    | hit o2 ft2 fv2 vp2 =>
      simp only [hgf, FieldGet.markViaPtr, FieldGet.hit.injEq] at hg
      obtain ⟨rfl, rfl, rfl, _⟩ := hg
      obtain ⟨h2, h3⟩ := ih (by simpa [GoVal.hasTypeB] using ht) _ _ _ vp2 hgf
      refine ⟨h2, fun nv hnv => ?_⟩
      have e : putInline (.ptr (.struct inner)) (.ptr (.struct ivals)) key nv = .ptr (.struct (putField inner ivals key nv)) := by
        simp [putInline]
      rw [e]; simpa [GoVal.hasTypeB] using h3 nv hnv
  · intro inner key hc _ o ft fv viaPtr hg
    simp only [getInline, hc, if_true] at hg
    cases hg
  · intro inner key hc _ o ft fv viaPtr hg
    simp only [getInline, hc] at hg
    cases hg
  · intro t x key h1 h2 h3 _ o ft fv viaPtr hg
    unfold getInline at hg
    split at hg <;> first | (exfalso; simp_all; done) | (simp at hg; done)
  · intro goName tagName dash omitempty inline embedded type fs v vs key hc ih ht o ft fv viaPtr hg
    have h1 : getField (.mk goName tagName dash omitempty inline embedded type :: fs) (v :: vs) key = getField fs vs key := by
      simp only [getField, hc, if_true]
    have h2 : ∀ nv, putField (.mk goName tagName dash omitempty inline embedded type :: fs) (v :: vs) key nv = v :: putField fs vs key nv := by
      intro nv; simp only [putField, hc, if_true]
    rw [h1] at hg
    rw [fieldsHaveType_cons ub, Bool.and_eq_true] at ht
    obtain ⟨h3, h4⟩ := ih ht.2 o ft fv viaPtr hg
    refine ⟨h3, fun nv hnv => ?_⟩
    rw [h2, fieldsHaveType_cons ub, Bool.and_eq_true]
    exact ⟨ht.1, h4 nv hnv⟩
  · intro goName tagName omitempty inline embedded type fs v vs key hc _ o ft fv viaPtr hg
    simp only [getField, hc, if_true] at hg
    cases hg
  · intro goName tagName dash omitempty embedded type fs v vs key hc hd ih ht o ft fv viaPtr hg
    have h1 : getField (.mk goName tagName dash omitempty true embedded type :: fs) (v :: vs) key = getInline type v key := by
      simp only [getField, hc, hd, if_true]; rfl
    have h2 : ∀ nv, putField (.mk goName tagName dash omitempty true embedded type :: fs) (v :: vs) key nv = putInline type v key nv :: vs := by
      intro nv; simp only [putField, hc, hd, if_true]; rfl
    rw [h1] at hg
    rw [fieldsHaveType_cons ub, Bool.and_eq_true] at ht
    obtain ⟨h3, h4⟩ := ih ht.1 o ft fv viaPtr hg
    refine ⟨h3, fun nv hnv => ?_⟩
    rw [h2, fieldsHaveType_cons ub, Bool.and_eq_true]
    exact ⟨h4 nv hnv, ht.2⟩
  · intro goName tagName dash omitempty inline embedded type fs v vs key hc hd hi hname ht o ft fv viaPtr hg
    have h1 : getField (.mk goName tagName dash omitempty inline embedded type :: fs) (v :: vs) key = .hit omitempty type v false := by
      simp only [getField, hc, hd, hi, hname, if_true]; rfl
    have h2 : ∀ nv, putField (.mk goName tagName dash omitempty inline embedded type :: fs) (v :: vs) key nv = nv :: vs := by
      intro nv; simp only [putField, hc, hd, hi, hname, if_true]; rfl
    rw [h1] at hg
    simp only [FieldGet.hit.injEq] at hg
    obtain ⟨rfl, rfl, rfl, _⟩ := hg
    rw [fieldsHaveType_cons ub, Bool.and_eq_true] at ht
    refine ⟨ht.1, fun nv hnv => ?_⟩
    rw [h2, fieldsHaveType_cons ub, Bool.and_eq_true]
    exact ⟨hnv, ht.2⟩
  · intro goName tagName dash omitempty inline embedded type fs v vs key hc hd hi hname _ o ft fv viaPtr hg
    simp only [getField, hc, hd, hi, hname] at hg
    cases hg
  · intro t x key hne _ o ft fv viaPtr hg
    unfold getField at hg
    split at hg
    · exact absurd hg (by exfalso; exact hne _ _ _ _ _ _ _ _ _ _ rfl rfl)
    · simp at hg

/-! ### maps and slices -/

theorem entries_typed (ub : Int) (E : GoType) (k : String) : ∀ (m : List (String × GoVal)),
    GoVal.entriesHaveTypeB ub E m = true →
    (∀ ev, alook k m = some ev → GoVal.hasTypeB ub E ev = true) ∧
    (∀ nv, GoVal.hasTypeB ub E nv = true → GoVal.entriesHaveTypeB ub E (replaceFirst k nv m) = true ∧
      GoVal.entriesHaveTypeB ub E (insertSorted k nv m) = true) ∧
    GoVal.entriesHaveTypeB ub E (eraseKey k m) = true
  | [], _ => by
    refine ⟨fun ev h => by simp [alook] at h, fun nv hnv => ?_, by simp [eraseKey, GoVal.entriesHaveTypeB]⟩
    simp [replaceFirst, insertSorted, GoVal.entriesHaveTypeB, hnv]
  | (k', v) :: rest, h => by
    simp only [GoVal.entriesHaveTypeB, Bool.and_eq_true] at h
    obtain ⟨ih1, ih2, ih3⟩ := entries_typed ub E k rest h.2
    refine ⟨?_, fun nv hnv => ⟨?_, ?_⟩, ?_⟩
    · intro ev hev
      simp only [alook] at hev
      split at hev
      · cases hev; exact h.1
      · exact ih1 ev hev
    · simp only [replaceFirst]
      split
      · simp [GoVal.entriesHaveTypeB, hnv, h.2]
      · simp [GoVal.entriesHaveTypeB, h.1, (ih2 nv hnv).1]
    · simp only [insertSorted]
      split
      · simp [GoVal.entriesHaveTypeB, hnv, h.1, h.2]
      · split
        · simp [GoVal.entriesHaveTypeB, hnv, h.2]
        · simp [GoVal.entriesHaveTypeB, h.1, (ih2 nv hnv).2]
    · simp only [eraseKey]
      split
      · exact ih3
      · simp [GoVal.entriesHaveTypeB, h.1, ih3]

theorem list_typed (ub : Int) (E : GoType) : ∀ (l : List GoVal) (i : Nat), GoVal.allHaveTypeB ub E l = true →
    (∀ ev, l[i]? = some ev → GoVal.hasTypeB ub E ev = true) ∧
    (∀ nv, GoVal.hasTypeB ub E nv = true → GoVal.allHaveTypeB ub E (l.set i nv) = true)
  | [], i, _ => ⟨fun ev h => by simp at h, fun nv _ => by simp [GoVal.allHaveTypeB]⟩
  | v :: rest, i, h => by
    simp only [GoVal.allHaveTypeB, Bool.and_eq_true] at h
    cases i with
    | zero =>
      refine ⟨fun ev hev => ?_, fun nv hnv => by simp [GoVal.allHaveTypeB, hnv, h.2]⟩
      simp only [List.getElem?_cons_zero, Option.some.injEq] at hev
      subst hev; exact h.1
    | succ j =>
      obtain ⟨ih1, ih2⟩ := list_typed ub E rest j h.2
      refine ⟨fun ev hev => ih1 ev (by simpa using hev), fun nv hnv => ?_⟩
      simp [GoVal.allHaveTypeB, h.1, ih2 nv hnv]

/-! ### steps, wrappers, containers, paths -/

theorem stepChild_typed (ub : Int) (s : Step) (t' : GoType) (v' : GoVal) (addr' : Bool) (c : Child)
    (hc : stepChild s t' v' addr' = some c) (ht : GoVal.hasTypeB ub t' v' = true) :
    GoVal.hasTypeB ub c.type c.val = true ∧
    ∀ cv', GoVal.hasTypeB ub c.type cv' = true → GoVal.hasTypeB ub t' (c.put cv') = true := by
  induction s, t', v', addr' using stepChild.fun_cases with
  | case1 k fs vals addr o t v viaPtr hg hvis => simp [stepChild, hg, hvis] at hc
  | case2 k fs vals addr o t v viaPtr hg hvis =>
    simp only [stepChild, hg, if_neg hvis, Option.some.injEq] at hc
    subst hc
    obtain ⟨h1, h2⟩ := field_typed ub fs vals k (by simpa [GoVal.hasTypeB] using ht) o t v viaPtr hg
    exact ⟨h1, fun cv' hcv => by simpa [GoVal.hasTypeB] using h2 cv' hcv⟩
  | case3 k fs vals addr hn =>
    unfold stepChild at hc
    split at hc
    · exact absurd (by assumption) (hn _ _ _ _)
    · cases hc
  | case4 k E m x ev hl =>
    simp only [stepChild, hl, Option.some.injEq] at hc
    subst hc
    obtain ⟨h1, h2, _⟩ := entries_typed ub E k m (by simpa [GoVal.hasTypeB] using ht)
    rw [goLookup_eq_alook] at hl
    exact ⟨h1 ev hl, fun cv' hcv => by simpa [GoVal.hasTypeB] using (h2 cv' hcv).1⟩
  | case5 k E m x hl => simp [stepChild, hl] at hc
  | case6 i E l x ev hl =>
    simp only [stepChild, hl, Option.some.injEq] at hc
    subst hc
    obtain ⟨h1, h2⟩ := list_typed ub E l i (by simpa [GoVal.hasTypeB] using ht)
    exact ⟨h1 ev hl, fun cv' hcv => by simpa [GoVal.hasTypeB] using h2 cv' hcv⟩
  | case7 i E l x hl => simp [stepChild, hl] at hc
  | case8 s t v a h1 h2 h3 =>
    unfold stepChild at hc
    split at hc <;> first | (exfalso; simp_all; done) | cases hc

theorem derefOf_typed (ub : Int) : ∀ (t : GoType) (v : GoVal) (addr : Bool), GoVal.hasTypeB ub t v = true →
    GoVal.hasTypeB ub (derefOf t v addr).1 (derefOf t v addr).2.1 = true ∧
    ∀ inner, GoVal.hasTypeB ub (derefOf t v addr).1 inner = true → GoVal.hasTypeB ub t (rewrap t v inner) = true := by
  intro t v addr
  induction t, v, addr using derefOf.induct with
  | case1 t v x ih =>
    intro ht
    have e1 : derefOf (.ptr t) (.ptr v) x = derefOf t v true := by simp [derefOf]
    rw [e1]
    obtain ⟨h1, h2⟩ := ih (by simpa [GoVal.hasTypeB] using ht)
    refine ⟨h1, fun inner hi => ?_⟩
    have e2 : rewrap (.ptr t) (.ptr v) inner = .ptr (rewrap t v inner) := by simp [rewrap]
    rw [e2]; simpa [GoVal.hasTypeB] using h2 inner hi
  | case2 t v x ih =>
    intro ht
    have e1 : derefOf .iface (.iface t v) x = derefOf t v false := by simp [derefOf]
    rw [e1]
    obtain ⟨h1, h2⟩ := ih (by simpa [GoVal.hasTypeB] using ht)
    refine ⟨h1, fun inner hi => ?_⟩
    have e2 : rewrap .iface (.iface t v) inner = .iface t (rewrap t v inner) := by simp [rewrap]
    rw [e2]; simpa [GoVal.hasTypeB] using h2 inner hi
  | case3 t v addr h1 h2 =>
    intro ht
    rw [derefOf_other t v addr h1 h2]
    refine ⟨ht, fun inner hi => ?_⟩
    rw [rewrap_other t v inner h1 h2]; exact hi

theorem localOp_typed (ub : Int) (hub : 0 < ub) (key : String) (op : MapOp) (tgt : Target) (cv' : GoVal)
    (h : localOp key op tgt = .ok cv') (ht : GoVal.hasTypeB ub tgt.type tgt.val = true) :
    GoVal.hasTypeB ub tgt.type cv' = true := by
  cases tgt with
  | struct fs vals settable =>
    simp only [Target.type, Target.val] at ht ⊢
    have htf : GoVal.fieldsHaveTypeB ub fs vals = true := by simpa [GoVal.hasTypeB] using ht
    cases op with
    | set val =>
      simp only [localOp, structOp] at h
      split at h
      · cases h
      · cases h
      · rename_i o ft fv viaPtr hg
        split at h
        · cases h
        · rename_i nv hst
          split at h
          · simp only [SetOutcome.ok.injEq] at h
            subst h
            simpa [GoVal.hasTypeB] using (field_typed ub fs vals key htf o ft fv viaPtr hg).2 nv (storeAs_hasType ub hub ft val nv hst)
          · cases h
    | del =>
      simp only [localOp, structOp] at h
      split at h
      · cases h
      · simp only [SetOutcome.ok.injEq] at h
        subst h; exact ht
      · rename_i o ft fv viaPtr hg
        split at h
        · split at h
          · simp only [SetOutcome.ok.injEq] at h
            subst h
            simpa [GoVal.hasTypeB] using (field_typed ub fs vals key htf o ft fv viaPtr hg).2 _ (zeroOf_hasType_all ub hub ft)
          · cases h
        · cases h
  | goMap E m =>
    simp only [Target.type, Target.val] at ht ⊢
    obtain ⟨_, h2, h3⟩ := entries_typed ub E key m (by simpa [GoVal.hasTypeB] using ht)
    cases op with
    | set val =>
      simp only [localOp, mapOp] at h
      split at h
      · cases h
      · rename_i nv hst
        simp only [SetOutcome.ok.injEq] at h
        subst h
        simpa [GoVal.hasTypeB] using (h2 nv (storeAs_hasType ub hub E val nv hst)).2
    | del =>
      simp only [localOp, mapOp, SetOutcome.ok.injEq] at h
      subst h
      simpa [GoVal.hasTypeB] using h3

theorem modifyAt_typed (ub : Int) (hub : 0 < ub) (key : String) (op : MapOp) : ∀ (path : List Step) (t : GoType) (v : GoVal)
    (addr pm : Bool) (out : GoVal), modifyAt (localOp key op) path t v addr pm = .ok out →
    GoVal.hasTypeB ub t v = true → GoVal.hasTypeB ub t out = true
  | [], t, v, addr, pm, out, h, ht => by
    have hd := derefOf_typed ub t v addr ht
    simp only [modifyAt] at h
    generalize derefOf t v addr = d at h hd
    obtain ⟨t', v', addr'⟩ := d
    simp only at h hd
    cases htg : targetOf t' v' (addr' || pm) with
    | none => simp [htg] at h
    | some tgt =>
      simp only [htg] at h
      obtain ⟨cv', hf, hout⟩ := mapRoot_ok h
      obtain ⟨ht1, ht2⟩ := targetOf_spec t' v' _ tgt htg
      subst hout
      apply hd.2
      rw [← ht1]
      exact localOp_typed ub hub key op tgt cv' hf (by rw [ht1, ht2]; exact hd.1)
  | s :: rest, t, v, addr, pm, out, h, ht => by
    have hd := derefOf_typed ub t v addr ht
    simp only [modifyAt] at h
    generalize derefOf t v addr = d at h hd
    obtain ⟨t', v', addr'⟩ := d
    simp only at h hd
    cases hc : stepChild s t' v' addr' with
    | none => simp [hc] at h
    | some c =>
      simp only [hc] at h
      obtain ⟨out1, h1, hout⟩ := mapRoot_ok h
      obtain ⟨hc1, hc2⟩ := stepChild_typed ub s t' v' addr' c hc hd.1
      subst hout
      exact hd.2 _ (hc2 out1 (modifyAt_typed ub hub key op rest c.type c.val c.addr c.pm out1 h1 hc1))

end SMD
