/-
Removal along a path that designates a node (`Along`), without any hypothesis on the removed set but
membership of the path: the path designates nothing afterwards (`removeV_drops_along`), and the field set
of what is left has no member at or beneath the path (`removeV_fs_avoids`).  The lists on the way declare
no schema default for their key fields, so an item that loses a key field loses its identity and cannot be
taken for another one (this replaces the hypothesis `KeysGuarded` of `removeV_drops`).
-/
import SMD.Proofs.PruneLaws
import SMD.Proofs.PartitionDisjoint
import SMD.Proofs.ReconcileLaws
set_option linter.unusedSimpArgs false
set_option linter.unusedVariables false
set_option linter.unnecessarySimpa false
namespace SMD
namespace NodeLaws
open SetTrie CmpX Part

/-! ### after removing a set that contains the path, the path designates nothing -/

theorem removeV_drops_along {s : Schema} {tr : TypeRef} {v : Value} {p : Path} {trx : TypeRef} {x : Value}
    (hal : Along s tr v p trx x) : ∀ (S : SetTrie), validateV s true tr v = .ok () →
    keysScalar s tr v = true → S.wf = true → S.has p = true →
    Nodes.valueAt s tr (outToValue (removeV s false tr S v)) p = none := by
  induction hal with
  | nil tr v => intro S _ _ _ hp; simp [has_nil] at hp
  | @field tr a mt m k c rest tr' x hres ha hat hl hal' ih =>
    intro S hv hks hw hp
    obtain ⟨a', mt', hres', ha', hvf⟩ := validateV_map_inv hv
    rw [hres] at hres'; cases hres'
    rw [ha] at ha'; cases ha'
    rcases outToValue_removeV_map_cases S m hres ha with h | h
    · rw [h]; exact valueAt_null_cons _ _ _ _
    · rw [h, valueAt_cons, childAt_map _ k hres ha, lookupField_removeFields]
      by_cases h1 : S.has [PE.field k] = true
      · simp [h1]
      · by_cases hr : rest = []
        · subst hr; exact absurd hp h1
        · have hsub : has rest (S.withPrefix (PE.field k)) = true := by
            rw [has_withPrefix_cons _ S _ hr]; exact hp
          have h2 : (S.withPrefix (PE.field k)).isEmpty = false := not_isEmpty_of_has hsub
          rw [if_neg h1, if_pos h2, hl]
          simp only [Option.map_some]
          exact ih _ (validateFields_mem s true mt m hvf (k, c) (mem_of_lookupField hl))
            (keysScalar_map_child s tr a mt m hres ha hat hks k c hl) (wf_withPrefix _ S hw) hsub
  | @item tr a lt l1 c l2 pe rest tr' x hres ha hrel hnd hhit h1 h2 hal' ih =>
    intro S hv hks hw hp
    obtain ⟨a', lt', hres', ha', hitems⟩ := validateV_list_inv hv
    rw [hres] at hres'; cases hres'
    rw [ha] at ha'; cases ha'
    have hat : lt.rel ≠ "atomic" := by rw [hrel]; decide
    have hall := validateItems_assoc s true lt hrel _ [] 0 hitems
    have hksl := keysScalar_list_items s tr a lt _ hres ha hat hks
    obtain ⟨hpe, _, id, hid, heq⟩ := hitOf_inv hhit
    rcases outToValue_removeV_list_cases S (l1 ++ c :: l2) hres ha with h | h
    · rw [h]; exact valueAt_null_cons _ _ _ _
    · rw [h, valueAt_cons, childAt_list _ pe hres ha hpe]
      cases hi : Nodes.itemAt s lt pe (removeItems s false lt S (l1 ++ c :: l2)) with
      | none => rfl
      | some x' =>
        simp only [Option.map_some]
        obtain ⟨m1, m2, hl', _, hhit'⟩ := itemAt_some_inv s lt pe x' _ hi
        have hx'mem : x' ∈ removeItems s false lt S (l1 ++ c :: l2) := by rw [hl']; simp
        rw [removeItems_eq_flatMap] at hx'mem
        obtain ⟨y, hy, hx'⟩ := List.mem_flatMap.1 hx'mem
        have hhity := hit_of_mem_remItem_nodefault hrel hnd (hall y hy).2 (hksl y hy).1 hx' hhit'
        -- the item designated is the one on the way
        have hyc : y = c := by
          rcases List.mem_append.1 hy with hy | hy
          · rw [h1 y hy] at hhity; cases hhity
          · rcases List.mem_cons.1 hy with rfl | hy
            · rfl
            · rw [h2 y hy] at hhity; cases hhity
        subst hyc
        have hpeq : peOf s lt y = id := peOf_of_identity hrel hid
        have hp' : has (id :: rest) S = true := by rw [has_congr_head heq rest S]; exact hp
        obtain ⟨hnot, hcase⟩ := mem_remItem hx'
        rw [hpeq] at hnot hcase
        by_cases hr : rest = []
        · subst hr; rw [hp'] at hnot; cases hnot
        · have hsub : has rest (S.withPrefix id) = true := by
            rw [has_withPrefix_cons _ S _ hr]; exact hp'
          rcases hcase with ⟨_, rfl⟩ | ⟨hemp, _⟩
          · exact ih _ (hall y hy).2 (hksl y hy).2 (wf_withPrefix _ S hw) hsub
          · rw [has_of_isEmpty rest _ hemp] at hsub; cases hsub

/-! ### the types on the way, independently of the object -/

/-- a key or a value element -/
def isKV : PE → Bool
  | .key _ => true
  | .value _ => true
  | _ => false

/-- the elements of the path are fields, keys or values; the maps the fields of the path select from are
not atomic; the lists the keys and values of the path select from are associative and declare no schema
default for a key field -/
def TyAlong (s : Schema) : TypeRef → Path → Prop
  | _, [] => True
  | tr, pe :: rest =>
    ((∃ k, pe = .field k) ∨ isKV pe = true) ∧
    ∀ a, s.resolve tr = some a →
      (∀ k, pe = .field k → ∀ mt, a.map = some mt → mt.rel ≠ "atomic" ∧ TyAlong s (fieldType mt k) rest) ∧
      (isKV pe = true → ∀ lt, a.list = some lt →
        lt.rel = "associative" ∧ noKeyDefault s lt = true ∧ TyAlong s lt.elementType rest)

theorem identity_isKV {s : Schema} {t : ListT} {c : Value} {id : PE} (h : Conf.identity s t c = some id) :
    isKV id = true := by
  cases hk : t.keys.isEmpty with
  | true => obtain ⟨_, rfl⟩ := identity_set s t hk c id h; rfl
  | false =>
    obtain ⟨m, rfl⟩ := identity_not_map s t hk c id h
    obtain ⟨_, rfl⟩ := (identity_keyed_some s t m hk id).1 h
    rfl

theorem isKV_congr {a b : PE} (h : PE.equals a b = true) : isKV a = isKV b := by
  cases a <;> cases b <;> simp_all [PE.equals, isKV]

theorem Along.tyAlong {s : Schema} {tr : TypeRef} {v : Value} {p : Path} {trx : TypeRef} {x : Value}
    (h : Along s tr v p trx x) : TyAlong s tr p := by
  induction h with
  | nil tr v => exact trivial
  | @field tr a mt m k c rest tr' x hres ha hat hl _ ih =>
    refine ⟨.inl ⟨k, rfl⟩, ?_⟩
    intro a' hres'
    rw [hres] at hres'; cases hres'
    refine ⟨?_, fun hkv => by simp [isKV] at hkv⟩
    intro k' hk' mt' ha'
    cases hk'
    rw [ha] at ha'; cases ha'
    exact ⟨hat, ih⟩
  | @item tr a lt l1 c l2 pe rest tr' x hres ha hrel hnd hhit h1 h2 _ ih =>
    obtain ⟨hpe, _, id, hid, heq⟩ := hitOf_inv hhit
    have hkv : isKV pe = true := by rw [← isKV_congr heq]; exact identity_isKV hid
    refine ⟨.inr hkv, ?_⟩
    intro a' hres'
    rw [hres] at hres'; cases hres'
    refine ⟨?_, ?_⟩
    · intro k hk; subst hk; simp [isKV] at hkv
    · intro _ lt' ha'
      rw [ha] at ha'; cases ha'
      exact ⟨hrel, hnd, ih⟩

/-! ### where the paths of the field set begin -/

theorem peOf_not_field (s : Schema) (t : ListT) (c : Value) (k : String) :
    PE.equals (PE.field k) (peOf s t c) = false := by
  by_cases hrel : t.rel = "associative"
  · cases hid : Conf.identity s t c with
    | none =>
      have : peOf s t c = PE.invalid := by simp [peOf, listItemToPE_eq s t c hrel, hid]
      rw [this]; rfl
    | some id =>
      rw [peOf_of_identity hrel hid]
      have := identity_isKV hid
      cases id <;> simp_all [isKV, PE.equals]
  · rw [peOf_of_not_assoc s t c hrel]; rfl

/-- the paths of the field set of a map are empty or begin with a field -/
theorem fsV_map_heads (s : Schema) (tr : TypeRef) (m : List (String × Value)) (ps : List Path)
    (h : fsV s tr (.map m) = .ok ps) : ∀ q ∈ ps, q = [] ∨ ∃ k q', q = PE.field k :: q' := by
  intro q hq
  rw [fsV] at h
  split at h
  · cases h
  · cases h
  · cases h; simp at hq; exact .inl hq
  · split at h <;> (cases h; simp at hq; try exact .inl hq)
  · split at h
    · cases h; simp at hq; exact .inl hq
    · next t _ _ =>
      obtain ⟨k, x, sub, _, _, hcase⟩ := fsFields_paths s t m ps h q hq
      rcases hcase with rfl | ⟨q', _, rfl⟩
      · exact .inr ⟨k, [], rfl⟩
      · exact .inr ⟨k, q', rfl⟩

/-- the paths of the field set of a list are empty or begin with the element of an item -/
theorem fsV_list_heads (s : Schema) (tr : TypeRef) (l : List Value) (ps : List Path)
    (h : fsV s tr (.list l) = .ok ps) : ∀ q ∈ ps, q = [] ∨ ∃ t c q', q = peOf s t c :: q' := by
  intro q hq
  rw [fsV] at h
  split at h
  · cases h
  · cases h
  · cases h; simp at hq; exact .inl hq
  · next t _ =>
    split at h
    · cases h; simp at hq; exact .inl hq
    · simp only [] at h
      cases hrest : fsItems s t (dupMarks s t [] [] l) l with
      | ok rest =>
        rw [hrest] at h
        cases h
        rcases List.mem_append.1 hq with hq | hq
        · obtain ⟨d, hd, rfl⟩ := List.mem_map.1 hq
          rcases dupMarks_sub s t l [] [] d hd with h0 | ⟨c, _, rfl⟩
          · cases h0
          · exact .inr ⟨t, c, [], rfl⟩
        · obtain ⟨c, sub, _, _, hcase⟩ := fsItems_paths s t _ l rest hrest q hq
          rcases hcase with rfl | ⟨q', _, rfl⟩
          · exact .inr ⟨t, c, [], rfl⟩
          · exact .inr ⟨t, c, q', rfl⟩
      | err => rw [hrest] at h; cases h
      | panic => rw [hrest] at h; cases h
  · split at h <;> (cases h; simp at hq; try exact .inl hq)

theorem mem_remEntry {s : Schema} {t : MapT} {S : SetTrie} {e x : String × Value} (h : x ∈ remEntry s t S e) :
    S.has [PE.field e.1] = false ∧ x.1 = e.1 ∧
      (((S.withPrefix (PE.field e.1)).isEmpty = false ∧
          x.2 = outToValue (removeV s false (fieldType t e.1) (S.withPrefix (PE.field e.1)) e.2)) ∨
       ((S.withPrefix (PE.field e.1)).isEmpty = true ∧ x.2 = e.2)) := by
  unfold remEntry at h
  by_cases h1 : S.has [PE.field e.1] = true
  · rw [if_pos h1] at h; cases h
  · rw [if_neg h1] at h
    refine ⟨by simpa using h1, ?_⟩
    by_cases h2 : (S.withPrefix (PE.field e.1)).isEmpty = false
    · rw [if_pos h2] at h
      simp only [List.mem_singleton] at h
      subst h
      exact ⟨rfl, Or.inl ⟨h2, rfl⟩⟩
    · rw [if_neg h2] at h
      simp only [List.mem_singleton] at h
      subst h
      exact ⟨rfl, Or.inr ⟨by simpa using h2, rfl⟩⟩

/-! ### the field set of what is left has no member at or beneath a removed path -/

theorem prefEq_cons_nil (pe : PE) (rest : Path) : prefEq (pe :: rest) [] = false := rfl

theorem prefEq_nil_of_ne {rest : Path} (h : rest ≠ []) : prefEq rest [] = false := by
  cases rest with
  | nil => exact absurd rfl h
  | cons _ _ => rfl

theorem removeV_fs_avoids (s : Schema) : ∀ (p : Path) (tr : TypeRef) (v : Value) (S : SetTrie) (ps : List Path),
    TyAlong s tr p → validateV s true tr v = .ok () → keysScalar s tr v = true → S.wf = true →
    S.has p = true → fsV s tr (outToValue (removeV s false tr S v)) = .ok ps →
    ∀ q ∈ ps, prefEq p q = false
  | [], tr, v, S, ps, _, _, _, _, hp, _ => by simp [has_nil] at hp
  | pe :: rest, tr, v, S, ps, hty, hv, hks, hw, hp, hfs => by
    have ih := removeV_fs_avoids s rest
    obtain ⟨hshape, htyc⟩ := hty
    have leaf : ∀ w : Value, w.isList = false → w.isMap = false → fsV s tr w = .ok ps →
        ∀ q ∈ ps, prefEq (pe :: rest) q = false := by
      intro w h1 h2 h3 q hq
      rw [fsV_leaf_paths s tr w ps h1 h2 h3 q hq]; rfl
    have other : v.isList = false → v.isMap = false → ∀ q ∈ ps, prefEq (pe :: rest) q = false := by
      intro h1 h2
      rcases outToValue_removeV_other s tr S v h1 h2 with h | h
      · rw [h] at hfs; exact leaf v h1 h2 hfs
      · rw [h] at hfs; exact leaf .null rfl rfl hfs
    cases v with
    | map m =>
      obtain ⟨a, mt, hres, ha, hvf⟩ := validateV_map_inv hv
      obtain ⟨htyF, _⟩ := htyc a hres
      rcases outToValue_removeV_map_cases S m hres ha with h | h
      · rw [h] at hfs; exact leaf .null rfl rfl hfs
      · rw [h] at hfs
        intro q hq
        rcases hshape with ⟨k, rfl⟩ | hkv
        · -- a field of a map
          obtain ⟨hat, hty'⟩ := htyF k rfl mt ha
          rw [fsV_map_nonatomic _ hres ha hat] at hfs
          obtain ⟨k', x', sub, hmem, hsub, hcase⟩ := fsFields_paths s mt _ ps hfs q hq
          have hksf : keysScalarFields s mt m = true := by
            rw [keysScalar, resolveKind_map s tr a mt m hres ha] at hks
            simpa [hat] using hks
          by_cases hk : k = k'
          · subst hk
            obtain ⟨e, he, hx'⟩ := mem_removeFields s mt S m _ hmem
            obtain ⟨ek, ev⟩ := e
            obtain ⟨hnot, hk1, hcase'⟩ := mem_remEntry hx'
            have hk1' : k = ek := hk1
            subst hk1'
            change S.has [PE.field k] = false at hnot
            by_cases hr : rest = []
            · subst hr; rw [hp] at hnot; cases hnot
            · have hsubS : has rest (S.withPrefix (PE.field k)) = true := by
                rw [has_withPrefix_cons _ S _ hr]; exact hp
              rcases hcase' with ⟨_, hx2⟩ | ⟨hemp, _⟩
              · have hx2' : x' = outToValue (removeV s false (fieldType mt k) (S.withPrefix (PE.field k)) ev) := hx2
                subst hx2'
                have hve := validateFields_mem s true mt m hvf _ he
                have hkse := keysScalarFields_mem s mt m hksf _ he
                rcases hcase with rfl | ⟨q', hq', rfl⟩
                · simp [prefEq, prefEq_nil_of_ne hr]
                · simp only [prefEq, Bool.and_eq_false_iff]
                  right
                  exact ih _ _ _ sub hty' hve hkse (wf_withPrefix _ S hw) hsubS hsub q' hq'
              · rw [has_of_isEmpty rest _ hemp] at hsubS; cases hsubS
          · have hne : (k == k') = false := by simpa using hk
            rcases hcase with rfl | ⟨q', _, rfl⟩ <;> simp [prefEq, PE.equals, hne]
        · -- a key or a value against a map: the paths begin with fields
          rcases fsV_map_heads s tr _ ps hfs q hq with rfl | ⟨k, q', rfl⟩
          · rfl
          · cases pe <;> simp_all [isKV, prefEq, PE.equals]
    | list l =>
      obtain ⟨a, lt, hres, ha, hitems⟩ := validateV_list_inv hv
      obtain ⟨_, htyL⟩ := htyc a hres
      rcases outToValue_removeV_list_cases S l hres ha with h | h
      · rw [h] at hfs; exact leaf .null rfl rfl hfs
      · rw [h] at hfs
        intro q hq
        rcases hshape with ⟨k, rfl⟩ | hkv
        · -- a field against a list: the paths begin with the elements of items
          rcases fsV_list_heads s tr _ ps hfs q hq with rfl | ⟨t, c, q', rfl⟩
          · rfl
          · simp [prefEq, peOf_not_field]
        · obtain ⟨hrel, hnd, hty'⟩ := htyL hkv lt ha
          have hat : lt.rel ≠ "atomic" := by rw [hrel]; decide
          have hall := validateItems_assoc s true lt hrel _ [] 0 hitems
          have hksl := keysScalar_list_items s tr a lt _ hres ha hat hks
          have hpe : pe.notIndex = true := by cases pe <;> simp_all [isKV, PE.notIndex]
          rw [fsV_list_nonatomic _ hres ha hat] at hfs
          -- every path is the element of an item of the result, alone or followed by a path of the item
          have hform : ∃ y' ∈ removeItems s false lt S l, ∃ q', q = peOf s lt y' :: q' ∧
              (q' = [] ∨ ∃ sub, fsV s lt.elementType y' = .ok sub ∧ q' ∈ sub) := by
            cases hrest : fsItems s lt (dupMarks s lt [] [] (removeItems s false lt S l))
                (removeItems s false lt S l) with
            | ok restp =>
              rw [hrest] at hfs
              cases hfs
              rcases List.mem_append.1 hq with hq | hq
              · obtain ⟨d, hd, rfl⟩ := List.mem_map.1 hq
                rcases dupMarks_sub s lt _ [] [] d hd with h0 | ⟨c, hc, rfl⟩
                · cases h0
                · exact ⟨c, hc, [], rfl, .inl rfl⟩
              · obtain ⟨c, sub, hc, hsub, hcase⟩ := fsItems_paths s lt _ _ restp hrest q hq
                rcases hcase with rfl | ⟨q', hq', rfl⟩
                · exact ⟨c, hc, [], rfl, .inl rfl⟩
                · exact ⟨c, hc, q', rfl, .inr ⟨sub, hsub, hq'⟩⟩
            | err => rw [hrest] at hfs; cases hfs
            | panic => rw [hrest] at hfs; cases hfs
          obtain ⟨y', hy', q', rfl, hq'⟩ := hform
          simp only [prefEq, Bool.and_eq_false_iff]
          cases hhead : PE.equals pe (peOf s lt y') with
          | false => exact .inl rfl
          | true =>
            right
            -- the item of the result is designated by the element of the path
            have hhit' : hitOf s lt pe y' = true := by
              cases hid' : Conf.identity s lt y' with
              | none =>
                have : peOf s lt y' = PE.invalid := by simp [peOf, listItemToPE_eq s lt y' hrel, hid']
                rw [this] at hhead
                cases pe <;> simp_all [isKV, PE.equals]
              | some id' =>
                rw [peOf_of_identity hrel hid'] at hhead
                rw [hitOf_of_identity hpe hrel hid']
                exact PE.equals_symm_of hhead
            rw [removeItems_eq_flatMap] at hy'
            obtain ⟨y, hy, hx'⟩ := List.mem_flatMap.1 hy'
            have hhity := hit_of_mem_remItem_nodefault hrel hnd (hall y hy).2 (hksl y hy).1 hx' hhit'
            obtain ⟨_, _, id, hid, heq⟩ := hitOf_inv hhity
            have hpeq : peOf s lt y = id := peOf_of_identity hrel hid
            have hp' : has (id :: rest) S = true := by rw [has_congr_head heq rest S]; exact hp
            obtain ⟨hnot, hcase⟩ := mem_remItem hx'
            rw [hpeq] at hnot hcase
            by_cases hr : rest = []
            · subst hr; rw [hp'] at hnot; cases hnot
            · have hsubS : has rest (S.withPrefix id) = true := by
                rw [has_withPrefix_cons _ S _ hr]; exact hp'
              rcases hcase with ⟨_, rfl⟩ | ⟨hemp, _⟩
              · rcases hq' with rfl | ⟨sub, hsub, hq'⟩
                · exact prefEq_nil_of_ne hr
                · exact ih _ _ _ sub hty' (hall y hy).2 (hksl y hy).2 (wf_withPrefix _ S hw) hsubS hsub q' hq'
              · rw [has_of_isEmpty rest _ hemp] at hsubS; cases hsubS
    | null => exact other rfl rfl
    | bool b => exact other rfl rfl
    | int b => exact other rfl rfl
    | float b z => exact other rfl rfl
    | str b => exact other rfl rfl

end NodeLaws
end SMD
