import SMD.Model.Typed
import SMD.Proofs.SetAlgebra
set_option linter.unusedSimpArgs false
namespace SMD
open SetTrie

theorem withPrefix_empty_isEmpty (pe : PE) : (withPrefix pe SetTrie.empty).isEmpty = true := by
  simp [withPrefix, SetTrie.empty, children, getChild, isEmpty, isEmptyChildren]

theorem has_singleton_empty (pe : PE) : has [pe] SetTrie.empty = false := SetTrie.has_empty _

/-- removing the empty set leaves every entry -/
theorem removeFields_empty (s : Schema) (t : MapT) :
    ∀ m, removeFields s false t SetTrie.empty m = m
  | [] => by simp [removeFields]
  | (k, v) :: rest => by
    rw [removeFields]
    simp [has_singleton_empty, withPrefix_empty_isEmpty, removeFields_empty s t rest]

theorem removeItems_empty (s : Schema) (t : ListT) :
    ∀ l, removeItems s false t SetTrie.empty l = l
  | [] => by simp [removeItems]
  | item :: rest => by
    rw [removeItems]
    simp [has_singleton_empty, withPrefix_empty_isEmpty, removeItems_empty s t rest]

/-- extracting the empty set leaves no entry -/
theorem extractFields_empty (s : Schema) (t : MapT) :
    ∀ m, removeFields s true t SetTrie.empty m = []
  | [] => by simp [removeFields]
  | (k, v) :: rest => by
    rw [removeFields]
    simp [has_singleton_empty, withPrefix_empty_isEmpty, extractFields_empty s t rest]

theorem removeFields_keys (s : Schema) (extract : Bool) (t : MapT) (toRemove : SetTrie) :
    ∀ (m : List (String × Value)) x, x ∈ removeFields s extract t toRemove m → ∃ v, (x.1, v) ∈ m
  | [], x => by simp [removeFields]
  | (k, v) :: rest, x => by
    have ih := removeFields_keys s extract t toRemove rest x
    rw [removeFields]
    simp only []
    intro hx
    have key : (x.1 = k ∨ x ∈ removeFields s extract t toRemove rest) := by
      split at hx
      · split at hx
        · rcases List.mem_cons.1 hx with h | h
          · left; rw [h]
          · right; exact h
        · right; exact hx
      · split at hx
        · rcases List.mem_cons.1 hx with h | h
          · left; rw [h]
          · right; exact h
        · split at hx
          · right; exact hx
          · rcases List.mem_cons.1 hx with h | h
            · left; rw [h]
            · right; exact h
    rcases key with h | h
    · exact ⟨v, by rw [h]; exact List.mem_cons_self⟩
    · obtain ⟨w, hw⟩ := ih h
      exact ⟨w, List.mem_cons_of_mem _ hw⟩

theorem resolveKind_map_of (s : Schema) (tr : TypeRef) (a : Atom) (t : MapT) (m : List (String × Value))
    (hres : s.resolve tr = some a) (ha : a.map = some t) :
    resolveKind s tr (some (.map m)) = some (.map t) := by
  obtain ⟨sc, li, ma⟩ := a
  simp_all [resolveKind, hres, deduceAtom, Value.isScalar, Value.isList, Value.isMap, ha, atomKind, Atom.map,
    Atom.scalar, Atom.list]

theorem extract_empty_map (s : Schema) (tr : TypeRef) (m : List (String × Value)) (t : MapT) (a : Atom)
    (hres : s.resolve tr = some a) (ha : a.map = some t) (hrel : t.rel ≠ "atomic") :
    removeV s true tr SetTrie.empty (.map m) = none := by
  rw [removeV, resolveKind_map_of s tr a t m hres ha]
  simp [hrel, extractFields_empty]

/-- what the kind `list t` of a list value says about the resolved atom -/
theorem resolveKind_list_inv (s : Schema) (tr : TypeRef) (l : List Value) (t : ListT)
    (h : resolveKind s tr (some (.list l)) = some (.list t)) :
    ∃ a, s.resolve tr = some a ∧ a.list = some t := by
  unfold resolveKind at h
  cases hres : s.resolve tr with
  | none => simp [hres] at h
  | some a =>
    refine ⟨a, rfl, ?_⟩
    obtain ⟨sc, li, ma⟩ := a
    cases li <;> cases ma <;> cases sc <;>
      simp_all [deduceAtom, Value.isScalar, Value.isList, Value.isMap, atomKind, Atom.map, Atom.scalar, Atom.list]

theorem resolveKind_map_inv (s : Schema) (tr : TypeRef) (m : List (String × Value)) (t : MapT)
    (h : resolveKind s tr (some (.map m)) = some (.map t)) :
    ∃ a, s.resolve tr = some a ∧ a.map = some t := by
  unfold resolveKind at h
  cases hres : s.resolve tr with
  | none => simp [hres] at h
  | some a =>
    refine ⟨a, rfl, ?_⟩
    obtain ⟨sc, li, ma⟩ := a
    cases li <;> cases ma <;> cases sc <;>
      simp_all [deduceAtom, Value.isScalar, Value.isList, Value.isMap, atomKind, Atom.map, Atom.scalar, Atom.list]

theorem remove_empty (s : Schema) (tr : TypeRef) (v : Value) (hv : validateV s true tr v = .ok ())
    (hne : v ≠ .null ∧ v ≠ .list [] ∧ v ≠ .map []) :
    removeV s false tr SetTrie.empty v = some v ∨
      (∃ a, s.resolve tr = some a ∧ ((∃ t, a.list = some t ∧ t.rel = "atomic" ∧ v.isList = true) ∨
                                      (∃ t, a.map = some t ∧ t.rel = "atomic" ∧ v.isMap = true))) := by
  obtain ⟨h1, h2, h3⟩ := hne
  cases v with
  | null => exact absurd rfl h1
  | bool b =>
    left; simp only [validateV] at hv; simp only [removeV]
    split at hv <;> simp_all [Value.isNull]
  | int b =>
    left; simp only [validateV] at hv; simp only [removeV]
    split at hv <;> simp_all [Value.isNull]
  | float b z =>
    left; simp only [validateV] at hv; simp only [removeV]
    split at hv <;> simp_all [Value.isNull]
  | str b =>
    left; simp only [validateV] at hv; simp only [removeV]
    split at hv <;> simp_all [Value.isNull]
  | list l =>
    rw [validateV] at hv; rw [removeV]
    split at hv
    · cases hv
    · cases hv
    · next t hk => left; simp [hk]
    · next t hk =>
      by_cases hat : t.rel = "atomic"
      · right
        obtain ⟨a, ha1, ha2⟩ := resolveKind_list_inv s tr l t hk
        exact ⟨a, ha1, Or.inl ⟨t, ha2, hat, rfl⟩⟩
      · left
        have hl : l ≠ [] := by intro h; exact h2 (by rw [h])
        simp only [hk, removeItems_empty]
        cases l with
        | nil => exact absurd rfl hl
        | cons x xs => simp [hat]
    · cases hv
  | map m =>
    rw [validateV] at hv; rw [removeV]
    split at hv
    · cases hv
    · cases hv
    · next t hk => left; simp [hk]
    · cases hv
    · next t hk =>
      by_cases hat : t.rel = "atomic"
      · right
        obtain ⟨a, ha1, ha2⟩ := resolveKind_map_inv s tr m t hk
        exact ⟨a, ha1, Or.inr ⟨t, ha2, hat, rfl⟩⟩
      · left
        have hl : m ≠ [] := by intro h; exact h3 (by rw [h])
        simp only [hk, removeFields_empty]
        cases m with
        | nil => exact absurd rfl hl
        | cons x xs => simp [hat]

end SMD
