/-
Walkers cannot tell two `TypeRef.equals` type references apart, up to `Equals` of the path elements
they produce (schema defaults of key fields may differ in the sign of a float zero).
-/
import SMD.Proofs.SchemaEq
import SMD.Proofs.ValueOrder
import SMD.Model.Typed
set_option linter.unusedSimpArgs false
namespace SMD
namespace CmpX

/-! ### `DeepEqual` values are `Equals` -/

mutual
theorem Value.equals_of_deepEq : ∀ a b : Value, Value.deepEq a b = true → Value.equals a b = true
  | .null, b => by cases b <;> simp [Value.deepEq, Value.equals]
  | .bool x, b => by cases b <;> simp [Value.deepEq, Value.equals]
  | .int x, b => by cases b <;> simp [Value.deepEq, Value.equals]
  | .float x _, b => by cases b <;> simp [Value.deepEq, Value.equals]
  | .str x, b => by cases b <;> simp [Value.deepEq, Value.equals]
  | .list l, b => by
    cases b <;> simp [Value.deepEq, Value.equals]
    exact Value.equalsList_of_deepEq l _
  | .map m, b => by
    cases b <;> simp [Value.deepEq, Value.equals]
    exact Value.equalsFields_of_deepEq m _
theorem Value.equalsList_of_deepEq : ∀ a b : List Value, Value.deepEqList a b = true → Value.equalsList a b = true
  | [], b => by cases b <;> simp [Value.deepEqList, Value.equalsList]
  | _ :: _, [] => by simp [Value.deepEqList]
  | a :: as, b :: bs => by
    simp only [Value.deepEqList, Value.equalsList, Bool.and_eq_true]
    intro h
    exact ⟨Value.equals_of_deepEq a b h.1, Value.equalsList_of_deepEq as bs h.2⟩
theorem Value.equalsFields_of_deepEq : ∀ a b : List (String × Value), Value.deepEqFields a b = true →
    Value.equalsFields a b = true
  | [], b => by cases b <;> simp [Value.deepEqFields, Value.equalsFields]
  | _ :: _, [] => by simp [Value.deepEqFields]
  | (k, v) :: as, (k', v') :: bs => by
    simp only [Value.deepEqFields, Value.equalsFields, Bool.and_eq_true]
    intro h
    exact ⟨⟨h.1.1, Value.equals_of_deepEq v v' h.1.2⟩, Value.equalsFields_of_deepEq as bs h.2⟩
end

/-! ### components of equal types -/

theorem ListT.equals_inv {t t' : ListT} (h : ListT.equals t t' = true) :
    TypeRef.equals t.elementType t'.elementType = true ∧ t.rel = t'.rel ∧ t.keys = t'.keys := by
  obtain ⟨e, r, k⟩ := t
  obtain ⟨e', r', k'⟩ := t'
  simpa [ListT.equals, ListT.elementType, ListT.rel, ListT.keys, and_assoc] using h

theorem MapT.equals_inv {t t' : MapT} (h : MapT.equals t t' = true) :
    TypeRef.equals t.elementType t'.elementType = true ∧ t.rel = t'.rel ∧
      StructField.equalsList t.fields t'.fields = true := by
  obtain ⟨f, u, e, r⟩ := t
  obtain ⟨f', u', e', r'⟩ := t'
  simp only [MapT.equals, Bool.and_eq_true, beq_iff_eq, decide_eq_true_eq] at h
  exact ⟨h.1.1.1, h.1.1.2, h.1.2⟩

theorem StructField.equals_inv {f f' : StructField} (h : StructField.equals f f' = true) :
    f.name = f'.name ∧ eqOpt Value.deepEq f.default f'.default = true ∧ TypeRef.equals f.type f'.type = true := by
  obtain ⟨n, t, d⟩ := f
  obtain ⟨n', t', d'⟩ := f'
  simp only [StructField.equals, Bool.and_eq_true, beq_iff_eq] at h
  exact ⟨h.1.1, h.1.2, h.2⟩

/-- related options -/
def OptRel {α β : Type} (R : α → β → Prop) : Option α → Option β → Prop
  | some a, some b => R a b
  | none, none => True
  | _, _ => False

theorem StructField.equalsList_append : ∀ (a b : List StructField) (x y : StructField),
    StructField.equalsList a b = true → StructField.equals x y = true →
    StructField.equalsList (a ++ [x]) (b ++ [y]) = true
  | [], [], x, y, _, h => by simp [StructField.equalsList, h]
  | [], _ :: _, _, _, h, _ => by simp [StructField.equalsList] at h
  | _ :: _, [], _, _, h, _ => by simp [StructField.equalsList] at h
  | a :: as, b :: bs, x, y, h, hxy => by
    simp only [StructField.equalsList, Bool.and_eq_true, List.cons_append] at h ⊢
    exact ⟨h.1, StructField.equalsList_append as bs x y h.2 hxy⟩

theorem StructField.equalsList_reverse : ∀ (a b : List StructField),
    StructField.equalsList a b = true → StructField.equalsList a.reverse b.reverse = true
  | [], [], _ => by simp [StructField.equalsList]
  | [], _ :: _, h => by simp [StructField.equalsList] at h
  | _ :: _, [], h => by simp [StructField.equalsList] at h
  | a :: as, b :: bs, h => by
    simp only [StructField.equalsList, Bool.and_eq_true] at h
    simp only [List.reverse_cons]
    exact StructField.equalsList_append _ _ a b (StructField.equalsList_reverse as bs h.2) h.1

theorem StructField.find?_congr (k : String) : ∀ (a b : List StructField), StructField.equalsList a b = true →
    OptRel (fun f f' => StructField.equals f f' = true)
      (a.find? (fun f => f.name == k)) (b.find? (fun f => f.name == k))
  | [], [], _ => trivial
  | [], _ :: _, h => by simp [StructField.equalsList] at h
  | _ :: _, [], h => by simp [StructField.equalsList] at h
  | a :: as, b :: bs, h => by
    simp only [StructField.equalsList, Bool.and_eq_true] at h
    have hn := (StructField.equals_inv h.1).1
    simp only [List.find?_cons, hn]
    cases hk : b.name == k with
    | true => exact h.1
    | false => exact StructField.find?_congr k as bs h.2

theorem MapT.findField_congr {t t' : MapT} (h : MapT.equals t t' = true) (k : String) :
    OptRel (fun f f' => StructField.equals f f' = true) (t.findField k) (t'.findField k) :=
  StructField.find?_congr k _ _ (StructField.equalsList_reverse _ _ (MapT.equals_inv h).2.2)

theorem fieldType_congr {t t' : MapT} (h : MapT.equals t t' = true) (k : String) :
    TypeRef.equals (fieldType t k) (fieldType t' k) = true := by
  have hf := MapT.findField_congr h k
  unfold fieldType
  cases h1 : t.findField k <;> cases h2 : t'.findField k <;> simp only [h1, h2, OptRel] at hf ⊢
  · exact (MapT.equals_inv h).1
  · exact (StructField.equals_inv hf).2.2

/-! ### resolution -/

theorem Atom.equals_inv {a a' : Atom} (h : Atom.equals a a' = true) :
    a.scalar = a'.scalar ∧ OptRel (fun t t' => ListT.equals t t' = true) a.list a'.list ∧
      OptRel (fun t t' => MapT.equals t t' = true) a.map a'.map := by
  obtain ⟨s, l, m⟩ := a
  obtain ⟨s', l', m'⟩ := a'
  rw [Atom.equals_mk] at h
  simp only [Bool.and_eq_true, beq_iff_eq] at h
  refine ⟨h.1.1, ?_, ?_⟩
  · have := h.1.2
    cases l <;> cases l' <;> simp_all [eqOpt, OptRel, Atom.list]
  · have := h.2
    cases m <;> cases m' <;> simp_all [eqOpt, OptRel, Atom.map]

theorem Atom.equals_of {a a' : Atom} (h1 : a.scalar = a'.scalar)
    (h2 : OptRel (fun t t' => ListT.equals t t' = true) a.list a'.list)
    (h3 : OptRel (fun t t' => MapT.equals t t' = true) a.map a'.map) : Atom.equals a a' = true := by
  obtain ⟨s, l, m⟩ := a
  obtain ⟨s', l', m'⟩ := a'
  rw [Atom.equals_mk]
  simp only [Atom.scalar, Atom.list, Atom.map] at h1 h2 h3
  subst h1
  cases l <;> cases l' <;> cases m <;> cases m' <;> simp_all [eqOpt, OptRel]

theorem resolve_congr (s : Schema) {tr tr' : TypeRef} (h : TypeRef.equals tr tr' = true) :
    tr.named = tr'.named ∧ OptRel (fun a a' => Atom.equals a a' = true) (s.resolve tr) (s.resolve tr') := by
  obtain ⟨n, a, r⟩ := tr
  obtain ⟨n', a', r'⟩ := tr'
  simp only [TypeRef.equals, Bool.and_eq_true, beq_iff_eq] at h
  obtain ⟨⟨rfl, rfl⟩, ha⟩ := h
  refine ⟨rfl, ?_⟩
  have h0 : OptRel (fun a a' => Atom.equals a a' = true)
      (s.resolveNoOverrides (.mk n a r)) (s.resolveNoOverrides (.mk n a' r)) := by
    unfold Schema.resolveNoOverrides
    cases n with
    | none => exact ha
    | some nm =>
      simp only [TypeRef.named]
      cases s.findNamedType nm with
      | none => trivial
      | some td => exact Atom.equals_refl _
  unfold Schema.resolve
  cases r with
  | none => exact h0
  | some rel =>
    simp only [TypeRef.rel]
    cases h1 : s.resolveNoOverrides (.mk n a (some rel)) with
    | none =>
      cases h2 : s.resolveNoOverrides (.mk n a' (some rel)) with
      | none => trivial
      | some b => rw [h1, h2] at h0; exact h0.elim
    | some b =>
      cases h2 : s.resolveNoOverrides (.mk n a' (some rel)) with
      | none => rw [h1, h2] at h0; exact h0.elim
      | some b' =>
        rw [h1, h2] at h0
        simp only [OptRel] at h0
        obtain ⟨sc, l, m⟩ := b
        obtain ⟨sc', l', m'⟩ := b'
        rw [Atom.equals_mk] at h0
        simp only [Bool.and_eq_true, beq_iff_eq] at h0
        obtain ⟨⟨rfl, hl⟩, hm⟩ := h0
        cases m with
        | some mt =>
          cases m' with
          | none => simp [eqOpt] at hm
          | some mt' =>
            obtain ⟨f, u, e, x⟩ := mt
            obtain ⟨f', u', e', x'⟩ := mt'
            simp only [OptRel]
            rw [Atom.equals_mk]
            simp only [beq_self_eq_true, hl, Bool.true_and]
            simp only [eqOpt, MapT.equals, Bool.and_eq_true, beq_iff_eq, decide_eq_true_eq] at hm ⊢
            simp [hm]
        | none =>
          cases m' with
          | some _ => simp [eqOpt] at hm
          | none =>
            cases l with
            | none =>
              cases l' with
              | some _ => simp [eqOpt] at hl
              | none => trivial
            | some lt =>
              cases l' with
              | none => simp [eqOpt] at hl
              | some lt' =>
                obtain ⟨e, x, k⟩ := lt
                obtain ⟨e', x', k'⟩ := lt'
                simp only [OptRel]
                rw [Atom.equals_mk]
                simp only [eqOpt, ListT.equals, Bool.and_eq_true, beq_iff_eq] at hl ⊢
                simp [hl]

theorem deduceAtom_congr {a a' : Atom} (h : Atom.equals a a' = true) (v : Option Value) :
    Atom.equals (deduceAtom a v) (deduceAtom a' v) = true := by
  obtain ⟨h1, h2, h3⟩ := Atom.equals_inv h
  cases v with
  | none => exact h
  | some v =>
    unfold deduceAtom
    simp only []
    split
    · rw [← h1]
      cases a.scalar with
      | none => exact h
      | some sc => exact Atom.equals_refl _
    · split
      · cases hl : a.list <;> cases hl' : a'.list <;> simp only [hl, hl', OptRel] at h2 ⊢
        · exact h
        · exact Atom.equals_of rfl h2 trivial
      · split
        · cases hm : a.map <;> cases hm' : a'.map <;> simp only [hm, hm', OptRel] at h3 ⊢
          · exact h
          · exact Atom.equals_of rfl trivial h3
        · exact h

/-- related dispatch results -/
def KindRel : AtomKind → AtomKind → Prop
  | .map m, .map m' => MapT.equals m m' = true
  | .scalar t, .scalar t' => t = t'
  | .list l, .list l' => ListT.equals l l' = true
  | .invalid, .invalid => True
  | _, _ => False

theorem atomKind_congr {a a' : Atom} (h : Atom.equals a a' = true) : KindRel (atomKind a) (atomKind a') := by
  obtain ⟨h1, h2, h3⟩ := Atom.equals_inv h
  unfold atomKind
  cases hm : a.map <;> cases hm' : a'.map <;> simp only [hm, hm', OptRel] at h3 ⊢
  · rw [← h1]
    cases a.scalar with
    | some sc => rfl
    | none =>
      cases hl : a.list <;> cases hl' : a'.list <;> simp only [hl, hl', OptRel] at h2 ⊢
      · trivial
      · exact h2
  · exact h3

/-! ### list items -/

/-- related results -/
def ResRel {α β : Type} (R : α → β → Prop) : Res α → Res β → Prop
  | .ok a, .ok b => R a b
  | .err, .err => True
  | .panic, .panic => True
  | _, _ => False

theorem keyDefault_congr (s : Schema) {t t' : ListT} (h : ListT.equals t t' = true) (k : String) :
    ResRel (OptRel (fun d d' => Value.equals d d' = true)) (keyDefault s t k) (keyDefault s t' k) := by
  have he := (resolve_congr s (ListT.equals_inv h).1).2
  unfold keyDefault
  cases h1 : s.resolve t.elementType <;> cases h2 : s.resolve t'.elementType <;> simp only [h1, h2, OptRel] at he ⊢
  · trivial
  · next a a' =>
    have hm := (Atom.equals_inv he).2.2
    cases h3 : a.map <;> cases h4 : a'.map <;> simp only [h3, h4, OptRel] at hm ⊢
    · trivial
    · next m m' =>
      have hf := MapT.findField_congr hm k
      simp only [ResRel]
      cases h5 : m.findField k <;> cases h6 : m'.findField k <;> simp only [h5, h6, OptRel] at hf ⊢
      · trivial
      · next f f' =>
        have hd := (StructField.equals_inv hf).2.1
        simp only [Option.bind_some]
        cases h7 : f.default <;> cases h8 : f'.default <;> simp only [h7, h8, eqOpt, OptRel] at hd ⊢
        · cases hd
        · cases hd
        · exact Value.equals_of_deepEq _ _ hd

theorem keyFieldsOf_congr (s : Schema) {t t' : ListT} (h : ListT.equals t t' = true) (m : List (String × Value)) :
    ∀ ks : List String, ResRel (fun fl fl' => Value.equalsFields fl fl' = true)
      (keyFieldsOf s t m ks) (keyFieldsOf s t' m ks)
  | [] => by simp [keyFieldsOf, ResRel, Value.equalsFields]
  | k :: ks => by
    have ih := keyFieldsOf_congr s h m ks
    have hd := keyDefault_congr s h k
    unfold keyFieldsOf
    cases hl : lookupField k m with
    | some v =>
      simp only []
      cases h1 : keyFieldsOf s t m ks <;> cases h2 : keyFieldsOf s t' m ks <;> simp only [h1, h2, ResRel] at ih ⊢ <;>
        simp_all [bind, Res.bind, pure, ResRel, Value.equalsFields, Value.equals_refl]
    | none =>
      simp only []
      cases h3 : keyDefault s t k <;> cases h4 : keyDefault s t' k <;> simp only [h3, h4, ResRel] at hd ⊢
      · next d d' =>
        cases d with
        | none =>
          cases d' with
          | none => trivial
          | some _ => exact hd.elim
        | some dv =>
          cases d' with
          | none => exact hd.elim
          | some dv' =>
            simp only [OptRel] at hd
            cases h1 : keyFieldsOf s t m ks <;> cases h2 : keyFieldsOf s t' m ks <;>
              simp only [h1, h2, ResRel] at ih ⊢ <;>
              simp_all [bind, Res.bind, pure, ResRel, Value.equalsFields]

theorem equalsFields_insertField {k : String} {v v' : Value} (hv : Value.equals v v' = true) :
    ∀ (a b : List (String × Value)), Value.equalsFields a b = true →
      Value.equalsFields (insertField (k, v) a) (insertField (k, v') b) = true
  | [], [], _ => by simp [insertField, Value.equalsFields, hv]
  | [], _ :: _, h => by simp [Value.equalsFields] at h
  | _ :: _, [], h => by simp [Value.equalsFields] at h
  | (x, w) :: as, (x', w') :: bs, h => by
    simp only [Value.equalsFields, Bool.and_eq_true, beq_iff_eq] at h
    obtain ⟨⟨rfl, hw⟩, hr⟩ := h
    simp only [insertField]
    split
    · simp [Value.equalsFields, hv, hw, hr]
    · simp [Value.equalsFields, hw, equalsFields_insertField hv as bs hr]

theorem equalsFields_insertFieldFirst {k : String} {v v' : Value} (hv : Value.equals v v' = true) :
    ∀ (a b : List (String × Value)), Value.equalsFields a b = true →
      Value.equalsFields (insertFieldFirst (k, v) a) (insertFieldFirst (k, v') b) = true
  | [], [], _ => by simp [insertFieldFirst, Value.equalsFields, hv]
  | [], _ :: _, h => by simp [Value.equalsFields] at h
  | _ :: _, [], h => by simp [Value.equalsFields] at h
  | (x, w) :: as, (x', w') :: bs, h => by
    simp only [Value.equalsFields, Bool.and_eq_true, beq_iff_eq] at h
    obtain ⟨⟨rfl, hw⟩, hr⟩ := h
    simp only [insertFieldFirst]
    split
    · simp [Value.equalsFields, hw, equalsFields_insertFieldFirst hv as bs hr]
    · simp [Value.equalsFields, hv, hw, hr]

theorem equalsFields_sort : ∀ (a b : List (String × Value)), Value.equalsFields a b = true →
    Value.equalsFields (FieldList.sort a) (FieldList.sort b) = true
  | [], [], _ => by simp [FieldList.sort, Value.equalsFields]
  | [], _ :: _, h => by simp [Value.equalsFields] at h
  | _ :: _, [], h => by simp [Value.equalsFields] at h
  | (x, w) :: as, (x', w') :: bs, h => by
    simp only [Value.equalsFields, Bool.and_eq_true, beq_iff_eq] at h
    obtain ⟨⟨rfl, hw⟩, hr⟩ := h
    have ih := equalsFields_sort as bs hr
    simp only [FieldList.sort, List.foldr_cons] at ih ⊢
    exact equalsFields_insertFieldFirst hw _ _ ih

theorem listItemToPE_congr (s : Schema) {t t' : ListT} (h : ListT.equals t t' = true) (v : Value) :
    ResRel (fun pe pe' => PE.equals pe pe' = true) (listItemToPE s t v) (listItemToPE s t' v) := by
  obtain ⟨_, hrel, hkeys⟩ := ListT.equals_inv h
  unfold listItemToPE
  rw [← hrel, ← hkeys]
  split
  · trivial
  · split
    · cases v with
      | map m =>
        simp only []
        have hk := keyFieldsOf_congr s h m t.keys
        cases h1 : keyFieldsOf s t m t.keys <;> cases h2 : keyFieldsOf s t' m t.keys <;>
          simp only [h1, h2, ResRel] at hk ⊢ <;>
          simp_all [bind, Res.bind, pure, ResRel, PE.equals, FieldList.equals, equalsFields_sort]
      | _ => trivial
    · cases v <;> simp [ResRel, PE.equals, Value.equals_refl]

end CmpX
end SMD
