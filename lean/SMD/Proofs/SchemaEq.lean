/-
`schema/equals.go` on the model: `TypeRef.equals` (and its companions) is an equivalence relation.
-/
import SMD.Model.Schema
set_option linter.unusedSimpArgs false
namespace SMD
namespace CmpX

/-! ### `reflect.DeepEqual` on default values -/

mutual
theorem Value.deepEq_refl : ∀ v : Value, Value.deepEq v v = true
  | .null => by simp [Value.deepEq]
  | .bool _ => by simp [Value.deepEq]
  | .int _ => by simp [Value.deepEq]
  | .float _ _ => by simp [Value.deepEq]
  | .str _ => by simp [Value.deepEq]
  | .list l => by simp [Value.deepEq, Value.deepEqList_refl l]
  | .map m => by simp [Value.deepEq, Value.deepEqFields_refl m]
theorem Value.deepEqList_refl : ∀ l : List Value, Value.deepEqList l l = true
  | [] => by simp [Value.deepEqList]
  | a :: as => by simp [Value.deepEqList, Value.deepEq_refl a, Value.deepEqList_refl as]
theorem Value.deepEqFields_refl : ∀ l : List (String × Value), Value.deepEqFields l l = true
  | [] => by simp [Value.deepEqFields]
  | (k, v) :: as => by simp [Value.deepEqFields, Value.deepEq_refl v, Value.deepEqFields_refl as]
end

mutual
theorem Value.deepEq_symm : ∀ a b : Value, Value.deepEq a b = Value.deepEq b a
  | .null, b => by cases b <;> simp [Value.deepEq]
  | .bool x, b => by cases b <;> simp [Value.deepEq, Bool.beq_comm]
  | .int x, b => by cases b <;> simp [Value.deepEq] <;> exact Bool.beq_comm
  | .float x _, b => by cases b <;> simp [Value.deepEq] <;> exact Bool.beq_comm
  | .str x, b => by cases b <;> simp [Value.deepEq] <;> exact Bool.beq_comm
  | .list l, b => by cases b <;> simp [Value.deepEq, Value.deepEqList_symm l]
  | .map m, b => by cases b <;> simp [Value.deepEq, Value.deepEqFields_symm m]
theorem Value.deepEqList_symm : ∀ a b : List Value, Value.deepEqList a b = Value.deepEqList b a
  | [], b => by cases b <;> simp [Value.deepEqList]
  | _ :: _, [] => by simp [Value.deepEqList]
  | a :: as, b :: bs => by simp [Value.deepEqList, Value.deepEq_symm a b, Value.deepEqList_symm as bs]
theorem Value.deepEqFields_symm : ∀ a b : List (String × Value), Value.deepEqFields a b = Value.deepEqFields b a
  | [], b => by cases b <;> simp [Value.deepEqFields]
  | _ :: _, [] => by simp [Value.deepEqFields]
  | (k, v) :: as, (k', v') :: bs => by
    simp only [Value.deepEqFields, Value.deepEq_symm v v', Value.deepEqFields_symm as bs]
    rw [Bool.beq_comm (a := k)]
end

mutual
theorem Value.deepEq_trans : ∀ a b c : Value, Value.deepEq a b = true → Value.deepEq b c = true →
    Value.deepEq a c = true
  | .null, b, c => by cases b <;> cases c <;> simp [Value.deepEq]
  | .bool x, b, c => by cases b <;> cases c <;> simp [Value.deepEq]; intro h1 h2; rw [h1, h2]
  | .int x, b, c => by cases b <;> cases c <;> simp [Value.deepEq]; intro h1 h2; rw [h1, h2]
  | .float x _, b, c => by cases b <;> cases c <;> simp [Value.deepEq]; intro h1 h2; rw [h1, h2]
  | .str x, b, c => by cases b <;> cases c <;> simp [Value.deepEq]; intro h1 h2; rw [h1, h2]
  | .list l, b, c => by
    cases b <;> cases c <;> simp [Value.deepEq]
    exact Value.deepEqList_trans l _ _
  | .map m, b, c => by
    cases b <;> cases c <;> simp [Value.deepEq]
    exact Value.deepEqFields_trans m _ _
theorem Value.deepEqList_trans : ∀ a b c : List Value, Value.deepEqList a b = true → Value.deepEqList b c = true →
    Value.deepEqList a c = true
  | [], b, c => by cases b <;> cases c <;> simp [Value.deepEqList]
  | _ :: _, [], c => by simp [Value.deepEqList]
  | _ :: _, _ :: _, [] => by simp [Value.deepEqList]
  | a :: as, b :: bs, c :: cs => by
    simp only [Value.deepEqList, Bool.and_eq_true]
    intro h1 h2
    exact ⟨Value.deepEq_trans a b c h1.1 h2.1, Value.deepEqList_trans as bs cs h1.2 h2.2⟩
theorem Value.deepEqFields_trans : ∀ a b c : List (String × Value), Value.deepEqFields a b = true →
    Value.deepEqFields b c = true → Value.deepEqFields a c = true
  | [], b, c => by cases b <;> cases c <;> simp [Value.deepEqFields]
  | _ :: _, [], c => by simp [Value.deepEqFields]
  | _ :: _, _ :: _, [] => by simp [Value.deepEqFields]
  | (k, v) :: as, (k', v') :: bs, (k'', v'') :: cs => by
    simp only [Value.deepEqFields, Bool.and_eq_true, beq_iff_eq]
    intro h1 h2
    exact ⟨⟨h1.1.1.trans h2.1.1, Value.deepEq_trans v v' v'' h1.1.2 h2.1.2⟩,
      Value.deepEqFields_trans as bs cs h1.2 h2.2⟩
end

theorem eqOpt_refl {α : Type} (eq : α → α → Bool) (h : ∀ a, eq a a = true) (x : Option α) : eqOpt eq x x = true := by
  cases x <;> simp [eqOpt, h]

theorem eqOpt_symm {α : Type} (eq : α → α → Bool) (x y : Option α) (h : ∀ a b, x = some a → eq a b = eq b a) :
    eqOpt eq x y = eqOpt eq y x := by
  cases x <;> cases y <;> simp [eqOpt]
  exact h _ _ rfl

theorem eqOpt_trans {α : Type} (eq : α → α → Bool) (x y z : Option α)
    (h : ∀ a b c, x = some a → eq a b = true → eq b c = true → eq a c = true) :
    eqOpt eq x y = true → eqOpt eq y z = true → eqOpt eq x z = true := by
  cases x <;> cases y <;> cases z <;> simp [eqOpt]
  exact h _ _ _ rfl

/-! ### `Atom.equals` through `eqOpt` -/

theorem Atom.equals_mk (s1 s2 : Option String) (l1 l2 : Option ListT) (m1 m2 : Option MapT) :
    Atom.equals (.mk s1 l1 m1) (.mk s2 l2 m2) =
      (s1 == s2 && eqOpt ListT.equals l1 l2 && eqOpt MapT.equals m1 m2) := by
  cases l1 <;> cases l2 <;> cases m1 <;> cases m2 <;> simp [Atom.equals, eqOpt]

mutual
theorem Atom.equals_refl : ∀ a : Atom, Atom.equals a a = true
  | .mk s l m => by
    rw [Atom.equals_mk]
    simp only [beq_self_eq_true, Bool.true_and, Bool.and_eq_true]
    constructor
    · cases l with
      | none => rfl
      | some x => exact ListT.equals_refl x
    · cases m with
      | none => rfl
      | some x => exact MapT.equals_refl x
theorem ListT.equals_refl : ∀ a : ListT, ListT.equals a a = true
  | .mk e r k => by simp [ListT.equals, TypeRef.equals_refl e]
theorem MapT.equals_refl : ∀ a : MapT, MapT.equals a a = true
  | .mk f u e r => by simp [MapT.equals, TypeRef.equals_refl e, StructField.equalsList_refl f]
theorem StructField.equalsList_refl : ∀ a : List StructField, StructField.equalsList a a = true
  | [] => by simp [StructField.equalsList]
  | a :: as => by simp [StructField.equalsList, StructField.equals_refl a, StructField.equalsList_refl as]
theorem StructField.equals_refl : ∀ a : StructField, StructField.equals a a = true
  | .mk n t d => by
    simp only [StructField.equals, beq_self_eq_true, Bool.true_and, Bool.and_eq_true]
    exact ⟨eqOpt_refl _ Value.deepEq_refl d, TypeRef.equals_refl t⟩
theorem TypeRef.equals_refl : ∀ a : TypeRef, TypeRef.equals a a = true
  | .mk n a r => by simp [TypeRef.equals, Atom.equals_refl a]
end

mutual
theorem Atom.equals_symm : ∀ a b : Atom, Atom.equals a b = Atom.equals b a
  | .mk s l m, .mk s' l' m' => by
    rw [Atom.equals_mk, Atom.equals_mk]
    have h1 : eqOpt ListT.equals l l' = eqOpt ListT.equals l' l := by
      cases l with
      | none => cases l' <;> rfl
      | some x =>
        cases l' with
        | none => rfl
        | some y => exact ListT.equals_symm x y
    have h2 : eqOpt MapT.equals m m' = eqOpt MapT.equals m' m := by
      cases m with
      | none => cases m' <;> rfl
      | some x =>
        cases m' with
        | none => rfl
        | some y => exact MapT.equals_symm x y
    rw [h1, h2, Bool.beq_comm]
theorem ListT.equals_symm : ∀ a b : ListT, ListT.equals a b = ListT.equals b a
  | .mk e r k, .mk e' r' k' => by
    simp only [ListT.equals, TypeRef.equals_symm e e']
    rw [Bool.beq_comm (a := r), Bool.beq_comm (a := k)]
theorem MapT.equals_symm : ∀ a b : MapT, MapT.equals a b = MapT.equals b a
  | .mk f u e r, .mk f' u' e' r' => by
    simp only [MapT.equals, TypeRef.equals_symm e e', StructField.equalsList_symm f f']
    rw [Bool.beq_comm (a := r)]
    congr 1
    simp [eq_comm]
theorem StructField.equalsList_symm : ∀ a b : List StructField,
    StructField.equalsList a b = StructField.equalsList b a
  | [], b => by cases b <;> simp [StructField.equalsList]
  | _ :: _, [] => by simp [StructField.equalsList]
  | a :: as, b :: bs => by
    simp [StructField.equalsList, StructField.equals_symm a b, StructField.equalsList_symm as bs]
theorem StructField.equals_symm : ∀ a b : StructField, StructField.equals a b = StructField.equals b a
  | .mk n t d, .mk n' t' d' => by
    simp only [StructField.equals, TypeRef.equals_symm t t']
    rw [Bool.beq_comm (a := n), eqOpt_symm Value.deepEq d d' (fun a b _ => Value.deepEq_symm a b)]
theorem TypeRef.equals_symm : ∀ a b : TypeRef, TypeRef.equals a b = TypeRef.equals b a
  | .mk n a r, .mk n' a' r' => by
    simp only [TypeRef.equals, Atom.equals_symm a a']
    rw [Bool.beq_comm (a := n), Bool.beq_comm (a := r)]
end

mutual
theorem Atom.equals_trans : ∀ a b c : Atom, Atom.equals a b = true → Atom.equals b c = true →
    Atom.equals a c = true
  | .mk s l m, .mk s' l' m', .mk s'' l'' m'' => by
    rw [Atom.equals_mk, Atom.equals_mk, Atom.equals_mk]
    simp only [Bool.and_eq_true, beq_iff_eq]
    intro h1 h2
    refine ⟨⟨h1.1.1.trans h2.1.1, ?_⟩, ?_⟩
    · have h3 := h1.1.2
      have h4 := h2.1.2
      cases l with
      | none => cases l' <;> cases l'' <;> simp_all [eqOpt]
      | some x =>
        cases l' with
        | none => simp [eqOpt] at h3
        | some y =>
          cases l'' with
          | none => simp [eqOpt] at h4
          | some z => exact ListT.equals_trans x y z h3 h4
    · have h3 := h1.2
      have h4 := h2.2
      cases m with
      | none => cases m' <;> cases m'' <;> simp_all [eqOpt]
      | some x =>
        cases m' with
        | none => simp [eqOpt] at h3
        | some y =>
          cases m'' with
          | none => simp [eqOpt] at h4
          | some z => exact MapT.equals_trans x y z h3 h4
theorem ListT.equals_trans : ∀ a b c : ListT, ListT.equals a b = true → ListT.equals b c = true →
    ListT.equals a c = true
  | .mk e r k, .mk e' r' k', .mk e'' r'' k'' => by
    simp only [ListT.equals, Bool.and_eq_true, beq_iff_eq]
    intro h1 h2
    exact ⟨⟨TypeRef.equals_trans e e' e'' h1.1.1 h2.1.1, h1.1.2.trans h2.1.2⟩, h1.2.trans h2.2⟩
theorem MapT.equals_trans : ∀ a b c : MapT, MapT.equals a b = true → MapT.equals b c = true →
    MapT.equals a c = true
  | .mk f u e r, .mk f' u' e' r', .mk f'' u'' e'' r'' => by
    simp only [MapT.equals, Bool.and_eq_true, beq_iff_eq, decide_eq_true_eq]
    intro h1 h2
    exact ⟨⟨⟨TypeRef.equals_trans e e' e'' h1.1.1.1 h2.1.1.1, h1.1.1.2.trans h2.1.1.2⟩,
      StructField.equalsList_trans f f' f'' h1.1.2 h2.1.2⟩, h1.2.trans h2.2⟩
theorem StructField.equalsList_trans : ∀ a b c : List StructField, StructField.equalsList a b = true →
    StructField.equalsList b c = true → StructField.equalsList a c = true
  | [], b, c => by cases b <;> cases c <;> simp [StructField.equalsList]
  | _ :: _, [], c => by simp [StructField.equalsList]
  | _ :: _, _ :: _, [] => by simp [StructField.equalsList]
  | a :: as, b :: bs, c :: cs => by
    simp only [StructField.equalsList, Bool.and_eq_true]
    intro h1 h2
    exact ⟨StructField.equals_trans a b c h1.1 h2.1, StructField.equalsList_trans as bs cs h1.2 h2.2⟩
theorem StructField.equals_trans : ∀ a b c : StructField, StructField.equals a b = true →
    StructField.equals b c = true → StructField.equals a c = true
  | .mk n t d, .mk n' t' d', .mk n'' t'' d'' => by
    simp only [StructField.equals, Bool.and_eq_true, beq_iff_eq]
    intro h1 h2
    exact ⟨⟨h1.1.1.trans h2.1.1,
      eqOpt_trans Value.deepEq d d' d'' (fun a b c _ => Value.deepEq_trans a b c) h1.1.2 h2.1.2⟩,
      TypeRef.equals_trans t t' t'' h1.2 h2.2⟩
theorem TypeRef.equals_trans : ∀ a b c : TypeRef, TypeRef.equals a b = true → TypeRef.equals b c = true →
    TypeRef.equals a c = true
  | .mk n a r, .mk n' a' r', .mk n'' a'' r'' => by
    simp only [TypeRef.equals, Bool.and_eq_true, beq_iff_eq]
    intro h1 h2
    exact ⟨⟨h1.1.1.trans h2.1.1, h1.1.2.trans h2.1.2⟩, Atom.equals_trans a a' a'' h1.2 h2.2⟩
end

end CmpX
end SMD
