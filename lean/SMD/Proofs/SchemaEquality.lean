/- helper lemmas for SMD/Properties/C17Schema.lean -/
import SMD.Model.Schema
import SMD.Proofs.ValueOrder
import SMD.Proofs.SchemaEq
namespace SMD

/-! ### the identification made by `reflect.DeepEqual` on floats: the sign flag is not seen -/

mutual
/-- forget the sign flag of every float (`-0.0 == 0.0` in Go, so `reflect.DeepEqual` cannot see it) -/
def Value.eraseNegz : Value → Value
  | .null => .null
  | .bool b => .bool b
  | .int i => .int i
  | .float u _ => .float u false
  | .str s => .str s
  | .list l => .list (Value.eraseNegzList l)
  | .map m => .map (Value.eraseNegzFields m)
def Value.eraseNegzList : List Value → List Value
  | [] => []
  | a :: as => Value.eraseNegz a :: Value.eraseNegzList as
def Value.eraseNegzFields : List (String × Value) → List (String × Value)
  | [] => []
  | (k, v) :: as => (k, Value.eraseNegz v) :: Value.eraseNegzFields as
end

mutual
def Atom.eraseNegz : Atom → Atom
  | .mk s l m =>
    .mk s
      (match l with
       | none => none
       | some x => some (ListT.eraseNegz x))
      (match m with
       | none => none
       | some x => some (MapT.eraseNegz x))
def ListT.eraseNegz : ListT → ListT
  | .mk e r k => .mk (TypeRef.eraseNegz e) r k
def MapT.eraseNegz : MapT → MapT
  | .mk f u e r => .mk (StructField.eraseNegzList f) u (TypeRef.eraseNegz e) r
def StructField.eraseNegzList : List StructField → List StructField
  | [] => []
  | a :: as => StructField.eraseNegz a :: StructField.eraseNegzList as
def StructField.eraseNegz : StructField → StructField
  | .mk n t d =>
    .mk n (TypeRef.eraseNegz t)
      (match d with
       | none => none
       | some v => some (Value.eraseNegz v))
def TypeRef.eraseNegz : TypeRef → TypeRef
  | .mk n a r => .mk n (Atom.eraseNegz a) r
end

def TypeDef.eraseNegz (t : TypeDef) : TypeDef := ⟨t.name, t.atom.eraseNegz⟩
def TypeDef.eraseNegzList : List TypeDef → List TypeDef
  | [] => []
  | a :: as => TypeDef.eraseNegz a :: TypeDef.eraseNegzList as
def Schema.eraseNegz (s : Schema) : Schema := ⟨TypeDef.eraseNegzList s.types⟩

/-! ### `Value.deepEq` is equality up to the sign flags -/

mutual
theorem Value.deepEq_iff : ∀ a b : Value, Value.deepEq a b = true ↔ a.eraseNegz = b.eraseNegz
  | .null, b => by cases b <;> simp [Value.deepEq, Value.eraseNegz]
  | .bool x, b => by cases b <;> simp [Value.deepEq, Value.eraseNegz]
  | .int x, b => by cases b <;> simp [Value.deepEq, Value.eraseNegz]
  | .float x _, b => by cases b <;> simp [Value.deepEq, Value.eraseNegz]
  | .str x, b => by cases b <;> simp [Value.deepEq, Value.eraseNegz]
  | .list l, b => by cases b <;> simp [Value.deepEq, Value.eraseNegz, Value.deepEqList_iff l]
  | .map m, b => by cases b <;> simp [Value.deepEq, Value.eraseNegz, Value.deepEqFields_iff m]
theorem Value.deepEqList_iff : ∀ a b : List Value,
    Value.deepEqList a b = true ↔ Value.eraseNegzList a = Value.eraseNegzList b
  | [], b => by cases b <;> simp [Value.deepEqList, Value.eraseNegzList]
  | _ :: _, [] => by simp [Value.deepEqList, Value.eraseNegzList]
  | a :: as, b :: bs => by
    simp [Value.deepEqList, Value.eraseNegzList, Value.deepEq_iff a b, Value.deepEqList_iff as bs]
theorem Value.deepEqFields_iff : ∀ a b : List (String × Value),
    Value.deepEqFields a b = true ↔ Value.eraseNegzFields a = Value.eraseNegzFields b
  | [], b => by cases b <;> simp [Value.deepEqFields, Value.eraseNegzFields]
  | _ :: _, [] => by simp [Value.deepEqFields, Value.eraseNegzFields]
  | (k, v) :: as, (k', v') :: bs => by
    simp [Value.deepEqFields, Value.eraseNegzFields, Value.deepEq_iff v v', Value.deepEqFields_iff as bs,
      and_assoc]
end

/-! ### `Atom.equals` and companions are equality up to the sign flags of the defaults -/

mutual
theorem Atom.equals_iff : ∀ a b : Atom, Atom.equals a b = true ↔ a.eraseNegz = b.eraseNegz
  | .mk s none none, .mk s' l' m' => by
    cases l' <;> cases m' <;> simp [Atom.equals, Atom.eraseNegz]
  | .mk s (some x) none, .mk s' l' m' => by
    cases l' <;> cases m' <;> simp [Atom.equals, Atom.eraseNegz, ListT.equals_iff x]
  | .mk s none (some y), .mk s' l' m' => by
    cases l' <;> cases m' <;> simp [Atom.equals, Atom.eraseNegz, MapT.equals_iff y]
  | .mk s (some x) (some y), .mk s' l' m' => by
    cases l' <;> cases m' <;> simp [Atom.equals, Atom.eraseNegz, ListT.equals_iff x, MapT.equals_iff y, and_assoc]
theorem ListT.equals_iff : ∀ a b : ListT, ListT.equals a b = true ↔ a.eraseNegz = b.eraseNegz
  | .mk e r k, .mk e' r' k' => by
    simp [ListT.equals, ListT.eraseNegz, TypeRef.equals_iff e e', and_assoc]
theorem MapT.equals_iff : ∀ a b : MapT, MapT.equals a b = true ↔ a.eraseNegz = b.eraseNegz
  | .mk f u e r, .mk f' u' e' r' => by
    simp only [MapT.equals, MapT.eraseNegz, Bool.and_eq_true, beq_iff_eq, decide_eq_true_eq,
      TypeRef.equals_iff e e', StructField.equalsList_iff f f', MapT.mk.injEq]
    constructor
    · rintro ⟨⟨⟨h1, h2⟩, h3⟩, h4⟩; exact ⟨h3, h4, h1, h2⟩
    · rintro ⟨h3, h4, h1, h2⟩; exact ⟨⟨⟨h1, h2⟩, h3⟩, h4⟩
theorem StructField.equalsList_iff : ∀ a b : List StructField,
    StructField.equalsList a b = true ↔ StructField.eraseNegzList a = StructField.eraseNegzList b
  | [], b => by cases b <;> simp [StructField.equalsList, StructField.eraseNegzList]
  | _ :: _, [] => by simp [StructField.equalsList, StructField.eraseNegzList]
  | a :: as, b :: bs => by
    simp [StructField.equalsList, StructField.eraseNegzList, StructField.equals_iff a b,
      StructField.equalsList_iff as bs]
theorem StructField.equals_iff : ∀ a b : StructField, StructField.equals a b = true ↔ a.eraseNegz = b.eraseNegz
  | .mk n t d, .mk n' t' d' => by
    have h : eqOpt Value.deepEq d d' = true ↔
        (match d with | none => none | some v => some (Value.eraseNegz v)) =
        (match d' with | none => none | some v => some (Value.eraseNegz v)) := by
      cases d <;> cases d' <;> simp [eqOpt, Value.deepEq_iff]
    simp only [StructField.equals, StructField.eraseNegz, Bool.and_eq_true, beq_iff_eq, h,
      TypeRef.equals_iff t t', StructField.mk.injEq]
    constructor
    · rintro ⟨⟨h1, h2⟩, h3⟩; exact ⟨h1, h3, h2⟩
    · rintro ⟨h1, h3, h2⟩; exact ⟨⟨h1, h2⟩, h3⟩
theorem TypeRef.equals_iff : ∀ a b : TypeRef, TypeRef.equals a b = true ↔ a.eraseNegz = b.eraseNegz
  | .mk n a r, .mk n' a' r' => by
    simp only [TypeRef.equals, TypeRef.eraseNegz, Bool.and_eq_true, beq_iff_eq, Atom.equals_iff a a',
      TypeRef.mk.injEq]
    constructor
    · rintro ⟨⟨h1, h2⟩, h3⟩; exact ⟨h1, h3, h2⟩
    · rintro ⟨h1, h3, h2⟩; exact ⟨⟨h1, h2⟩, h3⟩
end

theorem TypeDef.equals_iff (a b : TypeDef) : TypeDef.equals a b = true ↔ a.eraseNegz = b.eraseNegz := by
  cases a; cases b
  simp [TypeDef.equals, TypeDef.eraseNegz, Atom.equals_iff]

theorem TypeDef.equalsList_iff : ∀ a b : List TypeDef,
    TypeDef.equalsList a b = true ↔ TypeDef.eraseNegzList a = TypeDef.eraseNegzList b
  | [], b => by cases b <;> simp [TypeDef.equalsList, TypeDef.eraseNegzList]
  | _ :: _, [] => by simp [TypeDef.equalsList, TypeDef.eraseNegzList]
  | a :: as, b :: bs => by
    simp [TypeDef.equalsList, TypeDef.eraseNegzList, TypeDef.equals_iff a b, TypeDef.equalsList_iff as bs]

theorem Schema.equals_iff (a b : Schema) : Schema.equals a b = true ↔ a.eraseNegz = b.eraseNegz := by
  cases a; cases b
  simp [Schema.equals, Schema.eraseNegz, TypeDef.equalsList_iff]

/-- no default float carries a set sign flag (erasing the flags changes nothing) -/
def Atom.NegzFree (a : Atom) : Prop := a.eraseNegz = a
def TypeRef.NegzFree (a : TypeRef) : Prop := a.eraseNegz = a
def Schema.NegzFree (a : Schema) : Prop := a.eraseNegz = a

theorem Atom.equals_iff_eq_of_negzFree {a b : Atom} (ha : a.NegzFree) (hb : b.NegzFree) :
    Atom.equals a b = true ↔ a = b := by
  rw [Atom.equals_iff, ha, hb]
theorem TypeRef.equals_iff_eq_of_negzFree {a b : TypeRef} (ha : a.NegzFree) (hb : b.NegzFree) :
    TypeRef.equals a b = true ↔ a = b := by
  rw [TypeRef.equals_iff, ha, hb]
theorem Schema.equals_iff_eq_of_negzFree {a b : Schema} (ha : a.NegzFree) (hb : b.NegzFree) :
    Schema.equals a b = true ↔ a = b := by
  rw [Schema.equals_iff, ha, hb]

/-! ### equivalence laws for `Schema.equals` -/

theorem Schema.equals_refl (a : Schema) : Schema.equals a a = true := (Schema.equals_iff a a).2 rfl

theorem Schema.equals_symm (a b : Schema) : Schema.equals a b = Schema.equals b a := by
  rw [Bool.eq_iff_iff, Schema.equals_iff, Schema.equals_iff]
  exact eq_comm

theorem Schema.equals_trans (a b c : Schema) (h1 : Schema.equals a b = true) (h2 : Schema.equals b c = true) :
    Schema.equals a c = true :=
  (Schema.equals_iff a c).2 (((Schema.equals_iff a b).1 h1).trans ((Schema.equals_iff b c).1 h2))

end SMD
