/-
Tree layer of the field-set serialisation (`SMD/Model/Serialize.lean`): the reader keeps the
representation invariant, skips unknown element kinds, reports no error on documents whose keys all
parse, and reading an emitted set returns a set with the same members.
-/
import SMD.Model.Serialize
import SMD.Proofs.SetAlgebra
namespace SMD
namespace Ser
open SetTrie SMD.PEOrd

attribute [local grind =] less_eq_lt equals_eq_le

/-! ### append-if-in-order is the sorted insert on sorted lists -/

theorem peInsert_eq_append (pe : PE) (m : List PE) (h : ∀ a ∈ m, a < pe) : peInsert pe m = m ++ [pe] := by
  induction m with
  | nil => rfl
  | cons x xs ih =>
    have hx : PE.less x pe = true := h x (by simp)
    simp only [peInsert, List.cons_append]
    rw [if_pos hx, ih (fun a ha => h a (by simp [ha]))]

theorem lt_of_sorted_getLast {m : List PE} {last pe : PE} (hm : SortedPE m)
    (hl : m.getLast? = some last) (hlt : last < pe) : ∀ a ∈ m, a < pe := by
  obtain ⟨ys, rfl⟩ := List.getLast?_eq_some_iff.1 hl
  have := List.pairwise_append.1 hm
  intro a ha
  rcases List.mem_append.1 ha with ha | ha
  · have := this.2.2 a ha last (by simp); grind
  · simp at ha; subst ha; exact hlt

theorem addMember_eq (pe : PE) {m : List PE} (hm : SortedPE m) : addMember pe m = peInsert pe m := by
  unfold addMember
  cases hl : m.getLast? with
  | none => rw [List.getLast?_eq_none_iff] at hl; subst hl; rfl
  | some last =>
    simp only
    split
    · rename_i hlt
      rw [peInsert_eq_append pe m (lt_of_sorted_getLast hm hl hlt)]
    · rfl

theorem descendWith_eq_append (pe : PE) (f : SetTrie → SetTrie) (c : Children) (h : ∀ p ∈ c, p.1 < pe) :
    descendWith pe f c = c ++ [(pe, f empty)] := by
  induction c with
  | nil => rfl
  | cons p c ih =>
    obtain ⟨x, t⟩ := p
    have hx : PE.less x pe = true := h (x, t) (by simp)
    simp only [descendWith, List.cons_append]
    rw [if_pos hx, ih (fun a ha => h a (by simp [ha]))]

theorem lt_of_sortedKeys_getLast {c : Children} {last : PE × SetTrie} {pe : PE} (hc : SortedKeys c)
    (hl : c.getLast? = some last) (hlt : last.1 < pe) : ∀ p ∈ c, p.1 < pe := by
  obtain ⟨ys, rfl⟩ := List.getLast?_eq_some_iff.1 hl
  have := List.pairwise_append.1 hc
  intro a ha
  rcases List.mem_append.1 ha with ha | ha
  · have := this.2.2 a ha last (by simp); grind
  · simp at ha; subst ha; exact hlt

theorem addChild_eq (pe : PE) (g : SetTrie) {c : Children} (hc : SortedKeys c) :
    addChild pe g c = descendWith pe (fun _ => g) c := by
  unfold addChild
  cases hl : c.getLast? with
  | none => rw [List.getLast?_eq_none_iff] at hl; subst hl; rfl
  | some last =>
    simp only
    split
    · rename_i hlt
      rw [descendWith_eq_append pe _ c (lt_of_sortedKeys_getLast hc hl hlt)]
    · rfl

/-! ### one reading step -/

/-- the reader's accumulator holds either nil or a well-formed, non-empty set -/
def Good (o : Option SetTrie) : Prop := ∀ t, o = some t → wf t = true ∧ isEmpty t = false

/-- the set an accumulator stands for -/
abbrev tr (o : Option SetTrie) : SetTrie := o.getD empty

theorem good_none : Good none := by intro t h; cases h

theorem wf_tr {o : Option SetTrie} (h : Good o) : wf (tr o) = true := by
  cases o with
  | none => exact wf_empty
  | some t => exact (h t rfl).1

/-- the accumulator update performed by `readMembersWith` for a member that parsed as `pe` -/
def stepChildren (pe : PE) (g : ReadOut) (o : Option SetTrie) : Option SetTrie :=
  let cur : SetTrie := o.getD SetTrie.empty
  let withMember : Option SetTrie :=
    if g.isMember then some (.node (addMember pe cur.members) cur.children) else o
  let cur2 : SetTrie := withMember.getD SetTrie.empty
  match g.children with
  | some gc => some (.node cur2.members (addChild pe gc cur2.children))
  | none => withMember

theorem readMembers_nil (k : KeyCodec) (acc : ReadOut) : readMembersWith k [] acc = acc := by
  rw [readMembersWith]

theorem readMembers_dot (k : KeyCodec) (sub : J) (rest : List (String × J)) (acc : ReadOut) :
    readMembersWith k ((".", sub) :: rest) acc = readMembersWith k rest { acc with isMember := true } := by
  rw [readMembersWith]; simp

theorem readMembers_ok (k : KeyCodec) {key : String} {pe : PE} (sub : J) (rest : List (String × J))
    (acc : ReadOut) (hd : key ≠ ".") (h : k.dec key = .ok pe) :
    readMembersWith k ((key, sub) :: rest) acc =
      readMembersWith k rest
        ⟨stepChildren pe (readV1With k sub) acc.children, acc.isMember,
          acc.err || (readV1With k sub).err, acc.unsupported || (readV1With k sub).unsupported⟩ := by
  rw [readMembersWith]
  simp only [beq_iff_eq, hd, if_false, h]
  rfl

theorem readMembers_unknown (k : KeyCodec) {key : String} (sub : J) (rest : List (String × J))
    (acc : ReadOut) (hd : key ≠ ".") (h : k.dec key = .error .unknownType) :
    readMembersWith k ((key, sub) :: rest) acc = readMembersWith k rest acc := by
  rw [readMembersWith]
  simp only [beq_iff_eq, hd, if_false, h]

theorem readMembers_unsupported (k : KeyCodec) {key : String} (sub : J) (rest : List (String × J))
    (acc : ReadOut) (hd : key ≠ ".") (h : k.dec key = .error .unsupported) :
    readMembersWith k ((key, sub) :: rest) acc = readMembersWith k rest { acc with unsupported := true } := by
  rw [readMembersWith]
  simp only [beq_iff_eq, hd, if_false, h]

theorem readMembers_bad (k : KeyCodec) {key : String} (sub : J) (rest : List (String × J))
    (acc : ReadOut) (hd : key ≠ ".") (h : k.dec key = .error .bad) :
    readMembersWith k ((key, sub) :: rest) acc = readMembersWith k rest { acc with err := true } := by
  rw [readMembersWith]
  simp only [beq_iff_eq, hd, if_false, h]

/-- case analysis on one member -/
theorem readMembers_cases (k : KeyCodec) (key : String) :
    key = "." ∨ (key ≠ "." ∧ ((∃ pe, k.dec key = .ok pe) ∨ k.dec key = .error .unknownType ∨
      k.dec key = .error .unsupported ∨ k.dec key = .error .bad)) := by
  by_cases hd : key = "."
  · exact .inl hd
  · refine .inr ⟨hd, ?_⟩
    cases h : k.dec key with
    | ok pe => exact .inl ⟨pe, rfl⟩
    | error e => cases e <;> simp

theorem wf_fields {t : SetTrie} (h : wf t = true) :
    SortedPE t.members ∧ SortedKeys t.children ∧ ∀ p ∈ t.children, wf p.2 = true ∧ isEmpty p.2 = false := by
  obtain ⟨m, c⟩ := t
  exact wf_node.1 h

theorem tr_stepChildren (pe : PE) (g : ReadOut) {o : Option SetTrie} (ho : Good o) :
    tr (stepChildren pe g o) =
      node (if g.isMember then peInsert pe (tr o).members else (tr o).members)
        (match g.children with
         | some gc => descendWith pe (fun _ => gc) (tr o).children
         | none => (tr o).children) := by
  have hw := wf_tr ho
  generalize htr : tr o = cur at hw
  obtain ⟨m, c⟩ := cur
  have hw' := wf_node.1 hw
  have htr' : o.getD empty = node m c := htr
  unfold stepChildren
  simp only [htr', SetTrie.members, SetTrie.children]
  cases hm : g.isMember <;> cases hc : g.children <;>
    simp [tr, htr', addMember_eq pe hw'.1, addChild_eq pe _ hw'.2.1]

theorem isSome_stepChildren (pe : PE) (g : ReadOut) (o : Option SetTrie) :
    (stepChildren pe g o).isSome = (o.isSome || g.isMember || g.children.isSome) := by
  unfold stepChildren
  cases hm : g.isMember <;> cases hc : g.children <;> simp

theorem stepChildren_inert (pe : PE) (g : ReadOut) (o : Option SetTrie) (hm : g.isMember = false)
    (hc : g.children = none) : stepChildren pe g o = o := by
  unfold stepChildren
  simp [hm, hc]

theorem good_stepChildren (pe : PE) (g : ReadOut) {o : Option SetTrie} (ho : Good o) (hg : Good g.children) :
    Good (stepChildren pe g o) := by
  intro t ht
  by_cases hin : g.isMember = false ∧ g.children = none
  · rw [stepChildren_inert pe g o hin.1 hin.2] at ht
    exact ho t ht
  have htr : tr (stepChildren pe g o) = t := by simp [tr, ht]
  have hw := wf_fields (wf_tr ho)
  rw [tr_stepChildren pe g ho] at htr
  rw [← htr]
  constructor
  · rw [wf_node]
    refine ⟨?_, ?_, ?_⟩
    · split
      · exact sorted_peInsert pe hw.1
      · exact hw.1
    · split
      · exact sorted_descendWith pe _ hw.2.1
      · exact hw.2.1
    · intro p hp
      split at hp
      · rename_i gc hgc
        rcases mem_descendWith hp with h | h | ⟨x, t, _, h⟩
        · exact hw.2.2 p h
        · subst h; exact hg gc hgc
        · subst h; exact hg gc hgc
      · exact hw.2.2 p hp
  · by_cases hm : g.isMember = true
    · rw [isEmpty_node, if_pos hm]
      have := peInsert_ne_nil pe (tr o).members
      cases h : peInsert pe (tr o).members with
      | nil => exact absurd h this
      | cons a l => simp
    · cases hc : g.children with
      | none => exact absurd ⟨by simpa using hm, hc⟩ hin
      | some gc =>
        rw [isEmpty_node]
        have hne := (hg gc hc).2
        have : getChild pe (descendWith pe (fun _ => gc) (tr o).children) = some gc := by
          rw [getChild_descendWith]; simp [PE.equals_refl]
        obtain ⟨x, hx, _⟩ := mem_of_getChild this
        have : (descendWith pe (fun _ => gc) (tr o).children).all (fun p => isEmpty p.2) = false := by
          rw [List.all_eq_false]; exact ⟨_, hx, by simp [hne]⟩
        simp [this]

/-- membership of `q` below a child stored under `pe` -/
def hasUnder (pe : PE) (t : SetTrie) : Path → Bool
  | [] => false
  | x :: r => PE.equals pe x && has r t

theorem has_stepChildren (pe : PE) (g : ReadOut) {o : Option SetTrie} (ho : Good o)
    (hfresh : g.children.isSome → getChild pe (tr o).children = none) (q : Path) :
    has q (tr (stepChildren pe g o)) =
      ((g.isMember && Path.equals [pe] q) ||
        (match g.children with | some gc => hasUnder pe gc q | none => false) || has q (tr o)) := by
  rw [tr_stepChildren pe g ho]
  generalize tr o = cur at hfresh
  obtain ⟨m, c⟩ := cur
  simp only [SetTrie.members, SetTrie.children] at hfresh ⊢
  cases q with
  | nil => cases g.children <;> simp [has_nil, Path.equals, hasUnder]
  | cons x r =>
    by_cases hr : r = []
    · subst hr
      simp only [has_single, Path.equals, hasUnder, has_nil, Bool.and_true, Bool.and_false]
      cases hm : g.isMember <;> cases g.children <;> simp [peHas_peInsert]
    · have hpe : Path.equals [pe] (x :: r) = false := by
        cases r with
        | nil => exact absurd rfl hr
        | cons y r => simp [Path.equals]
      rw [has_cons hr, has_cons hr, hpe]
      cases hc : g.children with
      | none => simp
      | some gc =>
        have hf := hfresh (by simp [hc])
        simp only [hasUnder, getChild_descendWith, Bool.and_false, Bool.false_or]
        by_cases he : PE.equals pe x = true
        · rw [← getChild_congr he, hf]; simp [he, hasOpt]
        · simp [he]

/-! ### robustness of the reader -/

theorem readMembers_skip (k : KeyCodec) (b : List (String × J)) (key : String) (sub : J)
    (h : k.dec key = .error .unknownType) (hd : key ≠ ".") :
    ∀ (a : List (String × J)) (acc : ReadOut),
      readMembersWith k (a ++ (key, sub) :: b) acc = readMembersWith k (a ++ b) acc
  | [], acc => by simpa using readMembers_unknown k sub b acc hd h
  | (key', sub') :: a, acc => by
    have ih := readMembers_skip k b key sub h hd a
    simp only [List.cons_append]
    rcases readMembers_cases k key' with rfl | ⟨hd', ⟨pe, hp⟩ | hp | hp | hp⟩
    · rw [readMembers_dot, readMembers_dot, ih]
    · rw [readMembers_ok k _ _ _ hd' hp, readMembers_ok k _ _ _ hd' hp, ih]
    · rw [readMembers_unknown k _ _ _ hd' hp, readMembers_unknown k _ _ _ hd' hp, ih]
    · rw [readMembers_unsupported k _ _ _ hd' hp, readMembers_unsupported k _ _ _ hd' hp, ih]
    · rw [readMembers_bad k _ _ _ hd' hp, readMembers_bad k _ _ _ hd' hp, ih]

mutual
theorem good_readV1 (k : KeyCodec) : ∀ j : J, Good (readV1With k j).children
  | .obj ms => by
    have := good_readMembers k ms ⟨none, false, false, false⟩ good_none
    rw [readV1With]
    split
    · exact this
    · exact this
  | .null => by rw [readV1With]; exact good_none
  | .other => by rw [readV1With]; exact good_none
theorem good_readMembers (k : KeyCodec) :
    ∀ (ms : List (String × J)) (acc : ReadOut), Good acc.children → Good (readMembersWith k ms acc).children
  | [], acc, h => by rw [readMembers_nil]; exact h
  | (key, sub) :: rest, acc, h => by
    rcases readMembers_cases k key with rfl | ⟨hd', ⟨pe, hp⟩ | hp | hp | hp⟩
    · rw [readMembers_dot]; exact good_readMembers k rest _ h
    · rw [readMembers_ok k _ _ _ hd' hp]
      exact good_readMembers k rest _ (good_stepChildren pe _ h (good_readV1 k sub))
    · rw [readMembers_unknown k _ _ _ hd' hp]; exact good_readMembers k rest _ h
    · rw [readMembers_unsupported k _ _ _ hd' hp]; exact good_readMembers k rest _ h
    · rw [readMembers_bad k _ _ _ hd' hp]; exact good_readMembers k rest _ h
end

theorem wf_fromJSON (k : KeyCodec) (j : J) (s : SetTrie) (h : fromJSONWith k j = .ok s) : wf s = true := by
  unfold fromJSONWith at h
  simp only at h
  split at h
  · cases h
  · split at h
    · cases h
    · cases h
      exact wf_tr (good_readV1 k j)

theorem readV1_obj_nil (k : KeyCodec) : readV1With k (J.obj []) = ⟨none, true, false, false⟩ := by
  rw [readV1With, readMembers_nil]; rfl

theorem readMembers_flags (k : KeyCodec) :
    ∀ (ms : List (String × J)) (acc : ReadOut),
      (∀ x, x ∈ ms → x.1 = "." ∨ (∃ pe, k.dec x.1 = .ok pe) ∨ k.dec x.1 = .error .unknownType) →
      (∀ x, x ∈ ms → x.2 = J.obj []) →
      (readMembersWith k ms acc).err = acc.err ∧ (readMembersWith k ms acc).unsupported = acc.unsupported
  | [], acc, _, _ => by rw [readMembers_nil]; exact ⟨rfl, rfl⟩
  | (key, sub) :: rest, acc, hkeys, hsubs => by
    have ih := fun acc' => readMembers_flags k rest acc' (fun x hx => hkeys x (by simp [hx]))
      (fun x hx => hsubs x (by simp [hx]))
    have hsub : sub = J.obj [] := hsubs (key, sub) (by simp)
    subst hsub
    rcases readMembers_cases k key with rfl | ⟨hd', ⟨pe, hp⟩ | hp | hp | hp⟩
    · rw [readMembers_dot]; exact ih _
    · rw [readMembers_ok k _ _ _ hd' hp, readV1_obj_nil]
      have := ih ⟨stepChildren pe ⟨none, true, false, false⟩ acc.children, acc.isMember,
        acc.err || false, acc.unsupported || false⟩
      simpa using this
    · rw [readMembers_unknown k _ _ _ hd' hp]; exact ih _
    · rcases hkeys (key, J.obj []) (by simp) with h | ⟨pe, h⟩ | h
      · exact absurd h hd'
      · simp [hp] at h
      · simp [hp] at h
    · rcases hkeys (key, J.obj []) (by simp) with h | ⟨pe, h⟩ | h
      · exact absurd h hd'
      · simp [hp] at h
      · simp [hp] at h

theorem fromJSON_ok_of_keys (k : KeyCodec) (ms : List (String × J))
    (hkeys : ∀ x, x ∈ ms → x.1 = "." ∨ (∃ pe, k.dec x.1 = .ok pe) ∨ k.dec x.1 = .error .unknownType)
    (hsubs : ∀ x, x ∈ ms → x.2 = J.obj []) :
    ∃ s, fromJSONWith k (J.obj ms) = .ok s := by
  have h := readMembers_flags k ms ⟨none, false, false, false⟩ hkeys hsubs
  simp only at h
  have h' : (readV1With k (J.obj ms)).err = false ∧ (readV1With k (J.obj ms)).unsupported = false := by
    rw [readV1With]
    split <;> exact h
  unfold fromJSONWith
  simp only [h'.1, h'.2]
  exact ⟨_, rfl⟩

/-! ### reading what was emitted -/

theorem has_node_cons_member {mpe : PE} {ms : List PE} (cs : Children) (h : SortedPE (mpe :: ms)) (q : Path) :
    has q (node (mpe :: ms) cs) = (Path.equals [mpe] q || has q (node ms cs)) := by
  cases q with
  | nil => simp [has_nil, Path.equals]
  | cons x r =>
    by_cases hr : r = []
    · subst hr
      rw [has_single, has_single, peHas_eq_any h, peHas_eq_any (sortedPE_cons.1 h).2]
      simp [Path.equals]
    · have hpe : Path.equals [mpe] (x :: r) = false := by
        cases r with
        | nil => exact absurd rfl hr
        | cons y r => simp [Path.equals]
      rw [has_cons hr, has_cons hr, hpe]; rfl

theorem has_node_cons_child (ms : List PE) {cpe : PE} {t : SetTrie} {cs : Children}
    (h : SortedKeys ((cpe, t) :: cs)) (q : Path) :
    has q (node ms ((cpe, t) :: cs)) = (hasUnder cpe t q || has q (node ms cs)) := by
  cases q with
  | nil => simp [has_nil, hasUnder]
  | cons x r =>
    by_cases hr : r = []
    · subst hr
      simp [has_single, hasUnder, has_nil]
    · rw [has_cons hr, has_cons hr]
      have h' := sortedKeys_cons.1 h
      have e1 := @getChild_eq_none_of_lt x cs
      simp only [getChild, hasUnder]
      by_cases h1 : PE.less cpe x = true
      · have : PE.equals cpe x = false := by grind
        simp [h1, this]
      · by_cases h2 : PE.equals cpe x = true
        · have : getChild x cs = none := by
            apply e1; intro p hp; have := h'.1 p hp; grind
          simp [h1, h2, this, hasOpt]
        · have : getChild x cs = none := by
            apply e1; intro p hp; have := h'.1 p hp; grind
          simp [h1, h2, this, hasOpt]

theorem path_equals_single_congr {a b : PE} (h : PE.equals a b = true) (q : Path) :
    Path.equals [a] q = Path.equals [b] q := by
  cases q with
  | nil => rfl
  | cons x r => simp only [Path.equals, PE.equals_congr_left h]

theorem hasUnder_congr {a b : PE} {t' t : SetTrie} (h : PE.equals a b = true) (ht : ∀ r, has r t' = has r t)
    (q : Path) : hasUnder a t' q = hasUnder b t q := by
  cases q with
  | nil => rfl
  | cons x r => simp only [hasUnder, PE.equals_congr_left h, ht]

/-- one member whose key parses, read into a good accumulator that has no child under that key yet -/
theorem read_step (k : KeyCodec) {key : String} {pe : PE} (subj : J) (rest : List (String × J))
    (acc : ReadOut) (hd : key ≠ ".") (hdec : k.dec key = .ok pe) (hacc : Good acc.children)
    (hfresh : (readV1With k subj).children.isSome → getChild pe (tr acc.children).children = none)
    (herr : (readV1With k subj).err = false) (hun : (readV1With k subj).unsupported = false) :
    ∃ acc', readMembersWith k ((key, subj) :: rest) acc = readMembersWith k rest acc' ∧
      acc'.isMember = acc.isMember ∧ acc'.err = acc.err ∧ acc'.unsupported = acc.unsupported ∧
      Good acc'.children ∧
      (∀ x, ((readV1With k subj).children.isSome → PE.equals pe x = false) →
        getChild x (tr acc'.children).children = getChild x (tr acc.children).children) ∧
      ∀ q, has q (tr acc'.children) =
        (((readV1With k subj).isMember && Path.equals [pe] q) ||
          (match (readV1With k subj).children with | some gc => hasUnder pe gc q | none => false) ||
          has q (tr acc.children)) := by
  refine ⟨_, readMembers_ok k subj rest acc hd hdec, rfl, by simp [herr], by simp [hun],
    good_stepChildren pe _ hacc (good_readV1 k subj), ?_, has_stepChildren pe _ hacc hfresh⟩
  intro x hx
  simp only [tr_stepChildren pe _ hacc, SetTrie.children]
  cases hc : (readV1With k subj).children with
  | none => rfl
  | some gc =>
    have := hx (by simp [hc])
    simp [getChild_descendWith, this]

/-- the emitter succeeds on `t` and the reader recovers the members of `t` from what was emitted -/
def TreeOK (k : KeyCodec) (t : SetTrie) : Prop :=
  ∀ b, ∃ sub, emitWith k b t = some sub ∧
    (readV1With k (J.obj sub)).err = false ∧ (readV1With k (J.obj sub)).unsupported = false ∧
    (∀ q, has q (tr (readV1With k (J.obj sub)).children) = has q t) ∧
    (isEmpty t = false → (readV1With k (J.obj sub)).isMember = b ∧ (readV1With k (J.obj sub)).children.isSome)

/-- what reading the member list `l` into `acc` must produce when `l` stands for the set `extra` -/
def ReadSpec (k : KeyCodec) (l : List (String × J)) (extra : SetTrie) (acc : ReadOut) : Prop :=
  (readMembersWith k l acc).isMember = acc.isMember ∧ (readMembersWith k l acc).err = acc.err ∧
    (readMembersWith k l acc).unsupported = acc.unsupported ∧
    ∀ q, has q (tr (readMembersWith k l acc).children) = (has q (tr acc.children) || has q extra)

/-- reading an emitted member-only entry -/
theorem read_member_step (k : KeyCodec) {key : String} {pe' mpe : PE} (rest : List (String × J))
    (acc : ReadOut) (hd : key ≠ ".") (hdec : k.dec key = .ok pe') (heq : PE.equals pe' mpe = true)
    (hacc : Good acc.children) :
    ∃ acc', readMembersWith k ((key, J.obj []) :: rest) acc = readMembersWith k rest acc' ∧
      acc'.isMember = acc.isMember ∧ acc'.err = acc.err ∧ acc'.unsupported = acc.unsupported ∧
      Good acc'.children ∧
      (∀ x, getChild x (tr acc'.children).children = getChild x (tr acc.children).children) ∧
      ∀ q, has q (tr acc'.children) = (Path.equals [mpe] q || has q (tr acc.children)) := by
  obtain ⟨acc', e, h1, h2, h3, h4, h5, h6⟩ := read_step k (J.obj []) rest acc hd hdec hacc
    (by simp [readV1_obj_nil]) (by simp [readV1_obj_nil]) (by simp [readV1_obj_nil])
  refine ⟨acc', e, h1, h2, h3, h4, fun x => h5 x (by simp [readV1_obj_nil]), ?_⟩
  intro q
  rw [h6, readV1_obj_nil, path_equals_single_congr heq]
  simp

/-- reading an emitted child entry (with the `"."` marker iff `b`) -/
theorem read_child_step (k : KeyCodec) {key : String} {pe' cpe : PE} {t : SetTrie} (b : Bool)
    {sub : List (String × J)} (rest : List (String × J))
    (acc : ReadOut) (hd : key ≠ ".") (hdec : k.dec key = .ok pe') (heq : PE.equals pe' cpe = true)
    (hacc : Good acc.children) (hfresh : getChild cpe (tr acc.children).children = none)
    (hne : isEmpty t = false)
    (herr : (readV1With k (J.obj sub)).err = false) (hun : (readV1With k (J.obj sub)).unsupported = false)
    (hhas : ∀ q, has q (tr (readV1With k (J.obj sub)).children) = has q t)
    (hmem : isEmpty t = false →
      (readV1With k (J.obj sub)).isMember = b ∧ (readV1With k (J.obj sub)).children.isSome) :
    ∃ acc', readMembersWith k ((key, J.obj sub) :: rest) acc = readMembersWith k rest acc' ∧
      acc'.isMember = acc.isMember ∧ acc'.err = acc.err ∧ acc'.unsupported = acc.unsupported ∧
      Good acc'.children ∧
      (∀ x, PE.equals cpe x = false →
        getChild x (tr acc'.children).children = getChild x (tr acc.children).children) ∧
      ∀ q, has q (tr acc'.children) =
        ((b && Path.equals [cpe] q) || hasUnder cpe t q || has q (tr acc.children)) := by
  obtain ⟨acc', e, h1, h2, h3, h4, h5, h6⟩ := read_step k (J.obj sub) rest acc hd hdec hacc
    (fun _ => by rw [getChild_congr heq]; exact hfresh) herr hun
  refine ⟨acc', e, h1, h2, h3, h4, ?_, ?_⟩
  · intro x hx
    apply h5 x
    intro _
    rw [PE.equals_congr_left heq]; exact hx
  · intro q
    obtain ⟨hm, hs⟩ := hmem hne
    rw [h6, hm]
    cases hc : (readV1With k (J.obj sub)).children with
    | none => simp [hc] at hs
    | some gc =>
      have hg : ∀ r, has r gc = has r t := by intro r; have := hhas r; simpa [hc, tr] using this
      simp only
      rw [path_equals_single_congr heq, hasUnder_congr heq hg]

theorem equals_false_of_lt {a b : PE} (h : a < b) : PE.equals a b = false := by
  cases h' : PE.equals a b
  · rfl
  · grind

/-- the three codec laws at one path element: it is printable, the printed key is not the membership
marker, and reading the printed key yields an equivalent element -/
def LawAt (k : KeyCodec) (pe : PE) : Prop :=
  ∃ s, k.enc pe = some s ∧ s ≠ "." ∧ ∃ pe', k.dec s = .ok pe' ∧ PE.equals pe' pe = true

theorem lawAt_of_laws (k : KeyCodec) (htotal : ∀ pe, ∃ s, k.enc pe = some s)
    (hround : ∀ pe s, k.enc pe = some s → ∃ pe', k.dec s = .ok pe' ∧ PE.equals pe' pe = true)
    (hnd : ∀ pe, k.enc pe ≠ some ".") (pe : PE) : LawAt k pe := by
  obtain ⟨key, hkey⟩ := htotal pe
  exact ⟨key, hkey, fun h => hnd pe (h ▸ hkey), hround pe key hkey⟩

/-- every member and child element of the trie, recursively, satisfies `Q` -/
inductive AllPE (Q : PE → Prop) : SetTrie → Prop
  | node (m : List PE) (c : Children) : (∀ pe ∈ m, Q pe) → (∀ p ∈ c, Q p.1) → (∀ p ∈ c, AllPE Q p.2) →
      AllPE Q (SetTrie.node m c)

theorem allPE_node {Q : PE → Prop} {m : List PE} {c : Children} (h : AllPE Q (SetTrie.node m c)) :
    (∀ pe ∈ m, Q pe) ∧ (∀ p ∈ c, Q p.1) ∧ (∀ p ∈ c, AllPE Q p.2) := by
  cases h with
  | node _ _ h1 h2 h3 => exact ⟨h1, h2, h3⟩

theorem allPE_trivial {Q : PE → Prop} (hQ : ∀ pe, Q pe) : ∀ t : SetTrie, AllPE Q t := by
  intro t
  induction t using SetTrie.ind with
  | h m c ih => exact .node m c (fun pe _ => hQ pe) (fun p _ => hQ p.1) ih

/-- `emitMerge_read` with the codec laws required only of the elements at hand -/
theorem emitMerge_read_on (k : KeyCodec) :
    ∀ (ms : List PE) (cs : Children), SortedPE ms → SortedKeys cs →
      (∀ p ∈ cs, isEmpty p.2 = false) → (∀ p ∈ cs, TreeOK k p.2) →
      (∀ pe ∈ ms, LawAt k pe) → (∀ p ∈ cs, LawAt k p.1) →
      ∃ l, emitMergeWith k ms cs = some l ∧
        ∀ acc : ReadOut, Good acc.children →
          (∀ p ∈ cs, getChild p.1 (tr acc.children).children = none) → ReadSpec k l (node ms cs) acc
  | [], [], _, _, _, _, _, _ => by
    refine ⟨[], by rw [emitMergeWith], ?_⟩
    intro acc _ _
    have : node [] [] = empty := rfl
    simp [ReadSpec, readMembers_nil, this, has_empty]
  | mpe :: ms, [], hms, hcs, hne, hok, hlm, hlc => by
    obtain ⟨l, hl, ih⟩ := emitMerge_read_on k ms [] (sortedPE_cons.1 hms).2 hcs hne hok
      (fun pe hpe => hlm pe (by simp [hpe])) hlc
    obtain ⟨key, hkey, hd, pe', hdec, heq⟩ := hlm mpe (by simp)
    refine ⟨(key, J.obj []) :: l, by rw [emitMergeWith]; simp [hkey, hl], ?_⟩
    intro acc hacc hfr
    obtain ⟨acc', e, h1, h2, h3, h4, h5, h6⟩ := read_member_step k l acc hd hdec heq hacc
    obtain ⟨i1, i2, i3, i4⟩ := ih acc' h4 (by simp)
    refine ⟨by rw [e, i1, h1], by rw [e, i2, h2], by rw [e, i3, h3], ?_⟩
    intro q
    rw [e, i4, h6, has_node_cons_member [] hms]
    ac_rfl
  | [], (cpe, t) :: cs, hms, hcs, hne, hok, hlm, hlc => by
    have hcs' := sortedKeys_cons.1 hcs
    obtain ⟨l, hl, ih⟩ := emitMerge_read_on k [] cs hms hcs'.2
      (fun p hp => hne p (by simp [hp])) (fun p hp => hok p (by simp [hp])) hlm
      (fun p hp => hlc p (by simp [hp]))
    obtain ⟨key, hkey, hd, pe', hdec, heq⟩ := hlc (cpe, t) (by simp)
    have hnt : isEmpty t = false := hne (cpe, t) (by simp)
    obtain ⟨sub, hsub, herr, hun, hhas, hmem⟩ := hok (cpe, t) (by simp) false
    refine ⟨(key, J.obj sub) :: l, by rw [emitMergeWith]; simp [hkey, hl, hsub], ?_⟩
    intro acc hacc hfr
    obtain ⟨acc', e, h1, h2, h3, h4, h5, h6⟩ := read_child_step k false l acc hd hdec heq hacc
      (hfr (cpe, t) (by simp)) hnt herr hun hhas hmem
    obtain ⟨i1, i2, i3, i4⟩ := ih acc' h4 (by
      intro p hp
      rw [h5 p.1 (equals_false_of_lt (hcs'.1 p hp))]
      exact hfr p (by simp [hp]))
    refine ⟨by rw [e, i1, h1], by rw [e, i2, h2], by rw [e, i3, h3], ?_⟩
    intro q
    rw [e, i4, h6, has_node_cons_child [] hcs]
    simp only [Bool.false_and, Bool.false_or]
    ac_rfl
  | mpe :: ms, (cpe, t) :: cs, hms, hcs, hne, hok, hlm, hlc => by
    have hms' := sortedPE_cons.1 hms
    have hcs' := sortedKeys_cons.1 hcs
    have hnt : isEmpty t = false := hne (cpe, t) (by simp)
    cases hcmp : PE.compare mpe cpe with
    | lt =>
      rw [compare_lt_eq] at hcmp
      obtain ⟨l, hl, ih⟩ := emitMerge_read_on k ms ((cpe, t) :: cs) hms'.2 hcs hne hok
        (fun pe hpe => hlm pe (by simp [hpe])) hlc
      obtain ⟨key, hkey, hd, pe', hdec, heq⟩ := hlm mpe (by simp)
      refine ⟨(key, J.obj []) :: l, by rw [emitMergeWith]; simp [hkey, hl, (compare_lt_eq mpe cpe).mpr hcmp], ?_⟩
      intro acc hacc hfr
      obtain ⟨acc', e, h1, h2, h3, h4, h5, h6⟩ := read_member_step k l acc hd hdec heq hacc
      obtain ⟨i1, i2, i3, i4⟩ := ih acc' h4 (by intro p hp; rw [h5]; exact hfr p hp)
      refine ⟨by rw [e, i1, h1], by rw [e, i2, h2], by rw [e, i3, h3], ?_⟩
      intro q
      rw [e, i4, h6, has_node_cons_member _ hms]
      ac_rfl
    | eq =>
      have hmc : PE.equals mpe cpe = true := (PE.compare_eq_iff mpe cpe).1 hcmp
      obtain ⟨l, hl, ih⟩ := emitMerge_read_on k ms cs hms'.2 hcs'.2
        (fun p hp => hne p (by simp [hp])) (fun p hp => hok p (by simp [hp]))
        (fun pe hpe => hlm pe (by simp [hpe])) (fun p hp => hlc p (by simp [hp]))
      obtain ⟨key, hkey, hd, pe', hdec, heq⟩ := hlc (cpe, t) (by simp)
      obtain ⟨sub, hsub, herr, hun, hhas, hmem⟩ := hok (cpe, t) (by simp) true
      refine ⟨(key, J.obj sub) :: l, by rw [emitMergeWith]; simp [hkey, hl, hsub, hcmp], ?_⟩
      intro acc hacc hfr
      obtain ⟨acc', e, h1, h2, h3, h4, h5, h6⟩ := read_child_step k true l acc hd hdec heq hacc
        (hfr (cpe, t) (by simp)) hnt herr hun hhas hmem
      obtain ⟨i1, i2, i3, i4⟩ := ih acc' h4 (by
        intro p hp
        rw [h5 p.1 (equals_false_of_lt (hcs'.1 p hp))]
        exact hfr p (by simp [hp]))
      refine ⟨by rw [e, i1, h1], by rw [e, i2, h2], by rw [e, i3, h3], ?_⟩
      intro q
      rw [e, i4, h6, has_node_cons_member _ hms, has_node_cons_child _ hcs,
        path_equals_single_congr hmc]
      simp only [Bool.true_and]
      ac_rfl
    | gt =>
      obtain ⟨l, hl, ih⟩ := emitMerge_read_on k (mpe :: ms) cs hms hcs'.2
        (fun p hp => hne p (by simp [hp])) (fun p hp => hok p (by simp [hp])) hlm
        (fun p hp => hlc p (by simp [hp]))
      obtain ⟨key, hkey, hd, pe', hdec, heq⟩ := hlc (cpe, t) (by simp)
      obtain ⟨sub, hsub, herr, hun, hhas, hmem⟩ := hok (cpe, t) (by simp) false
      refine ⟨(key, J.obj sub) :: l, by rw [emitMergeWith]; simp [hkey, hl, hsub, hcmp], ?_⟩
      intro acc hacc hfr
      obtain ⟨acc', e, h1, h2, h3, h4, h5, h6⟩ := read_child_step k false l acc hd hdec heq hacc
        (hfr (cpe, t) (by simp)) hnt herr hun hhas hmem
      obtain ⟨i1, i2, i3, i4⟩ := ih acc' h4 (by
        intro p hp
        rw [h5 p.1 (equals_false_of_lt (hcs'.1 p hp))]
        exact hfr p (by simp [hp]))
      refine ⟨by rw [e, i1, h1], by rw [e, i2, h2], by rw [e, i3, h3], ?_⟩
      intro q
      rw [e, i4, h6, has_node_cons_child _ hcs]
      simp only [Bool.false_and, Bool.false_or]
      ac_rfl
termination_by ms cs => ms.length + cs.length


theorem emitMerge_read (k : KeyCodec) (htotal : ∀ pe, ∃ s, k.enc pe = some s)
    (hround : ∀ pe s, k.enc pe = some s → ∃ pe', k.dec s = .ok pe' ∧ PE.equals pe' pe = true)
    (hnd : ∀ pe, k.enc pe ≠ some ".") :
    ∀ (ms : List PE) (cs : Children), SortedPE ms → SortedKeys cs →
      (∀ p ∈ cs, isEmpty p.2 = false) → (∀ p ∈ cs, TreeOK k p.2) →
      ∃ l, emitMergeWith k ms cs = some l ∧
        ∀ acc : ReadOut, Good acc.children →
          (∀ p ∈ cs, getChild p.1 (tr acc.children).children = none) → ReadSpec k l (node ms cs) acc :=
  fun ms cs hms hcs hne hok => emitMerge_read_on k ms cs hms hcs hne hok
    (fun pe _ => lawAt_of_laws k htotal hround hnd pe) (fun p _ => lawAt_of_laws k htotal hround hnd p.1)

theorem readV1_obj_fields (k : KeyCodec) (ms : List (String × J)) :
    (readV1With k (J.obj ms)).err = (readMembersWith k ms ⟨none, false, false, false⟩).err ∧
    (readV1With k (J.obj ms)).unsupported = (readMembersWith k ms ⟨none, false, false, false⟩).unsupported ∧
    (readV1With k (J.obj ms)).children = (readMembersWith k ms ⟨none, false, false, false⟩).children ∧
    (readV1With k (J.obj ms)).isMember =
      ((readMembersWith k ms ⟨none, false, false, false⟩).children.isNone ||
        (readMembersWith k ms ⟨none, false, false, false⟩).isMember) := by
  rw [readV1With]
  split
  · rename_i h; simp [h]
  · rename_i h; simp [h]

theorem emitWith_node (k : KeyCodec) (b : Bool) (m : List PE) (c : Children) :
    emitWith k b (node m c) =
      (emitMergeWith k m c).map fun rest =>
        (if (b && !(m.isEmpty && c.isEmpty)) = true then [(".", J.obj [])] else []) ++ rest := by
  rw [emitWith]

theorem isSome_of_has {o : Option SetTrie} {q : Path} (h : has q (tr o) = true) : o.isSome = true := by
  cases o with
  | none => simp [tr, has_empty] at h
  | some t => rfl

/-- `treeOK` with the codec laws required only of the elements of the trie -/
theorem treeOK_on (k : KeyCodec) : ∀ t : SetTrie, wf t = true → AllPE (LawAt k) t → TreeOK k t := by
  intro t
  induction t using SetTrie.ind with
  | h m c ih =>
    intro hw hall b
    have hw' := wf_node.1 hw
    have hall' := allPE_node hall
    obtain ⟨l, hl, hspec⟩ := emitMerge_read_on k m c hw'.1 hw'.2.1
      (fun p hp => (hw'.2.2 p hp).2) (fun p hp => ih p hp (hw'.2.2 p hp).1 (hall'.2.2 p hp))
      hall'.1 hall'.2.1
    have hfr : ∀ (bm : Bool), ∀ p ∈ c,
        getChild p.1 (tr (ReadOut.mk none bm false false).children).children = none := by
      intro bm p _; simp [tr, empty, SetTrie.children, getChild]
    by_cases hself : (b && !(m.isEmpty && c.isEmpty)) = true
    · refine ⟨(".", J.obj []) :: l, by rw [emitWith_node, hl, if_pos hself]; rfl, ?_⟩
      obtain ⟨f1, f2, f3, f4⟩ := readV1_obj_fields k ((".", J.obj []) :: l)
      rw [readMembers_dot] at f1 f2 f3 f4
      obtain ⟨s1, s2, s3, s4⟩ := hspec ⟨none, true, false, false⟩ good_none (hfr true)
      simp only [tr, Option.getD_none, has_empty, Bool.false_or] at s4
      have hb : b = true := by simp only [Bool.and_eq_true] at hself; exact hself.1
      refine ⟨by rw [f1, s2], by rw [f2, s3], by intro q; rw [f3]; exact s4 q, ?_⟩
      intro hne
      obtain ⟨q, hq⟩ := exists_has_of_not_isEmpty _ hw hne
      rw [← s4 q] at hq
      exact ⟨by rw [f4, s1, hb]; simp, by rw [f3]; exact isSome_of_has hq⟩
    · refine ⟨l, by rw [emitWith_node, hl, if_neg hself]; rfl, ?_⟩
      obtain ⟨f1, f2, f3, f4⟩ := readV1_obj_fields k l
      obtain ⟨s1, s2, s3, s4⟩ := hspec ⟨none, false, false, false⟩ good_none (hfr false)
      simp only [tr, Option.getD_none, has_empty, Bool.false_or] at s4
      refine ⟨by rw [f1, s2], by rw [f2, s3], by intro q; rw [f3]; exact s4 q, ?_⟩
      intro hne
      obtain ⟨q, hq⟩ := exists_has_of_not_isEmpty _ hw hne
      rw [← s4 q] at hq
      have hsome := isSome_of_has hq
      have hb : b = false := by
        cases b with
        | false => rfl
        | true =>
          exfalso
          cases m with
          | cons _ _ => simp at hself
          | nil =>
            cases c with
            | cons _ _ => simp at hself
            | nil => simp [isEmpty_node] at hne
      refine ⟨?_, by rw [f3]; exact hsome⟩
      rw [f4, s1, hb]
      cases hc : (readMembersWith k l ⟨none, false, false, false⟩).children with
      | none => simp [hc] at hsome
      | some _ => rfl

theorem treeOK (k : KeyCodec) (htotal : ∀ pe, ∃ s, k.enc pe = some s)
    (hround : ∀ pe s, k.enc pe = some s → ∃ pe', k.dec s = .ok pe' ∧ PE.equals pe' pe = true)
    (hnd : ∀ pe, k.enc pe ≠ some ".") : ∀ t : SetTrie, wf t = true → TreeOK k t :=
  fun t hw => treeOK_on k t hw (allPE_trivial (lawAt_of_laws k htotal hround hnd) t)

/-- serialising a well-formed set and parsing it back yields an equal set, the codec laws being required
only of the path elements of the set -/
theorem fromJSON_toJSON_on (k : KeyCodec) (s : SetTrie) (hs : wf s = true) (hall : AllPE (LawAt k) s) :
    ∃ j, toJSONWith k s = some j ∧ ∃ s', fromJSONWith k j = .ok s' ∧ equals s' s = true := by
  obtain ⟨sub, hsub, herr, hun, hhas, _⟩ := treeOK_on k s hs hall false
  refine ⟨J.obj sub, by simp [toJSONWith, hsub], tr (readV1With k (J.obj sub)).children, ?_, ?_⟩
  · unfold fromJSONWith
    simp only [herr, hun]
    rfl
  · rw [equals_iff_same_members _ _ (wf_tr (good_readV1 k _)) hs]
    exact hhas

/-- serialising a well-formed set and parsing it back yields an equal set -/
theorem fromJSON_toJSON (k : KeyCodec) (htotal : ∀ pe, ∃ s, k.enc pe = some s)
    (hround : ∀ pe s, k.enc pe = some s → ∃ pe', k.dec s = .ok pe' ∧ PE.equals pe' pe = true)
    (hnd : ∀ pe, k.enc pe ≠ some ".") (s : SetTrie) (hs : wf s = true) :
    ∃ j, toJSONWith k s = some j ∧ ∃ s', fromJSONWith k j = .ok s' ∧ equals s' s = true := by
  obtain ⟨sub, hsub, herr, hun, hhas, _⟩ := treeOK k htotal hround hnd s hs false
  refine ⟨J.obj sub, by simp [toJSONWith, hsub], tr (readV1With k (J.obj sub)).children, ?_, ?_⟩
  · unfold fromJSONWith
    simp only [herr, hun]
    rfl
  · rw [equals_iff_same_members _ _ (wf_tr (good_readV1 k _)) hs]
    exact hhas

end Ser
end SMD
