import SMD.Spec.SetWF
import SMD.Proofs.Containers
namespace SMD
end SMD
