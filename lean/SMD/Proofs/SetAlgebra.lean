/-
The set trie (`fieldpath.Set`) behaves as a set of paths: closure of the representation invariant and
refinement of every operation, by induction over the path / the trie, on top of the list-level lemmas
of `SMD.Proofs.SortedList` and `SMD.Proofs.ChildList`.
-/
import SMD.Spec.SetWF
import SMD.Proofs.PEIface
import SMD.Proofs.ChildList
namespace SMD
open SetTrie SMD.PEOrd

attribute [local grind =] less_eq_lt equals_eq_le

namespace SetTrie

/-! ### unfolding lemmas -/

theorem wf_node {m : List PE} {c : Children} :
    wf (node m c) = true ↔
      SortedPE m ∧ SortedKeys c ∧ ∀ p ∈ c, wf p.2 = true ∧ isEmpty p.2 = false := by
  simp [wf, sortedPEs_iff, wfChildren_iff]

theorem isEmpty_node (m : List PE) (c : Children) :
    isEmpty (node m c) = (m.isEmpty && c.all (fun p => isEmpty p.2)) := by
  simp [isEmpty, isEmptyChildren_eq]

theorem paths_node (m : List PE) (c : Children) :
    paths (node m c) = m.map (fun pe => [pe]) ++ c.flatMap (fun p => (paths p.2).map (fun r => p.1 :: r)) := by
  simp [paths, pathsChildren_eq]

/-- `has` below an optional child -/
def hasOpt (r : Path) : Option SetTrie → Bool
  | some t => has r t
  | none => false

theorem has_nil (t : SetTrie) : has [] t = false := by simp [has]

theorem has_single (pe : PE) (m : List PE) (c : Children) : has [pe] (node m c) = peHas pe m := by
  simp [has]

theorem has_cons {r : Path} (hr : r ≠ []) (pe : PE) (m : List PE) (c : Children) :
    has (pe :: r) (node m c) = hasOpt r (getChild pe c) := by
  rw [has.eq_3 _ _ _ _ (by simpa using hr)]
  cases getChild pe c <;> rfl

theorem has_true_ne_nil {q : Path} {t : SetTrie} (h : has q t = true) : q ≠ [] := by
  rintro rfl; simp [has_nil] at h

theorem wf_empty : wf empty = true := by simp [empty, wf, sortedPEs, wfChildren]

theorem has_empty (q : Path) : has q empty = false := by
  cases q with
  | nil => exact has_nil _
  | cons qe r =>
    by_cases hr : r = []
    · subst hr; simp [empty, has_single, peHas]
    · simp [empty, has_cons hr, getChild, hasOpt]

theorem wf_of_getChild {m : List PE} {c : Children} {q : PE} {t : SetTrie}
    (h : wf (node m c) = true) (hg : getChild q c = some t) : wf t = true ∧ isEmpty t = false := by
  obtain ⟨x, hx, _⟩ := mem_of_getChild hg
  exact (wf_node.1 h).2.2 _ hx

theorem getChild_map (q : PE) (f : SetTrie → SetTrie) (c : Children) :
    getChild q (c.map (fun p => (p.1, f p.2))) = (getChild q c).map f := by
  induction c with
  | nil => rfl
  | cons p c ih => obtain ⟨x, t⟩ := p; simp only [List.map_cons, getChild, ih]; grind

/-! ### emptiness -/

theorem has_of_isEmpty (q : Path) : ∀ t, isEmpty t = true → has q t = false := by
  induction q with
  | nil => intro t _; exact has_nil t
  | cons qe r ih =>
    intro t ht
    obtain ⟨m, c⟩ := t
    simp only [isEmpty_node, Bool.and_eq_true, List.isEmpty_iff, List.all_eq_true] at ht
    by_cases hr : r = []
    · subst hr; simp [has_single, ht.1, peHas]
    · rw [has_cons hr]
      cases hg : getChild qe c with
      | none => rfl
      | some t' =>
        obtain ⟨x, hx, _⟩ := mem_of_getChild hg
        exact ih t' (ht.2 _ hx)

theorem not_isEmpty_of_has {q : Path} {t : SetTrie} (h : has q t = true) : isEmpty t = false := by
  cases he : isEmpty t
  · rfl
  · rw [has_of_isEmpty q t he] at h; cases h

theorem exists_has_of_not_isEmpty : ∀ t, wf t = true → isEmpty t = false → ∃ q, has q t = true := by
  intro t
  induction t using SetTrie.ind with
  | h m c ih =>
    intro hw he
    cases m with
    | cons x xs => exact ⟨[x], by rw [has_single, peHas_head]⟩
    | nil =>
      cases c with
      | nil => simp [isEmpty_node] at he
      | cons p c =>
        obtain ⟨x, t⟩ := p
        have hp := (wf_node.1 hw).2.2 (x, t) (by simp)
        obtain ⟨r, hr⟩ := ih (x, t) (by simp) hp.1 hp.2
        refine ⟨x :: r, ?_⟩
        rw [has_cons (has_true_ne_nil hr), getChild_head]
        exact hr

theorem isEmpty_eq_false_iff {t : SetTrie} (hw : wf t = true) :
    isEmpty t = false ↔ ∃ q, has q t = true :=
  ⟨exists_has_of_not_isEmpty t hw, fun ⟨_, h⟩ => not_isEmpty_of_has h⟩

/-! ### `insert`, `ofPaths` -/

theorem path_equals_refl (p : Path) : Path.equals p p = true := by
  induction p with
  | nil => rfl
  | cons a p ih => simp [Path.equals, ih, PE.equals_refl]

theorem path_equals_nil_right (p : Path) : Path.equals p [] = p.isEmpty := by
  cases p <;> simp [Path.equals]

theorem path_equals_nil_left (p : Path) : Path.equals [] p = p.isEmpty := by
  cases p <;> simp [Path.equals]

theorem insert_single (pe : PE) (m : List PE) (c : Children) :
    insert [pe] (node m c) = node (peInsert pe m) c := by simp [insert]

theorem insert_cons {r : Path} (hr : r ≠ []) (pe : PE) (m : List PE) (c : Children) :
    insert (pe :: r) (node m c) = node m (descendWith pe (insert r) c) :=
  insert.eq_3 _ _ _ _ (by simpa using hr)

theorem has_insert (p : Path) : ∀ (q : Path) (s : SetTrie),
    has q (insert p s) = ((!p.isEmpty && Path.equals p q) || has q s) := by
  induction p with
  | nil => intro q s; simp [insert]
  | cons pe rest ih =>
    intro q s
    obtain ⟨m, c⟩ := s
    cases q with
    | nil => simp [has_nil, Path.equals]
    | cons qe r =>
      simp only [List.isEmpty_cons, Bool.not_false, Bool.true_and, Path.equals]
      by_cases hrest : rest = []
      · subst hrest
        rw [insert_single, path_equals_nil_left]
        by_cases hr : r = []
        · subst hr; simp [has_single, peHas_peInsert]
        · simp [has_cons hr, hr]
      · rw [insert_cons hrest]
        by_cases hr : r = []
        · subst hr; simp [has_single, path_equals_nil_right, hrest]
        · rw [has_cons hr, has_cons hr, getChild_descendWith]
          by_cases he : PE.equals pe qe = true
          · simp only [he, if_true, Bool.true_and, hasOpt, ih]
            rw [getChild_congr he]
            have hre : rest.isEmpty = false := by simpa using hrest
            cases getChild qe c <;> simp [has_empty, hre]
          · simp [he]

theorem not_isEmpty_insert {p : Path} (hp : p ≠ []) (s : SetTrie) : isEmpty (insert p s) = false := by
  apply not_isEmpty_of_has (q := p)
  rw [has_insert]; simp [hp, path_equals_refl]

theorem wf_insert (p : Path) : ∀ s : SetTrie, wf s = true → wf (insert p s) = true := by
  induction p with
  | nil => intro s h; simpa [insert] using h
  | cons pe rest ih =>
    intro s hs
    obtain ⟨m, c⟩ := s
    by_cases hrest : rest = []
    · subst hrest
      rw [insert_single]
      rw [wf_node] at hs ⊢
      exact ⟨sorted_peInsert pe hs.1, hs.2⟩
    · rw [insert_cons hrest]
      rw [wf_node] at hs ⊢
      refine ⟨hs.1, sorted_descendWith pe _ hs.2.1, ?_⟩
      intro p hp
      rcases mem_descendWith hp with h | h | ⟨x, t, h, h'⟩
      · exact hs.2.2 p h
      · subst h; exact ⟨ih _ wf_empty, not_isEmpty_insert hrest _⟩
      · subst h'; exact ⟨ih _ (hs.2.2 _ h).1, not_isEmpty_insert hrest _⟩

theorem wf_foldl_insert (ps : List Path) : ∀ s : SetTrie, wf s = true →
    wf (ps.foldl (fun s p => insert p s) s) = true := by
  induction ps with
  | nil => intro s h; exact h
  | cons p ps ih => intro s h; exact ih _ (wf_insert p s h)

theorem wf_ofPaths (ps : List Path) : wf (ofPaths ps) = true := wf_foldl_insert ps _ wf_empty

theorem has_foldl_insert (q : Path) (ps : List Path) : ∀ s : SetTrie,
    has q (ps.foldl (fun s p => insert p s) s) =
      (ps.any (fun p => !p.isEmpty && Path.equals p q) || has q s) := by
  induction ps with
  | nil => intro s; simp
  | cons p ps ih =>
    intro s
    rw [List.foldl_cons, ih, has_insert, List.any_cons]
    cases (!p.isEmpty && Path.equals p q) <;> simp

theorem has_ofPaths (ps : List Path) (q : Path) :
    has q (ofPaths ps) = ps.any (fun p => !p.isEmpty && Path.equals p q) := by
  rw [ofPaths, has_foldl_insert, has_empty, Bool.or_false]

/-! ### `union` -/

theorem has_union (q : Path) : ∀ a b : SetTrie, wf a = true → wf b = true →
    has q (union a b) = (has q a || has q b) := by
  induction q with
  | nil => intro a b _ _; simp [has_nil]
  | cons qe r ih =>
    intro a b ha hb
    obtain ⟨m1, c1⟩ := a
    obtain ⟨m2, c2⟩ := b
    rw [union]
    by_cases hr : r = []
    · subst hr; simp [has_single, peHas_peUnion]
    · rw [has_cons hr, has_cons hr, has_cons hr, getChild_unionChildren]
      cases h1 : getChild qe c1 <;> cases h2 : getChild qe c2 <;> simp [unionOpt, hasOpt]
      exact ih _ _ (wf_of_getChild ha h1).1 (wf_of_getChild hb h2).1

theorem wf_union : ∀ a b : SetTrie, wf a = true → wf b = true → wf (union a b) = true := by
  intro a
  induction a using SetTrie.ind with
  | h m1 c1 ih =>
    intro b ha hb
    obtain ⟨m2, c2⟩ := b
    rw [union]
    rw [wf_node] at ha hb ⊢
    refine ⟨sorted_peUnion ha.1 hb.1, sorted_unionChildren ha.2.1 hb.2.1, ?_⟩
    intro p hp
    rcases mem_unionChildren hp with h | h | ⟨x, s, y, t, h1, h2, rfl⟩
    · exact ha.2.2 p h
    · exact hb.2.2 p h
    · have ws := ha.2.2 _ h1
      have wt := hb.2.2 _ h2
      refine ⟨ih _ h1 t ws.1 wt.1, ?_⟩
      obtain ⟨q, hq⟩ := exists_has_of_not_isEmpty s ws.1 ws.2
      apply not_isEmpty_of_has (q := q)
      simp [has_union q s t ws.1 wt.1, hq]

/-! ### `inter` -/

theorem has_inter (q : Path) : ∀ a b : SetTrie, wf a = true → wf b = true →
    has q (inter a b) = (has q a && has q b) := by
  induction q with
  | nil => intro a b _ _; simp [has_nil]
  | cons qe r ih =>
    intro a b ha hb
    obtain ⟨m1, c1⟩ := a
    obtain ⟨m2, c2⟩ := b
    rw [inter]
    by_cases hr : r = []
    · subst hr; simp [has_single, peHas_peInter]
    · rw [has_cons hr, has_cons hr, has_cons hr,
        getChild_interChildren qe (wf_node.1 ha).2.1 (wf_node.1 hb).2.1]
      cases h1 : getChild qe c1 <;> cases h2 : getChild qe c2 <;> simp [interOpt, hasOpt]
      rename_i s t
      have e := ih s t (wf_of_getChild ha h1).1 (wf_of_getChild hb h2).1
      by_cases he : isEmpty (inter s t) = true
      · rw [has_of_isEmpty r _ he] at e; simp [he, ← e]
      · simp [he, e]

theorem wf_inter : ∀ a b : SetTrie, wf a = true → wf b = true → wf (inter a b) = true := by
  intro a
  induction a using SetTrie.ind with
  | h m1 c1 ih =>
    intro b ha hb
    obtain ⟨m2, c2⟩ := b
    rw [inter]
    rw [wf_node] at ha hb ⊢
    refine ⟨sorted_peInter _ ha.1, sorted_interChildren _ ha.2.1, ?_⟩
    intro p hp
    obtain ⟨s, y, t, h1, h2, h3, h4⟩ := mem_interChildren hp
    refine ⟨?_, h4⟩
    rw [h3]
    exact ih _ h1 t (ha.2.2 _ h1).1 (hb.2.2 _ h2).1

/-! ### `diff` -/

theorem has_diff (q : Path) : ∀ a b : SetTrie, wf a = true → wf b = true →
    has q (diff a b) = (has q a && !has q b) := by
  induction q with
  | nil => intro a b _ _; simp [has_nil]
  | cons qe r ih =>
    intro a b ha hb
    obtain ⟨m1, c1⟩ := a
    obtain ⟨m2, c2⟩ := b
    rw [diff]
    by_cases hr : r = []
    · subst hr; simp [has_single, peHas_peDiff _ _ (wf_node.1 ha).1]
    · rw [has_cons hr, has_cons hr, has_cons hr, getChild_diffChildren qe _ (wf_node.1 ha).2.1]
      cases h1 : getChild qe c1 <;> cases h2 : getChild qe c2 <;> simp [diffOpt, hasOpt]
      rename_i s t
      have e := ih s t (wf_of_getChild ha h1).1 (wf_of_getChild hb h2).1
      by_cases he : isEmpty (diff s t) = true
      · rw [has_of_isEmpty r _ he] at e; simp [he, ← e]
      · simp [he, e]

theorem wf_diff : ∀ a b : SetTrie, wf a = true → wf b = true → wf (diff a b) = true := by
  intro a
  induction a using SetTrie.ind with
  | h m1 c1 ih =>
    intro b ha hb
    obtain ⟨m2, c2⟩ := b
    rw [diff]
    rw [wf_node] at ha hb ⊢
    refine ⟨sorted_peDiff _ ha.1, sorted_diffChildren _ ha.2.1, ?_⟩
    intro p hp
    rcases mem_diffChildren hp with h | ⟨s, y, t, h1, h2, h3, h4⟩
    · exact ha.2.2 p h
    · refine ⟨?_, h4⟩
      rw [h3]
      exact ih _ h1 t (ha.2.2 _ h1).1 (hb.2.2 _ h2).1

/-! ### `rdiff` -/

/-- all non-empty prefixes of a path (same definition as `SMD.C15.prefixes`) -/
def prefixesOf : Path → List Path
  | [] => []
  | pe :: rest => [pe] :: (prefixesOf rest).map (fun p => pe :: p)

theorem prefixesOf_ne_nil (q : Path) : ∀ r ∈ prefixesOf q, r ≠ [] := by
  cases q with
  | nil => simp [prefixesOf]
  | cons pe rest => simp [prefixesOf]

theorem any_has_cons (qe : PE) (m : List PE) (c : Children) (l : List Path) (hl : ∀ r ∈ l, r ≠ []) :
    l.any (fun r => has (qe :: r) (node m c)) = (getChild qe c).any (fun t => l.any (fun r => has r t)) := by
  induction l with
  | nil => cases getChild qe c <;> simp
  | cons r l ih =>
    have hr : r ≠ [] := hl r (by simp)
    rw [List.any_cons, ih (fun r' h => hl r' (by simp [h])), has_cons hr]
    cases getChild qe c <;> simp [hasOpt]

theorem has_rdiff (q : Path) : ∀ a b : SetTrie, wf a = true → wf b = true →
    has q (rdiff a b) = (has q a && !(prefixesOf q).any (fun r => has r b)) := by
  induction q with
  | nil => intro a b _ _; simp [has_nil]
  | cons qe r ih =>
    intro a b ha hb
    obtain ⟨m1, c1⟩ := a
    obtain ⟨m2, c2⟩ := b
    rw [rdiff]
    by_cases hr : r = []
    · subst hr; simp [prefixesOf, has_single, peHas_peDiff _ _ (wf_node.1 ha).1]
    · rw [has_cons hr, has_cons hr, getChild_rdiffChildren qe _ _ (wf_node.1 ha).2.1]
      simp only [prefixesOf, List.any_cons, List.any_map, Function.comp_def, has_single]
      rw [any_has_cons qe m2 c2 _ (prefixesOf_ne_nil r)]
      cases hm : peHas qe m2
      · cases h1 : getChild qe c1 <;> cases h2 : getChild qe c2 <;> simp [rdiffOpt, hasOpt]
        rename_i s t
        have e := ih s t (wf_of_getChild ha h1).1 (wf_of_getChild hb h2).1
        by_cases he : isEmpty (rdiff s t) = true
        · rw [has_of_isEmpty r _ he] at e
          simp only [he, if_true]
          simpa using e.symm
        · simpa [he] using e
      · simp [hasOpt]

theorem wf_rdiff : ∀ a b : SetTrie, wf a = true → wf b = true → wf (rdiff a b) = true := by
  intro a
  induction a using SetTrie.ind with
  | h m1 c1 ih =>
    intro b ha hb
    obtain ⟨m2, c2⟩ := b
    rw [rdiff]
    rw [wf_node] at ha hb ⊢
    refine ⟨sorted_peDiff _ ha.1, sorted_rdiffChildren _ _ ha.2.1, ?_⟩
    intro p hp
    rcases mem_rdiffChildren hp with h | ⟨s, y, t, h1, h2, h3, h4⟩
    · exact ha.2.2 p h
    · refine ⟨?_, h4⟩
      rw [h3]
      exact ih _ h1 t (ha.2.2 _ h1).1 (hb.2.2 _ h2).1

/-! ### `paths`: shape -/

theorem paths_ne_nil : ∀ t : SetTrie, ∀ r ∈ paths t, r ≠ [] := by
  intro t
  cases t with
  | node m c =>
    intro r hr
    rw [paths_node] at hr
    simp only [List.mem_append, List.mem_map, List.mem_flatMap] at hr
    rcases hr with ⟨x, _, rfl⟩ | ⟨p, _, r', _, rfl⟩ <;> simp

theorem isEmpty_iff_paths : ∀ t : SetTrie, isEmpty t = true ↔ paths t = [] := by
  intro t
  induction t using SetTrie.ind with
  | h m c ih =>
    rw [isEmpty_node, paths_node]
    simp only [Bool.and_eq_true, List.isEmpty_iff, List.all_eq_true, List.append_eq_nil_iff,
      List.map_eq_nil_iff, List.flatMap_eq_nil_iff]
    constructor
    · rintro ⟨h1, h2⟩; exact ⟨h1, fun p hp => (ih p hp).1 (h2 p hp)⟩
    · rintro ⟨h1, h2⟩; exact ⟨h1, fun p hp => (ih p hp).2 (h2 p hp)⟩

/-! ### `leaves` -/

/-- `q` is a proper prefix of `r`, element-wise up to `Equals` (same definition as
`SMD.C15.properPrefix`) -/
def isProperPrefix : Path → Path → Bool
  | [], _ :: _ => true
  | a :: as, b :: bs => PE.equals a b && isProperPrefix as bs
  | _, _ => false

theorem isProperPrefix_nil_right (q : Path) : isProperPrefix q [] = false := by
  cases q <;> simp [isProperPrefix]

theorem isProperPrefix_nil_left (r : Path) : isProperPrefix [] r = !r.isEmpty := by
  cases r <;> simp [isProperPrefix]

/-- looking a key up in a sorted child list, as an `any` over the list -/
theorem any_key_eq (qe : PE) (g : SetTrie → Bool) {c : Children} (hc : SortedKeys c) :
    c.any (fun p => PE.equals qe p.1 && g p.2) = (getChild qe c).any g := by
  induction c with
  | nil => simp [getChild]
  | cons p c ih =>
    obtain ⟨x, t⟩ := p
    have hc' := sortedKeys_cons.1 hc
    have e1 := @getChild_eq_none_of_lt qe c
    rw [List.any_cons, ih hc'.2]
    simp only [getChild]
    by_cases h1 : PE.less x qe = true
    · have : PE.equals qe x = false := by grind
      simp [h1, this]
    · by_cases h2 : PE.equals x qe = true
      · have : PE.equals qe x = true := by grind
        have : getChild qe c = none := by grind
        simp [*]
      · have : PE.equals qe x = false := by grind
        have : getChild qe c = none := by grind
        simp [*]

theorem any_isProperPrefix_node (qe : PE) (r : Path) (m : List PE) {c : Children} (hc : SortedKeys c) :
    (paths (node m c)).any (isProperPrefix (qe :: r)) =
      (getChild qe c).any (fun t => (paths t).any (isProperPrefix r)) := by
  rw [paths_node, List.any_append, List.any_map, List.any_flatMap, ← any_key_eq qe _ hc]
  simp only [Function.comp_def, isProperPrefix, isProperPrefix_nil_right, List.any_map, Bool.and_false]
  have hm : (m.any fun _ => false) = false := by induction m <;> simp_all
  rw [hm, Bool.false_or]
  congr 1
  funext p
  induction paths p.2 with
  | nil => simp
  | cons x l ih => rw [List.any_cons, List.any_cons, ih]; cases PE.equals qe p.1 <;> simp

theorem not_isEmpty_leaves : ∀ t : SetTrie, wf t = true → isEmpty t = false →
    isEmpty (leaves t) = false := by
  intro t
  induction t using SetTrie.ind with
  | h m c ih =>
    intro hw he
    rw [leaves, leavesChildren_eq, isEmpty_node]
    cases c with
    | nil =>
      rw [leafMembers_nil_right]
      simpa [isEmpty_node] using he
    | cons p c =>
      have hp := (wf_node.1 hw).2.2 p (by simp)
      have := ih p (by simp) hp.1 hp.2
      simp [this]

theorem wf_leaves : ∀ t : SetTrie, wf t = true → wf (leaves t) = true := by
  intro t
  induction t using SetTrie.ind with
  | h m c ih =>
    intro hw
    rw [leaves, leavesChildren_eq]
    rw [wf_node] at hw ⊢
    refine ⟨sorted_leafMembers _ hw.1, ?_, ?_⟩
    · simpa [SortedKeys, List.pairwise_map] using hw.2.1
    · intro p hp
      obtain ⟨p', hp', rfl⟩ := List.mem_map.1 hp
      exact ⟨ih p' hp' (hw.2.2 _ hp').1, not_isEmpty_leaves _ (hw.2.2 _ hp').1 (hw.2.2 _ hp').2⟩

theorem has_leaves (q : Path) : ∀ a : SetTrie, wf a = true →
    has q (leaves a) = (has q a && !(paths a).any (isProperPrefix q)) := by
  induction q with
  | nil => intro a _; simp [has_nil]
  | cons qe r ih =>
    intro a ha
    obtain ⟨m, c⟩ := a
    have hw := wf_node.1 ha
    rw [any_isProperPrefix_node qe r m hw.2.1, leaves, leavesChildren_eq]
    by_cases hr : r = []
    · subst hr
      rw [has_single, has_single, peHas_leafMembers qe c hw.1]
      cases hg : getChild qe c with
      | none => simp
      | some t =>
        have ht := wf_of_getChild ha hg
        have hne : paths t ≠ [] := by
          intro h; rw [← isEmpty_iff_paths, ht.2] at h; cases h
        obtain ⟨r', hr'⟩ := List.exists_mem_of_ne_nil _ hne
        have : (paths t).any (isProperPrefix []) = true := by
          rw [List.any_eq_true]
          refine ⟨r', hr', ?_⟩
          rw [isProperPrefix_nil_left]
          simpa using paths_ne_nil t r' hr'
        simp [this]
    · rw [has_cons hr, has_cons hr, getChild_map]
      cases hg : getChild qe c with
      | none => simp [hasOpt]
      | some t => simpa [hasOpt] using ih t (wf_of_getChild ha hg).1

/-! ### `withPrefix` -/

theorem wf_withPrefix (pe : PE) (a : SetTrie) (ha : wf a = true) : wf (withPrefix pe a) = true := by
  obtain ⟨m, c⟩ := a
  simp only [withPrefix, children]
  cases hg : getChild pe c with
  | none => exact wf_empty
  | some t => exact (wf_of_getChild ha hg).1

theorem has_withPrefix (pe : PE) (a : SetTrie) {q : Path} (hq : q ≠ []) :
    has q (withPrefix pe a) = has (pe :: q) a := by
  obtain ⟨m, c⟩ := a
  rw [has_cons hq]
  simp only [withPrefix, children]
  cases hg : getChild pe c <;> simp [hasOpt, has_empty]

/-! ### observations: `size`, `paths` -/

theorem size_eq_length_paths : ∀ t : SetTrie, size t = (paths t).length := by
  intro t
  induction t using SetTrie.ind with
  | h m c ih =>
    rw [paths_node, size, sizeChildren_eq, List.length_append, List.length_map, List.length_flatMap]
    congr 2
    apply List.map_congr_left
    intro p hp
    simp [ih p hp]

theorem has_iff_mem_paths (q : Path) : ∀ a : SetTrie, wf a = true →
    (has q a = true ↔ ∃ p, p ∈ paths a ∧ Path.equals p q = true) := by
  induction q with
  | nil =>
    intro a _
    simp only [has_nil, Bool.false_eq_true, false_iff, not_exists, not_and]
    intro p hp
    rw [path_equals_nil_right]
    simpa using paths_ne_nil a p hp
  | cons qe r ih =>
    intro a ha
    obtain ⟨m, c⟩ := a
    have hw := wf_node.1 ha
    rw [paths_node]
    by_cases hr : r = []
    · subst hr
      rw [has_single, peHas_iff_exists hw.1]
      constructor
      · rintro ⟨x, hx, he⟩
        exact ⟨[x], by simp [hx], by simp [Path.equals, he]⟩
      · rintro ⟨p, hp, he⟩
        simp only [List.mem_append, List.mem_map, List.mem_flatMap] at hp
        rcases hp with ⟨x, hx, rfl⟩ | ⟨p', hp', r', hr', rfl⟩
        · exact ⟨x, hx, by simpa [Path.equals] using he⟩
        · have := paths_ne_nil _ _ hr'
          simp [Path.equals, path_equals_nil_right, this] at he
    · rw [has_cons hr]
      constructor
      · intro h
        cases hg : getChild qe c with
        | none => simp [hg, hasOpt] at h
        | some t =>
          rw [hg] at h
          obtain ⟨x, hx, he⟩ := mem_of_getChild hg
          obtain ⟨p', hp', he'⟩ := (ih t (wf_of_getChild ha hg).1).1 h
          refine ⟨x :: p', ?_, by simp [Path.equals, he, he']⟩
          simp only [List.mem_append, List.mem_flatMap, List.mem_map]
          exact .inr ⟨(x, t), hx, p', hp', rfl⟩
      · rintro ⟨p, hp, he⟩
        simp only [List.mem_append, List.mem_map, List.mem_flatMap] at hp
        rcases hp with ⟨x, hx, rfl⟩ | ⟨p', hp', r', hr', rfl⟩
        · simp [Path.equals, path_equals_nil_left, hr] at he
        · obtain ⟨k, t⟩ := p'
          simp only [Path.equals, Bool.and_eq_true] at he
          rw [getChild_of_mem hw.2.1 hp' he.1]
          exact (ih t (hw.2.2 _ hp').1).2 ⟨r', hr', he.2⟩

/-- the fixed total order in which `Iterate` visits paths (same definition as `SMD.C15.iterCmp`) -/
def iterOrd : Path → Path → Ordering
  | [], [] => .eq
  | [], _ :: _ => .lt
  | _ :: _, [] => .gt
  | [a], [b] => PE.compare a b
  | [_], _ :: _ :: _ => .lt
  | _ :: _ :: _, [_] => .gt
  | a :: a' :: as, b :: b' :: bs =>
    match PE.compare a b with
    | .eq => iterOrd (a' :: as) (b' :: bs)
    | c => c

theorem iterOrd_cons_cons {p q : Path} (hp : p ≠ []) (hq : q ≠ []) (a b : PE) :
    iterOrd (a :: p) (b :: q) = match PE.compare a b with | .eq => iterOrd p q | c => c := by
  cases p with
  | nil => exact absurd rfl hp
  | cons a' as =>
    cases q with
    | nil => exact absurd rfl hq
    | cons b' bs => simp [iterOrd]

theorem iterOrd_single_long {q : Path} (hq : q ≠ []) (a b : PE) : iterOrd [a] (b :: q) = .lt := by
  cases q with
  | nil => exact absurd rfl hq
  | cons b' bs => simp [iterOrd]

theorem iterOrd_eq_of_equals (p q : Path) (h : Path.equals p q = true) : iterOrd p q = .eq := by
  fun_induction iterOrd p q with
  | case1 => rfl
  | case2 => simp [Path.equals] at h
  | case3 => simp [Path.equals] at h
  | case4 a b => simp only [Path.equals, Bool.and_true] at h; exact (PE.compare_eq_iff a b).2 h
  | case5 => simp [Path.equals] at h
  | case6 => simp [Path.equals] at h
  | case7 a a' as b b' bs hc ih =>
    simp only [Path.equals, Bool.and_eq_true] at h
    exact ih (by simp [Path.equals, h.2])
  | case8 a a' as b b' bs hc =>
    simp only [Path.equals, Bool.and_eq_true] at h
    exact absurd ((PE.compare_eq_iff a b).2 h.1) (by simpa using hc)

theorem paths_strictly_ascending : ∀ a : SetTrie, wf a = true →
    (paths a).Pairwise (fun p q => iterOrd p q = .lt) := by
  intro a
  induction a using SetTrie.ind with
  | h m c ih =>
    intro ha
    have hw := wf_node.1 ha
    rw [paths_node, List.pairwise_append]
    refine ⟨?_, ?_, ?_⟩
    · rw [List.pairwise_map]
      refine hw.1.imp ?_
      intro a b hab
      simpa [iterOrd] using (PE.compare_lt_iff a b).2 hab
    · rw [List.pairwise_flatMap]
      refine ⟨?_, ?_⟩
      · intro p hp
        rw [List.pairwise_map]
        refine (ih p hp (hw.2.2 p hp).1).imp_of_mem ?_
        intro a b ha hb hab
        rw [iterOrd_cons_cons (paths_ne_nil _ _ ha) (paths_ne_nil _ _ hb),
          (PE.compare_eq_iff _ _).2 (PE.equals_refl p.1)]
        exact hab
      · refine hw.2.1.imp ?_
        intro p1 p2 h12 x hx y hy
        obtain ⟨a, ha, rfl⟩ := List.mem_map.1 hx
        obtain ⟨b, hb, rfl⟩ := List.mem_map.1 hy
        rw [iterOrd_cons_cons (paths_ne_nil _ _ ha) (paths_ne_nil _ _ hb),
          (PE.compare_lt_iff _ _).2 h12]
    · intro x hx y hy
      obtain ⟨a, _, rfl⟩ := List.mem_map.1 hx
      obtain ⟨p, _, hy⟩ := List.mem_flatMap.1 hy
      obtain ⟨b, hb, rfl⟩ := List.mem_map.1 hy
      exact iterOrd_single_long (paths_ne_nil _ _ hb) _ _

theorem paths_no_repeats (a : SetTrie) (ha : wf a = true) :
    (paths a).Pairwise (fun p q => Path.equals p q = false) := by
  refine (paths_strictly_ascending a ha).imp ?_
  intro p q h
  cases he : Path.equals p q
  · rfl
  · rw [iterOrd_eq_of_equals p q he] at h; cases h

/-! ### `equals` is extensional -/

theorem getChild_of_equalsChildren (q : PE) : ∀ c1 c2 : Children, equalsChildren c1 c2 = true →
    (getChild q c1 = none ∧ getChild q c2 = none) ∨
      ∃ s t, getChild q c1 = some s ∧ getChild q c2 = some t ∧ equals s t = true := by
  intro c1
  induction c1 with
  | nil => intro c2 h; cases c2 <;> simp_all [equalsChildren, getChild]
  | cons p c1 ih =>
    intro c2 h
    obtain ⟨x, s⟩ := p
    cases c2 with
    | nil => simp [equalsChildren] at h
    | cons p' c2 =>
      obtain ⟨y, t⟩ := p'
      simp only [equalsChildren, Bool.and_eq_true] at h
      have ih' := ih c2 h.2
      simp only [getChild]
      have hxy := h.1.1
      by_cases h1 : PE.less x q = true
      · have : PE.less y q = true := by grind
        simpa [*] using ih'
      · have : ¬ PE.less y q = true := by grind
        by_cases h2 : PE.equals x q = true
        · have : PE.equals y q = true := by grind
          simp [*]
        · have : ¬ PE.equals y q = true := by grind
          simp [*]

theorem has_eq_of_equals (q : Path) : ∀ a b : SetTrie, equals a b = true → has q a = has q b := by
  induction q with
  | nil => intro a b _; simp [has_nil]
  | cons qe r ih =>
    intro a b h
    obtain ⟨m1, c1⟩ := a
    obtain ⟨m2, c2⟩ := b
    simp only [equals, Bool.and_eq_true] at h
    by_cases hr : r = []
    · subst hr; rw [has_single, has_single]; exact peHas_eq_of_peEquals h.1 qe
    · rw [has_cons hr, has_cons hr]
      rcases getChild_of_equalsChildren qe c1 c2 h.2 with ⟨h1, h2⟩ | ⟨s, t, h1, h2, h3⟩
      · rw [h1, h2]
      · rw [h1, h2]; exact ih s t h3

theorem getChild_cons_le {q y : PE} {t : SetTrie} {ys : Children}
    (h : getChild q ((y, t) :: ys) ≠ none) : PE.less q y = false := by
  cases hq : PE.less q y
  · rfl
  · exfalso; apply h; simp only [getChild]; grind

theorem equalsChildren_of_has_eq : ∀ c1 c2 : Children,
    (SortedKeys c1 ∧ ∀ p ∈ c1, wf p.2 = true ∧ isEmpty p.2 = false) →
    (SortedKeys c2 ∧ ∀ p ∈ c2, wf p.2 = true ∧ isEmpty p.2 = false) →
    (∀ p ∈ c1, ∀ b : SetTrie, wf p.2 = true → wf b = true → (∀ q, has q p.2 = has q b) →
      equals p.2 b = true) →
    (∀ qe r, r ≠ [] → hasOpt r (getChild qe c1) = hasOpt r (getChild qe c2)) →
    equalsChildren c1 c2 = true := by
  intro c1
  induction c1 with
  | nil =>
    intro c2 _ h2 _ H
    cases c2 with
    | nil => rfl
    | cons p c2 =>
      obtain ⟨y, t⟩ := p
      have wt := h2.2 (y, t) (by simp)
      obtain ⟨r, hr⟩ := exists_has_of_not_isEmpty t wt.1 wt.2
      have := H y r (has_true_ne_nil hr)
      rw [getChild_head] at this
      simp [getChild, hasOpt, hr] at this
  | cons p c1 ihl =>
    intro c2 h1 h2 ih H
    obtain ⟨x, s⟩ := p
    have ws := h1.2 (x, s) (by simp)
    obtain ⟨rs, hrs⟩ := exists_has_of_not_isEmpty s ws.1 ws.2
    cases c2 with
    | nil =>
      have := H x rs (has_true_ne_nil hrs)
      rw [getChild_head] at this
      simp [getChild, hasOpt, hrs] at this
    | cons p' c2 =>
      obtain ⟨y, t⟩ := p'
      have wt := h2.2 (y, t) (by simp)
      obtain ⟨rt, hrt⟩ := exists_has_of_not_isEmpty t wt.1 wt.2
      have hs1 := sortedKeys_cons.1 h1.1
      have hs2 := sortedKeys_cons.1 h2.1
      -- the two head keys are equivalent
      have hxy : PE.equals x y = true := by
        have e1 := H x rs (has_true_ne_nil hrs)
        rw [getChild_head] at e1
        have n1 : getChild x ((y, t) :: c2) ≠ none := by
          intro hn; rw [hn] at e1; simp [hasOpt, hrs] at e1
        have e2 := H y rt (has_true_ne_nil hrt)
        rw [getChild_head] at e2
        have n2 : getChild y ((x, s) :: c1) ≠ none := by
          intro hn; rw [hn] at e2; simp [hasOpt, hrt] at e2
        exact PE.equals_of_not_less (getChild_cons_le n1) (getChild_cons_le n2)
      have hst : equals s t = true := by
        apply ih (x, s) (by simp) t ws.1 wt.1
        intro q
        by_cases hq : q = []
        · subst hq; simp [has_nil]
        · have := H x q hq
          rw [getChild_head, getChild_congr hxy, getChild_head] at this
          exact this
      have htl : equalsChildren c1 c2 = true := by
        apply ihl c2 ⟨hs1.2, fun p hp => h1.2 p (by simp [hp])⟩
          ⟨hs2.2, fun p hp => h2.2 p (by simp [hp])⟩
          (fun p hp => ih p (by simp [hp]))
        intro qe r hr
        have := H qe r hr
        simp only [getChild] at this
        by_cases hlt : PE.less x qe = true
        · have : PE.less y qe = true := by grind
          simp_all
        · rw [getChild_eq_none_of_lt, getChild_eq_none_of_lt]
          · intro p hp; have := hs2.1 p hp; grind
          · intro p hp; have := hs1.1 p hp; grind
      simp [equalsChildren, hxy, hst, htl]

theorem equals_of_has_eq : ∀ a b : SetTrie, wf a = true → wf b = true →
    (∀ q, has q a = has q b) → equals a b = true := by
  intro a
  induction a using SetTrie.ind with
  | h m1 c1 ih =>
    intro b ha hb H
    obtain ⟨m2, c2⟩ := b
    have hwa := wf_node.1 ha
    have hwb := wf_node.1 hb
    simp only [equals, Bool.and_eq_true]
    constructor
    · apply peEquals_of_peHas_eq hwa.1 hwb.1
      intro q
      simpa [has_single] using H [q]
    · apply equalsChildren_of_has_eq c1 c2 hwa.2 hwb.2 ih
      intro qe r hr
      simpa [has_cons hr] using H (qe :: r)

theorem equals_iff_same_members (a b : SetTrie) (ha : wf a = true) (hb : wf b = true) :
    equals a b = true ↔ ∀ q, has q a = has q b :=
  ⟨fun h q => has_eq_of_equals q a b h, equals_of_has_eq a b ha hb⟩

theorem equals_of_perm {ps qs : List Path} (h : ps.Perm qs) : equals (ofPaths ps) (ofPaths qs) = true := by
  rw [equals_iff_same_members _ _ (wf_ofPaths ps) (wf_ofPaths qs)]
  intro q
  rw [has_ofPaths, has_ofPaths]
  exact h.any_eq

end SetTrie
end SMD
