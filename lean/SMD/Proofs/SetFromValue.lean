/-
`SetFromValue` (`SMD/Model/Helpers.lean`): the emitted paths relative to the walker's position, and the
"leaves only" law under the hypothesis that no two children of one node are referenced by the same
path element.
-/
import SMD.Model.Helpers
import SMD.Proofs.SetAlgebra
import SMD.Proofs.PEOrder
namespace SMD

/-! ### the hypothesis: children of one node have different path elements -/

/-- no item of the list (numbered from `i`) is referenced by a path element equal to `pe` -/
def noItemAt (pe : PE) : Nat → List Value → Bool
  | _, [] => true
  | i, v :: rest => !PE.equals pe (guessPE i v) && noItemAt pe (i + 1) rest

/-- no entry of the list has the name `k` -/
def noFieldNamed (k : String) : List (String × Value) → Bool
  | [] => true
  | (k', _) :: rest => k != k' && noFieldNamed k rest

mutual
/-- in every map no field name repeats, and in every list no two items are referenced by the same
(guessed) path element -/
def distinctElems : Value → Bool
  | .list l => distinctItems 0 l
  | .map m => distinctFields m
  | _ => true
def distinctItems (i : Nat) : List Value → Bool
  | [] => true
  | v :: rest => distinctElems v && noItemAt (guessPE i v) (i + 1) rest && distinctItems (i + 1) rest
def distinctFields : List (String × Value) → Bool
  | [] => true
  | (k, v) :: rest => distinctElems v && noFieldNamed k rest && distinctFields rest
end

/-! ### the emitted paths, relative to the walker's position -/

mutual
def relV : Value → List Path
  | .list l => relItems 0 l
  | .map m => relFields m
  | _ => [[]]
def relItems (i : Nat) : List Value → List Path
  | [] => []
  | v :: rest => (relV v).map (fun s => guessPE i v :: s) ++ relItems (i + 1) rest
def relFields : List (String × Value) → List Path
  | [] => []
  | (k, v) :: rest => (relV v).map (fun s => PE.field k :: s) ++ relFields rest
end

mutual
theorem sfvV_eq_rel : ∀ (v : Value) (path : Path),
    sfvV path v = ((relV v).map (fun s => path ++ s)).filter (fun p => !p.isEmpty)
  | .list l, path => by simp only [sfvV, relV]; exact sfvItems_eq_rel l path 0
  | .map m, path => by simp only [sfvV, relV]; exact sfvFields_eq_rel m path
  | .null, path => by cases path <;> simp [sfvV, relV]
  | .bool _, path => by cases path <;> simp [sfvV, relV]
  | .int _, path => by cases path <;> simp [sfvV, relV]
  | .float _ _, path => by cases path <;> simp [sfvV, relV]
  | .str _, path => by cases path <;> simp [sfvV, relV]
theorem sfvItems_eq_rel : ∀ (l : List Value) (path : Path) (i : Nat),
    sfvItems path i l = ((relItems i l).map (fun s => path ++ s)).filter (fun p => !p.isEmpty)
  | [], path, i => by simp [sfvItems, relItems]
  | v :: rest, path, i => by
    simp only [sfvItems, relItems, List.map_append, List.filter_append, List.map_map]
    rw [sfvV_eq_rel v, sfvItems_eq_rel rest]
    congr 2
    apply List.map_congr_left
    intro s _
    simp
theorem sfvFields_eq_rel : ∀ (m : List (String × Value)) (path : Path),
    sfvFields path m = ((relFields m).map (fun s => path ++ s)).filter (fun p => !p.isEmpty)
  | [], path => by simp [sfvFields, relFields]
  | (k, v) :: rest, path => by
    simp only [sfvFields, relFields, List.map_append, List.filter_append, List.map_map]
    rw [sfvV_eq_rel v, sfvFields_eq_rel rest]
    congr 2
    apply List.map_congr_left
    intro s _
    simp
end

theorem has_setFromValue (v : Value) (q : Path) :
    (setFromValue v).has q = true ↔ q ≠ [] ∧ ∃ s ∈ relV v, Path.equals s q = true := by
  rw [setFromValue, SetTrie.has_ofPaths, sfvV_eq_rel]
  simp only [List.nil_append, List.map_id', List.any_filter, List.any_eq_true, Bool.and_eq_true,
    Bool.not_eq_true', Bool.and_self_left]
  constructor
  · rintro ⟨s, hs, hne, he⟩
    refine ⟨?_, s, hs, he⟩
    rintro rfl
    cases s <;> simp_all [Path.equals]
  · rintro ⟨hq, s, hs, he⟩
    refine ⟨s, hs, ?_, he⟩
    cases s
    · cases q <;> simp_all [Path.equals]
    · rfl

/-! ### no emitted path continues another -/

theorem relItems_head_ne {pe : PE} : ∀ {i : Nat} {l : List Value} {s : Path},
    noItemAt pe i l = true → s ∈ relItems i l → ∃ pe' s', s = pe' :: s' ∧ PE.equals pe pe' = false
  | _, [], _, _, hs => by simp [relItems] at hs
  | i, v :: rest, s, h, hs => by
    simp only [noItemAt, Bool.and_eq_true, Bool.not_eq_true'] at h
    simp only [relItems, List.mem_append, List.mem_map] at hs
    rcases hs with ⟨s', _, rfl⟩ | hs
    · exact ⟨_, _, rfl, h.1⟩
    · exact relItems_head_ne h.2 hs

theorem relFields_head_ne {k : String} : ∀ {m : List (String × Value)} {s : Path},
    noFieldNamed k m = true → s ∈ relFields m → ∃ k' s', s = PE.field k' :: s' ∧ k ≠ k'
  | [], _, _, hs => by simp [relFields] at hs
  | (k', v) :: rest, s, h, hs => by
    simp only [noFieldNamed, Bool.and_eq_true, bne_iff_ne] at h
    simp only [relFields, List.mem_append, List.mem_map] at hs
    rcases hs with ⟨s', _, rfl⟩ | hs
    · exact ⟨_, _, rfl, h.1⟩
    · exact relFields_head_ne h.2 hs

/-- two path elements equal to a common third are equal -/
private theorem pe_eq_via {a b c : PE} (h1 : PE.equals a c = true) (h2 : PE.equals b c = true) :
    PE.equals a b = true :=
  PE.equals_trans h1 (PE.equals_symm_of h2)

mutual
theorem relV_leaves : ∀ (v : Value), distinctElems v = true → ∀ (s1 s2 p r : Path),
    s1 ∈ relV v → s2 ∈ relV v → Path.equals s1 p = true → Path.equals s2 (p ++ r) = true → r = []
  | .list l, h, s1, s2, p, r, h1, h2, e1, e2 => by
    simp only [relV] at h1 h2; simp only [distinctElems] at h
    exact relItems_leaves l 0 h s1 s2 p r h1 h2 e1 e2
  | .map m, h, s1, s2, p, r, h1, h2, e1, e2 => by
    simp only [relV] at h1 h2; simp only [distinctElems] at h
    exact relFields_leaves m h s1 s2 p r h1 h2 e1 e2
  | .null, _, s1, s2, p, r, h1, h2, e1, e2 => by
    simp only [relV, List.mem_singleton] at h1 h2; subst h1 h2
    cases p <;> cases r <;> simp_all [Path.equals]
  | .bool _, _, s1, s2, p, r, h1, h2, e1, e2 => by
    simp only [relV, List.mem_singleton] at h1 h2; subst h1 h2
    cases p <;> cases r <;> simp_all [Path.equals]
  | .int _, _, s1, s2, p, r, h1, h2, e1, e2 => by
    simp only [relV, List.mem_singleton] at h1 h2; subst h1 h2
    cases p <;> cases r <;> simp_all [Path.equals]
  | .float _ _, _, s1, s2, p, r, h1, h2, e1, e2 => by
    simp only [relV, List.mem_singleton] at h1 h2; subst h1 h2
    cases p <;> cases r <;> simp_all [Path.equals]
  | .str _, _, s1, s2, p, r, h1, h2, e1, e2 => by
    simp only [relV, List.mem_singleton] at h1 h2; subst h1 h2
    cases p <;> cases r <;> simp_all [Path.equals]
theorem relItems_leaves : ∀ (l : List Value) (i : Nat), distinctItems i l = true → ∀ (s1 s2 p r : Path),
    s1 ∈ relItems i l → s2 ∈ relItems i l → Path.equals s1 p = true → Path.equals s2 (p ++ r) = true → r = []
  | [], _, _, s1, _, _, _, h1, _, _, _ => by simp [relItems] at h1
  | v :: rest, i, h, s1, s2, p, r, h1, h2, e1, e2 => by
    simp only [distinctItems, Bool.and_eq_true] at h
    obtain ⟨⟨hv, hno⟩, hrest⟩ := h
    simp only [relItems, List.mem_append, List.mem_map] at h1 h2
    rcases h1 with ⟨t1, ht1, rfl⟩ | h1 <;> rcases h2 with ⟨t2, ht2, rfl⟩ | h2
    · cases p with
      | nil => simp [Path.equals] at e1
      | cons a p' =>
        simp only [Path.equals, List.cons_append, Bool.and_eq_true] at e1 e2
        exact relV_leaves v hv t1 t2 p' r ht1 ht2 e1.2 e2.2
    · obtain ⟨pe', s', rfl, hne⟩ := relItems_head_ne hno h2
      cases p with
      | nil => simp [Path.equals] at e1
      | cons a p' =>
        simp only [Path.equals, List.cons_append, Bool.and_eq_true] at e1 e2
        rw [pe_eq_via e1.1 e2.1] at hne; cases hne
    · obtain ⟨pe', s', rfl, hne⟩ := relItems_head_ne hno h1
      cases p with
      | nil => simp [Path.equals] at e1
      | cons a p' =>
        simp only [Path.equals, List.cons_append, Bool.and_eq_true] at e1 e2
        rw [pe_eq_via e2.1 e1.1] at hne; cases hne
    · exact relItems_leaves rest (i + 1) hrest s1 s2 p r h1 h2 e1 e2
theorem relFields_leaves : ∀ (m : List (String × Value)), distinctFields m = true → ∀ (s1 s2 p r : Path),
    s1 ∈ relFields m → s2 ∈ relFields m → Path.equals s1 p = true → Path.equals s2 (p ++ r) = true → r = []
  | [], _, s1, _, _, _, h1, _, _, _ => by simp [relFields] at h1
  | (k, v) :: rest, h, s1, s2, p, r, h1, h2, e1, e2 => by
    simp only [distinctFields, Bool.and_eq_true] at h
    obtain ⟨⟨hv, hno⟩, hrest⟩ := h
    simp only [relFields, List.mem_append, List.mem_map] at h1 h2
    rcases h1 with ⟨t1, ht1, rfl⟩ | h1 <;> rcases h2 with ⟨t2, ht2, rfl⟩ | h2
    · cases p with
      | nil => simp [Path.equals] at e1
      | cons a p' =>
        simp only [Path.equals, List.cons_append, Bool.and_eq_true] at e1 e2
        exact relV_leaves v hv t1 t2 p' r ht1 ht2 e1.2 e2.2
    · obtain ⟨k', s', rfl, hne⟩ := relFields_head_ne hno h2
      cases p with
      | nil => simp [Path.equals] at e1
      | cons a p' =>
        simp only [Path.equals, List.cons_append, Bool.and_eq_true] at e1 e2
        have := pe_eq_via e1.1 e2.1
        simp [PE.equals] at this
        exact absurd this hne
    · obtain ⟨k', s', rfl, hne⟩ := relFields_head_ne hno h1
      cases p with
      | nil => simp [Path.equals] at e1
      | cons a p' =>
        simp only [Path.equals, List.cons_append, Bool.and_eq_true] at e1 e2
        have := pe_eq_via e2.1 e1.1
        simp [PE.equals] at this
        exact absurd this hne
    · exact relFields_leaves rest hrest s1 s2 p r h1 h2 e1 e2
end

/-- under `distinctElems` no member of `SetFromValue v` continues another member -/
theorem setFromValue_leaves_of_distinct (v : Value) (hd : distinctElems v = true) (p r : Path)
    (hp : (setFromValue v).has p = true) (hr : r ≠ []) : (setFromValue v).has (p ++ r) = false := by
  cases hh : (setFromValue v).has (p ++ r) with
  | false => rfl
  | true =>
    obtain ⟨_, s1, hs1, e1⟩ := (has_setFromValue v p).1 hp
    obtain ⟨_, s2, hs2, e2⟩ := (has_setFromValue v (p ++ r)).1 hh
    exact absurd (relV_leaves v hd s1 s2 p r hs1 hs2 e1 e2) hr

end SMD
