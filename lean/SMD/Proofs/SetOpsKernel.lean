/-
Kernel-reducible copies of the set operations of `SMD/Model/SetTrie.lean` that are defined by
well-founded recursion (`union`, `inter`, `diff`, `rdiff`: the Go two-cursor loops), of
`managedAtVersion` and of the manager loop `updateLoop` that call them, each proved equal to the
model's definition.

`peUnion`, `peInter` and `peDiff` are compiled to `WellFounded.fix` over a lexicographic pair, which does
not reduce (neither in the elaborator nor in the kernel), so a closed term that calls them — every set
operation does — cannot be evaluated by `rfl` / `decide`.  The copies recurse structurally on a fuel argument, the fuel being the
combined weight (number of nodes and child entries) of the two operands; `…S_eq` rewrites a call of the
model's operation into the copy, after which the kernel evaluates.
-/
import SMD.Model.UpdaterOrd
namespace SMD
namespace SetTrie

mutual
/-- nodes + child entries -/
def weight : SetTrie → Nat
  | node _ c => weightC c + 1
def weightC : Children → Nat
  | [] => 0
  | (_, t) :: xs => weight t + weightC xs + 1
end

/-! ### the path-element set algebra (`peUnion`, `peInter`, `peDiff` recurse on a lexicographic pair) -/

def peUnionF : Nat → List PE → List PE → List PE
  | 0, l, _ => l
  | _ + 1, [], r => r
  | _ + 1, x :: xs, [] => x :: xs
  | n + 1, x :: xs, y :: ys =>
    if PE.less x y then x :: peUnionF n xs (y :: ys)
    else if !PE.less y x then y :: peUnionF n xs ys
    else y :: peUnionF n (x :: xs) ys

theorem peUnionF_eq : ∀ (n : Nat) (l r : List PE), l.length + r.length < n → peUnionF n l r = peUnion l r
  | 0, _, _, h => by omega
  | n + 1, [], r, _ => by rw [peUnionF, peUnion]
  | n + 1, x :: xs, [], _ => by rw [peUnionF, peUnion]; simp
  | n + 1, x :: xs, y :: ys, h => by
    simp only [List.length_cons] at h
    rw [peUnionF, peUnion, peUnionF_eq n xs (y :: ys) (by simp only [List.length_cons]; omega),
      peUnionF_eq n xs ys (by omega), peUnionF_eq n (x :: xs) ys (by simp only [List.length_cons]; omega)]

def peUnionS (l r : List PE) : List PE := peUnionF (l.length + r.length + 1) l r
theorem peUnionS_eq (l r : List PE) : peUnion l r = peUnionS l r :=
  (peUnionF_eq _ l r (Nat.lt_succ_self _)).symm

def peInterF : Nat → List PE → List PE → List PE
  | 0, l, _ => l
  | _ + 1, [], _ => []
  | _ + 1, _ :: _, [] => []
  | n + 1, x :: xs, y :: ys =>
    if PE.less x y then peInterF n xs (y :: ys)
    else if !PE.less y x then x :: peInterF n xs ys
    else peInterF n (x :: xs) ys

theorem peInterF_eq : ∀ (n : Nat) (l r : List PE), l.length + r.length < n → peInterF n l r = peInter l r
  | 0, _, _, h => by omega
  | n + 1, [], r, _ => by rw [peInterF, peInter]
  | n + 1, x :: xs, [], _ => by rw [peInterF, peInter]; simp
  | n + 1, x :: xs, y :: ys, h => by
    simp only [List.length_cons] at h
    rw [peInterF, peInter, peInterF_eq n xs (y :: ys) (by simp only [List.length_cons]; omega),
      peInterF_eq n xs ys (by omega), peInterF_eq n (x :: xs) ys (by simp only [List.length_cons]; omega)]

def peInterS (l r : List PE) : List PE := peInterF (l.length + r.length + 1) l r
theorem peInterS_eq (l r : List PE) : peInter l r = peInterS l r :=
  (peInterF_eq _ l r (Nat.lt_succ_self _)).symm

def peDiffF : Nat → List PE → List PE → List PE
  | 0, l, _ => l
  | _ + 1, [], _ => []
  | _ + 1, x :: xs, [] => x :: xs
  | n + 1, x :: xs, y :: ys =>
    if PE.less x y then x :: peDiffF n xs (y :: ys)
    else if !PE.less y x then peDiffF n xs ys
    else peDiffF n (x :: xs) ys

theorem peDiffF_eq : ∀ (n : Nat) (l r : List PE), l.length + r.length < n → peDiffF n l r = peDiff l r
  | 0, _, _, h => by omega
  | n + 1, [], r, _ => by rw [peDiffF, peDiff]
  | n + 1, x :: xs, [], _ => by rw [peDiffF, peDiff]; simp
  | n + 1, x :: xs, y :: ys, h => by
    simp only [List.length_cons] at h
    rw [peDiffF, peDiff, peDiffF_eq n xs (y :: ys) (by simp only [List.length_cons]; omega),
      peDiffF_eq n xs ys (by omega), peDiffF_eq n (x :: xs) ys (by simp only [List.length_cons]; omega)]

def peDiffS (l r : List PE) : List PE := peDiffF (l.length + r.length + 1) l r
theorem peDiffS_eq (l r : List PE) : peDiff l r = peDiffS l r :=
  (peDiffF_eq _ l r (Nat.lt_succ_self _)).symm

/-! ### union -/

mutual
def unionF : Nat → SetTrie → SetTrie → SetTrie
  | 0, a, _ => a
  | n + 1, node m1 c1, node m2 c2 => node (peUnionS m1 m2) (unionChildrenF n c1 c2)
def unionChildrenF : Nat → Children → Children → Children
  | 0, l, _ => l
  | _ + 1, [], r => r
  | _ + 1, x :: xs, [] => x :: xs
  | n + 1, (x, s) :: xs, (y, t) :: ys =>
    if PE.less x y then (x, s) :: unionChildrenF n xs ((y, t) :: ys)
    else if !PE.less y x then (x, unionF n s t) :: unionChildrenF n xs ys
    else (y, t) :: unionChildrenF n ((x, s) :: xs) ys
end

theorem unionF_eq : ∀ n : Nat,
    (∀ a b, weight a + weight b < n → unionF n a b = union a b) ∧
    (∀ c d, weightC c + weightC d < n → unionChildrenF n c d = unionChildren c d)
  | 0 => ⟨fun _ _ h => by omega, fun _ _ h => by omega⟩
  | n + 1 => by
    have ih := unionF_eq n
    refine ⟨?_, ?_⟩
    · rintro ⟨m1, c1⟩ ⟨m2, c2⟩ h
      simp only [weight] at h
      rw [unionF, union, ih.2 _ _ (by omega), peUnionS_eq]
    · intro c d h
      match c, d, h with
      | [], r, _ => rw [unionChildrenF, unionChildren]
      | x :: xs, [], _ => rw [unionChildrenF, unionChildren]; simp
      | (x, s) :: xs, (y, t) :: ys, h =>
        simp only [weightC] at h
        rw [unionChildrenF, unionChildren]
        rw [ih.2 xs ((y, t) :: ys) (by simp only [weightC]; omega), ih.2 xs ys (by omega),
          ih.2 ((x, s) :: xs) ys (by simp only [weightC]; omega), ih.1 s t (by omega)]

/-- `union`, kernel-reducible -/
def unionS (a b : SetTrie) : SetTrie := unionF (weight a + weight b + 1) a b
theorem unionS_eq (a b : SetTrie) : union a b = unionS a b :=
  ((unionF_eq _).1 a b (Nat.lt_succ_self _)).symm

/-! ### intersection -/

mutual
def interF : Nat → SetTrie → SetTrie → SetTrie
  | 0, a, _ => a
  | n + 1, node m1 c1, node m2 c2 => node (peInterS m1 m2) (interChildrenF n c1 c2)
def interChildrenF : Nat → Children → Children → Children
  | 0, l, _ => l
  | _ + 1, [], _ => []
  | _ + 1, _ :: _, [] => []
  | n + 1, (x, s) :: xs, (y, t) :: ys =>
    if PE.less x y then interChildrenF n xs ((y, t) :: ys)
    else if !PE.less y x then
      let res := interF n s t
      if !isEmpty res then (x, res) :: interChildrenF n xs ys else interChildrenF n xs ys
    else interChildrenF n ((x, s) :: xs) ys
end

theorem interF_eq : ∀ n : Nat,
    (∀ a b, weight a + weight b < n → interF n a b = inter a b) ∧
    (∀ c d, weightC c + weightC d < n → interChildrenF n c d = interChildren c d)
  | 0 => ⟨fun _ _ h => by omega, fun _ _ h => by omega⟩
  | n + 1 => by
    have ih := interF_eq n
    refine ⟨?_, ?_⟩
    · rintro ⟨m1, c1⟩ ⟨m2, c2⟩ h
      simp only [weight] at h
      rw [interF, inter, ih.2 _ _ (by omega), peInterS_eq]
    · intro c d h
      match c, d, h with
      | [], r, _ => rw [interChildrenF, interChildren]
      | x :: xs, [], _ => rw [interChildrenF, interChildren]; simp
      | (x, s) :: xs, (y, t) :: ys, h =>
        simp only [weightC] at h
        rw [interChildrenF, interChildren]
        rw [ih.2 xs ((y, t) :: ys) (by simp only [weightC]; omega), ih.2 xs ys (by omega),
          ih.2 ((x, s) :: xs) ys (by simp only [weightC]; omega), ih.1 s t (by omega)]

/-- `inter`, kernel-reducible -/
def interS (a b : SetTrie) : SetTrie := interF (weight a + weight b + 1) a b
theorem interS_eq (a b : SetTrie) : inter a b = interS a b :=
  ((interF_eq _).1 a b (Nat.lt_succ_self _)).symm

/-! ### difference -/

mutual
def diffF : Nat → SetTrie → SetTrie → SetTrie
  | 0, a, _ => a
  | n + 1, node m1 c1, node m2 c2 => node (peDiffS m1 m2) (diffChildrenF n c1 c2)
def diffChildrenF : Nat → Children → Children → Children
  | 0, l, _ => l
  | _ + 1, [], _ => []
  | _ + 1, x :: xs, [] => x :: xs
  | n + 1, (x, s) :: xs, (y, t) :: ys =>
    if PE.less x y then (x, s) :: diffChildrenF n xs ((y, t) :: ys)
    else if !PE.less y x then
      let d := diffF n s t
      if !isEmpty d then (x, d) :: diffChildrenF n xs ys else diffChildrenF n xs ys
    else diffChildrenF n ((x, s) :: xs) ys
end

theorem diffF_eq : ∀ n : Nat,
    (∀ a b, weight a + weight b < n → diffF n a b = diff a b) ∧
    (∀ c d, weightC c + weightC d < n → diffChildrenF n c d = diffChildren c d)
  | 0 => ⟨fun _ _ h => by omega, fun _ _ h => by omega⟩
  | n + 1 => by
    have ih := diffF_eq n
    refine ⟨?_, ?_⟩
    · rintro ⟨m1, c1⟩ ⟨m2, c2⟩ h
      simp only [weight] at h
      rw [diffF, diff, ih.2 _ _ (by omega), peDiffS_eq]
    · intro c d h
      match c, d, h with
      | [], r, _ => rw [diffChildrenF, diffChildren]
      | x :: xs, [], _ => rw [diffChildrenF, diffChildren]; simp
      | (x, s) :: xs, (y, t) :: ys, h =>
        simp only [weightC] at h
        rw [diffChildrenF, diffChildren]
        rw [ih.2 xs ((y, t) :: ys) (by simp only [weightC]; omega), ih.2 xs ys (by omega),
          ih.2 ((x, s) :: xs) ys (by simp only [weightC]; omega), ih.1 s t (by omega)]

/-- `diff`, kernel-reducible -/
def diffS (a b : SetTrie) : SetTrie := diffF (weight a + weight b + 1) a b
theorem diffS_eq (a b : SetTrie) : diff a b = diffS a b :=
  ((diffF_eq _).1 a b (Nat.lt_succ_self _)).symm

/-! ### recursive difference -/

mutual
def rdiffF : Nat → SetTrie → SetTrie → SetTrie
  | 0, a, _ => a
  | n + 1, node m1 c1, node m2 c2 => node (peDiffS m1 m2) (rdiffChildrenF n c1 m2 c2)
def rdiffChildrenF : Nat → Children → List PE → Children → Children
  | 0, l, _, _ => l
  | _ + 1, [], _, _ => []
  | _ + 1, x :: xs, m2, [] => (x :: xs).filter (fun c => !peHas c.1 m2)
  | n + 1, (x, s) :: xs, m2, (y, t) :: ys =>
    if PE.less x y then
      if !peHas x m2 then (x, s) :: rdiffChildrenF n xs m2 ((y, t) :: ys)
      else rdiffChildrenF n xs m2 ((y, t) :: ys)
    else if !PE.less y x then
      if !peHas x m2 then
        let d := rdiffF n s t
        if !isEmpty d then (x, d) :: rdiffChildrenF n xs m2 ys else rdiffChildrenF n xs m2 ys
      else rdiffChildrenF n xs m2 ys
    else rdiffChildrenF n ((x, s) :: xs) m2 ys
end

theorem rdiffF_eq : ∀ n : Nat,
    (∀ a b, weight a + weight b < n → rdiffF n a b = rdiff a b) ∧
    (∀ c m2 d, weightC c + weightC d < n → rdiffChildrenF n c m2 d = rdiffChildren c m2 d)
  | 0 => ⟨fun _ _ h => by omega, fun _ _ _ h => by omega⟩
  | n + 1 => by
    have ih := rdiffF_eq n
    refine ⟨?_, ?_⟩
    · rintro ⟨m1, c1⟩ ⟨m2, c2⟩ h
      simp only [weight] at h
      rw [rdiffF, rdiff, ih.2 _ _ _ (by omega), peDiffS_eq]
    · intro c m2 d h
      match c, d, h with
      | [], r, _ => rw [rdiffChildrenF, rdiffChildren]
      | x :: xs, [], _ => rw [rdiffChildrenF, rdiffChildren]; simp
      | (x, s) :: xs, (y, t) :: ys, h =>
        simp only [weightC] at h
        rw [rdiffChildrenF, rdiffChildren]
        rw [ih.2 xs m2 ((y, t) :: ys) (by simp only [weightC]; omega), ih.2 xs m2 ys (by omega),
          ih.2 ((x, s) :: xs) m2 ys (by simp only [weightC]; omega), ih.1 s t (by omega)]

/-- `rdiff`, kernel-reducible -/
def rdiffS (a b : SetTrie) : SetTrie := rdiffF (weight a + weight b + 1) a b
theorem rdiffS_eq (a b : SetTrie) : rdiff a b = rdiffS a b :=
  ((rdiffF_eq _).1 a b (Nat.lt_succ_self _)).symm

end SetTrie

open SetTrie

/-! ### `managedAtVersion` -/

def mavUpdS (v : String) (set : SetTrie) : List (String × SetTrie) → List (String × SetTrie)
  | [] => [(v, unionS SetTrie.empty set)]
  | (v', s) :: rest =>
    if v == v' then (v, unionS s set) :: rest
    else if v < v' then (v, unionS SetTrie.empty set) :: (v', s) :: rest
    else (v', s) :: mavUpdS v set rest

theorem mavUpdS_eq (m : String × VersionedSet) (v : String) (acc : List (String × SetTrie)) :
    managedAtVersion.upd m v acc = mavUpdS v m.2.set acc := by
  induction acc with
  | nil => simp only [managedAtVersion.upd, mavUpdS, unionS_eq]
  | cons hd tl ih =>
    obtain ⟨v', s⟩ := hd
    simp only [managedAtVersion.upd, mavUpdS, unionS_eq, ih]

/-- `managedAtVersion`, kernel-reducible -/
def managedAtVersionS (managers : Managed) : List (String × SetTrie) :=
  managers.foldl (fun acc m => mavUpdS m.2.version m.2.set acc) []

theorem managedAtVersionS_eq (managers : Managed) : managedAtVersion managers = managedAtVersionS managers := by
  simp only [managedAtVersion, managedAtVersionS, mavUpdS_eq]

/-! ### the manager loop of `Updater.update` -/

def updateLoopS (u : Updater) (sc : Schema) (oldObj newObj : TV) (workflow : String) :
    List (String × VersionedSet) → Managed → List (String × Comparison) →
    List (String × VersionedSet) → List (String × VersionedSet) →
    Outcome (Managed × List (String × VersionedSet) × List (String × VersionedSet))
  | [], managers, _, conflicts, removed => .ok (managers, conflicts.reverse, removed.reverse)
  | (manager, ms) :: rest, managers, versions, conflicts, removed =>
    if manager == workflow then updateLoopS u sc oldObj newObj workflow rest managers versions conflicts removed
    else
      let continueWith (cmp : Comparison) (versions : List (String × Comparison)) :=
        let conflictSet := interS ms.set (unionS cmp.modified cmp.added)
        let conflicts' := if !conflictSet.isEmpty then (manager, ⟨conflictSet, ms.version, false⟩) :: conflicts else conflicts
        let removed' := if !cmp.removed.isEmpty then (manager, ⟨cmp.removed, ms.version, false⟩) :: removed else removed
        updateLoopS u sc oldObj newObj workflow rest managers versions conflicts' removed'
      match cacheGet versions ms.version with
      | some cmp => continueWith cmp versions
      | none =>
        match u.converter.convert oldObj ms.version with
        | .missing => updateLoopS u sc oldObj newObj workflow rest (mfDelete managers manager) versions conflicts removed
        | .fail => .err
        | .ok vOld =>
          match u.converter.convert newObj ms.version with
          | .missing => updateLoopS u sc oldObj newObj workflow rest (mfDelete managers manager) versions conflicts removed
          | .fail => .err
          | .ok vNew =>
            match compareTV sc vOld vNew with
            | .err => .err
            | .panic => .panic
            | .ok cmp0 =>
              let cmp := filterCmp (u.ignore ms.version) cmp0
              continueWith cmp ((ms.version, cmp) :: versions)

theorem updateLoopS_eq (u : Updater) (sc : Schema) (oldObj newObj : TV) (workflow : String)
    (l : List (String × VersionedSet)) : ∀ (managers : Managed) (versions : List (String × Comparison))
    (conflicts removed : List (String × VersionedSet)),
    updateLoop u sc oldObj newObj workflow l managers versions conflicts removed =
      updateLoopS u sc oldObj newObj workflow l managers versions conflicts removed := by
  induction l with
  | nil => intros; rfl
  | cons hd tl ih =>
    obtain ⟨manager, ms⟩ := hd
    intro managers versions conflicts removed
    simp only [updateLoop, updateLoopS, ih, unionS_eq, interS_eq]
    rfl

end SMD
