/-
Algebra of sorted member lists (`PathElementSet`): `peHas`, `peInsert`, `peUnion`, `peInter`, `peDiff`,
`peEquals` on lists strictly ascending for `PE.less`.
-/
import SMD.Spec.SetWF
import SMD.Proofs.PEOrder
namespace SMD
open SetTrie SMD.PEOrd

attribute [local grind =] less_eq_lt equals_eq_le

/-- strictly ascending, "head is a lower bound of the tail" formulation -/
abbrev SortedPE (l : List PE) : Prop := l.Pairwise (fun a b => a < b)

theorem sortedPE_cons {x : PE} {l : List PE} :
    SortedPE (x :: l) ↔ (∀ y ∈ l, x < y) ∧ SortedPE l := List.pairwise_cons

theorem sortedPEs_cons_cons (x y : PE) (l : List PE) :
    sortedPEs (x :: y :: l) = (PE.less x y && sortedPEs (y :: l)) := by
  simp [sortedPEs]

theorem sortedPEs_iff (l : List PE) : sortedPEs l = true ↔ SortedPE l := by
  induction l with
  | nil => simp [sortedPEs]
  | cons x l ih =>
    cases l with
    | nil => simp [sortedPEs]
    | cons y l =>
      rw [sortedPEs_cons_cons, Bool.and_eq_true, ih, sortedPE_cons (x := x)]
      simp only [sortedPE_cons, List.mem_cons]
      grind

/-! ### `peHas` -/

theorem peHas_congr {a b : PE} (h : PE.equals a b = true) (l : List PE) : peHas a l = peHas b l := by
  induction l with
  | nil => rfl
  | cons x l ih => simp only [peHas, ih]; grind

theorem peHas_eq_false_of_lt {q : PE} {l : List PE} (h : ∀ y ∈ l, q < y) : peHas q l = false := by
  cases l with
  | nil => rfl
  | cons x l => have := h x (by simp); simp only [peHas]; grind

theorem peHas_eq_any {l : List PE} (hl : SortedPE l) (q : PE) :
    peHas q l = l.any (fun x => PE.equals x q) := by
  induction l with
  | nil => rfl
  | cons x l ih =>
    rw [sortedPE_cons] at hl
    simp only [peHas, List.any_cons, ih hl.2]
    split
    · grind
    · have : l.any (fun x => PE.equals x q) = false := by
        rw [List.any_eq_false]; intro y hy; have := hl.1 y hy; grind
      simp [this]

theorem peHas_iff_exists {l : List PE} (hl : SortedPE l) (q : PE) :
    peHas q l = true ↔ ∃ x ∈ l, PE.equals x q = true := by
  rw [peHas_eq_any hl, List.any_eq_true]

theorem peHas_head (x : PE) (l : List PE) : peHas x (x :: l) = true := by
  simp only [peHas]; grind

/-! ### `peInsert` -/

theorem mem_peInsert {p z : PE} {l : List PE} (h : z ∈ peInsert p l) : z = p ∨ z ∈ l := by
  induction l with
  | nil => simpa [peInsert] using h
  | cons x l ih => simp only [peInsert] at h; grind

theorem sorted_peInsert (p : PE) {l : List PE} (hl : SortedPE l) : SortedPE (peInsert p l) := by
  induction l with
  | nil => simp [peInsert]
  | cons x l ih =>
    rw [sortedPE_cons] at hl
    simp only [peInsert]
    split
    · rw [sortedPE_cons]
      refine ⟨?_, ih hl.2⟩
      intro z hz
      rcases mem_peInsert hz with rfl | hz
      · grind
      · exact hl.1 z hz
    · split
      · exact sortedPE_cons.2 hl
      · rw [sortedPE_cons]
        refine ⟨?_, sortedPE_cons.2 hl⟩
        intro z hz
        rcases List.mem_cons.1 hz with rfl | hz
        · grind
        · have := hl.1 z hz; grind

theorem peHas_peInsert (p q : PE) (l : List PE) :
    peHas q (peInsert p l) = (PE.equals p q || peHas q l) := by
  induction l with
  | nil => simp only [peInsert, peHas]; grind
  | cons x l ih =>
    simp only [peInsert]
    split
    · simp only [peHas, ih]; grind
    · split <;> simp only [peHas] <;> grind

theorem peInsert_ne_nil (p : PE) (l : List PE) : peInsert p l ≠ [] := by
  cases l with
  | nil => simp [peInsert]
  | cons x l => simp only [peInsert]; repeat' split <;> simp

/-! ### `peUnion` -/

theorem mem_peUnion {z : PE} {l1 l2 : List PE} (h : z ∈ peUnion l1 l2) : z ∈ l1 ∨ z ∈ l2 := by
  fun_induction peUnion l1 l2 <;> grind

theorem sorted_peUnion {l1 l2 : List PE} (h1 : SortedPE l1) (h2 : SortedPE l2) :
    SortedPE (peUnion l1 l2) := by
  fun_induction peUnion l1 l2 with
  | case1 r => exact h2
  | case2 l _ => exact h1
  | case3 x xs y ys h ih =>
    rw [sortedPE_cons] at h1 ⊢
    refine ⟨?_, ih h1.2 h2⟩
    intro z hz
    rcases mem_peUnion hz with hz | hz
    · exact h1.1 z hz
    · rw [sortedPE_cons] at h2
      rcases List.mem_cons.1 hz with rfl | hz
      · exact h
      · have := h2.1 z hz; grind
  | case4 x xs y ys h h' ih =>
    rw [sortedPE_cons] at h1 h2 ⊢
    refine ⟨?_, ih h1.2 h2.2⟩
    intro z hz
    rcases mem_peUnion hz with hz | hz
    · have := h1.1 z hz; grind
    · exact h2.1 z hz
  | case5 x xs y ys h h' ih =>
    rw [sortedPE_cons] at h2 ⊢
    refine ⟨?_, ih h1 h2.2⟩
    intro z hz
    rcases mem_peUnion hz with hz | hz
    · rw [sortedPE_cons] at h1
      rcases List.mem_cons.1 hz with rfl | hz
      · grind
      · have := h1.1 z hz; grind
    · exact h2.1 z hz

theorem peHas_peUnion (q : PE) (l1 l2 : List PE) :
    peHas q (peUnion l1 l2) = (peHas q l1 || peHas q l2) := by
  fun_induction peUnion l1 l2 with
  | case1 r => simp [peHas]
  | case2 l h => simp [peHas]
  | case3 x xs y ys h ih => simp only [peHas, ih]; grind
  | case4 x xs y ys h1 h2 ih => simp only [peHas, ih]; grind
  | case5 x xs y ys h1 h2 ih => simp only [peHas, ih]; grind

/-! ### `peInter` -/

theorem sublist_peInter (l1 l2 : List PE) : (peInter l1 l2).Sublist l1 := by
  fun_induction peInter l1 l2 <;> grind

theorem sorted_peInter {l1 : List PE} (l2 : List PE) (h1 : SortedPE l1) : SortedPE (peInter l1 l2) :=
  h1.sublist (sublist_peInter l1 l2)

theorem peHas_peInter (q : PE) (l1 l2 : List PE) :
    peHas q (peInter l1 l2) = (peHas q l1 && peHas q l2) := by
  fun_induction peInter l1 l2 with
  | case1 r => simp [peHas]
  | case2 l h => simp [peHas]
  | case3 x xs y ys h ih => simp only [peHas, ih]; grind
  | case4 x xs y ys h1 h2 ih => simp only [peHas, ih]; grind
  | case5 x xs y ys h1 h2 ih => simp only [peHas, ih]; grind

/-! ### `peDiff` -/

theorem sublist_peDiff (l1 l2 : List PE) : (peDiff l1 l2).Sublist l1 := by
  fun_induction peDiff l1 l2 <;> grind

theorem sorted_peDiff {l1 : List PE} (l2 : List PE) (h1 : SortedPE l1) : SortedPE (peDiff l1 l2) :=
  h1.sublist (sublist_peDiff l1 l2)

theorem peHas_peDiff (q : PE) {l1 : List PE} (l2 : List PE) (h1 : SortedPE l1) :
    peHas q (peDiff l1 l2) = (peHas q l1 && !peHas q l2) := by
  fun_induction peDiff l1 l2 with
  | case1 r => simp [peHas]
  | case2 l h => simp [peHas]
  | case3 x xs y ys h ih => 
    rw [sortedPE_cons] at h1
    simp only [peHas, ih h1.2]; grind
  | case4 x xs y ys h h' ih =>
    rw [sortedPE_cons] at h1
    have := @peHas_eq_false_of_lt q xs
    simp only [peHas, ih h1.2]; grind
  | case5 x xs y ys h h' ih => simp only [peHas, ih h1]; grind

/-! ### `peEquals` -/

theorem peHas_eq_of_peEquals {l1 l2 : List PE} (h : peEquals l1 l2 = true) (q : PE) :
    peHas q l1 = peHas q l2 := by
  fun_induction peEquals l1 l2 with
  | case1 => rfl
  | case2 x xs y ys ih => simp only [Bool.and_eq_true] at h; simp only [peHas, ih h.2]; grind
  | case3 => simp at h

theorem peEquals_of_peHas_eq {l1 l2 : List PE} (h1 : SortedPE l1) (h2 : SortedPE l2)
    (h : ∀ q, peHas q l1 = peHas q l2) : peEquals l1 l2 = true := by
  induction l1 generalizing l2 with
  | nil =>
    cases l2 with
    | nil => rfl
    | cons y ys => have := h y; rw [peHas_head] at this; simp [peHas] at this
  | cons x xs ih =>
    cases l2 with
    | nil => have := h x; rw [peHas_head] at this; simp [peHas] at this
    | cons y ys =>
      rw [sortedPE_cons] at h1 h2
      have hx := h x
      have hy := h y
      rw [peHas_head] at hx hy
      simp only [peHas] at hx hy
      have hxy : PE.equals x y = true := by grind
      simp only [peEquals, hxy, Bool.true_and]
      apply ih h1.2 h2.2
      intro q
      have hq := h q
      simp only [peHas] at hq
      by_cases hlt : x < q
      · grind
      · rw [peHas_eq_false_of_lt, peHas_eq_false_of_lt]
        · intro z hz; have := h2.1 z hz; grind
        · intro z hz; have := h1.1 z hz; grind

end SMD
