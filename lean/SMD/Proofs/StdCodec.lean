/- helper lemmas for SMD/Properties/C16Std.lean: the concrete key codec (JSON text of path elements) -/
import SMD.Proofs.SerializeRoundTrip
import SMD.Proofs.ValueOrder
import SMD.Proofs.StdCodecValue
import SMD.Properties.C16
namespace SMD

/-! ### the predicates of SMD/Properties/C16Std.lean -/

mutual
/-- no float anywhere inside the value -/
def Value.noFloat : Value → Bool
  | .null => true
  | .bool _ => true
  | .int _ => true
  | .float _ _ => false
  | .str _ => true
  | .list l => Value.noFloatList l
  | .map m => Value.noFloatFields m
def Value.noFloatList : List Value → Bool
  | [] => true
  | v :: l => Value.noFloat v && Value.noFloatList l
def Value.noFloatFields : List (String × Value) → Bool
  | [] => true
  | (_, v) :: m => Value.noFloat v && Value.noFloatFields m
end

/-- no float anywhere inside the path element -/
def PE.noFloat : PE → Bool
  | .key k => Value.noFloatFields k
  | .value v => Value.noFloat v
  | _ => true

/-- the concrete codec prints the path element -/
def PE.printable (pe : PE) : Bool := (Ser.serializePE pe).isSome

/-- the key fields of an associative-list element are in the order `FieldList.Sort` puts them in -/
def PE.keySorted : PE → Bool
  | .key k => FieldList.equals (FieldList.sort k) k
  | _ => true

/-- the element lies in the domain on which the concrete codec is exact: a list index fits Go's 64-bit
`int` (`DeserializePathElement` reads it with `strconv.Atoi`, which rejects anything else); every int
inside the fields of a key or inside a value is exactly a float64, and every map there has strictly
ascending keys (`Value.inGoDomain`: the reader turns every JSON number into a float64 and every JSON
object into a Go map) -/
def PE.inGoDomain : PE → Bool
  | .key k => Value.inGoDomainFields k
  | .value v => v.inGoDomain
  | .index i => decide (-(2 ^ 63 : Int) ≤ i) && decide (i < (2 ^ 63 : Int))
  | _ => true

namespace SetTrie
mutual
/-- every member and every child element of the trie, recursively, satisfies `p` -/
def allPE (p : PE → Bool) : SetTrie → Bool
  | node m c => m.all p && allPEChildren p c
def allPEChildren (p : PE → Bool) : Children → Bool
  | [] => true
  | (pe, t) :: cs => p pe && allPE p t && allPEChildren p cs
end

/-- every path element of the trie is printable by the concrete codec -/
def allPrintable (s : SetTrie) : Bool := allPE PE.printable s
/-- every associative-list key of the trie has its fields in sorted order -/
def allKeysSorted (s : SetTrie) : Bool := allPE PE.keySorted s
/-- every path element of the trie lies in the domain on which the concrete codec is exact -/
def allInGoDomain (s : SetTrie) : Bool := allPE PE.inGoDomain s
end SetTrie

namespace Ser

/-! ### float-free values are printable -/

mutual
theorem jsonValue_isSome_of_noFloat : ∀ v : Value, v.noFloat = true → (jsonValue v).isSome = true
  | .null, _ => by simp [jsonValue]
  | .bool _, _ => by simp [jsonValue]
  | .int _, _ => by simp [jsonValue]
  | .float _ _, h => by simp [Value.noFloat] at h
  | .str _, _ => by simp [jsonValue]
  | .list l, h => by
    simp only [Value.noFloat] at h
    simp [jsonValue, jsonList_isSome_of_noFloat l h]
  | .map m, h => by
    simp only [Value.noFloat] at h
    simp [jsonValue, jsonFields_isSome_of_noFloat m h]
theorem jsonList_isSome_of_noFloat : ∀ l : List Value, Value.noFloatList l = true → (jsonList l).isSome = true
  | [], _ => by simp [jsonList]
  | [v], h => by
    simp only [Value.noFloatList, Bool.and_true] at h
    rw [jsonList]; exact jsonValue_isSome_of_noFloat v h
  | v :: w :: l, h => by
    simp only [Value.noFloatList, Bool.and_eq_true] at h
    have h1 := jsonValue_isSome_of_noFloat v h.1
    have h2 := jsonList_isSome_of_noFloat (w :: l) (by simp [Value.noFloatList, h.2])
    rw [jsonList]
    · rw [Option.isSome_iff_exists] at h1 h2
      obtain ⟨a, ha⟩ := h1
      obtain ⟨b, hb⟩ := h2
      simp [ha, hb]
    · intro h'; cases h'
theorem jsonFields_isSome_of_noFloat : ∀ m : List (String × Value), Value.noFloatFields m = true →
    (jsonFields m).isSome = true
  | [], _ => by simp [jsonFields]
  | [(k, v)], h => by
    simp only [Value.noFloatFields, Bool.and_true] at h
    rw [jsonFields]; simp [jsonValue_isSome_of_noFloat v h]
  | (k, v) :: e :: m, h => by
    obtain ⟨k', w⟩ := e
    simp only [Value.noFloatFields, Bool.and_eq_true] at h
    have h1 := jsonValue_isSome_of_noFloat v h.1
    have h2 := jsonFields_isSome_of_noFloat ((k', w) :: m) (by simp [Value.noFloatFields, h.2])
    rw [jsonFields]
    · rw [Option.isSome_iff_exists] at h1 h2
      obtain ⟨a, ha⟩ := h1
      obtain ⟨b, hb⟩ := h2
      simp [ha, hb]
    · intro h'; cases h'
end

theorem jsonKeyFields_isSome_of_noFloat : ∀ m : List (String × Value), Value.noFloatFields m = true →
    (jsonKeyFields m).isSome = true
  | [], _ => by simp [jsonKeyFields]
  | [(k, v)], h => by
    simp only [Value.noFloatFields, Bool.and_true] at h
    rw [jsonKeyFields]; simp [jsonValue_isSome_of_noFloat v h]
  | (k, v) :: e :: m, h => by
    obtain ⟨k', w⟩ := e
    simp only [Value.noFloatFields, Bool.and_eq_true] at h
    have h1 := jsonValue_isSome_of_noFloat v h.1
    have h2 := jsonKeyFields_isSome_of_noFloat ((k', w) :: m) (by simp [Value.noFloatFields, h.2])
    rw [jsonKeyFields]
    · rw [Option.isSome_iff_exists] at h1 h2
      obtain ⟨a, ha⟩ := h1
      obtain ⟨b, hb⟩ := h2
      simp [ha, hb]
    · intro h'; cases h'

theorem serializePE_isSome_of_noFloat (pe : PE) (h : pe.noFloat = true) (hi : pe ≠ .invalid) :
    (serializePE pe).isSome = true := by
  cases pe with
  | field n => rfl
  | key k => simp [serializePE, jsonKeyFields_isSome_of_noFloat k h]
  | value v => simp [serializePE, jsonValue_isSome_of_noFloat v h]
  | index i => rfl
  | invalid => exact absurd rfl hi

/-! ### no printed key is the membership marker -/

theorem serializePE_ne_dot (pe : PE) : serializePE pe ≠ some "." := by
  intro h
  cases pe with
  | field n =>
    simp only [serializePE, Option.some.injEq] at h
    have := congrArg String.toList h
    simp [String.toList_append] at this
  | key k =>
    simp only [serializePE, Option.map_eq_some_iff] at h
    obtain ⟨a, _, h⟩ := h
    have := congrArg String.toList h
    simp [String.toList_append] at this
  | value v =>
    simp only [serializePE, Option.map_eq_some_iff] at h
    obtain ⟨a, _, h⟩ := h
    have := congrArg String.toList h
    simp [String.toList_append] at this
  | index i =>
    simp only [serializePE, Option.some.injEq] at h
    have := congrArg String.toList h
    simp [String.toList_append] at this
  | invalid => simp [serializePE] at h

/-! ### `FieldList.sort` respects field-wise equality -/

theorem equalsFields_insertFieldFirst {e e' : String × Value} (h1 : e.1 = e'.1) (h2 : Value.equals e.2 e'.2 = true) :
    ∀ a b : List (String × Value), Value.equalsFields a b = true →
      Value.equalsFields (insertFieldFirst e a) (insertFieldFirst e' b) = true
  | [], [], _ => by
    obtain ⟨k, v⟩ := e; obtain ⟨k', v'⟩ := e'
    simp only at h1 h2
    simp [insertFieldFirst, Value.equalsFields, h1, h2]
  | [], _ :: _, h => by simp [Value.equalsFields] at h
  | _ :: _, [], h => by simp [Value.equalsFields] at h
  | (k, v) :: as, (k', v') :: bs, h => by
    obtain ⟨ke, ve⟩ := e; obtain ⟨ke', ve'⟩ := e'
    simp only at h1 h2
    subst h1
    simp only [Value.equalsFields, Bool.and_eq_true, beq_iff_eq] at h
    obtain ⟨⟨hk, hv⟩, hr⟩ := h
    subst hk
    simp only [insertFieldFirst]
    split
    · have := equalsFields_insertFieldFirst (e := (ke, ve)) (e' := (ke, ve')) rfl h2 as bs hr
      simp [Value.equalsFields, hv, this]
    · simp [Value.equalsFields, h2, hv, hr]

theorem equalsFields_sort : ∀ a b : List (String × Value), Value.equalsFields a b = true →
    Value.equalsFields (FieldList.sort a) (FieldList.sort b) = true
  | [], [], _ => by simp [FieldList.sort, Value.equalsFields]
  | [], _ :: _, h => by simp [Value.equalsFields] at h
  | _ :: _, [], h => by simp [Value.equalsFields] at h
  | (k, v) :: as, (k', v') :: bs, h => by
    simp only [Value.equalsFields, Bool.and_eq_true, beq_iff_eq] at h
    obtain ⟨⟨hk, hv⟩, hr⟩ := h
    have ih := equalsFields_sort as bs hr
    simp only [FieldList.sort, List.foldr_cons] at ih ⊢
    exact equalsFields_insertFieldFirst hk hv _ _ ih

theorem equalsFields_trans {a b c : List (String × Value)} (h1 : Value.equalsFields a b = true)
    (h2 : Value.equalsFields b c = true) : Value.equalsFields a c = true := by
  rw [← Value.compareFields_eq_iff] at h1 h2 ⊢
  exact (Value.compareFields_tr a b c).2.2 h1 h2

/-- the sort is stable: a list whose names are already in non-descending order is left alone -/
theorem sort_eq_self_of_nondescending : ∀ m : List (String × Value), m.Pairwise (fun a b => ¬ b.1 < a.1) →
    FieldList.sort m = m
  | [], _ => rfl
  | [x], _ => rfl
  | x :: y :: ys, h => by
    rw [List.pairwise_cons] at h
    have ih := sort_eq_self_of_nondescending (y :: ys) h.2
    simp only [FieldList.sort, List.foldr_cons] at ih ⊢
    rw [ih]
    simp [insertFieldFirst, h.1 y (by simp)]

theorem sort_eq_self_of_ascending (m : List (String × Value)) (h : m.Pairwise (fun a b => a.1 < b.1)) :
    FieldList.sort m = m :=
  sort_eq_self_of_nondescending m (h.imp fun hab hba => String.lt_irrefl _ (String.lt_trans hab hba))

/-- strictly ascending field names are in sorted order -/
theorem keySorted_of_ascending (k : FieldList) (h : k.Pairwise (fun a b => a.1 < b.1)) :
    (PE.key k).keySorted = true := by
  simp only [PE.keySorted, sort_eq_self_of_ascending k h]
  exact FieldList.equals_refl k

/-! ### reading a printed path element -/

theorem atoi_toString (i : Int) (hlo : -(2 ^ 63 : Int) ≤ i) (hhi : i < (2 ^ 63 : Int)) :
    atoi (toString i).toList = some i := by
  rw [toString_int_toList]
  have hd := toDigits_isDigit i.natAbs
  have hall : (Nat.toDigits 10 i.natAbs).all Char.isDigit = true := List.all_eq_true.2 hd
  have hne : (Nat.toDigits 10 i.natAbs).isEmpty = false := by
    cases h : Nat.toDigits 10 i.natAbs with
    | nil => exact absurd h Nat.toDigits_ne_nil
    | cons _ _ => rfl
  by_cases hneg : i < 0
  · have hv : -((i.natAbs : Nat) : Int) = i := by omega
    simp only [hneg, if_true, List.cons_append, List.nil_append, atoi, hne, hall, digitsToNat_toDigits, hv]
    simp
    omega
  · simp only [hneg, if_false, List.nil_append]
    cases h : Nat.toDigits 10 i.natAbs with
    | nil => exact absurd h Nat.toDigits_ne_nil
    | cons c t =>
      have hc : c.isDigit = true := hd c (by simp [h])
      have h1 : c ≠ '-' := isDigit_ne_minus hc
      have h2 : c ≠ '+' := by intro e; subst e; simp at hc
      rw [h] at hall hne
      have hdn : digitsToNat (c :: t) = i.natAbs := by rw [← h]; exact digitsToNat_toDigits _
      have hv : ((i.natAbs : Nat) : Int) = i := by omega
      unfold atoi
      simp only []
      split
      · rename_i heq; cases heq; exact absurd rfl h1
      · rename_i heq; cases heq; exact absurd rfl h2
      · simp only [hne, hall, hdn, hv]
        simp
        omega

/-! ### the header of a key is inspected by byte -/

theorem utf8Bytes_eq (s : String) : utf8Bytes s = s.toList.flatMap String.utf8EncodeChar := by
  rw [utf8Bytes, String.toUTF8_eq_toByteArray, ← String.utf8Encode_toList, List.utf8Encode]
  simp

/-- a key that starts with a one-byte character followed by `:` -/
theorem deserializePE_ascii (s : String) (c : Char) (p : List Char) (h : s.toList = c :: ':' :: p)
    (hc : c.utf8Size = 1) : deserializePE s = deserializeTyped c.toUInt8 p := by
  have h1 : String.utf8EncodeChar ':' = [58] := by decide
  simp [deserializePE, utf8Bytes_eq, h, String.utf8EncodeChar_eq_singleton hc, h1]

theorem cont_ne_colon (a : Nat) : (a &&& 63 ||| 128) ≠ 58 := by
  intro h
  have := congrArg (fun n => Nat.testBit n 7) h
  have h1 : Nat.testBit 128 7 = true := by decide
  have h2 : Nat.testBit 58 7 = false := by decide
  simp [Nat.testBit_or, h1, h2] at this

/-- a key whose first character takes more than one byte is the ordinary error, whatever follows -/
theorem deserializePE_multibyte (s : String) (c : Char) (p : List Char) (h : s.toList = c :: p)
    (hc : c.utf8Size ≠ 1) : deserializePE s = .error .bad := by
  have hpos := c.utf8Size_pos
  have hle := c.utf8Size_le_four
  have hlen := String.length_utf8EncodeChar c
  have hcont : ∀ b x rest, String.utf8EncodeChar c = b :: x :: rest → x ≠ 58 := by
    intro b x rest he
    have h2 : c.utf8Size = 2 ∨ c.utf8Size = 3 ∨ c.utf8Size = 4 := by omega
    rcases h2 with h2 | h2 | h2
    · have := String.utf8EncodeChar_eq_cons_cons h2
      rw [this] at he
      simp only [List.cons.injEq] at he
      rw [← he.2.1]
      intro hx
      have := congrArg UInt8.toNat hx
      simp at this
      exact cont_ne_colon _ this
    · have := String.utf8EncodeChar_eq_cons_cons_cons h2
      rw [this] at he
      simp only [List.cons.injEq] at he
      rw [← he.2.1]
      intro hx
      have := congrArg UInt8.toNat hx
      simp at this
      exact cont_ne_colon _ this
    · have := String.utf8EncodeChar_eq_cons_cons_cons_cons h2
      rw [this] at he
      simp only [List.cons.injEq] at he
      rw [← he.2.1]
      intro hx
      have := congrArg UInt8.toNat hx
      simp at this
      exact cont_ne_colon _ this
  cases he : String.utf8EncodeChar c with
  | nil => rw [he] at hlen; simp at hlen; omega
  | cons b l =>
    cases l with
    | nil => rw [he] at hlen; simp at hlen; omega
    | cons x rest =>
      have := hcont b x rest he
      simp [deserializePE, utf8Bytes_eq, h, he, this]

theorem std_roundtrip_field (n : String) : deserializePE ("f:" ++ n) = .ok (.field n) := by
  have : ("f:" ++ n).toList = 'f' :: ':' :: n.toList := by simp [String.toList_append]
  rw [deserializePE_ascii _ 'f' _ this (by decide)]
  have hi : ('f' : Char).toUInt8 = 102 := by decide
  simp [deserializeTyped, hi]

theorem std_roundtrip_index (i : Int) (hlo : -(2 ^ 63 : Int) ≤ i) (hhi : i < (2 ^ 63 : Int)) :
    deserializePE ("i:" ++ toString i) = .ok (.index i) := by
  have : ("i:" ++ toString i).toList = 'i' :: ':' :: (toString i).toList := by simp [String.toList_append]
  rw [deserializePE_ascii _ 'i' _ this (by decide)]
  have hi : ('i' : Char).toUInt8 = 105 := by decide
  simp [-Int.toString_eq_repr, deserializeTyped, hi, atoi_toString i hlo hhi]

/-- an int that is not a float64 is printed, but reading it back would need rounding -/
def isUnsupported (r : Except ReadErr PE) : Bool := match r with | .error .unsupported => true | _ => false

theorem eq_unsupported_of {r : Except ReadErr PE} (h : isUnsupported r = true) : r = .error .unsupported := by
  unfold isUnsupported at h
  split at h
  · rfl
  · cases h

theorem deserializePE_value_big : deserializePE "v:9007199254740993" = .error .unsupported :=
  eq_unsupported_of (by decide +kernel)
theorem deserializePE_key_big : deserializePE "k:{\"a\":9007199254740993}" = .error .unsupported :=
  eq_unsupported_of (by decide +kernel)

/-- a map whose keys are not in ascending order is printed as it stands and read back sorted -/
def isValueMapOfTwoNulls (a b : String) (r : Except ReadErr PE) : Bool :=
  match r with
  | .ok (.value (.map [(a', .null), (b', .null)])) => a' == a && b' == b
  | _ => false

theorem eq_of_isValueMapOfTwoNulls {a b : String} {r : Except ReadErr PE}
    (h : isValueMapOfTwoNulls a b r = true) : r = .ok (.value (.map [(a, .null), (b, .null)])) := by
  unfold isValueMapOfTwoNulls at h
  split at h
  · simp only [Bool.and_eq_true, beq_iff_eq] at h
    rw [h.1, h.2]
  · cases h

theorem deserializePE_value_unsorted :
    deserializePE "v:{\"b\":null,\"a\":null}" = .ok (.value (.map [("a", .null), ("b", .null)])) :=
  eq_of_isValueMapOfTwoNulls (by decide +kernel)

/-- an index outside Go's `int` is printed but not read back -/
theorem deserializePE_index_big : deserializePE "i:9223372036854775808" = .error .bad := by rfl

theorem std_roundtrip_value (v : Value) (s : String) (h : jsonValue v = some s) (hdom : v.inGoDomain = true) :
    ∃ v', deserializePE ("v:" ++ s) = .ok (.value v') ∧ Value.equals v' v = true := by
  have e : ("v:" ++ s).toList = 'v' :: ':' :: s.toList := by simp [String.toList_append]
  obtain ⟨v', hv', heq⟩ := readValue_jsonValue v s h hdom (s.toList.length + 2) [] (by omega) term_nil
  rw [List.append_nil] at hv'
  refine ⟨v', ?_, heq⟩
  rw [deserializePE_ascii _ 'v' _ e (by decide)]
  have hi : ('v' : Char).toUInt8 = 118 := by decide
  simp [deserializeTyped, hi, hv']


/-- what `deserializePE` returns on a printed associative-list key: the fields read back, sorted -/
theorem deserializePE_key (k : FieldList) (s : String) (h : jsonKeyFields k = some s)
    (hdom : Value.inGoDomainFields k = true) :
    ∃ m, deserializePE ("k:{" ++ s ++ "}") = .ok (.key (FieldList.sort m)) ∧ Value.equalsFields m k = true := by
  have e : ("k:{" ++ s ++ "}").toList = 'k' :: ':' :: '{' :: (s.toList ++ ['}']) := by
    simp [String.toList_append]
  have hi : ('k' : Char).toUInt8 = 107 := by decide
  rw [deserializePE_ascii _ 'k' _ e (by decide)]
  cases k with
  | nil =>
    rw [jsonKeyFields] at h
    cases h
    exact ⟨[], by simp [deserializeTyped, hi, skipWs, FieldList.sort], by simp [Value.equalsFields]⟩
  | cons kv k =>
    obtain ⟨k0, v0⟩ := kv
    obtain ⟨t, ec⟩ := jsonKeyFields_start k0 v0 k s h
    obtain ⟨m, hm, heq⟩ := readObjMembers_jsonKeyFields ((k0, v0) :: k) s (by simp) h hdom
      (('{' :: (s.toList ++ ['}'])).length + 1) [] [] (by simp)
    refine ⟨m, ?_, heq⟩
    simp only [List.reverse_nil, List.nil_append] at hm
    have hsk : skipWs ('{' :: (s.toList ++ ['}'])) = '{' :: (s.toList ++ ['}']) := rfl
    simp only [deserializeTyped, hi, hsk, hm]
    rw [ec]
    simp [skipWs]

/-- reading a printed associative-list key yields an equivalent element exactly when the key's fields are
in sorted order -/
theorem std_roundtrip_key_iff (k : FieldList) (s : String) (h : jsonKeyFields k = some s)
    (hdom : Value.inGoDomainFields k = true) :
    (∃ pe', deserializePE ("k:{" ++ s ++ "}") = .ok pe' ∧ PE.equals pe' (.key k) = true) ↔
      FieldList.equals (FieldList.sort k) k = true := by
  obtain ⟨m, hm, heq⟩ := deserializePE_key k s h hdom
  have hs := equalsFields_sort m k heq
  constructor
  · rintro ⟨pe', hd, he⟩
    rw [hm] at hd
    cases hd
    simp only [PE.equals, FieldList.equals] at he
    have hs' : Value.equalsFields (FieldList.sort k) (FieldList.sort m) = true := by
      have := FieldList.equals_symm (FieldList.sort k) (FieldList.sort m)
      simp only [FieldList.equals] at this
      rw [this]; exact hs
    exact equalsFields_trans hs' he
  · intro hk
    exact ⟨_, hm, equalsFields_trans hs hk⟩

/-- reading a printed key yields an equivalent path element, for elements whose key fields are sorted -/
theorem std_roundtrip_of_keySorted (pe : PE) (s : String) (h : serializePE pe = some s)
    (hk : pe.keySorted = true) (hd : pe.inGoDomain = true) :
    ∃ pe', deserializePE s = .ok pe' ∧ PE.equals pe' pe = true := by
  cases pe with
  | field n =>
    simp only [serializePE, Option.some.injEq] at h; subst h
    exact ⟨_, std_roundtrip_field n, by simp [PE.equals]⟩
  | key k =>
    simp only [serializePE, Option.map_eq_some_iff] at h
    obtain ⟨a, ha, rfl⟩ := h
    exact (std_roundtrip_key_iff k a ha hd).2 hk
  | value v =>
    simp only [serializePE, Option.map_eq_some_iff] at h
    obtain ⟨a, ha, rfl⟩ := h
    obtain ⟨v', hv', heq⟩ := std_roundtrip_value v a ha hd
    exact ⟨_, hv', by simpa [PE.equals] using heq⟩
  | index i =>
    simp only [serializePE, Option.some.injEq] at h; subst h
    simp only [PE.inGoDomain, Bool.and_eq_true, decide_eq_true_eq] at hd
    exact ⟨_, std_roundtrip_index i hd.1 hd.2, by simp [PE.equals]⟩
  | invalid => simp [serializePE] at h

/-- the codec laws hold at every printable element with sorted key fields -/
theorem lawAt_std (pe : PE) (hp : pe.printable = true) (hk : pe.keySorted = true) (hd : pe.inGoDomain = true) :
    LawAt stdCodec pe := by
  unfold PE.printable at hp
  rw [Option.isSome_iff_exists] at hp
  obtain ⟨s, hs⟩ := hp
  exact ⟨s, hs, fun e => serializePE_ne_dot pe (e ▸ hs), std_roundtrip_of_keySorted pe s hs hk hd⟩

/-! ### tries -/

theorem allPEChildren_iff (p : PE → Bool) (c : Children) :
    SetTrie.allPEChildren p c = true ↔ ∀ x ∈ c, p x.1 = true ∧ SetTrie.allPE p x.2 = true := by
  induction c with
  | nil => simp [SetTrie.allPEChildren]
  | cons x c ih =>
    obtain ⟨pe, t⟩ := x
    simp [SetTrie.allPEChildren, ih, and_assoc]

theorem allPE_combine {Q : PE → Prop} (p q : PE → Bool) (hQ : ∀ pe, p pe = true → q pe = true → Q pe) :
    ∀ t : SetTrie, SetTrie.allPE p t = true → SetTrie.allPE q t = true → AllPE Q t := by
  intro t
  induction t using SetTrie.ind with
  | h m c ih =>
    intro h1 h2
    simp only [SetTrie.allPE, Bool.and_eq_true, List.all_eq_true, allPEChildren_iff] at h1 h2
    exact .node m c (fun pe hpe => hQ pe (h1.1 pe hpe) (h2.1 pe hpe))
      (fun x hx => hQ x.1 (h1.2 x hx).1 (h2.2 x hx).1)
      (fun x hx => ih x hx (h1.2 x hx).2 (h2.2 x hx).2)

theorem fromJSON_eq (j : J) : fromJSON j = fromJSONWith stdCodec j := rfl
theorem toJSON_eq (s : SetTrie) : toJSON s = toJSONWith stdCodec s := rfl

/-- serialising a set with the concrete codec and parsing it back yields an equal set, for every
well-formed set all of whose path elements are printable and have sorted key fields -/
theorem allPE_and (p q : PE → Bool) :
    ∀ t : SetTrie, SetTrie.allPE p t = true → SetTrie.allPE q t = true →
      SetTrie.allPE (fun pe => p pe && q pe) t = true := by
  intro t
  induction t using SetTrie.ind with
  | h m c ih =>
    intro h1 h2
    simp only [SetTrie.allPE, Bool.and_eq_true, List.all_eq_true, allPEChildren_iff] at h1 h2 ⊢
    exact ⟨fun pe hpe => ⟨h1.1 pe hpe, h2.1 pe hpe⟩,
      fun x hx => ⟨⟨(h1.2 x hx).1, (h2.2 x hx).1⟩, ih x hx (h1.2 x hx).2 (h2.2 x hx).2⟩⟩

theorem fromJSON_toJSON_std (s : SetTrie) (hs : s.wf = true) (hp : s.allPrintable = true)
    (hk : s.allKeysSorted = true) (hd : s.allInGoDomain = true) :
    ∃ j, toJSON s = some j ∧ ∃ s', fromJSON j = .ok s' ∧ SetTrie.equals s' s = true :=
  fromJSON_toJSON_on stdCodec s hs
    (allPE_combine PE.printable (fun pe => pe.keySorted && pe.inGoDomain)
      (fun pe h1 h2 => by
        simp only [Bool.and_eq_true] at h2
        exact lawAt_std pe h1 h2.1 h2.2) s hp (allPE_and _ _ s hk hd))

open SetTrie in
/-- what the concrete codec does on a set with a single member -/
theorem singleton_std (pe pe' : PE) (key : String) (henc : serializePE pe = some key)
    (hdec : deserializePE key = .ok pe') :
    toJSON (node [pe] []) = some (J.obj [(key, J.obj [])]) ∧
      fromJSON (J.obj [(key, J.obj [])]) = .ok (node [pe'] []) := by
  have hd : key ≠ "." := fun e => serializePE_ne_dot pe (e ▸ henc)
  constructor
  · have h1 : emitMergeWith stdCodec [pe] [] = some [(key, J.obj [])] := by
      rw [emitMergeWith, emitMergeWith]
      simp [stdCodec, henc]
    simp [toJSON, toJSONWith, emitWith_node, h1]
  · have hr : readV1With stdCodec (J.obj [(key, J.obj [])]) = ⟨some (node [pe'] []), false, false, false⟩ := by
      rw [readV1With, readMembers_ok stdCodec (J.obj []) [] _ hd (by simpa [stdCodec] using hdec),
        readMembers_nil, readV1_obj_nil]
      simp [stepChildren, addMember, SetTrie.empty, SetTrie.members, SetTrie.children]
    rw [fromJSON_eq, fromJSONWith, hr]
    simp

open SetTrie in
/-- a set with a single member whose printed key the reader rejects (or cannot model) is not read back -/
theorem singleton_std_not_ok (pe : PE) (key : String) (henc : serializePE pe = some key)
    (hdec : deserializePE key = .error .bad ∨ deserializePE key = .error .unsupported) :
    ¬ ∃ j, toJSON (node [pe] []) = some j ∧ ∃ s', fromJSON j = .ok s' ∧ SetTrie.equals s' (node [pe] []) = true := by
  have hd : key ≠ "." := fun e => serializePE_ne_dot pe (e ▸ henc)
  have h1 : emitMergeWith stdCodec [pe] [] = some [(key, J.obj [])] := by
    rw [emitMergeWith, emitMergeWith]
    simp [stdCodec, henc]
  have h2 : toJSON (node [pe] []) = some (J.obj [(key, J.obj [])]) := by
    simp [toJSON, toJSONWith, emitWith_node, h1]
  rintro ⟨j, hj, s', hs', _⟩
  rw [h2] at hj
  cases hj
  rw [fromJSON_eq, fromJSONWith, readV1With] at hs'
  rcases hdec with hdec | hdec
  · rw [readMembers_bad stdCodec (J.obj []) [] _ hd (by simpa [stdCodec] using hdec), readMembers_nil] at hs'
    simp at hs'
  · rw [readMembers_unsupported stdCodec (J.obj []) [] _ hd (by simpa [stdCodec] using hdec),
      readMembers_nil] at hs'
    simp at hs'

open SetTrie in
/-- a set whose only member is an associative-list key survives the concrete round trip only if the
key's fields are in sorted order -/
theorem sorted_of_read_emit_key_singleton (k : FieldList) (s : String) (h : jsonKeyFields k = some s)
    (hdom : Value.inGoDomainFields k = true)
    (hex : ∃ j, toJSON (node [.key k] []) = some j ∧
      ∃ s', fromJSON j = .ok s' ∧ SetTrie.equals s' (node [.key k] []) = true) :
    FieldList.equals (FieldList.sort k) k = true := by
  obtain ⟨m, hm, _⟩ := deserializePE_key k s h hdom
  have henc : serializePE (.key k) = some ("k:{" ++ s ++ "}") := by simp [serializePE, h]
  obtain ⟨h1, h2⟩ := singleton_std (.key k) _ _ henc hm
  obtain ⟨j, hj, s', hs', he⟩ := hex
  rw [h1] at hj
  cases hj
  rw [h2] at hs'
  cases hs'
  refine (std_roundtrip_key_iff k s h hdom).1 ⟨_, hm, ?_⟩
  simpa [SetTrie.equals, peEquals, equalsChildren] using he

end Ser
end SMD
