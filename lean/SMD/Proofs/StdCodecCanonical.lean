/- the reader of the concrete key codec returns maps in the canonical form of a Go map, at every nesting
level: keys strictly ascending (sorted, no repeats) -/
import SMD.Proofs.StdCodec
namespace SMD

mutual
/-- every map inside the value has strictly ascending keys -/
def Value.mapsCanonical : Value → Bool
  | .list l => Value.mapsCanonicalList l
  | .map m => keysAscending m && Value.mapsCanonicalFields m
  | _ => true
def Value.mapsCanonicalList : List Value → Bool
  | [] => true
  | v :: l => Value.mapsCanonical v && Value.mapsCanonicalList l
def Value.mapsCanonicalFields : List (String × Value) → Bool
  | [] => true
  | (_, v) :: m => Value.mapsCanonical v && Value.mapsCanonicalFields m
end

namespace Ser

theorem mapsCanonicalList_iff : ∀ l : List Value,
    Value.mapsCanonicalList l = true ↔ ∀ v ∈ l, Value.mapsCanonical v = true
  | [] => by simp [Value.mapsCanonicalList]
  | v :: l => by simp [Value.mapsCanonicalList, mapsCanonicalList_iff l]

theorem mapsCanonicalFields_iff : ∀ m : List (String × Value),
    Value.mapsCanonicalFields m = true ↔ ∀ e ∈ m, Value.mapsCanonical e.2 = true
  | [] => by simp [Value.mapsCanonicalFields]
  | (k, v) :: m => by simp [Value.mapsCanonicalFields, mapsCanonicalFields_iff m]

theorem keysAscending_of_pairwise : ∀ m : List (String × Value), m.Pairwise (fun a b => a.1 < b.1) →
    keysAscending m = true
  | [], _ => rfl
  | [_], _ => rfl
  | a :: b :: rest, h => by
    rw [List.pairwise_cons] at h
    simp [keysAscending, h.1 b (by simp), keysAscending_of_pairwise (b :: rest) h.2]

theorem mem_goMapInsert (e x : String × Value) : ∀ acc : List (String × Value),
    x ∈ goMapInsert e acc → x = e ∨ x ∈ acc
  | [], h => by simpa [goMapInsert] using h
  | y :: ys, h => by
    simp only [goMapInsert] at h
    split at h
    · simpa using h
    · split at h
      · rcases List.mem_cons.1 h with h | h
        · exact .inl h
        · exact .inr (List.mem_cons_of_mem _ h)
      · rcases List.mem_cons.1 h with h | h
        · exact .inr (by simp [h])
        · rcases mem_goMapInsert e x ys h with h | h
          · exact .inl h
          · exact .inr (List.mem_cons_of_mem _ h)

theorem goMapInsert_pairwise (e : String × Value) : ∀ acc : List (String × Value),
    acc.Pairwise (fun a b => a.1 < b.1) → (goMapInsert e acc).Pairwise (fun a b => a.1 < b.1)
  | [], _ => by simp [goMapInsert]
  | y :: ys, h => by
    rw [List.pairwise_cons] at h
    simp only [goMapInsert]
    split
    · rename_i hlt
      refine List.pairwise_cons.2 ⟨?_, List.pairwise_cons.2 h⟩
      intro x hx
      rcases List.mem_cons.1 hx with rfl | hx
      · exact hlt
      · exact String.lt_trans hlt (h.1 x hx)
    · split
      · rename_i heq
        rw [beq_iff_eq] at heq
        refine List.pairwise_cons.2 ⟨?_, h.2⟩
        intro x hx
        rw [heq]; exact h.1 x hx
      · rename_i hnlt hne
        have hgt : y.1 < e.1 := by
          have hne' : e.1 ≠ y.1 := by simpa using hne
          grind
        refine List.pairwise_cons.2 ⟨?_, goMapInsert_pairwise e ys h.2⟩
        intro x hx
        rcases mem_goMapInsert e x ys hx with rfl | hx
        · exact hgt
        · exact h.1 x hx

theorem foldl_goMapInsert_props : ∀ (m acc : List (String × Value)),
    acc.Pairwise (fun a b => a.1 < b.1) →
      (m.foldl (fun acc e => goMapInsert e acc) acc).Pairwise (fun a b => a.1 < b.1) ∧
      ∀ x ∈ m.foldl (fun acc e => goMapInsert e acc) acc, x ∈ acc ∨ x ∈ m
  | [], acc, h => ⟨h, fun x hx => .inl hx⟩
  | e :: m, acc, h => by
    obtain ⟨h1, h2⟩ := foldl_goMapInsert_props m (goMapInsert e acc) (goMapInsert_pairwise e acc h)
    refine ⟨h1, fun x hx => ?_⟩
    rcases h2 x hx with hx | hx
    · rcases mem_goMapInsert e x acc hx with rfl | hx
      · exact .inr (by simp)
      · exact .inl hx
    · exact .inr (List.mem_cons_of_mem _ hx)

/-- the canonical form has strictly ascending keys and only entries of the original -/
theorem goMapFields_props (m : List (String × Value)) :
    keysAscending (goMapFields m) = true ∧ ∀ x ∈ goMapFields m, x ∈ m := by
  obtain ⟨h1, h2⟩ := foldl_goMapInsert_props m [] List.Pairwise.nil
  exact ⟨keysAscending_of_pairwise _ h1, fun x hx => (h2 x hx).resolve_left (by simp)⟩

/-! ### numbers are read as floats -/

theorem numberValue_float {neg : Bool} {ip fp rest : List Char} {v : Value} {r : List Char}
    (h : numberValue neg ip fp rest = .ok (v, r)) : v.mapsCanonical = true := by
  unfold numberValue at h
  simp only [] at h
  split at h
  · cases h
  · split at h
    · cases h
    · split at h
      · cases h
      · cases h; rfl

theorem readNumber_float {cs : List Char} {v : Value} {r : List Char}
    (h : readNumber cs = some (.ok (v, r))) : v.mapsCanonical = true := by
  have fin : ∀ neg ip fp t3 rest, finishNumber neg ip fp t3 rest = some (.ok (v, r)) → v.mapsCanonical = true := by
    intro neg ip fp t3 rest h
    unfold finishNumber at h
    split at h
    · exact numberValue_float (Option.some.inj h)
    · split at h <;> cases h
  have man : ∀ neg t1 rest, parseMantissa neg t1 rest = some (.ok (v, r)) → v.mapsCanonical = true := by
    intro neg t1 rest h
    unfold parseMantissa at h
    split at h
    · split at h
      · cases h
      · exact fin _ _ _ _ _ h
    · split at h
      · cases h
      · exact fin _ _ _ _ _ h
  have tok : ∀ neg tok rest, parseNumTok neg tok rest = some (.ok (v, r)) → v.mapsCanonical = true := by
    intro neg tok rest h
    unfold parseNumTok at h
    split at h
    · exact man _ _ _ h
    · cases h
    · split at h
      · cases h
      · exact man _ _ _ h
    · exact man _ _ _ h
  unfold readNumber at h
  split at h <;> exact tok _ _ _ h

/-! ### the readers -/

theorem readers_canonical : ∀ fuel : Nat,
    (∀ cs v r, readValue fuel cs = .ok (v, r) → v.mapsCanonical = true) ∧
    (∀ cs acc v r, readItems fuel cs acc = .ok (v, r) → (∀ a ∈ acc, Value.mapsCanonical a = true) →
      v.mapsCanonical = true) ∧
    (∀ cs acc m r, readObjMembers fuel cs acc = .ok (m, r) →
      (∀ e ∈ acc, Value.mapsCanonical e.2 = true) → ∀ e ∈ m, Value.mapsCanonical e.2 = true)
  | 0 => by
    refine ⟨?_, ?_, ?_⟩
    · intro cs v r h; simp [readValue] at h
    · intro cs acc v r h; simp [readItems] at h
    · intro cs acc m r h; simp [readObjMembers] at h
  | fuel + 1 => by
    obtain ⟨ihV, ihI, ihM⟩ := readers_canonical fuel
    refine ⟨?_, ?_, ?_⟩
    · intro cs v r h
      rw [readValue] at h
      split at h
      · cases h; rfl
      · cases h; rfl
      · cases h; rfl
      · split at h
        · cases h; rfl
        · cases h
      · split at h
        · cases h; rfl
        · exact ihI _ _ _ _ h (by simp)
      · split at h
        · cases h; rfl
        · split at h
          · rename_i m r' hm
            cases h
            obtain ⟨h1, h2⟩ := goMapFields_props m
            simp only [Value.mapsCanonical, Bool.and_eq_true, h1, true_and]
            rw [mapsCanonicalFields_iff]
            intro e he
            exact ihM _ _ _ _ hm (by simp) e (h2 e he)
          · cases h
      · split at h
        · split at h
          · rename_i x hx
            exact readNumber_float (hx ▸ congrArg some h)
          · cases h
        · cases h
      · cases h
    · intro cs acc v r h hacc
      rw [readItems] at h
      split at h
      · rename_i v' r' hv
        have hv' := ihV _ _ _ hv
        split at h
        · exact ihI _ _ _ _ h (by
            intro a ha
            rcases List.mem_cons.1 ha with rfl | ha
            · exact hv'
            · exact hacc a ha)
        · cases h
          simp only [Value.mapsCanonical]
          rw [mapsCanonicalList_iff]
          intro a ha
          rw [List.mem_reverse] at ha
          rcases List.mem_cons.1 ha with rfl | ha
          · exact hv'
          · exact hacc a ha
        · cases h
      · cases h
    · intro cs acc m r h hacc
      rw [readObjMembers] at h
      simp only [] at h
      split at h
      · rename_i k r2 hname
        split at h
        · split at h
          · rename_i v' r4 hv
            have hv' := ihV _ _ _ hv
            have hacc' : ∀ e ∈ (k, v') :: acc, Value.mapsCanonical e.2 = true := by
              intro e he
              rcases List.mem_cons.1 he with rfl | he
              · exact hv'
              · exact hacc e he
            split at h
            · exact ihM _ _ _ _ h hacc'
            · cases h
              intro e he
              rw [List.mem_reverse] at he
              exact hacc' e he
            · cases h
          · cases h
        · cases h
      · cases h

/-- every map inside a value returned by the reader is in the canonical form of a Go map -/
theorem readValue_mapsCanonical (fuel : Nat) (cs : List Char) (v : Value) (r : List Char)
    (h : readValue fuel cs = .ok (v, r)) : v.mapsCanonical = true :=
  (readers_canonical fuel).1 cs v r h

/-! ### path elements -/

theorem mem_insertFieldFirst (e x : String × Value) : ∀ m : List (String × Value),
    x ∈ insertFieldFirst e m ↔ x = e ∨ x ∈ m
  | [] => by simp [insertFieldFirst]
  | y :: ys => by
    simp only [insertFieldFirst]
    split
    · simp only [List.mem_cons, mem_insertFieldFirst e x ys]
      constructor
      · rintro (h | h | h) <;> simp [h]
      · rintro (h | h | h) <;> simp [h]
    · simp

theorem mem_sort (x : String × Value) : ∀ l : FieldList, x ∈ FieldList.sort l ↔ x ∈ l
  | [] => by simp [FieldList.sort]
  | e :: l => by
    have ih := mem_sort x l
    simp only [FieldList.sort, List.foldr_cons] at ih ⊢
    rw [mem_insertFieldFirst, ih]
    simp

theorem insertFieldFirst_sorted (e : String × Value) : ∀ m : List (String × Value),
    m.Pairwise (fun a b => ¬ b.1 < a.1) → (insertFieldFirst e m).Pairwise (fun a b => ¬ b.1 < a.1)
  | [], _ => by simp [insertFieldFirst]
  | x :: xs, h => by
    rw [List.pairwise_cons] at h
    simp only [insertFieldFirst]
    split
    · rename_i hlt
      refine List.pairwise_cons.2 ⟨?_, insertFieldFirst_sorted e xs h.2⟩
      intro y hy
      rcases (mem_insertFieldFirst e y xs).1 hy with rfl | hy
      · exact fun h' => String.lt_irrefl _ (String.lt_trans hlt h')
      · exact h.1 y hy
    · rename_i hnlt
      refine List.pairwise_cons.2 ⟨?_, List.pairwise_cons.2 h⟩
      intro y hy
      rcases List.mem_cons.1 hy with rfl | hy
      · exact hnlt
      · have := h.1 y hy
        grind

/-- the output of `FieldList.sort` is sorted by name (non-descending) -/
theorem sort_sorted : ∀ l : FieldList, (FieldList.sort l).Pairwise (fun a b => ¬ b.1 < a.1)
  | [] => by simp [FieldList.sort]
  | e :: l => by
    have ih := sort_sorted l
    simp only [FieldList.sort, List.foldr_cons] at ih ⊢
    exact insertFieldFirst_sorted e _ ih

/-- sorting a sorted field list is the identity -/
theorem sort_sort (l : FieldList) : FieldList.sort (FieldList.sort l) = FieldList.sort l :=
  sort_eq_self_of_nondescending _ (sort_sorted l)

end Ser

/-- every map inside the fields of a key / inside a value has strictly ascending keys -/
def PE.mapsCanonical : PE → Bool
  | .key k => Value.mapsCanonicalFields k
  | .value v => v.mapsCanonical
  | _ => true

namespace Ser

/-- whatever the text: a path element returned by `deserializePE` holds maps in canonical form only -/
theorem deserializePE_mapsCanonical (s : String) (pe : PE) (h : deserializePE s = .ok pe) :
    pe.mapsCanonical = true := by
  unfold deserializePE at h
  split at h
  · split at h
    · cases h
    · unfold deserializeTyped at h
      split at h
      · cases h; rfl
      split at h
      · split at h
        · rename_i v r hv
          cases h
          exact readValue_mapsCanonical _ _ _ _ hv
        · cases h
      split at h
      · split at h
        · cases h; rfl
        · split at h
          · cases h; rfl
          · split at h
            · rename_i m r hm
              cases h
              simp only [PE.mapsCanonical]
              rw [mapsCanonicalFields_iff]
              intro e he
              exact (readers_canonical _).2.2 _ _ _ _ hm (by simp) e ((mem_sort e m).1 he)
            · cases h
        · cases h
      split at h
      · split at h
        · cases h; rfl
        · cases h
      · cases h
  · cases h

end Ser
end SMD
