/- the JSON number printer / reader of the concrete key codec: `readNumber` inverts `toString` on
integers and `jsonFloat` on floats -/
import SMD.Model.Serialize
import SMD.Proofs.ValueOrder
namespace SMD
namespace Ser

/-- the text after a number does not continue it -/
def NumEnd (rest : List Char) : Prop :=
  ∀ c r, rest = c :: r → c.isDigit = false ∧ c ≠ '.' ∧ c ≠ 'e' ∧ c ≠ 'E'

theorem numEnd_nil : NumEnd [] := by intro c r h; cases h

theorem takeDigits_append (ds rest : List Char) (hd : ∀ c ∈ ds, c.isDigit = true)
    (hr : ∀ c r, rest = c :: r → c.isDigit = false) :
    takeDigits (ds ++ rest) = (ds, rest) := by
  induction ds with
  | nil =>
    cases rest with
    | nil => rfl
    | cons c r => simp [takeDigits, hr c r rfl]
  | cons c ds ih =>
    simp [takeDigits, hd c (by simp), ih (fun x hx => hd x (by simp [hx]))]

theorem digitsToNat_eq (ds : List Char) : digitsToNat ds = Nat.ofDigitChars 10 ds 0 := by
  unfold digitsToNat Nat.ofDigitChars
  congr 1
  funext n c
  simp [Nat.mul_comm]

/-! ### `readNumber` in stages -/

def hasExp (cs3 : List Char) : Bool := match cs3 with | 'e' :: _ | 'E' :: _ => true | _ => false

theorem hasExp_false (cs3 : List Char) (hend : ∀ c r, cs3 = c :: r → c ≠ 'e' ∧ c ≠ 'E') :
    hasExp cs3 = false := by
  unfold hasExp
  split
  · exact absurd rfl (hend _ _ rfl).1
  · exact absurd rfl (hend _ _ rfl).2
  · rfl

def readNum3 (neg : Bool) (ip fp cs3 : List Char) : Option (Except ReadErr (Value × List Char)) :=
  if hasExp cs3 then some (.error .unsupported)
  else
    let n := digitsToNat (ip ++ fp)
    let d := fp.length
    let num : Nat := n * 2 ^ (1074 - d)
    if d > 1074 then some (.error .unsupported)
    else if num % (5 ^ d) != 0 then some (.error .unsupported)
    else
      let u : Int := (num / 5 ^ d : Nat)
      some (.ok (.float (if neg then -u else u) (neg && n == 0), cs3))

def readNum2 (neg : Bool) (ip cs2 : List Char) : Option (Except ReadErr (Value × List Char)) :=
  if ip.isEmpty then none
  else
    let p : List Char × List Char := match cs2 with
      | '.' :: r => ((takeDigits r).1, (takeDigits r).2)
      | _ => ([], cs2)
    readNum3 neg ip p.1 p.2

theorem readNumber_neg (r : List Char) :
    readNumber ('-' :: r) = readNum2 true (takeDigits r).1 (takeDigits r).2 := rfl

theorem readNumber_pos (c : Char) (t : List Char) (h : c ≠ '-') :
    readNumber (c :: t) = readNum2 false (takeDigits (c :: t)).1 (takeDigits (c :: t)).2 := by
  unfold readNumber
  simp only []
  split
  · rename_i heq; cases heq; exact absurd rfl h
  · rfl

theorem readNum2_dot (neg : Bool) (ip r : List Char) (h : ip ≠ []) :
    readNum2 neg ip ('.' :: r) = readNum3 neg ip (takeDigits r).1 (takeDigits r).2 := by
  cases ip with
  | nil => exact absurd rfl h
  | cons a b => rfl

theorem readNum2_nodot (neg : Bool) (ip cs2 : List Char) (h : ip ≠ []) (hd : ∀ r, cs2 ≠ '.' :: r) :
    readNum2 neg ip cs2 = readNum3 neg ip [] cs2 := by
  cases ip with
  | nil => exact absurd rfl h
  | cons a b =>
    unfold readNum2
    simp only [List.isEmpty_cons, Bool.false_eq_true, if_false]

theorem readNum3_ok (neg : Bool) (ip fp cs3 : List Char) (q : Nat)
    (hend : ∀ c r, cs3 = c :: r → c ≠ 'e' ∧ c ≠ 'E') (hd : fp.length ≤ 1074)
    (hq : digitsToNat (ip ++ fp) * 2 ^ (1074 - fp.length) = q * 5 ^ fp.length) :
    readNum3 neg ip fp cs3 =
      some (.ok (.float (if neg then -(q : Int) else q) (neg && digitsToNat (ip ++ fp) == 0), cs3)) := by
  unfold readNum3
  have h1 := hasExp_false cs3 hend
  have hpos : 0 < 5 ^ fp.length := Nat.pow_pos (by omega)
  simp only [h1, Bool.false_eq_true, if_false, gt_iff_lt, Nat.not_lt.2 hd, hq,
    Nat.mul_mod_left, bne_self_eq_false, Nat.mul_div_cancel _ hpos]

theorem isDigit_ne_minus {c : Char} (h : c.isDigit = true) : c ≠ '-' := by
  intro e; subst e; simp at h

theorem natCast_mul_two_pow (n k : Nat) : ((n * 2 ^ k : Nat) : Int) = (n : Int) * (2 : Int) ^ k := by
  rw [Int.natCast_mul, Int.natCast_pow]; rfl

theorem readNum3_int (neg : Bool) (ip cs3 : List Char) (hend : ∀ c r, cs3 = c :: r → c ≠ 'e' ∧ c ≠ 'E') :
    readNum3 neg ip [] cs3 =
      some (.ok (.float (if neg then -((digitsToNat ip : Nat) * scale) else (digitsToNat ip : Nat) * scale)
        (neg && digitsToNat ip == 0), cs3)) := by
  have hq : digitsToNat (ip ++ []) * 2 ^ (1074 - ([] : List Char).length) =
      (digitsToNat ip * 2 ^ 1074) * 5 ^ ([] : List Char).length := by
    rw [List.append_nil, List.length_nil, Nat.sub_zero, Nat.pow_zero, Nat.mul_one]
  have h := readNum3_ok neg ip [] cs3 _ hend (Nat.zero_le _) hq
  rw [List.append_nil] at h
  rw [natCast_mul_two_pow (digitsToNat ip) 1074] at h
  exact h

/-- reading a printed unsigned integer -/
theorem readNumber_digits (neg : Bool) (ds rest : List Char) (hne : ds ≠ [])
    (hd : ∀ c ∈ ds, c.isDigit = true) (hr : NumEnd rest) :
    readNumber ((if neg then ['-'] else []) ++ ds ++ rest) =
      some (.ok (.float (if neg then -((digitsToNat ds : Nat) * scale) else (digitsToNat ds : Nat) * scale)
        (neg && digitsToNat ds == 0), rest)) := by
  have htd := takeDigits_append ds rest hd (fun c r h => (hr c r h).1)
  have h2 := (readNum2_nodot neg ds rest hne (fun r h => (hr _ _ h).2.1 rfl)).trans
      (readNum3_int neg ds rest (fun c r h => (hr c r h).2.2))
  cases neg with
  | true =>
    simp only [if_true, List.cons_append, List.nil_append, readNumber_neg, htd] at h2 ⊢
    exact h2
  | false =>
    cases ds with
    | nil => exact absurd rfl hne
    | cons c t =>
      simp only [Bool.false_eq_true, if_false, List.nil_append, List.cons_append] at htd h2 ⊢
      rw [readNumber_pos c _ (isDigit_ne_minus (hd c (by simp))), htd]
      exact h2

theorem toDigits_isDigit (n : Nat) : ∀ c ∈ Nat.toDigits 10 n, c.isDigit = true :=
  fun _ hc => Nat.isDigit_of_mem_toDigits (by omega) (by omega) hc

theorem digitsToNat_toDigits (n : Nat) : digitsToNat (Nat.toDigits 10 n) = n := by
  rw [digitsToNat_eq]; exact Nat.ofDigitChars_ten_toDigits

/-- the printed form of an integer: optional sign, then the digits of its absolute value -/
theorem toString_int_toList (i : Int) :
    (toString i).toList = (if i < 0 then ['-'] else []) ++ Nat.toDigits 10 i.natAbs := by
  rw [Int.toString_eq_repr, Int.repr_eq_if]
  by_cases h : 0 ≤ i
  · have : i.toNat = i.natAbs := by omega
    simp [h, this, Nat.toList_repr, Int.not_lt.2 h]
  · have h' : i < 0 := by omega
    have : (-i).toNat = i.natAbs := by omega
    simp [h, this, h', Nat.toList_repr, String.toList_append]

/-- reading a printed integer yields the float of the same numeric value -/
theorem readNumber_int (i : Int) (rest : List Char) (hr : NumEnd rest) :
    ∃ z, readNumber ((toString i).toList ++ rest) = some (.ok (.float (i * scale) z, rest)) := by
  rw [toString_int_toList]
  have := readNumber_digits (decide (i < 0)) (Nat.toDigits 10 i.natAbs) rest Nat.toDigits_ne_nil
    (toDigits_isDigit _) hr
  rw [digitsToNat_toDigits] at this
  simp only [decide_eq_true_eq] at this
  have hval : (if i < 0 then -((i.natAbs : Int) * scale) else (i.natAbs : Int) * scale) = i * scale := by
    split
    · rw [← Int.neg_mul]; congr 1; omega
    · congr 1; omega
  rw [hval] at this
  exact ⟨_, this⟩

theorem toString_int_start (i : Int) :
    ∃ c t, (toString i).toList = c :: t ∧ (c = '-' ∨ c.isDigit = true) := by
  rw [toString_int_toList]
  split
  · exact ⟨'-', _, rfl, .inl rfl⟩
  · cases h : Nat.toDigits 10 i.natAbs with
    | nil => exact absurd h Nat.toDigits_ne_nil
    | cons c t =>
      exact ⟨c, t, rfl, .inr (toDigits_isDigit i.natAbs c (by simp [h]))⟩

/-! ### floats -/


theorem oddPart_spec : ∀ (fuel : Nat) (u : Int) (k0 : Nat) (m : Int) (k : Nat),
    oddPart fuel u k0 = (m, k) → k0 ≤ k ∧ u = m * 2 ^ (k - k0)
  | 0, u, k0, m, k, h => by
    simp only [oddPart, Prod.mk.injEq] at h
    obtain ⟨rfl, rfl⟩ := h
    simp
  | fuel + 1, u, k0, m, k, h => by
    rw [oddPart] at h
    split at h
    · rename_i hc
      obtain ⟨h1, h2⟩ := oddPart_spec fuel (u / 2) (k0 + 1) m k h
      simp only [Bool.and_eq_true, beq_iff_eq] at hc
      refine ⟨by omega, ?_⟩
      have e : k - k0 = (k - (k0 + 1)) + 1 := by omega
      rw [e, Int.pow_succ, ← Int.mul_assoc, ← h2]
      omega
    · simp only [Prod.mk.injEq] at h
      obtain ⟨rfl, rfl⟩ := h
      simp

/-- the body of `jsonFloat` for a non-zero float `m * 2^k` (in float units) -/
def floatText (m : Int) (k : Nat) : Option String :=
    let e : Int := (k : Int) - 1074
    let sign := if m < 0 then "-" else ""
    let a := m.natAbs
    if e ≥ 0 then
      let n := a * 2 ^ e.toNat
      let ds := toString n
      if ds.length ≤ 15 then some (sign ++ ds) else none
    else
      let d := (-e).toNat
      let digits := toString (a * 5 ^ d)           -- value = digits / 10^d
      if digits.length > 15 then none
      else if digits.length + 5 < d then none       -- below 1e-6: exponent format
      else
        let padded := if digits.length ≤ d then String.ofList (List.replicate (d + 1 - digits.length) '0') ++ digits else digits
        let cs := padded.toList
        let ip := cs.take (cs.length - d)
        let fp := cs.drop (cs.length - d)
        some (sign ++ String.ofList ip ++ "." ++ String.ofList fp)

theorem jsonFloat_eq (u : Int) (z : Bool) :
    jsonFloat u z = if u == 0 then some (if z then "-0" else "0")
      else floatText (oddPart 1100 u 0).1 (oddPart 1100 u 0).2 := rfl

theorem two_pow_split (k j : Nat) (h : j ≤ k) : (2 : Int) ^ (k - j) * 2 ^ j = 2 ^ k := by
  rw [← Int.pow_add]; congr 1; omega

theorem sign_toList (m : Int) : (if m < 0 then "-" else "").toList = if decide (m < 0) = true then ['-'] else [] := by
  by_cases h : m < 0 <;> simp [h]

theorem signed_eq (m : Int) (x : Int) :
    (if decide (m < 0) = true then -((m.natAbs : Int) * x) else (m.natAbs : Int) * x) = m * x := by
  by_cases h : m < 0
  · simp only [h, decide_true, if_true]; rw [← Int.neg_mul]; congr 1; omega
  · simp only [h, decide_false, Bool.false_eq_true, if_false]; congr 1; omega

theorem start_signed (neg : Bool) (ds more : List Char) (hne : ds ≠ []) (hd : ∀ c ∈ ds, c.isDigit = true) :
    ∃ c t, (if neg = true then ['-'] else []) ++ ds ++ more = c :: t ∧ (c = '-' ∨ c.isDigit = true) := by
  cases neg with
  | true => exact ⟨'-', _, rfl, .inl rfl⟩
  | false =>
    cases ds with
    | nil => exact absurd rfl hne
    | cons c t => exact ⟨c, _, rfl, .inr (hd c (by simp))⟩

/-- the integer form -/
theorem floatText_big_read (m : Int) (k : Nat) (hk : 1074 ≤ k) (s : String) (h : floatText m k = some s) :
    (∃ c t, s.toList = c :: t ∧ (c = '-' ∨ c.isDigit = true)) ∧
    ∀ rest, NumEnd rest → ∃ z', readNumber (s.toList ++ rest) = some (.ok (.float (m * 2 ^ k) z', rest)) := by
  unfold floatText at h
  simp only [] at h
  have he : (k : Int) - 1074 ≥ 0 := by omega
  have het : ((k : Int) - 1074).toNat = k - 1074 := by omega
  rw [if_pos he, het] at h
  split at h
  · simp only [Option.some.injEq] at h
    subst h
    have htl : ((if m < 0 then "-" else "") ++ toString (m.natAbs * 2 ^ (k - 1074))).toList =
        (if decide (m < 0) = true then ['-'] else []) ++ Nat.toDigits 10 (m.natAbs * 2 ^ (k - 1074)) := by
      rw [String.toList_append, sign_toList, Nat.toString_eq_repr, Nat.toList_repr]
    rw [htl]
    refine ⟨by simpa using start_signed (decide (m < 0)) _ [] Nat.toDigits_ne_nil (toDigits_isDigit _), ?_⟩
    intro rest hr
    have := readNumber_digits (decide (m < 0)) _ rest Nat.toDigits_ne_nil
      (toDigits_isDigit (m.natAbs * 2 ^ (k - 1074))) hr
    rw [digitsToNat_toDigits] at this
    have hval : (if decide (m < 0) = true then -(((m.natAbs * 2 ^ (k - 1074) : Nat) : Int) * scale)
        else ((m.natAbs * 2 ^ (k - 1074) : Nat) : Int) * scale) = m * 2 ^ k := by
      unfold scale
      rw [natCast_mul_two_pow, Int.mul_assoc, two_pow_split k 1074 hk]
      exact signed_eq m _
    rw [hval] at this
    exact ⟨_, this⟩
  · cases h

/-- reading a printed decimal fraction: `cs` are the digits, the last `d` of them after the point -/
theorem readNumber_decimal (neg : Bool) (cs rest : List Char) (d a k : Nat) (hlen : d + 1 ≤ cs.length)
    (hdig : ∀ c ∈ cs, c.isDigit = true) (hk : 1074 - d = k) (hd : d ≤ 1074)
    (hval : digitsToNat cs = a * 5 ^ d) (hr : NumEnd rest) :
    readNumber ((if neg = true then ['-'] else []) ++ cs.take (cs.length - d) ++
        '.' :: (cs.drop (cs.length - d) ++ rest)) =
      some (.ok (.float (if neg = true then -((a : Int) * 2 ^ k) else (a : Int) * 2 ^ k)
        (neg && digitsToNat cs == 0), rest)) := by
  have hip : ∀ c ∈ cs.take (cs.length - d), c.isDigit = true := fun c hc => hdig c (List.mem_of_mem_take hc)
  have hfp : ∀ c ∈ cs.drop (cs.length - d), c.isDigit = true := fun c hc => hdig c (List.mem_of_mem_drop hc)
  have hipne : cs.take (cs.length - d) ≠ [] := by
    intro h
    have := congrArg List.length h
    simp at this
    omega
  have hfl : (cs.drop (cs.length - d)).length = d := by simp; omega
  have htd1 := takeDigits_append (cs.take (cs.length - d)) ('.' :: (cs.drop (cs.length - d) ++ rest)) hip
    (by intro c r h; cases h; rfl)
  have htd2 := takeDigits_append (cs.drop (cs.length - d)) rest hfp (fun c r h => (hr c r h).1)
  have hq : digitsToNat (cs.take (cs.length - d) ++ cs.drop (cs.length - d)) *
      2 ^ (1074 - (cs.drop (cs.length - d)).length) = (a * 2 ^ k) * 5 ^ (cs.drop (cs.length - d)).length := by
    rw [List.take_append_drop, hfl, hk, hval]
    ac_rfl
  have h3 := readNum3_ok neg (cs.take (cs.length - d)) (cs.drop (cs.length - d)) rest (a * 2 ^ k)
    (fun c r h => (hr c r h).2.2) (by rw [hfl]; exact hd) hq
  rw [List.take_append_drop, natCast_mul_two_pow] at h3
  have h2 := readNum2_dot neg _ (cs.drop (cs.length - d) ++ rest) hipne
  rw [htd2] at h2
  simp only [] at h2
  rw [h3] at h2
  cases neg with
  | true =>
    simp only [if_true, List.cons_append, List.nil_append, readNumber_neg, htd1] at h2 ⊢
    exact h2
  | false =>
    cases hc : cs.take (cs.length - d) with
    | nil => exact absurd hc hipne
    | cons c t =>
      rw [hc] at htd1 h2 hip
      simp only [Bool.false_eq_true, if_false, List.nil_append, List.cons_append] at htd1 h2 ⊢
      rw [readNumber_pos c _ (isDigit_ne_minus (hip c (by simp))), htd1]
      exact h2

/-- the digits of the fraction form, padded with leading zeros -/
theorem padded_props (D d : Nat) :
    let digits := toString D
    let padded := if digits.length ≤ d then String.ofList (List.replicate (d + 1 - digits.length) '0') ++ digits else digits
    d + 1 ≤ padded.toList.length ∧ (∀ c ∈ padded.toList, c.isDigit = true) ∧ digitsToNat padded.toList = D := by
  intro digits padded
  have hdl : digits.toList = Nat.toDigits 10 D := by
    simp only [digits]; rw [Nat.toString_eq_repr, Nat.toList_repr]
  have hlen : digits.length = (Nat.toDigits 10 D).length := by rw [← String.length_toList, hdl]
  by_cases h : digits.length ≤ d
  · have hp : padded.toList = List.replicate (d + 1 - digits.length) '0' ++ Nat.toDigits 10 D := by
      simp only [padded, if_pos h, String.toList_append, String.toList_ofList, hdl]
    rw [hp]
    refine ⟨by simp; omega, ?_, ?_⟩
    · intro c hc
      rcases List.mem_append.1 hc with hc | hc
      · rw [List.eq_of_mem_replicate hc]; rfl
      · exact toDigits_isDigit D c hc
    · rw [digitsToNat_eq, Nat.ofDigitChars_append, Nat.ofDigitChars_replicate_zero, Nat.mul_zero,
        Nat.ofDigitChars_ten_toDigits]
  · have hp : padded.toList = Nat.toDigits 10 D := by
      simp only [padded, if_neg h, hdl]
    rw [hp]
    exact ⟨by omega, toDigits_isDigit D, digitsToNat_toDigits D⟩

/-- the fraction form -/
theorem floatText_small_read (m : Int) (k : Nat) (hk : k < 1074) (s : String) (h : floatText m k = some s) :
    (∃ c t, s.toList = c :: t ∧ (c = '-' ∨ c.isDigit = true)) ∧
    ∀ rest, NumEnd rest → ∃ z', readNumber (s.toList ++ rest) = some (.ok (.float (m * 2 ^ k) z', rest)) := by
  unfold floatText at h
  simp only [] at h
  have he : ¬ ((k : Int) - 1074 ≥ 0) := by omega
  have het : (-((k : Int) - 1074)).toNat = 1074 - k := by omega
  rw [if_neg he, het] at h
  split at h
  · cases h
  split at h
  · cases h
  simp only [Option.some.injEq] at h
  subst h
  obtain ⟨hlen, hdig, hval⟩ := padded_props (m.natAbs * 5 ^ (1074 - k)) (1074 - k)
  generalize (if (toString (m.natAbs * 5 ^ (1074 - k))).length ≤ 1074 - k then
      String.ofList (List.replicate (1074 - k + 1 - (toString (m.natAbs * 5 ^ (1074 - k))).length) '0') ++
        toString (m.natAbs * 5 ^ (1074 - k))
    else toString (m.natAbs * 5 ^ (1074 - k))).toList = cs at hlen hdig hval ⊢
  have htl : ((if m < 0 then "-" else "") ++ String.ofList (List.take (cs.length - (1074 - k)) cs) ++ "." ++
      String.ofList (List.drop (cs.length - (1074 - k)) cs)).toList =
      (if decide (m < 0) = true then ['-'] else []) ++ cs.take (cs.length - (1074 - k)) ++
        '.' :: cs.drop (cs.length - (1074 - k)) := by
    simp only [String.toList_append, sign_toList, String.toList_ofList]
    simp
  rw [htl]
  have hipne : cs.take (cs.length - (1074 - k)) ≠ [] := by
    intro h
    have := congrArg List.length h
    simp at this
    omega
  refine ⟨start_signed (decide (m < 0)) _ _ hipne (fun c hc => hdig c (List.mem_of_mem_take hc)), ?_⟩
  intro rest hr
  have := readNumber_decimal (decide (m < 0)) cs rest (1074 - k) m.natAbs k hlen hdig (by omega) (by omega)
    hval hr
  rw [signed_eq] at this
  rw [List.append_assoc, List.cons_append]
  exact ⟨_, this⟩

/-- reading a printed float returns the same float (up to the sign of zero) -/
theorem jsonFloat_read (u : Int) (z : Bool) (s : String) (h : jsonFloat u z = some s) :
    (∃ c t, s.toList = c :: t ∧ (c = '-' ∨ c.isDigit = true)) ∧
    ∀ rest, NumEnd rest → ∃ z', readNumber (s.toList ++ rest) = some (.ok (.float u z', rest)) := by
  rw [jsonFloat_eq] at h
  split at h
  · rename_i hu
    simp only [beq_iff_eq] at hu
    subst hu
    simp only [Option.some.injEq] at h
    subst h
    cases z with
    | true =>
      refine ⟨⟨'-', _, rfl, .inl rfl⟩, fun rest hr => ?_⟩
      have := readNumber_digits true ['0'] rest (by simp) (by simp) hr
      have e : digitsToNat ['0'] = 0 := rfl
      simp only [if_true, e, Int.natCast_zero, Int.zero_mul, Int.neg_zero] at this
      exact ⟨_, this⟩
    | false =>
      refine ⟨⟨'0', _, rfl, .inr rfl⟩, fun rest hr => ?_⟩
      have := readNumber_digits false ['0'] rest (by simp) (by simp) hr
      have e : digitsToNat ['0'] = 0 := rfl
      simp only [Bool.false_eq_true, if_false, e, Int.natCast_zero, Int.zero_mul] at this
      exact ⟨_, this⟩
  · generalize hop : oddPart 1100 u 0 = p at h
    obtain ⟨m, k⟩ := p
    obtain ⟨_, hu⟩ := oddPart_spec 1100 u 0 m k hop
    rw [Nat.sub_zero] at hu
    simp only [] at h
    by_cases hk : 1074 ≤ k
    · have := floatText_big_read m k hk s h
      rw [← hu] at this
      exact this
    · have := floatText_small_read m k (by omega) s h
      rw [← hu] at this
      exact this

end Ser
end SMD
