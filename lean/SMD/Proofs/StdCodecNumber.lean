/- the JSON number printer / reader of the concrete key codec: `readNumber` inverts `toString` on
integers and `jsonFloat` on floats -/
import SMD.Model.Serialize
import SMD.Proofs.ValueOrder
namespace SMD
namespace Ser

/-- the text after a number does not continue it -/
def NumEnd (rest : List Char) : Prop :=
  ∀ c r, rest = c :: r → isNumChar c = false

theorem numEnd_nil : NumEnd [] := by intro c r h; cases h

theorem isNumChar_of_isDigit {c : Char} (h : c.isDigit = true) : isNumChar c = true := by
  simp [isNumChar, h]

theorem NumEnd.notDigit {rest : List Char} (h : NumEnd rest) : ∀ c r, rest = c :: r → c.isDigit = false := by
  intro c r e
  have := h c r e
  cases hd : c.isDigit with
  | false => rfl
  | true => rw [isNumChar_of_isDigit hd] at this; cases this

theorem takeDigits_append (ds rest : List Char) (hd : ∀ c ∈ ds, c.isDigit = true)
    (hr : ∀ c r, rest = c :: r → c.isDigit = false) :
    takeDigits (ds ++ rest) = (ds, rest) := by
  induction ds with
  | nil =>
    cases rest with
    | nil => rfl
    | cons c r => simp [takeDigits, hr c r rfl]
  | cons c ds ih =>
    simp [takeDigits, hd c (by simp), ih (fun x hx => hd x (by simp [hx]))]

theorem takeDigits_all (ds : List Char) (hd : ∀ c ∈ ds, c.isDigit = true) : takeDigits ds = (ds, []) := by
  have := takeDigits_append ds [] hd (by intro c r h; cases h)
  rwa [List.append_nil] at this

theorem takeNumChars_append (tok rest : List Char) (ht : ∀ c ∈ tok, isNumChar c = true) (hr : NumEnd rest) :
    takeNumChars (tok ++ rest) = (tok, rest) := by
  induction tok with
  | nil =>
    cases rest with
    | nil => rfl
    | cons c r => simp [takeNumChars, hr c r rfl]
  | cons c tok ih =>
    simp [takeNumChars, ht c (by simp), ih (fun x hx => ht x (by simp [hx]))]

theorem digitsToNat_eq (ds : List Char) : digitsToNat ds = Nat.ofDigitChars 10 ds 0 := by
  unfold digitsToNat Nat.ofDigitChars
  congr 1
  funext n c
  simp [Nat.mul_comm]

/-! ### `readNumber` in stages -/

theorem readNumber_neg (r : List Char) :
    readNumber ('-' :: r) = parseNumTok true (takeNumChars r).1 (takeNumChars r).2 := rfl

theorem readNumber_pos (c : Char) (t : List Char) (h : c ≠ '-') :
    readNumber (c :: t) = parseNumTok false (takeNumChars (c :: t)).1 (takeNumChars (c :: t)).2 := by
  unfold readNumber
  split
  · rename_i heq; cases heq; exact absurd rfl h
  · rfl

/-- a token that starts with a digit, without a leading zero followed by a digit -/
theorem parseNumTok_digit (neg : Bool) (c : Char) (t rest : List Char) (hc : c.isDigit = true)
    (hlz : c = '0' → ∀ d t', t = d :: t' → d.isDigit = false) :
    parseNumTok neg (c :: t) rest = parseMantissa neg (c :: t) rest := by
  unfold parseNumTok
  split
  · rename_i heq; cases heq; simp at hc
  · rename_i heq; cases heq; simp at hc
  · rename_i d t' heq
    cases heq
    simp [hlz rfl d t' rfl]
  · rfl

theorem parseMantissa_int (neg : Bool) (ds rest : List Char) (hne : ds ≠ [])
    (hd : ∀ c ∈ ds, c.isDigit = true) :
    parseMantissa neg ds rest = some (numberValue neg ds [] rest) := by
  unfold parseMantissa
  rw [takeDigits_all ds hd]
  cases ds with
  | nil => exact absurd rfl hne
  | cons c t => simp [finishNumber]

theorem parseMantissa_dec (neg : Bool) (ip fp rest : List Char) (hfp : fp ≠ [])
    (hipd : ∀ c ∈ ip, c.isDigit = true) (hfpd : ∀ c ∈ fp, c.isDigit = true) :
    parseMantissa neg (ip ++ '.' :: fp) rest = some (numberValue neg ip fp rest) := by
  unfold parseMantissa
  rw [takeDigits_append ip ('.' :: fp) hipd (by intro c r h; cases h; rfl)]
  simp only [takeDigits_all fp hfpd]
  cases fp with
  | nil => exact absurd rfl hfp
  | cons c t => simp [finishNumber]

theorem numberValue_ok (neg : Bool) (ip fp rest : List Char) (q : Nat)
    (hd : fp.length ≤ 1074)
    (hq : digitsToNat (ip ++ fp) * 2 ^ (1074 - fp.length) = q * 5 ^ fp.length)
    (hrep : isFloat64Units (q : Int) = true) :
    numberValue neg ip fp rest =
      .ok (.float (if neg then -(q : Int) else q) (neg && digitsToNat (ip ++ fp) == 0), rest) := by
  unfold numberValue
  have hpos : 0 < 5 ^ fp.length := Nat.pow_pos (by omega)
  simp only [gt_iff_lt, Nat.not_lt.2 hd, hq,
    Nat.mul_mod_left, bne_self_eq_false, Nat.mul_div_cancel _ hpos, Bool.false_eq_true, if_false, hrep,
    Bool.not_true]

/-- a mantissa below 2^53 scaled by a power of two within range is a float64 -/
theorem isFloat64Units_mantissa (a e : Nat) (ha : a < 2 ^ 53) (he : e ≤ 2045) :
    isFloat64Units ((a * 2 ^ e : Nat) : Int) = true := by
  unfold isFloat64Units
  simp only [Int.natAbs_natCast]
  by_cases h0 : a * 2 ^ e = 0
  · rw [h0]; rfl
  · have hlt : a * 2 ^ e < 2 ^ (53 + e) := by
      rw [Nat.pow_add]
      exact Nat.mul_lt_mul_of_lt_of_le ha (Nat.le_refl _) (Nat.pow_pos (by omega))
    have hbig : a * 2 ^ e < 2 ^ 2098 :=
      Nat.lt_of_lt_of_le hlt (Nat.pow_le_pow_right (Nat.succ_pos 1) (Nat.add_le_add_left he 53))
    have hlog : (a * 2 ^ e).log2 < 53 + e := (Nat.log2_lt h0).2 hlt
    simp only [hbig, decide_true, Bool.true_and, Bool.or_eq_true, decide_eq_true_eq, beq_iff_eq]
    right
    by_cases hs : (a * 2 ^ e).log2 < 53
    · left; exact hs
    · right
      have hd : 2 ^ ((a * 2 ^ e).log2 - 52) ∣ 2 ^ e := Nat.pow_dvd_pow 2 (by omega)
      exact Nat.mod_eq_zero_of_dvd (Nat.dvd_trans hd (Nat.dvd_mul_left _ _))

theorem isFloat64Units_zero_digit : isFloat64Units (((digitsToNat ['0'] : Nat) : Int) * scale) = true := by
  have e : digitsToNat ['0'] = 0 := rfl
  rw [e, Int.natCast_zero, Int.zero_mul]
  rfl

theorem isFloat64Units_neg (u : Int) : isFloat64Units (-u) = isFloat64Units u := by
  unfold isFloat64Units; simp only [Int.natAbs_neg]

/-- at most 15 decimal digits: below 2^53 -/
theorem lt_two_pow_53_of_digits {n : Nat} (h : (toString n).length ≤ 15) : n < 2 ^ 53 := by
  have hl : (toString n).length = (Nat.toDigits 10 n).length := by
    rw [← String.length_toList, Nat.toString_eq_repr, Nat.toList_repr]
  rw [hl] at h
  have := (Nat.length_toDigits_le_iff (b := 10) (by omega) (by omega)).1 h
  exact Nat.lt_trans this (by decide)

theorem isDigit_ne_minus {c : Char} (h : c.isDigit = true) : c ≠ '-' := by
  intro e; subst e; simp at h

theorem natCast_mul_two_pow (n k : Nat) : ((n * 2 ^ k : Nat) : Int) = (n : Int) * (2 : Int) ^ k := by
  rw [Int.natCast_mul, Int.natCast_pow]; rfl

theorem numberValue_int (neg : Bool) (ip rest : List Char)
    (hrep : isFloat64Units ((digitsToNat ip : Nat) * scale) = true) :
    numberValue neg ip [] rest =
      .ok (.float (if neg then -((digitsToNat ip : Nat) * scale) else (digitsToNat ip : Nat) * scale)
        (neg && digitsToNat ip == 0), rest) := by
  have hq : digitsToNat (ip ++ []) * 2 ^ (1074 - ([] : List Char).length) =
      (digitsToNat ip * 2 ^ 1074) * 5 ^ ([] : List Char).length := by
    rw [List.append_nil, List.length_nil, Nat.sub_zero, Nat.pow_zero, Nat.mul_one]
  have h := numberValue_ok neg ip [] rest _ (Nat.zero_le _) hq
    (by rw [natCast_mul_two_pow (digitsToNat ip) 1074]; exact hrep)
  rw [List.append_nil] at h
  rw [natCast_mul_two_pow (digitsToNat ip) 1074] at h
  exact h

/-- no leading zero followed by another digit -/
def NoLeadZero (ds : List Char) : Prop := ∀ d t, ds = '0' :: d :: t → False

/-- reading a printed unsigned integer -/
theorem readNumber_digits (neg : Bool) (ds rest : List Char) (hne : ds ≠ [])
    (hd : ∀ c ∈ ds, c.isDigit = true) (hlz : NoLeadZero ds) (hr : NumEnd rest)
    (hrep : isFloat64Units ((digitsToNat ds : Nat) * scale) = true) :
    readNumber ((if neg then ['-'] else []) ++ ds ++ rest) =
      some (.ok (.float (if neg then -((digitsToNat ds : Nat) * scale) else (digitsToNat ds : Nat) * scale)
        (neg && digitsToNat ds == 0), rest)) := by
  have htn := takeNumChars_append ds rest (fun c hc => isNumChar_of_isDigit (hd c hc)) hr
  have hp : parseNumTok neg ds rest = some (numberValue neg ds [] rest) := by
    cases ds with
    | nil => exact absurd rfl hne
    | cons c t =>
      rw [parseNumTok_digit neg c t rest (hd c (by simp))
        (by intro hc d t' ht; subst hc; subst ht; exact absurd rfl (fun h => hlz d t' h))]
      exact parseMantissa_int neg _ rest hne hd
  rw [numberValue_int neg ds rest hrep] at hp
  cases neg with
  | true =>
    simp only [if_true, List.cons_append, List.nil_append, readNumber_neg, htn] at hp ⊢
    exact hp
  | false =>
    cases ds with
    | nil => exact absurd rfl hne
    | cons c t =>
      simp only [Bool.false_eq_true, if_false, List.nil_append, List.cons_append] at htn hp ⊢
      rw [readNumber_pos c _ (isDigit_ne_minus (hd c (by simp))), htn]
      exact hp

theorem toDigits_isDigit (n : Nat) : ∀ c ∈ Nat.toDigits 10 n, c.isDigit = true :=
  fun _ hc => Nat.isDigit_of_mem_toDigits (by omega) (by omega) hc

theorem digitsToNat_toDigits (n : Nat) : digitsToNat (Nat.toDigits 10 n) = n := by
  rw [digitsToNat_eq]; exact Nat.ofDigitChars_ten_toDigits

theorem digitChar_ne_zero {n : Nat} (h0 : 0 < n) (h : n < 10) : Nat.digitChar n ≠ '0' := by
  have : n = 1 ∨ n = 2 ∨ n = 3 ∨ n = 4 ∨ n = 5 ∨ n = 6 ∨ n = 7 ∨ n = 8 ∨ n = 9 := by omega
  rcases this with rfl | rfl | rfl | rfl | rfl | rfl | rfl | rfl | rfl <;> decide

/-- the decimal digits of a positive number do not start with a zero -/
theorem toDigits_head_ne_zero : ∀ n : Nat, 0 < n → ∀ t, Nat.toDigits 10 n ≠ '0' :: t := by
  intro n
  induction n using Nat.strongRecOn with
  | _ n ih =>
    intro hn t
    rw [Nat.toDigits_eq_if (by omega)]
    split
    · rename_i h
      intro e
      simp only [List.cons.injEq] at e
      exact digitChar_ne_zero hn h e.1
    · rename_i h
      have hq : 0 < n / 10 := Nat.div_pos (by omega) (by omega)
      intro e
      cases hd : Nat.toDigits 10 (n / 10) with
      | nil => exact Nat.toDigits_ne_nil hd
      | cons c t' =>
        rw [hd] at e
        simp only [List.cons_append, List.cons.injEq] at e
        exact ih (n / 10) (Nat.div_lt_self hn (by omega)) hq t' (by rw [hd, e.1])

theorem noLeadZero_toDigits (n : Nat) : NoLeadZero (Nat.toDigits 10 n) := by
  intro d t h
  by_cases hn : n = 0
  · subst hn; rw [Nat.toDigits_zero] at h; cases h
  · exact toDigits_head_ne_zero n (by omega) _ h

theorem noLeadZero_zero : NoLeadZero ['0'] := by intro d t h; cases h

/-- the printed form of an integer: optional sign, then the digits of its absolute value -/
theorem toString_int_toList (i : Int) :
    (toString i).toList = (if i < 0 then ['-'] else []) ++ Nat.toDigits 10 i.natAbs := by
  rw [Int.toString_eq_repr, Int.repr_eq_if]
  by_cases h : 0 ≤ i
  · have : i.toNat = i.natAbs := by omega
    simp [h, this, Nat.toList_repr, Int.not_lt.2 h]
  · have h' : i < 0 := by omega
    have : (-i).toNat = i.natAbs := by omega
    simp [h, this, h', Nat.toList_repr, String.toList_append]

/-- reading a printed integer yields the float of the same numeric value -/
theorem readNumber_int (i : Int) (rest : List Char) (hr : NumEnd rest)
    (hrep : isFloat64Units (i * scale) = true) :
    ∃ z, readNumber ((toString i).toList ++ rest) = some (.ok (.float (i * scale) z, rest)) := by
  rw [toString_int_toList]
  have hrep' : isFloat64Units (((digitsToNat (Nat.toDigits 10 i.natAbs) : Nat) : Int) * scale) = true := by
    rw [digitsToNat_toDigits]
    by_cases hneg : i < 0
    · have e0 : (i.natAbs : Int) = -i := by omega
      rw [e0, Int.neg_mul, isFloat64Units_neg]; exact hrep
    · have e : (i.natAbs : Int) = i := by omega
      rw [e]; exact hrep
  have := readNumber_digits (decide (i < 0)) (Nat.toDigits 10 i.natAbs) rest Nat.toDigits_ne_nil
    (toDigits_isDigit _) (noLeadZero_toDigits _) hr hrep'
  rw [digitsToNat_toDigits] at this
  simp only [decide_eq_true_eq] at this
  have hval : (if i < 0 then -((i.natAbs : Int) * scale) else (i.natAbs : Int) * scale) = i * scale := by
    split
    · have e0 : (i.natAbs : Int) = -i := by omega
      rw [e0, Int.neg_mul, Int.neg_neg]
    · have e0 : (i.natAbs : Int) = i := by omega
      rw [e0]
  rw [hval] at this
  exact ⟨_, this⟩

theorem toString_int_start (i : Int) :
    ∃ c t, (toString i).toList = c :: t ∧ (c = '-' ∨ c.isDigit = true) := by
  rw [toString_int_toList]
  split
  · exact ⟨'-', _, rfl, .inl rfl⟩
  · cases h : Nat.toDigits 10 i.natAbs with
    | nil => exact absurd h Nat.toDigits_ne_nil
    | cons c t =>
      exact ⟨c, t, rfl, .inr (toDigits_isDigit i.natAbs c (by simp [h]))⟩

/-! ### floats -/


theorem oddPart_spec : ∀ (fuel : Nat) (u : Int) (k0 : Nat) (m : Int) (k : Nat),
    oddPart fuel u k0 = (m, k) → k0 ≤ k ∧ u = m * 2 ^ (k - k0)
  | 0, u, k0, m, k, h => by
    simp only [oddPart, Prod.mk.injEq] at h
    obtain ⟨rfl, rfl⟩ := h
    simp
  | fuel + 1, u, k0, m, k, h => by
    rw [oddPart] at h
    split at h
    · rename_i hc
      obtain ⟨h1, h2⟩ := oddPart_spec fuel (u / 2) (k0 + 1) m k h
      simp only [Bool.and_eq_true, beq_iff_eq] at hc
      refine ⟨by omega, ?_⟩
      have e : k - k0 = (k - (k0 + 1)) + 1 := by omega
      rw [e, Int.pow_succ, ← Int.mul_assoc, ← h2]
      omega
    · simp only [Prod.mk.injEq] at h
      obtain ⟨rfl, rfl⟩ := h
      simp

/-- the body of `jsonFloat` for a non-zero float `m * 2^k` (in float units) -/
def floatText (m : Int) (k : Nat) : Option String :=
    let e : Int := (k : Int) - 1074
    let sign := if m < 0 then "-" else ""
    let a := m.natAbs
    if e ≥ 0 then
      let n := a * 2 ^ e.toNat
      let ds := toString n
      if ds.length ≤ 15 then some (sign ++ ds) else none
    else
      let d := (-e).toNat
      let digits := toString (a * 5 ^ d)           -- value = digits / 10^d
      if digits.length > 15 then none
      else if digits.length + 5 < d then none       -- below 1e-6: exponent format
      else
        let padded := if digits.length ≤ d then String.ofList (List.replicate (d + 1 - digits.length) '0') ++ digits else digits
        let cs := padded.toList
        let ip := cs.take (cs.length - d)
        let fp := cs.drop (cs.length - d)
        some (sign ++ String.ofList ip ++ "." ++ String.ofList fp)

theorem jsonFloat_eq (u : Int) (z : Bool) :
    jsonFloat u z = if u == 0 then some (if z then "-0" else "0")
      else floatText (oddPart 1100 u 0).1 (oddPart 1100 u 0).2 := rfl

theorem two_pow_split (k j : Nat) (h : j ≤ k) : (2 : Int) ^ (k - j) * 2 ^ j = 2 ^ k := by
  rw [← Int.pow_add]; congr 1; omega

theorem sign_toList (m : Int) : (if m < 0 then "-" else "").toList = if decide (m < 0) = true then ['-'] else [] := by
  by_cases h : m < 0 <;> simp [h]

theorem signed_eq (m : Int) (x : Int) :
    (if decide (m < 0) = true then -((m.natAbs : Int) * x) else (m.natAbs : Int) * x) = m * x := by
  by_cases h : m < 0
  · simp only [h, decide_true, if_true]; rw [← Int.neg_mul]; congr 1; omega
  · simp only [h, decide_false, Bool.false_eq_true, if_false]; congr 1; omega

theorem start_signed (neg : Bool) (ds more : List Char) (hne : ds ≠ []) (hd : ∀ c ∈ ds, c.isDigit = true) :
    ∃ c t, (if neg = true then ['-'] else []) ++ ds ++ more = c :: t ∧ (c = '-' ∨ c.isDigit = true) := by
  cases neg with
  | true => exact ⟨'-', _, rfl, .inl rfl⟩
  | false =>
    cases ds with
    | nil => exact absurd rfl hne
    | cons c t => exact ⟨c, _, rfl, .inr (hd c (by simp))⟩

/-- the integer form -/
theorem floatText_big_read (m : Int) (k : Nat) (hk : 1074 ≤ k) (s : String) (h : floatText m k = some s) :
    (∃ c t, s.toList = c :: t ∧ (c = '-' ∨ c.isDigit = true)) ∧
    ∀ rest, NumEnd rest → ∃ z', readNumber (s.toList ++ rest) = some (.ok (.float (m * 2 ^ k) z', rest)) := by
  unfold floatText at h
  simp only [] at h
  have he : (k : Int) - 1074 ≥ 0 := by omega
  have het : ((k : Int) - 1074).toNat = k - 1074 := by omega
  rw [if_pos he, het] at h
  split at h
  · simp only [Option.some.injEq] at h
    subst h
    have htl : ((if m < 0 then "-" else "") ++ toString (m.natAbs * 2 ^ (k - 1074))).toList =
        (if decide (m < 0) = true then ['-'] else []) ++ Nat.toDigits 10 (m.natAbs * 2 ^ (k - 1074)) := by
      rw [String.toList_append, sign_toList, Nat.toString_eq_repr, Nat.toList_repr]
    rw [htl]
    refine ⟨by simpa using start_signed (decide (m < 0)) _ [] Nat.toDigits_ne_nil (toDigits_isDigit _), ?_⟩
    intro rest hr
    rename_i hlen15
    have hrep : isFloat64Units (((digitsToNat (Nat.toDigits 10 (m.natAbs * 2 ^ (k - 1074))) : Nat) : Int) * scale) = true := by
      rw [digitsToNat_toDigits]
      unfold scale
      rw [← natCast_mul_two_pow]
      exact isFloat64Units_mantissa _ 1074 (lt_two_pow_53_of_digits hlen15) (by omega)
    have := readNumber_digits (decide (m < 0)) _ rest Nat.toDigits_ne_nil
      (toDigits_isDigit (m.natAbs * 2 ^ (k - 1074))) (noLeadZero_toDigits _) hr hrep
    rw [digitsToNat_toDigits] at this
    have hval : (if decide (m < 0) = true then -(((m.natAbs * 2 ^ (k - 1074) : Nat) : Int) * scale)
        else ((m.natAbs * 2 ^ (k - 1074) : Nat) : Int) * scale) = m * 2 ^ k := by
      unfold scale
      rw [natCast_mul_two_pow, Int.mul_assoc, two_pow_split k 1074 hk]
      exact signed_eq m _
    rw [hval] at this
    exact ⟨_, this⟩
  · cases h

/-- reading a printed decimal fraction: `cs` are the digits, the last `d` of them after the point -/
theorem readNumber_decimal (neg : Bool) (cs rest : List Char) (d a k : Nat) (hlen : d + 1 ≤ cs.length)
    (hd1 : 1 ≤ d)
    (hdig : ∀ c ∈ cs, c.isDigit = true) (hlz : NoLeadZero (cs.take (cs.length - d)))
    (hk : 1074 - d = k) (hd : d ≤ 1074)
    (hval : digitsToNat cs = a * 5 ^ d) (hr : NumEnd rest) (ha : a < 2 ^ 53) :
    readNumber ((if neg = true then ['-'] else []) ++ cs.take (cs.length - d) ++
        '.' :: (cs.drop (cs.length - d) ++ rest)) =
      some (.ok (.float (if neg = true then -((a : Int) * 2 ^ k) else (a : Int) * 2 ^ k)
        (neg && digitsToNat cs == 0), rest)) := by
  have hip : ∀ c ∈ cs.take (cs.length - d), c.isDigit = true := fun c hc => hdig c (List.mem_of_mem_take hc)
  have hfp : ∀ c ∈ cs.drop (cs.length - d), c.isDigit = true := fun c hc => hdig c (List.mem_of_mem_drop hc)
  have hipne : cs.take (cs.length - d) ≠ [] := by
    intro h
    have := congrArg List.length h
    simp at this
    omega
  have hfl : (cs.drop (cs.length - d)).length = d := by simp; omega
  have hfpne : cs.drop (cs.length - d) ≠ [] := by
    intro h
    rw [h] at hfl
    simp at hfl
    omega
  have htok : ∀ c ∈ cs.take (cs.length - d) ++ '.' :: cs.drop (cs.length - d), isNumChar c = true := by
    intro c hc
    rcases List.mem_append.1 hc with hc | hc
    · exact isNumChar_of_isDigit (hip c hc)
    · rcases List.mem_cons.1 hc with rfl | hc
      · rfl
      · exact isNumChar_of_isDigit (hfp c hc)
  have htn := takeNumChars_append _ rest htok hr
  have hq : digitsToNat (cs.take (cs.length - d) ++ cs.drop (cs.length - d)) *
      2 ^ (1074 - (cs.drop (cs.length - d)).length) = (a * 2 ^ k) * 5 ^ (cs.drop (cs.length - d)).length := by
    rw [List.take_append_drop, hfl, hk, hval]
    ac_rfl
  have h3 := numberValue_ok neg (cs.take (cs.length - d)) (cs.drop (cs.length - d)) rest (a * 2 ^ k)
    (by rw [hfl]; exact hd) hq (isFloat64Units_mantissa a k ha (by omega))
  rw [List.take_append_drop, natCast_mul_two_pow] at h3
  have hp : parseNumTok neg (cs.take (cs.length - d) ++ '.' :: cs.drop (cs.length - d)) rest =
      some (numberValue neg (cs.take (cs.length - d)) (cs.drop (cs.length - d)) rest) := by
    cases hc : cs.take (cs.length - d) with
    | nil => exact absurd hc hipne
    | cons c t =>
      rw [hc] at hip hlz
      rw [List.cons_append, parseNumTok_digit neg c _ rest (hip c (by simp))
        (by
          intro hc0 d' t' ht
          subst hc0
          cases t with
          | nil => simp at ht; rw [← ht.1]; rfl
          | cons x t'' =>
            simp only [List.cons_append, List.cons.injEq] at ht
            exact absurd rfl (fun h => hlz x t'' h))]
      rw [← List.cons_append]
      exact parseMantissa_dec neg _ _ rest hfpne hip hfp
  rw [h3] at hp
  have hassoc : ∀ pre : List Char, pre ++ cs.take (cs.length - d) ++ '.' :: (cs.drop (cs.length - d) ++ rest) =
      pre ++ ((cs.take (cs.length - d) ++ '.' :: cs.drop (cs.length - d)) ++ rest) := by
    intro pre; simp
  rw [hassoc]
  cases neg with
  | true =>
    simp only [if_true, List.cons_append, List.nil_append, readNumber_neg, htn] at hp ⊢
    exact hp
  | false =>
    cases hc : cs.take (cs.length - d) with
    | nil => exact absurd hc hipne
    | cons c t =>
      rw [hc] at htn hp hip
      simp only [Bool.false_eq_true, if_false, List.nil_append, List.cons_append] at htn hp ⊢
      rw [readNumber_pos c _ (isDigit_ne_minus (hip c (by simp))), htn]
      exact hp

theorem noLeadZero_take {l : List Char} (h : NoLeadZero l) (n : Nat) : NoLeadZero (l.take n) := by
  intro d t e
  have h2 := List.take_append_drop n l
  rw [e] at h2
  exact h d (t ++ l.drop n) (by simpa using h2.symm)

/-- the digits of the fraction form, padded with leading zeros -/
theorem padded_props (D d : Nat) :
    let digits := toString D
    let padded := if digits.length ≤ d then String.ofList (List.replicate (d + 1 - digits.length) '0') ++ digits else digits
    d + 1 ≤ padded.toList.length ∧ (∀ c ∈ padded.toList, c.isDigit = true) ∧ digitsToNat padded.toList = D ∧
      NoLeadZero (padded.toList.take (padded.toList.length - d)) := by
  intro digits padded
  have hdl : digits.toList = Nat.toDigits 10 D := by
    simp only [digits]; rw [Nat.toString_eq_repr, Nat.toList_repr]
  have hlen : digits.length = (Nat.toDigits 10 D).length := by rw [← String.length_toList, hdl]
  by_cases h : digits.length ≤ d
  · have hp : padded.toList = List.replicate (d + 1 - digits.length) '0' ++ Nat.toDigits 10 D := by
      simp only [padded, if_pos h, String.toList_append, String.toList_ofList, hdl]
    rw [hp]
    refine ⟨by simp; omega, ?_, ?_, ?_⟩
    · intro c hc
      rcases List.mem_append.1 hc with hc | hc
      · rw [List.eq_of_mem_replicate hc]; rfl
      · exact toDigits_isDigit D c hc
    · rw [digitsToNat_eq, Nat.ofDigitChars_append, Nat.ofDigitChars_replicate_zero, Nat.mul_zero,
        Nat.ofDigitChars_ten_toDigits]
    · have hl : (List.replicate (d + 1 - digits.length) '0' ++ Nat.toDigits 10 D).length - d = 1 := by
        simp; omega
      rw [hl]
      intro x t e
      have := congrArg List.length e
      simp at this
      omega
  · have hp : padded.toList = Nat.toDigits 10 D := by
      simp only [padded, if_neg h, hdl]
    rw [hp]
    exact ⟨by omega, toDigits_isDigit D, digitsToNat_toDigits D, noLeadZero_take (noLeadZero_toDigits D) _⟩

/-- the fraction form -/
theorem floatText_small_read (m : Int) (k : Nat) (hk : k < 1074) (s : String) (h : floatText m k = some s) :
    (∃ c t, s.toList = c :: t ∧ (c = '-' ∨ c.isDigit = true)) ∧
    ∀ rest, NumEnd rest → ∃ z', readNumber (s.toList ++ rest) = some (.ok (.float (m * 2 ^ k) z', rest)) := by
  unfold floatText at h
  simp only [] at h
  have he : ¬ ((k : Int) - 1074 ≥ 0) := by omega
  have het : (-((k : Int) - 1074)).toNat = 1074 - k := by omega
  rw [if_neg he, het] at h
  split at h
  · cases h
  rename_i hlen15
  split at h
  · cases h
  simp only [Option.some.injEq] at h
  subst h
  have ha53 : m.natAbs < 2 ^ 53 := by
    have h1 : m.natAbs * 5 ^ (1074 - k) < 2 ^ 53 := lt_two_pow_53_of_digits (by omega)
    exact Nat.lt_of_le_of_lt (Nat.le_mul_of_pos_right _ (Nat.pow_pos (by omega))) h1
  obtain ⟨hlen, hdig, hval, hlz⟩ := padded_props (m.natAbs * 5 ^ (1074 - k)) (1074 - k)
  generalize (if (toString (m.natAbs * 5 ^ (1074 - k))).length ≤ 1074 - k then
      String.ofList (List.replicate (1074 - k + 1 - (toString (m.natAbs * 5 ^ (1074 - k))).length) '0') ++
        toString (m.natAbs * 5 ^ (1074 - k))
    else toString (m.natAbs * 5 ^ (1074 - k))).toList = cs at hlen hdig hval hlz ⊢
  have htl : ((if m < 0 then "-" else "") ++ String.ofList (List.take (cs.length - (1074 - k)) cs) ++ "." ++
      String.ofList (List.drop (cs.length - (1074 - k)) cs)).toList =
      (if decide (m < 0) = true then ['-'] else []) ++ cs.take (cs.length - (1074 - k)) ++
        '.' :: cs.drop (cs.length - (1074 - k)) := by
    simp only [String.toList_append, sign_toList, String.toList_ofList]
    simp
  rw [htl]
  have hipne : cs.take (cs.length - (1074 - k)) ≠ [] := by
    intro h
    have := congrArg List.length h
    simp at this
    omega
  refine ⟨start_signed (decide (m < 0)) _ _ hipne (fun c hc => hdig c (List.mem_of_mem_take hc)), ?_⟩
  intro rest hr
  have := readNumber_decimal (decide (m < 0)) cs rest (1074 - k) m.natAbs k hlen (by omega) hdig hlz (by omega)
    (by omega) hval hr ha53
  rw [signed_eq] at this
  rw [List.append_assoc, List.cons_append]
  exact ⟨_, this⟩

/-- reading a printed float returns the same float (up to the sign of zero) -/
theorem jsonFloat_read (u : Int) (z : Bool) (s : String) (h : jsonFloat u z = some s) :
    (∃ c t, s.toList = c :: t ∧ (c = '-' ∨ c.isDigit = true)) ∧
    ∀ rest, NumEnd rest → ∃ z', readNumber (s.toList ++ rest) = some (.ok (.float u z', rest)) := by
  rw [jsonFloat_eq] at h
  split at h
  · rename_i hu
    simp only [beq_iff_eq] at hu
    subst hu
    simp only [Option.some.injEq] at h
    subst h
    cases z with
    | true =>
      refine ⟨⟨'-', _, rfl, .inl rfl⟩, fun rest hr => ?_⟩
      have := readNumber_digits true ['0'] rest (by simp) (by simp) noLeadZero_zero hr isFloat64Units_zero_digit
      have e : digitsToNat ['0'] = 0 := rfl
      simp only [if_true, e, Int.natCast_zero, Int.zero_mul, Int.neg_zero] at this
      exact ⟨_, this⟩
    | false =>
      refine ⟨⟨'0', _, rfl, .inr rfl⟩, fun rest hr => ?_⟩
      have := readNumber_digits false ['0'] rest (by simp) (by simp) noLeadZero_zero hr isFloat64Units_zero_digit
      have e : digitsToNat ['0'] = 0 := rfl
      simp only [Bool.false_eq_true, if_false, e, Int.natCast_zero, Int.zero_mul] at this
      exact ⟨_, this⟩
  · generalize hop : oddPart 1100 u 0 = p at h
    obtain ⟨m, k⟩ := p
    obtain ⟨_, hu⟩ := oddPart_spec 1100 u 0 m k hop
    rw [Nat.sub_zero] at hu
    simp only [] at h
    by_cases hk : 1074 ≤ k
    · have := floatText_big_read m k hk s h
      rw [← hu] at this
      exact this
    · have := floatText_small_read m k (by omega) s h
      rw [← hu] at this
      exact this

end Ser
end SMD
