/- the JSON string printer / reader of the concrete key codec: `readStringBody` inverts `jsonString` -/
import SMD.Model.Serialize
namespace SMD
namespace Ser

theorem hexVal_hexDigit : ∀ k : Fin 16, hexVal (hexDigit k.val) = some k.val := by decide

theorem toNat_eq_of {c : Char} {n : Nat} (h : c.toNat = n) : c = Char.ofNat n := by
  rw [← h, Char.ofNat_toNat]

/-- the escape of a control character -/
theorem readStringBody_ctrl (fuel : Nat) (n : Nat) (hn : n < 32) (rest acc : List Char) :
    readStringBody (fuel + 1)
      (("\\u00" ++ String.singleton (hexDigit (n / 16)) ++ String.singleton (hexDigit (n % 16))).toList ++ rest) acc
      = readStringBody fuel rest (Char.ofNat n :: acc) := by
  have h1 := hexVal_hexDigit ⟨n / 16, by omega⟩
  have h2 := hexVal_hexDigit ⟨n % 16, by omega⟩
  have h0 : hexVal '0' = some 0 := by decide
  simp only [String.toList_append, String.toList_singleton, List.append_assoc, List.cons_append,
    List.nil_append] at *
  have : "\\u00".toList = ['\\', 'u', '0', '0'] := rfl
  rw [this]
  simp only [List.cons_append, List.nil_append]
  rw [readStringBody]
  simp only [beq_self_eq_true, if_true, h0, h1, h2]
  congr 3
  omega

/-- one printed character is read back as that character, for one unit of fuel -/
theorem readStringBody_escapeChar (fuel : Nat) (c : Char) (rest acc : List Char) :
    readStringBody (fuel + 1) ((escapeChar c).toList ++ rest) acc = readStringBody fuel rest (c :: acc) := by
  unfold escapeChar
  split
  · rename_i h; simp only [beq_iff_eq] at h; subst h; rfl
  split
  · rename_i h; simp only [beq_iff_eq] at h; subst h; rfl
  split
  · rename_i h; simp only [beq_iff_eq] at h; subst h; rfl
  split
  · rename_i h; simp only [beq_iff_eq] at h; subst h; rfl
  split
  · rename_i h; simp only [beq_iff_eq] at h; subst h; rfl
  split
  · rename_i h; simp only [beq_iff_eq] at h; subst h; rfl
  split
  · rename_i h; simp only [beq_iff_eq] at h; subst h; rfl
  split
  · rename_i h; simp only [beq_iff_eq] at h; subst h; rfl
  split
  · rename_i h; simp only [beq_iff_eq] at h; have := toNat_eq_of h; subst this; rfl
  split
  · rename_i h; simp only [beq_iff_eq] at h; have := toNat_eq_of h; subst this; rfl
  split
  · rename_i h
    have := readStringBody_ctrl fuel c.toNat h rest acc
    rw [Char.ofNat_toNat] at this
    exact this
  · rename_i h1 h2 _ _ _ _ _ _ _ _ h3
    simp only [beq_iff_eq] at h1 h2
    simp [readStringBody, h2, h3]

theorem escapeChar_length_pos (c : Char) : 0 < (escapeChar c).toList.length := by
  unfold escapeChar
  repeat' split
  all_goals simp

/-- the printed body of a string -/
def escBody (l : List Char) : List Char := l.flatMap fun c => (escapeChar c).toList

theorem jsonString_toList (s : String) : (jsonString s).toList = '"' :: (escBody s.toList ++ ['"']) := by
  unfold jsonString escBody
  simp [String.toList_append, String.toList_join, List.flatMap_map]

theorem escBody_length (l : List Char) : l.length ≤ (escBody l).length := by
  induction l with
  | nil => simp [escBody]
  | cons c l ih =>
    have := escapeChar_length_pos c
    simp only [escBody, List.flatMap_cons, List.length_append, List.length_cons] at *
    omega

theorem readStringBody_escBody (l : List Char) :
    ∀ (fuel : Nat) (rest acc : List Char), l.length < fuel →
      readStringBody fuel (escBody l ++ '"' :: rest) acc = some (String.ofList (acc.reverse ++ l), rest) := by
  induction l with
  | nil =>
    intro fuel rest acc h
    obtain ⟨f, rfl⟩ : ∃ f, fuel = f + 1 := ⟨fuel - 1, by simp at h; omega⟩
    simp [escBody, readStringBody]
  | cons c l ih =>
    intro fuel rest acc h
    obtain ⟨f, rfl⟩ : ∃ f, fuel = f + 1 := ⟨fuel - 1, by simp at h; omega⟩
    have e : escBody (c :: l) = (escapeChar c).toList ++ escBody l := by simp [escBody]
    rw [e, List.append_assoc, readStringBody_escapeChar, ih f rest (c :: acc) (by simpa using h)]
    simp

/-- reading a printed string (after its opening quote) returns the string and the text that follows -/
theorem readStringBody_jsonString (s : String) (rest : List Char) (fuel : Nat)
    (h : s.toList.length < fuel) :
    readStringBody fuel (escBody s.toList ++ '"' :: rest) [] = some (s, rest) := by
  rw [readStringBody_escBody s.toList fuel rest [] h]
  simp

end Ser
end SMD
