/- the JSON string printer / reader of the concrete key codec: `readStringBody` inverts `jsonString` -/
import SMD.Model.Serialize
namespace SMD
namespace Ser

theorem hexVal_hexDigit : ∀ k : Fin 16, hexVal (hexDigit k.val) = some k.val := by decide

theorem toNat_eq_of {c : Char} {n : Nat} (h : c.toNat = n) : c = Char.ofNat n := by
  rw [← h, Char.ofNat_toNat]

/-- the escape of a control character -/
theorem readStringBody_ctrl (fuel : Nat) (n : Nat) (hn : n < 32) (rest acc : List Char) :
    readStringBody (fuel + 1)
      (("\\u00" ++ String.singleton (hexDigit (n / 16)) ++ String.singleton (hexDigit (n % 16))).toList ++ rest) acc
      = readStringBody fuel rest (Char.ofNat n :: acc) := by
  have h1 := hexVal_hexDigit ⟨n / 16, by omega⟩
  have h2 := hexVal_hexDigit ⟨n % 16, by omega⟩
  have h0 : hexVal '0' = some 0 := by decide
  simp only [String.toList_append, String.toList_singleton, List.append_assoc, List.cons_append,
    List.nil_append] at *
  have : "\\u00".toList = ['\\', 'u', '0', '0'] := rfl
  rw [this]
  simp only [List.cons_append, List.nil_append]
  rw [readStringBody]
  have hv : ((0 * 16 + 0) * 16 + n / 16) * 16 + n % 16 = n := by omega
  have hs : isSurrogate n = false := by
    simp only [isSurrogate, Bool.and_eq_false_iff, decide_eq_false_iff_not]
    left; omega
  simp only [beq_self_eq_true, if_true, readU4, h0, h1, h2, hv, hs, Bool.not_false]

/-- one printed character is read back as that character, for one unit of fuel -/
theorem readStringBody_escapeChar (fuel : Nat) (c : Char) (rest acc : List Char) :
    readStringBody (fuel + 1) ((escapeChar c).toList ++ rest) acc = readStringBody fuel rest (c :: acc) := by
  unfold escapeChar
  split
  · rename_i h; simp only [beq_iff_eq] at h; subst h; rfl
  split
  · rename_i h; simp only [beq_iff_eq] at h; subst h; rfl
  split
  · rename_i h; simp only [beq_iff_eq] at h; subst h; rfl
  split
  · rename_i h; simp only [beq_iff_eq] at h; subst h; rfl
  split
  · rename_i h; simp only [beq_iff_eq] at h; subst h; rfl
  split
  · rename_i h; simp only [beq_iff_eq] at h; subst h; rfl
  split
  · rename_i h; simp only [beq_iff_eq] at h; subst h; rfl
  split
  · rename_i h; simp only [beq_iff_eq] at h; subst h; rfl
  split
  · rename_i h; simp only [beq_iff_eq] at h; have := toNat_eq_of h; subst this; rfl
  split
  · rename_i h; simp only [beq_iff_eq] at h; have := toNat_eq_of h; subst this; rfl
  split
  · rename_i h
    have := readStringBody_ctrl fuel c.toNat h rest acc
    rw [Char.ofNat_toNat] at this
    exact this
  · rename_i h1 h2 _ _ _ _ _ _ _ _ h3
    simp only [beq_iff_eq] at h1 h2
    simp [readStringBody, h2, h3]

theorem escapeChar_length_pos (c : Char) : 0 < (escapeChar c).toList.length := by
  unfold escapeChar
  repeat' split
  all_goals simp

/-- one character printed without HTML escaping is read back as that character -/
theorem readStringBody_escapeCharPlain (fuel : Nat) (c : Char) (rest acc : List Char) :
    readStringBody (fuel + 1) ((escapeCharPlain c).toList ++ rest) acc = readStringBody fuel rest (c :: acc) := by
  unfold escapeCharPlain
  split
  · rename_i h; simp only [beq_iff_eq] at h; subst h; rfl
  split
  · rename_i h; simp only [beq_iff_eq] at h; subst h; rfl
  split
  · rename_i h; simp only [beq_iff_eq] at h; subst h; rfl
  split
  · rename_i h; simp only [beq_iff_eq] at h; subst h; rfl
  split
  · rename_i h; simp only [beq_iff_eq] at h; subst h; rfl
  split
  · rename_i h
    have := readStringBody_ctrl fuel c.toNat h rest acc
    rw [Char.ofNat_toNat] at this
    exact this
  · rename_i h1 h2 _ _ _ h3
    simp only [beq_iff_eq] at h1 h2
    simp [readStringBody, h2, h3]

theorem escapeCharPlain_length_pos (c : Char) : 0 < (escapeCharPlain c).toList.length := by
  unfold escapeCharPlain
  repeat' split
  all_goals simp

/-- an escape function that the reader inverts, one character at a time -/
structure EscOK (esc : Char → String) : Prop where
  read : ∀ (fuel : Nat) (c : Char) (rest acc : List Char),
    readStringBody (fuel + 1) ((esc c).toList ++ rest) acc = readStringBody fuel rest (c :: acc)
  pos : ∀ c, 0 < (esc c).toList.length

theorem escOK_html : EscOK escapeChar := ⟨readStringBody_escapeChar, escapeChar_length_pos⟩
theorem escOK_plain : EscOK escapeCharPlain := ⟨readStringBody_escapeCharPlain, escapeCharPlain_length_pos⟩

/-- the printed body of a string under an escape function -/
def escBodyWith (esc : Char → String) (l : List Char) : List Char := l.flatMap fun c => (esc c).toList

/-- the printed body of a string (`jsonString`: HTML escaping) -/
abbrev escBody (l : List Char) : List Char := escBodyWith escapeChar l
/-- the printed body of a key field name (`jsonStringPlain`: no HTML escaping) -/
abbrev escBodyPlain (l : List Char) : List Char := escBodyWith escapeCharPlain l

theorem jsonString_toList (s : String) : (jsonString s).toList = '"' :: (escBody s.toList ++ ['"']) := by
  unfold jsonString escBody escBodyWith
  simp [String.toList_append, String.toList_join, List.flatMap_map]

theorem jsonStringPlain_toList (s : String) :
    (jsonStringPlain s).toList = '"' :: (escBodyPlain s.toList ++ ['"']) := by
  unfold jsonStringPlain escBodyPlain escBodyWith
  simp [String.toList_append, String.toList_join, List.flatMap_map]

theorem escBodyWith_length {esc : Char → String} (h : EscOK esc) (l : List Char) :
    l.length ≤ (escBodyWith esc l).length := by
  induction l with
  | nil => simp [escBodyWith]
  | cons c l ih =>
    have := h.pos c
    simp only [escBodyWith, List.flatMap_cons, List.length_append, List.length_cons] at *
    omega

theorem escBody_length (l : List Char) : l.length ≤ (escBody l).length := escBodyWith_length escOK_html l

theorem readStringBody_escBodyWith {esc : Char → String} (h : EscOK esc) (l : List Char) :
    ∀ (fuel : Nat) (rest acc : List Char), l.length < fuel →
      readStringBody fuel (escBodyWith esc l ++ '"' :: rest) acc = some (String.ofList (acc.reverse ++ l), rest) := by
  induction l with
  | nil =>
    intro fuel rest acc hf
    obtain ⟨f, rfl⟩ : ∃ f, fuel = f + 1 := ⟨fuel - 1, by simp at hf; omega⟩
    simp [escBodyWith, readStringBody]
  | cons c l ih =>
    intro fuel rest acc hf
    obtain ⟨f, rfl⟩ : ∃ f, fuel = f + 1 := ⟨fuel - 1, by simp at hf; omega⟩
    have e : escBodyWith esc (c :: l) = (esc c).toList ++ escBodyWith esc l := by simp [escBodyWith]
    rw [e, List.append_assoc, h.read, ih f rest (c :: acc) (by simpa using hf)]
    simp

/-- reading a printed string (after its opening quote) returns the string and the text that follows -/
theorem readStringBody_printed {esc : Char → String} (h : EscOK esc) (s : String) (rest : List Char) (fuel : Nat)
    (hf : s.toList.length < fuel) :
    readStringBody fuel (escBodyWith esc s.toList ++ '"' :: rest) [] = some (s, rest) := by
  rw [readStringBody_escBodyWith h s.toList fuel rest [] hf]
  simp

theorem readStringBody_jsonString (s : String) (rest : List Char) (fuel : Nat)
    (h : s.toList.length < fuel) :
    readStringBody fuel (escBody s.toList ++ '"' :: rest) [] = some (s, rest) :=
  readStringBody_printed escOK_html s rest fuel h

/-- reading the name of a printed member, with the fuel the readers give it -/
theorem readStringBody_keyWith {esc : Char → String} (h : EscOK esc) (k : String) (more : List Char) :
    readStringBody ((escBodyWith esc k.toList ++ '"' :: more).length + 1)
      (escBodyWith esc k.toList ++ '"' :: more) [] = some (k, more) := by
  apply readStringBody_printed h
  have := escBodyWith_length h k.toList
  simp only [List.length_append, List.length_cons]
  omega

end Ser
end SMD
