/- the JSON value printer / reader of the concrete key codec: `readValue` inverts `jsonValue` up to
`Value.equals` (integers come back as the floats of the same numeric value) -/
import SMD.Proofs.StdCodecString
import SMD.Proofs.StdCodecNumber
namespace SMD
namespace Ser

/-- what may follow a printed value inside a printed key -/
def Term (rest : List Char) : Prop := ∀ c r, rest = c :: r → c = ',' ∨ c = ']' ∨ c = '}'

theorem term_nil : Term [] := by intro c r h; cases h
theorem term_comma (r : List Char) : Term (',' :: r) := by intro c r h; cases h; simp
theorem term_rbracket (r : List Char) : Term (']' :: r) := by intro c r h; cases h; simp
theorem term_rbrace (r : List Char) : Term ('}' :: r) := by intro c r h; cases h; simp

theorem Term.numEnd {rest : List Char} (h : Term rest) : NumEnd rest := by
  intro c r e
  rcases h c r e with rfl | rfl | rfl <;> decide

/-- first characters of printed values: not white space, not a closing bracket -/
def valStart (c : Char) : Bool :=
  !(c == ' ' || c == '\t' || c == '\n' || c == '\r' || c == ']' || c == '}')

theorem valStart_of_isDigit {c : Char} (h : c.isDigit = true) : valStart c = true := by
  rw [Char.isDigit_iff_toNat] at h
  have h0 : '0'.toNat = 48 := rfl
  have h9 : '9'.toNat = 57 := rfl
  rw [h0, h9] at h
  have e : ∀ d : Char, c = d → c.toNat = d.toNat := fun d h => h ▸ rfl
  simp only [valStart, Bool.not_eq_true', Bool.or_eq_false_iff, beq_eq_false_iff_ne, ne_eq]
  refine ⟨⟨⟨⟨⟨?_, ?_⟩, ?_⟩, ?_⟩, ?_⟩, ?_⟩ <;> intro h' <;> have := e _ h' <;> simp at this <;> omega

theorem skipWs_of_valStart {c : Char} (t : List Char) (h : valStart c = true) : skipWs (c :: t) = c :: t := by
  simp only [valStart, Bool.not_eq_true', Bool.or_eq_false_iff] at h
  simp [skipWs, h.1.1.1.1.1, h.1.1.1.1.2, h.1.1.1.2, h.1.1.2]

theorem ne_rbracket_of_valStart {c : Char} (h : valStart c = true) : c ≠ ']' := by
  intro e; subst e; simp [valStart] at h
theorem ne_rbrace_of_valStart {c : Char} (h : valStart c = true) : c ≠ '}' := by
  intro e; subst e; simp [valStart] at h

/-! ### one step of each reader -/

theorem readValue_null (fuel : Nat) (rest : List Char) :
    readValue (fuel + 1) ('n' :: 'u' :: 'l' :: 'l' :: rest) = .ok (.null, rest) := rfl
theorem readValue_true (fuel : Nat) (rest : List Char) :
    readValue (fuel + 1) ('t' :: 'r' :: 'u' :: 'e' :: rest) = .ok (.bool true, rest) := rfl
theorem readValue_false (fuel : Nat) (rest : List Char) :
    readValue (fuel + 1) ('f' :: 'a' :: 'l' :: 's' :: 'e' :: rest) = .ok (.bool false, rest) := rfl

theorem readValue_str (fuel : Nat) (r : List Char) (s : String) (r' : List Char)
    (h : readStringBody (r.length + 1) r [] = some (s, r')) :
    readValue (fuel + 1) ('"' :: r) = .ok (.str s, r') := by
  rw [readValue]; simp [skipWs, h]

theorem readValue_list_nil (fuel : Nat) (rest : List Char) :
    readValue (fuel + 1) ('[' :: ']' :: rest) = .ok (.list [], rest) := rfl
theorem readValue_map_nil (fuel : Nat) (rest : List Char) :
    readValue (fuel + 1) ('{' :: '}' :: rest) = .ok (.map [], rest) := rfl

theorem readValue_list_cons (fuel : Nat) (c : Char) (t : List Char) (hc : valStart c = true) :
    readValue (fuel + 1) ('[' :: c :: t) = readItems fuel (c :: t) [] := by
  rw [readValue]
  have h1 : skipWs ('[' :: c :: t) = '[' :: c :: t := rfl
  simp only [h1, skipWs_of_valStart t hc]
  split
  · rename_i heq; cases heq; exact absurd rfl (ne_rbracket_of_valStart hc)
  · rfl

theorem readValue_map_cons (fuel : Nat) (c : Char) (t : List Char) (hc : valStart c = true) :
    readValue (fuel + 1) ('{' :: c :: t) = readObjMembers fuel (c :: t) [] := by
  rw [readValue]
  have h1 : skipWs ('{' :: c :: t) = '{' :: c :: t := rfl
  simp only [h1, skipWs_of_valStart t hc]
  split
  · rename_i heq; cases heq; exact absurd rfl (ne_rbrace_of_valStart hc)
  · rfl

theorem readValue_number (fuel : Nat) (c : Char) (t : List Char) (hc : c = '-' ∨ c.isDigit = true)
    (x : Except ReadErr (Value × List Char)) (h : readNumber (c :: t) = some x) :
    readValue (fuel + 1) (c :: t) = x := by
  have hs : valStart c = true := by
    rcases hc with rfl | hc
    · decide
    · exact valStart_of_isDigit hc
  have hcond : (c == '-' || c.isDigit) = true := by
    rcases hc with rfl | hc
    · rfl
    · simp [hc]
  rw [readValue]
  simp only [skipWs_of_valStart t hs]
  split
  all_goals first
    | (rename_i heq; cases heq; done)
    | (rename_i heq; cases heq; rcases hc with hc | hc <;> simp at hc; done)
    | skip
  rename_i c' r' _ _ _ _ _ _ heq
  cases heq
  simp [hcond, h]

theorem readItems_comma (fuel : Nat) (cs : List Char) (acc : List Value) (v : Value) (r : List Char)
    (h : readValue fuel cs = .ok (v, ',' :: r)) :
    readItems (fuel + 1) cs acc = readItems fuel r (v :: acc) := by
  rw [readItems, h]; rfl

theorem readItems_close (fuel : Nat) (cs : List Char) (acc : List Value) (v : Value) (r : List Char)
    (h : readValue fuel cs = .ok (v, ']' :: r)) :
    readItems (fuel + 1) cs acc = .ok (.list (v :: acc).reverse, r) := by
  rw [readItems, h]; rfl

theorem readObjMembers_comma (fuel : Nat) (r1 r3 r5 : List Char) (acc : List (String × Value)) (k : String)
    (v : Value) (h1 : readStringBody (r1.length + 1) r1 [] = some (k, ':' :: r3))
    (h2 : readValue fuel r3 = .ok (v, ',' :: r5)) :
    readObjMembers (fuel + 1) ('"' :: r1) acc = readObjMembers fuel r5 ((k, v) :: acc) := by
  rw [readObjMembers]
  have : skipWs ('"' :: r1) = '"' :: r1 := rfl
  simp only [this, h1]
  have : skipWs (':' :: r3) = ':' :: r3 := rfl
  simp only [this, h2]
  rfl

theorem readObjMembers_close (fuel : Nat) (r1 r3 r5 : List Char) (acc : List (String × Value)) (k : String)
    (v : Value) (h1 : readStringBody (r1.length + 1) r1 [] = some (k, ':' :: r3))
    (h2 : readValue fuel r3 = .ok (v, '}' :: r5)) :
    readObjMembers (fuel + 1) ('"' :: r1) acc = .ok (.map ((k, v) :: acc).reverse, r5) := by
  rw [readObjMembers]
  have : skipWs ('"' :: r1) = '"' :: r1 := rfl
  simp only [this, h1]
  have : skipWs (':' :: r3) = ':' :: r3 := rfl
  simp only [this, h2]
  rfl

/-! ### printed values -/

theorem jsonString_start (k : String) : ∃ t, (jsonString k).toList = '"' :: t := ⟨_, jsonString_toList k⟩

theorem jsonList_cons_cons {v w : Value} {rest : List Value} {s : String}
    (h : jsonList (v :: w :: rest) = some s) :
    ∃ a b, jsonValue v = some a ∧ jsonList (w :: rest) = some b ∧ s = a ++ "," ++ b := by
  rw [jsonList] at h
  · split at h
    · rename_i a b ha hb
      exact ⟨a, b, ha, hb, by simpa using h.symm⟩
    · cases h
  · intro h'; cases h'

theorem jsonFields_cons_cons {k : String} {v : Value} {e : String × Value} {rest : List (String × Value)}
    {s : String} (h : jsonFields ((k, v) :: e :: rest) = some s) :
    ∃ a b, jsonValue v = some a ∧ jsonFields (e :: rest) = some b ∧
      s = jsonString k ++ ":" ++ a ++ "," ++ b := by
  rw [jsonFields] at h
  · split at h
    · rename_i a b ha hb
      exact ⟨a, b, ha, hb, by simpa using h.symm⟩
    · cases h
  · intro h'; cases h'

/-- a printed value starts with a character that is neither white space nor a closing bracket -/
theorem jsonValue_start (v : Value) (s : String) (h : jsonValue v = some s) :
    ∃ c t, s.toList = c :: t ∧ valStart c = true := by
  cases v with
  | null => simp [jsonValue] at h; subst h; exact ⟨'n', _, rfl, rfl⟩
  | bool b =>
    simp [jsonValue] at h; subst h
    cases b
    · exact ⟨'f', _, rfl, rfl⟩
    · exact ⟨'t', _, rfl, rfl⟩
  | int i =>
    simp only [jsonValue, Option.some.injEq] at h; subst h
    obtain ⟨c, t, e, hc⟩ := toString_int_start i
    refine ⟨c, t, e, ?_⟩
    rcases hc with rfl | hc
    · rfl
    · exact valStart_of_isDigit hc
  | float u z =>
    simp only [jsonValue] at h
    obtain ⟨⟨c, t, e, hc⟩, _⟩ := jsonFloat_read u z s h
    refine ⟨c, t, e, ?_⟩
    rcases hc with rfl | hc
    · rfl
    · exact valStart_of_isDigit hc
  | str x =>
    simp only [jsonValue, Option.some.injEq] at h; subst h
    exact ⟨'"', _, jsonString_toList x, rfl⟩
  | list l =>
    simp only [jsonValue, Option.map_eq_some_iff] at h
    obtain ⟨a, _, rfl⟩ := h
    exact ⟨'[', (a ++ "]").toList, by simp [String.toList_append], rfl⟩
  | map m =>
    simp only [jsonValue, Option.map_eq_some_iff] at h
    obtain ⟨a, _, rfl⟩ := h
    exact ⟨'{', (a ++ "}").toList, by simp [String.toList_append], rfl⟩

theorem jsonList_start (v : Value) (l : List Value) (s : String) (h : jsonList (v :: l) = some s) :
    ∃ c t, s.toList = c :: t ∧ valStart c = true := by
  cases l with
  | nil => rw [jsonList] at h; exact jsonValue_start v s h
  | cons w rest =>
    obtain ⟨a, b, ha, _, rfl⟩ := jsonList_cons_cons h
    obtain ⟨c, t, e, hc⟩ := jsonValue_start v a ha
    exact ⟨c, t ++ ("," ++ b).toList, by simp [String.toList_append, e], hc⟩

theorem jsonFields_start (k : String) (v : Value) (l : List (String × Value)) (s : String)
    (h : jsonFields ((k, v) :: l) = some s) : ∃ t, s.toList = '"' :: t := by
  cases l with
  | nil =>
    rw [jsonFields] at h
    simp only [Option.map_eq_some_iff] at h
    obtain ⟨a, _, rfl⟩ := h
    exact ⟨_, by simp only [String.toList_append, jsonString_toList, List.cons_append]; rfl⟩
  | cons e rest =>
    obtain ⟨a, b, _, _, rfl⟩ := jsonFields_cons_cons h
    exact ⟨_, by simp only [String.toList_append, jsonString_toList, List.cons_append]; rfl⟩

/-- reading the key of a printed member -/
theorem readStringBody_key (k : String) (more : List Char) :
    readStringBody ((escBody k.toList ++ '"' :: more).length + 1) (escBody k.toList ++ '"' :: more) [] =
      some (k, more) := by
  apply readStringBody_jsonString
  have := escBody_length k.toList
  simp only [List.length_append, List.length_cons]
  omega

mutual
theorem readValue_jsonValue : ∀ (v : Value) (s : String), jsonValue v = some s →
    ∀ (fuel : Nat) (rest : List Char), s.toList.length < fuel → Term rest →
      ∃ v', readValue fuel (s.toList ++ rest) = .ok (v', rest) ∧ Value.equals v' v = true
  | .null, s, h, fuel, rest, hf, _ => by
    simp only [jsonValue, Option.some.injEq] at h; subst h
    obtain ⟨f, rfl⟩ : ∃ f, fuel = f + 1 := ⟨fuel - 1, by omega⟩
    exact ⟨.null, readValue_null f rest, rfl⟩
  | .bool b, s, h, fuel, rest, hf, _ => by
    simp only [jsonValue, Option.some.injEq] at h; subst h
    obtain ⟨f, rfl⟩ : ∃ f, fuel = f + 1 := ⟨fuel - 1, by omega⟩
    cases b
    · exact ⟨.bool false, readValue_false f rest, rfl⟩
    · exact ⟨.bool true, readValue_true f rest, rfl⟩
  | .int i, s, h, fuel, rest, hf, hr => by
    simp only [jsonValue, Option.some.injEq] at h; subst h
    obtain ⟨f, rfl⟩ : ∃ f, fuel = f + 1 := ⟨fuel - 1, by omega⟩
    obtain ⟨c, t, e, hc⟩ := toString_int_start i
    obtain ⟨z, hz⟩ := readNumber_int i rest hr.numEnd
    rw [e, List.cons_append] at hz ⊢
    exact ⟨_, readValue_number f c _ hc _ hz, by simp [Value.equals]⟩
  | .float u z, s, h, fuel, rest, hf, hr => by
    simp only [jsonValue] at h
    obtain ⟨f, rfl⟩ : ∃ f, fuel = f + 1 := ⟨fuel - 1, by omega⟩
    obtain ⟨⟨c, t, e, hc⟩, hread⟩ := jsonFloat_read u z s h
    obtain ⟨z', hz⟩ := hread rest hr.numEnd
    rw [e, List.cons_append] at hz ⊢
    exact ⟨_, readValue_number f c _ hc _ hz, by simp [Value.equals]⟩
  | .str x, s, h, fuel, rest, hf, _ => by
    simp only [jsonValue, Option.some.injEq] at h; subst h
    obtain ⟨f, rfl⟩ : ∃ f, fuel = f + 1 := ⟨fuel - 1, by omega⟩
    rw [jsonString_toList, List.cons_append, List.append_assoc, List.singleton_append]
    exact ⟨.str x, readValue_str f _ x rest (readStringBody_key x rest), by simp [Value.equals]⟩
  | .list l, s, h, fuel, rest, hf, _ => by
    simp only [jsonValue, Option.map_eq_some_iff] at h
    obtain ⟨a, ha, rfl⟩ := h
    obtain ⟨f, rfl⟩ : ∃ f, fuel = f + 1 := ⟨fuel - 1, by omega⟩
    have e : ("[" ++ a ++ "]").toList ++ rest = '[' :: (a.toList ++ ']' :: rest) := by
      simp [String.toList_append]
    rw [e]
    cases l with
    | nil =>
      rw [jsonList] at ha
      cases ha
      exact ⟨.list [], readValue_list_nil f rest, by simp [Value.equals, Value.equalsList]⟩
    | cons v l =>
      obtain ⟨c, t, ec, hc⟩ := jsonList_start v l a ha
      have hlen : a.toList.length + 1 < f := by
        simp [String.toList_append] at hf; omega
      obtain ⟨l', hl', heq⟩ := readItems_jsonList (v :: l) a (by simp) ha f rest [] hlen
      rw [ec, List.cons_append] at hl' ⊢
      rw [readValue_list_cons f c _ hc, hl']
      exact ⟨_, rfl, by simpa [Value.equals] using heq⟩
  | .map m, s, h, fuel, rest, hf, _ => by
    simp only [jsonValue, Option.map_eq_some_iff] at h
    obtain ⟨a, ha, rfl⟩ := h
    obtain ⟨f, rfl⟩ : ∃ f, fuel = f + 1 := ⟨fuel - 1, by omega⟩
    have e : ("{" ++ a ++ "}").toList ++ rest = '{' :: (a.toList ++ '}' :: rest) := by
      simp [String.toList_append]
    rw [e]
    cases m with
    | nil =>
      rw [jsonFields] at ha
      cases ha
      exact ⟨.map [], readValue_map_nil f rest, by simp [Value.equals, Value.equalsFields]⟩
    | cons kv m =>
      obtain ⟨k, v⟩ := kv
      obtain ⟨t, ec⟩ := jsonFields_start k v m a ha
      have hlen : a.toList.length + 1 < f := by
        simp [String.toList_append] at hf; omega
      obtain ⟨m', hm', heq⟩ := readObjMembers_jsonFields ((k, v) :: m) a (by simp) ha f rest [] hlen
      rw [ec, List.cons_append] at hm' ⊢
      rw [readValue_map_cons f '"' _ rfl, hm']
      exact ⟨_, rfl, by simpa [Value.equals] using heq⟩
theorem readItems_jsonList : ∀ (l : List Value) (s : String), l ≠ [] → jsonList l = some s →
    ∀ (fuel : Nat) (rest : List Char) (acc : List Value), s.toList.length + 1 < fuel →
      ∃ l', readItems fuel (s.toList ++ ']' :: rest) acc = .ok (.list (acc.reverse ++ l'), rest) ∧
        Value.equalsList l' l = true
  | [], _, hne, _, _, _, _, _ => absurd rfl hne
  | [v], s, _, h, fuel, rest, acc, hf => by
    rw [jsonList] at h
    obtain ⟨f, rfl⟩ : ∃ f, fuel = f + 1 := ⟨fuel - 1, by omega⟩
    obtain ⟨v', hv', heq⟩ := readValue_jsonValue v s h f (']' :: rest) (by omega) (term_rbracket rest)
    refine ⟨[v'], ?_, by simp [Value.equalsList, heq]⟩
    rw [readItems_close f _ acc v' rest hv', List.reverse_cons]
  | v :: w :: l, s, _, h, fuel, rest, acc, hf => by
    obtain ⟨a, b, ha, hb, rfl⟩ := jsonList_cons_cons h
    obtain ⟨f, rfl⟩ : ∃ f, fuel = f + 1 := ⟨fuel - 1, by omega⟩
    have e : (a ++ "," ++ b).toList ++ ']' :: rest = a.toList ++ ',' :: (b.toList ++ ']' :: rest) := by
      simp [String.toList_append]
    have hl : (a ++ "," ++ b).toList.length = a.toList.length + 1 + b.toList.length := by
      simp [String.toList_append]; omega
    rw [hl] at hf
    rw [e]
    obtain ⟨v', hv', heq⟩ := readValue_jsonValue v a ha f (',' :: (b.toList ++ ']' :: rest)) (by omega)
      (term_comma _)
    obtain ⟨l', hl', heq'⟩ := readItems_jsonList (w :: l) b (by simp) hb f rest (v' :: acc) (by omega)
    refine ⟨v' :: l', ?_, by simp [Value.equalsList, heq, heq']⟩
    rw [readItems_comma f _ acc v' _ hv', hl']
    simp
theorem readObjMembers_jsonFields : ∀ (m : List (String × Value)) (s : String), m ≠ [] → jsonFields m = some s →
    ∀ (fuel : Nat) (rest : List Char) (acc : List (String × Value)), s.toList.length + 1 < fuel →
      ∃ m', readObjMembers fuel (s.toList ++ '}' :: rest) acc = .ok (.map (acc.reverse ++ m'), rest) ∧
        Value.equalsFields m' m = true
  | [], _, hne, _, _, _, _, _ => absurd rfl hne
  | [(k, v)], s, _, h, fuel, rest, acc, hf => by
    rw [jsonFields] at h
    simp only [Option.map_eq_some_iff] at h
    obtain ⟨a, ha, rfl⟩ := h
    obtain ⟨f, rfl⟩ : ∃ f, fuel = f + 1 := ⟨fuel - 1, by omega⟩
    have e : (jsonString k ++ ":" ++ a).toList ++ '}' :: rest =
        '"' :: (escBody k.toList ++ '"' :: ':' :: (a.toList ++ '}' :: rest)) := by
      simp [String.toList_append, jsonString_toList]
    have hl : a.toList.length < (jsonString k ++ ":" ++ a).toList.length := by
      simp [String.toList_append]; omega
    rw [e]
    obtain ⟨v', hv', heq⟩ := readValue_jsonValue v a ha f ('}' :: rest) (by omega) (term_rbrace rest)
    refine ⟨[(k, v')], ?_, by simp [Value.equalsFields, heq]⟩
    rw [readObjMembers_close f _ _ rest acc k v' (readStringBody_key k _) hv', List.reverse_cons]
  | (k, v) :: e :: m, s, _, h, fuel, rest, acc, hf => by
    obtain ⟨a, b, ha, hb, rfl⟩ := jsonFields_cons_cons h
    obtain ⟨f, rfl⟩ : ∃ f, fuel = f + 1 := ⟨fuel - 1, by omega⟩
    have e' : (jsonString k ++ ":" ++ a ++ "," ++ b).toList ++ '}' :: rest =
        '"' :: (escBody k.toList ++ '"' :: ':' :: (a.toList ++ ',' :: (b.toList ++ '}' :: rest))) := by
      simp [String.toList_append, jsonString_toList]
    have hl : a.toList.length + 1 + b.toList.length < (jsonString k ++ ":" ++ a ++ "," ++ b).toList.length := by
      simp [String.toList_append]; omega
    rw [e']
    obtain ⟨v', hv', heq⟩ := readValue_jsonValue v a ha f (',' :: (b.toList ++ '}' :: rest)) (by omega)
      (term_comma _)
    obtain ⟨m', hm', heq'⟩ := readObjMembers_jsonFields (e :: m) b (by simp) hb f rest ((k, v') :: acc) (by omega)
    refine ⟨(k, v') :: m', ?_, by simp [Value.equalsFields, heq, heq']⟩
    rw [readObjMembers_comma f _ _ _ acc k v' (readStringBody_key k _) hv', hm']
    simp
end

end Ser
end SMD
