/- the JSON value printer / reader of the concrete key codec: `readValue` inverts `jsonValue` up to
`Value.equals` (integers come back as the floats of the same numeric value) -/
import SMD.Proofs.StdCodecString
import SMD.Proofs.StdCodecNumber
namespace SMD

/-- the keys of an entry list are strictly ascending (the canonical form of a Go map) -/
def keysAscending : List (String × Value) → Bool
  | [] => true
  | [_] => true
  | a :: b :: rest => decide (a.1 < b.1) && keysAscending (b :: rest)

mutual
/-- the value lies in the domain on which the concrete codec is exact: every int is exactly a float64 (the
reader turns every JSON number into a float64, as `jsoniter.Iterator.Read` does; an int that is not one
would be rounded, which the model answers with `unsupported`), and every map is in the canonical form of
a Go map, its keys strictly ascending (the reader builds a Go map: it sorts the members by key and keeps
the last of a repeated key, whereas the printer writes the entries as they stand) -/
def Value.inGoDomain : Value → Bool
  | .int i => isFloat64Units (i * scale)
  | .list l => Value.inGoDomainList l
  | .map m => keysAscending m && Value.inGoDomainFields m
  | _ => true
def Value.inGoDomainList : List Value → Bool
  | [] => true
  | v :: l => Value.inGoDomain v && Value.inGoDomainList l
def Value.inGoDomainFields : List (String × Value) → Bool
  | [] => true
  | (_, v) :: m => Value.inGoDomain v && Value.inGoDomainFields m
end

namespace Ser

/-- every int of magnitude at most 2^53 is exactly a float64 -/
theorem isFloat64Units_int_of_le (i : Int) (h : i.natAbs ≤ 2 ^ 53) : isFloat64Units (i * scale) = true := by
  have key : ∀ n : Nat, n ≤ 2 ^ 53 → isFloat64Units ((n : Int) * scale) = true := by
    intro n hn
    unfold scale
    rw [← natCast_mul_two_pow]
    by_cases hlt : n < 2 ^ 53
    · exact isFloat64Units_mantissa n 1074 hlt (by omega)
    · have e : n = 1 * 2 ^ 53 := by omega
      have : n * 2 ^ 1074 = 1 * 2 ^ 1127 := by
        rw [e, Nat.mul_assoc, ← Nat.pow_add]
      rw [this]
      exact isFloat64Units_mantissa 1 1127 (by decide) (by omega)
  by_cases hneg : i < 0
  · have e0 : i = -((i.natAbs : Nat) : Int) := by omega
    rw [e0, Int.neg_mul, isFloat64Units_neg]
    exact key _ h
  · have e0 : i = ((i.natAbs : Nat) : Int) := by omega
    rw [e0]
    exact key _ h

end Ser

namespace Ser

/-! ### canonical maps -/

theorem pairwise_of_keysAscending : ∀ m : List (String × Value), keysAscending m = true →
    m.Pairwise (fun a b => a.1 < b.1)
  | [], _ => List.Pairwise.nil
  | [_], _ => by simp
  | a :: b :: rest, h => by
    simp only [keysAscending, Bool.and_eq_true, decide_eq_true_eq] at h
    have ih := pairwise_of_keysAscending (b :: rest) h.2
    refine List.pairwise_cons.2 ⟨?_, ih⟩
    intro x hx
    rcases List.mem_cons.1 hx with rfl | hx
    · exact h.1
    · exact String.lt_trans h.1 ((List.pairwise_cons.1 ih).1 x hx)

theorem goMapInsert_append (e : String × Value) : ∀ acc : List (String × Value),
    (∀ x ∈ acc, x.1 < e.1) → goMapInsert e acc = acc ++ [e]
  | [], _ => rfl
  | x :: xs, h => by
    have hx : x.1 < e.1 := h x (by simp)
    have h1 : ¬ e.1 < x.1 := fun h' => String.lt_irrefl _ (String.lt_trans hx h')
    have h2 : ¬ (e.1 == x.1) = true := by
      intro h'; rw [beq_iff_eq] at h'; rw [h'] at hx; exact String.lt_irrefl _ hx
    simp only [goMapInsert, if_neg h1, if_neg h2, List.cons_append]
    rw [goMapInsert_append e xs (fun y hy => h y (List.mem_cons_of_mem _ hy))]

theorem foldl_goMapInsert_of_pairwise : ∀ (m acc : List (String × Value)),
    (acc ++ m).Pairwise (fun a b => a.1 < b.1) →
      m.foldl (fun acc e => goMapInsert e acc) acc = acc ++ m
  | [], acc, _ => by simp
  | e :: m, acc, h => by
    have hlt : ∀ x ∈ acc, x.1 < e.1 := by
      intro x hx
      exact (List.pairwise_append.1 h).2.2 x hx e (by simp)
    simp only [List.foldl_cons]
    rw [goMapInsert_append e acc hlt,
      foldl_goMapInsert_of_pairwise m (acc ++ [e]) (by simpa using h)]
    simp

/-- a map whose keys are strictly ascending is its own canonical form -/
theorem goMapFields_of_pairwise (m : List (String × Value)) (h : m.Pairwise (fun a b => a.1 < b.1)) :
    goMapFields m = m := by
  have := foldl_goMapInsert_of_pairwise m [] (by simpa using h)
  simpa [goMapFields] using this

theorem keys_of_equalsFields : ∀ (a b : List (String × Value)), Value.equalsFields a b = true →
    a.map (·.1) = b.map (·.1)
  | [], [], _ => rfl
  | [], _ :: _, h => by simp [Value.equalsFields] at h
  | _ :: _, [], h => by simp [Value.equalsFields] at h
  | (k, v) :: as, (k', v') :: bs, h => by
    simp only [Value.equalsFields, Bool.and_eq_true, beq_iff_eq] at h
    simp [h.1.1, keys_of_equalsFields as bs h.2]

/-- what is read back from a printed canonical map is canonical -/
theorem goMapFields_of_equalsFields {m' m : List (String × Value)} (heq : Value.equalsFields m' m = true)
    (hasc : keysAscending m = true) : goMapFields m' = m' := by
  apply goMapFields_of_pairwise
  have hk := keys_of_equalsFields m' m heq
  have hp := pairwise_of_keysAscending m hasc
  have hp' : (m.map (·.1)).Pairwise (· < ·) := List.pairwise_map.2 hp
  rw [← hk] at hp'
  exact List.pairwise_map.1 hp'

/-- what may follow a printed value inside a printed key -/
def Term (rest : List Char) : Prop := ∀ c r, rest = c :: r → c = ',' ∨ c = ']' ∨ c = '}'

theorem term_nil : Term [] := by intro c r h; cases h
theorem term_comma (r : List Char) : Term (',' :: r) := by intro c r h; cases h; simp
theorem term_rbracket (r : List Char) : Term (']' :: r) := by intro c r h; cases h; simp
theorem term_rbrace (r : List Char) : Term ('}' :: r) := by intro c r h; cases h; simp

theorem Term.numEnd {rest : List Char} (h : Term rest) : NumEnd rest := by
  intro c r e
  rcases h c r e with rfl | rfl | rfl <;> decide

/-- first characters of printed values: not white space, not a closing bracket -/
def valStart (c : Char) : Bool :=
  !(c == ' ' || c == '\t' || c == '\n' || c == '\r' || c == ']' || c == '}')

theorem valStart_of_isDigit {c : Char} (h : c.isDigit = true) : valStart c = true := by
  rw [Char.isDigit_iff_toNat] at h
  have h0 : '0'.toNat = 48 := rfl
  have h9 : '9'.toNat = 57 := rfl
  rw [h0, h9] at h
  have e : ∀ d : Char, c = d → c.toNat = d.toNat := fun d h => h ▸ rfl
  simp only [valStart, Bool.not_eq_true', Bool.or_eq_false_iff, beq_eq_false_iff_ne, ne_eq]
  refine ⟨⟨⟨⟨⟨?_, ?_⟩, ?_⟩, ?_⟩, ?_⟩, ?_⟩ <;> intro h' <;> have := e _ h' <;> simp at this <;> omega

theorem skipWs_of_valStart {c : Char} (t : List Char) (h : valStart c = true) : skipWs (c :: t) = c :: t := by
  simp only [valStart, Bool.not_eq_true', Bool.or_eq_false_iff] at h
  simp [skipWs, h.1.1.1.1.1, h.1.1.1.1.2, h.1.1.1.2, h.1.1.2]

theorem ne_rbracket_of_valStart {c : Char} (h : valStart c = true) : c ≠ ']' := by
  intro e; subst e; simp [valStart] at h
theorem ne_rbrace_of_valStart {c : Char} (h : valStart c = true) : c ≠ '}' := by
  intro e; subst e; simp [valStart] at h

/-! ### one step of each reader -/

theorem readValue_null (fuel : Nat) (rest : List Char) :
    readValue (fuel + 1) ('n' :: 'u' :: 'l' :: 'l' :: rest) = .ok (.null, rest) := rfl
theorem readValue_true (fuel : Nat) (rest : List Char) :
    readValue (fuel + 1) ('t' :: 'r' :: 'u' :: 'e' :: rest) = .ok (.bool true, rest) := rfl
theorem readValue_false (fuel : Nat) (rest : List Char) :
    readValue (fuel + 1) ('f' :: 'a' :: 'l' :: 's' :: 'e' :: rest) = .ok (.bool false, rest) := rfl

theorem readValue_str (fuel : Nat) (r : List Char) (s : String) (r' : List Char)
    (h : readStringBody (r.length + 1) r [] = some (s, r')) :
    readValue (fuel + 1) ('"' :: r) = .ok (.str s, r') := by
  rw [readValue]; simp [skipWs, h]

theorem readValue_list_nil (fuel : Nat) (rest : List Char) :
    readValue (fuel + 1) ('[' :: ']' :: rest) = .ok (.list [], rest) := rfl
theorem readValue_map_nil (fuel : Nat) (rest : List Char) :
    readValue (fuel + 1) ('{' :: '}' :: rest) = .ok (.map [], rest) := rfl

theorem readValue_list_cons (fuel : Nat) (c : Char) (t : List Char) (hc : valStart c = true) :
    readValue (fuel + 1) ('[' :: c :: t) = readItems fuel (c :: t) [] := by
  rw [readValue]
  have h1 : skipWs ('[' :: c :: t) = '[' :: c :: t := rfl
  simp only [h1, skipWs_of_valStart t hc]
  split
  · rename_i heq; cases heq; exact absurd rfl (ne_rbracket_of_valStart hc)
  · rfl

theorem readValue_map_cons (fuel : Nat) (c : Char) (t : List Char) (hc : valStart c = true) :
    readValue (fuel + 1) ('{' :: c :: t) =
      match readObjMembers fuel (c :: t) [] with
      | .ok (m, r') => .ok (.map (goMapFields m), r')
      | .error e => .error e := by
  rw [readValue]
  have h1 : skipWs ('{' :: c :: t) = '{' :: c :: t := rfl
  simp only [h1, skipWs_of_valStart t hc]
  split
  · rename_i heq; cases heq; exact absurd rfl (ne_rbrace_of_valStart hc)
  · rfl

theorem readValue_number (fuel : Nat) (c : Char) (t : List Char) (hc : c = '-' ∨ c.isDigit = true)
    (x : Except ReadErr (Value × List Char)) (h : readNumber (c :: t) = some x) :
    readValue (fuel + 1) (c :: t) = x := by
  have hs : valStart c = true := by
    rcases hc with rfl | hc
    · decide
    · exact valStart_of_isDigit hc
  have hcond : (c == '-' || c.isDigit) = true := by
    rcases hc with rfl | hc
    · rfl
    · simp [hc]
  rw [readValue]
  simp only [skipWs_of_valStart t hs]
  split
  all_goals first
    | (rename_i heq; cases heq; done)
    | (rename_i heq; cases heq; rcases hc with hc | hc <;> simp at hc; done)
    | skip
  rename_i c' r' _ _ _ _ _ _ heq
  cases heq
  simp [hcond, h]

theorem readItems_comma (fuel : Nat) (cs : List Char) (acc : List Value) (v : Value) (r : List Char)
    (h : readValue fuel cs = .ok (v, ',' :: r)) :
    readItems (fuel + 1) cs acc = readItems fuel r (v :: acc) := by
  rw [readItems, h]; rfl

theorem readItems_close (fuel : Nat) (cs : List Char) (acc : List Value) (v : Value) (r : List Char)
    (h : readValue fuel cs = .ok (v, ']' :: r)) :
    readItems (fuel + 1) cs acc = .ok (.list (v :: acc).reverse, r) := by
  rw [readItems, h]; rfl

theorem readObjMembers_comma (fuel : Nat) (r1 r3 r5 : List Char) (acc : List (String × Value)) (k : String)
    (v : Value) (h1 : readStringBody (r1.length + 1) r1 [] = some (k, ':' :: r3))
    (h2 : readValue fuel r3 = .ok (v, ',' :: r5)) :
    readObjMembers (fuel + 1) ('"' :: r1) acc = readObjMembers fuel r5 ((k, v) :: acc) := by
  rw [readObjMembers]
  have : skipWs ('"' :: r1) = '"' :: r1 := rfl
  simp only [this, h1]
  have : skipWs (':' :: r3) = ':' :: r3 := rfl
  simp only [this, h2]
  rfl

theorem readObjMembers_close (fuel : Nat) (r1 r3 r5 : List Char) (acc : List (String × Value)) (k : String)
    (v : Value) (h1 : readStringBody (r1.length + 1) r1 [] = some (k, ':' :: r3))
    (h2 : readValue fuel r3 = .ok (v, '}' :: r5)) :
    readObjMembers (fuel + 1) ('"' :: r1) acc = .ok (((k, v) :: acc).reverse, r5) := by
  rw [readObjMembers]
  have : skipWs ('"' :: r1) = '"' :: r1 := rfl
  simp only [this, h1]
  have : skipWs (':' :: r3) = ':' :: r3 := rfl
  simp only [this, h2]
  rfl

/-! ### printed values -/

theorem jsonString_start (k : String) : ∃ t, (jsonString k).toList = '"' :: t := ⟨_, jsonString_toList k⟩

theorem jsonList_cons_cons {v w : Value} {rest : List Value} {s : String}
    (h : jsonList (v :: w :: rest) = some s) :
    ∃ a b, jsonValue v = some a ∧ jsonList (w :: rest) = some b ∧ s = a ++ "," ++ b := by
  rw [jsonList] at h
  · split at h
    · rename_i a b ha hb
      exact ⟨a, b, ha, hb, by simpa using h.symm⟩
    · cases h
  · intro h'; cases h'

theorem jsonFields_cons_cons {k : String} {v : Value} {e : String × Value} {rest : List (String × Value)}
    {s : String} (h : jsonFields ((k, v) :: e :: rest) = some s) :
    ∃ a b, jsonValue v = some a ∧ jsonFields (e :: rest) = some b ∧
      s = jsonString k ++ ":" ++ a ++ "," ++ b := by
  rw [jsonFields] at h
  · split at h
    · rename_i a b ha hb
      exact ⟨a, b, ha, hb, by simpa using h.symm⟩
    · cases h
  · intro h'; cases h'

/-- a printed value starts with a character that is neither white space nor a closing bracket -/
theorem jsonValue_start (v : Value) (s : String) (h : jsonValue v = some s) :
    ∃ c t, s.toList = c :: t ∧ valStart c = true := by
  cases v with
  | null => simp [jsonValue] at h; subst h; exact ⟨'n', _, rfl, rfl⟩
  | bool b =>
    simp [jsonValue] at h; subst h
    cases b
    · exact ⟨'f', _, rfl, rfl⟩
    · exact ⟨'t', _, rfl, rfl⟩
  | int i =>
    simp only [jsonValue, Option.some.injEq] at h; subst h
    obtain ⟨c, t, e, hc⟩ := toString_int_start i
    refine ⟨c, t, e, ?_⟩
    rcases hc with rfl | hc
    · rfl
    · exact valStart_of_isDigit hc
  | float u z =>
    simp only [jsonValue] at h
    obtain ⟨⟨c, t, e, hc⟩, _⟩ := jsonFloat_read u z s h
    refine ⟨c, t, e, ?_⟩
    rcases hc with rfl | hc
    · rfl
    · exact valStart_of_isDigit hc
  | str x =>
    simp only [jsonValue, Option.some.injEq] at h; subst h
    exact ⟨'"', _, jsonString_toList x, rfl⟩
  | list l =>
    simp only [jsonValue, Option.map_eq_some_iff] at h
    obtain ⟨a, _, rfl⟩ := h
    exact ⟨'[', (a ++ "]").toList, by simp [String.toList_append], rfl⟩
  | map m =>
    simp only [jsonValue, Option.map_eq_some_iff] at h
    obtain ⟨a, _, rfl⟩ := h
    exact ⟨'{', (a ++ "}").toList, by simp [String.toList_append], rfl⟩

theorem jsonList_start (v : Value) (l : List Value) (s : String) (h : jsonList (v :: l) = some s) :
    ∃ c t, s.toList = c :: t ∧ valStart c = true := by
  cases l with
  | nil => rw [jsonList] at h; exact jsonValue_start v s h
  | cons w rest =>
    obtain ⟨a, b, ha, _, rfl⟩ := jsonList_cons_cons h
    obtain ⟨c, t, e, hc⟩ := jsonValue_start v a ha
    exact ⟨c, t ++ ("," ++ b).toList, by simp [String.toList_append, e], hc⟩

theorem jsonFields_start (k : String) (v : Value) (l : List (String × Value)) (s : String)
    (h : jsonFields ((k, v) :: l) = some s) : ∃ t, s.toList = '"' :: t := by
  cases l with
  | nil =>
    rw [jsonFields] at h
    simp only [Option.map_eq_some_iff] at h
    obtain ⟨a, _, rfl⟩ := h
    exact ⟨_, by simp only [String.toList_append, jsonString_toList, List.cons_append]; rfl⟩
  | cons e rest =>
    obtain ⟨a, b, _, _, rfl⟩ := jsonFields_cons_cons h
    exact ⟨_, by simp only [String.toList_append, jsonString_toList, List.cons_append]; rfl⟩

/-- reading the key of a printed member -/
theorem readStringBody_key (k : String) (more : List Char) :
    readStringBody ((escBody k.toList ++ '"' :: more).length + 1) (escBody k.toList ++ '"' :: more) [] =
      some (k, more) := readStringBody_keyWith escOK_html k more

mutual
theorem readValue_jsonValue : ∀ (v : Value) (s : String), jsonValue v = some s → v.inGoDomain = true →
    ∀ (fuel : Nat) (rest : List Char), s.toList.length < fuel → Term rest →
      ∃ v', readValue fuel (s.toList ++ rest) = .ok (v', rest) ∧ Value.equals v' v = true
  | .null, s, h, _, fuel, rest, hf, _ => by
    simp only [jsonValue, Option.some.injEq] at h; subst h
    obtain ⟨f, rfl⟩ : ∃ f, fuel = f + 1 := ⟨fuel - 1, by omega⟩
    exact ⟨.null, readValue_null f rest, rfl⟩
  | .bool b, s, h, _, fuel, rest, hf, _ => by
    simp only [jsonValue, Option.some.injEq] at h; subst h
    obtain ⟨f, rfl⟩ : ∃ f, fuel = f + 1 := ⟨fuel - 1, by omega⟩
    cases b
    · exact ⟨.bool false, readValue_false f rest, rfl⟩
    · exact ⟨.bool true, readValue_true f rest, rfl⟩
  | .int i, s, h, hdom, fuel, rest, hf, hr => by
    simp only [jsonValue, Option.some.injEq] at h; subst h
    obtain ⟨f, rfl⟩ : ∃ f, fuel = f + 1 := ⟨fuel - 1, by omega⟩
    obtain ⟨c, t, e, hc⟩ := toString_int_start i
    obtain ⟨z, hz⟩ := readNumber_int i rest hr.numEnd (by simpa [Value.inGoDomain] using hdom)
    rw [e, List.cons_append] at hz ⊢
    exact ⟨_, readValue_number f c _ hc _ hz, by simp [Value.equals]⟩
  | .float u z, s, h, _, fuel, rest, hf, hr => by
    simp only [jsonValue] at h
    obtain ⟨f, rfl⟩ : ∃ f, fuel = f + 1 := ⟨fuel - 1, by omega⟩
    obtain ⟨⟨c, t, e, hc⟩, hread⟩ := jsonFloat_read u z s h
    obtain ⟨z', hz⟩ := hread rest hr.numEnd
    rw [e, List.cons_append] at hz ⊢
    exact ⟨_, readValue_number f c _ hc _ hz, by simp [Value.equals]⟩
  | .str x, s, h, _, fuel, rest, hf, _ => by
    simp only [jsonValue, Option.some.injEq] at h; subst h
    obtain ⟨f, rfl⟩ : ∃ f, fuel = f + 1 := ⟨fuel - 1, by omega⟩
    rw [jsonString_toList, List.cons_append, List.append_assoc, List.singleton_append]
    exact ⟨.str x, readValue_str f _ x rest (readStringBody_key x rest), by simp [Value.equals]⟩
  | .list l, s, h, hdom, fuel, rest, hf, _ => by
    simp only [jsonValue, Option.map_eq_some_iff] at h
    obtain ⟨a, ha, rfl⟩ := h
    obtain ⟨f, rfl⟩ : ∃ f, fuel = f + 1 := ⟨fuel - 1, by omega⟩
    have e : ("[" ++ a ++ "]").toList ++ rest = '[' :: (a.toList ++ ']' :: rest) := by
      simp [String.toList_append]
    rw [e]
    cases l with
    | nil =>
      rw [jsonList] at ha
      cases ha
      exact ⟨.list [], readValue_list_nil f rest, by simp [Value.equals, Value.equalsList]⟩
    | cons v l =>
      obtain ⟨c, t, ec, hc⟩ := jsonList_start v l a ha
      have hlen : a.toList.length + 1 < f := by
        simp [String.toList_append] at hf; omega
      obtain ⟨l', hl', heq⟩ := readItems_jsonList (v :: l) a (by simp) ha
        (by simpa [Value.inGoDomain] using hdom) f rest [] hlen
      rw [ec, List.cons_append] at hl' ⊢
      rw [readValue_list_cons f c _ hc, hl']
      exact ⟨_, rfl, by simpa [Value.equals] using heq⟩
  | .map m, s, h, hdom, fuel, rest, hf, _ => by
    simp only [jsonValue, Option.map_eq_some_iff] at h
    obtain ⟨a, ha, rfl⟩ := h
    obtain ⟨f, rfl⟩ : ∃ f, fuel = f + 1 := ⟨fuel - 1, by omega⟩
    have e : ("{" ++ a ++ "}").toList ++ rest = '{' :: (a.toList ++ '}' :: rest) := by
      simp [String.toList_append]
    rw [e]
    cases m with
    | nil =>
      rw [jsonFields] at ha
      cases ha
      exact ⟨.map [], readValue_map_nil f rest, by simp [Value.equals, Value.equalsFields]⟩
    | cons kv m =>
      obtain ⟨k, v⟩ := kv
      obtain ⟨t, ec⟩ := jsonFields_start k v m a ha
      have hlen : a.toList.length + 1 < f := by
        simp [String.toList_append] at hf; omega
      simp only [Value.inGoDomain, Bool.and_eq_true] at hdom
      obtain ⟨m', hm', heq⟩ := readObjMembers_jsonFields ((k, v) :: m) a (by simp) ha hdom.2 f rest [] hlen
      rw [ec, List.cons_append] at hm' ⊢
      rw [readValue_map_cons f '"' _ rfl, hm']
      have hcan : goMapFields m' = m' := goMapFields_of_equalsFields heq hdom.1
      refine ⟨.map m', ?_, by simpa [Value.equals] using heq⟩
      simp [hcan]
theorem readItems_jsonList : ∀ (l : List Value) (s : String), l ≠ [] → jsonList l = some s →
    Value.inGoDomainList l = true →
    ∀ (fuel : Nat) (rest : List Char) (acc : List Value), s.toList.length + 1 < fuel →
      ∃ l', readItems fuel (s.toList ++ ']' :: rest) acc = .ok (.list (acc.reverse ++ l'), rest) ∧
        Value.equalsList l' l = true
  | [], _, hne, _, _, _, _, _, _ => absurd rfl hne
  | [v], s, _, h, hdom, fuel, rest, acc, hf => by
    simp only [Value.inGoDomainList, Bool.and_true] at hdom
    rw [jsonList] at h
    obtain ⟨f, rfl⟩ : ∃ f, fuel = f + 1 := ⟨fuel - 1, by omega⟩
    obtain ⟨v', hv', heq⟩ := readValue_jsonValue v s h hdom f (']' :: rest) (by omega) (term_rbracket rest)
    refine ⟨[v'], ?_, by simp [Value.equalsList, heq]⟩
    rw [readItems_close f _ acc v' rest hv', List.reverse_cons]
  | v :: w :: l, s, _, h, hdom, fuel, rest, acc, hf => by
    simp only [Value.inGoDomainList, Bool.and_eq_true] at hdom
    obtain ⟨a, b, ha, hb, rfl⟩ := jsonList_cons_cons h
    obtain ⟨f, rfl⟩ : ∃ f, fuel = f + 1 := ⟨fuel - 1, by omega⟩
    have e : (a ++ "," ++ b).toList ++ ']' :: rest = a.toList ++ ',' :: (b.toList ++ ']' :: rest) := by
      simp [String.toList_append]
    have hl : (a ++ "," ++ b).toList.length = a.toList.length + 1 + b.toList.length := by
      simp [String.toList_append]; omega
    rw [hl] at hf
    rw [e]
    obtain ⟨v', hv', heq⟩ := readValue_jsonValue v a ha hdom.1 f (',' :: (b.toList ++ ']' :: rest)) (by omega)
      (term_comma _)
    obtain ⟨l', hl', heq'⟩ := readItems_jsonList (w :: l) b (by simp) hb
      (by simp [Value.inGoDomainList, hdom.2]) f rest (v' :: acc) (by omega)
    refine ⟨v' :: l', ?_, by simp [Value.equalsList, heq, heq']⟩
    rw [readItems_comma f _ acc v' _ hv', hl']
    simp
theorem readObjMembers_jsonFields : ∀ (m : List (String × Value)) (s : String), m ≠ [] → jsonFields m = some s →
    Value.inGoDomainFields m = true →
    ∀ (fuel : Nat) (rest : List Char) (acc : List (String × Value)), s.toList.length + 1 < fuel →
      ∃ m', readObjMembers fuel (s.toList ++ '}' :: rest) acc = .ok (acc.reverse ++ m', rest) ∧
        Value.equalsFields m' m = true
  | [], _, hne, _, _, _, _, _, _ => absurd rfl hne
  | [(k, v)], s, _, h, hdom, fuel, rest, acc, hf => by
    simp only [Value.inGoDomainFields, Bool.and_true] at hdom
    rw [jsonFields] at h
    simp only [Option.map_eq_some_iff] at h
    obtain ⟨a, ha, rfl⟩ := h
    obtain ⟨f, rfl⟩ : ∃ f, fuel = f + 1 := ⟨fuel - 1, by omega⟩
    have e : (jsonString k ++ ":" ++ a).toList ++ '}' :: rest =
        '"' :: (escBody k.toList ++ '"' :: ':' :: (a.toList ++ '}' :: rest)) := by
      simp [String.toList_append, jsonString_toList]
    have hl : a.toList.length < (jsonString k ++ ":" ++ a).toList.length := by
      simp [String.toList_append]; omega
    rw [e]
    obtain ⟨v', hv', heq⟩ := readValue_jsonValue v a ha hdom f ('}' :: rest) (by omega) (term_rbrace rest)
    refine ⟨[(k, v')], ?_, by simp [Value.equalsFields, heq]⟩
    rw [readObjMembers_close f _ _ rest acc k v' (readStringBody_key k _) hv', List.reverse_cons]
  | (k, v) :: e :: m, s, _, h, hdom, fuel, rest, acc, hf => by
    obtain ⟨ke, ve⟩ := e
    simp only [Value.inGoDomainFields, Bool.and_eq_true] at hdom
    obtain ⟨a, b, ha, hb, rfl⟩ := jsonFields_cons_cons h
    obtain ⟨f, rfl⟩ : ∃ f, fuel = f + 1 := ⟨fuel - 1, by omega⟩
    have e' : (jsonString k ++ ":" ++ a ++ "," ++ b).toList ++ '}' :: rest =
        '"' :: (escBody k.toList ++ '"' :: ':' :: (a.toList ++ ',' :: (b.toList ++ '}' :: rest))) := by
      simp [String.toList_append, jsonString_toList]
    have hl : a.toList.length + 1 + b.toList.length < (jsonString k ++ ":" ++ a ++ "," ++ b).toList.length := by
      simp [String.toList_append]; omega
    rw [e']
    obtain ⟨v', hv', heq⟩ := readValue_jsonValue v a ha hdom.1 f (',' :: (b.toList ++ '}' :: rest)) (by omega)
      (term_comma _)
    obtain ⟨m', hm', heq'⟩ := readObjMembers_jsonFields ((ke, ve) :: m) b (by simp) hb
      (by simp [Value.inGoDomainFields, hdom.2]) f rest ((k, v') :: acc) (by omega)
    refine ⟨(k, v') :: m', ?_, by simp [Value.equalsFields, heq, heq']⟩
    rw [readObjMembers_comma f _ _ _ acc k v' (readStringBody_key k _) hv', hm']
    simp
end

/-! ### the fields of a `k:` key: names without HTML escaping, read member by member -/

theorem jsonKeyFields_cons_cons {k : String} {v : Value} {e : String × Value} {rest : List (String × Value)}
    {s : String} (h : jsonKeyFields ((k, v) :: e :: rest) = some s) :
    ∃ a b, jsonValue v = some a ∧ jsonKeyFields (e :: rest) = some b ∧
      s = jsonStringPlain k ++ ":" ++ a ++ "," ++ b := by
  rw [jsonKeyFields] at h
  · split at h
    · rename_i a b ha hb
      exact ⟨a, b, ha, hb, by simpa using h.symm⟩
    · cases h
  · intro h'; cases h'

theorem jsonKeyFields_start (k : String) (v : Value) (l : List (String × Value)) (s : String)
    (h : jsonKeyFields ((k, v) :: l) = some s) : ∃ t, s.toList = '"' :: t := by
  cases l with
  | nil =>
    rw [jsonKeyFields] at h
    simp only [Option.map_eq_some_iff] at h
    obtain ⟨a, _, rfl⟩ := h
    exact ⟨_, by simp only [String.toList_append, jsonStringPlain_toList, List.cons_append]; rfl⟩
  | cons e rest =>
    obtain ⟨a, b, _, _, rfl⟩ := jsonKeyFields_cons_cons h
    exact ⟨_, by simp only [String.toList_append, jsonStringPlain_toList, List.cons_append]; rfl⟩

theorem readObjMembers_jsonKeyFields : ∀ (m : List (String × Value)) (s : String), m ≠ [] → jsonKeyFields m = some s →
    Value.inGoDomainFields m = true →
    ∀ (fuel : Nat) (rest : List Char) (acc : List (String × Value)), s.toList.length + 1 < fuel →
      ∃ m', readObjMembers fuel (s.toList ++ '}' :: rest) acc = .ok (acc.reverse ++ m', rest) ∧
        Value.equalsFields m' m = true
  | [], _, hne, _, _, _, _, _, _ => absurd rfl hne
  | [(k, v)], s, _, h, hdom, fuel, rest, acc, hf => by
    simp only [Value.inGoDomainFields, Bool.and_true] at hdom
    rw [jsonKeyFields] at h
    simp only [Option.map_eq_some_iff] at h
    obtain ⟨a, ha, rfl⟩ := h
    obtain ⟨f, rfl⟩ : ∃ f, fuel = f + 1 := ⟨fuel - 1, by omega⟩
    have e : (jsonStringPlain k ++ ":" ++ a).toList ++ '}' :: rest =
        '"' :: (escBodyPlain k.toList ++ '"' :: ':' :: (a.toList ++ '}' :: rest)) := by
      simp [String.toList_append, jsonStringPlain_toList]
    have hl : a.toList.length < (jsonStringPlain k ++ ":" ++ a).toList.length := by
      simp [String.toList_append]; omega
    rw [e]
    obtain ⟨v', hv', heq⟩ := readValue_jsonValue v a ha hdom f ('}' :: rest) (by omega) (term_rbrace rest)
    refine ⟨[(k, v')], ?_, by simp [Value.equalsFields, heq]⟩
    rw [readObjMembers_close f _ _ rest acc k v' (readStringBody_keyWith escOK_plain k _) hv', List.reverse_cons]
  | (k, v) :: e :: m, s, _, h, hdom, fuel, rest, acc, hf => by
    obtain ⟨ke, ve⟩ := e
    simp only [Value.inGoDomainFields, Bool.and_eq_true] at hdom
    obtain ⟨a, b, ha, hb, rfl⟩ := jsonKeyFields_cons_cons h
    obtain ⟨f, rfl⟩ : ∃ f, fuel = f + 1 := ⟨fuel - 1, by omega⟩
    have e' : (jsonStringPlain k ++ ":" ++ a ++ "," ++ b).toList ++ '}' :: rest =
        '"' :: (escBodyPlain k.toList ++ '"' :: ':' :: (a.toList ++ ',' :: (b.toList ++ '}' :: rest))) := by
      simp [String.toList_append, jsonStringPlain_toList]
    have hl : a.toList.length + 1 + b.toList.length < (jsonStringPlain k ++ ":" ++ a ++ "," ++ b).toList.length := by
      simp [String.toList_append]; omega
    rw [e']
    obtain ⟨v', hv', heq⟩ := readValue_jsonValue v a ha hdom.1 f (',' :: (b.toList ++ '}' :: rest)) (by omega)
      (term_comma _)
    obtain ⟨m', hm', heq'⟩ := readObjMembers_jsonKeyFields ((ke, ve) :: m) b (by simp) hb
      (by simp [Value.inGoDomainFields, hdom.2]) f rest ((k, v') :: acc) (by omega)
    refine ⟨(k, v') :: m', ?_, by simp [Value.equalsFields, heq, heq']⟩
    rw [readObjMembers_comma f _ _ _ acc k v' (readStringBody_keyWith escOK_plain k _) hv', hm']
    simp

end Ser
end SMD
