/-
Invariants and helper lemmas for the protocol models of `SMD.Model.Sync`.
-/
import SMD.Model.Sync
namespace SMD.Sync

/-- Invariant principle for `Reach`. -/
theorem Reach.inv {σ ι : Type} {init : σ} {step : σ → ι → σ → Prop} (P : σ → Prop)
    (h0 : P init) (hs : ∀ s t s', P s → step s t s' → P s') {s : σ} (h : Reach init step s) : P s := by
  induction h with
  | init => exact h0
  | step _ hst ih => exact hs _ _ _ ih hst

/-- A thread's program counter after a point update: either it is the updated thread, or unchanged. -/
theorem pc_upd_cases {α β : Type} [DecidableEq α] {pc : α → β} {t u : α} {v x : β}
    (h : upd pc t v u = x) : (u = t ∧ v = x) ∨ (u ≠ t ∧ pc u = x) := by
  by_cases hu : u = t
  · subst hu; left; simpa using h
  · right; exact ⟨hu, by simpa [upd_other _ _ _ _ hu] using h⟩

/-! ## (i) once-guarded index -/
namespace Once
variable {Tid T Index Name Res : Type} [DecidableEq Tid]

/-- The inductive invariant of the Once protocol. -/
structure Inv (S : Spec T Index Name Res) (s : State Tid T Index Name Res) : Prop where
  /-- before the first `Do` the map is nil and the initialiser has never been entered -/
  fresh : s.once = .fresh → s.m = none ∧ s.started = 0
  /-- the initialiser is entered at most once -/
  started : s.started ≤ 1
  /-- once `Do` has completed the index is the sequentially built one -/
  doneIdx : s.once = .done → s.m = some S.build
  /-- at any time the index is a prefix of the sequential build -/
  pref : ∀ idx, s.m = some idx → ∃ rest : List T, rest.foldl S.insert idx = S.build
  initMake : ∀ u n, s.pc u = .initMake n → s.once = .running u ∧ s.m = none
  initLoop : ∀ u n rest, s.pc u = .initLoop n rest →
    s.once = .running u ∧ ∃ idx, s.m = some idx ∧ rest.foldl S.insert idx = S.build
  afterDo : ∀ u n, s.pc u = .afterDo n → s.once = .done
  result : ∀ u n r, s.pc u = .done n r → r = S.lookup S.build n

omit [DecidableEq Tid] in
theorem inv_init (S : Spec T Index Name Res) : Inv S (init : State Tid T Index Name Res) := by
  constructor <;> simp [init]

theorem inv_step {S : Spec T Index Name Res} {s s' : State Tid T Index Name Res} {t : Tid}
    (hi : Inv S s) (hst : Step S s t s') : Inv S s' := by
  cases hst with
  | call t n hc =>
    refine ⟨hi.fresh, hi.started, hi.doneIdx, hi.pref, ?_, ?_, ?_, ?_⟩
    all_goals
      intro u
      by_cases hu : u = t
      · subst hu; simp
      · simp only [upd_other _ _ _ _ hu]
        first | exact hi.initMake u | exact hi.initLoop u | exact hi.afterDo u | exact hi.result u
  | run t hn =>
    obtain ⟨h1, h2, h3, h4, h5, h6, h7, h8⟩ := hi
    unfold next at hn
    (repeat' split at hn) <;> simp at hn <;> subst hn <;>
      refine ⟨?_, ?_, ?_, ?_, fun u n h => ?_, fun u n rest h => ?_, fun u n h => ?_, fun u n r h => ?_⟩ <;>
      (try simp only [] at h) <;>
      (try (rcases pc_upd_cases h with ⟨rfl, h⟩ | ⟨hu, h⟩ <;> try cases h)) <;>
      try grind [Spec.build]

theorem reachable_inv {S : Spec T Index Name Res} {s : State Tid T Index Name Res}
    (h : Reachable S s) : Inv S s :=
  Reach.inv (Inv S) (inv_init S) (fun _ _ _ hi hst => inv_step hi hst) h

/-- Along a step the index only grows by inserts (it is never reset or shrunk). -/
theorem step_mono {S : Spec T Index Name Res} {s s' : State Tid T Index Name Res} {t : Tid}
    (hi : Inv S s) (hst : Step S s t s') (idx : Index) (hm : s.m = some idx) :
    ∃ xs : List T, s'.m = some (xs.foldl S.insert idx) := by
  cases hst with
  | call t n hc => exact ⟨[], hm⟩
  | run t hn =>
    unfold next at hn
    split at hn
    · simp at hn
    · simp at hn
    · split at hn <;> simp at hn <;> subst hn <;> exact ⟨[], hm⟩
    · rename_i n hpc; have := (hi.initMake t n hpc).2; simp_all
    · rename_i n x rest hpc
      split at hn <;> simp at hn
      subst hn; exact ⟨[x], by simp_all⟩
    · simp at hn; subst hn; exact ⟨[], hm⟩
    · simp at hn; subst hn; exact ⟨[], hm⟩

/-- After `Do` has completed neither the Once nor the index changes any more. -/
theorem step_done_stable {S : Spec T Index Name Res} {s s' : State Tid T Index Name Res} {t : Tid}
    (hi : Inv S s) (hst : Step S s t s') (hd : s.once = .done) : s'.once = .done ∧ s'.m = s.m := by
  cases hst with
  | call t n hc => exact ⟨hd, rfl⟩
  | run t hn =>
    have h5 := hi.initMake t
    have h6 := hi.initLoop t
    unfold next at hn
    (repeat' split at hn) <;> simp at hn <;> subst hn <;> grind

omit [DecidableEq Tid] in
/-- Two threads that are both inside the initialiser are the same thread. -/
theorem inInit_unique {S : Spec T Index Name Res} {s : State Tid T Index Name Res}
    (hi : Inv S s) {t u : Tid} (ht : (s.pc t).inInit = true) (hu : (s.pc u).inInit = true) : t = u := by
  have h5 := hi.initMake
  have h6 := hi.initLoop
  cases hpt : s.pc t <;> simp [hpt, PC.inInit] at ht <;>
    cases hpu : s.pc u <;> simp [hpu, PC.inInit] at hu <;> grind

omit [DecidableEq Tid] in
theorem inInit_running {S : Spec T Index Name Res} {s : State Tid T Index Name Res}
    (hi : Inv S s) {t : Tid} (ht : (s.pc t).inInit = true) : s.once = .running t := by
  cases hpt : s.pc t <;> simp [hpt, PC.inInit] at ht
  · exact (hi.initMake _ _ hpt).1
  · exact (hi.initLoop _ _ _ hpt).1

omit [DecidableEq Tid] in
theorem readsIndex_done {S : Spec T Index Name Res} {s : State Tid T Index Name Res}
    (hi : Inv S s) {t : Tid} (ht : (s.pc t).readsIndex = true) : s.once = .done ∧ s.m = some S.build := by
  cases hpt : s.pc t <;> simp [hpt, PC.readsIndex] at ht
  have := hi.afterDo _ _ hpt
  exact ⟨this, hi.doneIdx this⟩

/-- Only a thread inside the initialiser — the one the `Once` is "running by" — changes the index. -/
theorem step_write_running {S : Spec T Index Name Res} {s s' : State Tid T Index Name Res} {t : Tid}
    (hi : Inv S s) (hst : Step S s t s') (hne : s'.m ≠ s.m) :
    s.once = .running t ∧ (s.pc t).inInit = true := by
  cases hst with
  | call t n hc => exact absurd rfl hne
  | run t hn =>
    have h5 := hi.initMake t
    have h6 := hi.initLoop t
    unfold next at hn
    (repeat' split at hn) <;> simp at hn <;> subst hn <;>
      first | exact absurd rfl hne | (simp_all [PC.inInit]; done) | skip

/-- The model has no stuck states other than the intended ones: a thread cannot step only if it is
not inside a call, or it waits in `Do` for the running initialiser (no panics on the nil map). -/
theorem next_none {S : Spec T Index Name Res} {s : State Tid T Index Name Res}
    (hi : Inv S s) {t : Tid} (hn : next S s t = none) :
    (s.pc t).canCall = true ∨ ∃ n u, s.pc t = .called n ∧ s.once = .running u := by
  have h6 := hi.initLoop t
  unfold next at hn
  (repeat' split at hn) <;> simp at hn <;> simp_all [PC.canCall]

theorem fire_step {S : Spec T Index Name Res} {s s' : State Tid T Index Name Res} {e : Tid × Option Name}
    (h : fire S s e = some s') : Step S s e.1 s' := by
  unfold fire at h
  split at h
  · split at h
    · simp at h; subst h; exact .call _ _ ‹_›
    · simp at h
  · exact .run _ h

theorem exec_reachable {S : Spec T Index Name Res} (tr : List (Tid × Option Name))
    {s : State Tid T Index Name Res} (hs : Reachable S s) (h : (exec S s tr).isSome) :
    Reachable S ((exec S s tr).get h) := by
  induction tr generalizing s with
  | nil => simpa [exec] using hs
  | cons e es ih =>
    cases hf : fire S s e with
    | none => simp [exec, hf] at h
    | some s1 =>
      have h' : (exec S s1 es).isSome := by simpa [exec, hf] using h
      have := ih (Reach.step hs (fire_step hf)) h'
      simpa [exec, hf] using this

end Once
/-! ## (ii) mutex-guarded memo -/
namespace Memo
variable {Tid Key Val : Type} [DecidableEq Tid] [DecidableEq Key]

/-- The inductive invariant of the memo protocol. -/
structure Inv (f : Key → Val) (s : State Tid Key Val) : Prop where
  /-- the memo is a sub-graph of `f` -/
  sound : ∀ m, s.memo = some m → Sound f m
  locked : ∀ u k, s.pc u = .locked k → s.lock = some u
  check : ∀ u k, s.pc u = .check k → s.lock = some u ∧ s.memo ≠ none
  miss : ∀ u k, s.pc u = .miss k → s.lock = some u ∧ s.memo ≠ none
  store : ∀ u k v, s.pc u = .store k v → s.lock = some u ∧ s.memo ≠ none ∧ v = f k
  unlock : ∀ u k v, s.pc u = .unlock k v → s.lock = some u ∧ v = f k
  result : ∀ u k v, s.pc u = .done k v → v = f k

omit [DecidableEq Tid] in
theorem Sound.upd {f : Key → Val} {m : Map Key Val} (h : Sound f m) (k : Key) :
    Sound f (upd m k (some (f k))) := by
  intro k' v hv
  by_cases hk : k' = k
  · subst hk; simpa [eq_comm] using hv
  · exact h k' v (by simpa [upd_other _ _ _ _ hk] using hv)

omit [DecidableEq Tid] [DecidableEq Key] in
theorem inv_init (f : Key → Val) : Inv f (init : State Tid Key Val) := by
  constructor <;> simp [init]

theorem inv_step {f : Key → Val} {s s' : State Tid Key Val} {t : Tid}
    (hi : Inv f s) (hst : Step f s t s') : Inv f s' := by
  obtain ⟨h1, h2, h3, h4, h5, h6, h7⟩ := hi
  cases hst with
  | call t n hc =>
    refine ⟨h1, fun u k h => ?_, fun u k h => ?_, fun u k h => ?_, fun u k v h => ?_,
      fun u k v h => ?_, fun u k v h => ?_⟩ <;>
      simp only [] at h <;>
      (rcases pc_upd_cases h with ⟨rfl, h⟩ | ⟨hu, h⟩ <;> try cases h) <;> grind
  | run t hn =>
    unfold next at hn
    (repeat' split at hn) <;> simp at hn <;> subst hn <;>
      refine ⟨?_, fun u k h => ?_, fun u k h => ?_, fun u k h => ?_, fun u k v h => ?_,
        fun u k v h => ?_, fun u k v h => ?_⟩ <;>
      (try simp only [] at h) <;>
      (try (rcases pc_upd_cases h with ⟨rfl, h⟩ | ⟨hu, h⟩ <;> try cases h)) <;>
      first | grind | grind [Sound, Sound.upd, Option.bind_eq_some_iff]

theorem reachable_inv {f : Key → Val} {s : State Tid Key Val} (h : Reachable f s) : Inv f s :=
  Reach.inv (Inv f) (inv_init f) (fun _ _ _ hi hst => inv_step hi hst) h

omit [DecidableEq Tid] in
theorem Sub.upd {f : Key → Val} {m : Map Key Val} (h : Sound f m) (k : Key) :
    Sub m (upd m k (some (f k))) := by
  intro k' v hv
  by_cases hk : k' = k
  · subst hk; simp [h _ _ hv]
  · simpa [upd_other _ _ _ _ hk] using hv

/-- Along a step the memo only grows: it is never reset, and no entry is removed or changed. -/
theorem step_mono {f : Key → Val} {s s' : State Tid Key Val} {t : Tid}
    (hi : Inv f s) (hst : Step f s t s') (m : Map Key Val) (hm : s.memo = some m) :
    ∃ m', s'.memo = some m' ∧ Sub m m' := by
  have hrefl : Sub m m := fun _ _ h => h
  cases hst with
  | call t n hc => exact ⟨m, hm, hrefl⟩
  | run t hn =>
    unfold next at hn
    split at hn
    · simp at hn
    · simp at hn
    · split at hn <;> simp at hn; subst hn; exact ⟨m, hm, hrefl⟩
    · split at hn <;> simp at hn <;> subst hn
      · simp_all
      · exact ⟨m, hm, hrefl⟩
    · split at hn <;> simp at hn <;> subst hn <;> exact ⟨m, hm, hrefl⟩
    · simp at hn; subst hn; exact ⟨m, hm, hrefl⟩
    · rename_i k v hpc
      split at hn <;> simp at hn
      subst hn
      rename_i m0 hm0
      have hv := (hi.store t k v hpc).2.2
      have : m0 = m := by simp_all
      subst this; subst hv
      exact ⟨_, rfl, Sub.upd (hi.sound _ hm) k⟩
    · simp at hn; subst hn; exact ⟨m, hm, hrefl⟩

omit [DecidableEq Tid] [DecidableEq Key] in
theorem holdsLock_lock {f : Key → Val} {s : State Tid Key Val} (hi : Inv f s) {t : Tid}
    (ht : (s.pc t).holdsLock = true) : s.lock = some t := by
  cases hpt : s.pc t <;> simp [hpt, PC.holdsLock] at ht
  · exact hi.locked _ _ hpt
  · exact (hi.check _ _ hpt).1
  · exact (hi.miss _ _ hpt).1
  · exact (hi.store _ _ _ hpt).1
  · exact (hi.unlock _ _ _ hpt).1

omit [DecidableEq Tid] [DecidableEq Key] in
theorem accessesMemo_holdsLock (pc : PC Key Val) (h : pc.accessesMemo = true) : pc.holdsLock = true := by
  cases pc <;> simp_all [PC.accessesMemo, PC.holdsLock]

/-- Only the lock holder changes the memo. -/
theorem step_write_holder {f : Key → Val} {s s' : State Tid Key Val} {t : Tid}
    (hi : Inv f s) (hst : Step f s t s') (hne : s'.memo ≠ s.memo) :
    s.lock = some t ∧ (s.pc t).accessesMemo = true := by
  cases hst with
  | call t n hc => exact absurd rfl hne
  | run t hn =>
    have h2 := hi.locked t
    have h5 := hi.store t
    unfold next at hn
    (repeat' split at hn) <;> simp at hn <;> subst hn <;>
      first | exact absurd rfl hne | (simp_all [PC.accessesMemo]; done) | skip

/-- No stuck states other than waiting for the lock (no panic on the nil map). -/
theorem next_none {f : Key → Val} {s : State Tid Key Val} (hi : Inv f s) {t : Tid}
    (hn : next f s t = none) :
    (s.pc t).canCall = true ∨ ∃ k u, s.pc t = .called k ∧ s.lock = some u := by
  have h5 := hi.store t
  unfold next at hn
  (repeat' split at hn) <;> simp at hn <;> simp_all [PC.canCall]

theorem fire_step {f : Key → Val} {s s' : State Tid Key Val} {e : Tid × Option Key}
    (h : fire f s e = some s') : Step f s e.1 s' := by
  unfold fire at h
  split at h
  · split at h
    · simp at h; subst h; exact .call _ _ ‹_›
    · simp at h
  · exact .run _ h

theorem exec_reachable {f : Key → Val} (tr : List (Tid × Option Key))
    {s : State Tid Key Val} (hs : Reachable f s) (h : (exec f s tr).isSome) :
    Reachable f ((exec f s tr).get h) := by
  induction tr generalizing s with
  | nil => simpa [exec] using hs
  | cons e es ih =>
    cases hf : fire f s e with
    | none => simp [exec, hf] at h
    | some s1 =>
      have h' : (exec f s1 es).isSome := by simpa [exec, hf] using h
      have := ih (Reach.step hs (fire_step hf)) h'
      simpa [exec, hf] using this

end Memo
/-! ## (iii) copy-on-write cache -/
namespace Cow
variable {Tid Ty Entry : Type} [DecidableEq Tid] [DecidableEq Ty]

omit [DecidableEq Ty] in
theorem Sub.refl (m : Map Ty Entry) : Sub m m := fun _ _ h => h

omit [DecidableEq Ty] in
theorem Sub.trans {m₁ m₂ m₃ : Map Ty Entry} (h₁ : Sub m₁ m₂) (h₂ : Sub m₂ m₃) : Sub m₁ m₃ :=
  fun k v h => h₂ k v (h₁ k v h)

omit [DecidableEq Ty] in
theorem Sound.of_sub {S : Spec Ty Entry} {m₁ m₂ : Map Ty Entry} (h : Sub m₁ m₂) (hs : Sound S m₂) :
    Sound S m₁ := fun k v hv => hs k v (h k v hv)

/-- `copy(current)` plus the missing updates extends `current`. -/
theorem sub_mergeMissing (cur : Map Ty Entry) (ups : List (Ty × Entry)) : Sub cur (mergeMissing cur ups) := by
  induction ups generalizing cur with
  | nil => exact Sub.refl _
  | cons p ps ih =>
    simp only [mergeMissing, List.foldl_cons]
    refine Sub.trans ?_ (ih _)
    intro k v hv
    split
    · exact hv
    · rename_i hnone
      have hk : k ≠ p.1 := by intro hk; subst hk; simp [hv] at hnone
      simpa [upd_other _ _ _ _ hk] using hv

theorem sound_mergeMissing {S : Spec Ty Entry} (cur : Map Ty Entry) (ups : List (Ty × Entry))
    (hc : Sound S cur) (hu : ∀ p ∈ ups, p.2 = S.entry p.1) : Sound S (mergeMissing cur ups) := by
  induction ups generalizing cur with
  | nil => exact hc
  | cons p ps ih =>
    simp only [mergeMissing, List.foldl_cons]
    refine ih _ ?_ (fun q hq => hu q (List.mem_cons_of_mem _ hq))
    split
    · exact hc
    · intro k v hv
      by_cases hk : k = p.1
      · subst hk
        have := hu p (List.mem_cons_self ..)
        simp at hv; rw [← hv, this]
      · exact hc k v (by simpa [upd_other _ _ _ _ hk] using hv)

/-- after the merge every key of the updates is present -/
theorem mergeMissing_covers (cur : Map Ty Entry) (ups : List (Ty × Entry)) (p : Ty × Entry) (hp : p ∈ ups) :
    (mergeMissing cur ups p.1).isSome = true := by
  induction ups generalizing cur with
  | nil => cases hp
  | cons q qs ih =>
    simp only [mergeMissing, List.foldl_cons]
    rcases List.mem_cons.1 hp with rfl | hp
    · have hsub := sub_mergeMissing (if (cur p.1).isSome = true then cur else upd cur p.1 (some p.2)) qs
      have : ((if (cur p.1).isSome = true then cur else upd cur p.1 (some p.2)) p.1).isSome = true := by
        split
        · assumption
        · simp
      obtain ⟨v, hv⟩ := Option.isSome_iff_exists.1 this
      have := hsub _ _ hv
      simp only [mergeMissing] at this
      simp [this]
    · exact ih _ hp

omit [DecidableEq Ty] in
theorem not_needed_covers (cur : Map Ty Entry) (ups : List (Ty × Entry)) (h : needed cur ups = false)
    (p : Ty × Entry) (hp : p ∈ ups) : (cur p.1).isSome = true := by
  simp only [needed, List.any_eq_false] at h
  have := h p hp
  cases hc : cur p.1 <;> simp_all

omit [DecidableEq Ty] in
theorem updatesOf_sound (S : Spec Ty Entry) (ty : Ty) : ∀ p ∈ S.updatesOf ty, p.2 = S.entry p.1 := by
  intro p hp
  simp only [Spec.updatesOf, List.mem_map] at hp
  obtain ⟨k, _, rfl⟩ := hp
  rfl

omit [DecidableEq Ty] in
theorem self_mem_updatesOf (S : Spec Ty Entry) (ty : Ty) : (ty, S.entry ty) ∈ S.updatesOf ty := by
  simp [Spec.updatesOf]

theorem lookup_updatesOf (S : Spec Ty Entry) (ty : Ty) : (S.updatesOf ty).lookup ty = some (S.entry ty) := by
  simp [Spec.updatesOf]

theorem sound_merge_updatesOf {S : Spec Ty Entry} {cur : Map Ty Entry} (hc : Sound S cur) (ty : Ty) :
    Sound S (mergeMissing cur (S.updatesOf ty)) :=
  sound_mergeMissing cur _ hc (updatesOf_sound S ty)

theorem merge_updatesOf_self {S : Spec Ty Entry} {cur : Map Ty Entry} (hc : Sound S cur) (ty : Ty) :
    mergeMissing cur (S.updatesOf ty) ty = some (S.entry ty) := by
  have h := mergeMissing_covers cur (S.updatesOf ty) _ (self_mem_updatesOf S ty)
  obtain ⟨v, hv⟩ := Option.isSome_iff_exists.1 h
  have := sound_merge_updatesOf hc ty ty v hv
  simpa [this] using hv

omit [DecidableEq Ty] in
theorem not_needed_self {S : Spec Ty Entry} {cur : Map Ty Entry} (hc : Sound S cur) (ty : Ty)
    (hn : ¬ needed cur (S.updatesOf ty) = true) : cur ty = some (S.entry ty) := by
  have h := not_needed_covers cur (S.updatesOf ty) (by simpa using hn) _ (self_mem_updatesOf S ty)
  obtain ⟨v, hv⟩ := Option.isSome_iff_exists.1 h
  have := hc ty v hv
  simpa [this] using hv

/-- The inductive invariant of the copy-on-write cache protocol. -/
structure Inv (S : Spec Ty Entry) (s : State Tid Ty Entry) : Prop where
  /-- the published map is a sub-graph of the pure `entry` function -/
  sound : Sound S s.value
  /-- a snapshot loaded earlier is contained in the current map -/
  loaded : ∀ u ty snap, s.pc u = .loaded ty snap → Sub snap s.value
  wantLock : ∀ u ty ups, s.pc u = .wantLock ty ups → ups = S.updatesOf ty
  locked : ∀ u ty ups, s.pc u = .locked ty ups → s.mu = some u ∧ ups = S.updatesOf ty
  /-- the holder's `current` is still the published map: nobody else stores while it holds `mu` -/
  holding : ∀ u ty ups cur, s.pc u = .holding ty ups cur →
    s.mu = some u ∧ ups = S.updatesOf ty ∧ cur = s.value
  /-- when `update` is about to return, the entry for the requested type is published -/
  unlock : ∀ u ty ups, s.pc u = .unlock ty ups →
    s.mu = some u ∧ ups = S.updatesOf ty ∧ s.value ty = some (S.entry ty)
  result : ∀ u ty r, s.pc u = .done ty r → r = some (S.entry ty)

omit [DecidableEq Tid] [DecidableEq Ty] in
theorem inv_init (S : Spec Ty Entry) : Inv S (init : State Tid Ty Entry) := by
  constructor <;> simp [init, Sound]

theorem inv_step {S : Spec Ty Entry} {s s' : State Tid Ty Entry} {t : Tid}
    (hi : Inv S s) (hst : Step S s t s') : Inv S s' := by
  obtain ⟨h1, h2, h3, h4, h5, h6, h7⟩ := hi
  cases hst with
  | call t n hc =>
    refine ⟨h1, fun u k x h => ?_, fun u k x h => ?_, fun u k x h => ?_, fun u k x y h => ?_,
      fun u k x h => ?_, fun u k x h => ?_⟩ <;>
      simp only [] at h <;>
      (rcases pc_upd_cases h with ⟨rfl, h⟩ | ⟨hu, h⟩ <;> try cases h) <;> grind
  | run t hn =>
    unfold next at hn
    (repeat' split at hn) <;> simp at hn <;> subst hn <;>
      refine ⟨?_, fun u k x h => ?_, fun u k x h => ?_, fun u k x h => ?_, fun u k x y h => ?_,
        fun u k x h => ?_, fun u k x h => ?_⟩ <;>
      (try simp only [] at h) <;>
      (try (rcases pc_upd_cases h with ⟨rfl, h'⟩ | ⟨hu, h'⟩ <;> clear h <;> try cases h')) <;>
      try (first | grind | grind [Sub, Sound] | grind [Sub.refl, Sub.trans, sub_mergeMissing, sound_merge_updatesOf, merge_updatesOf_self, not_needed_self, lookup_updatesOf])

theorem reachable_inv {S : Spec Ty Entry} {s : State Tid Ty Entry} (h : Reachable S s) : Inv S s :=
  Reach.inv (Inv S) (inv_init S) (fun _ _ _ hi hst => inv_step hi hst) h

/-- Along a step the published map only grows (no lost update: the `Store` extends the map that is
current at the time of the `Store`, because only the holder of `mu` stores). -/
theorem step_mono {S : Spec Ty Entry} {s s' : State Tid Ty Entry} {t : Tid}
    (hi : Inv S s) (hst : Step S s t s') : Sub s.value s'.value := by
  cases hst with
  | call t n hc => exact Sub.refl _
  | run t hn =>
    have h5 := hi.holding t
    unfold next at hn
    (repeat' split at hn) <;> simp at hn <;> subst hn <;> first | exact Sub.refl _ | skip
    rename_i ty ups cur hpc _
    rw [← (h5 ty ups cur hpc).2.2]
    exact sub_mergeMissing _ _

/-- Only the holder of `mu`, at its `Store` program point, changes the published map. -/
theorem step_store_holder {S : Spec Ty Entry} {s s' : State Tid Ty Entry} {t : Tid}
    (hi : Inv S s) (hst : Step S s t s') (hne : s'.value ≠ s.value) :
    s.mu = some t ∧ (s.pc t).stores = true := by
  cases hst with
  | call t n hc => exact absurd rfl hne
  | run t hn =>
    have h5 := hi.holding t
    unfold next at hn
    (repeat' split at hn) <;> simp at hn <;> subst hn <;> first | exact absurd rfl hne | skip
    rename_i ty ups cur hpc _
    exact ⟨(h5 ty ups cur hpc).1, by simp [hpc, PC.stores]⟩

omit [DecidableEq Tid] [DecidableEq Ty] in
theorem holdsMu_mu {S : Spec Ty Entry} {s : State Tid Ty Entry} (hi : Inv S s) {t : Tid}
    (ht : (s.pc t).holdsMu = true) : s.mu = some t := by
  cases hpt : s.pc t <;> simp [hpt, PC.holdsMu] at ht
  · exact (hi.locked _ _ _ hpt).1
  · exact (hi.holding _ _ _ _ hpt).1
  · exact (hi.unlock _ _ _ hpt).1

omit [DecidableEq Tid] [DecidableEq Ty] in
theorem stores_holdsMu (pc : PC Ty Entry) (h : pc.stores = true) : pc.holdsMu = true := by
  cases pc <;> simp_all [PC.stores, PC.holdsMu]

omit [DecidableEq Tid] [DecidableEq Ty] in
/-- Every snapshot in a thread's locals is contained in the published map, hence sound. -/
theorem snapshot_sub {S : Spec Ty Entry} {s : State Tid Ty Entry} (hi : Inv S s) {t : Tid}
    {m : Map Ty Entry} (hm : (s.pc t).snapshot? = some m) : Sub m s.value := by
  cases hpt : s.pc t <;> simp [hpt, PC.snapshot?] at hm
  · subst hm; exact hi.loaded _ _ _ hpt
  · subst hm; rw [(hi.holding _ _ _ _ hpt).2.2]; exact Sub.refl _

/-- No stuck states other than waiting for the writer mutex. -/
theorem next_none {S : Spec Ty Entry} {s : State Tid Ty Entry} {t : Tid} (hn : next S s t = none) :
    (s.pc t).canCall = true ∨ ∃ ty ups u, s.pc t = .wantLock ty ups ∧ s.mu = some u := by
  unfold next at hn
  (repeat' split at hn) <;> simp at hn <;> simp_all [PC.canCall]

theorem fire_step {S : Spec Ty Entry} {s s' : State Tid Ty Entry} {e : Tid × Option Ty}
    (h : fire S s e = some s') : Step S s e.1 s' := by
  unfold fire at h
  split at h
  · split at h
    · simp at h; subst h; exact .call _ _ ‹_›
    · simp at h
  · exact .run _ h

theorem exec_reachable {S : Spec Ty Entry} (tr : List (Tid × Option Ty))
    {s : State Tid Ty Entry} (hs : Reachable S s) (h : (exec S s tr).isSome) :
    Reachable S ((exec S s tr).get h) := by
  induction tr generalizing s with
  | nil => simpa [exec] using hs
  | cons e es ih =>
    cases hf : fire S s e with
    | none => simp [exec, hf] at h
    | some s1 =>
      have h' : (exec S s1 es).isSome := by simpa [exec, hf] using h
      have := ih (Reach.step hs (fire_step hf)) h'
      simpa [exec, hf] using this

end Cow
end SMD.Sync
