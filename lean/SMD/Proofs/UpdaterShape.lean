import SMD.Model.Updater
import SMD.Proofs.SetAlgebra
namespace SMD

/-! ### `liftRes` -/

theorem liftRes_ne_conflict {α β : Type} (r : Res α) (k : α → Outcome β) (c : List (String × Path))
    (hk : ∀ a, k a ≠ .conflict c) : liftRes r k ≠ .conflict c := by
  cases r <;> simp [liftRes, hk]

/-! ### "never conflict" lemmas -/

theorem reconcileManaged_ne_conflict (u : Updater) (sc : Schema) (live : TV) (c : List (String × Path)) :
    ∀ m : Managed, reconcileManaged u sc live m ≠ .conflict c := by
  intro m
  induction m with
  | nil => simp [reconcileManaged]
  | cons x rest ih =>
    obtain ⟨k, vs⟩ := x
    unfold reconcileManaged
    split
    · exact ih
    · simp
    · split
      · simp
      · simp
      · split
        · simp
        · rename_i e hne
          exact ih

theorem addBackForVersion_ne_conflict (u : Updater) (sc : Schema) (merged pruned : TV) (version : String)
    (managed : SetTrie) (c : List (String × Path)) :
    addBackForVersion u sc merged pruned version managed ≠ .conflict c := by
  unfold addBackForVersion
  split
  · simp
  · simp
  · split
    · simp
    · simp
    · apply liftRes_ne_conflict; intro a
      apply liftRes_ne_conflict; intro b
      simp

theorem addBackOwned_ne_conflict (u : Updater) (sc : Schema) (merged pruned : TV) (prunedVersion : String)
    (managers : Managed) (c : List (String × Path)) :
    addBackOwned u sc merged pruned prunedVersion managers ≠ .conflict c := by
  have hfold : ∀ (l : List (String × SetTrie)) (acc : Outcome (TV × TV)), (∀ c, acc ≠ .conflict c) →
      ∀ c, l.foldl (fun (acc : Outcome (TV × TV)) (vm : String × SetTrie) =>
        match acc with
        | .ok (merged, pruned) => addBackForVersion u sc merged pruned vm.1 vm.2
        | e => e) acc ≠ .conflict c := by
    intro l
    induction l with
    | nil => intro acc h; simpa using h
    | cons x rest ih =>
      intro acc h
      simp only [List.foldl_cons]
      apply ih
      intro c
      split
      · exact addBackForVersion_ne_conflict _ _ _ _ _ _ _
      · exact h c
  unfold addBackOwned
  simp only
  split
  · simp
  · rename_i c' hc
    exfalso
    revert hc
    apply hfold
    intro c
    split
    · exact addBackForVersion_ne_conflict _ _ _ _ _ _ _
    · simp
  · simp
  · simp

theorem addBackDangling_ne_conflict (u : Updater) (sc : Schema) (merged pruned : TV) (lastSet : VersionedSet)
    (c : List (String × Path)) :
    addBackDangling u sc merged pruned lastSet ≠ .conflict c := by
  unfold addBackDangling
  split
  · simp
  · simp
  · apply liftRes_ne_conflict; intro a
    apply liftRes_ne_conflict; intro b
    simp

theorem prune_ne_conflict (u : Updater) (sc : Schema) (merged : TV) (managers : Managed) (applyingManager : String)
    (lastSet : Option VersionedSet) (c : List (String × Path)) :
    prune u sc merged managers applyingManager lastSet ≠ .conflict c := by
  unfold prune
  split
  · simp
  · split
    · simp
    · split
      · simp
      · simp
      · simp only
        split
        · split
          · split <;> simp
          · rename_i e hne
            intro he
            exact addBackDangling_ne_conflict _ _ _ _ _ _ he
        · rename_i e hne
          intro he
          exact addBackOwned_ne_conflict _ _ _ _ _ _ _ he

theorem updateLoop_ne_conflict (u : Updater) (sc : Schema) (oldObj newObj : TV) (workflow : String)
    (c : List (String × Path)) :
    ∀ (l : List (String × VersionedSet)) (managers : Managed) (versions : List (String × Comparison))
      (conflicts removed : List (String × VersionedSet)),
      updateLoop u sc oldObj newObj workflow l managers versions conflicts removed ≠ .conflict c := by
  intro l
  induction l with
  | nil => intros; simp [updateLoop]
  | cons x rest ih =>
    obtain ⟨manager, ms⟩ := x
    intro managers versions conflicts removed
    simp only [updateLoop]
    split
    · exact ih _ _ _ _
    · split
      · exact ih _ _ _ _
      · split
        · exact ih _ _ _ _
        · simp
        · split
          · exact ih _ _ _ _
          · simp
          · split
            · simp
            · simp
            · exact ih _ _ _ _

/-- invariant of the recorded conflicts: managers other than the workflow, non-empty sets -/
def ConflictsOK (workflow : String) (cs : List (String × VersionedSet)) : Prop :=
  ∀ x ∈ cs, x.1 ≠ workflow ∧ x.2.set.isEmpty = false

theorem updateLoop_conflictsOK (u : Updater) (sc : Schema) (oldObj newObj : TV) (workflow : String) :
    ∀ (l : List (String × VersionedSet)) (managers : Managed) (versions : List (String × Comparison))
      (conflicts removed : List (String × VersionedSet)) (ms : Managed) (cs rs : List (String × VersionedSet)),
      updateLoop u sc oldObj newObj workflow l managers versions conflicts removed = .ok (ms, cs, rs) →
      ConflictsOK workflow conflicts → ConflictsOK workflow cs := by
  intro l
  induction l with
  | nil =>
    intro managers versions conflicts removed ms cs rs h hc
    simp only [updateLoop, Outcome.ok.injEq, Prod.mk.injEq] at h
    obtain ⟨-, rfl, -⟩ := h
    intro x hx
    exact hc x (by simpa using hx)
  | cons x rest ih =>
    obtain ⟨manager, ms⟩ := x
    intro managers versions conflicts removed ms' cs rs
    simp only [updateLoop]
    have hstep : ∀ (s : SetTrie), manager ≠ workflow → ConflictsOK workflow conflicts →
        ConflictsOK workflow (if (!s.isEmpty) = true then (manager, ⟨s, ms.version, false⟩) :: conflicts else conflicts) := by
      intro s hm hc
      split
      · rename_i hs
        intro x hx
        rcases List.mem_cons.1 hx with rfl | hx
        · exact ⟨hm, by simpa using hs⟩
        · exact hc x hx
      · exact hc
    split
    · exact ih _ _ _ _ _ _ _
    · rename_i hmw
      have hmw' : manager ≠ workflow := by simpa using hmw
      split
      · intro h hc; exact ih _ _ _ _ _ _ _ h (hstep _ hmw' hc)
      · split
        · exact ih _ _ _ _ _ _ _
        · simp
        · split
          · exact ih _ _ _ _ _ _ _
          · simp
          · split
            · simp
            · simp
            · intro h hc; exact ih _ _ _ _ _ _ _ h (hstep _ hmw' hc)

theorem conflictsOf_ne_nil {workflow : String} {cs : List (String × VersionedSet)}
    (h : ConflictsOK workflow cs) (hne : cs ≠ []) : conflictsOf cs ≠ [] := by
  cases cs with
  | nil => exact absurd rfl hne
  | cons x rest =>
    obtain ⟨m, vs⟩ := x
    have hx := (h (m, vs) (List.mem_cons_self ..)).2
    have hp : vs.set.paths ≠ [] := by
      intro hp
      rw [← SetTrie.isEmpty_iff_paths] at hp
      simp [hp] at hx
    cases hq : vs.set.paths with
    | nil => exact absurd hq hp
    | cons q qs => simp [conflictsOf, hq]

theorem conflictsOf_mem {workflow : String} {cs : List (String × VersionedSet)}
    (h : ConflictsOK workflow cs) (x : String × Path) (hx : x ∈ conflictsOf cs) : x.1 ≠ workflow := by
  simp only [conflictsOf, List.mem_flatMap, List.mem_map] at hx
  obtain ⟨y, hy, p, -, rfl⟩ := hx
  exact (h y hy).1

theorem updateCore_true_ne_conflict (u : Updater) (sc : Schema) (oldObj newObj : TV) (version : String)
    (managers : Managed) (workflow : String) (c : List (String × Path)) :
    updateCore u sc oldObj newObj version managers workflow true ≠ .conflict c := by
  unfold updateCore
  split
  · simp
  · simp
  · simp only
    split
    · simp
    · rename_i c' hc
      exact absurd hc (updateLoop_ne_conflict _ _ _ _ _ _ _ _ _ _ _)
    · simp
    · simp

theorem updateCore_false_ok (u : Updater) (sc : Schema) (oldObj newObj : TV) (version : String)
    (managers : Managed) (workflow : String) (r : Managed × Comparison) :
    updateCore u sc oldObj newObj version managers workflow false = .ok r →
      updateCore u sc oldObj newObj version managers workflow true = .ok r := by
  unfold updateCore
  split
  · simp
  · simp
  · simp only
    split
    · rename_i ms cs rs hl
      cases cs <;> simp
    · simp
    · simp
    · simp

theorem updateCore_false_conflict (u : Updater) (sc : Schema) (oldObj newObj : TV) (version : String)
    (managers : Managed) (workflow : String) (c : List (String × Path)) :
    updateCore u sc oldObj newObj version managers workflow false = .conflict c →
      c ≠ [] ∧ (∀ x ∈ c, x.1 ≠ workflow) ∧
        ∃ r, updateCore u sc oldObj newObj version managers workflow true = .ok r := by
  unfold updateCore
  split
  · simp
  · simp
  · simp only
    split
    · rename_i ms cs rs hl
      have hok : ConflictsOK workflow cs :=
        updateLoop_conflictsOK _ _ _ _ _ _ _ _ _ _ _ _ _ hl (by intro x hx; cases hx)
      cases cs with
      | nil => simp
      | cons y ys =>
        simp only [Bool.not_false, List.isEmpty_cons, Bool.and_self, ↓reduceIte, Outcome.conflict.injEq,
          Bool.not_true, Bool.false_and, Bool.false_eq_true]
        rintro rfl
        exact ⟨conflictsOf_ne_nil hok (by simp), conflictsOf_mem hok, _, rfl⟩
    · rename_i c' hc
      exact absurd hc (updateLoop_ne_conflict _ _ _ _ _ _ _ _ _ _ _)
    · simp
    · simp

theorem updateCore_true_ok (u : Updater) (sc : Schema) (oldObj newObj : TV) (version : String)
    (managers : Managed) (workflow : String) (r : Managed × Comparison) :
    updateCore u sc oldObj newObj version managers workflow true = .ok r →
      updateCore u sc oldObj newObj version managers workflow false = .ok r ∨
      ∃ c, c ≠ [] ∧ updateCore u sc oldObj newObj version managers workflow false = .conflict c := by
  unfold updateCore
  split
  · simp
  · simp
  · simp only
    split
    · rename_i ms cs rs hl
      have hok : ConflictsOK workflow cs :=
        updateLoop_conflictsOK _ _ _ _ _ _ _ _ _ _ _ _ _ hl (by intro x hx; cases hx)
      cases cs with
      | nil => simp
      | cons y ys =>
        simp only [Bool.not_false, List.isEmpty_cons, Bool.and_self, ↓reduceIte, Outcome.conflict.injEq,
          Bool.not_true, Bool.false_and, Bool.false_eq_true]
        intro _
        exact Or.inr ⟨_, conflictsOf_ne_nil hok (by simp), rfl⟩
    · simp
    · simp
    · simp

/-! ### decomposition of `apply` -/

/-- everything `apply` does before calling `updateCore`: the merged and pruned object and the
managed fields with the applier's new set recorded -/
def applyPre (u : Updater) (sc : Schema) (live config : TV) (version : String) (managers : Managed)
    (manager : String) : Outcome (TV × Managed) :=
  match reconcileManaged u sc live managers with
  | .ok managers =>
    liftRes (mergeTV sc live config) fun newObject =>
    liftRes (toFieldSet sc config) fun set =>
    let managers' := mfSet managers manager ⟨applyIgnore u version set, version, true⟩
    (match prune u sc newObject managers' manager (mfGet managers manager) with
     | .ok newObject => .ok (newObject, managers')
     | .conflict c => .conflict c
     | .err => .err
     | .panic => .panic)
  | .conflict c => .conflict c
  | .err => .err
  | .panic => .panic

/-- the last step of `apply` -/
def applyFinish (noop : Bool) (live newObject : TV) : Outcome (Managed × Comparison) → Outcome (Option TV × Managed)
  | .ok (managers, _) =>
    if !noop && Value.equals live.value newObject.value then .ok (none, managers)
    else .ok (some newObject, managers)
  | .conflict c => .conflict c
  | .err => .err
  | .panic => .panic

theorem apply_eq (u : Updater) (sc : Schema) (live config : TV) (version : String) (managers : Managed)
    (manager : String) (force : Bool) :
    apply u sc live config version managers manager force =
      match applyPre u sc live config version managers manager with
      | .ok (newObject, managers') =>
        applyFinish u.returnInputOnNoop live newObject
          (updateCore u sc live newObject version managers' manager force)
      | .conflict c => .conflict c
      | .err => .err
      | .panic => .panic := by
  unfold apply applyPre
  cases reconcileManaged u sc live managers with
  | ok ms =>
    simp only
    cases mergeTV sc live config with
    | ok newObject =>
      simp only [liftRes]
      cases toFieldSet sc config with
      | ok set =>
        simp only
        cases prune u sc newObject (mfSet ms manager ⟨applyIgnore u version set, version, true⟩) manager
          (mfGet ms manager) with
        | ok obj =>
          simp only
          cases updateCore u sc live obj version (mfSet ms manager ⟨applyIgnore u version set, version, true⟩)
            manager force with
          | ok r => rfl
          | _ => rfl
        | _ => rfl
      | _ => rfl
    | _ => rfl
  | _ => rfl

theorem applyPre_ne_conflict (u : Updater) (sc : Schema) (live config : TV) (version : String) (managers : Managed)
    (manager : String) (c : List (String × Path)) :
    applyPre u sc live config version managers manager ≠ .conflict c := by
  unfold applyPre
  split
  · apply liftRes_ne_conflict; intro a
    apply liftRes_ne_conflict; intro b
    simp only
    split
    · simp
    · rename_i c' hc
      exact absurd hc (prune_ne_conflict _ _ _ _ _ _ _)
    · simp
    · simp
  · rename_i c' hc
    exact absurd hc (reconcileManaged_ne_conflict _ _ _ _ _)
  · simp
  · simp

theorem applyFinish_ok (noop : Bool) (live obj : TV) (ms : Managed) (cmp : Comparison) :
    applyFinish noop live obj (.ok (ms, cmp)) =
      .ok (if !noop && Value.equals live.value obj.value then none else some obj, ms) := by
  simp only [applyFinish]
  split <;> rfl

theorem applyFinish_eq_ok {noop : Bool} {live obj : TV} {o : Outcome (Managed × Comparison)}
    {r : Option TV × Managed} (h : applyFinish noop live obj o = .ok r) :
    ∃ ms cmp, o = .ok (ms, cmp) ∧
      r = (if !noop && Value.equals live.value obj.value then none else some obj, ms) := by
  cases o with
  | ok a =>
    obtain ⟨ms, cmp⟩ := a
    refine ⟨ms, cmp, rfl, ?_⟩
    rw [applyFinish_ok] at h
    exact (Outcome.ok.inj h).symm
  | _ => simp [applyFinish] at h

theorem applyFinish_eq_conflict {noop : Bool} {live obj : TV} {o : Outcome (Managed × Comparison)}
    {c : List (String × Path)} : applyFinish noop live obj o = .conflict c ↔ o = .conflict c := by
  cases o with
  | ok a =>
    obtain ⟨ms, cmp⟩ := a
    simp only [applyFinish]
    split <;> simp
  | _ => simp [applyFinish]


/-! ### C04: conflicts and `force` -/

theorem apply_force_ne_conflict (u : Updater) (sc : Schema) (live cfg : TV) (ver : String) (m : Managed)
    (mgr : String) (c : List (String × Path)) :
    apply u sc live cfg ver m mgr true ≠ .conflict c := by
  rw [apply_eq]
  split
  · rw [Ne, applyFinish_eq_conflict]
    exact updateCore_true_ne_conflict _ _ _ _ _ _ _ _
  · rename_i c' hc
    exact absurd hc (applyPre_ne_conflict _ _ _ _ _ _ _ _)
  · simp
  · simp

theorem apply_unforced_ok (u : Updater) (sc : Schema) (live cfg : TV) (ver : String) (m : Managed)
    (mgr : String) (r : Option TV × Managed) :
    apply u sc live cfg ver m mgr false = .ok r → apply u sc live cfg ver m mgr true = .ok r := by
  rw [apply_eq, apply_eq]
  split
  · intro h
    obtain ⟨ms, cmp, ho, rfl⟩ := applyFinish_eq_ok h
    rw [updateCore_false_ok _ _ _ _ _ _ _ _ ho, applyFinish_ok]
  · simp
  · simp
  · simp

theorem apply_unforced_conflict (u : Updater) (sc : Schema) (live cfg : TV) (ver : String) (m : Managed)
    (mgr : String) (c : List (String × Path)) :
    apply u sc live cfg ver m mgr false = .conflict c →
      c ≠ [] ∧ (∀ x ∈ c, x.1 ≠ mgr) ∧ ∃ r, apply u sc live cfg ver m mgr true = .ok r := by
  rw [apply_eq, apply_eq]
  split
  · rw [applyFinish_eq_conflict]
    intro h
    obtain ⟨hne, hmem, ⟨ms, cmp⟩, hr⟩ := updateCore_false_conflict _ _ _ _ _ _ _ _ h
    exact ⟨hne, hmem, _, by rw [hr, applyFinish_ok]⟩
  · rename_i c' hc
    exact absurd hc (applyPre_ne_conflict _ _ _ _ _ _ _ _)
  · simp
  · simp

theorem apply_forced_ok (u : Updater) (sc : Schema) (live cfg : TV) (ver : String) (m : Managed)
    (mgr : String) (r : Option TV × Managed) :
    apply u sc live cfg ver m mgr true = .ok r →
      apply u sc live cfg ver m mgr false = .ok r ∨
      ∃ c, c ≠ [] ∧ apply u sc live cfg ver m mgr false = .conflict c := by
  rw [apply_eq, apply_eq]
  split
  · intro h
    obtain ⟨ms, cmp, ho, rfl⟩ := applyFinish_eq_ok h
    rcases updateCore_true_ok _ _ _ _ _ _ _ _ ho with h' | ⟨c, hne, h'⟩
    · left; rw [h', applyFinish_ok]
    · right; exact ⟨c, hne, by rw [h']; rfl⟩
  · simp
  · simp
  · simp

theorem update_ne_conflict (u : Updater) (sc : Schema) (live newObj : TV) (ver : String) (m : Managed)
    (mgr : String) (c : List (String × Path)) :
    update u sc live newObj ver m mgr ≠ .conflict c := by
  unfold update
  split
  · split
    · simp only
      split <;> simp
    · rename_i c' hc
      exact absurd hc (updateCore_true_ne_conflict _ _ _ _ _ _ _ _)
    · simp
    · simp
  · rename_i c' hc
    exact absurd hc (reconcileManaged_ne_conflict _ _ _ _ _)
  · simp
  · simp

/-! ### C07: the functions use only the converter and the ignore configuration of the updater -/

section congr
variable {u u' : Updater} (hc : u.converter = u'.converter) (hi : u.ignore = u'.ignore)
include hc

theorem reconcileManaged_congr : reconcileManaged u = reconcileManaged u' := by
  funext sc live m
  induction m with
  | nil => simp only [reconcileManaged]
  | cons x rest ih =>
    obtain ⟨k, vs⟩ := x
    simp only [reconcileManaged, hc, ih]

theorem addBackForVersion_congr : addBackForVersion u = addBackForVersion u' := by
  funext sc merged pruned version managed
  simp only [addBackForVersion, hc]

theorem addBackOwned_congr : addBackOwned u = addBackOwned u' := by
  funext sc merged pruned version managers
  simp only [addBackOwned, addBackForVersion_congr hc]

theorem addBackDangling_congr : addBackDangling u = addBackDangling u' := by
  funext sc merged pruned last
  simp only [addBackDangling, hc]

theorem prune_congr : prune u = prune u' := by
  funext sc merged managers mgr last
  simp only [prune, hc, addBackOwned_congr hc, addBackDangling_congr hc]

include hi

omit hc in
theorem applyIgnore_congr : applyIgnore u = applyIgnore u' := by
  funext v s
  simp only [applyIgnore, hi]

theorem updateLoop_congr : updateLoop u = updateLoop u' := by
  funext sc oldObj newObj workflow l
  induction l with
  | nil => funext managers versions conflicts removed; simp only [updateLoop]
  | cons x rest ih =>
    obtain ⟨manager, ms⟩ := x
    funext managers versions conflicts removed
    simp only [updateLoop, hc, hi, ih]

theorem updateCore_congr : updateCore u = updateCore u' := by
  funext sc oldObj newObj version managers workflow force
  simp only [updateCore, hi, updateLoop_congr hc hi]

theorem applyPre_congr : applyPre u = applyPre u' := by
  funext sc live config version managers manager
  simp only [applyPre, reconcileManaged_congr hc, prune_congr hc, applyIgnore_congr hi]

/-- `apply` of an updater `u'` with the same converter and ignore configuration as `u`, in terms of
the pieces computed with `u` -/
theorem apply_eq_of_same (sc : Schema) (live config : TV) (version : String) (managers : Managed)
    (manager : String) (force : Bool) :
    apply u' sc live config version managers manager force =
      match applyPre u sc live config version managers manager with
      | .ok (newObject, managers') =>
        applyFinish u'.returnInputOnNoop live newObject
          (updateCore u sc live newObject version managers' manager force)
      | .conflict c => .conflict c
      | .err => .err
      | .panic => .panic := by
  rw [apply_eq, applyPre_congr hc hi, updateCore_congr hc hi]

omit hc hi in
theorem apply_noop_isSome (hn : u'.returnInputOnNoop = true) (sc : Schema) (live cfg : TV) (ver : String)
    (m : Managed) (mgr : String) (force : Bool) (o : Option TV) (mf : Managed) :
    apply u' sc live cfg ver m mgr force = .ok (o, mf) → o.isSome = true := by
  rw [apply_eq]
  split
  · intro h
    obtain ⟨ms, cmp, -, hr⟩ := applyFinish_eq_ok h
    simp only [hn, Bool.not_true, Bool.false_and, Bool.false_eq_true, ↓reduceIte, Prod.mk.injEq] at hr
    simp [hr.1]
  · simp
  · simp
  · simp

theorem apply_noop_signal (hn : u'.returnInputOnNoop = true) (h : u.returnInputOnNoop = false)
    (sc : Schema) (live cfg : TV) (ver : String) (m : Managed) (mgr : String) (force : Bool)
    (res : TV) (mf : Managed) :
    apply u' sc live cfg ver m mgr force = .ok (some res, mf) →
      apply u sc live cfg ver m mgr force =
        .ok (if Value.equals live.value res.value then none else some res, mf) := by
  rw [apply_eq_of_same hc hi, apply_eq]
  split
  · intro h'
    obtain ⟨ms, cmp, ho, hr⟩ := applyFinish_eq_ok h'
    simp only [hn, Bool.not_true, Bool.false_and, Bool.false_eq_true, ↓reduceIte, Prod.mk.injEq,
      Option.some.injEq] at hr
    obtain ⟨rfl, rfl⟩ := hr
    rw [ho, applyFinish_ok, h]
    simp
  · simp
  · simp
  · simp

theorem apply_noop_signal_conv (hn : u'.returnInputOnNoop = true) (h : u.returnInputOnNoop = false)
    (sc : Schema) (live cfg : TV) (ver : String) (m : Managed) (mgr : String) (force : Bool)
    (o : Option TV) (mf : Managed) :
    apply u sc live cfg ver m mgr force = .ok (o, mf) →
      ∃ res, apply u' sc live cfg ver m mgr force = .ok (some res, mf) ∧
        o = (if Value.equals live.value res.value then none else some res) := by
  rw [apply_eq_of_same hc hi, apply_eq]
  split
  · rename_i obj ms' _
    intro h'
    obtain ⟨ms, cmp, ho, hr⟩ := applyFinish_eq_ok h'
    simp only [h, Bool.not_false, Bool.true_and, Prod.mk.injEq] at hr
    obtain ⟨rfl, rfl⟩ := hr
    refine ⟨obj, ?_, rfl⟩
    rw [ho, applyFinish_ok, hn]
    simp
  · simp
  · simp
  · simp

theorem apply_conflict_iff_of_same (sc : Schema) (live cfg : TV) (ver : String) (m : Managed) (mgr : String)
    (force : Bool) (c : List (String × Path)) :
    apply u sc live cfg ver m mgr force = .conflict c ↔
      apply u' sc live cfg ver m mgr force = .conflict c := by
  rw [apply_eq_of_same hc hi, apply_eq]
  split
  · rw [applyFinish_eq_conflict, applyFinish_eq_conflict]
  · exact Iff.rfl
  · exact Iff.rfl
  · exact Iff.rfl

end congr

/-! ### C08: failing conversions surface -/

theorem reconcileManaged_fails (u : Updater) (sc : Schema) (live : TV) (k : String) (vs : VersionedSet)
    (hf : ∀ tv, u.converter.convert tv vs.version = .fail) :
    ∀ m : Managed, (k, vs) ∈ m →
      reconcileManaged u sc live m = .err ∨ reconcileManaged u sc live m = .panic := by
  intro m
  induction m with
  | nil => intro h; cases h
  | cons x rest ih =>
    obtain ⟨k', vs'⟩ := x
    intro hmem
    rcases List.mem_cons.1 hmem with heq | hmem
    · cases heq
      simp [reconcileManaged, hf]
    · have ih := ih hmem
      unfold reconcileManaged
      split
      · exact ih
      · simp
      · split
        · simp
        · simp
        · rcases ih with ih | ih <;> simp [ih]

theorem apply_of_reconcile_err_or_panic {u : Updater} {sc : Schema} {live : TV} {m : Managed}
    (h : reconcileManaged u sc live m = .err ∨ reconcileManaged u sc live m = .panic)
    (cfg : TV) (ver mgr : String) (force : Bool) :
    apply u sc live cfg ver m mgr force = .err ∨ apply u sc live cfg ver m mgr force = .panic := by
  unfold apply
  rcases h with h | h <;> simp [h]

theorem update_of_reconcile_err_or_panic {u : Updater} {sc : Schema} {live : TV} {m : Managed}
    (h : reconcileManaged u sc live m = .err ∨ reconcileManaged u sc live m = .panic)
    (newObj : TV) (ver mgr : String) :
    update u sc live newObj ver m mgr = .err ∨ update u sc live newObj ver m mgr = .panic := by
  unfold update
  rcases h with h | h <;> simp [h]

theorem prune_fails (u : Updater) (sc : Schema) (merged : TV) (m : Managed) (mgr : String)
    (last : VersionedSet) (hne : last.set.isEmpty = false)
    (hf : ∀ tv, u.converter.convert tv last.version = .fail) :
    prune u sc merged m mgr (some last) = .err := by
  simp [prune, hne, hf]

/-! ### C20: records at missing versions are transparent -/

theorem reconcileManaged_versions (u : Updater) (sc : Schema) (live : TV) (v : String)
    (hm : ∀ tv, u.converter.convert tv v = .missing) :
    ∀ m m' : Managed, reconcileManaged u sc live m = .ok m' → ∀ x, x ∈ m' → x.2.version ≠ v := by
  intro m
  induction m with
  | nil =>
    intro m' h x hx
    simp only [reconcileManaged, Outcome.ok.injEq] at h
    subst h; cases hx
  | cons y rest ih =>
    obtain ⟨k, vs⟩ := y
    intro m'
    unfold reconcileManaged
    split
    · exact ih m'
    · simp
    · rename_i tv hconv
      have hv : vs.version ≠ v := by
        intro hv
        rw [hv, hm] at hconv
        cases hconv
      split
      · simp
      · simp
      · split
        · rename_i tail htail
          simp only [Outcome.ok.injEq]
          rintro rfl x hx
          rcases List.mem_cons.1 hx with rfl | hx
          · simp only
            split <;> exact hv
          · exact ih tail htail x hx
        · rename_i e hne
          intro h
          exact absurd h (hne _)

theorem reconcileManaged_filter_missing (u : Updater) (sc : Schema) (live : TV) (v : String)
    (hm : ∀ tv, u.converter.convert tv v = .missing) :
    ∀ m : Managed, reconcileManaged u sc live m =
      reconcileManaged u sc live (m.filter (fun x => x.2.version != v)) := by
  intro m
  induction m with
  | nil => rfl
  | cons y rest ih =>
    obtain ⟨k, vs⟩ := y
    by_cases hv : vs.version = v
    · have : ((k, vs) :: rest).filter (fun x => x.2.version != v) = rest.filter (fun x => x.2.version != v) := by
        simp [hv]
      rw [this, ← ih]
      simp [reconcileManaged, hv, hm]
    · have : ((k, vs) :: rest).filter (fun x => x.2.version != v) =
          (k, vs) :: rest.filter (fun x => x.2.version != v) := by
        simp [hv]
      rw [this]
      simp only [reconcileManaged, ih]

theorem apply_congr_reconcile {u : Updater} {sc : Schema} {live : TV} {m m₂ : Managed}
    (h : reconcileManaged u sc live m = reconcileManaged u sc live m₂)
    (cfg : TV) (ver mgr : String) (force : Bool) :
    apply u sc live cfg ver m mgr force = apply u sc live cfg ver m₂ mgr force := by
  unfold apply
  rw [h]

theorem update_congr_reconcile {u : Updater} {sc : Schema} {live : TV} {m m₂ : Managed}
    (h : reconcileManaged u sc live m = reconcileManaged u sc live m₂)
    (newObj : TV) (ver mgr : String) :
    update u sc live newObj ver m mgr = update u sc live newObj ver m₂ mgr := by
  unfold update
  rw [h]

end SMD

