import SMD.Model.Updater
import SMD.Proofs.SetAlgebra
namespace SMD
end SMD
