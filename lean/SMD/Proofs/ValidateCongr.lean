/-
Validation cannot tell two `TypeRef.equals` type references apart.
-/
import SMD.Proofs.SchemaCongr
import SMD.Proofs.ValidateExact
import SMD.Proofs.SortedList
set_option linter.unusedSimpArgs false
set_option linter.unusedVariables false
namespace SMD
namespace CmpX

theorem TypeRef.isZero_congr {e e' : TypeRef} (h : TypeRef.equals e e' = true) : e.isZero = e'.isZero := by
  obtain ⟨n, a, r⟩ := e
  obtain ⟨n', a', r'⟩ := e'
  simp only [TypeRef.equals, Bool.and_eq_true, beq_iff_eq] at h
  obtain ⟨⟨rfl, rfl⟩, ha⟩ := h
  obtain ⟨sc, li, mp⟩ := a
  obtain ⟨sc', li', mp'⟩ := a'
  rw [Atom.equals_mk] at ha
  simp only [Bool.and_eq_true, beq_iff_eq] at ha
  obtain ⟨⟨rfl, hl⟩, hm⟩ := ha
  cases n <;> cases r <;> cases sc <;> cases li <;> cases li' <;> cases mp <;> cases mp' <;>
    simp_all [TypeRef.isZero, eqOpt]

theorem atomNonEmpty_congr {a a' : Atom} (h : Atom.equals a a' = true) :
    Conf.atomNonEmpty a = Conf.atomNonEmpty a' := by
  obtain ⟨h1, h2, h3⟩ := Atom.equals_inv h
  unfold Conf.atomNonEmpty
  rw [h1]
  cases hl : a.list <;> cases hl' : a'.list <;> simp only [hl, hl', OptRel] at h2 <;>
    cases hm : a.map <;> cases hm' : a'.map <;> simp only [hm, hm', OptRel] at h3 <;> simp

mutual
theorem validateV_congr (s : Schema) (d : Bool) : ∀ (v : Value) (tr tr' : TypeRef),
    TypeRef.equals tr tr' = true → validateV s d tr v = validateV s d tr' v
  | .null, tr, tr', h => by
    have hr := (resolve_congr s h).2
    rw [validateV_null, validateV_null]
    cases h1 : s.resolve tr <;> cases h2 : s.resolve tr' <;> simp only [h1, h2, OptRel] at hr ⊢
    rw [atomNonEmpty_congr hr]
  | .bool b, tr, tr', h => by
    have hr := (resolve_congr s h).2
    rw [validateV_scalar s d tr _ rfl, validateV_scalar s d tr' _ rfl]
    cases h1 : s.resolve tr <;> cases h2 : s.resolve tr' <;> simp only [h1, h2, OptRel] at hr ⊢
    rw [(Atom.equals_inv hr).1]
  | .int b, tr, tr', h => by
    have hr := (resolve_congr s h).2
    rw [validateV_scalar s d tr _ rfl, validateV_scalar s d tr' _ rfl]
    cases h1 : s.resolve tr <;> cases h2 : s.resolve tr' <;> simp only [h1, h2, OptRel] at hr ⊢
    rw [(Atom.equals_inv hr).1]
  | .float b z, tr, tr', h => by
    have hr := (resolve_congr s h).2
    rw [validateV_scalar s d tr _ rfl, validateV_scalar s d tr' _ rfl]
    cases h1 : s.resolve tr <;> cases h2 : s.resolve tr' <;> simp only [h1, h2, OptRel] at hr ⊢
    rw [(Atom.equals_inv hr).1]
  | .str b, tr, tr', h => by
    have hr := (resolve_congr s h).2
    rw [validateV_scalar s d tr _ rfl, validateV_scalar s d tr' _ rfl]
    cases h1 : s.resolve tr <;> cases h2 : s.resolve tr' <;> simp only [h1, h2, OptRel] at hr ⊢
    rw [(Atom.equals_inv hr).1]
  | .list l, tr, tr', h => by
    have hr := (resolve_congr s h).2
    rw [validateV_list, validateV_list]
    cases h1 : s.resolve tr <;> cases h2 : s.resolve tr' <;> simp only [h1, h2, OptRel] at hr ⊢
    next a a' =>
    have hl := (Atom.equals_inv hr).2.1
    cases h3 : a.list <;> cases h4 : a'.list <;> simp only [h3, h4, OptRel] at hl ⊢
    exact validateItems_congr s d l _ _ [] [] 0 hl (fun _ => rfl)
  | .map m, tr, tr', h => by
    have hr := (resolve_congr s h).2
    rw [validateV_map, validateV_map]
    cases h1 : s.resolve tr <;> cases h2 : s.resolve tr' <;> simp only [h1, h2, OptRel] at hr ⊢
    next a a' =>
    have hl := (Atom.equals_inv hr).2.2
    cases h3 : a.map <;> cases h4 : a'.map <;> simp only [h3, h4, OptRel] at hl ⊢
    exact validateFields_congr s d m _ _ hl
theorem validateItems_congr (s : Schema) (d : Bool) : ∀ (l : List Value) (t t' : ListT) (seen seen' : List PE) (i : Nat),
    ListT.equals t t' = true → (∀ q, peHas q seen = peHas q seen') →
    validateItems s d t seen i l = validateItems s d t' seen' i l
  | [], _, _, _, _, _, _, _ => by simp [validateItems]
  | child :: rest, t, t', seen, seen', i, h, hs => by
    obtain ⟨he, hrel, _⟩ := ListT.equals_inv h
    rw [validateItems, validateItems, ← hrel, ← validateV_congr s d child _ _ he]
    split
    · cases validateV s d t.elementType child with
      | ok u => exact validateItems_congr s d rest t t' seen seen' (i + 1) h hs
      | err => rfl
      | panic => rfl
    · have hp := listItemToPE_congr s h child
      cases h1 : listItemToPE s t child <;> cases h2 : listItemToPE s t' child <;>
        simp only [h1, h2, ResRel] at hp ⊢
      next pe pe' =>
      rw [← hs pe', ← peHas_congr hp seen]
      split
      · rfl
      · cases validateV s d t.elementType child with
        | ok u =>
          apply validateItems_congr s d rest t t' _ _ (i + 1) h
          intro q
          rw [peHas_peInsert, peHas_peInsert, PE.equals_congr_left hp q, hs q]
        | err => rfl
        | panic => rfl
theorem validateFields_congr (s : Schema) (d : Bool) : ∀ (m : List (String × Value)) (t t' : MapT),
    MapT.equals t t' = true → validateFields s d t m = validateFields s d t' m
  | [], _, _, _ => by simp [validateFields]
  | (k, v) :: rest, t, t', h => by
    have hf := MapT.findField_congr h k
    have ih := validateFields_congr s d rest t t' h
    rw [validateFields, validateFields]
    cases h1 : t.findField k <;> cases h2 : t'.findField k <;> simp only [h1, h2, OptRel] at hf ⊢
    · rw [TypeRef.isZero_congr (MapT.equals_inv h).1, ← validateV_congr s d v _ _ (MapT.equals_inv h).1, ih]
    · rw [← validateV_congr s d v _ _ (StructField.equals_inv hf).2.2, ih]
end

end CmpX
end SMD
