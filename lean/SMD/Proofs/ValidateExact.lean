import SMD.Model.Typed
import SMD.Spec.Conforms
import SMD.Proofs.Containers
set_option linter.unusedSimpArgs false
namespace SMD

/-! ### the helpers never panic -/

theorem keyDefault_ne_panic (s : Schema) (t : ListT) (k : String) : keyDefault s t k ≠ .panic := by
  unfold keyDefault
  split
  · simp
  · split <;> simp

theorem keyFieldsOf_ne_panic (s : Schema) (t : ListT) (m : List (String × Value)) :
    ∀ ks : List String, keyFieldsOf s t m ks ≠ .panic
  | [] => by simp [keyFieldsOf]
  | k :: ks => by
    have ih := keyFieldsOf_ne_panic s t m ks
    have hd := keyDefault_ne_panic s t k
    unfold keyFieldsOf
    cases hr : keyFieldsOf s t m ks <;> cases hl : lookupField k m <;>
      cases hk : keyDefault s t k <;> simp_all [bind, Res.bind, pure]
    all_goals (rename_i o; cases o <;> simp)

theorem listItemToPE_ne_panic (s : Schema) (t : ListT) (v : Value) : listItemToPE s t v ≠ .panic := by
  unfold listItemToPE
  split
  · simp
  · split
    · split
      · rename_i m
        have := keyFieldsOf_ne_panic s t m t.keys
        cases hr : keyFieldsOf s t m t.keys <;> simp_all [bind, Res.bind, pure]
      · simp
    · split <;> simp

/-! ### `listItemToPE` against `Conf.identity` -/

/-- the entry of key `k` in the identity of a keyed item (the lambda of `Conf.identity`) -/
def keyVal (s : Schema) (t : ListT) (m : List (String × Value)) (k : String) : Option (String × Value) :=
  match lookupField k m with
  | some v => some (k, v)
  | none => if Conf.keyedElemIsMap s t then (Conf.keyFieldDefault s t k).map fun d => (k, d) else none

theorem keyVal_none_iff (s : Schema) (t : ListT) (m : List (String × Value)) (k : String) :
    keyVal s t m k = none ↔
      lookupField k m = none ∧ (keyDefault s t k = .err ∨ keyDefault s t k = .ok none) := by
  unfold keyVal keyDefault Conf.keyedElemIsMap Conf.keyFieldDefault
  cases lookupField k m <;> cases s.resolve t.elementType <;> simp
  rename_i a
  cases a.map <;> simp

theorem keyVal_some_iff (s : Schema) (t : ListT) (m : List (String × Value)) (k : String) (e : String × Value) :
    keyVal s t m k = some e ↔
      (∃ v, lookupField k m = some v ∧ (k, v) = e) ∨
      (lookupField k m = none ∧ ∃ d, keyDefault s t k = .ok (some d) ∧ (k, d) = e) := by
  unfold keyVal keyDefault Conf.keyedElemIsMap Conf.keyFieldDefault
  cases lookupField k m <;> cases s.resolve t.elementType <;> simp
  rename_i a
  cases a.map <;> simp

theorem keyFieldsOf_eq (s : Schema) (t : ListT) (m : List (String × Value)) :
    ∀ ks : List String, keyFieldsOf s t m ks =
      if (ks.map (keyVal s t m)).all Option.isSome then .ok ((ks.map (keyVal s t m)).filterMap id) else .err
  | [] => by simp [keyFieldsOf]
  | k :: ks => by
    have ih := keyFieldsOf_eq s t m ks
    have hd := keyDefault_ne_panic s t k
    have h1 := keyVal_none_iff s t m k
    have h2 := keyVal_some_iff s t m k
    unfold keyFieldsOf
    rw [ih]
    cases hv : keyVal s t m k with
    | none =>
      obtain ⟨hl, hk⟩ := h1.1 hv
      rcases hk with hk | hk <;> simp [hl, hk, hv]
    | some e =>
      rcases (h2 e).1 hv with ⟨v, hl, he⟩ | ⟨hl, d, hk, he⟩
      · subst he
        by_cases hc : (ks.map (keyVal s t m)).all Option.isSome = true <;>
          simp [hl, hv, hc, bind, Res.bind, pure]
      · subst he
        by_cases hc : (ks.map (keyVal s t m)).all Option.isSome = true <;>
          simp [hl, hk, hv, hc, bind, Res.bind, pure]

theorem identity_keyed (s : Schema) (t : ListT) (m : List (String × Value)) (h : t.keys.isEmpty = false) :
    Conf.identity s t (.map m) =
      if (t.keys.map (keyVal s t m)).all Option.isSome
      then some (.key (FieldList.sort ((t.keys.map (keyVal s t m)).filterMap id))) else none := by
  simp only [Conf.identity, h]
  rfl

theorem listItemToPE_eq (s : Schema) (t : ListT) (v : Value) (h : t.rel = "associative") :
    listItemToPE s t v = match Conf.identity s t v with | some pe => .ok pe | none => .err := by
  cases hk : t.keys.isEmpty
  · cases v
    case map m =>
      rw [identity_keyed s t m hk]
      simp only [listItemToPE, h, hk, keyFieldsOf_eq, bne_self_eq_false, Bool.false_eq_true, if_false, Bool.not_false, if_true]
      by_cases hc : (t.keys.map (keyVal s t m)).all Option.isSome = true <;>
        simp [hc, bind, Res.bind, pure]
    all_goals simp [listItemToPE, h, hk, Conf.identity]
  · cases v <;> simp [listItemToPE, h, hk, Conf.identity, Value.isScalar]

/-! ### `validateScalar` against `Conf.kindOk`, and the dispatch of `validateV` -/

theorem validateScalar_eq (t : String) (v : Value) (h : v.isNull = false) :
    validateScalar t (some v) = Conf.kindOk t v := by
  by_cases h1 : t = "numeric"
  · subst h1; simp [validateScalar, Conf.kindOk, h]
  by_cases h2 : t = "string"
  · subst h2; simp [validateScalar, Conf.kindOk, h]
  by_cases h3 : t = "boolean"
  · subst h3; simp [validateScalar, Conf.kindOk, h]
  by_cases h4 : t = "untyped"
  · subst h4; simp [validateScalar, Conf.kindOk, h]
  simp [validateScalar, Conf.kindOk, h, h1, h2, h3, h4]

theorem validateV_list (s : Schema) (dup : Bool) (tr : TypeRef) (l : List Value) :
    validateV s dup tr (.list l) =
      match s.resolve tr with
      | some a => (match a.list with | some lt => validateItems s dup lt [] 0 l | none => .err)
      | none => .err := by
  simp only [validateV, resolveKind]
  cases s.resolve tr with
  | none => simp
  | some a =>
    obtain ⟨sc, li, mp⟩ := a
    cases sc <;> cases li <;> cases mp <;>
      simp [deduceAtom, atomKind, Value.isScalar, Value.isList, Value.isMap, Value.isNull, validateScalar,
        Value.isNumeric, Value.isString, Value.isBool, Atom.list, Atom.map, Atom.scalar]

theorem validateV_map (s : Schema) (dup : Bool) (tr : TypeRef) (m : List (String × Value)) :
    validateV s dup tr (.map m) =
      match s.resolve tr with
      | some a => (match a.map with | some mt => validateFields s dup mt m | none => .err)
      | none => .err := by
  simp only [validateV, resolveKind]
  cases s.resolve tr with
  | none => simp
  | some a =>
    obtain ⟨sc, li, mp⟩ := a
    cases sc <;> cases li <;> cases mp <;>
      simp [deduceAtom, atomKind, Value.isScalar, Value.isList, Value.isMap, Value.isNull, validateScalar,
        Value.isNumeric, Value.isString, Value.isBool, Atom.list, Atom.map, Atom.scalar]

theorem validateV_null (s : Schema) (dup : Bool) (tr : TypeRef) :
    validateV s dup tr .null =
      match s.resolve tr with
      | some a => if Conf.atomNonEmpty a then .ok () else .err
      | none => .err := by
  simp only [validateV, resolveKind]
  cases s.resolve tr with
  | none => simp
  | some a =>
    obtain ⟨sc, li, mp⟩ := a
    cases sc <;> cases li <;> cases mp <;>
      simp [deduceAtom, atomKind, Value.isScalar, Value.isList, Value.isMap, Value.isNull, validateScalar,
        Conf.atomNonEmpty, Atom.list, Atom.map, Atom.scalar]

theorem validateV_scalar (s : Schema) (dup : Bool) (tr : TypeRef) (v : Value) (h : v.isScalar = true) :
    validateV s dup tr v =
      match s.resolve tr with
      | some a => (match a.scalar with | some t => if Conf.kindOk t v then .ok () else .err | none => .err)
      | none => .err := by
  have hs : ∀ t, validateScalar t (some v) = Conf.kindOk t v := fun t =>
    validateScalar_eq t v (by cases v <;> simp_all [Value.isScalar, Value.isNull])
  cases v <;> simp [Value.isScalar] at h <;>
  · simp only [validateV, resolveKind]
    cases s.resolve tr with
    | none => simp
    | some a =>
      obtain ⟨sc, li, mp⟩ := a
      cases sc <;> cases li <;> cases mp <;>
        simp [deduceAtom, atomKind, Value.isScalar, Value.isList, Value.isMap, Value.isNull, hs,
          Atom.list, Atom.map, Atom.scalar]

theorem conforms_scalar (s : Schema) (dup : Bool) (tr : TypeRef) (v : Value) (h : v.isScalar = true) :
    Conf.conforms s dup tr v =
      match s.resolve tr with
      | some a => (match a.scalar with | some t => Conf.kindOk t v | none => false)
      | none => false := by
  cases v <;> simp [Value.isScalar] at h <;> simp only [Conf.conforms] <;>
    (cases s.resolve tr <;> rfl)

/-! ### the validating walker against the reference validator -/

/-- what the item loop accepts, given the identities `seen` so far -/
def itemsSpec (s : Schema) (dup : Bool) (t : ListT) (seen : List PE) (l : List Value) : Prop :=
  if t.rel = "associative" then
    (l.map (Conf.identity s t)).all Option.isSome = true ∧
    (dup = true ∨ (Conf.distinct ((l.map (Conf.identity s t)).filterMap id) = true ∧
      ∀ y ∈ (l.map (Conf.identity s t)).filterMap id, peHas y seen = false)) ∧
    Conf.conformsAll s dup t.elementType l = true
  else Conf.conformsAll s dup t.elementType l = true

mutual
theorem validateV_iff (s : Schema) (dup : Bool) : ∀ (v : Value) (tr : TypeRef),
    validateV s dup tr v = .ok () ↔ Conf.conforms s dup tr v = true
  | .null, tr => by
    rw [validateV_null]; simp only [Conf.conforms]
    cases s.resolve tr <;> simp
  | .bool b, tr => by
    rw [validateV_scalar _ _ _ _ rfl, conforms_scalar _ _ _ _ rfl]
    cases s.resolve tr <;> simp
    rename_i a; cases a.scalar <;> simp
  | .int b, tr => by
    rw [validateV_scalar _ _ _ _ rfl, conforms_scalar _ _ _ _ rfl]
    cases s.resolve tr <;> simp
    rename_i a; cases a.scalar <;> simp
  | .float b z, tr => by
    rw [validateV_scalar _ _ _ _ rfl, conforms_scalar _ _ _ _ rfl]
    cases s.resolve tr <;> simp
    rename_i a; cases a.scalar <;> simp
  | .str b, tr => by
    rw [validateV_scalar _ _ _ _ rfl, conforms_scalar _ _ _ _ rfl]
    cases s.resolve tr <;> simp
    rename_i a; cases a.scalar <;> simp
  | .list l, tr => by
    rw [validateV_list]; simp only [Conf.conforms]
    cases s.resolve tr <;> simp
    rename_i a; cases a.list <;> simp
    rename_i lt
    rw [validateItems_iff s dup l lt [] 0]
    unfold itemsSpec
    by_cases h : lt.rel = "associative" <;> simp [h, peHas, and_assoc]
  | .map m, tr => by
    rw [validateV_map]; simp only [Conf.conforms]
    cases s.resolve tr <;> simp
    rename_i a; cases a.map <;> simp
    rename_i mt
    exact validateFields_iff s dup m mt
theorem validateItems_iff (s : Schema) (dup : Bool) : ∀ (l : List Value) (t : ListT) (seen : List PE) (i : Nat),
    validateItems s dup t seen i l = .ok () ↔ itemsSpec s dup t seen l
  | [], t, seen, i => by simp [validateItems, itemsSpec, Conf.conformsAll, Conf.distinct]
  | child :: rest, t, seen, i => by
    have ihv := validateV_iff s dup child t.elementType
    unfold validateItems itemsSpec
    by_cases h : t.rel = "associative"
    · have ihr := validateItems_iff s dup rest t
      simp only [h, bne_self_eq_false, Bool.false_eq_true, if_false, if_true]
      rw [listItemToPE_eq s t child h]
      cases hid : Conf.identity s t child with
      | none => simp [hid]
      | some pe =>
        have ihr' := ihr (peInsert pe seen) (i + 1)
        simp only [itemsSpec, h, if_true, peHas_peInsert, Bool.or_eq_false_iff] at ihr'
        simp only [List.map_cons, hid, List.all_cons, Option.isSome_some, Bool.true_and,
          List.filterMap_cons, id, Conf.distinct, Conf.conformsAll, Bool.and_eq_true, List.mem_cons,
          forall_eq_or_imp]
        cases hv : validateV s dup t.elementType child with
        | ok u =>
          have hc : Conf.conforms s dup t.elementType child = true := ihv.1 hv
          cases dup <;> cases hp : peHas pe seen <;> simp [hc, ihr', hp]
          intro _ _
          constructor
          · rintro ⟨hd, hall⟩
            refine ⟨⟨fun x hx => ?_, hd⟩, fun a x hx he => (hall a x hx he).2⟩
            cases he : Conf.identity s t x with
            | none => rfl
            | some y => exact (hall y x hx he).1
          · rintro ⟨⟨h1, hd⟩, h2⟩
            refine ⟨hd, fun y x hx he => ⟨?_, h2 y x hx he⟩⟩
            have := h1 x hx
            simpa [he] using this
        | err =>
          have hc : ¬ Conf.conforms s dup t.elementType child = true := fun hc => by simp [ihv.2 hc] at hv
          cases dup <;> cases hp : peHas pe seen <;> simp [hc, hp]
        | panic =>
          have hc : ¬ Conf.conforms s dup t.elementType child = true := fun hc => by simp [ihv.2 hc] at hv
          cases dup <;> cases hp : peHas pe seen <;> simp [hc, hp]
    · have ihr := validateItems_iff s dup rest t seen (i + 1)
      simp only [itemsSpec, h, if_false] at ihr
      simp only [h, bne_iff_ne, ne_eq, not_false_eq_true, if_true, if_false, Conf.conformsAll, Bool.and_eq_true]
      cases hv : validateV s dup t.elementType child with
      | ok u => simp [← ihv, hv, ihr]
      | err => simp [← ihv, hv]
      | panic => simp [← ihv, hv]
theorem validateFields_iff (s : Schema) (dup : Bool) : ∀ (m : List (String × Value)) (t : MapT),
    validateFields s dup t m = .ok () ↔ Conf.conformsFields s dup t m = true
  | [], t => by simp [validateFields, Conf.conformsFields]
  | (k, v) :: rest, t => by
    have ihr := validateFields_iff s dup rest t
    unfold validateFields Conf.conformsFields
    cases hf : t.findField k with
    | some sf =>
      have ihv := validateV_iff s dup v sf.type
      simp only [Bool.and_eq_true]
      cases hv : validateV s dup sf.type v with
      | ok u => simp [← ihv, hv, ihr]
      | err => simp [← ihv, hv]
      | panic => simp [← ihv, hv]
    | none =>
      have ihv := validateV_iff s dup v t.elementType
      simp only [Bool.and_eq_true]
      cases hz : t.elementType.isZero
      · cases hv : validateV s dup t.elementType v with
        | ok u => simp [← ihv, hv, ihr]
        | err => simp [← ihv, hv]
        | panic => simp [← ihv, hv]
      · simp
end

/-! ### the validating walker never panics -/

mutual
theorem validateV_ne_panic (s : Schema) (dup : Bool) : ∀ (v : Value) (tr : TypeRef),
    validateV s dup tr v ≠ .panic
  | .null, tr => by
    rw [validateV_null]; cases s.resolve tr <;> simp
    split <;> simp
  | .bool b, tr => by
    rw [validateV_scalar _ _ _ _ rfl]; cases s.resolve tr <;> simp
    rename_i a; cases a.scalar <;> simp
    split <;> simp
  | .int b, tr => by
    rw [validateV_scalar _ _ _ _ rfl]; cases s.resolve tr <;> simp
    rename_i a; cases a.scalar <;> simp
    split <;> simp
  | .float b z, tr => by
    rw [validateV_scalar _ _ _ _ rfl]; cases s.resolve tr <;> simp
    rename_i a; cases a.scalar <;> simp
    split <;> simp
  | .str b, tr => by
    rw [validateV_scalar _ _ _ _ rfl]; cases s.resolve tr <;> simp
    rename_i a; cases a.scalar <;> simp
    split <;> simp
  | .list l, tr => by
    rw [validateV_list]; cases s.resolve tr <;> simp
    rename_i a; cases a.list <;> simp
    exact validateItems_ne_panic s dup l _ _ _
  | .map m, tr => by
    rw [validateV_map]; cases s.resolve tr <;> simp
    rename_i a; cases a.map <;> simp
    exact validateFields_ne_panic s dup m _
theorem validateItems_ne_panic (s : Schema) (dup : Bool) : ∀ (l : List Value) (t : ListT) (seen : List PE) (i : Nat),
    validateItems s dup t seen i l ≠ .panic
  | [], t, seen, i => by simp [validateItems]
  | child :: rest, t, seen, i => by
    have ihv := validateV_ne_panic s dup child t.elementType
    have ihr := validateItems_ne_panic s dup rest t
    have hp := listItemToPE_ne_panic s t child
    unfold validateItems
    split
    · cases hv : validateV s dup t.elementType child <;> simp_all
    · cases hl : listItemToPE s t child <;> simp_all
      split
      · simp
      · cases hv : validateV s dup t.elementType child <;> simp_all
theorem validateFields_ne_panic (s : Schema) (dup : Bool) : ∀ (m : List (String × Value)) (t : MapT),
    validateFields s dup t m ≠ .panic
  | [], t => by simp [validateFields]
  | (k, v) :: rest, t => by
    have ihr := validateFields_ne_panic s dup rest t
    unfold validateFields
    cases hf : t.findField k with
    | some sf =>
      have ihv := validateV_ne_panic s dup v sf.type
      cases hv : validateV s dup sf.type v <;> simp_all
    | none =>
      have ihv := validateV_ne_panic s dup v t.elementType
      cases hz : t.elementType.isZero
      · cases hv : validateV s dup t.elementType v <;> simp_all
      · simp
end

/-! ### allowing duplicates accepts more -/

mutual
theorem conforms_dup_mono (s : Schema) : ∀ (v : Value) (tr : TypeRef),
    Conf.conforms s false tr v = true → Conf.conforms s true tr v = true
  | .null, tr => by simp [Conf.conforms]
  | .bool b, tr => by rw [conforms_scalar _ _ _ _ rfl, conforms_scalar _ _ _ _ rfl]; exact id
  | .int b, tr => by rw [conforms_scalar _ _ _ _ rfl, conforms_scalar _ _ _ _ rfl]; exact id
  | .float b z, tr => by rw [conforms_scalar _ _ _ _ rfl, conforms_scalar _ _ _ _ rfl]; exact id
  | .str b, tr => by rw [conforms_scalar _ _ _ _ rfl, conforms_scalar _ _ _ _ rfl]; exact id
  | .list l, tr => by
    simp only [Conf.conforms]
    cases s.resolve tr <;> simp
    rename_i a; cases a.list <;> simp
    rename_i lt
    have ih := conformsAll_dup_mono s l lt.elementType
    by_cases h : lt.rel = "associative"
    · simp only [h, if_true]
      exact fun ⟨⟨h1, _⟩, h3⟩ => ⟨h1, ih h3⟩
    · simp only [h, if_false]
      exact ih
  | .map m, tr => by
    simp only [Conf.conforms]
    cases s.resolve tr <;> simp
    rename_i a; cases a.map <;> simp
    exact conformsFields_dup_mono s m _
theorem conformsAll_dup_mono (s : Schema) : ∀ (l : List Value) (tr : TypeRef),
    Conf.conformsAll s false tr l = true → Conf.conformsAll s true tr l = true
  | [], tr => by simp [Conf.conformsAll]
  | v :: vs, tr => by
    simp only [Conf.conformsAll, Bool.and_eq_true]
    exact fun ⟨h1, h2⟩ => ⟨conforms_dup_mono s v tr h1, conformsAll_dup_mono s vs tr h2⟩
theorem conformsFields_dup_mono (s : Schema) : ∀ (m : List (String × Value)) (t : MapT),
    Conf.conformsFields s false t m = true → Conf.conformsFields s true t m = true
  | [], t => by simp [Conf.conformsFields]
  | (k, v) :: rest, t => by
    have ihr := conformsFields_dup_mono s rest t
    simp only [Conf.conformsFields, Bool.and_eq_true]
    cases hf : t.findField k with
    | some sf => exact fun ⟨h1, h2⟩ => ⟨conforms_dup_mono s v sf.type h1, ihr h2⟩
    | none =>
      simp only [Bool.and_eq_true]
      exact fun ⟨⟨h0, h1⟩, h2⟩ => ⟨⟨h0, conforms_dup_mono s v t.elementType h1⟩, ihr h2⟩
end

/-! ### validation depends on the reference only through `Schema.resolve` -/

theorem validateV_congr_resolve (s : Schema) (dup : Bool) (tr tr' : TypeRef) (v : Value)
    (h : s.resolve tr = s.resolve tr') : validateV s dup tr v = validateV s dup tr' v := by
  cases v <;> simp [validateV, resolveKind, h]

/-! ### the field-set walker never panics -/

mutual
theorem fsV_ne_panic (s : Schema) : ∀ (v : Value) (tr : TypeRef), fsV s tr v ≠ .panic
  | .null, tr => by
    simp only [fsV]; split <;> (try split) <;> simp
  | .bool b, tr => by
    simp only [fsV]; split <;> (try split) <;> simp
  | .int b, tr => by
    simp only [fsV]; split <;> (try split) <;> simp
  | .float b z, tr => by
    simp only [fsV]; split <;> (try split) <;> simp
  | .str b, tr => by
    simp only [fsV]; split <;> (try split) <;> simp
  | .list l, tr => by
    simp only [fsV]
    split
    · simp
    · simp
    · simp
    · rename_i t _
      split
      · simp
      · have ih := fsItems_ne_panic s l t (dupMarks s t [] [] l)
        cases hr : fsItems s t (dupMarks s t [] [] l) l <;> simp_all
    · split <;> simp
  | .map m, tr => by
    simp only [fsV]
    split
    · simp
    · simp
    · simp
    · split <;> simp
    · rename_i t _
      split
      · simp
      · exact fsFields_ne_panic s m t
theorem fsItems_ne_panic (s : Schema) : ∀ (l : List Value) (t : ListT) (dups : List PE),
    fsItems s t dups l ≠ .panic
  | [], t, dups => by simp [fsItems]
  | child :: rest, t, dups => by
    have ihv := fsV_ne_panic s child t.elementType
    have ihr := fsItems_ne_panic s rest t dups
    unfold fsItems
    simp only []
    (repeat' split) <;> simp_all
theorem fsFields_ne_panic (s : Schema) : ∀ (m : List (String × Value)) (t : MapT),
    fsFields s t m ≠ .panic
  | [], t => by simp [fsFields]
  | (k, v) :: rest, t => by
    have ihv := fsV_ne_panic s v (fieldType t k)
    have ihr := fsFields_ne_panic s rest t
    unfold fsFields
    simp only []
    cases hv : fsV s (fieldType t k) v <;> cases hr : fsFields s t rest <;> simp_all
end

end SMD
