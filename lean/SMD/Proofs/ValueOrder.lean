import SMD.Model.Value
import SMD.Model.Path
set_option linter.unusedSimpArgs false
namespace SMD

theorem cmpInt_self (a : Int) : cmpInt a a = .eq := by simp [cmpInt]
theorem cmpStr_self (a : String) : cmpStr a a = .eq := by simp [cmpStr]
theorem cmpBool_self (a : Bool) : cmpBool a a = .eq := by simp [cmpBool]

mutual
theorem Value.compare_self : ∀ v : Value, Value.compare v v = .eq
  | .null => by simp [Value.compare]
  | .bool b => by simp [Value.compare, cmpBool_self]
  | .int i => by simp [Value.compare, cmpInt_self]
  | .float u z => by simp [Value.compare, cmpInt_self]
  | .str s => by simp [Value.compare, cmpStr_self]
  | .list l => by simp [Value.compare, Value.compareList_self l]
  | .map m => by simp [Value.compare, Value.compareFields_self m]
theorem Value.compareList_self : ∀ l : List Value, Value.compareList l l = .eq
  | [] => by simp [Value.compareList]
  | a :: as => by simp [Value.compareList, Value.compare_self a, Value.compareList_self as]
theorem Value.compareFields_self : ∀ l : List (String × Value), Value.compareFields l l = .eq
  | [] => by simp [Value.compareFields]
  | (k, v) :: as => by simp [Value.compareFields, cmpStr_self, Value.compare_self v, Value.compareFields_self as]
end


def TrPack (x y z : Ordering) : Prop :=
  (x = .lt → y ≠ .gt → z = .lt) ∧ (x ≠ .gt → y = .lt → z = .lt) ∧ (x = .eq → y = .eq → z = .eq)

theorem TrPack.then {x y z x' y' z' : Ordering} (h : TrPack x y z) (h' : TrPack x' y' z') :
    TrPack (x.then x') (y.then y') (z.then z') := by
  unfold TrPack at *
  cases x <;> cases y <;> cases z <;> simp_all [Ordering.then]

theorem TrPack.le {x y z : Ordering} (h : TrPack x y z) : x ≠ .gt → y ≠ .gt → z ≠ .gt := by
  unfold TrPack at *
  cases x <;> cases y <;> cases z <;> simp_all

theorem scale_pos : 0 < scale := by unfold scale; exact Int.pow_pos (by decide)

theorem cmpInt_scale (i j : Int) : cmpInt (i * scale) (j * scale) = cmpInt i j := by
  have h := scale_pos
  have h1 : i * scale < j * scale ↔ i < j := Int.mul_lt_mul_right h
  have h2 : j * scale < i * scale ↔ j < i := Int.mul_lt_mul_right h
  simp only [cmpInt, gt_iff_lt, h1, h2]

theorem cmpInt_tr (x y z : Int) : TrPack (cmpInt x y) (cmpInt y z) (cmpInt x z) := by
  unfold TrPack cmpInt
  refine ⟨?_, ?_, ?_⟩ <;> (repeat' split) <;> simp <;> omega

theorem cmpStr_tr (x y z : String) : TrPack (cmpStr x y) (cmpStr y z) (cmpStr x z) := by
  unfold TrPack cmpStr
  refine ⟨?_, ?_, ?_⟩
  · intro h1 h2; exact Std.TransCmp.lt_of_lt_of_isLE h1 (by cases h : compare y z <;> simp_all)
  · intro h1 h2; exact Std.TransCmp.lt_of_isLE_of_lt (by cases h : compare x y <;> simp_all) h2
  · intro h1 h2; exact Std.TransCmp.eq_trans h1 h2

theorem cmpBool_tr (x y z : Bool) : TrPack (cmpBool x y) (cmpBool y z) (cmpBool x z) := by
  cases x <;> cases y <;> cases z <;> simp [TrPack, cmpBool]

theorem cmpInt_swap (a b : Int) : cmpInt b a = (cmpInt a b).swap := by
  unfold cmpInt; (repeat' split) <;> simp <;> omega
theorem cmpStr_swap (a b : String) : cmpStr b a = (cmpStr a b).swap := by
  unfold cmpStr; exact Std.OrientedCmp.eq_swap
theorem cmpBool_swap (a b : Bool) : cmpBool b a = (cmpBool a b).swap := by
  cases a <;> cases b <;> simp [cmpBool]

theorem Value.compareList_cons (a b : Value) (as bs : List Value) :
    Value.compareList (a :: as) (b :: bs) = (Value.compare a b).then (Value.compareList as bs) := by
  rw [Value.compareList]; cases Value.compare a b <;> rfl

theorem Value.compareFields_cons (k k' : String) (v v' : Value) (as bs : List (String × Value)) :
    Value.compareFields ((k, v) :: as) ((k', v') :: bs)
      = (cmpStr k k').then ((Value.compare v v').then (Value.compareFields as bs)) := by
  rw [Value.compareFields]; cases cmpStr k k' <;> cases Value.compare v v' <;> rfl

mutual
theorem Value.compare_swap : ∀ a b : Value, Value.compare b a = (Value.compare a b).swap
  | .null, b => by cases b <;> simp [Value.compare]
  | .bool x, b => by cases b <;> simp [Value.compare, cmpBool_swap x]
  | .int i, b => by cases b <;> simp [Value.compare, cmpInt_swap i, cmpInt_swap (i * scale)]
  | .float u z, b => by cases b <;> simp [Value.compare, cmpInt_swap u]
  | .str s, b => by cases b <;> simp [Value.compare, cmpStr_swap s]
  | .list l, b => by cases b <;> simp [Value.compare, Value.compareList_swap l]
  | .map m, b => by cases b <;> simp [Value.compare, Value.compareFields_swap m]
theorem Value.compareList_swap : ∀ a b : List Value, Value.compareList b a = (Value.compareList a b).swap
  | [], b => by cases b <;> simp [Value.compareList]
  | a :: as, [] => by simp [Value.compareList]
  | a :: as, b :: bs => by
    simp [Value.compareList_cons, Ordering.swap_then, Value.compare_swap a b, Value.compareList_swap as bs]
theorem Value.compareFields_swap : ∀ a b : List (String × Value),
    Value.compareFields b a = (Value.compareFields a b).swap
  | [], b => by cases b <;> simp [Value.compareFields]
  | _ :: _, [] => by simp [Value.compareFields]
  | (k, v) :: as, (k', v') :: bs => by
    simp [Value.compareFields_cons, Ordering.swap_then, cmpStr_swap k k', Value.compare_swap v v',
      Value.compareFields_swap as bs]
end


/-! ### transitivity package for values -/

theorem TrPack.lt_left {y z : Ordering} : TrPack .lt y z ↔ (y ≠ .gt → z = .lt) := by
  unfold TrPack; cases y <;> cases z <;> simp
theorem TrPack.gt_left {y z : Ordering} : TrPack .gt y z ↔ True := by
  unfold TrPack; simp
theorem TrPack.gt_mid {x z : Ordering} : TrPack x .gt z ↔ True := by
  unfold TrPack; simp
theorem TrPack.lt_lt {x : Ordering} : TrPack x .lt .lt ↔ True := by
  unfold TrPack; simp

theorem cmpInt_tr_ab (i j u : Int) :
    TrPack (cmpInt i j) (cmpInt (j * scale) u) (cmpInt (i * scale) u) := by
  rw [← cmpInt_scale i j]; exact cmpInt_tr _ _ _
theorem cmpInt_tr_bc (u i j : Int) :
    TrPack (cmpInt u (i * scale)) (cmpInt i j) (cmpInt u (j * scale)) := by
  rw [← cmpInt_scale i j]; exact cmpInt_tr _ _ _
theorem cmpInt_tr_ac (i u j : Int) :
    TrPack (cmpInt (i * scale) u) (cmpInt u (j * scale)) (cmpInt i j) := by
  rw [← cmpInt_scale i j]; exact cmpInt_tr _ _ _

mutual
theorem Value.compare_tr : ∀ a b c : Value,
    TrPack (Value.compare a b) (Value.compare b c) (Value.compare a c)
  | .null, b, c => by cases b <;> cases c <;> simp [Value.compare, TrPack]
  | .bool x, b, c => by
    cases b <;> cases c <;> simp [Value.compare, TrPack.lt_left, TrPack.gt_left, TrPack.gt_mid, TrPack.lt_lt, cmpBool_tr]
  | .int i, b, c => by
    cases b <;> cases c <;> simp [Value.compare, TrPack.lt_left, TrPack.gt_left, TrPack.gt_mid, TrPack.lt_lt,
      cmpInt_tr, cmpInt_tr_ab, cmpInt_tr_bc, cmpInt_tr_ac]
  | .float u z, b, c => by
    cases b <;> cases c <;> simp [Value.compare, TrPack.lt_left, TrPack.gt_left, TrPack.gt_mid, TrPack.lt_lt,
      cmpInt_tr, cmpInt_tr_ab, cmpInt_tr_bc, cmpInt_tr_ac]
  | .str s, b, c => by
    cases b <;> cases c <;> simp [Value.compare, TrPack.lt_left, TrPack.gt_left, TrPack.gt_mid, TrPack.lt_lt, cmpStr_tr]
  | .list l, b, c => by
    cases b <;> cases c <;> simp [Value.compare, TrPack.lt_left, TrPack.gt_left, TrPack.gt_mid, TrPack.lt_lt, Value.compareList_tr l]
  | .map m, b, c => by
    cases b <;> cases c <;> simp [Value.compare, TrPack.lt_left, TrPack.gt_left, TrPack.gt_mid, TrPack.lt_lt, Value.compareFields_tr m]
theorem Value.compareList_tr : ∀ a b c : List Value,
    TrPack (Value.compareList a b) (Value.compareList b c) (Value.compareList a c)
  | [], b, c => by cases b <;> cases c <;> simp [Value.compareList, TrPack]
  | a :: as, [], c => by cases c <;> simp [Value.compareList, TrPack]
  | a :: as, b :: bs, [] => by simp [Value.compareList, TrPack]
  | a :: as, b :: bs, c :: cs => by
    simp only [Value.compareList_cons]
    exact (Value.compare_tr a b c).then (Value.compareList_tr as bs cs)
theorem Value.compareFields_tr : ∀ a b c : List (String × Value),
    TrPack (Value.compareFields a b) (Value.compareFields b c) (Value.compareFields a c)
  | [], b, c => by cases b <;> cases c <;> simp [Value.compareFields, TrPack]
  | _ :: _, [], c => by cases c <;> simp [Value.compareFields, TrPack]
  | _ :: _, _ :: _, [] => by simp [Value.compareFields, TrPack]
  | (k, v) :: as, (k', v') :: bs, (k'', v'') :: cs => by
    simp only [Value.compareFields_cons]
    exact (cmpStr_tr k k' k'').then ((Value.compare_tr v v' v'').then (Value.compareFields_tr as bs cs))
end


/-! ### compare = eq ↔ equals -/

theorem cmpInt_eq_iff (a b : Int) : cmpInt a b = .eq ↔ a = b := by
  unfold cmpInt; (repeat' split) <;> simp <;> omega
theorem cmpStr_eq_iff (a b : String) : cmpStr a b = .eq ↔ a = b := by
  unfold cmpStr; exact Std.LawfulEqCmp.compare_eq_iff_eq
theorem cmpBool_eq_iff (a b : Bool) : cmpBool a b = .eq ↔ a = b := by
  cases a <;> cases b <;> simp [cmpBool]
theorem mul_scale_inj (i j : Int) : i * scale = j * scale ↔ i = j :=
  Int.mul_eq_mul_right_iff (Int.ne_of_gt scale_pos)

mutual
theorem Value.compare_eq_iff : ∀ a b : Value, Value.compare a b = .eq ↔ Value.equals a b = true
  | .null, b => by cases b <;> simp [Value.compare, Value.equals]
  | .bool x, b => by cases b <;> simp [Value.compare, Value.equals, cmpBool_eq_iff]
  | .int i, b => by cases b <;> simp [Value.compare, Value.equals, cmpInt_eq_iff]
  | .float u z, b => by cases b <;> simp [Value.compare, Value.equals, cmpInt_eq_iff]
  | .str s, b => by cases b <;> simp [Value.compare, Value.equals, cmpStr_eq_iff]
  | .list l, b => by cases b <;> simp [Value.compare, Value.equals, Value.compareList_eq_iff l]
  | .map m, b => by cases b <;> simp [Value.compare, Value.equals, Value.compareFields_eq_iff m]
theorem Value.compareList_eq_iff : ∀ a b : List Value,
    Value.compareList a b = .eq ↔ Value.equalsList a b = true
  | [], b => by cases b <;> simp [Value.compareList, Value.equalsList]
  | _ :: _, [] => by simp [Value.compareList, Value.equalsList]
  | a :: as, b :: bs => by
    simp [Value.compareList_cons, Value.equalsList, Ordering.then_eq_eq, Value.compare_eq_iff a b,
      Value.compareList_eq_iff as bs]
theorem Value.compareFields_eq_iff : ∀ a b : List (String × Value),
    Value.compareFields a b = .eq ↔ Value.equalsFields a b = true
  | [], b => by cases b <;> simp [Value.compareFields, Value.equalsFields]
  | _ :: _, [] => by simp [Value.compareFields, Value.equalsFields]
  | (k, v) :: as, (k', v') :: bs => by
    simp [Value.compareFields_cons, Value.equalsFields, Ordering.then_eq_eq, cmpStr_eq_iff,
      Value.compare_eq_iff v v', Value.compareFields_eq_iff as bs, and_assoc]
end


/-! ### derived laws for values -/

theorem Ordering.eq_of_self_swap {o : Ordering} (h : o = o.swap) : o = .eq := by
  cases o <;> simp_all

theorem Value.compare_le_trans {a b c : Value} :
    Value.compare a b ≠ .gt → Value.compare b c ≠ .gt → Value.compare a c ≠ .gt :=
  (Value.compare_tr a b c).le
theorem Value.less_iff (a b : Value) : Value.less a b = true ↔ Value.compare a b = .lt := by
  simp [Value.less]
theorem Value.equals_refl (a : Value) : Value.equals a a = true :=
  (Value.compare_eq_iff a a).1 (Value.compare_self a)
theorem Value.equals_symm (a b : Value) : Value.equals a b = Value.equals b a := by
  rw [Bool.eq_iff_iff, ← Value.compare_eq_iff, ← Value.compare_eq_iff, Value.compare_swap a b]
  cases Value.compare a b <;> simp

theorem cmpInt_eq_compare (x y : Int) : cmpInt x y = compare x y := by
  unfold cmpInt
  rcases Int.lt_trichotomy x y with h | h | h
  · rw [if_neg (by omega), if_pos h]; exact (Int.compare_eq_lt.2 h).symm
  · subst h; simp
  · rw [if_pos h]; exact (Int.compare_eq_gt.2 h).symm

theorem mul_scale_beq (i j : Int) : (i * scale == j * scale) = (i == j) := by
  rw [Bool.eq_iff_iff]; simp [mul_scale_inj]

/-- exact numeric value of a number, in float units (2^-1074) -/
def Value.numv : Value → Option Int
  | .int i => some (i * scale)
  | .float u _ => some u
  | _ => none

theorem numv_compare (a b : Value) (x y : Int) (ha : a.numv = some x) (hb : b.numv = some y) :
    Value.compare a b = compare x y ∧ Value.equals a b = (x == y) := by
  rw [← cmpInt_eq_compare]
  cases a <;> cases b <;> simp [Value.numv] at ha hb <;> subst ha <;> subst hb <;>
    simp [Value.compare, Value.equals, cmpInt_scale, mul_scale_beq]


/-! ### key lists -/

theorem FieldList.compare_eq_iff (a b : FieldList) :
    FieldList.compare a b = .eq ↔ FieldList.equals a b = true := Value.compareFields_eq_iff a b
theorem FieldList.compare_swap (a b : FieldList) :
    FieldList.compare b a = (FieldList.compare a b).swap := Value.compareFields_swap a b
theorem FieldList.compare_tr (a b c : FieldList) :
    TrPack (FieldList.compare a b) (FieldList.compare b c) (FieldList.compare a c) :=
  Value.compareFields_tr a b c
theorem FieldList.compare_le_trans {a b c : FieldList} :
    FieldList.compare a b ≠ .gt → FieldList.compare b c ≠ .gt → FieldList.compare a c ≠ .gt :=
  (FieldList.compare_tr a b c).le
theorem FieldList.less_iff (a b : FieldList) :
    FieldList.less a b = true ↔ FieldList.compare a b = .lt := by simp [FieldList.less]
theorem FieldList.equals_refl (a : FieldList) : FieldList.equals a a = true :=
  (FieldList.compare_eq_iff a a).1 (Value.compareFields_self a)
theorem FieldList.equals_symm (a b : FieldList) : FieldList.equals a b = FieldList.equals b a := by
  rw [Bool.eq_iff_iff, ← FieldList.compare_eq_iff, ← FieldList.compare_eq_iff,
    FieldList.compare_swap a b]
  cases FieldList.compare a b <;> simp

/-! ### path elements -/

theorem PE.compare_index (a b : Int) : PE.compare (.index a) (.index b) = cmpInt a b := by
  unfold PE.compare cmpInt
  (repeat' split) <;> simp_all <;> omega

theorem PE.compare_swap : ∀ a b : PE, PE.compare b a = (PE.compare a b).swap
  | .field s, b => by cases b <;> simp [PE.compare, cmpStr_swap s]
  | .key k, b => by cases b <;> simp [PE.compare, FieldList.compare_swap k]
  | .value v, b => by cases b <;> simp [PE.compare, Value.compare_swap v]
  | .index i, b => by
    cases b <;> (try simp only [PE.compare_index]) <;> simp [PE.compare, cmpInt_swap i]
  | .invalid, b => by cases b <;> simp [PE.compare]

theorem PE.compare_tr : ∀ a b c : PE, TrPack (PE.compare a b) (PE.compare b c) (PE.compare a c)
  | .field s, b, c => by
    cases b <;> cases c <;>
      simp [PE.compare, TrPack.lt_left, TrPack.gt_left, TrPack.gt_mid, TrPack.lt_lt, cmpStr_tr]
  | .key k, b, c => by
    cases b <;> cases c <;>
      simp [PE.compare, TrPack.lt_left, TrPack.gt_left, TrPack.gt_mid, TrPack.lt_lt,
        FieldList.compare_tr]
  | .value v, b, c => by
    cases b <;> cases c <;>
      simp [PE.compare, TrPack.lt_left, TrPack.gt_left, TrPack.gt_mid, TrPack.lt_lt,
        Value.compare_tr]
  | .index i, b, c => by
    cases b <;> cases c <;> (try simp only [PE.compare_index]) <;>
      simp [PE.compare, TrPack.lt_left, TrPack.gt_left, TrPack.gt_mid, TrPack.lt_lt, cmpInt_tr]
  | .invalid, b, c => by
    cases b <;> cases c <;>
      simp [PE.compare, TrPack.lt_left, TrPack.gt_left, TrPack.gt_mid, TrPack.lt_lt]
    simp [TrPack]

theorem PE.compare_eq_iff : ∀ a b : PE, PE.compare a b = .eq ↔ PE.equals a b = true
  | .field s, b => by cases b <;> simp [PE.compare, PE.equals, cmpStr_eq_iff]
  | .key k, b => by cases b <;> simp [PE.compare, PE.equals, FieldList.compare_eq_iff]
  | .value v, b => by cases b <;> simp [PE.compare, PE.equals, Value.compare_eq_iff]
  | .index i, b => by
    cases b <;> (try simp only [PE.compare_index]) <;> simp [PE.compare, PE.equals, cmpInt_eq_iff]
  | .invalid, b => by cases b <;> simp [PE.compare, PE.equals]

theorem PE.compare_self (a : PE) : PE.compare a a = .eq :=
  Ordering.eq_of_self_swap (PE.compare_swap a a)
theorem PE.compare_le_trans {a b c : PE} :
    PE.compare a b ≠ .gt → PE.compare b c ≠ .gt → PE.compare a c ≠ .gt :=
  (PE.compare_tr a b c).le
theorem PE.less_iff (a b : PE) : PE.less a b = true ↔ PE.compare a b = .lt := by simp [PE.less]
theorem PE.equals_refl (a : PE) : PE.equals a a = true :=
  (PE.compare_eq_iff a a).1 (PE.compare_self a)
theorem PE.equals_symm (a b : PE) : PE.equals a b = PE.equals b a := by
  rw [Bool.eq_iff_iff, ← PE.compare_eq_iff, ← PE.compare_eq_iff, PE.compare_swap a b]
  cases PE.compare a b <;> simp


/-! ### matchers -/

theorem PEMatcher.compare_eq_iff (a b : PEMatcher) :
    PEMatcher.compare a b = .eq ↔ PEMatcher.equals a b = true := by
  rcases a with ⟨wa, pa⟩; rcases b with ⟨wb, pb⟩
  cases wa <;> cases wb <;> simp [PEMatcher.compare, PEMatcher.equals, PE.compare_eq_iff]
theorem PEMatcher.compare_swap (a b : PEMatcher) :
    PEMatcher.compare b a = (PEMatcher.compare a b).swap := by
  rcases a with ⟨wa, pa⟩; rcases b with ⟨wb, pb⟩
  cases wa <;> cases wb <;> simp [PEMatcher.compare, PE.compare_swap pa pb]
theorem PEMatcher.compare_tr (a b c : PEMatcher) :
    TrPack (PEMatcher.compare a b) (PEMatcher.compare b c) (PEMatcher.compare a c) := by
  rcases a with ⟨wa, pa⟩; rcases b with ⟨wb, pb⟩; rcases c with ⟨wc, pc⟩
  cases wa <;> cases wb <;> cases wc <;>
    simp [PEMatcher.compare, TrPack.lt_left, TrPack.gt_left, TrPack.gt_mid, TrPack.lt_lt,
      PE.compare_tr] <;> simp [TrPack]
theorem PEMatcher.compare_le_trans {a b c : PEMatcher} :
    PEMatcher.compare a b ≠ .gt → PEMatcher.compare b c ≠ .gt → PEMatcher.compare a c ≠ .gt :=
  (PEMatcher.compare_tr a b c).le
theorem PEMatcher.less_iff (a b : PEMatcher) :
    PEMatcher.less a b = true ↔ PEMatcher.compare a b = .lt := by
  rcases a with ⟨wa, pa⟩; rcases b with ⟨wb, pb⟩
  cases wa <;> cases wb <;> simp [PEMatcher.compare, PEMatcher.less, PE.less_iff]
theorem PEMatcher.equals_refl (a : PEMatcher) : PEMatcher.equals a a = true :=
  (PEMatcher.compare_eq_iff a a).1 (Ordering.eq_of_self_swap (PEMatcher.compare_swap a a))
theorem PEMatcher.equals_symm (a b : PEMatcher) : PEMatcher.equals a b = PEMatcher.equals b a := by
  rw [Bool.eq_iff_iff, ← PEMatcher.compare_eq_iff, ← PEMatcher.compare_eq_iff,
    PEMatcher.compare_swap a b]
  cases PEMatcher.compare a b <;> simp

/-! ### paths -/

theorem Path.compare_cons (a b : PE) (as bs : Path) :
    Path.compare (a :: as) (b :: bs) = (PE.compare a b).then (Path.compare as bs) := by
  rw [Path.compare]; cases PE.compare a b <;> rfl

theorem Path.compare_eq_iff : ∀ a b : Path, Path.compare a b = .eq ↔ Path.equals a b = true
  | [], b => by cases b <;> simp [Path.compare, Path.equals]
  | _ :: _, [] => by simp [Path.compare, Path.equals]
  | a :: as, b :: bs => by
    simp [Path.compare_cons, Path.equals, Ordering.then_eq_eq, PE.compare_eq_iff a b,
      Path.compare_eq_iff as bs]
theorem Path.compare_swap : ∀ a b : Path, Path.compare b a = (Path.compare a b).swap
  | [], b => by cases b <;> simp [Path.compare]
  | _ :: _, [] => by simp [Path.compare]
  | a :: as, b :: bs => by
    simp [Path.compare_cons, Ordering.swap_then, PE.compare_swap a b, Path.compare_swap as bs]
theorem Path.compare_tr : ∀ a b c : Path,
    TrPack (Path.compare a b) (Path.compare b c) (Path.compare a c)
  | [], b, c => by cases b <;> cases c <;> simp [Path.compare, TrPack]
  | _ :: _, [], c => by cases c <;> simp [Path.compare, TrPack]
  | _ :: _, _ :: _, [] => by simp [Path.compare, TrPack]
  | a :: as, b :: bs, c :: cs => by
    simp only [Path.compare_cons]
    exact (PE.compare_tr a b c).then (Path.compare_tr as bs cs)
theorem Path.compare_le_trans {a b c : Path} :
    Path.compare a b ≠ .gt → Path.compare b c ≠ .gt → Path.compare a c ≠ .gt :=
  (Path.compare_tr a b c).le
theorem Path.equals_refl (a : Path) : Path.equals a a = true :=
  (Path.compare_eq_iff a a).1 (Ordering.eq_of_self_swap (Path.compare_swap a a))
theorem Path.equals_symm (a b : Path) : Path.equals a b = Path.equals b a := by
  rw [Bool.eq_iff_iff, ← Path.compare_eq_iff, ← Path.compare_eq_iff, Path.compare_swap a b]
  cases Path.compare a b <;> simp

end SMD
