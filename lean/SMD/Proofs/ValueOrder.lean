import SMD.Model.Value
import SMD.Model.Path
namespace SMD

theorem cmpInt_self (a : Int) : cmpInt a a = .eq := by simp [cmpInt]
theorem cmpStr_self (a : String) : cmpStr a a = .eq := by simp [cmpStr]
theorem cmpBool_self (a : Bool) : cmpBool a a = .eq := by simp [cmpBool]

mutual
theorem Value.compare_self : ∀ v : Value, Value.compare v v = .eq
  | .null => by simp [Value.compare]
  | .bool b => by simp [Value.compare, cmpBool_self]
  | .int i => by simp [Value.compare, cmpInt_self]
  | .float u z => by simp [Value.compare, cmpInt_self]
  | .str s => by simp [Value.compare, cmpStr_self]
  | .list l => by simp [Value.compare, Value.compareList_self l]
  | .map m => by simp [Value.compare, Value.compareFields_self m]
theorem Value.compareList_self : ∀ l : List Value, Value.compareList l l = .eq
  | [] => by simp [Value.compareList]
  | a :: as => by simp [Value.compareList, Value.compare_self a, Value.compareList_self as]
theorem Value.compareFields_self : ∀ l : List (String × Value), Value.compareFields l l = .eq
  | [] => by simp [Value.compareFields]
  | (k, v) :: as => by simp [Value.compareFields, cmpStr_self, Value.compare_self v, Value.compareFields_self as]
end

end SMD
