import SMD.Properties.C15
import SMD.Properties.C17
