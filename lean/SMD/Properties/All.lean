import SMD.Properties.C04
import SMD.Properties.C07
import SMD.Properties.C08
import SMD.Properties.C09
import SMD.Properties.C10
import SMD.Properties.C15
import SMD.Properties.C17
import SMD.Properties.C20
