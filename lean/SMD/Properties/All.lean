import SMD.Properties.C17
