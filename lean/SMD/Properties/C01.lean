/-
C01 — an applied configuration takes effect (partial by theorem: proved for a manager's first apply,
where the result is the merge of the configuration over the live object; the general case — the
configuration survives pruning whatever the applier owned before — is evaluated on the implementation
by the C01 judge of the `upd` domain after every successful apply of every history).

`merge_right_wins`: every node of R is a node of the merge result and every scalar of R carries R's
value there, against the independent path resolver `Nodes.valueAt`.

The two statements as first written are false of the model (kernel-checked refutations below):

* a positional element (`.index i`) designates a position, and the merge puts the items only the left
  operand has in front of the items of the right operand (`[1]` merged with `[2]` is `[1, 2]`);
* an item of a keyed list may carry a map as key field; the merge rebuilds maps with their keys in
  order, so a key field written out of order changes the identity of the merged item and the key
  element of R designates nothing in the result.

They are proved (`…_of_no_index_and_scalar_keys`) for paths without positional elements when the key
fields carried by the items of the keyed lists of both operands are scalars (`keysScalar`; schema
defaults of absent key fields are unrestricted), and (`…_maps_partial`) without any further
hypothesis for paths made of field names (repeated keys in the entry lists are harmless).
-/
import SMD.Proofs.MergeNodes
import SMD.Proofs.MergeNodesCounterexamples
-- the hypotheses of the original statements are kept even where the proofs do not need them
-- (`hl`, `hla`, `hra`: validity of the left operand and indexability of the lists follow from, or are
-- irrelevant to, a successful merge)
set_option linter.unusedVariables false
namespace SMD.C01

-- STATEMENT-FALSE: empty schema, tr = inline set (associative list, no keys) of untyped scalars,
-- l = [1], r = [2], fuel = 3: the merge is out = [1, 2]; p = [index 0] designates x = 2 in r and 1 in out
-- (`SMD.Counter01.merge_sets`, `at_right`, `at_out`).
-- /-- right wins: whatever R specifies is in the merge result, scalars with R's value -/
-- theorem merge_right_wins (s : Schema) (tr : TypeRef) (l r out : Value) (fuel : Nat) (p : Path) (x : Value)
--     (hl : validateV s true tr l = .ok ()) (hr : validateV s false tr r = .ok ())
--     (hla : listsAssociative s tr l = true) (hra : listsAssociative s tr r = true)
--     (hm : mergeNode s fuel (some l) (some r) tr = .ok (some out))
--     (hx : Nodes.valueAt s tr r p = some x) :
--     (Nodes.valueAt s tr out p).isSome = true ∧ (x.isScalar = true → Nodes.valueAt s tr out p = some x)

/-- `merge_right_wins` as originally stated does not hold (positional path elements) -/
example : ¬ (∀ (s : Schema) (tr : TypeRef) (l r out : Value) (fuel : Nat) (p : Path) (x : Value),
    validateV s true tr l = .ok () → validateV s false tr r = .ok () →
    listsAssociative s tr l = true → listsAssociative s tr r = true →
    mergeNode s fuel (some l) (some r) tr = .ok (some out) →
    Nodes.valueAt s tr r p = some x →
    (Nodes.valueAt s tr out p).isSome = true ∧ (x.isScalar = true → Nodes.valueAt s tr out p = some x)) := by
  intro h
  have h1 := (h _ _ _ _ _ _ _ _ Counter01.valid_left Counter01.valid_right Counter01.assoc_left
    Counter01.assoc_right Counter01.merge_sets Counter01.at_right).2 rfl
  rw [Counter01.at_out] at h1
  simp at h1

/-- nor does it hold for all paths without positional elements: a key field may be a map written out
of order (so the hypothesis `keysScalar` of `merge_right_wins_of_no_index_and_scalar_keys` cannot
simply be dropped) -/
example : ¬ (∀ (s : Schema) (tr : TypeRef) (l r out : Value) (fuel : Nat) (p : Path) (x : Value),
    validateV s true tr l = .ok () → validateV s false tr r = .ok () →
    listsAssociative s tr l = true → listsAssociative s tr r = true →
    mergeNode s fuel (some l) (some r) tr = .ok (some out) →
    Nodes.valueAt s tr r p = some x → (∀ pe ∈ p, PE.isIndex pe = false) →
    (Nodes.valueAt s tr out p).isSome = true ∧ (x.isScalar = true → Nodes.valueAt s tr out p = some x)) := by
  intro h
  have h1 := (h _ _ _ _ _ _ _ _ Counter01.keyed_valid_left Counter01.keyed_valid_right Counter01.keyed_assoc_left
    Counter01.keyed_assoc_right Counter01.keyed_merge Counter01.keyed_at_right Counter01.keyed_no_index).1
  rw [Counter01.keyed_at_out] at h1
  cases h1

/-- right wins along paths without positional elements when the key fields carried by the items of the
keyed lists of both operands are scalars: whatever R specifies is in the merge result, scalars with
R's value -/
theorem merge_right_wins_of_no_index_and_scalar_keys (s : Schema) (tr : TypeRef) (l r out : Value)
    (fuel : Nat) (p : Path) (x : Value)
    (hl : validateV s true tr l = .ok ()) (hr : validateV s false tr r = .ok ())
    (hla : listsAssociative s tr l = true) (hra : listsAssociative s tr r = true)
    (hm : mergeNode s fuel (some l) (some r) tr = .ok (some out))
    (hx : Nodes.valueAt s tr r p = some x)
    (hni : ∀ pe ∈ p, PE.isIndex pe = false)
    (hkl : keysScalar s tr l = true) (hkr : keysScalar s tr r = true) :
    (Nodes.valueAt s tr out p).isSome = true ∧ (x.isScalar = true → Nodes.valueAt s tr out p = some x) :=
  right_wins_aux s p tr (some l) r out fuel x hr
    (.inr ⟨hni, fun l' h' => by cases h'; exact hkl, hkr⟩) hm hx

/-- non-vacuity: a keyed list inside a map, with a shared item behind an item only the left operand has -/
example : (Nodes.valueAt ⟨[]⟩ Counter01.nvTR Counter01.nvOut Counter01.nvPath).isSome = true ∧
    ((Value.int 2).isScalar = true →
      Nodes.valueAt ⟨[]⟩ Counter01.nvTR Counter01.nvOut Counter01.nvPath = some (.int 2)) :=
  merge_right_wins_of_no_index_and_scalar_keys _ _ _ _ _ _ _ _ Counter01.nv_valid_left Counter01.nv_valid_right
    Counter01.nv_assoc_left Counter01.nv_assoc_right Counter01.nv_merge Counter01.nv_at_right
    Counter01.nv_no_index Counter01.nv_keys_left Counter01.nv_keys_right

/-- right wins along paths of field names (through maps only), without further hypothesis -/
theorem merge_right_wins_maps_partial (s : Schema) (tr : TypeRef) (l r out : Value) (fuel : Nat) (p : Path) (x : Value)
    (hl : validateV s true tr l = .ok ()) (hr : validateV s false tr r = .ok ())
    (hla : listsAssociative s tr l = true) (hra : listsAssociative s tr r = true)
    (hm : mergeNode s fuel (some l) (some r) tr = .ok (some out))
    (hx : Nodes.valueAt s tr r p = some x)
    (hp : ∀ pe ∈ p, PE.isField pe = true) :
    (Nodes.valueAt s tr out p).isSome = true ∧ (x.isScalar = true → Nodes.valueAt s tr out p = some x) :=
  right_wins_aux s p tr (some l) r out fuel x hr (.inl hp) hm hx

-- STATEMENT-FALSE: same world: identity converter, nothing ignored, no managed fields, live = [1],
-- cfg = [2] of the set type, manager "m" applies version "v": the object returned is [1, 2];
-- p = [index 0] designates x = 2 in cfg and 1 in the result (`SMD.Counter01.apply_sets`).
-- /-- C01 for a manager's first apply: every field the configuration specifies is present in the result
-- and every scalar carries the configuration's value, whatever the live object contained and whatever
-- other managers own -/
-- theorem first_apply_takes_effect (u : Updater) (sc : Schema) (live cfg : TV) (ver : String) (m m0 : Managed)
--     (mgr : String) (force : Bool) (obj : Option TV) (mf : Managed) (p : Path) (x : Value)
--     (hrec : reconcileManaged u sc live m = .ok m0) (hfirst : mfGet m0 mgr = none)
--     (htype : live.type = cfg.type)
--     (hl : validateV sc true live.type live.value = .ok ()) (hr : validateV sc false cfg.type cfg.value = .ok ())
--     (hla : listsAssociative sc live.type live.value = true) (hra : listsAssociative sc cfg.type cfg.value = true)
--     (happly : apply u sc live cfg ver m mgr force = .ok (obj, mf))
--     (hx : Nodes.valueAt sc cfg.type cfg.value p = some x) :
--     let result : Value := match obj with | some o => o.value | none => live.value
--     (obj.isSome = true →
--       (Nodes.valueAt sc cfg.type result p).isSome = true ∧
--       (x.isScalar = true → Nodes.valueAt sc cfg.type result p = some x))

/-- `first_apply_takes_effect` as originally stated does not hold (positional path elements) -/
example : ¬ (∀ (u : Updater) (sc : Schema) (live cfg : TV) (ver : String) (m m0 : Managed)
    (mgr : String) (force : Bool) (obj : Option TV) (mf : Managed) (p : Path) (x : Value),
    reconcileManaged u sc live m = .ok m0 → mfGet m0 mgr = none →
    live.type = cfg.type →
    validateV sc true live.type live.value = .ok () → validateV sc false cfg.type cfg.value = .ok () →
    listsAssociative sc live.type live.value = true → listsAssociative sc cfg.type cfg.value = true →
    apply u sc live cfg ver m mgr force = .ok (obj, mf) →
    Nodes.valueAt sc cfg.type cfg.value p = some x →
    let result : Value := match obj with | some o => o.value | none => live.value
    (obj.isSome = true →
      (Nodes.valueAt sc cfg.type result p).isSome = true ∧
      (x.isScalar = true → Nodes.valueAt sc cfg.type result p = some x))) := by
  intro h
  have h1 := (h Counter01.upd ⟨[]⟩ Counter01.live Counter01.cfg "v" [] [] "m" true _ _ [.index 0] (.int 2)
    Counter01.reconcile_nil rfl rfl Counter01.valid_left Counter01.valid_right Counter01.assoc_left
    Counter01.assoc_right Counter01.apply_sets Counter01.at_right rfl).2 rfl
  have h2 : Nodes.valueAt ⟨[]⟩ Counter01.cfg.type (Value.list [.int 1, .int 2]) [.index 0] = some (.int 1) :=
    Counter01.at_out
  simp only [] at h1
  rw [h2] at h1
  simp at h1

/-- C01 for a manager's first apply, along paths without positional elements when the key fields
carried by the items of the keyed lists of the live object and of the configuration are scalars:
every field the configuration specifies is present in the result and every scalar carries the
configuration's value, whatever the live object contained and whatever other managers own -/
theorem first_apply_takes_effect_of_no_index_and_scalar_keys (u : Updater) (sc : Schema) (live cfg : TV)
    (ver : String) (m m0 : Managed)
    (mgr : String) (force : Bool) (obj : Option TV) (mf : Managed) (p : Path) (x : Value)
    (hrec : reconcileManaged u sc live m = .ok m0) (hfirst : mfGet m0 mgr = none)
    (htype : live.type = cfg.type)
    (hl : validateV sc true live.type live.value = .ok ()) (hr : validateV sc false cfg.type cfg.value = .ok ())
    (hla : listsAssociative sc live.type live.value = true) (hra : listsAssociative sc cfg.type cfg.value = true)
    (happly : apply u sc live cfg ver m mgr force = .ok (obj, mf))
    (hx : Nodes.valueAt sc cfg.type cfg.value p = some x)
    (hni : ∀ pe ∈ p, PE.isIndex pe = false)
    (hkl : keysScalar sc live.type live.value = true) (hkr : keysScalar sc cfg.type cfg.value = true) :
    let result : Value := match obj with | some o => o.value | none => live.value
    (obj.isSome = true →
      (Nodes.valueAt sc cfg.type result p).isSome = true ∧
      (x.isScalar = true → Nodes.valueAt sc cfg.type result p = some x)) := by
  intro result hsome
  obtain ⟨o, rfl⟩ := Option.isSome_iff_exists.1 hsome
  have hm := first_apply_mergeNode u sc live cfg ver m m0 mgr force _ mf hrec hfirst htype happly o rfl
  rw [htype] at hl hla hkl
  exact merge_right_wins_of_no_index_and_scalar_keys sc cfg.type live.value cfg.value o.value _ p x
    hl hr hla hra hm hx hni hkl hkr

/-- C01 for a manager's first apply, along paths of field names, without further hypothesis -/
theorem first_apply_takes_effect_maps_partial (u : Updater) (sc : Schema) (live cfg : TV)
    (ver : String) (m m0 : Managed)
    (mgr : String) (force : Bool) (obj : Option TV) (mf : Managed) (p : Path) (x : Value)
    (hrec : reconcileManaged u sc live m = .ok m0) (hfirst : mfGet m0 mgr = none)
    (htype : live.type = cfg.type)
    (hl : validateV sc true live.type live.value = .ok ()) (hr : validateV sc false cfg.type cfg.value = .ok ())
    (hla : listsAssociative sc live.type live.value = true) (hra : listsAssociative sc cfg.type cfg.value = true)
    (happly : apply u sc live cfg ver m mgr force = .ok (obj, mf))
    (hx : Nodes.valueAt sc cfg.type cfg.value p = some x)
    (hp : ∀ pe ∈ p, PE.isField pe = true) :
    let result : Value := match obj with | some o => o.value | none => live.value
    (obj.isSome = true →
      (Nodes.valueAt sc cfg.type result p).isSome = true ∧
      (x.isScalar = true → Nodes.valueAt sc cfg.type result p = some x)) := by
  intro result hsome
  obtain ⟨o, rfl⟩ := Option.isSome_iff_exists.1 hsome
  have hm := first_apply_mergeNode u sc live cfg ver m m0 mgr force _ mf hrec hfirst htype happly o rfl
  rw [htype] at hl hla
  exact merge_right_wins_maps_partial sc cfg.type live.value cfg.value o.value _ p x hl hr hla hra hm hx hp

end SMD.C01
