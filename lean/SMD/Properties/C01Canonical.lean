/-
C01 / C12 for canonical values. The theorems of C01.lean and C12Valid.lean assume that the key fields
carried by list items are scalars (`keysScalar`); the counterexamples that forced this hypothesis use
a map-valued key field whose entries are written out of order — something the model's association
lists can express but a Go map cannot (the wire format and every Go map give canonical values:
`C12.canonical`). Here the same statements are proved for canonical operands, whatever their key
fields are.
-/
import SMD.Proofs.CanonicalKeys
-- the hypotheses of the statements are kept as given even where the proofs do not need them (`hl`, `hla`,
-- `hra`: validity of the left operand and indexability of the lists follow from, or are irrelevant to, a
-- successful merge)
set_option linter.unusedVariables false
namespace SMD.C01

/-- right wins along paths without positional elements, for canonical operands -/
theorem merge_right_wins_of_no_index_and_canonical (s : Schema) (tr : TypeRef) (l r out : Value)
    (fuel : Nat) (p : Path) (x : Value)
    (hl : validateV s true tr l = .ok ()) (hr : validateV s false tr r = .ok ())
    (hla : listsAssociative s tr l = true) (hra : listsAssociative s tr r = true)
    (hm : mergeNode s fuel (some l) (some r) tr = .ok (some out))
    (hx : Nodes.valueAt s tr r p = some x)
    (hni : ∀ pe ∈ p, PE.isIndex pe = false)
    (hcl : C12.canonical l = true) (hcr : C12.canonical r = true) :
    (Nodes.valueAt s tr out p).isSome = true ∧ (x.isScalar = true → Nodes.valueAt s tr out p = some x) := by
  rw [CanonKeys.canonical_eq] at hcl hcr
  exact right_wins_aux_canon s p tr (some l) r out fuel x hr
    (.inr ⟨hni, fun l' h' => by cases h'; exact keysCanon_of_canon s l tr hcl, keysCanon_of_canon s r tr hcr⟩) hm hx

/-- non-vacuity: a list keyed by a map-valued field (so `keysScalar` fails: `CanonKeys.nv_keys_right`), a
shared item and a left-only item, a key element followed by a field name -/
example : (Nodes.valueAt ⟨[]⟩ Counter01.keyedTR CanonKeys.nvOut CanonKeys.nvPath).isSome = true ∧
    ((Value.int 2).isScalar = true →
      Nodes.valueAt ⟨[]⟩ Counter01.keyedTR CanonKeys.nvOut CanonKeys.nvPath = some (.int 2)) :=
  merge_right_wins_of_no_index_and_canonical _ _ _ _ _ _ _ _ CanonKeys.nv_valid_left_dup CanonKeys.nv_valid_right
    CanonKeys.nv_assoc_left CanonKeys.nv_assoc_right CanonKeys.nv_merge CanonKeys.nv_at_right
    CanonKeys.nv_no_index CanonKeys.nv_canon_left CanonKeys.nv_canon_right

end SMD.C01

namespace SMD.C12

/-- the merge of canonical values is canonical -/
theorem merge_canonical (s : Schema) (tr : TypeRef) (l r out : Value) (fuel : Nat)
    (hcl : canonical l = true) (hcr : canonical r = true)
    (hm : mergeNode s fuel (some l) (some r) tr = .ok (some out)) :
    canonical out = true := by
  rw [CanonKeys.canonical_eq] at hcl hcr ⊢
  exact CanonKeys.merge_canon s fuel (some l) (some r) tr out (fun l' h' => by cases h'; exact hcl)
    (fun r' h' => by cases h'; exact hcr) hm

/-- duplicate-free canonical operands give a duplicate-free result -/
theorem merge_valid_dupfree_of_canonical (s : Schema) (tr : TypeRef) (l r out : Value) (fuel : Nat)
    (hl : validateV s false tr l = .ok ()) (hr : validateV s false tr r = .ok ())
    (hcl : canonical l = true) (hcr : canonical r = true)
    (hm : mergeNode s fuel (some l) (some r) tr = .ok (some out)) :
    validateV s false tr out = .ok () := by
  rw [CanonKeys.canonical_eq] at hcl hcr
  exact MV.merge_valid_dupfree_canon s tr l r out fuel hl hr (keysCanon_of_canon s l tr hcl)
    (keysCanon_of_canon s r tr hcr) hm

/-- merging R again changes nothing, for canonical operands -/
theorem merge_idempotent_of_canonical (s : Schema) (tr : TypeRef) (l r out out2 : Value) (fuel fuel2 : Nat)
    (hl : validateV s false tr l = .ok ()) (hr : validateV s false tr r = .ok ())
    (hcl : canonical l = true) (hcr : canonical r = true)
    (hm : mergeNode s fuel (some l) (some r) tr = .ok (some out))
    (hm2 : mergeNode s fuel2 (some out) (some r) tr = .ok (some out2)) :
    Value.equals out2 out = true := by
  rw [CanonKeys.canonical_eq] at hcl hcr
  exact MV.merge_idempotent_canon s tr l r out out2 fuel fuel2 hl hr (keysCanon_of_canon s l tr hcl)
    (keysCanon_of_canon s r tr hcr) hm hm2

/-- non-vacuity of the three statements above on the same run (a list keyed by a map-valued field) -/
example : canonical CanonKeys.nvOut = true ∧ validateV ⟨[]⟩ false Counter01.keyedTR CanonKeys.nvOut = .ok () ∧
    Value.equals CanonKeys.nvOut CanonKeys.nvOut = true :=
  ⟨merge_canonical _ _ _ _ _ _ CanonKeys.nv_canon_left CanonKeys.nv_canon_right CanonKeys.nv_merge,
   merge_valid_dupfree_of_canonical _ _ _ _ _ _ CanonKeys.nv_valid_left CanonKeys.nv_valid_right
     CanonKeys.nv_canon_left CanonKeys.nv_canon_right CanonKeys.nv_merge,
   merge_idempotent_of_canonical _ _ _ _ _ _ _ _ CanonKeys.nv_valid_left CanonKeys.nv_valid_right
     CanonKeys.nv_canon_left CanonKeys.nv_canon_right CanonKeys.nv_merge CanonKeys.nv_merge_again⟩

end SMD.C12
