/-
C02 — apply touches only what the applier specifies or abandons (partial by theorem: the frame law of
the merge and its consequence for a manager's first apply; the general case — pruning — is decided on
the implementation by the C02 judges of the `upd` domain).

`merge_left_kept`: whatever the left operand holds at a path the right operand says nothing about is
still there after the merge, with the same value.

The two statements as first written are false of the model (kernel-checked refutations below).
`RSilent` — the right operand has nothing at `p` and, above `p`, nothing or a non-scalar non-null value —
does not make the merge descend along `p`:

* (A) at an ATOMIC map or list the right value replaces the left one whole;
* (B) in a type that allows both a map and a list, a right list replaces a left map (and conversely);
* (C) the left operand may repeat an item of an associative list (`validateV … true`); the merging
  walker indexes a repeated element of the left list as an explicit null, so the right item of that
  element replaces all the repeats and what they held.

They are proved (`…_of_granular`) under the hypothesis `mergeDescends s tr l r p` (SMD/Proofs/MergeFrame.lean):
at every node strictly above `p` that BOTH operands have, they are two maps or two lists, the node is
not atomic, and, if the next element of `p` designates an item in both lists, it designates a single
item of the left list.  Each of the three clauses is violated by exactly one of the counterexamples.
Nothing is asked where the right operand has no node: atomic nodes, kind changes and repeated items of
the left operand below the last node of the right operand are kept as they are.
-/
import SMD.Proofs.MergeFrame
import SMD.Proofs.MergeFrameCounterexamples
-- the hypotheses of the original statements are kept even where the proofs do not need them
-- (`hl`, `hla`, `hra`: validity of the left operand and indexability of the lists follow from, or are
-- irrelevant to, a successful merge)
set_option linter.unusedVariables false
namespace SMD.C02

/-- the right operand says nothing at or above `p`: along `p` it has either nothing, or a granular
(non-atomic) container of the same kind as the left operand that the merge descends into -/
def RSilent (s : Schema) (tr : TypeRef) (r : Value) (p : Path) : Prop :=
  Nodes.valueAt s tr r p = none ∧
  ∀ q, q <+: p → q ≠ p → ∀ x, Nodes.valueAt s tr r q = some x → x.isScalar = false ∧ x ≠ .null

-- STATEMENT-FALSE: empty schema, all types inline, fuel = 4, p = [.a, .b] in (A) and (B):
-- (A) tr = granular map of ATOMIC maps of scalars, l = {a: {b: 1}}, r = {a: {c: 2}}: out = {a: {c: 2}};
-- (B) tr = map of (map of scalars OR set of scalars), l = {a: {b: 1}}, r = {a: [1]}: out = {a: [1]};
-- (C) tr = list keyed by k of {k, v, z}, l = [{k: 1, v: 2}, {k: 1, v: 3}], r = [{k: 1, z: 4}],
--     p = [k=1, .v]: out = [{k: 1, z: 4}].
-- In all three p designates a scalar in l, `RSilent` holds of r and p designates nothing in out
-- (`SMD.Counter02.a_*`, `b_*`, `c_*`).
-- /-- frame law of the merge: what only the left operand specifies is kept -/
-- theorem merge_left_kept (s : Schema) (tr : TypeRef) (l r out : Value) (fuel : Nat) (p : Path) (x : Value)
--     (hl : validateV s true tr l = .ok ()) (hr : validateV s false tr r = .ok ())
--     (hla : listsAssociative s tr l = true) (hra : listsAssociative s tr r = true)
--     (hm : mergeNode s fuel (some l) (some r) tr = .ok (some out))
--     (hx : Nodes.valueAt s tr l p = some x) (hsilent : RSilent s tr r p)
--     (hni : ∀ pe ∈ p, PE.isIndex pe = false)
--     (hkl : keysScalar s tr l = true) (hkr : keysScalar s tr r = true) :
--     (Nodes.valueAt s tr out p).isSome = true ∧ (x.isScalar = true → Nodes.valueAt s tr out p = some x)

/-- the statement of `merge_left_kept` as originally written -/
def MergeLeftKeptStatement : Prop :=
  ∀ (s : Schema) (tr : TypeRef) (l r out : Value) (fuel : Nat) (p : Path) (x : Value),
    validateV s true tr l = .ok () → validateV s false tr r = .ok () →
    listsAssociative s tr l = true → listsAssociative s tr r = true →
    mergeNode s fuel (some l) (some r) tr = .ok (some out) →
    Nodes.valueAt s tr l p = some x → RSilent s tr r p →
    (∀ pe ∈ p, PE.isIndex pe = false) →
    keysScalar s tr l = true → keysScalar s tr r = true →
    (Nodes.valueAt s tr out p).isSome = true ∧ (x.isScalar = true → Nodes.valueAt s tr out p = some x)

/-- `merge_left_kept` as originally stated does not hold: (A) an atomic map on the way -/
example : ¬ MergeLeftKeptStatement := by
  intro h
  have h1 := (h _ _ _ _ _ _ _ _ Counter02.a_valid_left Counter02.a_valid_right Counter02.a_assoc_left
    Counter02.a_assoc_right Counter02.a_merge Counter02.a_at_left ⟨Counter02.a_at_right, Counter02.a_above⟩
    Counter02.a_no_index Counter02.a_keys_left Counter02.a_keys_right).1
  rw [Counter02.a_at_out] at h1
  cases h1

/-- … (B) a right list over a left map in a type that allows both -/
example : ¬ MergeLeftKeptStatement := by
  intro h
  have h1 := (h _ _ _ _ _ _ _ _ Counter02.b_valid_left Counter02.b_valid_right Counter02.b_assoc_left
    Counter02.b_assoc_right Counter02.b_merge Counter02.b_at_left ⟨Counter02.b_at_right, Counter02.b_above⟩
    Counter02.b_no_index Counter02.b_keys_left Counter02.b_keys_right).1
  rw [Counter02.b_at_out] at h1
  cases h1

/-- … (C) an item repeated in the left list -/
example : ¬ MergeLeftKeptStatement := by
  intro h
  have h1 := (h _ _ _ _ _ _ _ _ Counter02.c_valid_left Counter02.c_valid_right Counter02.c_assoc_left
    Counter02.c_assoc_right Counter02.c_merge Counter02.c_at_left ⟨Counter02.c_at_right, Counter02.c_above⟩
    Counter02.c_no_index Counter02.c_keys_left Counter02.c_keys_right).1
  rw [Counter02.c_at_out] at h1
  cases h1

/-- each counterexample violates `mergeDescends`, each by another clause: (A) the node `.a` of the right
operand is atomic, (B) the nodes at `.a` are a map and a list, (C) `k=1` designates two left items -/
example : mergeDescends ⟨[]⟩ Counter02.outerATR Counter02.aL Counter02.aR Counter02.aPath = false ∧
    mergeDescends ⟨[]⟩ Counter02.outerBTR Counter02.bL Counter02.bR Counter02.bPath = false ∧
    mergeDescends ⟨[]⟩ Counter02.keyedTR Counter02.cL Counter02.cR Counter02.cPath = false :=
  ⟨rfl, rfl, rfl⟩

/-- frame law of the merge where the merge descends (`mergeDescends`: above `p`, wherever both operands
have a node, the two nodes are of the same kind, not atomic, and an element of `p` designating an item
in both lists designates a single item of the left list): what only the left operand specifies is kept -/
theorem merge_left_kept_of_granular (s : Schema) (tr : TypeRef) (l r out : Value) (fuel : Nat) (p : Path)
    (x : Value)
    (hl : validateV s true tr l = .ok ()) (hr : validateV s false tr r = .ok ())
    (hla : listsAssociative s tr l = true) (hra : listsAssociative s tr r = true)
    (hm : mergeNode s fuel (some l) (some r) tr = .ok (some out))
    (hx : Nodes.valueAt s tr l p = some x) (hsilent : RSilent s tr r p)
    (hni : ∀ pe ∈ p, PE.isIndex pe = false)
    (hkl : keysScalar s tr l = true) (hkr : keysScalar s tr r = true)
    (hdesc : mergeDescends s tr l r p = true) :
    (Nodes.valueAt s tr out p).isSome = true ∧ (x.isScalar = true → Nodes.valueAt s tr out p = some x) :=
  frame_aux s p tr l r out fuel x hr hni hkl hkr hm hx hsilent hdesc

/-- non-vacuity: a keyed list inside a map; a field only the left item of a shared element has, and a
field of an item only the left operand has -/
example : Nodes.valueAt ⟨[]⟩ Counter02.nvTR Counter02.nvOut Counter02.nvPath = some (.int 5) ∧
    Nodes.valueAt ⟨[]⟩ Counter02.nvTR Counter02.nvOut Counter02.nvPath2 = some (.int 1) :=
  ⟨(merge_left_kept_of_granular _ _ _ _ _ _ _ _ Counter02.nv_valid_left Counter02.nv_valid_right
      Counter02.nv_assoc_left Counter02.nv_assoc_right Counter02.nv_merge Counter02.nv_at_left
      ⟨Counter02.nv_at_right, Counter02.nv_above⟩ Counter02.nv_no_index Counter02.nv_keys_left
      Counter02.nv_keys_right rfl).2 rfl,
   (merge_left_kept_of_granular _ _ _ _ _ _ _ _ Counter02.nv_valid_left Counter02.nv_valid_right
      Counter02.nv_assoc_left Counter02.nv_assoc_right Counter02.nv_merge Counter02.nv_at_left2
      ⟨Counter02.nv_at_right2, Counter02.nv_above2⟩ Counter02.nv_no_index2 Counter02.nv_keys_left
      Counter02.nv_keys_right rfl).2 rfl⟩

/-- non-vacuity: an item repeated in the left list is kept with its repeats where the right list has no
such item (`[{k: 1, v: 2}, {k: 1, v: 3}]` merged with `[{k: 2, z: 4}]`, `p = [k=1, .v]`) -/
example : Nodes.valueAt ⟨[]⟩ Counter02.keyedTR Counter02.dOut Counter02.cPath = some (.int 2) :=
  (merge_left_kept_of_granular _ _ _ _ _ _ _ _ Counter02.d_valid_left Counter02.d_valid_right
    Counter02.d_assoc_left Counter02.d_assoc_right Counter02.d_merge Counter02.d_at_left
    ⟨Counter02.d_at_right, Counter02.d_above⟩ Counter02.c_no_index Counter02.d_keys_left
    Counter02.d_keys_right rfl).2 rfl

-- STATEMENT-FALSE: the same three worlds through `apply`: identity converter, nothing ignored, no managed
-- fields, manager "m" applies version "v" of cfg = r over live = l: the object returned is `out`
-- (`SMD.Counter02.a_apply`, `b_apply`, `c_apply`).
-- /-- C02 for a manager's first apply: every value of the live object the configuration says nothing
-- about is kept, whoever owns it -/
-- theorem first_apply_keeps_unmentioned (u : Updater) (sc : Schema) (live cfg : TV) (ver : String) (m m0 : Managed)
--     (mgr : String) (force : Bool) (obj : Option TV) (mf : Managed) (p : Path) (x : Value)
--     (hrec : reconcileManaged u sc live m = .ok m0) (hfirst : mfGet m0 mgr = none)
--     (htype : live.type = cfg.type)
--     (hl : validateV sc true live.type live.value = .ok ()) (hr : validateV sc false cfg.type cfg.value = .ok ())
--     (hla : listsAssociative sc live.type live.value = true) (hra : listsAssociative sc cfg.type cfg.value = true)
--     (happly : apply u sc live cfg ver m mgr force = .ok (obj, mf))
--     (hx : Nodes.valueAt sc live.type live.value p = some x) (hsilent : RSilent sc cfg.type cfg.value p)
--     (hni : ∀ pe ∈ p, PE.isIndex pe = false)
--     (hkl : keysScalar sc live.type live.value = true) (hkr : keysScalar sc cfg.type cfg.value = true) :
--     let result : Value := match obj with | some o => o.value | none => live.value
--     (Nodes.valueAt sc live.type result p).isSome = true ∧
--       (x.isScalar = true → Nodes.valueAt sc live.type result p = some x)

/-- the statement of `first_apply_keeps_unmentioned` as originally written -/
def FirstApplyKeepsUnmentionedStatement : Prop :=
  ∀ (u : Updater) (sc : Schema) (live cfg : TV) (ver : String) (m m0 : Managed)
    (mgr : String) (force : Bool) (obj : Option TV) (mf : Managed) (p : Path) (x : Value),
    reconcileManaged u sc live m = .ok m0 → mfGet m0 mgr = none →
    live.type = cfg.type →
    validateV sc true live.type live.value = .ok () → validateV sc false cfg.type cfg.value = .ok () →
    listsAssociative sc live.type live.value = true → listsAssociative sc cfg.type cfg.value = true →
    apply u sc live cfg ver m mgr force = .ok (obj, mf) →
    Nodes.valueAt sc live.type live.value p = some x → RSilent sc cfg.type cfg.value p →
    (∀ pe ∈ p, PE.isIndex pe = false) →
    keysScalar sc live.type live.value = true → keysScalar sc cfg.type cfg.value = true →
    let result : Value := match obj with | some o => o.value | none => live.value
    (Nodes.valueAt sc live.type result p).isSome = true ∧
      (x.isScalar = true → Nodes.valueAt sc live.type result p = some x)

/-- `first_apply_keeps_unmentioned` as originally stated does not hold: (A) an atomic map on the way -/
example : ¬ FirstApplyKeepsUnmentionedStatement := by
  intro h
  have h1 := (h Counter02.upd ⟨[]⟩ Counter02.aLive Counter02.aCfg "v" [] [] "m" true _ _ Counter02.aPath (.int 1)
    Counter02.a_reconcile rfl rfl Counter02.a_valid_left Counter02.a_valid_right Counter02.a_assoc_left
    Counter02.a_assoc_right Counter02.a_apply Counter02.a_at_left ⟨Counter02.a_at_right, Counter02.a_above⟩
    Counter02.a_no_index Counter02.a_keys_left Counter02.a_keys_right).1
  have h2 : Nodes.valueAt ⟨[]⟩ Counter02.aLive.type Counter02.aOut Counter02.aPath = none := Counter02.a_at_out
  simp only [] at h1
  rw [h2] at h1
  cases h1

/-- … (B) a right list over a left map in a type that allows both -/
example : ¬ FirstApplyKeepsUnmentionedStatement := by
  intro h
  have h1 := (h Counter02.upd ⟨[]⟩ Counter02.bLive Counter02.bCfg "v" [] [] "m" true _ _ Counter02.bPath (.int 1)
    Counter02.b_reconcile rfl rfl Counter02.b_valid_left Counter02.b_valid_right Counter02.b_assoc_left
    Counter02.b_assoc_right Counter02.b_apply Counter02.b_at_left ⟨Counter02.b_at_right, Counter02.b_above⟩
    Counter02.b_no_index Counter02.b_keys_left Counter02.b_keys_right).1
  have h2 : Nodes.valueAt ⟨[]⟩ Counter02.bLive.type Counter02.bOut Counter02.bPath = none := Counter02.b_at_out
  simp only [] at h1
  rw [h2] at h1
  cases h1

/-- … (C) an item repeated in the live list: the applied item replaces both repeats -/
example : ¬ FirstApplyKeepsUnmentionedStatement := by
  intro h
  have h1 := (h Counter02.upd ⟨[]⟩ Counter02.cLive Counter02.cCfg "v" [] [] "m" true _ _ Counter02.cPath (.int 2)
    Counter02.c_reconcile rfl rfl Counter02.c_valid_left Counter02.c_valid_right Counter02.c_assoc_left
    Counter02.c_assoc_right Counter02.c_apply Counter02.c_at_left ⟨Counter02.c_at_right, Counter02.c_above⟩
    Counter02.c_no_index Counter02.c_keys_left Counter02.c_keys_right).1
  have h2 : Nodes.valueAt ⟨[]⟩ Counter02.cLive.type Counter02.cOut Counter02.cPath = none := Counter02.c_at_out
  simp only [] at h1
  rw [h2] at h1
  cases h1

/-- C02 for a manager's first apply where the merge of the configuration over the live object descends
along `p` (`mergeDescends`): every value of the live object the configuration says nothing about is
kept, whoever owns it -/
theorem first_apply_keeps_unmentioned_of_granular (u : Updater) (sc : Schema) (live cfg : TV) (ver : String)
    (m m0 : Managed)
    (mgr : String) (force : Bool) (obj : Option TV) (mf : Managed) (p : Path) (x : Value)
    (hrec : reconcileManaged u sc live m = .ok m0) (hfirst : mfGet m0 mgr = none)
    (htype : live.type = cfg.type)
    (hl : validateV sc true live.type live.value = .ok ()) (hr : validateV sc false cfg.type cfg.value = .ok ())
    (hla : listsAssociative sc live.type live.value = true) (hra : listsAssociative sc cfg.type cfg.value = true)
    (happly : apply u sc live cfg ver m mgr force = .ok (obj, mf))
    (hx : Nodes.valueAt sc live.type live.value p = some x) (hsilent : RSilent sc cfg.type cfg.value p)
    (hni : ∀ pe ∈ p, PE.isIndex pe = false)
    (hkl : keysScalar sc live.type live.value = true) (hkr : keysScalar sc cfg.type cfg.value = true)
    (hdesc : mergeDescends sc live.type live.value cfg.value p = true) :
    let result : Value := match obj with | some o => o.value | none => live.value
    (Nodes.valueAt sc live.type result p).isSome = true ∧
      (x.isScalar = true → Nodes.valueAt sc live.type result p = some x) := by
  intro result
  cases obj with
  | none => exact ⟨by simp only [result, hx]; rfl, fun _ => hx⟩
  | some o =>
    have hm := first_apply_mergeNode u sc live cfg ver m m0 mgr force _ mf hrec hfirst htype happly o rfl
    rw [htype] at hl hla hkl hx hdesc ⊢
    exact merge_left_kept_of_granular sc cfg.type live.value cfg.value o.value _ p x
      hl hr hla hra hm hx hsilent hni hkl hkr hdesc

end SMD.C02
