/-
C02 / C03 for every apply (single version, identity converter, no ignore configuration):
* a scalar field owned by another manager, about which the configuration is silent, keeps its value
  through merge AND pruning (C02: "every field owned by another manager keeps its value unless the
  configuration itself sets it");
* a scalar leaf the applier applied before, omits now and nobody owns is absent from the result
  (C03: "that field … is absent from the result").

The first statement as first written is false of the model (kernel-checked refutation below): `apply`
prunes against the RECONCILED managed fields (`reconcileManagedFieldsWithSchemaChanges`), and the reconcile
step follows the schema alone; in a type that allows both a list and a map it can take a granular keyed
list of the live object for a map of atomic maps and collapse what the other managers own beneath an item
to the item itself.  It is proved for managed fields the reconcile step leaves as they are
(`…_of_reconciled`), and, more generally, with the ownership of the way stated on the reconciled records
(`…_of_way_reconciled`).  The second statement holds as written.
-/
import SMD.Proofs.ApplyFrame
import SMD.Proofs.ApplyFrameCounterexamples
-- the hypotheses of the original statements are kept even where the proofs do not need them
set_option linter.unusedVariables false
namespace SMD.C02
open NodeLaws

-- STATEMENT-FALSE: world R of SMD/Proofs/ApplyFrameCounterexamples.lean (empty schema, identity converter,
--   nothing ignored): the object is a struct {l, g}; the type of `l` allows a list keyed by `name` (items
--   {name, x}) AND a granular map of atomic maps.  live = {g: 0, l: [{name: c, x: 1}]}, cfg = {g: 0},
--   m = [a ↦ {.l[name=c].x, .g} (applied), o ↦ {.l, .l[name=c], .l[name=c].name, .l[name=c].x}] at "v",
--   "a" applies at "v" (forced), p = .l[name=c].x, x = 1.  The reconcile step (which dispatches on the
--   schema, map first) turns the records into a ↦ {.g, .l[name=c]}, o ↦ {.l, .l[name=c]}; pruning then
--   empties and removes the item: the object returned is {g: 0, l: null}, where p designates nothing.
-- /-- another manager's scalar field survives any apply that does not mention it -/
-- theorem apply_keeps_others_values (u : Updater) (sc : Schema) (live cfg : TV) (v : String) (m : Managed)
--     (mgr other : String) (force : Bool) (obj : TV) (mf : Managed) (p : Path) (x : Value) (vs : VersionedSet)
--     (hconv : u.converter = Converter.identity) (hig : ∀ w, u.ignore w = none)
--     (hall : C03.AllAt v m) (htype : live.type = cfg.type)
--     (hl : validateV sc false live.type live.value = .ok ()) (hr : validateV sc false cfg.type cfg.value = .ok ())
--     (hmwf : ∀ r ∈ m, r.2.set.wf = true)
--     (happly : apply u sc live cfg v m mgr force = .ok (some obj, mf))
--     (hother : other ≠ mgr) (hvs : mfGet m other = some vs) (hown : vs.set.has p = true)
--     (hway : ∀ q, q <+: p → q ≠ [] → ∃ r ∈ m, r.1 ≠ mgr ∧ (r.2.set.ensureNamed sc live.type).has q = true)
--     (hkeys : ∀ q ∈ keyFieldPaths p, ∃ r ∈ m, r.1 ≠ mgr ∧ (r.2.set.ensureNamed sc live.type).has q = true)
--     (hx : Nodes.valueAt sc live.type live.value p = some x) (hleaf : x.isScalar = true)
--     (hsilent : RSilent sc cfg.type cfg.value p)
--     (hdesc : mergeDescends sc live.type live.value cfg.value p = true)
--     (hni : ∀ pe ∈ p, PE.isIndex pe = false)
--     (hatomic : throughAtomic sc live.type live.value p = false)
--     (hnd : nkdOn sc live.type live.value p = true)
--     (hkl : keysScalar sc live.type live.value = true) (hkr : keysScalar sc cfg.type cfg.value = true) :
--     Nodes.valueAt sc live.type obj.value p = some x

/-- `apply_keeps_others_values` as originally stated does not hold (the reconcile step collapses what the
other manager owns beneath a list item in a type that allows both a list and a map) -/
example : ¬ (∀ (u : Updater) (sc : Schema) (live cfg : TV) (v : String) (m : Managed)
    (mgr other : String) (force : Bool) (obj : TV) (mf : Managed) (p : Path) (x : Value) (vs : VersionedSet),
    u.converter = Converter.identity → (∀ w, u.ignore w = none) →
    C03.AllAt v m → live.type = cfg.type →
    validateV sc false live.type live.value = .ok () → validateV sc false cfg.type cfg.value = .ok () →
    (∀ r ∈ m, r.2.set.wf = true) →
    apply u sc live cfg v m mgr force = .ok (some obj, mf) →
    other ≠ mgr → mfGet m other = some vs → vs.set.has p = true →
    (∀ q, q <+: p → q ≠ [] → ∃ r ∈ m, r.1 ≠ mgr ∧ (r.2.set.ensureNamed sc live.type).has q = true) →
    (∀ q ∈ keyFieldPaths p, ∃ r ∈ m, r.1 ≠ mgr ∧ (r.2.set.ensureNamed sc live.type).has q = true) →
    Nodes.valueAt sc live.type live.value p = some x → x.isScalar = true →
    RSilent sc cfg.type cfg.value p →
    mergeDescends sc live.type live.value cfg.value p = true →
    (∀ pe ∈ p, PE.isIndex pe = false) →
    throughAtomic sc live.type live.value p = false →
    nkdOn sc live.type live.value p = true →
    keysScalar sc live.type live.value = true → keysScalar sc cfg.type cfg.value = true →
    Nodes.valueAt sc live.type obj.value p = some x) := by
  intro h
  have h1 := h CounterPrune.upd CounterPrune.sc0 CounterApplyFrame.liveR CounterApplyFrame.cfgR "v"
    CounterApplyFrame.mR "a" "o" true CounterApplyFrame.outR CounterApplyFrame.mfR CounterApplyFrame.pR (.int 1)
    CounterApplyFrame.vsOR rfl (fun _ => rfl) CounterApplyFrame.r_allAt rfl CounterApplyFrame.r_valid_live
    CounterApplyFrame.r_valid_cfg CounterApplyFrame.r_wf CounterApplyFrame.r_apply (by decide)
    CounterApplyFrame.r_get CounterApplyFrame.r_owned CounterApplyFrame.r_way CounterApplyFrame.r_keys
    CounterApplyFrame.r_at_live rfl CounterApplyFrame.r_silent CounterApplyFrame.r_descends
    CounterApplyFrame.r_no_index CounterApplyFrame.r_atomic CounterApplyFrame.r_nkd
    CounterApplyFrame.r_keys_live CounterApplyFrame.r_keys_cfg
  rw [CounterApplyFrame.r_at_out] at h1
  cases h1

/-- another manager's scalar field survives any apply that does not mention it, the ownership of the way
(every prefix of the path, every key field of a list item on the way) being stated on the managed fields
`m0` the reconcile step returns — those `apply` prunes against -/
theorem apply_keeps_others_values_of_way_reconciled (u : Updater) (sc : Schema) (live cfg : TV) (v : String)
    (m m0 : Managed)
    (mgr other : String) (force : Bool) (obj : TV) (mf : Managed) (p : Path) (x : Value) (vs : VersionedSet)
    (hconv : u.converter = Converter.identity) (hig : ∀ w, u.ignore w = none)
    (hall : C03.AllAt v m) (htype : live.type = cfg.type)
    (hl : validateV sc false live.type live.value = .ok ()) (hr : validateV sc false cfg.type cfg.value = .ok ())
    (hmwf : ∀ r ∈ m, r.2.set.wf = true)
    (hrec : reconcileManaged u sc live m = .ok m0)
    (happly : apply u sc live cfg v m mgr force = .ok (some obj, mf))
    (hother : other ≠ mgr) (hvs : mfGet m0 other = some vs) (hown : vs.set.has p = true)
    (hway : ∀ q, q <+: p → q ≠ [] → ∃ r ∈ m0, r.1 ≠ mgr ∧ (r.2.set.ensureNamed sc live.type).has q = true)
    (hkeys : ∀ q ∈ keyFieldPaths p, ∃ r ∈ m0, r.1 ≠ mgr ∧ (r.2.set.ensureNamed sc live.type).has q = true)
    (hx : Nodes.valueAt sc live.type live.value p = some x) (hleaf : x.isScalar = true)
    (hsilent : RSilent sc cfg.type cfg.value p)
    (hdesc : mergeDescends sc live.type live.value cfg.value p = true)
    (hni : ∀ pe ∈ p, PE.isIndex pe = false)
    (hatomic : throughAtomic sc live.type live.value p = false)
    (hnd : nkdOn sc live.type live.value p = true)
    (hkl : keysScalar sc live.type live.value = true) (hkr : keysScalar sc cfg.type cfg.value = true) :
    Nodes.valueAt sc live.type obj.value p = some x :=
  apply_keeps_others_values_core u sc live cfg v m m0 mgr force obj mf p x hconv hig hall htype hl hr hmwf hrec
    happly hway hkeys hx hleaf hsilent hdesc hni hatomic hnd hkl hkr

/-- another manager's scalar field survives any apply that does not mention it, when the reconcile step
leaves the managed fields as they are (no recorded path lies beneath a field the schema makes atomic) -/
theorem apply_keeps_others_values_of_reconciled (u : Updater) (sc : Schema) (live cfg : TV) (v : String)
    (m : Managed)
    (mgr other : String) (force : Bool) (obj : TV) (mf : Managed) (p : Path) (x : Value) (vs : VersionedSet)
    (hconv : u.converter = Converter.identity) (hig : ∀ w, u.ignore w = none)
    (hall : C03.AllAt v m) (htype : live.type = cfg.type)
    (hl : validateV sc false live.type live.value = .ok ()) (hr : validateV sc false cfg.type cfg.value = .ok ())
    (hmwf : ∀ r ∈ m, r.2.set.wf = true)
    (happly : apply u sc live cfg v m mgr force = .ok (some obj, mf))
    (hother : other ≠ mgr) (hvs : mfGet m other = some vs) (hown : vs.set.has p = true)
    (hway : ∀ q, q <+: p → q ≠ [] → ∃ r ∈ m, r.1 ≠ mgr ∧ (r.2.set.ensureNamed sc live.type).has q = true)
    (hkeys : ∀ q ∈ keyFieldPaths p, ∃ r ∈ m, r.1 ≠ mgr ∧ (r.2.set.ensureNamed sc live.type).has q = true)
    (hx : Nodes.valueAt sc live.type live.value p = some x) (hleaf : x.isScalar = true)
    (hsilent : RSilent sc cfg.type cfg.value p)
    (hdesc : mergeDescends sc live.type live.value cfg.value p = true)
    (hni : ∀ pe ∈ p, PE.isIndex pe = false)
    (hatomic : throughAtomic sc live.type live.value p = false)
    (hnd : nkdOn sc live.type live.value p = true)
    (hkl : keysScalar sc live.type live.value = true) (hkr : keysScalar sc cfg.type cfg.value = true)
    (hrec : reconcileManaged u sc live m = .ok m) :
    Nodes.valueAt sc live.type obj.value p = some x :=
  apply_keeps_others_values_core u sc live cfg v m m mgr force obj mf p x hconv hig hall htype hl hr hmwf hrec
    happly hway hkeys hx hleaf hsilent hdesc hni hatomic hnd hkl hkr

open CounterPrune CounterApplyFrame FW in
/-- non-vacuity (the world of finding D11): u1's `.l[name=c].sub[=1]` keeps its value through a1's re-apply of
`{l: [{name: c}]}` (all hypotheses of `apply_keeps_others_values_of_reconciled` hold on this instance) -/
example : Nodes.valueAt sc (tv objSub01).type (tv objSub1).value pathSub1 = some (.int 1) :=
  apply_keeps_others_values_of_reconciled plain sc (tv objSub01) (tv cfgBare) "v1" nvBefore2 "a1" "u1" false
    (tv objSub1) nvAfter2 pathSub1 (.int 1) vsU rfl (fun _ => rfl) nv2_allAt rfl nv_valid_live nv_valid_cfg nv2_wf
    nv2_apply (by decide) nv2_get nv2_owned nv2_way nv2_keys nv_sub_at_merged rfl nv2_silent nv2_descends
    nv_sub_no_index nv_sub_atomic nv_sub_nkd nv_keys_live nv_keys_cfg nv2_reconcile

end SMD.C02

namespace SMD.C03
open NodeLaws

/-- what the applier applied before, omits now and nobody (its new record included) owns is gone: a
scalar leaf path of the previous record that no record of `managers` contains, and whose removal is
not undone by the dangling-items rule, designates nothing in the pruned object -/
theorem prune_removes_abandoned (u : Updater) (sc : Schema) (merged out : TV) (managers : Managed) (mgr : String)
    (last : VersionedSet) (v : String) (p : Path) (x : Value)
    (hconv : u.converter = Converter.identity)
    (hall : AllAt v managers) (hlast : last.version = v)
    (hvalid : validateV sc false merged.type merged.value = .ok ())
    (hmwf : ∀ r ∈ managers, r.2.set.wf = true) (hlwf : last.set.wf = true)
    (hprune : prune u sc merged managers mgr (some last) = .ok out)
    (hlastp : last.set.has p = true)
    (hnobody : ∀ r ∈ managers, (r.2.set.ensureNamed sc merged.type).has p = false)
    (hx : Nodes.valueAt sc merged.type merged.value p = some x) (hleaf : x.isScalar = true)
    (hni : ∀ pe ∈ p, PE.isIndex pe = false)
    (hatomic : throughAtomic sc merged.type merged.value p = false)
    (hnd : nkdOn sc merged.type merged.value p = true)
    (hks : keysScalar sc merged.type merged.value = true)
    (hnokey : ∀ q ∈ keyFieldPaths p, q ≠ p) :
    Nodes.valueAt sc out.type out.value p = none :=
  prune_removes_abandoned_leaf u sc merged out managers mgr last v p x hconv hall hlast hvalid hmwf hlwf hprune
    hlastp hnobody hx hleaf hni hatomic hnd hks

open CounterPrune CounterApplyFrame FW in
/-- non-vacuity (the world of finding D11): the member `.l[name=c].sub[=0]` a1 applied before and omits now is
gone (all hypotheses of `prune_removes_abandoned` hold on this instance) -/
example : Nodes.valueAt sc (tv objSub1).type (tv objSub1).value pathSub0 = none :=
  prune_removes_abandoned plain sc (tv objSub01) (tv objSub1) nvManagers "a1" nvLast "v1" pathSub0 (.int 0)
    rfl nv_allAt rfl nv_valid_live nv_wf nv_wf_last nv_prune nv_sub0_last nv_sub0_nobody nv_sub0_at_merged rfl
    nv_sub0_no_index nv_sub0_atomic nv_sub0_nkd nv_keys_live nv_sub0_nokey

end SMD.C03
