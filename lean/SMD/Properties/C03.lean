/-
C03 — fields a manager stops applying are removed (clause "a manager's first apply removes nothing",
as a code-shape theorem: without a previous record nothing is pruned, the object is the merge of the
configuration over the live object, and merging never removes — C12). The removal clauses are
evaluated on the implementation by the C03 judges of the `upd` domain.
-/
import SMD.Proofs.UpdaterShape
import SMD.Proofs.FirstApply
namespace SMD.C03

/-- without a previous record of the applier, prune is the identity -/
theorem prune_without_previous_record (u : Updater) (sc : Schema) (merged : TV) (m : Managed) (mgr : String) :
    prune u sc merged m mgr none = .ok merged := prune_none u sc merged m mgr

/-- a manager's first apply returns the plain merge of its configuration over the live object (or
nothing when that equals the live object): nothing is pruned -/
theorem first_apply_is_merge (u : Updater) (sc : Schema) (live cfg : TV) (ver : String) (m m0 : Managed)
    (mgr : String) (force : Bool) (obj : Option TV) (mf : Managed)
    (hrec : reconcileManaged u sc live m = .ok m0) (hfirst : mfGet m0 mgr = none) :
    apply u sc live cfg ver m mgr force = .ok (obj, mf) →
      ∃ merged, mergeTV sc live cfg = .ok merged ∧
        (obj = some merged ∨ (obj = none ∧ Value.equals live.value merged.value = true)) :=
  apply_of_prune_id u sc live cfg ver m m0 mgr force obj mf hrec
    (fun merged ms => by rw [hfirst]; exact prune_none u sc merged ms mgr)

/-- the same holds when the previous record is empty -/
theorem apply_with_empty_record_is_merge (u : Updater) (sc : Schema) (live cfg : TV) (ver : String) (m m0 : Managed)
    (mgr : String) (force : Bool) (obj : Option TV) (mf : Managed) (last : VersionedSet)
    (hrec : reconcileManaged u sc live m = .ok m0) (hlast : mfGet m0 mgr = some last) (hempty : last.set.isEmpty = true) :
    apply u sc live cfg ver m mgr force = .ok (obj, mf) →
      ∃ merged, mergeTV sc live cfg = .ok merged ∧
        (obj = some merged ∨ (obj = none ∧ Value.equals live.value merged.value = true)) :=
  apply_of_prune_id u sc live cfg ver m m0 mgr force obj mf hrec
    (fun merged ms => by rw [hlast]; exact prune_empty u sc merged ms mgr last hempty)

end SMD.C03
