/-
C01 / C02 / C03 beyond the first apply — what pruning keeps: whatever a manager (another one, or the
applier through its new record) owns is kept by `prune`; consequently an applied configuration
survives the pruning of what the applier abandoned (C01), and fields owned by other managers keep
their values (C02). Single version: every record, the previous record of the applier included, is at
one version and the converter is the identity.

None of the three statements holds of the model as first written.  Each original is kept as a comment
(`STATEMENT-FALSE`) with concrete counterexamples (`SMD/Proofs/PruneCounterexamples.lean`, evaluated by
the kernel), each is refuted by a kernel-checked `example`, and the closest true statement is proved
under a new name, for the scalar leaves of the object, with the extra hypotheses:

* the recorded sets satisfy the representation invariant `SetTrie.wf` (the set algebra is only
  meaningful on such tries);
* an owned leaf survives only if the way to it is owned: every prefix of its path, and every key field of
  a list item on the way, is in the closed set (`ensureNamed`) of some record — an updater can own a leaf
  beneath an item nobody owns any more, and the leaf is pruned with the item (`dangling`); the key
  fields matter because an item that loses a key field loses its identity;
* the path has no index element, passes through no atomic node (C14), and through no keyed list whose
  key fields have schema defaults (`nkdOn`): an item that loses a key field with a default takes the
  default identity and can shadow another item (`collide`), or keep its identity while becoming `null`
  (`defaulted`);
* the key fields the items of the merged object carry are scalars (`keysScalar`, as in C01);
* the node is a scalar: a container an updater owns can be emptied down to something whose field set is
  empty, and is then removed by the third stage (`struct`).

For `apply` the hypotheses about the way hold by construction (the field set of the configuration, closed
under named parents, contains every prefix of a path to one of its leaves and the key fields of the items
on the way: `closed_fieldset_has` of SMD/Proofs/ApplyPrune.lean), and the merged object is valid with scalar key fields
(`mergeTV_valid`), so only the well-formedness of the recorded sets and the conditions on the path remain.
-/
import SMD.Proofs.PruneLaws
import SMD.Proofs.ApplyPrune
import SMD.Proofs.PruneCounterexamples
-- the hypotheses of the original statements are kept even where the proofs do not need them (`hown`: the
-- proof uses `hway`, which also covers the path itself)
set_option linter.unusedVariables false
namespace SMD.C03
open NodeLaws

/-- every record is at version `v` -/
def AllAt (v : String) (m : Managed) : Prop := ∀ x ∈ m, x.2.version = v

/-! ### (1) `prune` keeps what is owned -/

-- STATEMENT-FALSE: (a) `dangling` (world K of SMD/Proofs/PruneCounterexamples.lean: empty schema, a map
--   of lists keyed by `name`, identity converter): merged = {l: [{name: c, x: 1}]}, managers = [o ↦ {.l[name=c].x}],
--   last = {.l[name=c], .l[name=c].name}, p = .l[name=c].x, x = 1: prune returns {l: null}, p designates
--   nothing.  (b) `struct` (world S: {spec: {a, b}}): merged = {spec: {a: 1, b: []}}, managers = [o ↦ {.spec}],
--   last = {.spec.a}, p = .spec: prune returns null.
-- /-- `prune` keeps what is owned: a node of the merged object designated by a path that some record of
-- `managers` (the applier's new record is one of them) contains is a node of the pruned object, scalars
-- with the same value -/
-- theorem prune_keeps_owned (u : Updater) (sc : Schema) (merged out : TV) (managers : Managed) (mgr : String)
--     (last : VersionedSet) (v : String) (p : Path) (x : Value)
--     (hconv : u.converter = Converter.identity)
--     (hall : AllAt v managers) (hlast : last.version = v)
--     (hvalid : validateV sc false merged.type merged.value = .ok ())
--     (hprune : prune u sc merged managers mgr (some last) = .ok out)
--     (hown : ∃ r ∈ managers, r.2.set.has p = true)
--     (hx : Nodes.valueAt sc merged.type merged.value p = some x) :
--     (Nodes.valueAt sc out.type out.value p).isSome = true ∧
--       (x.isScalar = true → Nodes.valueAt sc out.type out.value p = some x)

/-- (a) an owned leaf beneath an item nobody owns any more is pruned with the item -/
example : ¬ (∀ (u : Updater) (sc : Schema) (merged out : TV) (managers : Managed) (mgr : String)
    (last : VersionedSet) (v : String) (p : Path) (x : Value),
    u.converter = Converter.identity → AllAt v managers → last.version = v →
    validateV sc false merged.type merged.value = .ok () →
    prune u sc merged managers mgr (some last) = .ok out →
    (∃ r ∈ managers, r.2.set.has p = true) →
    Nodes.valueAt sc merged.type merged.value p = some x →
    (Nodes.valueAt sc out.type out.value p).isSome = true ∧
      (x.isScalar = true → Nodes.valueAt sc out.type out.value p = some x)) := by
  intro h
  have h1 := (h CounterPrune.upd CounterPrune.sc0 CounterPrune.mergedC CounterPrune.outC CounterPrune.mgrsC "a"
    CounterPrune.lastC "v" CounterPrune.pC (.int 1) rfl CounterPrune.dangling_allAt rfl CounterPrune.dangling_valid
    CounterPrune.dangling_prune CounterPrune.dangling_owned CounterPrune.dangling_at_merged).1
  rw [CounterPrune.dangling_at_out] at h1
  cases h1

/-- (b) an owned container is removed when what is left of it has an empty field set -/
example : ¬ (∀ (u : Updater) (sc : Schema) (merged out : TV) (managers : Managed) (mgr : String)
    (last : VersionedSet) (v : String) (p : Path) (x : Value),
    u.converter = Converter.identity → AllAt v managers → last.version = v →
    validateV sc false merged.type merged.value = .ok () →
    prune u sc merged managers mgr (some last) = .ok out →
    (∃ r ∈ managers, r.2.set.has p = true) →
    Nodes.valueAt sc merged.type merged.value p = some x →
    (Nodes.valueAt sc out.type out.value p).isSome = true ∧
      (x.isScalar = true → Nodes.valueAt sc out.type out.value p = some x)) := by
  intro h
  have h1 := (h CounterPrune.upd CounterPrune.sc0 CounterPrune.mergedS CounterPrune.outS CounterPrune.mgrsS "a"
    CounterPrune.lastS "v" CounterPrune.pS _ rfl CounterPrune.struct_allAt rfl CounterPrune.struct_valid
    CounterPrune.struct_prune CounterPrune.struct_owned CounterPrune.struct_at_merged).1
  rw [CounterPrune.struct_at_out] at h1
  cases h1

/-- `prune` keeps the owned scalars whose way is owned: a scalar of the merged object at a path that some
record contains is in the pruned object with the same value, when every prefix of the path and every
key field of a list item on the way (`keyFieldPaths`) is in the closed set of some record (the path
without index element, through no atomic node and no keyed list with key defaults; scalar key fields) -/
theorem prune_keeps_owned_of_way_owned (u : Updater) (sc : Schema) (merged out : TV) (managers : Managed)
    (mgr : String) (last : VersionedSet) (v : String) (p : Path) (x : Value)
    (hconv : u.converter = Converter.identity)
    (hall : AllAt v managers) (hlast : last.version = v)
    (hvalid : validateV sc false merged.type merged.value = .ok ())
    (hprune : prune u sc merged managers mgr (some last) = .ok out)
    (hown : ∃ r ∈ managers, r.2.set.has p = true)
    (hx : Nodes.valueAt sc merged.type merged.value p = some x)
    (hmwf : ∀ r ∈ managers, r.2.set.wf = true) (hlwf : last.set.wf = true)
    (hway : ∀ q, q <+: p → q ≠ [] → ∃ r ∈ managers, (r.2.set.ensureNamed sc merged.type).has q = true)
    (hkeys : ∀ q ∈ keyFieldPaths p, ∃ r ∈ managers, (r.2.set.ensureNamed sc merged.type).has q = true)
    (hni : ∀ pe ∈ p, PE.isIndex pe = false)
    (hatomic : throughAtomic sc merged.type merged.value p = false)
    (hnd : nkdOn sc merged.type merged.value p = true)
    (hks : keysScalar sc merged.type merged.value = true)
    (hleaf : x.isScalar = true) :
    (Nodes.valueAt sc out.type out.value p).isSome = true ∧
      (x.isScalar = true → Nodes.valueAt sc out.type out.value p = some x) := by
  have := prune_keeps_owned_leaf u sc merged out managers mgr last v p x hconv hall hlast hvalid hprune hx
    hmwf hlwf hway (fun q hq => hkeys q (by rw [← keyPaths_eq_keyFieldPaths]; exact hq)) hni hatomic hnd hks hleaf
  exact ⟨by rw [this]; rfl, fun _ => this⟩

/-! ### (2) `prune` removes nothing outside the applier's previous record -/

-- STATEMENT-FALSE: (a) `collide` (world K, the key field `name` of the items has the schema default "d"):
--   merged = {l: [{name: a, x: 1}, {name: d, x: 2}]}, managers = [], last = {.l[name=a].name},
--   p = .l[name=d].x, x = 2: prune returns {l: [{x: 1}, {name: d, x: 2}]}, where p designates 1.
--   (b) `defaulted`: merged = {l: [{x: 1}]} (the item's key is the default name=d), managers = [],
--   last = {.l[name=d].x}, p = .l[name=d]: prune returns {l: [null]}, p designates nothing.
-- /-- `prune` removes nothing but what the applier's previous record (with its named parents) contains,
-- or lies beneath it: a node of the merged object at a path no prefix of which is in the previous record
-- is a node of the pruned object -/
-- theorem prune_keeps_outside_last (u : Updater) (sc : Schema) (merged out : TV) (managers : Managed) (mgr : String)
--     (last : VersionedSet) (v : String) (p : Path) (x : Value)
--     (hconv : u.converter = Converter.identity)
--     (hall : AllAt v managers) (hlast : last.version = v)
--     (hvalid : validateV sc false merged.type merged.value = .ok ())
--     (hprune : prune u sc merged managers mgr (some last) = .ok out)
--     (houtside : ∀ q, q <+: p → q ≠ [] → (last.set.ensureNamed sc merged.type).has q = false)
--     (hx : Nodes.valueAt sc merged.type merged.value p = some x) :
--     (Nodes.valueAt sc out.type out.value p).isSome = true ∧
--       (x.isScalar = true → Nodes.valueAt sc out.type out.value p = some x)

/-- (a) an item that loses a key field with a schema default shadows the item of that identity -/
example : ¬ (∀ (u : Updater) (sc : Schema) (merged out : TV) (managers : Managed) (mgr : String)
    (last : VersionedSet) (v : String) (p : Path) (x : Value),
    u.converter = Converter.identity → AllAt v managers → last.version = v →
    validateV sc false merged.type merged.value = .ok () →
    prune u sc merged managers mgr (some last) = .ok out →
    (∀ q, q <+: p → q ≠ [] → (last.set.ensureNamed sc merged.type).has q = false) →
    Nodes.valueAt sc merged.type merged.value p = some x →
    (Nodes.valueAt sc out.type out.value p).isSome = true ∧
      (x.isScalar = true → Nodes.valueAt sc out.type out.value p = some x)) := by
  intro h
  have h1 := (h CounterPrune.upd CounterPrune.sc0 CounterPrune.mergedB CounterPrune.outB [] "m"
    CounterPrune.lastB "v" CounterPrune.pB (.int 2) rfl (fun x hx => by cases hx) rfl CounterPrune.collide_valid
    CounterPrune.collide_prune CounterPrune.collide_outside CounterPrune.collide_at_merged).2 rfl
  rw [CounterPrune.collide_at_out] at h1
  cases h1

/-- (b) an item whose key is defaulted becomes `null` when its fields are removed -/
example : ¬ (∀ (u : Updater) (sc : Schema) (merged out : TV) (managers : Managed) (mgr : String)
    (last : VersionedSet) (v : String) (p : Path) (x : Value),
    u.converter = Converter.identity → AllAt v managers → last.version = v →
    validateV sc false merged.type merged.value = .ok () →
    prune u sc merged managers mgr (some last) = .ok out →
    (∀ q, q <+: p → q ≠ [] → (last.set.ensureNamed sc merged.type).has q = false) →
    Nodes.valueAt sc merged.type merged.value p = some x →
    (Nodes.valueAt sc out.type out.value p).isSome = true ∧
      (x.isScalar = true → Nodes.valueAt sc out.type out.value p = some x)) := by
  intro h
  have h1 := (h CounterPrune.upd CounterPrune.sc0 CounterPrune.mergedA CounterPrune.outA [] "m"
    CounterPrune.lastA "v" CounterPrune.pA _ rfl (fun x hx => by cases hx) rfl CounterPrune.defaulted_valid
    CounterPrune.defaulted_prune CounterPrune.defaulted_outside CounterPrune.defaulted_at_merged).1
  rw [CounterPrune.defaulted_at_out] at h1
  cases h1

/-- `prune` removes no scalar outside the applier's previous record: a scalar of the merged object at a
path no prefix of which is in the closed previous record, the key fields of the list items on the way
(`keyFieldPaths`) being outside it too, is in the pruned object with the same value (the path without
index element, through no atomic node and no keyed list with key defaults; scalar key fields) -/
theorem prune_keeps_outside_last_of_keys_outside (u : Updater) (sc : Schema) (merged out : TV)
    (managers : Managed) (mgr : String) (last : VersionedSet) (v : String) (p : Path) (x : Value)
    (hconv : u.converter = Converter.identity)
    (hall : AllAt v managers) (hlast : last.version = v)
    (hvalid : validateV sc false merged.type merged.value = .ok ())
    (hprune : prune u sc merged managers mgr (some last) = .ok out)
    (houtside : ∀ q, q <+: p → q ≠ [] → (last.set.ensureNamed sc merged.type).has q = false)
    (hx : Nodes.valueAt sc merged.type merged.value p = some x)
    (hlwf : last.set.wf = true)
    (hkeys : ∀ q ∈ keyFieldPaths p, (last.set.ensureNamed sc merged.type).has q = false)
    (hni : ∀ pe ∈ p, PE.isIndex pe = false)
    (hatomic : throughAtomic sc merged.type merged.value p = false)
    (hnd : nkdOn sc merged.type merged.value p = true)
    (hks : keysScalar sc merged.type merged.value = true)
    (hleaf : x.isScalar = true) :
    (Nodes.valueAt sc out.type out.value p).isSome = true ∧
      (x.isScalar = true → Nodes.valueAt sc out.type out.value p = some x) := by
  have := prune_keeps_outside_last_leaf u sc merged out managers mgr last v p x hconv hall hlast hvalid hprune
    houtside hx hlwf (fun q hq => hkeys q (by rw [← keyPaths_eq_keyFieldPaths]; exact hq)) hni hatomic hnd hks hleaf
  exact ⟨by rw [this]; rfl, fun _ => this⟩

/-! ### (3) C01 for every apply -/

-- STATEMENT-FALSE: `collide` (world K): live = {l: [{name: a, x: 1}, {name: d, x: 0}]},
--   cfg = {l: [{name: d, x: 2}]}, m = [m ↦ {.l[name=a].name}] at "v", manager "m" applies at "v" (forced):
--   the object returned is {l: [{x: 1}, {name: d, x: 2}]}; p = .l[name=d].x designates 2 in cfg and 1 in
--   the result.
-- /-- C01 in general (single version, no ignore configuration): after a successful apply every leaf the
-- configuration specifies is in the returned object with the configuration's value, whatever the applier
-- owned before and whatever it abandons now -/
-- theorem apply_config_takes_effect (u : Updater) (sc : Schema) (live cfg : TV) (v : String) (m : Managed)
--     (mgr : String) (force : Bool) (obj : TV) (mf : Managed) (p : Path) (x : Value)
--     (hconv : u.converter = Converter.identity) (hig : ∀ w, u.ignore w = none)
--     (hall : AllAt v m) (htype : live.type = cfg.type)
--     (hl : validateV sc false live.type live.value = .ok ()) (hr : validateV sc false cfg.type cfg.value = .ok ())
--     (happly : apply u sc live cfg v m mgr force = .ok (some obj, mf))
--     (hx : Nodes.valueAt sc cfg.type cfg.value p = some x) (hleaf : x.isScalar = true)
--     (hni : ∀ pe ∈ p, PE.isIndex pe = false)
--     (hkl : keysScalar sc live.type live.value = true) (hkr : keysScalar sc cfg.type cfg.value = true) :
--     Nodes.valueAt sc cfg.type obj.value p = some x

/-- `apply_config_takes_effect` as originally stated does not hold (key fields with schema defaults) -/
example : ¬ (∀ (u : Updater) (sc : Schema) (live cfg : TV) (v : String) (m : Managed)
    (mgr : String) (force : Bool) (obj : TV) (mf : Managed) (p : Path) (x : Value),
    u.converter = Converter.identity → (∀ w, u.ignore w = none) →
    AllAt v m → live.type = cfg.type →
    validateV sc false live.type live.value = .ok () → validateV sc false cfg.type cfg.value = .ok () →
    apply u sc live cfg v m mgr force = .ok (some obj, mf) →
    Nodes.valueAt sc cfg.type cfg.value p = some x → x.isScalar = true →
    (∀ pe ∈ p, PE.isIndex pe = false) →
    keysScalar sc live.type live.value = true → keysScalar sc cfg.type cfg.value = true →
    Nodes.valueAt sc cfg.type obj.value p = some x) := by
  intro h
  have h1 := h CounterPrune.upd CounterPrune.sc0 CounterPrune.liveB CounterPrune.cfgB "v" CounterPrune.mB "m" true
    CounterPrune.outB _ CounterPrune.pB (.int 2) rfl (fun _ => rfl) CounterPrune.collide_allAt rfl
    CounterPrune.collide_valid_live CounterPrune.collide_valid_cfg CounterPrune.collide_apply
    CounterPrune.collide_at_cfg rfl CounterPrune.collide_no_index CounterPrune.collide_keys_live
    CounterPrune.collide_keys_cfg
  rw [CounterPrune.collide_at_result] at h1
  cases h1

/-- C01 for every apply (single version, no ignore configuration): after a successful apply every scalar
the configuration specifies, at a path without index element that passes through no atomic node and no
keyed list with key defaults, is in the returned object with the configuration's value, whatever the
applier owned before and whatever it abandons now (the recorded sets satisfying the representation
invariant) -/
theorem apply_config_takes_effect_of_no_key_defaults (u : Updater) (sc : Schema) (live cfg : TV) (v : String)
    (m : Managed) (mgr : String) (force : Bool) (obj : TV) (mf : Managed) (p : Path) (x : Value)
    (hconv : u.converter = Converter.identity) (hig : ∀ w, u.ignore w = none)
    (hall : AllAt v m) (htype : live.type = cfg.type)
    (hl : validateV sc false live.type live.value = .ok ()) (hr : validateV sc false cfg.type cfg.value = .ok ())
    (happly : apply u sc live cfg v m mgr force = .ok (some obj, mf))
    (hx : Nodes.valueAt sc cfg.type cfg.value p = some x) (hleaf : x.isScalar = true)
    (hni : ∀ pe ∈ p, PE.isIndex pe = false)
    (hkl : keysScalar sc live.type live.value = true) (hkr : keysScalar sc cfg.type cfg.value = true)
    (hmwf : ∀ r ∈ m, r.2.set.wf = true)
    (hatomic : throughAtomic sc cfg.type cfg.value p = false)
    (hnd : nkdOn sc cfg.type cfg.value p = true) :
    Nodes.valueAt sc cfg.type obj.value p = some x :=
  apply_config_takes_effect_leaf' u sc live cfg v m mgr force obj mf p x hconv hig hall htype hl hr happly hx
    hleaf hni hkl hkr hmwf hatomic hnd

/-! ### non-vacuity of the re-proved laws: the world of finding D11

a1 applied `{l: [{name: c, sub: [0]}]}`, u1 added the item `1` to `sub`; a1 re-applies `{l: [{name: c}]}`
at the version of every record: `0` is pruned, u1's `1` stays, the configuration's `name` is there. -/

open CounterPrune FW in
/-- u1's item `.l[name=c].sub[=1]` survives the pruning (all hypotheses of `prune_keeps_owned_of_way_owned`
hold on this instance) -/
example : (Nodes.valueAt sc (tv objSub1).type (tv objSub1).value pathSub1).isSome = true ∧
    ((Value.int 1).isScalar = true → Nodes.valueAt sc (tv objSub1).type (tv objSub1).value pathSub1 = some (.int 1)) :=
  prune_keeps_owned_of_way_owned plain sc (tv objSub01) (tv objSub1) nvManagers "a1" nvLast "v1" pathSub1 (.int 1)
    rfl nv_allAt rfl nv_valid_live nv_prune nv_sub_owned nv_sub_at_merged nv_wf nv_wf_last nv_sub_way nv_sub_keys
    nv_sub_no_index nv_sub_atomic nv_sub_nkd nv_keys_live rfl

open CounterPrune FW in
/-- a leaf outside a1's previous record survives while `sub` is pruned -/
example : (Nodes.valueAt sc (tv nvWideOut).type (tv nvWideOut).value nvX).isSome = true ∧
    ((Value.int 1).isScalar = true → Nodes.valueAt sc (tv nvWideOut).type (tv nvWideOut).value nvX = some (.int 1)) :=
  prune_keeps_outside_last_of_keys_outside plain sc (tv nvWide) (tv nvWideOut) nvOne "a1" nvLast "v1" nvX (.int 1)
    rfl nv_wide_allAt rfl nv_wide_valid nv_wide_prune nv_wide_outside nv_wide_at nv_wf_last nv_wide_keys_outside
    nv_wide_no_index nv_wide_atomic nv_wide_nkd nv_wide_keys rfl

open CounterPrune FW in
/-- the configuration's `.l[name=c].name` is in the object the re-apply returns -/
example : Nodes.valueAt sc (tv cfgBare).type (tv objSub1).value nvName = some (.str "c") :=
  apply_config_takes_effect_of_no_key_defaults plain sc (tv objSub01) (tv cfgBare) "v1" nvBefore "a1" false
    (tv objSub1) nvManagers nvName (.str "c") rfl (fun _ => rfl) nv_allAt_before rfl nv_valid_live nv_valid_cfg
    nv_apply nv_name_at_cfg rfl nv_name_no_index nv_keys_live nv_keys_cfg nv_wf_before nv_name_atomic
    nv_name_nkd

end SMD.C03
