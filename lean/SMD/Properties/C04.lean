/-
C04 — conflicts are reported exactly; force overrides them.

Statements about `SMD.apply` / `SMD.updateCore` (`SMD/Model/Updater.lean`, the model of
`merge/update.go`), for every updater (converter, ignore configuration), schema, live object,
configuration, version, managed fields and manager — no reachability hypothesis is needed.
The model is tied to the Go code by the `upd` correspondence domain; the exactness of the conflict
*set* against an independent diff is evaluated on the implementation by the C04 judge.
-/
import SMD.Proofs.UpdaterShape
namespace SMD.C04

/-- a forced apply never reports a conflict -/
theorem force_never_conflicts (u : Updater) (sc : Schema) (live cfg : TV) (ver : String) (m : Managed)
    (mgr : String) (c : List (String × Path)) :
    apply u sc live cfg ver m mgr true ≠ .conflict c :=
  apply_force_ne_conflict u sc live cfg ver m mgr c

/-- whenever the non-forced apply succeeds it returns the same object and ownership as the forced one -/
theorem unforced_ok_eq_forced (u : Updater) (sc : Schema) (live cfg : TV) (ver : String) (m : Managed)
    (mgr : String) (r : Option TV × Managed) :
    apply u sc live cfg ver m mgr false = .ok r → apply u sc live cfg ver m mgr true = .ok r :=
  apply_unforced_ok u sc live cfg ver m mgr r

/-- a reported conflict list is never empty, and the forced apply of the same request succeeds -/
theorem conflict_nonempty_and_forced_ok (u : Updater) (sc : Schema) (live cfg : TV) (ver : String) (m : Managed)
    (mgr : String) (c : List (String × Path)) :
    apply u sc live cfg ver m mgr false = .conflict c →
      c ≠ [] ∧ ∃ r, apply u sc live cfg ver m mgr true = .ok r :=
  fun h =>
    let ⟨hne, _, hr⟩ := apply_unforced_conflict u sc live cfg ver m mgr c h
    ⟨hne, hr⟩

/-- the non-forced apply fails with a conflict exactly when the forced one succeeds but the set of
other managers' fields it changes or creates is non-empty: if the forced apply succeeds, the
non-forced one either succeeds with the same result or reports a (non-empty) conflict list -/
theorem forced_ok_unforced_ok_or_conflict (u : Updater) (sc : Schema) (live cfg : TV) (ver : String) (m : Managed)
    (mgr : String) (r : Option TV × Managed) :
    apply u sc live cfg ver m mgr true = .ok r →
      apply u sc live cfg ver m mgr false = .ok r ∨
      ∃ c, c ≠ [] ∧ apply u sc live cfg ver m mgr false = .conflict c :=
  apply_forced_ok u sc live cfg ver m mgr r

/-- every reported pair names a manager other than the applier (that the manager is recorded and owned
the path is part of `conflicts_exact`, C04Exact.lean) -/
theorem conflict_pairs_are_owned_by_others (sc : Schema) (live cfg : TV) (ver : String) (m : Managed)
    (mgr : String) (c : List (String × Path)) (u : Updater) :
    apply u sc live cfg ver m mgr false = .conflict c →
      ∀ x, x ∈ c → x.1 ≠ mgr :=
  fun h => (apply_unforced_conflict u sc live cfg ver m mgr c h).2.1

/-- an update never reports a conflict (it is always forced) -/
theorem update_never_conflicts (u : Updater) (sc : Schema) (live newObj : TV) (ver : String) (m : Managed)
    (mgr : String) (c : List (String × Path)) :
    update u sc live newObj ver m mgr ≠ .conflict c :=
  update_ne_conflict u sc live newObj ver m mgr c

end SMD.C04
