/-
C04 — "the conflict list is exactly the set of other managers' fields whose values the apply changes or
which it creates": exactness of the conflict set computed by `updateCore` (single comparison: identity
converter, so every manager's version sees the same comparison), and the laws of the exported helpers
`ManagedFields.Difference` / `Equals`, `ConflictsFromManagers`, `SetFromValue`.
-/
import SMD.Proofs.ConflictExact
import SMD.Properties.C12
namespace SMD.C04

/-- an unforced `updateCore` reports a conflict exactly when some other manager owns a path the
comparison reports modified or added, and the reported pairs are exactly those (manager, path) pairs -/
theorem conflicts_exact (u : Updater) (sc : Schema) (oldObj newObj : TV) (ver : String) (managers : Managed)
    (mgr : String) (cmp : Comparison)
    (hconv : u.converter = Converter.identity) (hig : ∀ v, u.ignore v = none)
    (hsorted : managers.Pairwise (fun a b => a.1 < b.1)) (hwf : ∀ x ∈ managers, x.2.set.wf = true)
    (hcmp : compareTV sc oldObj newObj = .ok cmp) :
    (∀ c, updateCore u sc oldObj newObj ver managers mgr false = .conflict c →
      ∀ k p, (∃ q, (k, q) ∈ c ∧ Path.equals q p = true) ↔
        (k ≠ mgr ∧ ∃ vs, mfGet managers k = some vs ∧ vs.set.has p = true ∧
          (cmp.modified.has p = true ∨ cmp.added.has p = true))) ∧
    ((∃ c, updateCore u sc oldObj newObj ver managers mgr false = .conflict c) ↔
      ∃ k vs p, k ≠ mgr ∧ mfGet managers k = some vs ∧ vs.set.has p = true ∧
        (cmp.modified.has p = true ∨ cmp.added.has p = true)) :=
  conflicts_exact_core u sc oldObj newObj ver managers mgr cmp hconv hig hsorted hwf hcmp

end SMD.C04

namespace SMD.C05

/-- `ManagedFields.Difference` of a map with itself is empty -/
theorem difference_self (m : Managed) (hsorted : m.Pairwise (fun a b => a.1 < b.1))
    (hwf : ∀ x ∈ m, x.2.set.wf = true) : Managed.difference m m = [] :=
  managed_difference_of_equals (sortedManaged_nodup hsorted) hwf hwf
    (SMD.managed_equals_refl (sortedManaged_nodup hsorted) hwf)

/-- equal managed fields have no difference -/
theorem difference_of_equals (a b : Managed)
    (ha : a.Pairwise (fun x y => x.1 < y.1)) (hb : b.Pairwise (fun x y => x.1 < y.1))
    (hwa : ∀ x ∈ a, x.2.set.wf = true) (hwb : ∀ x ∈ b, x.2.set.wf = true)
    (h : Managed.equals a b = true) : Managed.difference a b = [] := by
  have _ := hb  -- not needed: equal maps have the same managers
  exact managed_difference_of_equals (sortedManaged_nodup ha) hwa hwb h

/-- `ManagedFields.Equals` is reflexive and symmetric -/
theorem managed_equals_refl (m : Managed) (hsorted : m.Pairwise (fun a b => a.1 < b.1))
    (hwf : ∀ x ∈ m, x.2.set.wf = true) : Managed.equals m m = true :=
  SMD.managed_equals_refl (sortedManaged_nodup hsorted) hwf

theorem managed_equals_symm (a b : Managed)
    (ha : a.Pairwise (fun x y => x.1 < y.1)) (hb : b.Pairwise (fun x y => x.1 < y.1))
    (hwa : ∀ x ∈ a, x.2.set.wf = true) (hwb : ∀ x ∈ b, x.2.set.wf = true) :
    Managed.equals a b = Managed.equals b a := by
  have hna := sortedManaged_nodup ha
  have hnb := sortedManaged_nodup hb
  cases h1 : Managed.equals a b <;> cases h2 : Managed.equals b a <;> try rfl
  · rw [managed_equals_symm_of hnb hna hwb hwa h2] at h1; cases h1
  · rw [managed_equals_symm_of hna hnb hwa hwb h1] at h2; cases h2

end SMD.C05

namespace SMD.C15

/-- `SetFromValue` builds a well-formed set -/
theorem setFromValue_wf (v : Value) : (setFromValue v).wf = true :=
  SetTrie.wf_ofPaths _

-- STATEMENT-FALSE: v = [{name: "a", x: 1}, {name: "a", x: {y: 2}}] (a canonical value: every map's keys
--   strictly ascending).  Both items are referenced by the same guessed key `[name="a"]`
--   (`GuessBestListPathElement`), so `SetFromValue v` has `[name="a"].x` (the scalar leaf of the first item)
--   and `[name="a"].x.y` (the leaf of the second): the first is a strict prefix of the second.  The same
--   happens for a (non-canonical) map that repeats a key: {x: 1, x: {y: 2}} has `.x` and `.x.y`.
-- /-- `SetFromValue` builds a set that holds leaves only (no member is a strict prefix of another member) -/
-- theorem setFromValue_leaves_only (v : Value) (p r : Path) (hp : (setFromValue v).has p = true) (hr : r ≠ []) :
--     (setFromValue v).has (p ++ r) = false

/-- the counterexample value: two list items with the same guessed key -/
def cexTwins : Value :=
  .list [.map [("name", .str "a"), ("x", .int 1)], .map [("name", .str "a"), ("x", .map [("y", .int 2)])]]

/-- `setFromValue_leaves_only` as originally stated does not hold, not even for canonical values -/
example : ¬ (∀ (v : Value) (p r : Path), C12.canonical v = true → (setFromValue v).has p = true → r ≠ [] →
    (setFromValue v).has (p ++ r) = false) := by
  intro h
  have h1 := h cexTwins [.key [("name", .str "a")], .field "x"] [.field "y"] (by decide) (by decide) (by simp)
  have h2 : (setFromValue cexTwins).has ([.key [("name", .str "a")], .field "x"] ++ [.field "y"]) = true := by
    decide
  rw [h2] at h1
  cases h1

/-- no item of the list (numbered from `i`) is referenced by a path element equal to `pe` -/
def noItemAt (pe : PE) : Nat → List Value → Bool
  | _, [] => true
  | i, v :: rest => !PE.equals pe (guessPE i v) && noItemAt pe (i + 1) rest

/-- no entry of the list has the name `k` -/
def noFieldNamed (k : String) : List (String × Value) → Bool
  | [] => true
  | (k', _) :: rest => k != k' && noFieldNamed k rest

mutual
/-- the children of every node have different path elements: in every map no field name repeats, and in
every list no two items are referenced by the same (guessed) path element -/
def distinctElems : Value → Bool
  | .list l => distinctItems 0 l
  | .map m => distinctFields m
  | _ => true
def distinctItems (i : Nat) : List Value → Bool
  | [] => true
  | v :: rest => distinctElems v && noItemAt (guessPE i v) (i + 1) rest && distinctItems (i + 1) rest
def distinctFields : List (String × Value) → Bool
  | [] => true
  | (k, v) :: rest => distinctElems v && noFieldNamed k rest && distinctFields rest
end

/-! the definitions above coincide with their copies used in `SMD.Proofs.SetFromValue` -/
private theorem noItemAt_eq (pe : PE) : ∀ (l : List Value) (i : Nat), noItemAt pe i l = SMD.noItemAt pe i l
  | [], _ => rfl
  | v :: rest, i => by simp only [noItemAt, SMD.noItemAt, noItemAt_eq pe rest]
private theorem noFieldNamed_eq (k : String) : ∀ (m : List (String × Value)), noFieldNamed k m = SMD.noFieldNamed k m
  | [] => rfl
  | (k', v) :: rest => by simp only [noFieldNamed, SMD.noFieldNamed, noFieldNamed_eq k rest]
mutual
private theorem distinctElems_eq : ∀ v : Value, distinctElems v = SMD.distinctElems v
  | .list l => by simp only [distinctElems, SMD.distinctElems]; exact distinctItems_eq l 0
  | .map m => by simp only [distinctElems, SMD.distinctElems]; exact distinctFields_eq m
  | .null | .bool _ | .int _ | .float _ _ | .str _ => rfl
private theorem distinctItems_eq : ∀ (l : List Value) (i : Nat), distinctItems i l = SMD.distinctItems i l
  | [], _ => rfl
  | v :: rest, i => by
    simp only [distinctItems, SMD.distinctItems, distinctElems_eq v, distinctItems_eq rest, noItemAt_eq]
private theorem distinctFields_eq : ∀ (m : List (String × Value)), distinctFields m = SMD.distinctFields m
  | [] => rfl
  | (k, v) :: rest => by
    simp only [distinctFields, SMD.distinctFields, distinctElems_eq v, distinctFields_eq rest, noFieldNamed_eq]
end

/-- `SetFromValue` holds leaves only (no member is a strict prefix of another member) when the children of
every node of the value have different path elements -/
theorem setFromValue_leaves_only_of_distinctElems (v : Value) (hd : distinctElems v = true) (p r : Path)
    (hp : (setFromValue v).has p = true) (hr : r ≠ []) : (setFromValue v).has (p ++ r) = false :=
  setFromValue_leaves_of_distinct v (distinctElems_eq v ▸ hd) p r hp hr

/-- non-vacuity: the hypothesis holds of a value with keyed and indexed list items, and the first item of
the counterexample alone satisfies it -/
example : distinctElems (.map [("l", .list [.map [("name", .str "a"), ("x", .int 1)],
    .map [("name", .str "b"), ("x", .map [("y", .int 2)])], .int 3, .int 3])]) = true := by decide
example : distinctElems cexTwins = false := by decide

end SMD.C15
