/-
C05 — ownership records are updated exactly.

Statements about `SMD.apply` / `SMD.update` (`SMD/Model/Updater.lean`).  `recordOf mf k` is the record of
manager `k`.  Set membership is `SetTrie.has` (membership up to path-element equivalence); records are
assumed well formed (`SetTrie.wf`), which every set the library builds satisfies (C15 closure theorems).
The model is tied to the Go code by the `upd` correspondence domain, whose C05 judge evaluates the same
equations on the implementation's managed fields against an independent diff of live and result.
-/
import SMD.Proofs.UpdaterShape
import SMD.Proofs.OwnershipShape
import SMD.Proofs.OwnershipCounterexamples
namespace SMD.C05

abbrev recordOf (mf : Managed) (k : String) : Option VersionedSet := mfGet mf k

/-- all stored records are well-formed tries -/
def WFManaged (m : Managed) : Prop := ∀ x, x ∈ m → x.2.set.wf = true

/-
Four statements of this file, as first written, quantify over EVERY association list `m`, including
lists with two entries for one manager or not in key order, which no Go `map` corresponds to.  On such
lists they are false of the model (`SMD/Proofs/OwnershipCounterexamples.lean`); each is kept below in a
comment, refuted by an `example`, and proved under the hypothesis it needs:
`m.Pairwise (fun a b => a.1 < b.1)` (strictly ascending keys, the representation invariant of `Managed`)
or the weaker `(m0.map (·.1)).Nodup` (one entry per manager).
-/

/- after a successful apply the acting manager owns exactly the (filtered) field set of its
configuration, at the applied version, marked as applied — and has no record when that set is empty

theorem apply_owner_exact (u : Updater) (sc : Schema) (live cfg : TV) (ver : String) (m : Managed)
    (mgr : String) (force : Bool) (obj : Option TV) (mf : Managed) :
    apply u sc live cfg ver m mgr force = .ok (obj, mf) →
      ∃ fs, toFieldSet sc cfg = .ok fs ∧
        recordOf mf mgr =
          (if (applyIgnore u ver fs).isEmpty then none else some ⟨applyIgnore u ver fs, ver, true⟩)
-/
-- STATEMENT-FALSE: m = [("a", ⟨∅,"v",false⟩), ("a", ⟨{.f},"v",true⟩)], manager "a" applies the empty
-- configuration (null scalar): the new empty record is dropped and recordOf mf "a" = ⟨{.f},"v",true⟩,
-- not none.  Distinct keys do not suffice either: on m = [("b", ⟨{.f},…⟩), ("a", ⟨{.f},…⟩)] `mfSet`
-- inserts the new record in front of "b" and the old "a" entry survives.
example : ¬ ∀ (u : Updater) (sc : Schema) (live cfg : TV) (ver : String) (m : Managed)
    (mgr : String) (force : Bool) (obj : Option TV) (mf : Managed),
    apply u sc live cfg ver m mgr force = .ok (obj, mf) →
      ∃ fs, toFieldSet sc cfg = .ok fs ∧
        recordOf mf mgr =
          (if (applyIgnore u ver fs).isEmpty then none else some ⟨applyIgnore u ver fs, ver, true⟩) :=
  Counter.apply_owner_exact_false

example : ¬ ∀ (u : Updater) (sc : Schema) (live cfg : TV) (ver : String) (m : Managed)
    (mgr : String) (force : Bool) (obj : Option TV) (mf : Managed) (_ : (m.map (·.1)).Nodup),
    apply u sc live cfg ver m mgr force = .ok (obj, mf) →
      ∃ fs, toFieldSet sc cfg = .ok fs ∧
        recordOf mf mgr =
          (if (applyIgnore u ver fs).isEmpty then none else some ⟨applyIgnore u ver fs, ver, true⟩) :=
  Counter.apply_owner_exact_false_of_nodup

/-- after a successful apply on managed fields in key order the acting manager owns exactly the
(filtered) field set of its configuration, at the applied version, marked as applied — and has no record
when that set is empty -/
theorem apply_owner_exact_of_sorted (u : Updater) (sc : Schema) (live cfg : TV) (ver : String) (m : Managed)
    (mgr : String) (force : Bool) (obj : Option TV) (mf : Managed)
    (hs : m.Pairwise (fun a b => a.1 < b.1)) :
    apply u sc live cfg ver m mgr force = .ok (obj, mf) →
      ∃ fs, toFieldSet sc cfg = .ok fs ∧
        recordOf mf mgr =
          (if (applyIgnore u ver fs).isEmpty then none else some ⟨applyIgnore u ver fs, ver, true⟩) :=
  fun h => apply_owner_entries_sorted h hs

/-- …and on any list whatsoever when that set is not empty -/
theorem apply_owner_exact_partial (u : Updater) (sc : Schema) (live cfg : TV) (ver : String) (m : Managed)
    (mgr : String) (force : Bool) (obj : Option TV) (mf : Managed) :
    apply u sc live cfg ver m mgr force = .ok (obj, mf) →
      ∃ fs, toFieldSet sc cfg = .ok fs ∧
        ((applyIgnore u ver fs).isEmpty = false →
          recordOf mf mgr = some ⟨applyIgnore u ver fs, ver, true⟩) :=
  fun h => apply_owner_entries_nonempty h

/-- no manager with an empty record remains -/
theorem apply_no_empty_record (u : Updater) (sc : Schema) (live cfg : TV) (ver : String) (m : Managed)
    (mgr : String) (force : Bool) (obj : Option TV) (mf : Managed) :
    apply u sc live cfg ver m mgr force = .ok (obj, mf) → ∀ x, x ∈ mf → x.2.set.isEmpty = false :=
  fun h => apply_no_empty h

theorem update_no_empty_record (u : Updater) (sc : Schema) (live newObj : TV) (ver : String) (m : Managed)
    (mgr : String) (mf : Managed) :
    update u sc live newObj ver m mgr = .ok mf → ∀ x, x ∈ mf → x.2.set.isEmpty = false :=
  fun h => update_no_empty h

/- every other manager's record only shrinks and keeps its version and applied/updated status
(stated relative to the records after the schema-reconcile step, which is the identity unless the
schema changed)

theorem apply_others_only_shrink (u : Updater) (sc : Schema) (live cfg : TV) (ver : String) (m m0 : Managed)
    (mgr : String) (force : Bool) (obj : Option TV) (mf : Managed) (k : String) (vs' : VersionedSet)
    (hrec : reconcileManaged u sc live m = .ok m0) (hwf : WFManaged m0) (hk : k ≠ mgr) :
    apply u sc live cfg ver m mgr force = .ok (obj, mf) → recordOf mf k = some vs' →
      ∃ vs, recordOf m0 k = some vs ∧ vs'.version = vs.version ∧ vs'.applied = vs.applied ∧
        ∀ q, vs'.set.has q = true → vs.set.has q = true
-/
-- STATEMENT-FALSE: m = m0 = [("b", ⟨∅,"v",false⟩), ("b", ⟨{.f},"v",true⟩)], manager "a" applies the empty
-- configuration: the empty first entry of "b" is dropped, recordOf mf "b" = ⟨{.f},"v",true⟩ while
-- recordOf m0 "b" = ⟨∅,"v",false⟩ (applied flag differs, {.f} ⊄ ∅).  Same run for `update`.
example : ¬ ∀ (u : Updater) (sc : Schema) (live cfg : TV) (ver : String) (m m0 : Managed)
    (mgr : String) (force : Bool) (obj : Option TV) (mf : Managed) (k : String) (vs' : VersionedSet)
    (_ : reconcileManaged u sc live m = .ok m0) (_ : WFManaged m0) (_ : k ≠ mgr),
    apply u sc live cfg ver m mgr force = .ok (obj, mf) → recordOf mf k = some vs' →
      ∃ vs, recordOf m0 k = some vs ∧ vs'.version = vs.version ∧ vs'.applied = vs.applied ∧
        ∀ q, vs'.set.has q = true → vs.set.has q = true :=
  Counter.apply_others_only_shrink_false

example : ¬ ∀ (u : Updater) (sc : Schema) (live newObj : TV) (ver : String) (m m0 : Managed)
    (mgr : String) (mf : Managed) (k : String) (vs' : VersionedSet)
    (_ : reconcileManaged u sc live m = .ok m0) (_ : WFManaged m0) (_ : k ≠ mgr),
    update u sc live newObj ver m mgr = .ok mf → recordOf mf k = some vs' →
      ∃ vs, recordOf m0 k = some vs ∧ vs'.version = vs.version ∧ vs'.applied = vs.applied ∧
        ∀ q, vs'.set.has q = true → vs.set.has q = true :=
  Counter.update_others_only_shrink_false

/-- with one entry per manager, every other manager's record only shrinks and keeps its version and
applied/updated status (stated relative to the records after the schema-reconcile step, which is the
identity unless the schema changed).  Only the uniqueness of the entry of `k` is used. -/
theorem apply_others_only_shrink_of_nodup (u : Updater) (sc : Schema) (live cfg : TV) (ver : String)
    (m m0 : Managed) (mgr : String) (force : Bool) (obj : Option TV) (mf : Managed) (k : String)
    (vs' : VersionedSet)
    (hrec : reconcileManaged u sc live m = .ok m0) (hwf : WFManaged m0) (hk : k ≠ mgr)
    (hn : (m0.map (·.1)).Nodup) :
    apply u sc live cfg ver m mgr force = .ok (obj, mf) → recordOf mf k = some vs' →
      ∃ vs, recordOf m0 k = some vs ∧ vs'.version = vs.version ∧ vs'.applied = vs.applied ∧
        ∀ q, vs'.set.has q = true → vs.set.has q = true :=
  fun h hg => shrinks_record hn hwf (apply_other_mem h hrec hk hg)

theorem update_others_only_shrink_of_nodup (u : Updater) (sc : Schema) (live newObj : TV) (ver : String)
    (m m0 : Managed) (mgr : String) (mf : Managed) (k : String) (vs' : VersionedSet)
    (hrec : reconcileManaged u sc live m = .ok m0) (hwf : WFManaged m0) (hk : k ≠ mgr)
    (hn : (m0.map (·.1)).Nodup) :
    update u sc live newObj ver m mgr = .ok mf → recordOf mf k = some vs' →
      ∃ vs, recordOf m0 k = some vs ∧ vs'.version = vs.version ∧ vs'.applied = vs.applied ∧
        ∀ q, vs'.set.has q = true → vs.set.has q = true :=
  fun h hg => shrinks_record hn hwf (update_other_mem h hrec hk hg)

/-- without any assumption on the list: a record of another manager after the operation is one of that
manager's entries before, with a smaller set and the same version and applied/updated status -/
theorem apply_others_only_shrink_partial (u : Updater) (sc : Schema) (live cfg : TV) (ver : String)
    (m m0 : Managed) (mgr : String) (force : Bool) (obj : Option TV) (mf : Managed) (k : String)
    (vs' : VersionedSet)
    (hrec : reconcileManaged u sc live m = .ok m0) (hwf : WFManaged m0) (hk : k ≠ mgr) :
    apply u sc live cfg ver m mgr force = .ok (obj, mf) → recordOf mf k = some vs' →
      ∃ vs, (k, vs) ∈ m0 ∧ vs'.version = vs.version ∧ vs'.applied = vs.applied ∧
        ∀ q, vs'.set.has q = true → vs.set.has q = true := by
  intro h hg
  obtain ⟨⟨k', vs⟩, hy, h1, h2, h3, h4⟩ := apply_other_mem h hrec hk hg
  simp only at h1 h2 h3 h4
  subst h1
  exact ⟨vs, hy, h2, h3, (h4 (hwf _ hy)).2⟩

theorem update_others_only_shrink_partial (u : Updater) (sc : Schema) (live newObj : TV) (ver : String)
    (m m0 : Managed) (mgr : String) (mf : Managed) (k : String) (vs' : VersionedSet)
    (hrec : reconcileManaged u sc live m = .ok m0) (hwf : WFManaged m0) (hk : k ≠ mgr) :
    update u sc live newObj ver m mgr = .ok mf → recordOf mf k = some vs' →
      ∃ vs, (k, vs) ∈ m0 ∧ vs'.version = vs.version ∧ vs'.applied = vs.applied ∧
        ∀ q, vs'.set.has q = true → vs.set.has q = true := by
  intro h hg
  obtain ⟨⟨k', vs⟩, hy, h1, h2, h3, h4⟩ := update_other_mem h hrec hk hg
  simp only at h1 h2 h3 h4
  subst h1
  exact ⟨vs, hy, h2, h3, (h4 (hwf _ hy)).2⟩

/-- no operation creates a record for a third manager -/
theorem apply_no_new_manager (u : Updater) (sc : Schema) (live cfg : TV) (ver : String) (m m0 : Managed)
    (mgr : String) (force : Bool) (obj : Option TV) (mf : Managed) (k : String)
    (hrec : reconcileManaged u sc live m = .ok m0) (hk : k ≠ mgr) :
    apply u sc live cfg ver m mgr force = .ok (obj, mf) → recordOf m0 k = none → recordOf mf k = none := by
  intro h h0
  cases hg : recordOf mf k with
  | none => rfl
  | some vs' =>
    obtain ⟨y, hy, hs⟩ := apply_other_mem h hrec hk hg
    exact absurd hs.1.symm (mfGet_eq_none_iff.1 h0 y hy)

/- after an update (no ignore configuration) the acting manager owns what it owned before minus what
the update removed plus every field the update changed or added, at the update's version, not marked
as applied: membership in its new record, for every path

theorem update_owner_exact (u : Updater) (sc : Schema) (live newObj : TV) (ver : String) (m m0 : Managed)
    (mgr : String) (mf : Managed) (cmp : Comparison)
    (hig : u.ignore ver = none)
    (hrec : reconcileManaged u sc live m = .ok m0) (hwf : WFManaged m0)
    (hcmp : compareTV sc live newObj = .ok cmp) :
    update u sc live newObj ver m mgr = .ok mf →
      let old : SetTrie := ((recordOf m0 mgr).map (·.set)).getD SetTrie.empty
      (∀ q, (match recordOf mf mgr with | some vs => vs.set.has q | none => false) =
        ((old.has q && !cmp.removed.has q) || cmp.modified.has q || cmp.added.has q)) ∧
      (∀ vs, recordOf mf mgr = some vs → vs.version = ver ∧ vs.applied = false)
-/
-- STATEMENT-FALSE: m = m0 = [("a", ⟨∅,"v",false⟩), ("a", ⟨{.f},"v",true⟩)], manager "a" updates with
-- newObj = live (empty comparison): the empty first entry is dropped, the update starts from the second
-- one and recordOf mf "a" = ⟨{.f},"v",false⟩, while old = ∅ and nothing was modified or added.
example : ¬ ∀ (u : Updater) (sc : Schema) (live newObj : TV) (ver : String) (m m0 : Managed)
    (mgr : String) (mf : Managed) (cmp : Comparison)
    (_ : u.ignore ver = none)
    (_ : reconcileManaged u sc live m = .ok m0) (_ : WFManaged m0)
    (_ : compareTV sc live newObj = .ok cmp),
    update u sc live newObj ver m mgr = .ok mf →
      let old : SetTrie := ((recordOf m0 mgr).map (·.set)).getD SetTrie.empty
      (∀ q, (match recordOf mf mgr with | some vs => vs.set.has q | none => false) =
        ((old.has q && !cmp.removed.has q) || cmp.modified.has q || cmp.added.has q)) ∧
      (∀ vs, recordOf mf mgr = some vs → vs.version = ver ∧ vs.applied = false) :=
  Counter.update_owner_exact_false

/-- with one entry per manager: after an update (no ignore configuration) the acting manager owns what it
owned before minus what the update removed plus every field the update changed or added, at the update's
version, not marked as applied: membership in its new record, for every path -/
theorem update_owner_exact_of_nodup (u : Updater) (sc : Schema) (live newObj : TV) (ver : String)
    (m m0 : Managed) (mgr : String) (mf : Managed) (cmp : Comparison)
    (hig : u.ignore ver = none)
    (hrec : reconcileManaged u sc live m = .ok m0) (hwf : WFManaged m0)
    (hcmp : compareTV sc live newObj = .ok cmp)
    (hn : (m0.map (·.1)).Nodup) :
    update u sc live newObj ver m mgr = .ok mf →
      let old : SetTrie := ((recordOf m0 mgr).map (·.set)).getD SetTrie.empty
      (∀ q, (match recordOf mf mgr with | some vs => vs.set.has q | none => false) =
        ((old.has q && !cmp.removed.has q) || cmp.modified.has q || cmp.added.has q)) ∧
      (∀ vs, recordOf mf mgr = some vs → vs.version = ver ∧ vs.applied = false) :=
  fun h => SMD.update_owner_exact_of_nodup hig hrec hwf hn hcmp h

end SMD.C05
