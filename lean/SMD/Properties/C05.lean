/-
C05 — ownership records are updated exactly.

Statements about `SMD.apply` / `SMD.update` (`SMD/Model/Updater.lean`).  `recordOf mf k` is the record of
manager `k`.  Set membership is `SetTrie.has` (membership up to path-element equivalence); records are
assumed well formed (`SetTrie.wf`), which every set the library builds satisfies (C15 closure theorems).
The model is tied to the Go code by the `upd` correspondence domain, whose C05 judge evaluates the same
equations on the implementation's managed fields against an independent diff of live and result.
-/
import SMD.Proofs.UpdaterShape
namespace SMD.C05

abbrev recordOf (mf : Managed) (k : String) : Option VersionedSet := mfGet mf k

/-- all stored records are well-formed tries -/
def WFManaged (m : Managed) : Prop := ∀ x, x ∈ m → x.2.set.wf = true

/-- after a successful apply the acting manager owns exactly the (filtered) field set of its
configuration, at the applied version, marked as applied — and has no record when that set is empty -/
theorem apply_owner_exact (u : Updater) (sc : Schema) (live cfg : TV) (ver : String) (m : Managed)
    (mgr : String) (force : Bool) (obj : Option TV) (mf : Managed) :
    apply u sc live cfg ver m mgr force = .ok (obj, mf) →
      ∃ fs, toFieldSet sc cfg = .ok fs ∧
        recordOf mf mgr =
          (if (applyIgnore u ver fs).isEmpty then none else some ⟨applyIgnore u ver fs, ver, true⟩) := sorry

/-- no manager with an empty record remains -/
theorem apply_no_empty_record (u : Updater) (sc : Schema) (live cfg : TV) (ver : String) (m : Managed)
    (mgr : String) (force : Bool) (obj : Option TV) (mf : Managed) :
    apply u sc live cfg ver m mgr force = .ok (obj, mf) → ∀ x, x ∈ mf → x.2.set.isEmpty = false := sorry

theorem update_no_empty_record (u : Updater) (sc : Schema) (live newObj : TV) (ver : String) (m : Managed)
    (mgr : String) (mf : Managed) :
    update u sc live newObj ver m mgr = .ok mf → ∀ x, x ∈ mf → x.2.set.isEmpty = false := sorry

/-- every other manager's record only shrinks and keeps its version and applied/updated status
(stated relative to the records after the schema-reconcile step, which is the identity unless the
schema changed) -/
theorem apply_others_only_shrink (u : Updater) (sc : Schema) (live cfg : TV) (ver : String) (m m0 : Managed)
    (mgr : String) (force : Bool) (obj : Option TV) (mf : Managed) (k : String) (vs' : VersionedSet)
    (hrec : reconcileManaged u sc live m = .ok m0) (hwf : WFManaged m0) (hk : k ≠ mgr) :
    apply u sc live cfg ver m mgr force = .ok (obj, mf) → recordOf mf k = some vs' →
      ∃ vs, recordOf m0 k = some vs ∧ vs'.version = vs.version ∧ vs'.applied = vs.applied ∧
        ∀ q, vs'.set.has q = true → vs.set.has q = true := sorry

theorem update_others_only_shrink (u : Updater) (sc : Schema) (live newObj : TV) (ver : String) (m m0 : Managed)
    (mgr : String) (mf : Managed) (k : String) (vs' : VersionedSet)
    (hrec : reconcileManaged u sc live m = .ok m0) (hwf : WFManaged m0) (hk : k ≠ mgr) :
    update u sc live newObj ver m mgr = .ok mf → recordOf mf k = some vs' →
      ∃ vs, recordOf m0 k = some vs ∧ vs'.version = vs.version ∧ vs'.applied = vs.applied ∧
        ∀ q, vs'.set.has q = true → vs.set.has q = true := sorry

/-- no operation creates a record for a third manager -/
theorem apply_no_new_manager (u : Updater) (sc : Schema) (live cfg : TV) (ver : String) (m m0 : Managed)
    (mgr : String) (force : Bool) (obj : Option TV) (mf : Managed) (k : String)
    (hrec : reconcileManaged u sc live m = .ok m0) (hk : k ≠ mgr) :
    apply u sc live cfg ver m mgr force = .ok (obj, mf) → recordOf m0 k = none → recordOf mf k = none := sorry

/-- after an update (no ignore configuration) the acting manager owns what it owned before minus what
the update removed plus every field the update changed or added, at the update's version, not marked
as applied: membership in its new record, for every path -/
theorem update_owner_exact (u : Updater) (sc : Schema) (live newObj : TV) (ver : String) (m m0 : Managed)
    (mgr : String) (mf : Managed) (cmp : Comparison)
    (hig : u.ignore ver = none)
    (hrec : reconcileManaged u sc live m = .ok m0) (hwf : WFManaged m0)
    (hcmp : compareTV sc live newObj = .ok cmp) :
    update u sc live newObj ver m mgr = .ok mf →
      let old : SetTrie := ((recordOf m0 mgr).map (·.set)).getD SetTrie.empty
      (∀ q, (match recordOf mf mgr with | some vs => vs.set.has q | none => false) =
        ((old.has q && !cmp.removed.has q) || cmp.modified.has q || cmp.added.has q)) ∧
      (∀ vs, recordOf mf mgr = some vs → vs.version = ver ∧ vs.applied = false) := sorry

end SMD.C05
