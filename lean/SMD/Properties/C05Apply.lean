/-
C05 for Apply — "every other manager loses exactly the fields whose values the apply changed or
created (after a forced apply or an apply without conflicts) and the fields it removed". Identity
converter, no ignore configuration.
-/
import SMD.Proofs.ApplyOwnershipExact
namespace SMD.C05

-- (`hnoop` is not needed for this statement)
set_option linter.unusedVariables false in
/-- after a successful apply that returns an object, another manager keeps exactly its paths that the
comparison of the live object with the returned object reports neither modified, added nor removed -/
theorem apply_others_lose_exactly (u : Updater) (sc : Schema) (live cfg obj : TV) (ver : String)
    (m : Managed) (mgr : String) (force : Bool) (mf : Managed) (cmp : Comparison) (k : String) (vs : VersionedSet) (p : Path)
    (hconv : u.converter = Converter.identity) (hig : ∀ v, u.ignore v = none)
    (hnoop : u.returnInputOnNoop = false)
    (hrec : reconcileManaged u sc live m = .ok m)
    (hsorted : m.Pairwise (fun a b => a.1 < b.1)) (hwf : ∀ x ∈ m, x.2.set.wf = true)
    (hap : apply u sc live cfg ver m mgr force = .ok (some obj, mf))
    (hcmp : compareTV sc live obj = .ok cmp)
    (hk : k ≠ mgr) (hvs : mfGet m k = some vs) :
    ((∃ vs', mfGet mf k = some vs' ∧ vs'.set.has p = true) ↔
      (vs.set.has p = true ∧ cmp.modified.has p = false ∧ cmp.added.has p = false ∧ cmp.removed.has p = false)) :=
  apply_others_exact p hconv hig hrec hsorted hwf hap hcmp hk hvs

-- (`hnoop` is not needed for this statement: `none` is only returned when `returnInputOnNoop = false`)
set_option linter.unusedVariables false in
/-- an apply that returns no object (nothing changed) leaves every other manager's record as it was -/
theorem apply_noop_keeps_others (u : Updater) (sc : Schema) (live cfg : TV) (ver : String)
    (m : Managed) (mgr : String) (force : Bool) (mf : Managed) (k : String) (vs : VersionedSet)
    (hconv : u.converter = Converter.identity) (hig : ∀ v, u.ignore v = none)
    (hnoop : u.returnInputOnNoop = false)
    (hrec : reconcileManaged u sc live m = .ok m)
    (hsorted : m.Pairwise (fun a b => a.1 < b.1)) (hwf : ∀ x ∈ m, x.2.set.wf = true)
    (hne : ∀ x ∈ m, x.2.set.isEmpty = false)
    (hap : apply u sc live cfg ver m mgr force = .ok (none, mf))
    (hk : k ≠ mgr) (hvs : mfGet m k = some vs) :
    ∃ vs', mfGet mf k = some vs' ∧ vs'.version = vs.version ∧ vs'.applied = vs.applied ∧
      ∀ p, vs'.set.has p = vs.set.has p :=
  ⟨vs, apply_noop_other_get hconv hig hrec hsorted hwf hne hap hk hvs, rfl, rfl, fun _ => rfl⟩

end SMD.C05
