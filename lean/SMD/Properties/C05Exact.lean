/-
C05 — "every other manager loses exactly the fields whose values the operation changed or created
(after a forced apply or an update) and the fields it removed"; C19 — "changes confined to ignored
fields cause no conflict and take no ownership away". Identity converter (one comparison serves every
version).
-/
import SMD.Proofs.OwnershipExact
namespace SMD.C05

/-- after an Update, another manager's record is exactly its previous record minus what the comparison of
the live object with the new one reports modified, added or removed (the record disappears when nothing
is left) -/
theorem update_others_lose_exactly (u : Updater) (sc : Schema) (live newObj : TV) (ver : String)
    (m : Managed) (mgr : String) (mf : Managed) (cmp : Comparison) (k : String) (vs : VersionedSet) (p : Path)
    (hconv : u.converter = Converter.identity) (hig : ∀ v, u.ignore v = none)
    (hrec : reconcileManaged u sc live m = .ok m)
    (hsorted : m.Pairwise (fun a b => a.1 < b.1)) (hwf : ∀ x ∈ m, x.2.set.wf = true)
    (hcmp : compareTV sc live newObj = .ok cmp)
    (hup : update u sc live newObj ver m mgr = .ok mf)
    (hk : k ≠ mgr) (hvs : mfGet m k = some vs) :
    ((∃ vs', mfGet mf k = some vs' ∧ vs'.set.has p = true) ↔
      (vs.set.has p = true ∧ cmp.modified.has p = false ∧ cmp.added.has p = false ∧ cmp.removed.has p = false)) :=
  update_others_exact p hconv hig hrec hsorted hwf hcmp hup hk hvs

-- (`hconv` is not needed for this statement)
set_option linter.unusedVariables false in
/-- the updater's own record after an Update: what it had, minus what was removed, plus what it changed
or created -/
theorem update_owner_gains_exactly (u : Updater) (sc : Schema) (live newObj : TV) (ver : String)
    (m : Managed) (mgr : String) (mf : Managed) (cmp : Comparison) (p : Path)
    (hconv : u.converter = Converter.identity) (hig : ∀ v, u.ignore v = none)
    (hrec : reconcileManaged u sc live m = .ok m)
    (hsorted : m.Pairwise (fun a b => a.1 < b.1)) (hwf : ∀ x ∈ m, x.2.set.wf = true)
    (hcmp : compareTV sc live newObj = .ok cmp)
    (hup : update u sc live newObj ver m mgr = .ok mf) :
    ((∃ vs', mfGet mf mgr = some vs' ∧ vs'.set.has p = true) ↔
      ((∃ vs, mfGet m mgr = some vs ∧ vs.set.has p = true ∧ cmp.removed.has p = false) ∨
        cmp.modified.has p = true ∨ cmp.added.has p = true)) :=
  update_owner_exact_iff p hig hrec hsorted hwf hcmp hup

end SMD.C05

namespace SMD.C19

-- (`hsorted` is not needed for this statement)
set_option linter.unusedVariables false in
/-- an Update whose changes all lie in ignored fields (exclusion configuration) leaves every other
manager's record as it was: no ownership is taken away -/
theorem update_ignored_only_takes_nothing (u : Updater) (sc : Schema) (live newObj : TV) (ver : String)
    (m : Managed) (mgr : String) (mf : Managed) (cmp : Comparison) (ex : SetTrie) (k : String) (vs : VersionedSet)
    (hconv : u.converter = Converter.identity) (hex : ∀ v, u.ignore v = some (.exclude ex)) (hexwf : ex.wf = true)
    (hrec : reconcileManaged u sc live m = .ok m)
    (hsorted : m.Pairwise (fun a b => a.1 < b.1)) (hwf : ∀ x ∈ m, x.2.set.wf = true)
    (hne : ∀ x ∈ m, x.2.set.isEmpty = false)
    (hcmp : compareTV sc live newObj = .ok cmp)
    (hall : ∀ p, (cmp.modified.has p = true ∨ cmp.added.has p = true ∨ cmp.removed.has p = true) → ignoredBy ex p = true)
    (hup : update u sc live newObj ver m mgr = .ok mf)
    (hk : k ≠ mgr) (hvs : mfGet m k = some vs) :
    ∃ vs', mfGet mf k = some vs' ∧ vs'.version = vs.version ∧ vs'.applied = vs.applied ∧
      ∀ p, vs'.set.has p = vs.set.has p := by
  rw [update_ignored_only_keeps hconv hex hexwf hrec hwf hne hcmp hall hup hk, hvs]
  exact ⟨vs, rfl, rfl, rfl, fun _ => rfl⟩

/-- an unforced `updateCore` whose changes all lie in ignored fields reports no conflict -/
theorem ignored_only_never_conflicts (u : Updater) (sc : Schema) (oldObj newObj : TV) (ver : String)
    (managers : Managed) (mgr : String) (cmp : Comparison) (ex : SetTrie) (c : List (String × Path))
    (hconv : u.converter = Converter.identity) (hex : ∀ v, u.ignore v = some (.exclude ex)) (hexwf : ex.wf = true)
    (hwf : ∀ x ∈ managers, x.2.set.wf = true)
    (hcmp : compareTV sc oldObj newObj = .ok cmp)
    (hall : ∀ p, (cmp.modified.has p = true ∨ cmp.added.has p = true) → ignoredBy ex p = true) :
    updateCore u sc oldObj newObj ver managers mgr false ≠ .conflict c :=
  ignored_only_no_conflict hconv hex hexwf hwf hcmp hall

end SMD.C19
