/-
C05 under an ARBITRARY ignore configuration — "every other manager loses exactly the fields whose value
the operation changed, created or removed", where `Updater.ignore` is any map from API version to filter
(exclusion sets and include patterns mixed, versions without an entry).  Identity converter, as in
`C05Exact.lean` / `C05Apply.lean`, whose theorems (no ignore configuration at all) are the special case
`u.ignore = fun _ => none` (end of the first two sections).

What the code does (`updateLoop` in `SMD/Model/Updater.lean`, merge/update.go:96-139): the record of
another manager `k`, written at version `vs.version`, is held against the comparison of the two objects
FILTERED WITH THE FILTER OF `vs.version` — not with the filter of the acting version, and not with the
unfiltered comparison:

  k keeps p  ⇔  k had p  ∧  `filterCmp (u.ignore vs.version) cmp` reports p neither modified, added nor removed.

This holds for EVERY other manager alike.  In Go the manager that triggers the computation of the
comparison for a version not yet in the cache goes on with its local variable `compare`, and only the
cache receives `compare.ExcludeFields(…)` / `compare.FilterFields(…)`; but both methods assign the filtered
sets to the fields of the `*Comparison` they are called on and return that same pointer
(typed/compare.go:65-83), so the local variable and the cache entry are one (filtered) object.  The model
mirrors this: `updateLoop` continues with `filterCmp (u.ignore ms.version) cmp0` in both branches.

Readings in terms of the UNFILTERED comparison `cmp`:
* exclusion set `ex` at k's version: k loses p ⇔ k had p ∧ cmp reports p changed ∧ p is not ignored by `ex`;
* include pattern `pat` at k's version: k loses p ⇔ k had p ∧ cmp reports p changed ∧ p is compatible with `pat`;
* whenever the filter of k's version lets p through (`C19.RespectsFilter`; true of every path of every
  record in every reachable state: `C19.reachable_respects_version_filter`) the statement of `C05Exact` /
  `C05Apply` holds verbatim (`…_of_respects`).  Without that hypothesis it is false under an ignore
  configuration (kernel-checked world at the end).
-/
import SMD.Proofs.OwnershipExactIgnore
import SMD.Properties.C05Exact
import SMD.Properties.C05Apply
import SMD.Properties.C19PerVersion
namespace SMD.C05
open SetTrie

/-! ### what a filtered comparison reports, in terms of the unfiltered one -/

/-- under an exclusion set the filtered comparison is silent at `p` iff the comparison is, or `p` is ignored -/
theorem filtered_silent_under_exclusion (ex : SetTrie) (cmp : Comparison) (p : Path) (hex : ex.wf = true)
    (hw : cmp.removed.wf = true ∧ cmp.modified.wf = true ∧ cmp.added.wf = true) :
    ((filterCmp (some (.exclude ex)) cmp).modified.has p = false ∧
      (filterCmp (some (.exclude ex)) cmp).added.has p = false ∧
      (filterCmp (some (.exclude ex)) cmp).removed.has p = false) ↔
    ((cmp.modified.has p = false ∧ cmp.added.has p = false ∧ cmp.removed.has p = false) ∨
      C19.ignoredBy ex p = true) := by
  simp only [filterCmp, C19.exclude_filter_spec ex _ p hw.1 hex, C19.exclude_filter_spec ex _ p hw.2.1 hex,
    C19.exclude_filter_spec ex _ p hw.2.2 hex]
  cases cmp.modified.has p <;> cases cmp.added.has p <;> cases cmp.removed.has p <;>
    cases C19.ignoredBy ex p <;> simp

/-- under an include pattern the filtered comparison is silent at `p` iff the comparison is, or `p` is not
compatible with the pattern -/
theorem filtered_silent_under_include (pat : SetMatcher) (cmp : Comparison) (p : Path)
    (hw : cmp.removed.wf = true ∧ cmp.modified.wf = true ∧ cmp.added.wf = true) :
    ((filterCmp (some (.include pat)) cmp).modified.has p = false ∧
      (filterCmp (some (.include pat)) cmp).added.has p = false ∧
      (filterCmp (some (.include pat)) cmp).removed.has p = false) ↔
    ((cmp.modified.has p = false ∧ cmp.added.has p = false ∧ cmp.removed.has p = false) ∨
      C19.compatible pat p = false) := by
  cases p with
  | nil => simp [has_nil]
  | cons pe r =>
    have hne : pe :: r ≠ [] := by simp
    simp only [filterCmp, C19.include_filter_spec pat _ _ hw.1 hne, C19.include_filter_spec pat _ _ hw.2.1 hne,
      C19.include_filter_spec pat _ _ hw.2.2 hne]
    cases cmp.modified.has (pe :: r) <;> cases cmp.added.has (pe :: r) <;> cases cmp.removed.has (pe :: r) <;>
      cases C19.compatible pat (pe :: r) <;> simp

/-- when the filter lets `p` through, the filtered comparison reports at `p` what the comparison reports -/
theorem filtered_silent_of_respects (f : Option Filter) (cmp : Comparison) (p : Path)
    (hf : ∀ ex, f = some (.exclude ex) → ex.wf = true)
    (hw : cmp.removed.wf = true ∧ cmp.modified.wf = true ∧ cmp.added.wf = true)
    (hp : C19.RespectsFilter f p) :
    ((filterCmp f cmp).modified.has p = false ∧ (filterCmp f cmp).added.has p = false ∧
      (filterCmp f cmp).removed.has p = false) ↔
    (cmp.modified.has p = false ∧ cmp.added.has p = false ∧ cmp.removed.has p = false) := by
  match f, hf, hp with
  | none, _, _ => exact Iff.rfl
  | some (.exclude ex), hf, hp =>
    have hp' : C19.ignoredBy ex p = false := hp
    rw [filtered_silent_under_exclusion ex cmp p (hf ex rfl) hw, hp']
    simp
  | some (.include pat), _, hp =>
    have hp' : C19.compatible pat p = true := hp
    rw [filtered_silent_under_include pat cmp p hw, hp']
    simp

/-! ### Update -/

/-- after an Update under any ignore configuration, another manager's record is exactly its previous record
minus what the comparison of the live object with the new one, FILTERED WITH THE FILTER OF THAT RECORD'S
VERSION, reports modified, added or removed (the record disappears when nothing is left) -/
theorem update_others_lose_exactly_under_ignore (u : Updater) (sc : Schema) (live newObj : TV) (ver : String)
    (m : Managed) (mgr : String) (mf : Managed) (cmp : Comparison) (k : String) (vs : VersionedSet) (p : Path)
    (hconv : u.converter = Converter.identity)
    (hexwf : ∀ v ex, u.ignore v = some (.exclude ex) → ex.wf = true)
    (hrec : reconcileManaged u sc live m = .ok m)
    (hsorted : m.Pairwise (fun a b => a.1 < b.1)) (hwf : ∀ x ∈ m, x.2.set.wf = true)
    (hcmp : compareTV sc live newObj = .ok cmp)
    (hup : update u sc live newObj ver m mgr = .ok mf)
    (hk : k ≠ mgr) (hvs : mfGet m k = some vs) :
    ((∃ vs', mfGet mf k = some vs' ∧ vs'.set.has p = true) ↔
      (vs.set.has p = true ∧
        (filterCmp (u.ignore vs.version) cmp).modified.has p = false ∧
        (filterCmp (u.ignore vs.version) cmp).added.has p = false ∧
        (filterCmp (u.ignore vs.version) cmp).removed.has p = false)) :=
  update_others_exact_ignore p hconv (hexwf vs.version) hrec hsorted hwf hcmp hup hk hvs

/-- an exclusion set `ex` at the version of `k`'s record: `k` keeps `p` iff it had it and either the
(unfiltered) comparison is silent at `p` or `p` is ignored by `ex` (the filters of the other versions,
the acting one included, play no part) -/
theorem update_others_keep_iff_under_exclusion (u : Updater) (sc : Schema) (live newObj : TV) (ver : String)
    (m : Managed) (mgr : String) (mf : Managed) (cmp : Comparison) (k : String) (vs : VersionedSet) (p : Path)
    (ex : SetTrie)
    (hconv : u.converter = Converter.identity)
    (hver : u.ignore vs.version = some (.exclude ex)) (hex : ex.wf = true)
    (hrec : reconcileManaged u sc live m = .ok m)
    (hsorted : m.Pairwise (fun a b => a.1 < b.1)) (hwf : ∀ x ∈ m, x.2.set.wf = true)
    (hcmp : compareTV sc live newObj = .ok cmp)
    (hup : update u sc live newObj ver m mgr = .ok mf)
    (hk : k ≠ mgr) (hvs : mfGet m k = some vs) :
    ((∃ vs', mfGet mf k = some vs' ∧ vs'.set.has p = true) ↔
      (vs.set.has p = true ∧
        ((cmp.modified.has p = false ∧ cmp.added.has p = false ∧ cmp.removed.has p = false) ∨
          C19.ignoredBy ex p = true))) := by
  rw [update_others_exact_ignore p hconv (fun ex' e => by rw [hver] at e; cases e; exact hex)
    hrec hsorted hwf hcmp hup hk hvs, hver,
    filtered_silent_under_exclusion ex cmp p hex (compareTV_wf hcmp)]

/-- … in the "loses" form: a path of `k`'s record is lost iff the comparison reports it changed AND it is
not ignored by the exclusion set of the version of `k`'s record -/
theorem update_others_lose_iff_under_exclusion (u : Updater) (sc : Schema) (live newObj : TV) (ver : String)
    (m : Managed) (mgr : String) (mf : Managed) (cmp : Comparison) (k : String) (vs : VersionedSet) (p : Path)
    (ex : SetTrie)
    (hconv : u.converter = Converter.identity)
    (hver : u.ignore vs.version = some (.exclude ex)) (hex : ex.wf = true)
    (hrec : reconcileManaged u sc live m = .ok m)
    (hsorted : m.Pairwise (fun a b => a.1 < b.1)) (hwf : ∀ x ∈ m, x.2.set.wf = true)
    (hcmp : compareTV sc live newObj = .ok cmp)
    (hup : update u sc live newObj ver m mgr = .ok mf)
    (hk : k ≠ mgr) (hvs : mfGet m k = some vs) (hp : vs.set.has p = true) :
    ((¬ ∃ vs', mfGet mf k = some vs' ∧ vs'.set.has p = true) ↔
      ((cmp.modified.has p = true ∨ cmp.added.has p = true ∨ cmp.removed.has p = true) ∧
        C19.ignoredBy ex p = false)) := by
  rw [update_others_keep_iff_under_exclusion u sc live newObj ver m mgr mf cmp k vs p ex hconv hver hex hrec
    hsorted hwf hcmp hup hk hvs, hp]
  cases cmp.modified.has p <;> cases cmp.added.has p <;> cases cmp.removed.has p <;>
    cases C19.ignoredBy ex p <;> simp

/-- an include pattern `pat` at the version of `k`'s record: `k` keeps `p` iff it had it and either the
comparison is silent at `p` or `p` is not compatible with `pat` -/
theorem update_others_keep_iff_under_include (u : Updater) (sc : Schema) (live newObj : TV) (ver : String)
    (m : Managed) (mgr : String) (mf : Managed) (cmp : Comparison) (k : String) (vs : VersionedSet) (p : Path)
    (pat : SetMatcher)
    (hconv : u.converter = Converter.identity)
    (hver : u.ignore vs.version = some (.include pat))
    (hrec : reconcileManaged u sc live m = .ok m)
    (hsorted : m.Pairwise (fun a b => a.1 < b.1)) (hwf : ∀ x ∈ m, x.2.set.wf = true)
    (hcmp : compareTV sc live newObj = .ok cmp)
    (hup : update u sc live newObj ver m mgr = .ok mf)
    (hk : k ≠ mgr) (hvs : mfGet m k = some vs) :
    ((∃ vs', mfGet mf k = some vs' ∧ vs'.set.has p = true) ↔
      (vs.set.has p = true ∧
        ((cmp.modified.has p = false ∧ cmp.added.has p = false ∧ cmp.removed.has p = false) ∨
          C19.compatible pat p = false))) := by
  rw [update_others_exact_ignore p hconv (fun ex' e => by rw [hver] at e; cases e)
    hrec hsorted hwf hcmp hup hk hvs, hver,
    filtered_silent_under_include pat cmp p (compareTV_wf hcmp)]

/-- … in the "loses" form: a path of `k`'s record is lost iff the comparison reports it changed AND it is
compatible with the include pattern of the version of `k`'s record -/
theorem update_others_lose_iff_under_include (u : Updater) (sc : Schema) (live newObj : TV) (ver : String)
    (m : Managed) (mgr : String) (mf : Managed) (cmp : Comparison) (k : String) (vs : VersionedSet) (p : Path)
    (pat : SetMatcher)
    (hconv : u.converter = Converter.identity)
    (hver : u.ignore vs.version = some (.include pat))
    (hrec : reconcileManaged u sc live m = .ok m)
    (hsorted : m.Pairwise (fun a b => a.1 < b.1)) (hwf : ∀ x ∈ m, x.2.set.wf = true)
    (hcmp : compareTV sc live newObj = .ok cmp)
    (hup : update u sc live newObj ver m mgr = .ok mf)
    (hk : k ≠ mgr) (hvs : mfGet m k = some vs) (hp : vs.set.has p = true) :
    ((¬ ∃ vs', mfGet mf k = some vs' ∧ vs'.set.has p = true) ↔
      ((cmp.modified.has p = true ∨ cmp.added.has p = true ∨ cmp.removed.has p = true) ∧
        C19.compatible pat p = true)) := by
  rw [update_others_keep_iff_under_include u sc live newObj ver m mgr mf cmp k vs p pat hconv hver hrec
    hsorted hwf hcmp hup hk hvs, hp]
  cases cmp.modified.has p <;> cases cmp.added.has p <;> cases cmp.removed.has p <;>
    cases C19.compatible pat p <;> simp

/-- when the filter of the version of `k`'s record lets `p` through if `k` owns it (the C19 invariant:
true of every record of every reachable state, `C19.reachable_respects_version_filter'`; trivially true
when that version has no entry) the statement of `update_others_lose_exactly` holds verbatim, with the
unfiltered comparison, whatever the ignore configuration -/
theorem update_others_lose_exactly_of_respects (u : Updater) (sc : Schema) (live newObj : TV) (ver : String)
    (m : Managed) (mgr : String) (mf : Managed) (cmp : Comparison) (k : String) (vs : VersionedSet) (p : Path)
    (hconv : u.converter = Converter.identity)
    (hexwf : ∀ ex, u.ignore vs.version = some (.exclude ex) → ex.wf = true)
    (hrec : reconcileManaged u sc live m = .ok m)
    (hsorted : m.Pairwise (fun a b => a.1 < b.1)) (hwf : ∀ x ∈ m, x.2.set.wf = true)
    (hcmp : compareTV sc live newObj = .ok cmp)
    (hup : update u sc live newObj ver m mgr = .ok mf)
    (hk : k ≠ mgr) (hvs : mfGet m k = some vs)
    (hresp : vs.set.has p = true → C19.RespectsFilter (u.ignore vs.version) p) :
    ((∃ vs', mfGet mf k = some vs' ∧ vs'.set.has p = true) ↔
      (vs.set.has p = true ∧ cmp.modified.has p = false ∧ cmp.added.has p = false ∧ cmp.removed.has p = false)) := by
  rw [update_others_exact_ignore p hconv hexwf hrec hsorted hwf hcmp hup hk hvs]
  constructor
  · rintro ⟨hp, h⟩
    exact ⟨hp, (filtered_silent_of_respects _ cmp p hexwf (compareTV_wf hcmp) (hresp hp)).1 h⟩
  · rintro ⟨hp, h⟩
    exact ⟨hp, (filtered_silent_of_respects _ cmp p hexwf (compareTV_wf hcmp) (hresp hp)).2 h⟩

/-- `update_others_lose_exactly` (`C05Exact.lean`) is the case of the empty ignore configuration -/
example (u : Updater) (sc : Schema) (live newObj : TV) (ver : String)
    (m : Managed) (mgr : String) (mf : Managed) (cmp : Comparison) (k : String) (vs : VersionedSet) (p : Path)
    (hconv : u.converter = Converter.identity) (hig : u.ignore = fun _ => none)
    (hrec : reconcileManaged u sc live m = .ok m)
    (hsorted : m.Pairwise (fun a b => a.1 < b.1)) (hwf : ∀ x ∈ m, x.2.set.wf = true)
    (hcmp : compareTV sc live newObj = .ok cmp)
    (hup : update u sc live newObj ver m mgr = .ok mf)
    (hk : k ≠ mgr) (hvs : mfGet m k = some vs) :
    ((∃ vs', mfGet mf k = some vs' ∧ vs'.set.has p = true) ↔
      (vs.set.has p = true ∧ cmp.modified.has p = false ∧ cmp.added.has p = false ∧ cmp.removed.has p = false)) := by
  have h := update_others_lose_exactly_under_ignore u sc live newObj ver m mgr mf cmp k vs p hconv
    (fun v ex e => by rw [hig] at e; cases e) hrec hsorted hwf hcmp hup hk hvs
  rw [hig] at h
  exact h

/-- the same with the hypothesis in the form used in `C05Exact.lean` -/
example (u : Updater) (sc : Schema) (live newObj : TV) (ver : String)
    (m : Managed) (mgr : String) (mf : Managed) (cmp : Comparison) (k : String) (vs : VersionedSet) (p : Path)
    (hconv : u.converter = Converter.identity) (hig : ∀ v, u.ignore v = none)
    (hrec : reconcileManaged u sc live m = .ok m)
    (hsorted : m.Pairwise (fun a b => a.1 < b.1)) (hwf : ∀ x ∈ m, x.2.set.wf = true)
    (hcmp : compareTV sc live newObj = .ok cmp)
    (hup : update u sc live newObj ver m mgr = .ok mf)
    (hk : k ≠ mgr) (hvs : mfGet m k = some vs) :
    ((∃ vs', mfGet mf k = some vs' ∧ vs'.set.has p = true) ↔
      (vs.set.has p = true ∧ cmp.modified.has p = false ∧ cmp.added.has p = false ∧ cmp.removed.has p = false)) := by
  have h := update_others_lose_exactly_under_ignore u sc live newObj ver m mgr mf cmp k vs p hconv
    (fun v ex e => by rw [hig] at e; cases e) hrec hsorted hwf hcmp hup hk hvs
  rw [hig vs.version] at h
  exact h

/-! ### Apply -/

-- (`hnoop` is not needed for this statement)
set_option linter.unusedVariables false in
/-- after a successful apply that returns an object, under any ignore configuration, another manager keeps
exactly its paths that the comparison of the live object with the returned object, FILTERED WITH THE
FILTER OF THAT MANAGER'S RECORD'S VERSION, reports neither modified, added nor removed -/
theorem apply_others_lose_exactly_under_ignore (u : Updater) (sc : Schema) (live cfg obj : TV) (ver : String)
    (m : Managed) (mgr : String) (force : Bool) (mf : Managed) (cmp : Comparison) (k : String) (vs : VersionedSet)
    (p : Path)
    (hconv : u.converter = Converter.identity)
    (hexwf : ∀ v ex, u.ignore v = some (.exclude ex) → ex.wf = true)
    (hnoop : u.returnInputOnNoop = false)
    (hrec : reconcileManaged u sc live m = .ok m)
    (hsorted : m.Pairwise (fun a b => a.1 < b.1)) (hwf : ∀ x ∈ m, x.2.set.wf = true)
    (hap : apply u sc live cfg ver m mgr force = .ok (some obj, mf))
    (hcmp : compareTV sc live obj = .ok cmp)
    (hk : k ≠ mgr) (hvs : mfGet m k = some vs) :
    ((∃ vs', mfGet mf k = some vs' ∧ vs'.set.has p = true) ↔
      (vs.set.has p = true ∧
        (filterCmp (u.ignore vs.version) cmp).modified.has p = false ∧
        (filterCmp (u.ignore vs.version) cmp).added.has p = false ∧
        (filterCmp (u.ignore vs.version) cmp).removed.has p = false)) :=
  apply_others_exact_ignore p hconv (hexwf vs.version) hrec hsorted hwf hap hcmp hk hvs

/-- an exclusion set `ex` at the version of `k`'s record -/
theorem apply_others_keep_iff_under_exclusion (u : Updater) (sc : Schema) (live cfg obj : TV) (ver : String)
    (m : Managed) (mgr : String) (force : Bool) (mf : Managed) (cmp : Comparison) (k : String) (vs : VersionedSet)
    (p : Path) (ex : SetTrie)
    (hconv : u.converter = Converter.identity)
    (hver : u.ignore vs.version = some (.exclude ex)) (hex : ex.wf = true)
    (hrec : reconcileManaged u sc live m = .ok m)
    (hsorted : m.Pairwise (fun a b => a.1 < b.1)) (hwf : ∀ x ∈ m, x.2.set.wf = true)
    (hap : apply u sc live cfg ver m mgr force = .ok (some obj, mf))
    (hcmp : compareTV sc live obj = .ok cmp)
    (hk : k ≠ mgr) (hvs : mfGet m k = some vs) :
    ((∃ vs', mfGet mf k = some vs' ∧ vs'.set.has p = true) ↔
      (vs.set.has p = true ∧
        ((cmp.modified.has p = false ∧ cmp.added.has p = false ∧ cmp.removed.has p = false) ∨
          C19.ignoredBy ex p = true))) := by
  rw [apply_others_exact_ignore p hconv (fun ex' e => by rw [hver] at e; cases e; exact hex)
    hrec hsorted hwf hap hcmp hk hvs, hver,
    filtered_silent_under_exclusion ex cmp p hex (compareTV_wf hcmp)]

theorem apply_others_lose_iff_under_exclusion (u : Updater) (sc : Schema) (live cfg obj : TV) (ver : String)
    (m : Managed) (mgr : String) (force : Bool) (mf : Managed) (cmp : Comparison) (k : String) (vs : VersionedSet)
    (p : Path) (ex : SetTrie)
    (hconv : u.converter = Converter.identity)
    (hver : u.ignore vs.version = some (.exclude ex)) (hex : ex.wf = true)
    (hrec : reconcileManaged u sc live m = .ok m)
    (hsorted : m.Pairwise (fun a b => a.1 < b.1)) (hwf : ∀ x ∈ m, x.2.set.wf = true)
    (hap : apply u sc live cfg ver m mgr force = .ok (some obj, mf))
    (hcmp : compareTV sc live obj = .ok cmp)
    (hk : k ≠ mgr) (hvs : mfGet m k = some vs) (hp : vs.set.has p = true) :
    ((¬ ∃ vs', mfGet mf k = some vs' ∧ vs'.set.has p = true) ↔
      ((cmp.modified.has p = true ∨ cmp.added.has p = true ∨ cmp.removed.has p = true) ∧
        C19.ignoredBy ex p = false)) := by
  rw [apply_others_keep_iff_under_exclusion u sc live cfg obj ver m mgr force mf cmp k vs p ex hconv hver hex hrec
    hsorted hwf hap hcmp hk hvs, hp]
  cases cmp.modified.has p <;> cases cmp.added.has p <;> cases cmp.removed.has p <;>
    cases C19.ignoredBy ex p <;> simp

/-- an include pattern `pat` at the version of `k`'s record -/
theorem apply_others_keep_iff_under_include (u : Updater) (sc : Schema) (live cfg obj : TV) (ver : String)
    (m : Managed) (mgr : String) (force : Bool) (mf : Managed) (cmp : Comparison) (k : String) (vs : VersionedSet)
    (p : Path) (pat : SetMatcher)
    (hconv : u.converter = Converter.identity)
    (hver : u.ignore vs.version = some (.include pat))
    (hrec : reconcileManaged u sc live m = .ok m)
    (hsorted : m.Pairwise (fun a b => a.1 < b.1)) (hwf : ∀ x ∈ m, x.2.set.wf = true)
    (hap : apply u sc live cfg ver m mgr force = .ok (some obj, mf))
    (hcmp : compareTV sc live obj = .ok cmp)
    (hk : k ≠ mgr) (hvs : mfGet m k = some vs) :
    ((∃ vs', mfGet mf k = some vs' ∧ vs'.set.has p = true) ↔
      (vs.set.has p = true ∧
        ((cmp.modified.has p = false ∧ cmp.added.has p = false ∧ cmp.removed.has p = false) ∨
          C19.compatible pat p = false))) := by
  rw [apply_others_exact_ignore p hconv (fun ex' e => by rw [hver] at e; cases e)
    hrec hsorted hwf hap hcmp hk hvs, hver,
    filtered_silent_under_include pat cmp p (compareTV_wf hcmp)]

theorem apply_others_lose_iff_under_include (u : Updater) (sc : Schema) (live cfg obj : TV) (ver : String)
    (m : Managed) (mgr : String) (force : Bool) (mf : Managed) (cmp : Comparison) (k : String) (vs : VersionedSet)
    (p : Path) (pat : SetMatcher)
    (hconv : u.converter = Converter.identity)
    (hver : u.ignore vs.version = some (.include pat))
    (hrec : reconcileManaged u sc live m = .ok m)
    (hsorted : m.Pairwise (fun a b => a.1 < b.1)) (hwf : ∀ x ∈ m, x.2.set.wf = true)
    (hap : apply u sc live cfg ver m mgr force = .ok (some obj, mf))
    (hcmp : compareTV sc live obj = .ok cmp)
    (hk : k ≠ mgr) (hvs : mfGet m k = some vs) (hp : vs.set.has p = true) :
    ((¬ ∃ vs', mfGet mf k = some vs' ∧ vs'.set.has p = true) ↔
      ((cmp.modified.has p = true ∨ cmp.added.has p = true ∨ cmp.removed.has p = true) ∧
        C19.compatible pat p = true)) := by
  rw [apply_others_keep_iff_under_include u sc live cfg obj ver m mgr force mf cmp k vs p pat hconv hver hrec
    hsorted hwf hap hcmp hk hvs, hp]
  cases cmp.modified.has p <;> cases cmp.added.has p <;> cases cmp.removed.has p <;>
    cases C19.compatible pat p <;> simp

/-- under the C19 invariant at `p` the statement of `apply_others_lose_exactly` holds verbatim, whatever
the ignore configuration -/
theorem apply_others_lose_exactly_of_respects (u : Updater) (sc : Schema) (live cfg obj : TV) (ver : String)
    (m : Managed) (mgr : String) (force : Bool) (mf : Managed) (cmp : Comparison) (k : String) (vs : VersionedSet)
    (p : Path)
    (hconv : u.converter = Converter.identity)
    (hexwf : ∀ ex, u.ignore vs.version = some (.exclude ex) → ex.wf = true)
    (hrec : reconcileManaged u sc live m = .ok m)
    (hsorted : m.Pairwise (fun a b => a.1 < b.1)) (hwf : ∀ x ∈ m, x.2.set.wf = true)
    (hap : apply u sc live cfg ver m mgr force = .ok (some obj, mf))
    (hcmp : compareTV sc live obj = .ok cmp)
    (hk : k ≠ mgr) (hvs : mfGet m k = some vs)
    (hresp : vs.set.has p = true → C19.RespectsFilter (u.ignore vs.version) p) :
    ((∃ vs', mfGet mf k = some vs' ∧ vs'.set.has p = true) ↔
      (vs.set.has p = true ∧ cmp.modified.has p = false ∧ cmp.added.has p = false ∧ cmp.removed.has p = false)) := by
  rw [apply_others_exact_ignore p hconv hexwf hrec hsorted hwf hap hcmp hk hvs]
  constructor
  · rintro ⟨hp, h⟩
    exact ⟨hp, (filtered_silent_of_respects _ cmp p hexwf (compareTV_wf hcmp) (hresp hp)).1 h⟩
  · rintro ⟨hp, h⟩
    exact ⟨hp, (filtered_silent_of_respects _ cmp p hexwf (compareTV_wf hcmp) (hresp hp)).2 h⟩

-- (`hnoop` is not needed for this statement: `none` is only returned when `returnInputOnNoop = false`)
set_option linter.unusedVariables false in
/-- an apply that returns no object (nothing changed) leaves every other manager's record as it was, under
any ignore configuration -/
theorem apply_noop_keeps_others_under_ignore (u : Updater) (sc : Schema) (live cfg : TV) (ver : String)
    (m : Managed) (mgr : String) (force : Bool) (mf : Managed) (k : String) (vs : VersionedSet)
    (hconv : u.converter = Converter.identity)
    (hexwf : ∀ v ex, u.ignore v = some (.exclude ex) → ex.wf = true)
    (hnoop : u.returnInputOnNoop = false)
    (hrec : reconcileManaged u sc live m = .ok m)
    (hsorted : m.Pairwise (fun a b => a.1 < b.1)) (hwf : ∀ x ∈ m, x.2.set.wf = true)
    (hne : ∀ x ∈ m, x.2.set.isEmpty = false)
    (hap : apply u sc live cfg ver m mgr force = .ok (none, mf))
    (hk : k ≠ mgr) (hvs : mfGet m k = some vs) :
    ∃ vs', mfGet mf k = some vs' ∧ vs'.version = vs.version ∧ vs'.applied = vs.applied ∧
      ∀ p, vs'.set.has p = vs.set.has p :=
  ⟨vs, apply_noop_other_get_ignore hconv hexwf hrec hsorted hwf hne hap hk hvs, rfl, rfl, fun _ => rfl⟩

/-- `apply_others_lose_exactly` (`C05Apply.lean`) is the case of the empty ignore configuration -/
example (u : Updater) (sc : Schema) (live cfg obj : TV) (ver : String)
    (m : Managed) (mgr : String) (force : Bool) (mf : Managed) (cmp : Comparison) (k : String) (vs : VersionedSet) (p : Path)
    (hconv : u.converter = Converter.identity) (hig : u.ignore = fun _ => none)
    (hnoop : u.returnInputOnNoop = false)
    (hrec : reconcileManaged u sc live m = .ok m)
    (hsorted : m.Pairwise (fun a b => a.1 < b.1)) (hwf : ∀ x ∈ m, x.2.set.wf = true)
    (hap : apply u sc live cfg ver m mgr force = .ok (some obj, mf))
    (hcmp : compareTV sc live obj = .ok cmp)
    (hk : k ≠ mgr) (hvs : mfGet m k = some vs) :
    ((∃ vs', mfGet mf k = some vs' ∧ vs'.set.has p = true) ↔
      (vs.set.has p = true ∧ cmp.modified.has p = false ∧ cmp.added.has p = false ∧ cmp.removed.has p = false)) := by
  have h := apply_others_lose_exactly_under_ignore u sc live cfg obj ver m mgr force mf cmp k vs p hconv
    (fun v ex e => by rw [hig] at e; cases e) hnoop hrec hsorted hwf hap hcmp hk hvs
  rw [hig] at h
  exact h

/-- the same with the hypothesis in the form used in `C05Apply.lean` -/
example (u : Updater) (sc : Schema) (live cfg obj : TV) (ver : String)
    (m : Managed) (mgr : String) (force : Bool) (mf : Managed) (cmp : Comparison) (k : String) (vs : VersionedSet) (p : Path)
    (hconv : u.converter = Converter.identity) (hig : ∀ v, u.ignore v = none)
    (hnoop : u.returnInputOnNoop = false)
    (hrec : reconcileManaged u sc live m = .ok m)
    (hsorted : m.Pairwise (fun a b => a.1 < b.1)) (hwf : ∀ x ∈ m, x.2.set.wf = true)
    (hap : apply u sc live cfg ver m mgr force = .ok (some obj, mf))
    (hcmp : compareTV sc live obj = .ok cmp)
    (hk : k ≠ mgr) (hvs : mfGet m k = some vs) :
    ((∃ vs', mfGet mf k = some vs' ∧ vs'.set.has p = true) ↔
      (vs.set.has p = true ∧ cmp.modified.has p = false ∧ cmp.added.has p = false ∧ cmp.removed.has p = false)) := by
  have h := apply_others_lose_exactly_under_ignore u sc live cfg obj ver m mgr force mf cmp k vs p hconv
    (fun v ex e => by rw [hig] at e; cases e) hnoop hrec hsorted hwf hap hcmp hk hvs
  rw [hig vs.version] at h
  exact h

/-- `apply_noop_keeps_others` is the case of the empty ignore configuration -/
example (u : Updater) (sc : Schema) (live cfg : TV) (ver : String)
    (m : Managed) (mgr : String) (force : Bool) (mf : Managed) (k : String) (vs : VersionedSet)
    (hconv : u.converter = Converter.identity) (hig : ∀ v, u.ignore v = none)
    (hnoop : u.returnInputOnNoop = false)
    (hrec : reconcileManaged u sc live m = .ok m)
    (hsorted : m.Pairwise (fun a b => a.1 < b.1)) (hwf : ∀ x ∈ m, x.2.set.wf = true)
    (hne : ∀ x ∈ m, x.2.set.isEmpty = false)
    (hap : apply u sc live cfg ver m mgr force = .ok (none, mf))
    (hk : k ≠ mgr) (hvs : mfGet m k = some vs) :
    ∃ vs', mfGet mf k = some vs' ∧ vs'.version = vs.version ∧ vs'.applied = vs.applied ∧
      ∀ p, vs'.set.has p = vs.set.has p :=
  apply_noop_keeps_others_under_ignore u sc live cfg ver m mgr force mf k vs hconv
    (fun v ex e => by rw [hig] at e; cases e) hnoop hrec hsorted hwf hne hap hk hvs

/-! ### non-vacuity: `.f1.y` ignored at v1 only (`C19.v1Only`) -/

section NonVacuity
open SMD.FW SMD.NV SMD.C19

/-- `{f1: {x: 1, y: 1}, l: [{name: c}]}` -/
def cfgB1 : Value := .map [("f1", .map [("x", .int 1), ("y", .int 1)]), ("l", .list [.map [("name", .str "c")]])]
/-- `{f1: {x: 2, y: 2}, l: [{name: c}]}` -/
def objB2 : Value := .map [("f1", .map [("x", .int 2), ("y", .int 2)]), ("l", .list [.map [("name", .str "c")]])]
/-- `{f1: {x: 2, y: 2}}` -/
def cfgXY2 : Value := .map [("f1", .map [("x", .int 2), ("y", .int 2)])]
/-- `{.f1.x, .l[name=c], .l[name=c].name}` -/
def setXBare : SetTrie :=
  .node [] [(.field "f1", .node [.field "x"] []), (.field "l", .node [keyC] [(keyC, .node [.field "name"] [])])]
/-- the path `.l[name=c]` -/
def pC : Path := [.field "l", keyC]

/-- a1 owns `.f1.x` and the item `c` of `.l`, at v1 (where `.f1.y` is ignored) -/
def mfB1 : Managed := [("a1", ⟨setXBare, "v1", true⟩)]
/-- a1 keeps the item at v1, u1 owns `.f1.x` and `.f1.y` at v2 -/
def mfB2 : Managed := [("a1", ⟨setBare, "v1", true⟩), ("u1", ⟨setXY, "v2", false⟩)]
/-- the same with the applier b in place of the updater u1 -/
def mfB2a : Managed := [("a1", ⟨setBare, "v1", true⟩), ("b", ⟨setXY, "v2", true⟩)]

/-- evaluation of a closed `apply …` under an ignore configuration, other managers at other versions
(`eval_apply` with the manager loop of `eval_update2`) -/
local macro "eval_apply2" : tactic =>
  `(tactic| (unfold apply prune addBackOwned addBackDangling addBackForVersion updateCore applyIgnore filterCmp
               Filter.apply
             simp only [unionS_eq, interS_eq, diffS_eq, rdiffS_eq, managedAtVersionS_eq, updateLoopS2_eq]
             kernel_rfl))

/-- a1 applies `{f1: {x: 1, y: 1}, l: [{name: c}]}` at v1: `.f1.y` is ignored there -/
theorem b_first_apply : apply v1Only sc live0 (tv cfgB1) "v1" [] "a1" false = .ok (some (tv cfgB1), mfB1) := by
  eval_apply
/-- u1 updates `.f1.x` and `.f1.y` to 2, at v2 -/
theorem b_update : update v1Only sc (tv cfgB1) (tv objB2) "v2" mfB1 "u1" = .ok mfB2 := by eval_update2
/-- b applies `{f1: {x: 2, y: 2}}` at v2, forced -/
theorem b_apply_forced :
    apply v1Only sc (tv cfgB1) (tv cfgXY2) "v2" mfB1 "b" true = .ok (some (tv objB2), mfB2a) := by eval_apply2
theorem b_rec : reconcileManaged v1Only sc (tv cfgB1) mfB1 = .ok mfB1 := by with_unfolding_all rfl
/-- the unfiltered comparison reports `.f1.x` and `.f1.y` modified -/
theorem b_cmp : compareTV sc (tv cfgB1) (tv objB2) = .ok ⟨setNone, setXY, setNone⟩ := by with_unfolding_all rfl
theorem mfB1_sorted : mfB1.Pairwise (fun a b => a.1 < b.1) := by decide
theorem mfB1_wf : ∀ x ∈ mfB1, x.2.set.wf = true := by decide

/-- the state the operations below start from is reachable -/
theorem b_reach : History.Reachable v1Only sc rootTR ⟨cfgB1, mfB1⟩ :=
  .step ⟨.null, []⟩ _ .init (.apply ⟨.null, []⟩ cfgB1 "v1" "a1" false (some (tv cfgB1)) mfB1 b_first_apply)

/-- the Update theorem on this world (the filter of a1's version is the exclusion set `{.f1.y}`): a1 loses
`.f1.x`, which the update changed and which is not ignored at v1 … -/
example : ¬ ∃ vs', mfGet mfB2 "a1" = some vs' ∧ vs'.set.has pX = true :=
  (update_others_lose_iff_under_exclusion v1Only sc (tv cfgB1) (tv objB2) "v2" mfB1 "u1" mfB2
    ⟨setNone, setXY, setNone⟩ "a1" ⟨setXBare, "v1", true⟩ pX ignoreSet rfl rfl ignoreSet_wf b_rec mfB1_sorted
    mfB1_wf b_cmp b_update (by decide) rfl (by decide)).2 (by decide)

/-- … and keeps `.l[name=c]`, which it did not change -/
example : ∃ vs', mfGet mfB2 "a1" = some vs' ∧ vs'.set.has pC = true :=
  (update_others_keep_iff_under_exclusion v1Only sc (tv cfgB1) (tv objB2) "v2" mfB1 "u1" mfB2
    ⟨setNone, setXY, setNone⟩ "a1" ⟨setXBare, "v1", true⟩ pC ignoreSet rfl rfl ignoreSet_wf b_rec mfB1_sorted
    mfB1_wf b_cmp b_update (by decide) rfl).2 (by decide)

/-- the general theorem on the same world, as stated (comparison filtered with the filter of v1) -/
example : (∃ vs', mfGet mfB2 "a1" = some vs' ∧ vs'.set.has pX = true) ↔
    (setXBare.has pX = true ∧
      (filterCmp (v1Only.ignore "v1") ⟨setNone, setXY, setNone⟩).modified.has pX = false ∧
      (filterCmp (v1Only.ignore "v1") ⟨setNone, setXY, setNone⟩).added.has pX = false ∧
      (filterCmp (v1Only.ignore "v1") ⟨setNone, setXY, setNone⟩).removed.has pX = false) :=
  update_others_lose_exactly_under_ignore v1Only sc (tv cfgB1) (tv objB2) "v2" mfB1 "u1" mfB2
    ⟨setNone, setXY, setNone⟩ "a1" ⟨setXBare, "v1", true⟩ pX rfl v1Only_wf b_rec mfB1_sorted mfB1_wf b_cmp b_update
    (by decide) rfl

/-- the state being reachable, the record of a1 respects the filter of its version, and the unfiltered
statement holds as well -/
example : (∃ vs', mfGet mfB2 "a1" = some vs' ∧ vs'.set.has pX = true) ↔
    (setXBare.has pX = true ∧ setXY.has pX = false ∧ setNone.has pX = false ∧ setNone.has pX = false) :=
  update_others_lose_exactly_of_respects v1Only sc (tv cfgB1) (tv objB2) "v2" mfB1 "u1" mfB2
    ⟨setNone, setXY, setNone⟩ "a1" ⟨setXBare, "v1", true⟩ pX rfl (v1Only_wf "v1") b_rec mfB1_sorted mfB1_wf b_cmp
    b_update (by decide) rfl
    (fun h => reachable_respects_version_filter' v1Only sc rootTR ⟨cfgB1, mfB1⟩ v1Only_wf b_reach
      ("a1", ⟨setXBare, "v1", true⟩) (by simp [mfB1]) pX h)

/-- the Apply theorem on the same state: b's forced apply takes `.f1.x` from a1 and leaves it the item -/
example : (¬ ∃ vs', mfGet mfB2a "a1" = some vs' ∧ vs'.set.has pX = true) ∧
    ∃ vs', mfGet mfB2a "a1" = some vs' ∧ vs'.set.has pC = true :=
  ⟨(apply_others_lose_iff_under_exclusion v1Only sc (tv cfgB1) (tv cfgXY2) (tv objB2) "v2" mfB1 "b" true mfB2a
      ⟨setNone, setXY, setNone⟩ "a1" ⟨setXBare, "v1", true⟩ pX ignoreSet rfl rfl ignoreSet_wf b_rec mfB1_sorted
      mfB1_wf b_apply_forced b_cmp (by decide) rfl (by decide)).2 (by decide),
   (apply_others_keep_iff_under_exclusion v1Only sc (tv cfgB1) (tv cfgXY2) (tv objB2) "v2" mfB1 "b" true mfB2a
      ⟨setNone, setXY, setNone⟩ "a1" ⟨setXBare, "v1", true⟩ pC ignoreSet rfl rfl ignoreSet_wf b_rec mfB1_sorted
      mfB1_wf b_apply_forced b_cmp (by decide) rfl).2 (by decide)⟩

/-! #### the filter that counts is the one of the RECORD's version

A state that no history reaches (a1's record at v1 contains `.f1.y`, which v1 ignores: excluded by
`C19.reachable_respects_version_filter`) but that satisfies the hypotheses of the theorems: a1 at v1 and b
at v2 both own `.f1.x` and `.f1.y`; u1 changes both at v2.  a1 KEEPS `.f1.y` although the update changed
it and although nothing is ignored at the acting version v2; b, at v2, loses both. -/

def mfA : Managed := [("a1", ⟨setXY, "v1", true⟩), ("b", ⟨setXY, "v2", true⟩)]
def mfA' : Managed := [("a1", ⟨setY, "v1", true⟩), ("u1", ⟨setXY, "v2", false⟩)]

theorem a_update : update v1Only sc (tv d8cfg1) (tv objX2Y2) "v2" mfA "u1" = .ok mfA' := by eval_update2
theorem a_rec : reconcileManaged v1Only sc (tv d8cfg1) mfA = .ok mfA := by with_unfolding_all rfl
theorem a_cmp : compareTV sc (tv d8cfg1) (tv objX2Y2) = .ok ⟨setNone, setXY, setNone⟩ := by with_unfolding_all rfl
theorem mfA_sorted : mfA.Pairwise (fun a b => a.1 < b.1) := by decide
theorem mfA_wf : ∀ x ∈ mfA, x.2.set.wf = true := by decide

/-- a1 (record at v1) keeps `.f1.y`, reported modified but ignored at v1 … -/
example : ∃ vs', mfGet mfA' "a1" = some vs' ∧ vs'.set.has pY = true :=
  (update_others_keep_iff_under_exclusion v1Only sc (tv d8cfg1) (tv objX2Y2) "v2" mfA "u1" mfA'
    ⟨setNone, setXY, setNone⟩ "a1" ⟨setXY, "v1", true⟩ pY ignoreSet rfl rfl ignoreSet_wf a_rec mfA_sorted
    mfA_wf a_cmp a_update (by decide) rfl).2 (by decide)

/-- … and loses `.f1.x` -/
example : ¬ ∃ vs', mfGet mfA' "a1" = some vs' ∧ vs'.set.has pX = true :=
  (update_others_lose_iff_under_exclusion v1Only sc (tv d8cfg1) (tv objX2Y2) "v2" mfA "u1" mfA'
    ⟨setNone, setXY, setNone⟩ "a1" ⟨setXY, "v1", true⟩ pX ignoreSet rfl rfl ignoreSet_wf a_rec mfA_sorted
    mfA_wf a_cmp a_update (by decide) rfl (by decide)).2 (by decide)

/-- b (record at v2, no filter) loses `.f1.y`: the theorem with the absent filter of v2 -/
example : ¬ ∃ vs', mfGet mfA' "b" = some vs' ∧ vs'.set.has pY = true := fun h =>
  absurd ((update_others_lose_exactly_of_respects v1Only sc (tv d8cfg1) (tv objX2Y2) "v2" mfA "u1" mfA'
    ⟨setNone, setXY, setNone⟩ "b" ⟨setXY, "v2", true⟩ pY rfl (v1Only_wf "v2") a_rec mfA_sorted mfA_wf a_cmp
    a_update (by decide) rfl (fun _ => trivial)).1 h).2.1 (by decide)

/-
the statement of `update_others_lose_exactly` with `hig` simply dropped:

theorem update_others_lose_exactly_any_ignore (u : Updater) (sc : Schema) (live newObj : TV) (ver : String)
    (m : Managed) (mgr : String) (mf : Managed) (cmp : Comparison) (k : String) (vs : VersionedSet) (p : Path)
    (hconv : u.converter = Converter.identity)
    (hexwf : ∀ v ex, u.ignore v = some (.exclude ex) → ex.wf = true)
    (hrec : reconcileManaged u sc live m = .ok m)
    (hsorted : m.Pairwise (fun a b => a.1 < b.1)) (hwf : ∀ x ∈ m, x.2.set.wf = true)
    (hcmp : compareTV sc live newObj = .ok cmp)
    (hup : update u sc live newObj ver m mgr = .ok mf)
    (hk : k ≠ mgr) (hvs : mfGet m k = some vs) :
    ((∃ vs', mfGet mf k = some vs' ∧ vs'.set.has p = true) ↔
      (vs.set.has p = true ∧ cmp.modified.has p = false ∧ cmp.added.has p = false ∧ cmp.removed.has p = false))
-/
-- STATEMENT-FALSE: u = v1Only (`{.f1.y}` excluded at v1 only), m = mfA, u1 updates `{f1: {x: 1, y: 1}}` to
-- `{f1: {x: 2, y: 2}}` at v2, k = a1 (record `{.f1.x, .f1.y}` at v1), p = `.f1.y`: reported modified, kept by a1.
-- True with the comparison filtered at the record's version (`update_others_lose_exactly_under_ignore`) and,
-- unfiltered, under the C19 invariant at `p` (`update_others_lose_exactly_of_respects`).
example : ¬ ∀ (u : Updater) (sc : Schema) (live newObj : TV) (ver : String)
    (m : Managed) (mgr : String) (mf : Managed) (cmp : Comparison) (k : String) (vs : VersionedSet) (p : Path)
    (_ : u.converter = Converter.identity)
    (_ : ∀ v ex, u.ignore v = some (.exclude ex) → ex.wf = true)
    (_ : reconcileManaged u sc live m = .ok m)
    (_ : m.Pairwise (fun a b => a.1 < b.1)) (_ : ∀ x ∈ m, x.2.set.wf = true)
    (_ : compareTV sc live newObj = .ok cmp)
    (_ : update u sc live newObj ver m mgr = .ok mf)
    (_ : k ≠ mgr) (_ : mfGet m k = some vs),
    ((∃ vs', mfGet mf k = some vs' ∧ vs'.set.has p = true) ↔
      (vs.set.has p = true ∧ cmp.modified.has p = false ∧ cmp.added.has p = false ∧ cmp.removed.has p = false)) :=
  fun h =>
    absurd ((h v1Only sc (tv d8cfg1) (tv objX2Y2) "v2" mfA "u1" mfA' ⟨setNone, setXY, setNone⟩ "a1"
      ⟨setXY, "v1", true⟩ pY rfl v1Only_wf a_rec mfA_sorted mfA_wf a_cmp a_update (by decide) rfl).1
      ⟨⟨setY, "v1", true⟩, rfl, by decide⟩).2.1 (by decide)

/-! #### an apply that changes nothing -/

/-- a1 owns `.f1.x` at v1, b (at v2) applies the same value: nothing changes, no object is returned -/
def mfN : Managed := [("a1", ⟨setX, "v1", true⟩), ("b", ⟨setX, "v2", true⟩)]
theorem n_apply : apply v1Only sc (tv d8cfg1) (tv cfgX1) "v2" d8mf1 "b" false = .ok (none, mfN) := by eval_apply2
theorem n_rec : reconcileManaged v1Only sc (tv d8cfg1) d8mf1 = .ok d8mf1 := by with_unfolding_all rfl

example : ∃ vs', mfGet mfN "a1" = some vs' ∧ vs'.version = "v1" ∧ vs'.applied = true ∧
    ∀ p, vs'.set.has p = d8set1.has p :=
  apply_noop_keeps_others_under_ignore v1Only sc (tv d8cfg1) (tv cfgX1) "v2" d8mf1 "b" false mfN "a1"
    ⟨d8set1, "v1", true⟩ rfl v1Only_wf rfl n_rec d8mf1_sorted d8mf1_wf d8mf1_ne n_apply (by decide) rfl

/-! #### an include pattern (`NV.including`: `.f1.x` at every version) -/

theorem inc_rec : reconcileManaged including sc (tv d8cfg1) d8mf1 = .ok d8mf1 := by with_unfolding_all rfl

/-- a1 loses `.f1.x`: modified and compatible with the pattern -/
example : ¬ ∃ vs', mfGet mfU1X "a1" = some vs' ∧ vs'.set.has pX = true :=
  (update_others_lose_iff_under_include including sc (tv d8cfg1) (tv objX2Y2) "v2" d8mf1 "u1" mfU1X
    ⟨setNone, setXY, setNone⟩ "a1" ⟨d8set1, "v1", true⟩ pX incPat rfl rfl inc_rec d8mf1_sorted d8mf1_wf a_cmp
    inc_update_both (by decide) rfl (by decide)).2 (by decide)

end NonVacuity

end SMD.C05

#print axioms SMD.C05.filtered_silent_under_exclusion
#print axioms SMD.C05.filtered_silent_under_include
#print axioms SMD.C05.filtered_silent_of_respects
#print axioms SMD.C05.update_others_lose_exactly_under_ignore
#print axioms SMD.C05.update_others_keep_iff_under_exclusion
#print axioms SMD.C05.update_others_lose_iff_under_exclusion
#print axioms SMD.C05.update_others_keep_iff_under_include
#print axioms SMD.C05.update_others_lose_iff_under_include
#print axioms SMD.C05.update_others_lose_exactly_of_respects
#print axioms SMD.C05.apply_others_lose_exactly_under_ignore
#print axioms SMD.C05.apply_others_keep_iff_under_exclusion
#print axioms SMD.C05.apply_others_lose_iff_under_exclusion
#print axioms SMD.C05.apply_others_keep_iff_under_include
#print axioms SMD.C05.apply_others_lose_iff_under_include
#print axioms SMD.C05.apply_others_lose_exactly_of_respects
#print axioms SMD.C05.apply_noop_keeps_others_under_ignore
#print axioms SMD.C05.b_first_apply
#print axioms SMD.C05.b_update
#print axioms SMD.C05.b_apply_forced
#print axioms SMD.C05.b_reach
#print axioms SMD.C05.a_update
#print axioms SMD.C05.n_apply
