/-
C06 — object and ownership stay mutually consistent along any history (partial by theorem: histories of
Update operations, and of a first Apply of every manager; the general Apply — prune and add-back — is
decided on the implementation by the C06 judges of the `upd` domain after every operation).

`OwnedPresent`: every path recorded as owned by some manager is a member of the live object's field set
(it designates something present in the live object: SMD/Properties/C14Nodes.lean relates members of
the field set to nodes of the object).

FINDINGS (see the end of the file for the statements that do carry content):

* HYPOTHESIS-UNSATISFIABLE: `CompareSound sc` is false for EVERY schema `sc` (`compareSound_unsat`): its
  clause `added` fails.  Comparing `null` with `{f: ["x"]}` (type `{f: set of strings}`, inline) reports
  `.f["x"]` and `.f` as added (the comparing walker records every node whose left side is absent,
  containers included), whereas the field set of `{f: ["x"]}` is `{.f["x"]}`: a declared field holding a
  non-empty list or map is recorded through its descendants only.  The three theorems first stated
  with `hc : CompareSound sc` were therefore VACUOUS and have been removed.
* PROPERTY-FALSE: without `hc` the property itself fails of the model, for the same reason: after the
  single Update `null → {f: ["x"]}` by manager "m", "m" owns `.f`, which is not a member of the live
  object's field set (`updates_owned_present_false`, `update_keeps_owned_present_false`; kernel-checked).
  `OwnedPresent` (membership in the field set) is not an invariant; the paths Compare reports, and hence
  the paths managers own, also include container nodes.
* Independently of the above, the one-step statements need the representation invariant of the managed
  fields (keys strictly ascending, every record a well-formed trie): with a record whose member list
  repeats an element (`node [a, a] []`), or with two entries for one manager, the subtraction of the
  removed paths misses the second copy and the removed path stays owned
  (`Counter06.removed_kept_without_wf`, `Counter06.removed_kept_without_sorted`, kernel-checked runs in
  SMD/Proofs/ConsistencyCounterexamples.lean; the statements below cannot themselves be refuted on them
  because of the unsatisfiable hypothesis).
* What IS proved, with content: the bookkeeping argument for an arbitrary notion of presence `P`
  (`SMD.Presence`, SMD/Proofs/ConsistencyInvariant.lean) — `update_keeps_owned_of_compare_facts`,
  `updates_owned_of_compare_facts`, `first_apply_keeps_owned_of_compare_facts`: if presence is inherited
  by prefixes (`PrefixClosed P`) and Compare satisfies `CompareFacts sc P` (added and modified paths
  are present on the right; a path present on the left and not on the right is reported removed), then
  every owned path stays present along all histories of Updates.  Prefix closure is what makes the
  schema-reconcile step harmless (it only adds prefixes of owned paths); field-set membership is not
  prefix closed, node presence is.  `CompareFacts sc (fun _ _ _ => True)` holds trivially, so the
  hypotheses are consistent; the instance of interest, `updates_owned_nodes_of_compare_facts`
  (presence = `SMD.VisibleNode`: the path designates a node and no node strictly above it is atomic or
  scalar typed; conclusion: every owned path designates a node, `Nodes.present`), needs
  `CompareFacts sc (VisibleNode sc)`, a statement about Compare alone (checked by evaluation on some
  650 pairs of sample objects — sets, keyed lists, atomic / granular maps, the deduced untyped type —
  not proved).
-/
import SMD.Proofs.ConsistencyInvariant
import SMD.Proofs.ConsistencyCounterexamples
namespace SMD.C06
open SMD.History

/-- every owned path is a member of the live object's field set -/
def OwnedPresent (sc : Schema) (tr : TypeRef) (st : State) : Prop :=
  ∃ ps, fsV sc tr st.live = .ok ps ∧
    ∀ x ∈ st.managed, ∀ p, x.2.set.has p = true → (SetTrie.ofPaths ps).has p = true

/-- what the bookkeeping needs from Compare (proved separately in SMD/Properties/C11Exact.lean; a
hypothesis here so that the two developments are independent) -/
structure CompareSound (sc : Schema) : Prop where
  added : ∀ (l r : TV) (c : Comparison) (fl fr : SetTrie),
    validateV sc false l.type l.value = .ok () → validateV sc false r.type r.value = .ok () →
    compareTV sc l r = .ok c → toFieldSet sc l = .ok fl → toFieldSet sc r = .ok fr →
    ∀ p, c.added.has p = true → fr.has p = true
  modified : ∀ (l r : TV) (c : Comparison) (fl fr : SetTrie),
    validateV sc false l.type l.value = .ok () → validateV sc false r.type r.value = .ok () →
    compareTV sc l r = .ok c → toFieldSet sc l = .ok fl → toFieldSet sc r = .ok fr →
    ∀ p, c.modified.has p = true → fr.has p = true
  removed : ∀ (l r : TV) (c : Comparison) (fl fr : SetTrie),
    validateV sc false l.type l.value = .ok () → validateV sc false r.type r.value = .ok () →
    compareTV sc l r = .ok c → toFieldSet sc l = .ok fl → toFieldSet sc r = .ok fr →
    ∀ p, fl.has p = true → fr.has p = false → c.removed.has p = true

/-- states reachable from the empty object by successful Update operations submitting valid
duplicate-free objects (any managers, any versions) -/
inductive ReachableByUpdates (u : Updater) (sc : Schema) (tr : TypeRef) : State → Prop
  | init : ReachableByUpdates u sc tr ⟨.null, []⟩
  | step (st : State) (newObj : Value) (ver mgr : String) (mf : Managed) :
      ReachableByUpdates u sc tr st → validateV sc false tr newObj = .ok () →
      SMD.update u sc ⟨st.live, tr⟩ ⟨newObj, tr⟩ ver st.managed mgr = .ok mf →
      ReachableByUpdates u sc tr ⟨newObj, mf⟩

/-- `CompareSound` holds of no schema: Compare reports container nodes as added, the field set does
not contain them (SMD/Proofs/ConsistencyCounterexamples.lean) -/
theorem compareSound_unsat (sc : Schema) : ¬ CompareSound sc := by
  intro hc
  have h := hc.added ⟨.null, Counter06.trF⟩ ⟨Counter06.liveF, Counter06.trF⟩ _ _ _
    (Counter06.valid_null sc) (Counter06.valid_liveF sc) (Counter06.compare_null_liveF sc)
    (Counter06.fieldset_null sc) (Counter06.fieldset_liveF sc) Counter06.pF Counter06.added_has_f
  rw [Counter06.fieldset_lacks_f] at h
  cases h

/-! ### the statements as first written (removed)

`update_keeps_owned_present`, `updates_owned_present_partial` and `first_apply_keeps_owned_present` were
stated with the hypothesis `hc : CompareSound sc`. Since `CompareSound sc` holds of no schema
(`compareSound_unsat`) they were vacuous and have been removed rather than kept as theorems without
content; the statements that replace them (`…_of_compare_facts`) are at the end of this file. -/

/-! ### the property without the unsatisfiable hypothesis is false of the model -/

-- STATEMENT-FALSE (the one-step statement without `hc`): u = identity converter, no ignore; sc = ⟨[]⟩;
-- tr = {f: set of strings}; st = ⟨null, []⟩; newObj = {f: ["x"]}; manager "m".  All hypotheses hold
-- (nobody owns anything in `st`); afterwards "m" owns `.f["x"]` and `.f`, and the field set of
-- {f: ["x"]} is {.f["x"]}.
theorem update_keeps_owned_present_false : ¬ (∀ (u : Updater) (sc : Schema) (tr : TypeRef) (st : State)
    (newObj : Value) (ver mgr : String) (mf : Managed),
    u.converter = Converter.identity → (∀ v, u.ignore v = none) →
    validateV sc false tr st.live = .ok () → validateV sc false tr newObj = .ok () →
    OwnedPresent sc tr st →
    SMD.update u sc ⟨st.live, tr⟩ ⟨newObj, tr⟩ ver st.managed mgr = .ok mf →
    OwnedPresent sc tr ⟨newObj, mf⟩) := by
  intro h
  obtain ⟨mf, hup⟩ := Counter06.update_ok ⟨[]⟩
  obtain ⟨ps, hps, hall⟩ := h Counter06.upd ⟨[]⟩ Counter06.trF ⟨.null, []⟩ Counter06.liveF "v" "m" mf rfl
    (fun _ => rfl) (Counter06.valid_null _) (Counter06.valid_liveF _) ⟨[], rfl, by simp⟩ hup
  rw [Counter06.fs_liveF] at hps
  simp only [Res.ok.injEq] at hps
  subst hps
  obtain ⟨x, hx, hf⟩ := Counter06.update_owns_f _ mf hup
  have := hall x hx _ hf
  rw [Counter06.fieldset_lacks_f] at this
  cases this

-- STATEMENT-FALSE (the history statement without `hc`): the history of length one of the same run.
theorem updates_owned_present_false : ¬ (∀ (u : Updater) (sc : Schema) (tr : TypeRef) (st : State),
    u.converter = Converter.identity → (∀ v, u.ignore v = none) →
    validateV sc false tr .null = .ok () → ReachableByUpdates u sc tr st →
    validateV sc false tr st.live = .ok () ∧ OwnedPresent sc tr st) := by
  intro h
  obtain ⟨mf, hup⟩ := Counter06.update_ok ⟨[]⟩
  have hr : ReachableByUpdates Counter06.upd ⟨[]⟩ Counter06.trF ⟨Counter06.liveF, mf⟩ :=
    .step ⟨.null, []⟩ Counter06.liveF "v" "m" mf .init (Counter06.valid_liveF _) hup
  obtain ⟨_, ps, hps, hall⟩ := h Counter06.upd ⟨[]⟩ Counter06.trF _ rfl (fun _ => rfl) (Counter06.valid_null _) hr
  rw [Counter06.fs_liveF] at hps
  simp only [Res.ok.injEq] at hps
  subst hps
  obtain ⟨x, hx, hf⟩ := Counter06.update_owns_f _ mf hup
  have := hall x hx _ hf
  rw [Counter06.fieldset_lacks_f] at this
  cases this

/-! ### the closest true statements: ownership against a prefix-closed notion of presence

`P tr v p` — "`p` designates something present in `v : tr`" — is a parameter; what is needed from
Compare is `CompareFacts sc P` (SMD/Proofs/ConsistencyInvariant.lean).  The managed fields must satisfy
their representation invariant (`SortedManaged`: keys strictly ascending; every record well formed),
which every reachable state does. -/

/-- one Update keeps "every owned path is present" -/
theorem update_keeps_owned_of_compare_facts (P : Presence) (u : Updater) (sc : Schema) (tr : TypeRef)
    (st : State) (newObj : Value) (ver mgr : String) (mf : Managed)
    (hP : PrefixClosed P) (hc : CompareFacts sc P)
    (hconv : u.converter = Converter.identity) (hig : ∀ v, u.ignore v = none)
    (hsorted : SortedManaged st.managed) (hwf : ∀ x ∈ st.managed, x.2.set.wf = true)
    (hlive : validateV sc false tr st.live = .ok ()) (hnew : validateV sc false tr newObj = .ok ())
    (hinv : OwnedIn P tr st.live st.managed)
    (hup : SMD.update u sc ⟨st.live, tr⟩ ⟨newObj, tr⟩ ver st.managed mgr = .ok mf) :
    OwnedIn P tr newObj mf :=
  update_ownedIn hP hc hconv hig hsorted hwf hlive hnew hinv hup

/-- along every history of Updates: the live object is valid, the managed fields satisfy their
representation invariant and every owned path is present -/
theorem updates_owned_of_compare_facts (P : Presence) (u : Updater) (sc : Schema) (tr : TypeRef) (st : State)
    (hP : PrefixClosed P) (hc : CompareFacts sc P)
    (hconv : u.converter = Converter.identity) (hig : ∀ v, u.ignore v = none)
    (hnull : validateV sc false tr .null = .ok ())
    (h : ReachableByUpdates u sc tr st) :
    validateV sc false tr st.live = .ok () ∧ ManagedInv st.managed ∧ OwnedIn P tr st.live st.managed := by
  have higw : IgnoreWF u := fun v ex e => by rw [hig v] at e; cases e
  induction h with
  | init => exact ⟨hnull, ⟨List.Pairwise.nil, by simp, by simp⟩, fun x hx => by simp at hx⟩
  | step st newObj ver mgr mf _ hnew hup ih =>
    obtain ⟨hlive, hm, hinv⟩ := ih
    exact ⟨hnew, update_managedInv higw hup hm,
      update_ownedIn hP hc hconv hig hm.1 hm.2.1 hlive hnew hinv hup⟩

/-- a manager's first Apply keeps "every owned path is present", provided the merged object is valid,
the paths of the configuration are present in it (merge right-wins, C01) and presence does not
distinguish equal values (needed when the Apply changes nothing and the live object is kept) -/
theorem first_apply_keeps_owned_of_compare_facts (P : Presence) (u : Updater) (sc : Schema) (tr : TypeRef)
    (st : State) (cfg : Value) (ver mgr : String) (force : Bool) (obj : Option TV) (mf : Managed)
    (hP : PrefixClosed P) (hc : CompareFacts sc P)
    (hconv : u.converter = Converter.identity) (hig : ∀ v, u.ignore v = none)
    (hsorted : SortedManaged st.managed) (hwf : ∀ x ∈ st.managed, x.2.set.wf = true)
    (hlive : validateV sc false tr st.live = .ok ())
    (hvalid : ∀ merged, mergeTV sc ⟨st.live, tr⟩ ⟨cfg, tr⟩ = .ok merged →
      validateV sc false tr merged.value = .ok ())
    (hcfg : ∀ merged fs, mergeTV sc ⟨st.live, tr⟩ ⟨cfg, tr⟩ = .ok merged → toFieldSet sc ⟨cfg, tr⟩ = .ok fs →
      ∀ p, fs.has p = true → P tr merged.value p)
    (hcongr : ∀ (v w : Value) (p : Path), Value.equals v w = true → P tr w p → P tr v p)
    (hinv : OwnedIn P tr st.live st.managed) (hfirst : mfGet st.managed mgr = none)
    (hap : SMD.apply u sc ⟨st.live, tr⟩ ⟨cfg, tr⟩ ver st.managed mgr force = .ok (obj, mf)) :
    OwnedIn P tr (match (generalizing := false) obj with | some o => o.value | none => st.live) mf :=
  first_apply_ownedIn hP hc hconv hig hsorted hwf hlive hvalid hcfg hcongr hinv hfirst hap

/-! The instance of interest — every owned path designates a node of the live object under the
independent resolver — is `SMD.C06.updates_owned_nodes` in SMD/Properties/C06Nodes.lean, proved there
without any hypothesis about Compare (presence predicate `NodePresence`; the Compare facts come from
the C11 exactness theorems). A first version stated here with `CompareFacts sc (VisibleNode sc)` was
vacuous (`compareFacts_visibleNode_unsat`: `Nodes.childAt` also resolves positional index elements,
which Compare never reports) and has been removed. -/

/-- the hypotheses on `P` are consistent (trivially: everything is present) -/
example (sc : Schema) : PrefixClosed (fun _ _ _ => True) ∧ CompareFacts sc (fun _ _ _ => True) :=
  ⟨fun _ _ _ _ _ _ => trivial,
   ⟨fun _ _ _ _ _ _ _ _ => trivial, fun _ _ _ _ _ _ _ _ => trivial, fun _ _ _ _ _ _ _ _ h => absurd trivial h⟩⟩

end SMD.C06
