/-
C06 along histories of Updates AND Applies (single version, identity converter, no ignore
configuration): every path recorded as owned by some manager designates a node of the live object.
The validity of the objects returned by pruning applies is taken as a premise of each step (it is the
first half of C06, decided by the judges; the model does not prove it: removing the key field of an
item that somebody else keeps alive would break it); what is proved is the second half, ownership
consistency, through every apply — merge, prune, add-back — and every update.

The premises about the schema-reconcile step (`hrec` of `apply_keeps_owned_nodes`, `hrecid` of
`reachable_owned_nodes`) and about the validity of the configuration (`hcfgv`) turned out not to be
needed: the reconcile step only adds prefixes of owned paths and `NodePresence` is prefix closed.  The
statements as first written are kept (and proved); `apply_keeps_owned_nodes_strong` and
`reachable_owned_nodes_strong` are the same statements without those premises.
-/
import SMD.Proofs.ConsistencyApply
set_option linter.unusedVariables false
namespace SMD.C06
open SMD.History

/-- one successful Apply keeps "every owned path designates a node" (presence predicate `NodePresence`),
provided the returned object is valid and the configuration's field set is present in the result; no
premise about the reconcile step, none about the validity of the configuration -/
theorem apply_keeps_owned_nodes_strong (u : Updater) (sc : Schema) (tr : TypeRef) (st : State)
    (cfg : Value) (ver mgr : String) (force : Bool) (obj : Option TV) (mf : Managed)
    (hconv : u.converter = Converter.identity) (hig : ∀ v, u.ignore v = none)
    (hsorted : SortedManaged st.managed) (hwf : ∀ x ∈ st.managed, x.2.set.wf = true)
    (hlive : validateV sc false tr st.live = .ok ())
    (hobjv : ∀ o, obj = some o → validateV sc false tr o.value = .ok ())
    (hcfg : ∀ fs, toFieldSet sc ⟨cfg, tr⟩ = .ok fs → ∀ p, fs.has p = true →
      NodePresence sc tr (match obj with | some o => o.value | none => st.live) p)
    (hinv : OwnedIn (NodePresence sc) tr st.live st.managed)
    (hap : SMD.apply u sc ⟨st.live, tr⟩ ⟨cfg, tr⟩ ver st.managed mgr force = .ok (obj, mf)) :
    OwnedIn (NodePresence sc) tr (match obj with | some o => o.value | none => st.live) mf := by
  cases obj with
  | some o =>
    exact apply_some_ownedIn (nodePresence_prefixClosed sc) (compareFacts_nodePresence sc) hconv hig hsorted hwf
      hlive (hobjv o rfl) hcfg hinv hap
  | none =>
    exact apply_none_ownedIn (nodePresence_prefixClosed sc) hconv hig hsorted hwf hcfg hinv hap

/-- one successful Apply keeps "every owned path designates a node" (presence predicate `NodePresence`),
provided the returned object is valid and the configuration's field set is present in it -/
theorem apply_keeps_owned_nodes (u : Updater) (sc : Schema) (tr : TypeRef) (st : State)
    (cfg : Value) (ver mgr : String) (force : Bool) (obj : Option TV) (mf : Managed)
    (hconv : u.converter = Converter.identity) (hig : ∀ v, u.ignore v = none)
    (hsorted : SortedManaged st.managed) (hwf : ∀ x ∈ st.managed, x.2.set.wf = true)
    (hrec : reconcileManaged u sc ⟨st.live, tr⟩ st.managed = .ok st.managed)
    (hlive : validateV sc false tr st.live = .ok ()) (hcfgv : validateV sc false tr cfg = .ok ())
    (hobjv : ∀ o, obj = some o → validateV sc false tr o.value = .ok ())
    (hcfg : ∀ fs, toFieldSet sc ⟨cfg, tr⟩ = .ok fs → ∀ p, fs.has p = true →
      NodePresence sc tr (match obj with | some o => o.value | none => st.live) p)
    (hinv : OwnedIn (NodePresence sc) tr st.live st.managed)
    (hap : SMD.apply u sc ⟨st.live, tr⟩ ⟨cfg, tr⟩ ver st.managed mgr force = .ok (obj, mf)) :
    OwnedIn (NodePresence sc) tr (match obj with | some o => o.value | none => st.live) mf :=
  apply_keeps_owned_nodes_strong u sc tr st cfg ver mgr force obj mf hconv hig hsorted hwf hlive hobjv hcfg
    hinv hap

/-- states reachable by Updates and Applies whose results are valid and in which the configuration took
effect (every member of its field set designates a node of the result) -/
inductive ReachableOK (u : Updater) (sc : Schema) (tr : TypeRef) : State → Prop
  | init : ReachableOK u sc tr ⟨.null, []⟩
  | update (st : State) (newObj : Value) (ver mgr : String) (mf : Managed) :
      ReachableOK u sc tr st → validateV sc false tr newObj = .ok () →
      SMD.update u sc ⟨st.live, tr⟩ ⟨newObj, tr⟩ ver st.managed mgr = .ok mf →
      ReachableOK u sc tr ⟨newObj, mf⟩
  | apply (st : State) (cfg : Value) (ver mgr : String) (force : Bool) (obj : Option TV) (mf : Managed) :
      ReachableOK u sc tr st → validateV sc false tr cfg = .ok () →
      SMD.apply u sc ⟨st.live, tr⟩ ⟨cfg, tr⟩ ver st.managed mgr force = .ok (obj, mf) →
      (∀ o, obj = some o → validateV sc false tr o.value = .ok ()) →
      (∀ fs, toFieldSet sc ⟨cfg, tr⟩ = .ok fs → ∀ p, fs.has p = true →
        NodePresence sc tr (match obj with | some o => o.value | none => st.live) p) →
      ReachableOK u sc tr ⟨(match obj with | some o => o.value | none => st.live), mf⟩

/-- along every such history: the live object is valid, the managed fields satisfy their representation
invariant and every owned path is not the root and designates a node for the typed walkers
(`CmpX.nodeAt`) and for the independent resolver; no premise about the reconcile step -/
theorem reachable_owned_nodePresence (u : Updater) (sc : Schema) (tr : TypeRef) (st : State)
    (hconv : u.converter = Converter.identity) (hig : ∀ v, u.ignore v = none)
    (hnull : validateV sc false tr .null = .ok ())
    (h : ReachableOK u sc tr st) :
    validateV sc false tr st.live = .ok () ∧ ManagedInv st.managed ∧
      OwnedIn (NodePresence sc) tr st.live st.managed := by
  have higw : IgnoreWF u := fun v ex e => by rw [hig v] at e; cases e
  induction h with
  | init => exact ⟨hnull, ⟨List.Pairwise.nil, by simp, by simp⟩, fun x hx => by simp at hx⟩
  | update st newObj ver mgr mf _ hnew hup ih =>
    obtain ⟨hlive, hm, hinv⟩ := ih
    exact ⟨hnew, update_managedInv higw hup hm,
      (update_keeps_owned_nodes u sc tr st newObj ver mgr mf hconv hig hm.1 hm.2.1 hlive hnew hinv hup).1⟩
  | apply st cfg ver mgr force obj mf _ _ hap hobjv hcfg ih =>
    obtain ⟨hlive, hm, hinv⟩ := ih
    have hm' := apply_managedInv higw hap hm
    cases obj with
    | some o =>
      exact ⟨hobjv o rfl, hm', apply_keeps_owned_nodes_strong u sc tr st cfg ver mgr force (some o) mf hconv hig
        hm.1 hm.2.1 hlive hobjv hcfg hinv hap⟩
    | none =>
      exact ⟨hlive, hm', apply_keeps_owned_nodes_strong u sc tr st cfg ver mgr force none mf hconv hig
        hm.1 hm.2.1 hlive hobjv hcfg hinv hap⟩

/-- C06, second half, along every such history; no premise about the reconcile step -/
theorem reachable_owned_nodes_strong (u : Updater) (sc : Schema) (tr : TypeRef) (st : State)
    (hconv : u.converter = Converter.identity) (hig : ∀ v, u.ignore v = none)
    (hnull : validateV sc false tr .null = .ok ())
    (h : ReachableOK u sc tr st) :
    validateV sc false tr st.live = .ok () ∧
      ∀ x ∈ st.managed, ∀ p, x.2.set.has p = true → Nodes.present sc tr st.live p = true := by
  obtain ⟨hv, _, hown⟩ := reachable_owned_nodePresence u sc tr st hconv hig hnull h
  exact ⟨hv, fun x hx p hp => present_of_nodePresence (hown x hx p hp)⟩

/-- C06, second half, along every such history -/
theorem reachable_owned_nodes (u : Updater) (sc : Schema) (tr : TypeRef) (st : State)
    (hconv : u.converter = Converter.identity) (hig : ∀ v, u.ignore v = none)
    (hnull : validateV sc false tr .null = .ok ())
    (hrecid : ∀ live m, OwnedIn (NodePresence sc) tr live m → reconcileManaged u sc ⟨live, tr⟩ m = .ok m)
    (h : ReachableOK u sc tr st) :
    validateV sc false tr st.live = .ok () ∧
      ∀ x ∈ st.managed, ∀ p, x.2.set.has p = true → Nodes.present sc tr st.live p = true :=
  reachable_owned_nodes_strong u sc tr st hconv hig hnull h

/-! ### non-vacuity: the D11 history (SMD/Properties/FindingWitnesses.lean, data in
SMD/Proofs/ConsistencyApplyWitness.lean): a1 applies `{l: [{name: c, sub: [0]}]}`, u1 updates to
`{l: [{name: c, sub: [0, 1]}]}`, a1 — who has a previous record — re-applies `{l: [{name: c}]}`: the merge
is pruned to `{l: [{name: c, sub: [1]}]}`.  The state is reachable in the sense of `ReachableOK`, u1 owns
`.l[name=c].sub[=1]`, and that path designates a node of the live object. -/
example : ∃ st, ReachableOK FW.plain FW.sc FW.rootTR st ∧ st.live = FW.objSub1 ∧ st.live ≠ FW.objSub01 ∧
    (∃ x ∈ st.managed, x.1 = "u1" ∧ x.2.set.has FW.pathSub1 = true) ∧
    Nodes.present FW.sc FW.rootTR st.live FW.pathSub1 = true := by
  have h1 : ReachableOK FW.plain FW.sc FW.rootTR ⟨FW.cfgSub0, FW.mfA1 "v1"⟩ :=
    .apply ⟨.null, []⟩ FW.cfgSub0 "v1" "a1" false (some (FW.tv FW.cfgSub0)) _ .init FW.w_valid_cfgSub0
      FW.d11_first_apply (fun o ho => by cases ho; exact FW.w_valid_cfgSub0) FW.w_cfgSub0_present
  have h2 : ReachableOK FW.plain FW.sc FW.rootTR ⟨FW.objSub01, FW.mfA1U1 "v1"⟩ :=
    .update ⟨FW.cfgSub0, FW.mfA1 "v1"⟩ FW.objSub01 "v1" "u1" _ h1 FW.w_valid_objSub01 FW.d11_update
  have h3 : ReachableOK FW.plain FW.sc FW.rootTR ⟨FW.objSub1, FW.mfKept "v1"⟩ :=
    .apply ⟨FW.objSub01, FW.mfA1U1 "v1"⟩ FW.cfgBare "v1" "a1" false (some (FW.tv FW.objSub1)) _ h2
      FW.w_valid_cfgBare FW.d11_reapply_same_version (fun o ho => by cases ho; exact FW.w_valid_objSub1)
      FW.w_cfgBare_present
  obtain ⟨x, hx, hk, hp⟩ := FW.w_u1_owns
  exact ⟨_, h3, rfl, FW.w_pruned, ⟨x, hx, hk, hp⟩,
    (reachable_owned_nodes_strong _ _ _ _ rfl (fun _ => rfl) FW.w_valid_null h3).2 x hx _ hp⟩

end SMD.C06
