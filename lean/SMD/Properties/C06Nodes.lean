/-
C06 along every history of Updates, without any hypothesis about Compare: the Compare facts are
discharged from the C11 exactness theorems (SMD/Properties/C11Exact.lean).

The notion of presence is `SMD.NodePresence sc` (SMD/Proofs/CompareFactsBridge.lean): the path is not the
root, the typed walkers resolve it to a node of the object (`CmpX.nodeAt`, the reference of C11) and so
does the independent resolver (`Nodes.present`).  It is prefix closed (`nodePresence_prefixClosed`) and
Compare satisfies the three facts for it on every schema (`compareFacts_nodePresence`): added and
modified paths designate nodes of the right operand, a path that designates a node of the left operand
and none of the right one is reported removed (`compare_added_iff_partial`, `compare_removed_iff_partial`,
`compare_modified_sound_partial`), and on the operands of a comparison that succeeds `nodeAt` and
`Nodes.valueAt` agree (`CmpX.compareTV_valueAt_left/right`: the comparison has computed the path element of
every member of every list it met; no `listsAssociative` hypothesis, no hypothesis on index elements).

FINDING: for the presence predicate of `SMD.C06.updates_owned_nodes_of_compare_facts`, `VisibleNode sc`
(the independent resolver alone), the hypothesis `CompareFacts sc (VisibleNode sc)` holds of NO schema
(`compareFacts_visibleNode_false`): `Nodes.childAt` also resolves positional index elements, Compare never
reports them — `.f[0]` is visible in `{f: ["x"]}`, not in `null`, and is not reported removed.  That
theorem was vacuous; `updates_owned_nodes` below has its conclusion without the hypothesis.
-/
import SMD.Proofs.CompareFactsBridge
namespace SMD.C06
open SMD.History

/-- HYPOTHESIS-UNSATISFIABLE: the Compare facts for `VisibleNode` fail on every schema (kernel-checked
run in SMD/Proofs/CompareFactsBridge.lean) -/
theorem compareFacts_visibleNode_unsat (sc : Schema) : ¬ CompareFacts sc (VisibleNode sc) :=
  compareFacts_visibleNode_false sc

/-- one Update keeps "every owned path designates a node" (`NodePresence`), and then every owned path
designates a node of the new object for the independent resolver -/
theorem update_keeps_owned_nodes (u : Updater) (sc : Schema) (tr : TypeRef)
    (st : State) (newObj : Value) (ver mgr : String) (mf : Managed)
    (hconv : u.converter = Converter.identity) (hig : ∀ v, u.ignore v = none)
    (hsorted : SortedManaged st.managed) (hwf : ∀ x ∈ st.managed, x.2.set.wf = true)
    (hlive : validateV sc false tr st.live = .ok ()) (hnew : validateV sc false tr newObj = .ok ())
    (hinv : OwnedIn (NodePresence sc) tr st.live st.managed)
    (hup : SMD.update u sc ⟨st.live, tr⟩ ⟨newObj, tr⟩ ver st.managed mgr = .ok mf) :
    OwnedIn (NodePresence sc) tr newObj mf ∧
      ∀ x ∈ mf, ∀ p, x.2.set.has p = true → Nodes.present sc tr newObj p = true := by
  have h := update_keeps_owned_of_compare_facts (NodePresence sc) u sc tr st newObj ver mgr mf
    (nodePresence_prefixClosed sc) (compareFacts_nodePresence sc) hconv hig hsorted hwf hlive hnew hinv hup
  exact ⟨h, fun x hx p hp => present_of_nodePresence (h x hx p hp)⟩

/-- C06 for histories of Updates (identity converter, no ignore configuration): the live object is valid
and every path recorded as owned by some manager designates a node of the live object (independent
resolver `Nodes.present`) -/
theorem updates_owned_nodes (u : Updater) (sc : Schema) (tr : TypeRef) (st : State)
    (hconv : u.converter = Converter.identity) (hig : ∀ v, u.ignore v = none)
    (hnull : validateV sc false tr .null = .ok ())
    (h : ReachableByUpdates u sc tr st) :
    validateV sc false tr st.live = .ok () ∧
      ∀ x ∈ st.managed, ∀ p, x.2.set.has p = true → Nodes.present sc tr st.live p = true := by
  obtain ⟨hv, _, hown⟩ := updates_owned_of_compare_facts (NodePresence sc) u sc tr st
    (nodePresence_prefixClosed sc) (compareFacts_nodePresence sc) hconv hig hnull h
  exact ⟨hv, fun x hx p hp => present_of_nodePresence (hown x hx p hp)⟩

/-- the same with the full invariant: every owned path is not the root and designates a node for the
typed walkers (`CmpX.nodeAt`) and for the independent resolver, and the managed fields satisfy their
representation invariant -/
theorem updates_owned_nodePresence (u : Updater) (sc : Schema) (tr : TypeRef) (st : State)
    (hconv : u.converter = Converter.identity) (hig : ∀ v, u.ignore v = none)
    (hnull : validateV sc false tr .null = .ok ())
    (h : ReachableByUpdates u sc tr st) :
    validateV sc false tr st.live = .ok () ∧ ManagedInv st.managed ∧
      OwnedIn (NodePresence sc) tr st.live st.managed :=
  updates_owned_of_compare_facts (NodePresence sc) u sc tr st
    (nodePresence_prefixClosed sc) (compareFacts_nodePresence sc) hconv hig hnull h

/-! ### non-vacuity: the history of length one `null → {f: ["x"]}` by manager "m" (the run of
SMD/Proofs/ConsistencyCounterexamples.lean): the state is reachable, "m" owns `.f`, and `.f` designates a
node of the live object -/
example : ∃ st, ReachableByUpdates Counter06.upd ⟨[]⟩ Counter06.trF st ∧
    (∃ x ∈ st.managed, x.2.set.has Counter06.pF = true) ∧
    Nodes.present ⟨[]⟩ Counter06.trF st.live Counter06.pF = true := by
  obtain ⟨mf, hup⟩ := Counter06.update_ok ⟨[]⟩
  have hr : ReachableByUpdates Counter06.upd ⟨[]⟩ Counter06.trF ⟨Counter06.liveF, mf⟩ :=
    .step ⟨.null, []⟩ Counter06.liveF "v" "m" mf .init (Counter06.valid_liveF _) hup
  obtain ⟨x, hx, hf⟩ := Counter06.update_owns_f _ mf hup
  exact ⟨_, hr, ⟨x, hx, hf⟩,
    (updates_owned_nodes _ _ _ _ rfl (fun _ => rfl) (Counter06.valid_null _) hr).2 x hx _ hf⟩

end SMD.C06
