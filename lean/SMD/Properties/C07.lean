/-
C07 — no-op signalling is exact (second sentence of the property); the fixed-point clause is evaluated
on the implementation by the C07 judge (re-apply after every successful apply of the `upd` domain).

`Apply` returns no object exactly when the resulting object equals the live object: the updater with
`returnInputOnNoop` exposes the resulting object, the default updater replaces it by `none` exactly
when `Value.equals live result`.
-/
import SMD.Proofs.UpdaterShape
namespace SMD.C07

/-- the same updater with `ReturnInputOnNoop` set -/
def exposing (u : Updater) : Updater := { u with returnInputOnNoop := true }

theorem exposing_returns_object (u : Updater) (sc : Schema) (live cfg : TV) (ver : String) (m : Managed)
    (mgr : String) (force : Bool) (o : Option TV) (mf : Managed) :
    apply (exposing u) sc live cfg ver m mgr force = .ok (o, mf) → o.isSome = true :=
  apply_noop_isSome (u' := exposing u) rfl sc live cfg ver m mgr force o mf

/-- exactness of the no-op signal -/
theorem noop_signal_exact (u : Updater) (sc : Schema) (live cfg : TV) (ver : String) (m : Managed)
    (mgr : String) (force : Bool) (res : TV) (mf : Managed) (h : u.returnInputOnNoop = false) :
    apply (exposing u) sc live cfg ver m mgr force = .ok (some res, mf) →
      apply u sc live cfg ver m mgr force =
        .ok (if Value.equals live.value res.value then none else some res, mf) :=
  apply_noop_signal (u := u) (u' := exposing u) rfl rfl rfl h sc live cfg ver m mgr force res mf

/-- and conversely every successful apply arises this way -/
theorem noop_signal_exact_conv (u : Updater) (sc : Schema) (live cfg : TV) (ver : String) (m : Managed)
    (mgr : String) (force : Bool) (o : Option TV) (mf : Managed) (h : u.returnInputOnNoop = false) :
    apply u sc live cfg ver m mgr force = .ok (o, mf) →
      ∃ res, apply (exposing u) sc live cfg ver m mgr force = .ok (some res, mf) ∧
        o = (if Value.equals live.value res.value then none else some res) :=
  apply_noop_signal_conv (u := u) (u' := exposing u) rfl rfl rfl h sc live cfg ver m mgr force o mf

/-- whether an apply is refused, and with which conflict list, does not depend on the signalling mode
(that the managed fields of a successful apply do not depend on it either is `noop_signal_exact`
and `noop_signal_exact_conv`: the same `mf` on both sides) -/
theorem ownership_independent_of_noop_mode (u : Updater) (sc : Schema) (live cfg : TV) (ver : String) (m : Managed)
    (mgr : String) (force : Bool) (c : List (String × Path)) :
    apply u sc live cfg ver m mgr force = .conflict c ↔
      apply (exposing u) sc live cfg ver m mgr force = .conflict c :=
  apply_conflict_iff_of_same (u := u) (u' := exposing u) rfl rfl sc live cfg ver m mgr force c

end SMD.C07
