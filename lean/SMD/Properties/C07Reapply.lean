/-
C07 — "re-applying the same configuration is a fixed point": after a successful apply, the same manager
applying the same configuration again (same version, on the object and the managed fields the first
apply returned) changes nothing: no object is returned and the managed fields stay as they are.
Single version, identity converter, no ignore configuration.

The two statements as first written do not hold of the model (counterexamples below, evaluated by the
kernel in `SMD/Proofs/ReapplyCounterexamples.lean`): a configuration that holds an EMPTY item `{}` of a
keyed list whose key field has a schema default owns the item but not its key field; when the live
object spells that key field out and nobody owns it, the second apply prunes the key field, the item
degenerates to `null` and is removed.  Without any key default: a configuration that holds an empty map
`{}` under a declared field owns that field; when the live object has unowned entries beneath it, the
second apply prunes those that are field-set members, and if what is left has an empty field set (e.g. an
empty list under a declared field) the field itself is removed (third counterexample).

What is proved instead (`SMD/Proofs/ReapplyNoop.lean`, `SMD/Proofs/LeafEnds.lean`), under these extra hypotheses:

* `LeafGenerated sc cfg fs`: every member of the closed field set of the configuration lies on the way to
  a LEAF of the configuration (as a prefix of its path or as a key field of an item on it): a scalar, or a
  node under a field name whose type is a leaf type (an atomic list, an atomic map, a scalar-typed field
  that holds null); the leaf is reached through non-atomic maps and associative lists without key
  defaults — this excludes the empty item and the empty map of the counterexamples (and, more than
  necessary: nulls and empty maps under list / map typed fields, atomic items of keyed lists);
* `reconcileManaged u sc obj mf = .ok mf`: the schema reconciliation at the start of the second apply
  leaves the managed fields as they are (reconciliation rewrites a record only where a type is atomic:
  C20);
* `keysScalar`: the key fields the items of keyed lists carry are scalars (in addition to `canonical`).

The conclusion is "the second apply returns `(none, mf)`, or fails with an error of the typed operations"
(never a conflict, never another object or other managed fields): the model's merge and comparison are
total only on lists declared associative (C13), which is not assumed here; `first_reapply_result_partial`
reads it for a second apply that is known to return a result.

* `reapply_is_noop_of_nothing_pruned` / `reapply_after_noop_is_noop_of_merged`: the first apply pruned
  nothing (it returned the plain merge, resp. the configuration was already merged into the live object),
  whatever the applier's previous record — by the idempotence of the merge (C12);
* `first_reapply_is_noop_partial` / `first_reapply_after_noop_is_noop_partial`: a manager's first apply
  (no previous record: nothing is pruned);
* `reapply_is_noop_of_absorbed`: any first apply, relative to the validity of the object it returned and
  to "merging the configuration into that object again changes nothing" (when the first apply pruned
  something neither is known in general: a pruned object may hold items that lost their key fields).
-/
import SMD.Proofs.ReapplyNoop
import SMD.Proofs.ReapplyCounterexamples
import SMD.Proofs.ReapplyNonVacuity
namespace SMD.C07
open SMD.CounterPrune SMD.CounterReapply

-- STATEMENT-FALSE: world K of `SMD/Proofs/PruneCounterexamples.lean` (empty schema; the object is a map of
--   lists keyed by `name`, the key field `name` has the schema default "d"; identity converter, version "v"):
--   live = {l: [{name: d}]}, cfg = {k: [{name: e}], l: [{}]}, m = [], manager "m", force = false.
--   The first apply returns obj = {k: [{name: e}], l: [{name: d}]} and
--   mf = [m ↦ {.k, .l, .k[name=e], .k[name=e].name, .l[name=d]}]; the second apply returns
--   (some {k: [{name: e}], l: null}, mf).
-- /-- the second of two identical applies is a no-op -/
-- theorem reapply_is_noop (u : Updater) (sc : Schema) (live cfg obj : TV) (v : String) (m mf : Managed)
--     (mgr : String) (force : Bool)
--     (hconv : u.converter = Converter.identity) (hig : ∀ w, u.ignore w = none)
--     (hnoop : u.returnInputOnNoop = false)
--     (hall : C03.AllAt v m) (htype : live.type = cfg.type)
--     (hsorted : m.Pairwise (fun a b => a.1 < b.1)) (hmwf : ∀ r ∈ m, r.2.set.wf = true)
--     (hl : validateV sc false live.type live.value = .ok ()) (hr : validateV sc false cfg.type cfg.value = .ok ())
--     (hcl : C12.canonical live.value = true) (hcr : C12.canonical cfg.value = true)
--     (happly : apply u sc live cfg v m mgr force = .ok (some obj, mf)) :
--     apply u sc obj cfg v mf mgr force = .ok (none, mf)
example : ¬ ∀ (u : Updater) (sc : Schema) (live cfg obj : TV) (v : String) (m mf : Managed)
    (mgr : String) (force : Bool),
    u.converter = Converter.identity → (∀ w, u.ignore w = none) → u.returnInputOnNoop = false →
    C03.AllAt v m → live.type = cfg.type →
    m.Pairwise (fun a b => a.1 < b.1) → (∀ r ∈ m, r.2.set.wf = true) →
    validateV sc false live.type live.value = .ok () → validateV sc false cfg.type cfg.value = .ok () →
    C12.canonical live.value = true → C12.canonical cfg.value = true →
    apply u sc live cfg v m mgr force = .ok (some obj, mf) →
    apply u sc obj cfg v mf mgr force = .ok (none, mf) := by
  intro h
  have h1 := h upd sc0 liveX cfgY objY "v" [] mfY "m" false rfl (fun _ => rfl) rfl
    (fun x hx => by cases hx) rfl List.Pairwise.nil (fun r hr => by cases hr)
    x_valid_live y_valid_cfg rfl rfl y_first
  rw [y_second] at h1
  cases h1

-- STATEMENT-FALSE: the same world, live = {l: [{name: d}]}, cfg = {l: [{}]}, m = [], manager "m": the first
--   apply changes nothing and returns (none, [m ↦ {.l, .l[name=d]}]); the second apply returns
--   (some {l: null}, [m ↦ {.l, .l[name=d]}]).
-- /-- …and when the first apply itself changed nothing -/
-- theorem reapply_after_noop_is_noop (u : Updater) (sc : Schema) (live cfg : TV) (v : String) (m mf : Managed)
--     (mgr : String) (force : Bool)
--     (hconv : u.converter = Converter.identity) (hig : ∀ w, u.ignore w = none)
--     (hnoop : u.returnInputOnNoop = false)
--     (hall : C03.AllAt v m) (htype : live.type = cfg.type)
--     (hsorted : m.Pairwise (fun a b => a.1 < b.1)) (hmwf : ∀ r ∈ m, r.2.set.wf = true)
--     (hl : validateV sc false live.type live.value = .ok ()) (hr : validateV sc false cfg.type cfg.value = .ok ())
--     (hcl : C12.canonical live.value = true) (hcr : C12.canonical cfg.value = true)
--     (happly : apply u sc live cfg v m mgr force = .ok (none, mf)) :
--     apply u sc live cfg v mf mgr force = .ok (none, mf)
example : ¬ ∀ (u : Updater) (sc : Schema) (live cfg : TV) (v : String) (m mf : Managed)
    (mgr : String) (force : Bool),
    u.converter = Converter.identity → (∀ w, u.ignore w = none) → u.returnInputOnNoop = false →
    C03.AllAt v m → live.type = cfg.type →
    m.Pairwise (fun a b => a.1 < b.1) → (∀ r ∈ m, r.2.set.wf = true) →
    validateV sc false live.type live.value = .ok () → validateV sc false cfg.type cfg.value = .ok () →
    C12.canonical live.value = true → C12.canonical cfg.value = true →
    apply u sc live cfg v m mgr force = .ok (none, mf) →
    apply u sc live cfg v mf mgr force = .ok (none, mf) := by
  intro h
  have h1 := h upd sc0 liveX cfgX "v" [] mfX "m" false rfl (fun _ => rfl) rfl
    (fun x hx => by cases hx) rfl List.Pairwise.nil (fun r hr => by cases hr)
    x_valid_live x_valid_cfg rfl rfl x_first
  rw [x_second] at h1
  cases h1

/-- the same statement fails without any key default: world S (`{spec: {a: scalar, b: set of scalars}}`),
live = {spec: {a: 1, b: []}} owned by nobody, cfg = {spec: {}}: the first apply changes nothing and records
{.spec} for "m"; the second apply returns the object `null` -/
example : ¬ ∀ (u : Updater) (sc : Schema) (live cfg : TV) (v : String) (m mf : Managed)
    (mgr : String) (force : Bool),
    u.converter = Converter.identity → (∀ w, u.ignore w = none) → u.returnInputOnNoop = false →
    C03.AllAt v m → live.type = cfg.type →
    m.Pairwise (fun a b => a.1 < b.1) → (∀ r ∈ m, r.2.set.wf = true) →
    validateV sc false live.type live.value = .ok () → validateV sc false cfg.type cfg.value = .ok () →
    C12.canonical live.value = true → C12.canonical cfg.value = true →
    apply u sc live cfg v m mgr force = .ok (none, mf) →
    apply u sc live cfg v mf mgr force = .ok (none, mf) := by
  intro h
  have h1 := h upd sc0 liveS cfgS "v" [] mfS "m" false rfl (fun _ => rfl) rfl
    (fun x hx => by cases hx) rfl List.Pairwise.nil (fun r hr => by cases hr)
    s_valid_live s_valid_cfg rfl rfl s_first
  rw [s_second] at h1
  cases h1

/-- the second of two identical applies is a no-op (or fails with an error of the typed operations; it
never reports a conflict), for every previous record of the applier: relative to the validity of the
object the first apply returned, to "merging the configuration into it again yields an `Equals` object",
to a schema reconciliation that leaves the managed fields as they are, and for a configuration every
owned path of which leads to a scalar (`LeafGenerated`) -/
theorem reapply_is_noop_of_absorbed (u : Updater) (sc : Schema) (live cfg obj : TV) (v : String) (m mf : Managed)
    (mgr : String) (force : Bool)
    (hconv : u.converter = Converter.identity) (hig : ∀ w, u.ignore w = none)
    (hnoop : u.returnInputOnNoop = false)
    (hall : C03.AllAt v m) (htype : live.type = cfg.type)
    (hsorted : m.Pairwise (fun a b => a.1 < b.1)) (hmwf : ∀ r ∈ m, r.2.set.wf = true)
    (hr : validateV sc false cfg.type cfg.value = .ok ()) (hkr : keysScalar sc cfg.type cfg.value = true)
    (happly : apply u sc live cfg v m mgr force = .ok (some obj, mf))
    (hcr : C12.canonical cfg.value = true)
    (hvo : validateV sc false obj.type obj.value = .ok ()) (hko : keysScalar sc obj.type obj.value = true)
    (hco : C12.canonical obj.value = true)
    (habs : ∀ merged, mergeTV sc obj cfg = .ok merged → Value.equals obj.value merged.value = true)
    (hrec2 : reconcileManaged u sc obj mf = .ok mf)
    (hgen : ∀ fs, toFieldSet sc cfg = .ok fs → LeafGenerated sc cfg fs) :
    apply u sc obj cfg v mf mgr force = .ok (none, mf) ∨
      apply u sc obj cfg v mf mgr force = .err ∨ apply u sc obj cfg v mf mgr force = .panic :=
  reapply_noop_of_absorbed u sc live cfg obj v m mf mgr force hconv hig hnoop hall htype hsorted hmwf hr hkr happly
    hvo hko (by rw [← CanonKeys.canonical_eq]; exact hco) (by rw [← CanonKeys.canonical_eq]; exact hcr) habs hrec2 hgen

/-- an apply that returned the plain merge of the configuration over the live object (nothing was pruned,
whatever the applier's previous record), then the same apply again: the second one is a no-op (or fails
with an error of the typed operations) -/
theorem reapply_is_noop_of_nothing_pruned (u : Updater) (sc : Schema) (live cfg obj : TV) (v : String)
    (m mf : Managed) (mgr : String) (force : Bool)
    (hconv : u.converter = Converter.identity) (hig : ∀ w, u.ignore w = none)
    (hnoop : u.returnInputOnNoop = false)
    (hall : C03.AllAt v m) (htype : live.type = cfg.type)
    (hsorted : m.Pairwise (fun a b => a.1 < b.1)) (hmwf : ∀ r ∈ m, r.2.set.wf = true)
    (hl : validateV sc false live.type live.value = .ok ()) (hr : validateV sc false cfg.type cfg.value = .ok ())
    (hkl : keysScalar sc live.type live.value = true) (hkr : keysScalar sc cfg.type cfg.value = true)
    (hcl : C12.canonical live.value = true) (hcr : C12.canonical cfg.value = true)
    (happly : apply u sc live cfg v m mgr force = .ok (some obj, mf))
    (hmerge : mergeTV sc live cfg = .ok obj)
    (hrec2 : reconcileManaged u sc obj mf = .ok mf)
    (hgen : ∀ fs, toFieldSet sc cfg = .ok fs → LeafGenerated sc cfg fs) :
    apply u sc obj cfg v mf mgr force = .ok (none, mf) ∨
      apply u sc obj cfg v mf mgr force = .err ∨ apply u sc obj cfg v mf mgr force = .panic :=
  reapply_noop_of_merge u sc live cfg obj v m mf mgr force hconv hig hnoop hall htype hsorted hmwf hl hr hkl hkr
    (by rw [← CanonKeys.canonical_eq]; exact hcl) (by rw [← CanonKeys.canonical_eq]; exact hcr) happly hmerge hrec2 hgen

/-- an apply that changed nothing because the configuration was already merged into the live object
(whatever the applier's previous record), then the same apply again: the second one is a no-op (or fails
with an error of the typed operations) -/
theorem reapply_after_noop_is_noop_of_merged (u : Updater) (sc : Schema) (live cfg : TV) (v : String)
    (m mf : Managed) (mgr : String) (force : Bool)
    (hconv : u.converter = Converter.identity) (hig : ∀ w, u.ignore w = none)
    (hnoop : u.returnInputOnNoop = false)
    (hall : C03.AllAt v m) (htype : live.type = cfg.type)
    (hsorted : m.Pairwise (fun a b => a.1 < b.1)) (hmwf : ∀ r ∈ m, r.2.set.wf = true)
    (hl : validateV sc false live.type live.value = .ok ()) (hr : validateV sc false cfg.type cfg.value = .ok ())
    (hkl : keysScalar sc live.type live.value = true) (hkr : keysScalar sc cfg.type cfg.value = true)
    (hcl : C12.canonical live.value = true) (hcr : C12.canonical cfg.value = true)
    (happly : apply u sc live cfg v m mgr force = .ok (none, mf))
    (hmerged : ∀ merged, mergeTV sc live cfg = .ok merged → Value.equals live.value merged.value = true)
    (hrec2 : reconcileManaged u sc live mf = .ok mf)
    (hgen : ∀ fs, toFieldSet sc cfg = .ok fs → LeafGenerated sc cfg fs) :
    apply u sc live cfg v mf mgr force = .ok (none, mf) ∨
      apply u sc live cfg v mf mgr force = .err ∨ apply u sc live cfg v mf mgr force = .panic :=
  reapply_after_noop_of_merged u sc live cfg v m mf mgr force hconv hig hnoop hall htype hsorted hmwf hl hr hkl hkr
    (by rw [← CanonKeys.canonical_eq]; exact hcl) (by rw [← CanonKeys.canonical_eq]; exact hcr) happly hmerged hrec2 hgen

/-- a manager's first apply (no record of it before), then the same apply again on what the first one
returned: the second one is a no-op (or fails with an error of the typed operations) -/
theorem first_reapply_is_noop_partial (u : Updater) (sc : Schema) (live cfg obj : TV) (v : String) (m mf : Managed)
    (mgr : String) (force : Bool)
    (hconv : u.converter = Converter.identity) (hig : ∀ w, u.ignore w = none)
    (hnoop : u.returnInputOnNoop = false)
    (hall : C03.AllAt v m) (htype : live.type = cfg.type)
    (hsorted : m.Pairwise (fun a b => a.1 < b.1)) (hmwf : ∀ r ∈ m, r.2.set.wf = true)
    (hl : validateV sc false live.type live.value = .ok ()) (hr : validateV sc false cfg.type cfg.value = .ok ())
    (hkl : keysScalar sc live.type live.value = true) (hkr : keysScalar sc cfg.type cfg.value = true)
    (hcl : C12.canonical live.value = true) (hcr : C12.canonical cfg.value = true)
    (hfirst : mfGet m mgr = none)
    (happly : apply u sc live cfg v m mgr force = .ok (some obj, mf))
    (hrec2 : reconcileManaged u sc obj mf = .ok mf)
    (hgen : ∀ fs, toFieldSet sc cfg = .ok fs → LeafGenerated sc cfg fs) :
    apply u sc obj cfg v mf mgr force = .ok (none, mf) ∨
      apply u sc obj cfg v mf mgr force = .err ∨ apply u sc obj cfg v mf mgr force = .panic :=
  first_reapply_noop u sc live cfg obj v m mf mgr force hconv hig hnoop hall htype hsorted hmwf hl hr hkl hkr
    (by rw [← CanonKeys.canonical_eq]; exact hcl) (by rw [← CanonKeys.canonical_eq]; exact hcr) hfirst
    happly hrec2 hgen

/-- …and when the manager's first apply itself changed nothing -/
theorem first_reapply_after_noop_is_noop_partial (u : Updater) (sc : Schema) (live cfg : TV) (v : String)
    (m mf : Managed) (mgr : String) (force : Bool)
    (hconv : u.converter = Converter.identity) (hig : ∀ w, u.ignore w = none)
    (hnoop : u.returnInputOnNoop = false)
    (hall : C03.AllAt v m) (htype : live.type = cfg.type)
    (hsorted : m.Pairwise (fun a b => a.1 < b.1)) (hmwf : ∀ r ∈ m, r.2.set.wf = true)
    (hl : validateV sc false live.type live.value = .ok ()) (hr : validateV sc false cfg.type cfg.value = .ok ())
    (hkl : keysScalar sc live.type live.value = true) (hkr : keysScalar sc cfg.type cfg.value = true)
    (hcl : C12.canonical live.value = true) (hcr : C12.canonical cfg.value = true)
    (hfirst : mfGet m mgr = none)
    (happly : apply u sc live cfg v m mgr force = .ok (none, mf))
    (hrec2 : reconcileManaged u sc live mf = .ok mf)
    (hgen : ∀ fs, toFieldSet sc cfg = .ok fs → LeafGenerated sc cfg fs) :
    apply u sc live cfg v mf mgr force = .ok (none, mf) ∨
      apply u sc live cfg v mf mgr force = .err ∨ apply u sc live cfg v mf mgr force = .panic :=
  first_reapply_after_noop u sc live cfg v m mf mgr force hconv hig hnoop hall htype hsorted hmwf hl hr hkl hkr
    (by rw [← CanonKeys.canonical_eq]; exact hcl) (by rw [← CanonKeys.canonical_eq]; exact hcr) hfirst
    happly hrec2 hgen

/-- whenever the second apply succeeds it is the no-op (the same three statements read for a re-apply
that is known to return a result) -/
theorem first_reapply_result_partial (u : Updater) (sc : Schema) (live cfg obj : TV) (v : String) (m mf : Managed)
    (mgr : String) (force : Bool) (o2 : Option TV) (mf2 : Managed)
    (hconv : u.converter = Converter.identity) (hig : ∀ w, u.ignore w = none)
    (hnoop : u.returnInputOnNoop = false)
    (hall : C03.AllAt v m) (htype : live.type = cfg.type)
    (hsorted : m.Pairwise (fun a b => a.1 < b.1)) (hmwf : ∀ r ∈ m, r.2.set.wf = true)
    (hl : validateV sc false live.type live.value = .ok ()) (hr : validateV sc false cfg.type cfg.value = .ok ())
    (hkl : keysScalar sc live.type live.value = true) (hkr : keysScalar sc cfg.type cfg.value = true)
    (hcl : C12.canonical live.value = true) (hcr : C12.canonical cfg.value = true)
    (hfirst : mfGet m mgr = none)
    (happly : apply u sc live cfg v m mgr force = .ok (some obj, mf))
    (hrec2 : reconcileManaged u sc obj mf = .ok mf)
    (hgen : ∀ fs, toFieldSet sc cfg = .ok fs → LeafGenerated sc cfg fs)
    (h2 : apply u sc obj cfg v mf mgr force = .ok (o2, mf2)) : o2 = none ∧ mf2 = mf := by
  rcases first_reapply_is_noop_partial u sc live cfg obj v m mf mgr force hconv hig hnoop hall htype hsorted hmwf
    hl hr hkl hkr hcl hcr hfirst happly hrec2 hgen with h | h | h <;> rw [h] at h2
  · simp only [Outcome.ok.injEq, Prod.mk.injEq] at h2
    exact ⟨h2.1.symm, h2.2.symm⟩
  · cases h2
  · cases h2

/-! ### non-vacuity

(1) The world of finding D11 (`SMD/Proofs/FindingWorlds.lean`; runs in `SMD/Proofs/ReapplyNonVacuity.lean`): a1
applies `{l: [{name: c, sub: [0]}]}` to the empty object, twice.  (2) The struct `{a: scalar, at: atomic list}`:
"m" applies `{a: null, at: [1, 2]}` over `{at: [3]}`, twice (leaves that are not scalars).  Every hypothesis
of `first_reapply_is_noop_partial` holds, and of the three outcomes it allows the no-op is the one that
occurs. -/
example :
    FW.plain.converter = Converter.identity ∧ (∀ w, FW.plain.ignore w = none) ∧
    FW.plain.returnInputOnNoop = false ∧ C03.AllAt "v1" [] ∧ FW.live0.type = (FW.tv FW.cfgSub0).type ∧
    validateV FW.sc false FW.live0.type FW.live0.value = .ok () ∧
    validateV FW.sc false (FW.tv FW.cfgSub0).type (FW.tv FW.cfgSub0).value = .ok () ∧
    keysScalar FW.sc FW.live0.type FW.live0.value = true ∧
    keysScalar FW.sc (FW.tv FW.cfgSub0).type (FW.tv FW.cfgSub0).value = true ∧
    C12.canonical FW.live0.value = true ∧ C12.canonical (FW.tv FW.cfgSub0).value = true ∧
    mfGet [] "a1" = none ∧
    apply FW.plain FW.sc FW.live0 (FW.tv FW.cfgSub0) "v1" [] "a1" false = .ok (some (FW.tv FW.cfgSub0), nvMf) ∧
    reconcileManaged FW.plain FW.sc (FW.tv FW.cfgSub0) nvMf = .ok nvMf ∧
    (∀ fs, toFieldSet FW.sc (FW.tv FW.cfgSub0) = .ok fs → LeafGenerated FW.sc (FW.tv FW.cfgSub0) fs) ∧
    apply FW.plain FW.sc (FW.tv FW.cfgSub0) (FW.tv FW.cfgSub0) "v1" nvMf "a1" false = .ok (none, nvMf) :=
  ⟨rfl, fun _ => rfl, rfl, (fun x hx => by cases hx), rfl, nv_valid_live0, nv_valid_cfg0, nv_keys_live0, nv_keys_cfg0,
    nv_canon_live0, nv_canon_cfg0, rfl, nv_first, nv_rec, (fun fs h => by rw [nv_fs] at h; cases h; exact nv_gen),
    nv_second⟩

example :
    C03.AllAt "v" [] ∧ liveL.type = cfgL.type ∧
    validateV sc0 false liveL.type liveL.value = .ok () ∧ validateV sc0 false cfgL.type cfgL.value = .ok () ∧
    keysScalar sc0 liveL.type liveL.value = true ∧ keysScalar sc0 cfgL.type cfgL.value = true ∧
    C12.canonical liveL.value = true ∧ C12.canonical cfgL.value = true ∧
    mfGet [] "m" = none ∧
    apply upd sc0 liveL cfgL "v" [] "m" false = .ok (some cfgL, mfL) ∧
    reconcileManaged upd sc0 cfgL mfL = .ok mfL ∧
    (∀ fs, toFieldSet sc0 cfgL = .ok fs → LeafGenerated sc0 cfgL fs) ∧
    apply upd sc0 cfgL cfgL "v" mfL "m" false = .ok (none, mfL) :=
  ⟨(fun x hx => by cases hx), rfl, l_valid_live, l_valid_cfg, l_keys_live, l_keys_cfg, l_canon_live, l_canon_cfg,
    rfl, l_first, l_rec, (fun fs h => by rw [l_fs] at h; cases h; exact l_gen), l_second⟩

end SMD.C07
