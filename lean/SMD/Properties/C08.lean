/-
C08 — operations never mutate their arguments (partial by proof: the model has value semantics, so
"arguments unchanged" is observational and is decided by the snapshot judges of every domain).
What a theorem carries: a version conversion that fails (ordinary error) at any point surfaces as an
error with no object, for EVERY converter and every position of the failing version among the
recorded managers.
-/
import SMD.Proofs.UpdaterShape
namespace SMD.C08

/-- the converter fails with an ordinary (not "missing version") error for version `v` -/
def FailsAt (u : Updater) (v : String) : Prop := ∀ tv, u.converter.convert tv v = .fail

/-- `Outcome` carries no object unless it is `ok` -/
def NoObject {α : Type} : Outcome α → Prop
  | .ok _ => False
  | _ => True

/-- if any recorded manager is at a version whose conversion fails, Apply returns an error and no
object, wherever that manager sits in the managed fields -/
theorem apply_conversion_failure_surfaces (u : Updater) (sc : Schema) (live cfg : TV) (ver : String)
    (m : Managed) (mgr : String) (force : Bool) (k : String) (vs : VersionedSet) (v : String)
    (hmem : (k, vs) ∈ m) (hv : vs.version = v) (hf : FailsAt u v) :
    NoObject (apply u sc live cfg ver m mgr force) ∧
      ∀ c, apply u sc live cfg ver m mgr force ≠ .conflict c := by
  subst hv
  have h := apply_of_reconcile_err_or_panic (reconcileManaged_fails u sc live k vs hf m hmem) cfg ver mgr force
  rcases h with h | h <;> rw [h] <;> exact ⟨trivial, fun c hc => by cases hc⟩

theorem update_conversion_failure_surfaces (u : Updater) (sc : Schema) (live newObj : TV) (ver : String)
    (m : Managed) (mgr : String) (k : String) (vs : VersionedSet) (v : String)
    (hmem : (k, vs) ∈ m) (hv : vs.version = v) (hf : FailsAt u v) :
    NoObject (update u sc live newObj ver m mgr) := by
  subst hv
  have h := update_of_reconcile_err_or_panic (reconcileManaged_fails u sc live k vs hf m hmem) newObj ver mgr
  rcases h with h | h <;> rw [h] <;> trivial

/-- a failure of the conversion of the merged object to the applier's previous version surfaces too -/
theorem prune_conversion_failure_surfaces (u : Updater) (sc : Schema) (merged : TV) (m : Managed) (mgr : String)
    (last : VersionedSet) (hne : last.set.isEmpty = false) (hf : FailsAt u last.version) :
    prune u sc merged m mgr (some last) = .err :=
  prune_fails u sc merged m mgr last hne hf

/-- non-vacuity: a converter that fails exactly at "v2" -/
example : FailsAt { converter := ⟨fun tv v => if v == "v2" then .fail else .ok tv⟩, ignore := fun _ => none } "v2" := by
  intro tv; simp

end SMD.C08
