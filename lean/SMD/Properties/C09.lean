/-
C09 — results are deterministic and independent of call history (partial by proof).

What a theorem can carry: the model is a function of its arguments, so the content is in what the model
makes explicit — the iteration order of every Go map.  `all_map_ranges_covered` is re-checked on every
run against the table regenerated from /repo: every `range` over a map in non-test code is one whose
order provably or structurally cannot reach a result (SMD/Spec/Facts.lean).  State left in pooled
walkers / freelists is a runtime matter: the repeat-call judges of the `upd`, `typ`, `val` domains
decide it observationally.
-/
import SMD.Spec.Facts
namespace SMD.C09

/-- every map iteration in the library's non-test code is accounted for (regenerated fact table) -/
theorem all_map_ranges_covered : Generated.mapRanges.all Facts.mapRangeCovered = true := by decide

/-- every field of a pooled walker is assigned when the walker is taken from or returned to its pool,
except the scratch fields listed (with the reason) in `Facts.poolKeepTable` (regenerated fact table): a
walker cannot carry a result-relevant field over from an earlier call -/
theorem pooled_walkers_reset : Generated.poolKept.all Facts.poolKeepAllowed = true := by decide

/-- non-vacuity: the table is not empty and a foreign site would not be covered -/
example : Generated.mapRanges.length > 10 ∧ Facts.mapRangeCovered ("merge/update.go", "*Updater.Apply", "managers") = false := by
  decide

end SMD.C09
