/-
C09 (continued) — the model of Apply with the iteration order of `managedAtVersion` as an explicit
parameter (`SMD/Model/UpdaterOrd.lean`) specialises to `SMD.apply` for the identity order; the driver
evaluates it under every order (finding D10: the outcome can depend on it).
-/
import SMD.Model.UpdaterOrd
namespace SMD.C09

theorem addBackOwnedOrd_id (u : Updater) (sc : Schema) (merged pruned : TV) (pv : String) (m : Managed) :
    addBackOwnedOrd id u sc merged pruned pv m = addBackOwned u sc merged pruned pv m := by
  unfold addBackOwnedOrd addBackOwned
  rfl

theorem pruneOrd_id (u : Updater) (sc : Schema) (merged : TV) (m : Managed) (mgr : String) (last : Option VersionedSet) :
    pruneOrd id u sc merged m mgr last = prune u sc merged m mgr last := by
  cases last with
  | none => rfl
  | some l => rfl

theorem applyOrd_id (u : Updater) (sc : Schema) (live cfg : TV) (ver : String) (m : Managed) (mgr : String) (force : Bool) :
    applyOrd id u sc live cfg ver m mgr force = apply u sc live cfg ver m mgr force := by
  rfl

end SMD.C09
