/-
C09 (continued) — invariance under the iteration order of Go maps, for the loops named in
`SMD/Spec/Facts.lean`: the order is an explicit list in the model; these theorems state that
permuting it does not change the result (as a set / up to path-element equivalence).
-/
import SMD.Proofs.PermInvariance
namespace SMD.C09

/-- `ConflictsFromManagers`: the reported conflicts are the same set of (manager, path) pairs whatever
the iteration order over the managers -/
theorem conflicts_perm (cs cs' : List (String × VersionedSet)) (h : cs.Perm cs') :
    (conflictsOf cs).Perm (conflictsOf cs') := conflictsOf_perm h

/-- `addBackOwnedItems`: the union of the records at each version does not depend on the order in
which the managers are visited (membership in the per-version union, for well-formed records) -/
theorem managedAtVersion_perm (m m' : Managed) (h : m.Perm m')
    (hwf : ∀ x, x ∈ m → x.2.set.wf = true) (v : String) (q : Path) :
    (match (managedAtVersion m).find? (·.1 == v) with | some e => e.2.has q | none => false) =
    (match (managedAtVersion m').find? (·.1 == v) with | some e => e.2.has q | none => false) :=
  mavHas_perm h hwf v q

/-- validation of a map does not depend on the order in which its entries are visited -/
theorem validateFields_perm (s : Schema) (dup : Bool) (t : MapT) (m m' : List (String × Value)) (h : m.Perm m') :
    validateFields s dup t m = validateFields s dup t m' := validateFields_perm' s dup t h

/-- the field set of a map does not depend on the order in which its entries are visited -/
theorem fsFields_perm (s : Schema) (t : MapT) (m m' : List (String × Value)) (h : m.Perm m')
    (ps ps' : List Path) (h1 : fsFields s t m = .ok ps) (h2 : fsFields s t m' = .ok ps') (q : Path) :
    (SetTrie.ofPaths ps).has q = (SetTrie.ofPaths ps').has q :=
  has_ofPaths_perm (fsFields_perm_paths s t h h1 h2) q

end SMD.C09
