/-
C10 — shared schemas and caches are safe under concurrency (partial by proof: the Go memory model is
not modelled; the race detector run of the `conc` domain is the search tool).

`guard_table_admissible` is re-checked on every run against the table regenerated from /repo: every
access to a shared lazily-initialised field (`Schema.m`, `Map.m`, `Schema.resolvedTypes`,
`typeReflectCache.value`) happens in an admissible guard context for that field's protocol
(inside / after `once.Do`, under the schema mutex, through `atomic.Value`), and the documented
not-thread-safe `CopyInto` helpers are only called under the mutex.
-/
import SMD.Spec.Facts
namespace SMD.C10

theorem guard_table_admissible :
    Generated.syncAccesses.all Facts.admissible = true ∧
    Generated.copyIntoCalls.all Facts.copyIntoCallOk = true := by decide

/-- non-vacuity: the unguarded read that caused the race fixed in /repo (finding D9) is rejected -/
example : Facts.admissible ("schema/elements.go", "*Map.CopyInto", "Map.m", "m", "none") = false := by decide
example : Generated.syncAccesses.length > 10 := by decide

end SMD.C10
