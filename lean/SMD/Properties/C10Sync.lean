/-
C10 (protocol level) — the three lazy-initialisation / caching protocols of the Go library are
correct under every interleaving of any number of threads.

`SMD.C10.guard_table_admissible` (SMD/Properties/C10.lean) checks on the regenerated fact table that
the Go code touches each shared lazily-initialised field only inside its protocol.  The theorems
here prove the protocols themselves: in the interleaving models of SMD/Model/Sync.lean, for every
reachable state (induction over the step sequence; the thread-id type is arbitrary, so neither the
number of threads nor the number of steps is bounded)
  * `*_returns_sequential` — a finished call returned what the sequential pure function returns,
  * `*_cache_sound` / `*_cache_monotone` — the shared cache only ever holds correct data, and only grows,
  * `*_exclusion` — the ordering facts that make the accesses race free,
  * `*_no_panic` — the only stuck threads are those waiting for a lock / a running `Once`.
Not modelled: the Go memory model (steps are sequentially consistent; see the header of the model file).
-/
import SMD.Proofs.SyncProofs
namespace SMD.C10
open SMD.Sync

/-! ## (i) `sync.Once`-guarded index: schema/elements.go `Schema.FindNamedType`, `Map.FindField` -/
section once
open Once
variable {Tid T Index Name Res : Type} [DecidableEq Tid]
  {S : Spec T Index Name Res} {s s' : State Tid T Index Name Res}

/-- schema/elements.go `Schema.FindNamedType` / `Map.FindField`: in every reachable state, a thread
that has returned from `FindNamedType(n)` with result `r` got exactly the sequential answer
`lookup (build types) n`. -/
theorem once_returns_sequential (h : Reachable S s) {t : Tid} {n : Name} {r : Res}
    (hd : s.pc t = .done n r) : r = S.lookup S.build n :=
  (reachable_inv h).result t n r hd

/-- schema/elements.go, field `Schema.m` / `Map.m`: in every reachable state the shared index is nil, or
a prefix of the sequential build (some tail of `Types` is still to be inserted), and it is the complete
sequential index as soon as the `Once` is done. -/
theorem once_cache_sound (h : Reachable S s) :
    (∀ idx, s.m = some idx → ∃ rest : List T, rest.foldl S.insert idx = S.build) ∧
    (s.once = .done → s.m = some S.build) :=
  ⟨(reachable_inv h).pref, (reachable_inv h).doneIdx⟩

/-- schema/elements.go, field `Schema.m` / `Map.m`: a step never resets or shrinks the index — it only
grows by inserts — and after the `Once` is done neither the `Once` nor the index ever changes again. -/
theorem once_cache_monotone (h : Reachable S s) {t : Tid} (hst : Step S s t s') :
    (∀ idx, s.m = some idx → ∃ xs : List T, s'.m = some (xs.foldl S.insert idx)) ∧
    (s.once = .done → s'.once = .done ∧ s'.m = s.m) :=
  ⟨step_mono (reachable_inv h) hst, step_done_stable (reachable_inv h) hst⟩

/-- schema/elements.go `s.once.Do(...)`: the index is written only by a thread `t` that is inside the
initialiser, and then the `Once` is "running by `t`"; it is read (`s.m[name]`) only when the `Once` is
done, and then it is the complete index; two threads inside the initialiser are the same thread; and
over the whole history the initialiser has been entered at most once. -/
theorem once_exclusion (h : Reachable S s) :
    (∀ t, (s.pc t).inInit = true → s.once = .running t) ∧
    (∀ t, (s.pc t).readsIndex = true → s.once = .done ∧ s.m = some S.build) ∧
    (∀ t u, (s.pc t).inInit = true → (s.pc u).inInit = true → t = u) ∧
    s.started ≤ 1 :=
  ⟨fun _ => inInit_running (reachable_inv h), fun _ => readsIndex_done (reachable_inv h),
   fun _ _ => inInit_unique (reachable_inv h), (reachable_inv h).started⟩

/-- schema/elements.go `s.once.Do(...)`, step form of the write exclusion: whichever step changes the
index `s.m`, it is taken by the thread the `Once` is "running by", from inside the initialiser. -/
theorem once_write_by_runner (h : Reachable S s) {t : Tid} (hst : Step S s t s') (hne : s'.m ≠ s.m) :
    s.once = .running t ∧ (s.pc t).inInit = true :=
  step_write_running (reachable_inv h) hst hne

/-- schema/elements.go `FindNamedType`: a thread that cannot take a step in a reachable state is either
not inside a call, or is blocked in `once.Do` while another thread runs the initialiser — the model has
no other stuck states (in particular no write to the nil map). -/
theorem once_no_panic (h : Reachable S s) {t : Tid} (hn : next S s t = none) :
    (s.pc t).canCall = true ∨ ∃ n u, s.pc t = .called n ∧ s.once = .running u :=
  next_none (reachable_inv h) hn

/-- Non-vacuity.  Types `[(1,10), (2,20)]` indexed by their first component in an association list.
Thread 0 calls `FindNamedType(2)` and enters the initialiser; thread 1 calls `FindNamedType(1)` and
blocks in `Do`; thread 0 completes the initialiser and returns `some 20`; thread 1 then gets past `Do`. -/
def onceSpec : Spec (Nat × Nat) (List (Nat × Nat)) Nat (Option Nat) :=
  { types := [(1, 10), (2, 20)], empty := [], insert := fun m p => p :: m, lookup := fun m n => m.lookup n }

def onceTrace : List (Nat × Option Nat) :=
  [(0, some 2), (0, none), (1, some 1), (0, none), (0, none), (0, none), (0, none), (1, none), (0, none)]

example : ∃ s : State Nat (Nat × Nat) (List (Nat × Nat)) Nat (Option Nat), Reachable onceSpec s ∧
    s.pc 0 = .done 2 (some 20) ∧ s.pc 1 = .afterDo 1 ∧ s.once = .done ∧ s.started = 1 :=
  ⟨(exec onceSpec init onceTrace).get (by decide), exec_reachable _ .init _, by decide⟩

/-- while thread 0 runs the initialiser, thread 1 is blocked -/
example : (exec onceSpec (init : State Nat _ _ _ _) (onceTrace.take 4 ++ [(1, none)])).isSome = false := by
  decide

end once

/-! ## (ii) mutex-guarded memo: schema/elements.go `Schema.Resolve` -/
section memo
open Memo
variable {Tid Key Val : Type} [DecidableEq Tid] [DecidableEq Key]
  {f : Key → Val} {s s' : State Tid Key Val}

/-- schema/elements.go `Schema.Resolve`: in every reachable state, a thread that has returned from the
memoised call with argument `k` and result `v` got `v = f k`, the value of the pure function — whether it
was served from `resolvedTypes` or computed it itself. -/
theorem memo_returns_sequential (h : Reachable f s) {t : Tid} {k : Key} {v : Val}
    (hd : s.pc t = .done k v) : v = f k :=
  (reachable_inv h).result t k v hd

/-- schema/elements.go, field `Schema.resolvedTypes`: in every reachable state the memo map is nil or a
sub-graph of the pure function. -/
theorem memo_cache_sound (h : Reachable f s) (m : Map Key Val) (hm : s.memo = some m) : Sound f m :=
  (reachable_inv h).sound m hm

/-- schema/elements.go, field `Schema.resolvedTypes`: a step never resets the memo map and never removes
or changes an entry. -/
theorem memo_cache_monotone (h : Reachable f s) {t : Tid} (hst : Step f s t s')
    (m : Map Key Val) (hm : s.memo = some m) : ∃ m', s'.memo = some m' ∧ Sub m m' :=
  step_mono (reachable_inv h) hst m hm

/-- schema/elements.go `s.lock.Lock(); defer s.lock.Unlock()`: a thread whose next step reads or writes
`resolvedTypes` is between `Lock` and `Unlock`; every thread between `Lock` and `Unlock` is the holder
recorded in the mutex; hence two such threads are the same thread. -/
theorem memo_exclusion (h : Reachable f s) :
    (∀ t, (s.pc t).accessesMemo = true → s.lock = some t) ∧
    (∀ t, (s.pc t).holdsLock = true → s.lock = some t) ∧
    (∀ t u, (s.pc t).holdsLock = true → (s.pc u).holdsLock = true → t = u) := by
  have hl := fun t => holdsLock_lock (reachable_inv h) (t := t)
  refine ⟨fun t ht => hl t (accessesMemo_holdsLock _ ht), hl, fun t u ht hu => ?_⟩
  have := (hl t ht).symm.trans (hl u hu)
  exact Option.some.inj this

/-- schema/elements.go `Schema.Resolve`, step form of the write exclusion: whichever step changes
`resolvedTypes` (the `make` or the store of a result), it is taken by the current lock holder. -/
theorem memo_write_by_holder (h : Reachable f s) {t : Tid} (hst : Step f s t s') (hne : s'.memo ≠ s.memo) :
    s.lock = some t ∧ (s.pc t).accessesMemo = true :=
  step_write_holder (reachable_inv h) hst hne

/-- schema/elements.go `Schema.Resolve`: a thread that cannot step in a reachable state is either not
inside a call or waits in `Lock()` for the current holder (no write to the nil map). -/
theorem memo_no_panic (h : Reachable f s) {t : Tid} (hn : next f s t = none) :
    (s.pc t).canCall = true ∨ ∃ k u, s.pc t = .called k ∧ s.lock = some u :=
  next_none (reachable_inv h) hn

/-- Non-vacuity, with `f k = k * k`.  Thread 0 calls `Resolve(3)`, takes the lock, makes the map, misses,
computes and stores 9, unlocks and returns 9; thread 1 (which called `Resolve(3)` meanwhile and had to wait
for the lock) then finds the cached 9 and is about to unlock. -/
def memoTrace : List (Nat × Option Nat) :=
  [(0, some 3), (0, none), (1, some 3), (0, none), (0, none), (0, none), (0, none), (0, none),
   (1, none), (1, none), (1, none)]

example : ∃ s : State Nat Nat Nat, Reachable (fun k => k * k) s ∧
    s.pc 0 = .done 3 9 ∧ s.pc 1 = .unlock 3 9 ∧ s.lock = some 1 ∧ (s.memo.bind (· 3)) = some 9 :=
  ⟨(exec (fun k => k * k) init memoTrace).get (by decide), exec_reachable _ .init _, by decide⟩

/-- while thread 0 holds the lock, thread 1 cannot acquire it -/
example : (exec (fun k => k * k) (init : State Nat Nat Nat) (memoTrace.take 3 ++ [(1, none)])).isSome = false := by
  decide

end memo

/-! ## (iii) copy-on-write cache in an `atomic.Value`: value/reflectcache.go `typeReflectCache` -/
section cow
open Cow
variable {Tid Ty Entry : Type} [DecidableEq Tid] [DecidableEq Ty]
  {S : Spec Ty Entry} {s s' : State Tid Ty Entry}

/-- value/reflectcache.go `typeReflectCache.typeReflectEntryOf`: in every reachable state, a thread that
has returned from the call for type `ty` got a non-nil entry, and it is the entry the pure function
assigns to `ty` — whether it came from a (possibly stale) lock-free snapshot or from its own updates. -/
theorem cow_returns_sequential (h : Reachable S s) {t : Tid} {ty : Ty} {r : Option Entry}
    (hd : s.pc t = .done ty r) : r = some (S.entry ty) :=
  (reachable_inv h).result t ty r hd

/-- value/reflectcache.go, field `typeReflectCache.value`: in every reachable state the published map is a
sub-graph of the pure entry function, and so is every snapshot a thread has loaded and still holds in its
locals (`get()` without the lock, or `current` under the lock) — each of them is moreover contained in
the currently published map. -/
theorem cow_cache_sound (h : Reachable S s) :
    Sound S s.value ∧
    ∀ t m, (s.pc t).snapshot? = some m → Sub m s.value ∧ Sound S m := by
  have hi := reachable_inv h
  exact ⟨hi.sound, fun t m hm => ⟨snapshot_sub hi hm, Sound.of_sub (snapshot_sub hi hm) hi.sound⟩⟩

/-- value/reflectcache.go `typeReflectCache.update`: a step never removes or changes a published entry
(no lost update: the `Store` extends the map that is current at the time of the `Store`). -/
theorem cow_cache_monotone (h : Reachable S s) {t : Tid} (hst : Step S s t s') : Sub s.value s'.value :=
  step_mono (reachable_inv h) hst

/-- value/reflectcache.go `typeReflectCache.update`: when `update` is about to unlock and return, the
entry for the requested type is published, so later calls for it are served without the lock. -/
theorem cow_update_publishes (h : Reachable S s) {t : Tid} {ty : Ty} {ups : List (Ty × Entry)}
    (hp : s.pc t = .unlock ty ups) : s.value ty = some (S.entry ty) :=
  ((reachable_inv h).unlock t ty ups hp).2.2

/-- value/reflectcache.go `c.mu.Lock(); defer c.mu.Unlock()` in `update`: a thread whose next step may
`Store` is between `Lock` and `Unlock`; every thread between `Lock` and `Unlock` is the holder recorded in
the mutex, so two such threads are the same thread; and the `current` map the holder is about to copy
is still the published one. -/
theorem cow_exclusion (h : Reachable S s) :
    (∀ t, (s.pc t).stores = true → s.mu = some t) ∧
    (∀ t, (s.pc t).holdsMu = true → s.mu = some t) ∧
    (∀ t u, (s.pc t).holdsMu = true → (s.pc u).holdsMu = true → t = u) ∧
    (∀ t ty ups cur, s.pc t = .holding ty ups cur → cur = s.value) := by
  have hi := reachable_inv h
  have hl := fun t => holdsMu_mu hi (t := t)
  refine ⟨fun t ht => hl t (stores_holdsMu _ ht), hl, fun t u ht hu => ?_,
    fun t ty ups cur hp => (hi.holding t ty ups cur hp).2.2⟩
  exact Option.some.inj ((hl t ht).symm.trans (hl u hu))

/-- value/reflectcache.go `c.value.Store(newMap)`, step form of the write exclusion: whichever step
changes the published map, it is taken by the current holder of `mu` at its `Store` program point. -/
theorem cow_store_by_holder (h : Reachable S s) {t : Tid} (hst : Step S s t s') (hne : s'.value ≠ s.value) :
    s.mu = some t ∧ (s.pc t).stores = true :=
  step_store_holder (reachable_inv h) hst hne

/-- value/reflectcache.go: a thread that cannot step is either not inside a call or waits in
`c.mu.Lock()` for the current holder; in particular readers (`get()`) never block. -/
theorem cow_no_panic {t : Tid} (hn : next S s t = none) :
    (s.pc t).canCall = true ∨ ∃ ty ups u, s.pc t = .wantLock ty ups ∧ s.mu = some u :=
  next_none hn

/-- Non-vacuity, with `entry k = 10 * k` and type 1 referring to type 2.  Threads 0 and 1 call for types
1 and 2; both load the empty map and miss.  Thread 0 locks, stores `{1 ↦ 10, 2 ↦ 20}`, unlocks and returns
`some 10`.  Thread 1 (whose snapshot is stale) then locks, finds nothing is needed and is about to unlock. -/
def cowSpec : Spec Nat Nat := { entry := fun k => 10 * k, refs := fun k => if k = 1 then [2] else [] }

def cowTrace : List (Nat × Option Nat) :=
  [(0, some 1), (1, some 2), (0, none), (1, none), (0, none), (1, none), (0, none), (0, none), (0, none),
   (0, none), (1, none), (1, none), (1, none)]

example : ∃ s : State Nat Nat Nat, Reachable cowSpec s ∧
    (s.pc 0).result? = some (1, some 10) ∧ (s.pc 1).holdsMu = true ∧ s.mu = some 1 ∧
    s.value 1 = some 10 ∧ s.value 2 = some 20 ∧ s.value 3 = none :=
  ⟨(exec cowSpec init cowTrace).get (by decide), exec_reachable _ .init _, by decide⟩

/-- thread 1 finishes too, returning `some 20` -/
example : ((exec cowSpec (init : State Nat Nat Nat) (cowTrace ++ [(1, none)])).map
    fun s => (s.pc 1).result?) = some (some (2, some 20)) := by decide

/-- while thread 0 holds `mu`, thread 1 cannot acquire it (but a third thread can still `get()`) -/
example : (exec cowSpec (init : State Nat Nat Nat) (cowTrace.take 7 ++ [(1, none)])).isSome = false ∧
    (exec cowSpec (init : State Nat Nat Nat) (cowTrace.take 7 ++ [(2, some 1), (2, none)])).isSome = true := by
  decide

end cow

end SMD.C10
