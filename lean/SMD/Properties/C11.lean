/-
C11 — comparison is an exact structural diff (algebraic clauses provable on the model; the agreement
with an independent reference diff, disjointness and swap symmetry are evaluated on the
implementation by the C11 judges of the `typ` domain, incl. an independent normal form for
"equal up to the order of set and associative-list members").
-/
import SMD.Proofs.CompareLaws
namespace SMD.C11

/-- comparing an object with itself reports nothing, at every node, duplicates included -/
theorem compare_self_empty (s : Schema) (fuel : Nat) (v : Value) (tr : TypeRef) (c : Cmp) :
    cmpNode s fuel (some v) (some v) tr = .ok c → c.removed = [] ∧ c.modified = [] ∧ c.added = [] :=
  cmpNode_self s fuel (some v) tr c

theorem compareTV_self_isSame (s : Schema) (tv : TV) (c : Comparison) :
    compareTV s tv tv = .ok c → c.isSame = true := by
  unfold compareTV
  split
  · intro h; cases h
  · split
    · next c' hc' =>
      intro h; cases h
      obtain ⟨h1, h2, h3⟩ := cmpNode_self s _ _ _ _ hc'
      simp only [Comparison.isSame, h1, h2, h3]
      rfl
    · intro h; cases h
    · intro h; cases h

/-- comparing nothing with X never reports removed or modified fields (everything is added) -/
theorem compare_from_nothing_only_adds (s : Schema) (fuel : Nat) (v : Value) (tr : TypeRef) (c : Cmp) :
    cmpNode s fuel none (some v) tr = .ok c → c.removed = [] ∧ c.modified = [] :=
  cmpNode_left_none s fuel (some v) tr c

/-- …and symmetrically comparing X with nothing only removes -/
theorem compare_to_nothing_only_removes (s : Schema) (fuel : Nat) (v : Value) (tr : TypeRef) (c : Cmp) :
    cmpNode s fuel (some v) none tr = .ok c → c.added = [] ∧ c.modified = [] :=
  cmpNode_right_none s fuel (some v) tr c

/-- the three sets of a comparison are well-formed field sets -/
theorem compare_sets_wf (s : Schema) (l r : TV) (c : Comparison) :
    compareTV s l r = .ok c → c.removed.wf = true ∧ c.modified.wf = true ∧ c.added.wf = true := by
  unfold compareTV
  split
  · intro h; cases h
  · split
    · intro h; cases h
      exact ⟨SetTrie.wf_ofPaths _, SetTrie.wf_ofPaths _, SetTrie.wf_ofPaths _⟩
    · intro h; cases h
    · intro h; cases h

end SMD.C11
