/-
C11 — comparison is an exact structural diff: operand swap, disjointness, and the three sets against
an independent description of "present on one side only".

Of the seven statements as first written, two hold (`compareTV_swap`, `compare_disjoint_of_dupfree`).
The other five do not hold of the model; each original is kept as a comment (`STATEMENT-FALSE`) with a
concrete counterexample, the counterexample is refuted by a kernel-checked `example` (the runs are in
`SMD/Proofs/CompareCounterexamples.lean`), and the closest true statement is proved under a new name:

* a comparison that returns an error may panic in the other direction (the two results are the first
  failure met in two different visiting orders): `compareTV_swap_err_partial`;
* the sets of a comparison are not differences of FIELD SETS but of NODE SETS: a field set holds the
  leaves of an object (scalars, nulls, empty maps, atomic values), the members of lists and the entries
  of maps with no declared field — neither the non-empty maps and lists held by declared fields, nor
  an EMPTY LIST held by a declared field; the comparison reports every node.  The reference is
  `nodeAt` (`SMD/Proofs/CompareNodes.lean`): the value a path designates, map entries by name, list
  members by their path element, nothing inside atomic lists and maps.  `compare_added_iff_partial`,
  `compare_removed_iff_partial`: added / removed = the non-empty paths that designate a node on one
  side only, for all valid duplicate-free operands, no further hypothesis.  The same against the
  independent resolver `Nodes.valueAt` of `SMD/Spec/Nodes.lean` (`designates` = `Nodes.present` and not
  through an atomic node), for paths without index elements and operands whose visited lists can be
  indexed: `compare_added_iff_of_listsAssociative`, `compare_removed_iff_of_listsAssociative`;
* a modified path designates a node on both sides, with values that are not `Equals` — it need not be a
  member of either field set (an empty list against null under a declared field):
  `compare_modified_sound_partial` (against `nodeAt`), `compare_modified_sound_of_listsAssociative`
  (against `Nodes.valueAt`, the statement as first written with "member of the field set" replaced by
  "designates a node");
* when nothing is reported the two operands have the same nodes (`compare_same_nodes_partial`); their
  field sets may still differ when an operand holds a repeated map key, because the comparison looks
  entries up by key (first entry) and the field-set walker visits every entry.  For canonical operands
  (`C12.canonical`: every map strictly sorted by key, the form every wire value has) the statement as
  first written holds: `compare_same_fieldsets_of_canonical`.
-/
import SMD.Proofs.CompareExact
import SMD.Proofs.CompareCounterexamples
import SMD.Properties.C13Total
namespace SMD.C11
open SMD.CmpX

/-- swapping the operands swaps added and removed and keeps modified -/
theorem compareTV_swap (s : Schema) (l r : TV) (c : Comparison) (h : compareTV s l r = .ok c) :
    ∃ c', compareTV s r l = .ok c' ∧
      (∀ p, c'.added.has p = c.removed.has p) ∧ (∀ p, c'.removed.has p = c.added.has p) ∧
      (∀ p, c'.modified.has p = c.modified.has p) :=
  compareTV_swap_sets s l r c h

-- STATEMENT-FALSE: s = ⟨[]⟩, the struct type {a: <undefined named type>, b: <inline scalar with an
--   element relationship, which does not resolve>}, l = {a: 1}, r = {b: 1}: comparing l with r visits
--   `a` first and returns the resolution error; comparing r with l visits `b` first and panics.
-- /-- a comparison that fails, fails in both directions -/
-- theorem compareTV_swap_err (s : Schema) (l r : TV) (h : compareTV s l r = .err) : compareTV s r l = .err

example : ¬ (∀ (s : Schema) (l r : TV), compareTV s l r = .err → compareTV s r l = .err) := by
  intro h
  have h1 := h ⟨[]⟩ C11cx.errL C11cx.errR C11cx.err_lr
  rw [C11cx.err_rl] at h1
  cases h1

/-- a comparison that returns an error does not succeed in the other direction -/
theorem compareTV_swap_err_partial (s : Schema) (l r : TV) (h : compareTV s l r = .err) :
    compareTV s r l = .err ∨ compareTV s r l = .panic :=
  compareTV_swap_err_or_panic s l r h

/-- neither operand holds duplicates: the three sets are pairwise disjoint -/
theorem compare_disjoint_of_dupfree (s : Schema) (l r : TV) (c : Comparison)
    (hl : validateV s false l.type l.value = .ok ()) (hr : validateV s false r.type r.value = .ok ())
    (h : compareTV s l r = .ok c) (p : Path) :
    ¬ (c.added.has p = true ∧ c.removed.has p = true) ∧
    ¬ (c.added.has p = true ∧ c.modified.has p = true) ∧
    ¬ (c.removed.has p = true ∧ c.modified.has p = true) :=
  compareTV_disjoint s l r c hl hr h p

-- STATEMENT-FALSE: s = ⟨[]⟩, the struct type {a: set of scalars, b: map of scalars}, l = {}, r = {a: []},
--   p = [.a]: the comparison reports `.a` as added, but the field set of r is empty (an empty list under
--   a declared field is not a member).  (In the other direction: l = {b: {x: 1}}, r = {b: null}: `.b` is a
--   member of the right field set only and is not added — only `.b.x` is removed.)
-- /-- added = present in the right operand's field set only -/
-- theorem compare_added_iff (s : Schema) (l r : TV) (c : Comparison) (fl fr : SetTrie)
--     (hl : validateV s false l.type l.value = .ok ()) (hr : validateV s false r.type r.value = .ok ())
--     (h : compareTV s l r = .ok c) (hfl : toFieldSet s l = .ok fl) (hfr : toFieldSet s r = .ok fr) (p : Path) :
--     c.added.has p = true ↔ (fr.has p = true ∧ fl.has p = false)

example : ¬ (∀ (s : Schema) (l r : TV) (c : Comparison) (fl fr : SetTrie),
    validateV s false l.type l.value = .ok () → validateV s false r.type r.value = .ok () →
    compareTV s l r = .ok c → toFieldSet s l = .ok fl → toFieldSet s r = .ok fr →
    ∀ p, (c.added.has p = true ↔ (fr.has p = true ∧ fl.has p = false))) := by
  intro h
  have h1 := (h ⟨[]⟩ C11cx.emptyV C11cx.emptyListV _ (.ofPaths []) (.ofPaths []) rfl rfl C11cx.cmp_empty_emptyList
    rfl rfl [.field "a"]).1 (by decide)
  exact absurd h1.1 (by decide)

/-- added = the non-empty paths that designate a node of the right operand and none of the left one -/
theorem compare_added_iff_partial (s : Schema) (l r : TV) (c : Comparison)
    (hl : validateV s false l.type l.value = .ok ()) (hr : validateV s false r.type r.value = .ok ())
    (h : compareTV s l r = .ok c) (p : Path) :
    c.added.has p = true ↔
      (p ≠ [] ∧ (nodeAt s r.type r.value p).isSome = true ∧ nodeAt s l.type l.value p = none) := by
  rw [compareTV_added_nodes s l r c hl hr h p]
  cases p <;> simp

/-- the same against the independent resolver: added = designates a node on the right only -/
theorem compare_added_iff_of_listsAssociative (s : Schema) (l r : TV) (c : Comparison)
    (hl : validateV s false l.type l.value = .ok ()) (hr : validateV s false r.type r.value = .ok ())
    (hla : listsAssociative s l.type l.value = true) (hra : listsAssociative s r.type r.value = true)
    (h : compareTV s l r = .ok c) (p : Path) (hidx : ∀ i, PE.index i ∉ p) :
    c.added.has p = true ↔
      (p ≠ [] ∧ designates s r.type r.value p = true ∧ designates s l.type l.value p = false) := by
  rw [compareTV_added_designates s l r c hl hr hla hra h p hidx]
  cases p <;> simp

-- STATEMENT-FALSE: the same schema and type, l = {a: []}, r = {}, p = [.a]: the comparison reports `.a`
--   as removed, but the field set of l is empty.
-- /-- removed = present in the left operand's field set only -/
-- theorem compare_removed_iff (s : Schema) (l r : TV) (c : Comparison) (fl fr : SetTrie)
--     (hl : validateV s false l.type l.value = .ok ()) (hr : validateV s false r.type r.value = .ok ())
--     (h : compareTV s l r = .ok c) (hfl : toFieldSet s l = .ok fl) (hfr : toFieldSet s r = .ok fr) (p : Path) :
--     c.removed.has p = true ↔ (fl.has p = true ∧ fr.has p = false)

example : ¬ (∀ (s : Schema) (l r : TV) (c : Comparison) (fl fr : SetTrie),
    validateV s false l.type l.value = .ok () → validateV s false r.type r.value = .ok () →
    compareTV s l r = .ok c → toFieldSet s l = .ok fl → toFieldSet s r = .ok fr →
    ∀ p, (c.removed.has p = true ↔ (fl.has p = true ∧ fr.has p = false))) := by
  intro h
  have h1 := (h ⟨[]⟩ C11cx.emptyListV C11cx.emptyV _ (.ofPaths []) (.ofPaths []) rfl rfl C11cx.cmp_emptyList_empty
    rfl rfl [.field "a"]).1 (by decide)
  exact absurd h1.1 (by decide)

/-- removed = the non-empty paths that designate a node of the left operand and none of the right one -/
theorem compare_removed_iff_partial (s : Schema) (l r : TV) (c : Comparison)
    (hl : validateV s false l.type l.value = .ok ()) (hr : validateV s false r.type r.value = .ok ())
    (h : compareTV s l r = .ok c) (p : Path) :
    c.removed.has p = true ↔
      (p ≠ [] ∧ (nodeAt s l.type l.value p).isSome = true ∧ nodeAt s r.type r.value p = none) := by
  rw [compareTV_removed_nodes s l r c hl hr h p]
  cases p <;> simp

/-- the same against the independent resolver: removed = designates a node on the left only -/
theorem compare_removed_iff_of_listsAssociative (s : Schema) (l r : TV) (c : Comparison)
    (hl : validateV s false l.type l.value = .ok ()) (hr : validateV s false r.type r.value = .ok ())
    (hla : listsAssociative s l.type l.value = true) (hra : listsAssociative s r.type r.value = true)
    (h : compareTV s l r = .ok c) (p : Path) (hidx : ∀ i, PE.index i ∉ p) :
    c.removed.has p = true ↔
      (p ≠ [] ∧ designates s l.type l.value p = true ∧ designates s r.type r.value p = false) := by
  rw [compareTV_removed_designates s l r c hl hr hla hra h p hidx]
  cases p <;> simp

-- STATEMENT-FALSE: the same schema and type, l = {a: []}, r = {a: null}, p = [.a]: the comparison
--   reports `.a` as modified (an empty list against null is compared as a leaf), `.a` is a member of the
--   right field set and not of the left one.
-- /-- modified paths are members of both field sets, and designate different values -/
-- theorem compare_modified_sound (s : Schema) (l r : TV) (c : Comparison) (fl fr : SetTrie)
--     (hl : validateV s false l.type l.value = .ok ()) (hr : validateV s false r.type r.value = .ok ())
--     (h : compareTV s l r = .ok c) (hfl : toFieldSet s l = .ok fl) (hfr : toFieldSet s r = .ok fr) (p : Path)
--     (hm : c.modified.has p = true) :
--     fl.has p = true ∧ fr.has p = true ∧ Nodes.valueAt s l.type l.value p ≠ Nodes.valueAt s r.type r.value p

example : ¬ (∀ (s : Schema) (l r : TV) (c : Comparison) (fl fr : SetTrie),
    validateV s false l.type l.value = .ok () → validateV s false r.type r.value = .ok () →
    compareTV s l r = .ok c → toFieldSet s l = .ok fl → toFieldSet s r = .ok fr →
    ∀ p, c.modified.has p = true →
      fl.has p = true ∧ fr.has p = true ∧ Nodes.valueAt s l.type l.value p ≠ Nodes.valueAt s r.type r.value p) := by
  intro h
  have h1 := h ⟨[]⟩ C11cx.emptyListV C11cx.nullV _ (.ofPaths []) (.ofPaths [[.field "a"], [.field "a"]]) rfl rfl
    C11cx.cmp_emptyList_null rfl rfl [.field "a"] (by decide)
  exact absurd h1.1 (by decide)

/-- a modified path designates a node of both operands, and the two values are not `Equals` -/
theorem compare_modified_sound_partial (s : Schema) (l r : TV) (c : Comparison)
    (hl : validateV s false l.type l.value = .ok ()) (hr : validateV s false r.type r.value = .ok ())
    (h : compareTV s l r = .ok c) (p : Path) (hm : c.modified.has p = true) :
    ∃ lv rv, nodeAt s l.type l.value p = some lv ∧ nodeAt s r.type r.value p = some rv ∧
      Value.equals lv rv = false :=
  compareTV_modified_nodes s l r c hl hr h p hm

/-- the same against the independent resolver: a modified path designates a node on both sides, and
`Nodes.valueAt` finds different values -/
theorem compare_modified_sound_of_listsAssociative (s : Schema) (l r : TV) (c : Comparison)
    (hl : validateV s false l.type l.value = .ok ()) (hr : validateV s false r.type r.value = .ok ())
    (hla : listsAssociative s l.type l.value = true) (hra : listsAssociative s r.type r.value = true)
    (h : compareTV s l r = .ok c) (p : Path) (hm : c.modified.has p = true) :
    designates s l.type l.value p = true ∧ designates s r.type r.value p = true ∧
      Nodes.valueAt s l.type l.value p ≠ Nodes.valueAt s r.type r.value p :=
  compareTV_modified_designates s l r c hl hr hla hra h p hm

-- STATEMENT-FALSE: s = ⟨[]⟩, the type "map of maps of scalars", l = {a: {}, a: {x: 1}} (the key `a`
--   twice), r = {a: {}}: both are accepted, the comparison looks `a` up (first entry) and reports nothing,
--   but the field set of l has the member `.a.x` (the field-set walker visits the shadowed entry too).
-- /-- nothing reported: the two field sets have the same members -/
-- theorem compare_same_fieldsets (s : Schema) (l r : TV) (c : Comparison) (fl fr : SetTrie)
--     (hl : validateV s false l.type l.value = .ok ()) (hr : validateV s false r.type r.value = .ok ())
--     (h : compareTV s l r = .ok c) (hsame : c.isSame = true)
--     (hfl : toFieldSet s l = .ok fl) (hfr : toFieldSet s r = .ok fr) (p : Path) :
--     fl.has p = fr.has p

example : ¬ (∀ (s : Schema) (l r : TV) (c : Comparison) (fl fr : SetTrie),
    validateV s false l.type l.value = .ok () → validateV s false r.type r.value = .ok () →
    compareTV s l r = .ok c → c.isSame = true → toFieldSet s l = .ok fl → toFieldSet s r = .ok fr →
    ∀ p, fl.has p = fr.has p) := by
  intro h
  have h1 := h ⟨[]⟩ C11cx.dupKeyV C11cx.oneKeyV _
    (.ofPaths [[.field "a"], [.field "a", .field "x"], [.field "a", .field "x"], [.field "a"]])
    (.ofPaths [[.field "a"]]) rfl rfl C11cx.cmp_dupKey rfl rfl rfl [.field "a", .field "x"]
  exact absurd h1 (by decide)

/-- nothing reported, canonical operands: the two field sets have the same members -/
theorem compare_same_fieldsets_of_canonical (s : Schema) (l r : TV) (c : Comparison) (fl fr : SetTrie)
    (hl : validateV s false l.type l.value = .ok ()) (hr : validateV s false r.type r.value = .ok ())
    (hcl : C12.canonical l.value = true) (hcr : C12.canonical r.value = true)
    (h : compareTV s l r = .ok c) (hsame : c.isSame = true)
    (hfl : toFieldSet s l = .ok fl) (hfr : toFieldSet s r = .ok fr) (p : Path) :
    fl.has p = fr.has p :=
  compareTV_same_fieldsets s l r c fl fr hl hr (by rw [← NodeLaws.canonical_eq_canon]; exact hcl)
    (by rw [← NodeLaws.canonical_eq_canon]; exact hcr) h hsame hfl hfr p

/-- nothing reported: the same paths designate nodes in both operands -/
theorem compare_same_nodes_partial (s : Schema) (l r : TV) (c : Comparison)
    (hl : validateV s false l.type l.value = .ok ()) (hr : validateV s false r.type r.value = .ok ())
    (h : compareTV s l r = .ok c) (hsame : c.isSame = true) (p : Path) :
    (nodeAt s l.type l.value p).isSome = (nodeAt s r.type r.value p).isSome :=
  compareTV_same_nodes s l r c hl hr h hsame p

/-! ### non-vacuity: a keyed list inside a struct -/

/-- an item type with the key field `name` -/
def nvItemT : TypeRef :=
  .mk none (.mk none none (some (.mk [.mk "name" C11cx.scalarT none, .mk "x" C11cx.scalarT none] [] .zero ""))) none
/-- `{items: <list keyed by name>}` -/
def nvT : TypeRef :=
  .mk none (.mk none none (some (.mk
    [.mk "items" (.mk none (.mk none (some (.mk nvItemT "associative" ["name"])) none) none) none] [] .zero ""))) none
def nvL : TV := ⟨.map [("items", .list [.map [("name", .str "a"), ("x", .int 1)]])], nvT⟩
def nvR : TV := ⟨.map [("items", .list [.map [("name", .str "b"), ("x", .int 1)]])], nvT⟩

/-- the hypotheses of the re-proved laws hold together, and the reference tells the two objects apart -/
example : validateV ⟨[]⟩ false nvL.type nvL.value = .ok () ∧ validateV ⟨[]⟩ false nvR.type nvR.value = .ok () ∧
    listsAssociative ⟨[]⟩ nvL.type nvL.value = true ∧ listsAssociative ⟨[]⟩ nvR.type nvR.value = true ∧
    nodeAt ⟨[]⟩ nvR.type nvR.value [.field "items", .key [("name", .str "b")], .field "x"] = some (.int 1) ∧
    nodeAt ⟨[]⟩ nvL.type nvL.value [.field "items", .key [("name", .str "b")], .field "x"] = none ∧
    designates ⟨[]⟩ nvR.type nvR.value [.field "items", .key [("name", .str "b")], .field "x"] = true ∧
    designates ⟨[]⟩ nvL.type nvL.value [.field "items", .key [("name", .str "b")], .field "x"] = false :=
  ⟨rfl, rfl, rfl, rfl, rfl, rfl, rfl, rfl⟩

/-- the comparison of the two objects succeeds -/
example : ∃ c, compareTV ⟨[]⟩ nvL nvR = .ok c := by
  obtain ⟨c0, hc0⟩ := C13.compare_ok_of_valid ⟨[]⟩ nvT nvL.value nvR.value (nvL.value.depth + nvR.value.depth + 2)
    rfl rfl rfl rfl (by omega)
  have h1 : TypeRef.equals nvL.type nvR.type = true := TypeRef.equals_refl _
  have h2 : cmpNode ⟨[]⟩ (nvL.value.depth + nvR.value.depth + 2) (some nvL.value) (some nvR.value) nvL.type =
      .ok c0 := hc0
  unfold compareTV
  rw [h1, h2]
  exact ⟨_, rfl⟩

/-- whatever the comparison of the two objects returns, it reports the item of the right object as added -/
example (c : Comparison) (h : compareTV ⟨[]⟩ nvL nvR = .ok c) :
    c.added.has [.field "items", .key [("name", .str "b")], .field "x"] = true :=
  (compare_added_iff_partial ⟨[]⟩ nvL nvR c rfl rfl h _).2 ⟨by simp, rfl, rfl⟩

end SMD.C11
