/-
C11 — "[the three sets] are all empty exactly when the objects are equal up to the order of set and
associative-list members". `Spec.sameUpToOrder` is the independent description of that equality: the
same scalars, maps with the same keys and values that are the same up to order, atomic lists equal
element by element in order, associative lists with the same members (by identity) in any order.

The statement as first written (`compare_same_iff`) does not hold of the model: excluding scalar and null
roots is not enough for "a difference at the root itself is invisible" (DESIGN.md R10).  A root that is
an ATOMIC list or map is compared as a leaf, and so are two EMPTY containers of different shapes (`[]`
against `{}` under a type that allows both): the only possible report is the empty path, which is never
a member, so nothing is reported although the objects differ.  The original is kept as a comment
(`STATEMENT-FALSE`) with the two counterexamples, both refuted by kernel-checked `example`s (the runs are
in `SMD/Proofs/CompareSameCounterexamples.lean`).  What holds:

* `compare_same_of_sameUpToOrder`: the direction "the same up to member order ⇒ nothing reported", under
  the hypotheses as first written;
* `compare_same_iff_of_granularRoot`: the equivalence, when in addition the root is handled member by
  member (`granularRoot`: a list or a map that is not atomic) and the two roots are both lists or both
  maps.

`sameUpToOrder` is unchanged: at every node BENEATH the root the comparison reports nothing exactly when
`sameUpToOrder` holds (`CmpX.cmpNode_nil_iff_sameUO`, no hypothesis on the node), kinds deduced from the
left value, nulls and absent entries told apart as the comparison tells them apart.
-/
import SMD.Proofs.CompareSame
import SMD.Proofs.CompareSameCounterexamples
set_option linter.unusedVariables false
namespace SMD.C11
open SMD.CmpX

mutual
/-- equality up to the order of the members of sets and associative lists, following the schema -/
def sameUpToOrder (s : Schema) : Nat → TypeRef → Value → Value → Bool
  | 0, _, _, _ => false
  | fuel + 1, tr, l, r =>
    match resolveKind s tr (some l) with
    | some (.list t) =>
      if t.rel == "atomic" then Value.equals l r
      else
        (match l, r with
         | .list ll, .list rl =>
           ll.length == rl.length &&
           ll.all (fun a => rl.any fun b =>
             PE.equals (match listItemToPE s t a with | .ok pe => pe | _ => .invalid)
                       (match listItemToPE s t b with | .ok pe => pe | _ => .invalid) &&
             sameUpToOrder s fuel t.elementType a b)
         | _, _ => Value.equals l r)
    | some (.map t) =>
      if t.rel == "atomic" then Value.equals l r
      else
        (match l, r with
         | .map lm, .map rm =>
           lm.length == rm.length &&
           lm.all (fun (k, a) => match lookupField k rm with
             | some b => sameUpToOrder s fuel (fieldType t k) a b
             | none => false)
         | _, _ => Value.equals l r)
    | _ => Value.equals l r
end

/-- the value is handled member by member: as a list or as a map that is not atomic -/
def granularRoot (s : Schema) (tr : TypeRef) (v : Value) : Bool :=
  match resolveKind s tr (some v) with
  | some (.list t) => t.rel != "atomic"
  | some (.map t) => t.rel != "atomic"
  | _ => false

/-- `sameUpToOrder` coincides with its copy `CmpX.sameUO` used in `SMD.Proofs.CompareSame` -/
theorem sameUpToOrder_eq_sameUO (s : Schema) :
    ∀ (n : Nat) (tr : TypeRef) (l r : Value), sameUpToOrder s n tr l r = CmpX.sameUO s n tr l r := by
  intro n
  induction n with
  | zero => intro tr l r; rfl
  | succ n ih =>
    intro tr l r
    have ih' : sameUpToOrder s n = CmpX.sameUO s n := by funext tr l r; exact ih tr l r
    unfold sameUpToOrder CmpX.sameUO
    rw [ih']
    cases resolveKind s tr (some l) with
    | none => rfl
    | some K => cases K <;> rfl

-- STATEMENT-FALSE: (1) s = ⟨[]⟩, the type "atomic list of scalars", l = [1], r = [2]: both valid, canonical,
--   neither scalar nor null; the comparison reports only the root as modified, the root is never a member,
--   `isSame` holds — and the two lists are not the same up to order.
--   (2) s = ⟨[]⟩, the type "set of scalars or map of scalars" (list and map members both set), l = [],
--   r = {}: both handlers compare the two empty containers as leaves, the only reports are at the root,
--   `isSame` holds — and `[]` is not `{}`.
-- /-- nothing is reported exactly when the two objects are the same up to member order (valid,
-- duplicate-free, canonical operands whose roots are granular containers: a difference at the root
-- itself is invisible to Compare, DESIGN.md R10) -/
-- theorem compare_same_iff (s : Schema) (l r : TV) (c : Comparison)
--     (hl : validateV s false l.type l.value = .ok ()) (hr : validateV s false r.type r.value = .ok ())
--     (hcl : C12.canonical l.value = true) (hcr : C12.canonical r.value = true)
--     (hroot : l.value.isScalar = false ∧ r.value.isScalar = false ∧ l.value ≠ .null ∧ r.value ≠ .null)
--     (h : compareTV s l r = .ok c) :
--     c.isSame = true ↔ sameUpToOrder s (l.value.depth + r.value.depth + 2) l.type l.value r.value = true

/-- (1) an atomic root: `[1]` against `[2]` -/
example : ¬ (∀ (s : Schema) (l r : TV) (c : Comparison),
    validateV s false l.type l.value = .ok () → validateV s false r.type r.value = .ok () →
    C12.canonical l.value = true → C12.canonical r.value = true →
    (l.value.isScalar = false ∧ r.value.isScalar = false ∧ l.value ≠ .null ∧ r.value ≠ .null) →
    compareTV s l r = .ok c →
    (c.isSame = true ↔ sameUpToOrder s (l.value.depth + r.value.depth + 2) l.type l.value r.value = true)) := by
  intro h
  have h1 := (h ⟨[]⟩ C11cx.atomicL C11cx.atomicR _ rfl rfl rfl rfl ⟨rfl, rfl, (by intro e; cases e), (by intro e; cases e)⟩
    C11cx.cmp_atomic_root).1 (by decide)
  exact absurd h1 (by decide)

/-- (2) two empty containers of different shapes: `[]` against `{}` -/
example : ¬ (∀ (s : Schema) (l r : TV) (c : Comparison),
    validateV s false l.type l.value = .ok () → validateV s false r.type r.value = .ok () →
    C12.canonical l.value = true → C12.canonical r.value = true →
    (l.value.isScalar = false ∧ r.value.isScalar = false ∧ l.value ≠ .null ∧ r.value ≠ .null) →
    compareTV s l r = .ok c →
    (c.isSame = true ↔ sameUpToOrder s (l.value.depth + r.value.depth + 2) l.type l.value r.value = true)) := by
  intro h
  have h1 := (h ⟨[]⟩ C11cx.emptySetV C11cx.emptyMapV _ rfl rfl rfl rfl
    ⟨rfl, rfl, (by intro e; cases e), (by intro e; cases e)⟩ C11cx.cmp_emptySet_emptyMap).1 (by decide)
  exact absurd h1 (by decide)

/-- the same up to member order: nothing is reported (the hypotheses as first written) -/
theorem compare_same_of_sameUpToOrder (s : Schema) (l r : TV) (c : Comparison)
    (hl : validateV s false l.type l.value = .ok ()) (hr : validateV s false r.type r.value = .ok ())
    (hcl : C12.canonical l.value = true) (hcr : C12.canonical r.value = true)
    (hroot : l.value.isScalar = false ∧ r.value.isScalar = false ∧ l.value ≠ .null ∧ r.value ≠ .null)
    (h : compareTV s l r = .ok c)
    (hsame : sameUpToOrder s (l.value.depth + r.value.depth + 2) l.type l.value r.value = true) :
    c.isSame = true :=
  CmpX.compareTV_same_of_sameUO s l r c hl hr (by rw [← NodeLaws.canonical_eq_canon]; exact hcl)
    (by rw [← NodeLaws.canonical_eq_canon]; exact hcr) h (by rw [← sameUpToOrder_eq_sameUO]; exact hsame)

/-- nothing is reported exactly when the two objects are the same up to member order (valid,
duplicate-free, canonical operands whose roots are granular containers of the same shape — both lists or
both maps, handled member by member: a difference at the root itself is invisible to Compare,
DESIGN.md R10) -/
theorem compare_same_iff_of_granularRoot (s : Schema) (l r : TV) (c : Comparison)
    (hl : validateV s false l.type l.value = .ok ()) (hr : validateV s false r.type r.value = .ok ())
    (hcl : C12.canonical l.value = true) (hcr : C12.canonical r.value = true)
    (hroot : l.value.isScalar = false ∧ r.value.isScalar = false ∧ l.value ≠ .null ∧ r.value ≠ .null)
    (hgran : granularRoot s l.type l.value = true) (hshape : l.value.isList = r.value.isList)
    (h : compareTV s l r = .ok c) :
    c.isSame = true ↔ sameUpToOrder s (l.value.depth + r.value.depth + 2) l.type l.value r.value = true := by
  rw [sameUpToOrder_eq_sameUO]
  exact CmpX.compareTV_same_iff_sameUO s l r c hl hr (by rw [← NodeLaws.canonical_eq_canon]; exact hcl)
    (by rw [← NodeLaws.canonical_eq_canon]; exact hcr) hroot hgran hshape h

/-! ### non-vacuity: a set of scalars at the root -/

/-- `[1, 2]` -/
def nvSetL : TV := ⟨.list [.int 1, .int 2], C11cx.setT⟩
/-- `[2, 1]`: the same members in another order -/
def nvSetR : TV := ⟨.list [.int 2, .int 1], C11cx.setT⟩
/-- `[2, 3]`: another member -/
def nvSetR' : TV := ⟨.list [.int 2, .int 3], C11cx.setT⟩

/-- the hypotheses of `compare_same_iff_of_granularRoot` hold together -/
example : validateV ⟨[]⟩ false nvSetL.type nvSetL.value = .ok () ∧ validateV ⟨[]⟩ false nvSetR.type nvSetR.value = .ok () ∧
    C12.canonical nvSetL.value = true ∧ C12.canonical nvSetR.value = true ∧
    (nvSetL.value.isScalar = false ∧ nvSetR.value.isScalar = false ∧ nvSetL.value ≠ .null ∧ nvSetR.value ≠ .null) ∧
    granularRoot ⟨[]⟩ nvSetL.type nvSetL.value = true ∧ nvSetL.value.isList = nvSetR.value.isList :=
  ⟨rfl, rfl, rfl, rfl, ⟨rfl, rfl, (by intro e; cases e), (by intro e; cases e)⟩, rfl, rfl⟩

/-- the comparison of the two sets succeeds -/
example : ∃ c, compareTV ⟨[]⟩ nvSetL nvSetR = .ok c := by
  obtain ⟨c0, hc0⟩ := C13.compare_ok_of_valid ⟨[]⟩ C11cx.setT nvSetL.value nvSetR.value
    (nvSetL.value.depth + nvSetR.value.depth + 2) rfl rfl rfl rfl (by omega)
  have h1 : TypeRef.equals nvSetL.type nvSetR.type = true := TypeRef.equals_refl _
  have h2 : cmpNode ⟨[]⟩ (nvSetL.value.depth + nvSetR.value.depth + 2) (some nvSetL.value) (some nvSetR.value)
      nvSetL.type = .ok c0 := hc0
  unfold compareTV
  rw [h1, h2]
  exact ⟨_, rfl⟩

/-- whatever the comparison of `[1, 2]` with `[2, 1]` returns, it reports nothing -/
example (c : Comparison) (h : compareTV ⟨[]⟩ nvSetL nvSetR = .ok c) : c.isSame = true :=
  (compare_same_iff_of_granularRoot ⟨[]⟩ nvSetL nvSetR c rfl rfl rfl rfl
    ⟨rfl, rfl, (by intro e; cases e), (by intro e; cases e)⟩ rfl rfl h).2 (by decide)

/-- whatever the comparison of `[1, 2]` with `[2, 3]` returns, it reports something -/
example (c : Comparison) (h : compareTV ⟨[]⟩ nvSetL nvSetR' = .ok c) : c.isSame = false := by
  cases hs : c.isSame with
  | false => rfl
  | true =>
    exact absurd ((compare_same_iff_of_granularRoot ⟨[]⟩ nvSetL nvSetR' c rfl rfl rfl rfl
      ⟨rfl, rfl, (by intro e; cases e), (by intro e; cases e)⟩ rfl rfl h).1 hs) (by decide)

end SMD.C11
