/-
C12 — merge obeys its algebraic and ordering laws (clauses provable on the model; right-wins,
no-removal, field-set union, idempotence, associativity and the ordering laws are evaluated on the
implementation by the C12 judges of the `typ` domain).
-/
import SMD.Proofs.MergeLaws
namespace SMD.C12

/-- strictly ascending keys -/
def keysAscending : List (String × Value) → Bool
  | [] => true
  | [_] => true
  | (k, _) :: (k', v') :: rest => decide (k < k') && keysAscending ((k', v') :: rest)

mutual
/-- canonical values: every map's entries are strictly sorted by key (the representation the wire
format and every model operation produce) -/
def canonical : Value → Bool
  | .list l => canonicalList l
  | .map m => keysAscending m && canonicalFields m
  | _ => true
def canonicalList : List Value → Bool
  | [] => true
  | v :: vs => canonical v && canonicalList vs
def canonicalFields : List (String × Value) → Bool
  | [] => true
  | (_, v) :: rest => canonical v && canonicalFields rest
end

/-- at a leaf the right-hand side wins: scalars -/
theorem merge_scalar_right_wins (s : Schema) (fuel : Nat) (l r : Value) (tr : TypeRef) (a : Atom) (t : String)
    (hres : s.resolve tr = some a) (hl : l.isScalar = true) (hr : r.isScalar = true)
    (ha : a.scalar = some t) (hv : validateScalar t (some r) = true) :
    mergeNode s (fuel + 1) (some l) (some r) tr = .ok (some r) :=
  merge_scalar s fuel l r tr a t hres hl hr ha hv

/-! ### merging with nothing

The two statements below are false of the model as written: validation accepts a non-empty list whose
declared `elementRelationship` is neither "atomic" nor "associative" (its items are validated by index,
typed/validate.go `visitListItems`), but the merging walker indexes every non-atomic list through
`listItemToPathElement`, which rejects such a list.  The originals are kept as comments, refuted on a
concrete schema, and re-proved under the extra hypothesis `listsAssociative` (every non-empty,
non-atomic list node the walker visits is declared "associative"). -/

-- STATEMENT-FALSE: s = ⟨[]⟩, tr = cexListTR (an inline list type with elementRelationship "" over
--   untyped scalars), v = .list [.int 1], fuel = 3: validateV s true tr v = .ok (), canonical v,
--   v.depth = 2 < 3, but mergeNode s 3 (some v) none tr = .err
-- /-- merging with nothing on the right is the identity on valid canonical values -/
-- theorem merge_nothing_right (s : Schema) (v : Value) (tr : TypeRef) (fuel : Nat)
--     (hv : validateV s true tr v = .ok ()) (hc : canonical v = true) (hf : v.depth < fuel) :
--     mergeNode s fuel (some v) none tr = .ok (some v)

-- STATEMENT-FALSE: same schema, type and value: validateV s false tr v = .ok (), canonical v,
--   v.depth = 2 < 3, but mergeNode s 3 none (some v) tr = .err
-- /-- merging over nothing on the left is the identity on valid canonical values -/
-- theorem merge_nothing_left (s : Schema) (v : Value) (tr : TypeRef) (fuel : Nat)
--     (hv : validateV s false tr v = .ok ()) (hc : canonical v = true) (hf : v.depth < fuel) :
--     mergeNode s fuel none (some v) tr = .ok (some v)

/-- the element type of the counterexample: an inline untyped scalar -/
def cexElemTR : TypeRef := .mk none (.mk (some "untyped") none none) none
/-- the type of the counterexample: an inline list with the (neither atomic nor associative) relationship "" -/
def cexListTR : TypeRef := .mk none (.mk none (some (.mk cexElemTR "" [])) none) none

/-- `merge_nothing_right` as originally stated does not hold -/
example : ¬ (∀ (s : Schema) (v : Value) (tr : TypeRef) (fuel : Nat),
    validateV s true tr v = .ok () → canonical v = true → v.depth < fuel →
      mergeNode s fuel (some v) none tr = .ok (some v)) := by
  intro h
  have h1 := h ⟨[]⟩ (.list [.int 1]) cexListTR 3 rfl rfl (by decide)
  have h2 : mergeNode ⟨[]⟩ 3 (some (.list [.int 1])) none cexListTR = .err := rfl
  rw [h2] at h1
  cases h1

/-- `merge_nothing_left` as originally stated does not hold -/
example : ¬ (∀ (s : Schema) (v : Value) (tr : TypeRef) (fuel : Nat),
    validateV s false tr v = .ok () → canonical v = true → v.depth < fuel →
      mergeNode s fuel none (some v) tr = .ok (some v)) := by
  intro h
  have h1 := h ⟨[]⟩ (.list [.int 1]) cexListTR 3 rfl rfl (by decide)
  have h2 : mergeNode ⟨[]⟩ 3 none (some (.list [.int 1])) cexListTR = .err := rfl
  rw [h2] at h1
  cases h1

/-! `canonical` coincides with its copy `canon` used in `SMD.Proofs.MergeLaws` -/
private theorem keysAscending_eq (m : List (String × Value)) : keysAscending m = keysAsc m := by
  fun_induction keysAscending m <;> simp_all [keysAsc]
mutual
private theorem canonical_eq : ∀ v : Value, canonical v = canon v
  | .list l => by simp [canonical, canon, canonicalList_eq l]
  | .map m => by simp [canonical, canon, canonicalFields_eq m, keysAscending_eq]
  | .null => rfl
  | .bool _ => rfl
  | .int _ => rfl
  | .float _ _ => rfl
  | .str _ => rfl
private theorem canonicalList_eq : ∀ l : List Value, canonicalList l = canonList l
  | [] => rfl
  | v :: vs => by simp [canonicalList, canonList, canonical_eq v, canonicalList_eq vs]
private theorem canonicalFields_eq : ∀ m : List (String × Value), canonicalFields m = canonFields m
  | [] => rfl
  | (_, v) :: rest => by simp [canonicalFields, canonFields, canonical_eq v, canonicalFields_eq rest]
end

/-- merging with nothing on the right is the identity on valid canonical values all of whose visited
non-empty non-atomic lists are associative -/
theorem merge_nothing_right_of_listsAssociative (s : Schema) (v : Value) (tr : TypeRef) (fuel : Nat)
    (hv : validateV s true tr v = .ok ()) (hc : canonical v = true) (hf : v.depth < fuel)
    (hassoc : listsAssociative s tr v = true) :
    mergeNode s fuel (some v) none tr = .ok (some v) :=
  mergeNode_right_none s fuel v tr hv (by rw [← canonical_eq]; exact hc) hassoc hf

/-- merging over nothing on the left is the identity on valid canonical values all of whose visited
non-empty non-atomic lists are associative -/
theorem merge_nothing_left_of_listsAssociative (s : Schema) (v : Value) (tr : TypeRef) (fuel : Nat)
    (hv : validateV s false tr v = .ok ()) (hc : canonical v = true) (hf : v.depth < fuel)
    (hassoc : listsAssociative s tr v = true) :
    mergeNode s fuel none (some v) tr = .ok (some v) :=
  mergeNode_left_none s fuel v tr hv (by rw [← canonical_eq]; exact hc) hassoc hf

/-! non-vacuity of the re-proved laws: a keyed associative list of maps inside a map -/
def nvItemTR : TypeRef :=
  .mk none (.mk none none (some (.mk [.mk "name" cexElemTR none, .mk "x" cexElemTR none] [] .zero ""))) none
def nvTR : TypeRef :=
  .mk none (.mk none none (some (.mk [.mk "items" (.mk none (.mk none (some (.mk nvItemTR "associative" ["name"])) none) none) none]
    [] .zero ""))) none
def nvValue : Value :=
  .map [("items", .list [.map [("name", .str "a"), ("x", .int 1)], .map [("name", .str "b")]])]
example : validateV ⟨[]⟩ false nvTR nvValue = .ok () ∧ canonical nvValue = true ∧ nvValue.depth < 5 ∧
    listsAssociative ⟨[]⟩ nvTR nvValue = true := ⟨rfl, rfl, by decide, rfl⟩

/-- a merge never panics when the type reference of every node resolves -/
theorem merge_no_panic_of_named (s : Schema) (fuel : Nat) (l r : Option Value) (tr : TypeRef)
    (hres : ∀ tr', (s.resolve tr').isSome = true) :
    mergeNode s fuel l r tr ≠ .panic := by
  intro h
  obtain ⟨tr', h1, _⟩ := mergeNode_panic s fuel l r tr h
  have := hres tr'
  rw [h1] at this
  cases this

/-- the non-vacuous form (the hypothesis of `merge_no_panic_of_named` quantifies over all references,
inline ones included, and no schema satisfies it): a merge panics only when it meets an inline
(unnamed) type reference that does not resolve, i.e. an `elementRelationship` override on an inline
atom that has neither a list nor a map member -/
theorem merge_panic_only_unresolved_inline (s : Schema) (fuel : Nat) (l r : Option Value) (tr : TypeRef) :
    mergeNode s fuel l r tr = .panic → ∃ tr', s.resolve tr' = none ∧ tr'.named = none :=
  mergeNode_panic s fuel l r tr

/-- no schema satisfies the hypothesis of `merge_no_panic_of_named` -/
example (s : Schema) : ¬ (∀ tr', (s.resolve tr').isSome = true) := by
  intro h
  have := h (.mk none Atom.none (some "x"))
  simp [Schema.resolve, Schema.resolveNoOverrides, TypeRef.rel, TypeRef.named, TypeRef.inlined, Atom.none] at this

end SMD.C12
