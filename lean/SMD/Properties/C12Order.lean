/-
C12 — ordering and associativity: "In sets and associative lists the members of R keep R's relative
order, members only in L keep L's relative order, and a merge that adds or changes nothing leaves L's
order intact. … merging is associative up to member order."
-/
import SMD.Proofs.MergeOrder
namespace SMD.C12

/-- the identities (path elements) of the items of a list value, in order -/
def itemIds (s : Schema) (t : ListT) (l : List Value) : List PE :=
  l.map fun v => match listItemToPE s t v with | .ok pe => pe | _ => .invalid

/-- the same identities in the same order (element-wise `PE.equals`) -/
def sameIds : List PE → List PE → Bool
  | [], [] => true
  | x :: xs, y :: ys => PE.equals x y && sameIds xs ys
  | _, _ => false

/-- keep the elements of `xs` whose identity occurs in `ys` (up to `PE.equals`) -/
def restrictTo (xs ys : List PE) : List PE := xs.filter fun x => ys.any fun y => PE.equals x y

theorem sameIds_eq : ∀ xs ys : List PE, sameIds xs ys = Path.equals xs ys
  | [], [] => rfl
  | [], _ :: _ => rfl
  | _ :: _, [] => rfl
  | x :: xs, y :: ys => by simp only [sameIds, Path.equals, sameIds_eq xs ys]

theorem itemIds_eq (s : Schema) (t : ListT) (l : List Value) : itemIds s t l = l.map (peOf' s t) := rfl

/-- at the root of an associative list: the items of R appear in the result in R's relative order -/
theorem merge_list_keeps_right_order (s : Schema) (tr : TypeRef) (t : ListT) (a : Atom) (l r out : List Value) (fuel : Nat)
    (hres : s.resolve tr = some a) (hlist : a.list = some t) (hrel : t.rel = "associative")
    (hl : validateV s false tr (.list l) = .ok ()) (hr : validateV s false tr (.list r) = .ok ())
    (hcl : canonical (.list l) = true) (hcr : canonical (.list r) = true)
    (hm : mergeNode s fuel (some (.list l)) (some (.list r)) tr = .ok (some (.list out))) :
    (restrictTo (itemIds s t out) (itemIds s t r)).length = r.length ∧
    sameIds (restrictTo (itemIds s t out) (itemIds s t r)) (itemIds s t r) = true := by
  have h := MO.keeps_right_order s tr t a l r out fuel hres hlist hrel hl hr
    (CanonKeys.canonical_eq _ ▸ hcl) (CanonKeys.canonical_eq _ ▸ hcr) hm
  simp only [sameIds_eq, restrictTo, itemIds_eq]
  exact ⟨by simpa using MO.Path.equals_length h, h⟩

/-- …and the items only L has appear in L's relative order -/
theorem merge_list_keeps_left_only_order (s : Schema) (tr : TypeRef) (t : ListT) (a : Atom) (l r out : List Value) (fuel : Nat)
    (hres : s.resolve tr = some a) (hlist : a.list = some t) (hrel : t.rel = "associative")
    (hl : validateV s false tr (.list l) = .ok ()) (hr : validateV s false tr (.list r) = .ok ())
    (hcl : canonical (.list l) = true) (hcr : canonical (.list r) = true)
    (hm : mergeNode s fuel (some (.list l)) (some (.list r)) tr = .ok (some (.list out))) :
    let leftOnly (xs : List PE) := xs.filter fun x => !(itemIds s t r).any fun y => PE.equals x y
    sameIds (leftOnly (itemIds s t out)) (leftOnly (itemIds s t l)) = true := by
  simp only [sameIds_eq, itemIds_eq]
  exact MO.keeps_left_only_order s tr t a l r out fuel hres hlist hrel hl hr
    (CanonKeys.canonical_eq _ ▸ hcl) (CanonKeys.canonical_eq _ ▸ hcr) hm

/-- a merge that adds no member (every identity of R is already in L, in the same relative order) keeps
L's order -/
theorem merge_list_adds_nothing_keeps_order (s : Schema) (tr : TypeRef) (t : ListT) (a : Atom) (l r out : List Value) (fuel : Nat)
    (hres : s.resolve tr = some a) (hlist : a.list = some t) (hrel : t.rel = "associative")
    (hl : validateV s false tr (.list l) = .ok ()) (hr : validateV s false tr (.list r) = .ok ())
    (hcl : canonical (.list l) = true) (hcr : canonical (.list r) = true)
    (hsub : sameIds (restrictTo (itemIds s t l) (itemIds s t r)) (itemIds s t r) = true)
    (hm : mergeNode s fuel (some (.list l)) (some (.list r)) tr = .ok (some (.list out))) :
    sameIds (itemIds s t out) (itemIds s t l) = true := by
  simp only [sameIds_eq, restrictTo, itemIds_eq] at hsub ⊢
  exact MO.adds_nothing_keeps_order s tr t a l r out fuel hres hlist hrel hl hr
    (CanonKeys.canonical_eq _ ▸ hcl) (CanonKeys.canonical_eq _ ▸ hcr) hsub hm

-- STATEMENT-FALSE: s = ⟨[]⟩, tr = MA.cxTR (an inline type that is an untyped scalar or a map of untyped
--   scalars, as the deduced type of untyped data is), a = {x: 1}, b = 5, c = {y: 2}, fuel 3 everywhere: all
--   three are valid, canonical and without lists; b over a = 5 (a scalar replaces the map), c over that = {y: 2};
--   c over b = {y: 2}, and that over a = {x: 1, y: 2} (two maps merge key-wise): abc = {y: 2}, abc' = {x: 1, y: 2}.
--   A scalar of the middle operand over a non-empty map of the first is the only obstruction: nulls and empty
--   maps (wherever they stand) do not break associativity.
-- /-- associativity for values without lists (maps, structs, scalars): merging c over (b over a) equals
-- merging (c over b) over a -/
-- theorem merge_assoc_maps_partial (s : Schema) (tr : TypeRef) (a b c ab abc bc abc' : Value) (f1 f2 f3 f4 : Nat)
--     (ha : validateV s false tr a = .ok ()) (hb : validateV s false tr b = .ok ()) (hc : validateV s false tr c = .ok ())
--     (hca : canonical a = true) (hcb : canonical b = true) (hcc : canonical c = true)
--     (hna : Part.noLists a = true) (hnb : Part.noLists b = true) (hnc : Part.noLists c = true)
--     (h1 : mergeNode s f1 (some a) (some b) tr = .ok (some ab)) (h2 : mergeNode s f2 (some ab) (some c) tr = .ok (some abc))
--     (h3 : mergeNode s f3 (some b) (some c) tr = .ok (some bc)) (h4 : mergeNode s f4 (some a) (some bc) tr = .ok (some abc')) :
--     Value.equals abc abc' = true

/-- `merge_assoc_maps_partial` as originally stated does not hold: a scalar between two maps -/
example : ¬ (∀ (s : Schema) (tr : TypeRef) (a b c ab abc bc abc' : Value) (f1 f2 f3 f4 : Nat),
    validateV s false tr a = .ok () → validateV s false tr b = .ok () → validateV s false tr c = .ok () →
    canonical a = true → canonical b = true → canonical c = true →
    Part.noLists a = true → Part.noLists b = true → Part.noLists c = true →
    mergeNode s f1 (some a) (some b) tr = .ok (some ab) → mergeNode s f2 (some ab) (some c) tr = .ok (some abc) →
    mergeNode s f3 (some b) (some c) tr = .ok (some bc) → mergeNode s f4 (some a) (some bc) tr = .ok (some abc') →
    Value.equals abc abc' = true) := by
  intro h
  have h1 := h ⟨[]⟩ MA.cxTR MA.cxA MA.cxB MA.cxC MA.cxB MA.cxC MA.cxC MA.cxAC 3 3 3 3
    MA.cx_valid_a MA.cx_valid_b MA.cx_valid_c MA.cx_canon_a MA.cx_canon_b MA.cx_canon_c
    MA.cx_nl_a MA.cx_nl_b MA.cx_nl_c MA.cx_ab MA.cx_ab_c MA.cx_ab_c MA.cx_a_bc
  rw [MA.cx_differ] at h1
  cases h1

set_option linter.unusedVariables false in
/-- associativity for values without lists (maps, structs, scalars, nulls and empty maps included): merging c
over (b over a) equals merging (c over b) over a, when b holds no scalar where a holds a non-empty map
(`MA.kindsKept a b`, SMD/Proofs/MergeAssoc.lean; the counterexample above has `kindsKept a b = false`) -/
theorem merge_assoc_maps_of_kindsKept (s : Schema) (tr : TypeRef) (a b c ab abc bc abc' : Value) (f1 f2 f3 f4 : Nat)
    (ha : validateV s false tr a = .ok ()) (hb : validateV s false tr b = .ok ()) (hc : validateV s false tr c = .ok ())
    (hca : canonical a = true) (hcb : canonical b = true) (hcc : canonical c = true)
    (hna : Part.noLists a = true) (hnb : Part.noLists b = true) (hnc : Part.noLists c = true)
    (hk : MA.kindsKept a b = true)
    (h1 : mergeNode s f1 (some a) (some b) tr = .ok (some ab)) (h2 : mergeNode s f2 (some ab) (some c) tr = .ok (some abc))
    (h3 : mergeNode s f3 (some b) (some c) tr = .ok (some bc)) (h4 : mergeNode s f4 (some a) (some bc) tr = .ok (some abc')) :
    Value.equals abc abc' = true := by
  rw [MA.merge_assoc s tr a b c ab abc bc abc' f1 f2 f3 f4 hb hc (CanonKeys.canonical_eq _ ▸ hca)
    (CanonKeys.canonical_eq _ ▸ hcb) (CanonKeys.canonical_eq _ ▸ hcc) hna hnb hnc hk h1 h2 h3 h4]
  exact Value.equals_refl _

end SMD.C12
