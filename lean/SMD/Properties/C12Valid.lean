/-
C12 — a merge yields a valid object whose field set is the union of both; merging R again is a no-op.

`merge_valid` holds as first written.  The four other statements are false of the model as first written
(the originals are kept as comments, refuted on concrete runs, and re-proved under the hypotheses that
make them true):

* the merging walker rebuilds maps with their keys in order, so a key field of a keyed-list item that is
  a map written out of order changes the identity of the merged item (the C01 finding): two distinct
  items come out with the same identity, the result's field set holds an element found in neither
  operand's, and a second merge of R finds an extra left-only item.  Hypothesis `keysScalar`
  (SMD/Proofs/MergeNodes.lean): the key fields carried by the items of the keyed lists of L and R are
  scalars.
* a null or an empty map under a declared field is a member of R's field set in its own right; when L
  holds a non-empty map (or list) there, the merged entry is L's and the member is gone; and the model's
  association lists allow a repeated key, whose later entries the merge never sees.  Hypothesis
  `entriesPlain` (SMD/Proofs/MergeFieldSetLaws.lean) on R, for the inclusion of R's field set only.
-/
import SMD.Proofs.MergeValid
namespace SMD.C12
open SMD.Counter01 SMD.Counter12

/-- the result of a successful merge of a valid object (duplicates allowed on the left) with a valid
duplicate-free object is valid (duplicates allowed) -/
theorem merge_valid (s : Schema) (tr : TypeRef) (l r out : Value) (fuel : Nat)
    (hl : validateV s true tr l = .ok ()) (hr : validateV s false tr r = .ok ())
    (hm : mergeNode s fuel (some l) (some r) tr = .ok (some out)) :
    validateV s true tr out = .ok () :=
  MV.merge_valid s tr l r out fuel hl hr hm

-- STATEMENT-FALSE: s = ⟨[]⟩, tr = Counter01.keyedTR (an inline list keyed by "name", a map of untyped
--   scalars), l = .list [], r = .list [{name: {b: 2, a: 1}}, {name: {a: 1, b: 2}}] (two distinct
--   identities: `Equals` on maps is positional), fuel = 4: both operands are valid without duplicates,
--   mergeNode = .ok (some (.list [{name: {a: 1, b: 2}}, {name: {a: 1, b: 2}}])) — the same identity twice —
--   and validateV s false tr out = .err
-- /-- …and duplicate-free when both operands are -/
-- theorem merge_valid_dupfree (s : Schema) (tr : TypeRef) (l r out : Value) (fuel : Nat)
--     (hl : validateV s false tr l = .ok ()) (hr : validateV s false tr r = .ok ())
--     (hm : mergeNode s fuel (some l) (some r) tr = .ok (some out)) :
--     validateV s false tr out = .ok ()

/-- `merge_valid_dupfree` as originally stated does not hold -/
example : ¬ (∀ (s : Schema) (tr : TypeRef) (l r out : Value) (fuel : Nat),
    validateV s false tr l = .ok () → validateV s false tr r = .ok () →
    mergeNode s fuel (some l) (some r) tr = .ok (some out) → validateV s false tr out = .ok ()) := by
  intro h
  have h1 := h ⟨[]⟩ keyedTR (.list []) (.list [itemBA, itemAB]) (.list [itemAB, itemAB]) 4
    valid_empty valid_two merge_two
  rw [invalid_out] at h1
  cases h1

/-- …and duplicate-free when both operands are and the key fields carried by the items of their keyed
lists are scalars -/
theorem merge_valid_dupfree_of_keysScalar (s : Schema) (tr : TypeRef) (l r out : Value) (fuel : Nat)
    (hl : validateV s false tr l = .ok ()) (hr : validateV s false tr r = .ok ())
    (hkl : keysScalar s tr l = true) (hkr : keysScalar s tr r = true)
    (hm : mergeNode s fuel (some l) (some r) tr = .ok (some out)) :
    validateV s false tr out = .ok () :=
  MV.merge_valid_dupfree s tr l r out fuel hl hr hkl hkr hm

-- STATEMENT-FALSE: s = ⟨[]⟩, tr = Counter01.keyedTR, l = .list [], r = .list [{name: {b: 2, a: 1}}],
--   fuel = 4: out = .list [{name: {a: 1, b: 2}}]; p = [key {name: {a: 1, b: 2}}] is a member of the
--   result's field set, L's field set is empty and R's holds [key {name: {b: 2, a: 1}}] (a different
--   element) and paths beneath it
-- /-- the field set of the result is the union of the field sets (duplicate-free operands, paths without
-- kind changes: where R gives a value of another kind, L's paths beneath are gone) — stated as inclusion
-- both ways: every member of the result's field set is a member of L's or of R's, and every member of
-- R's field set is a member of the result's -/
-- theorem merge_fieldset_sub_union (s : Schema) (tr : TypeRef) (l r out : Value) (fuel : Nat)
--     (fl fr fo : List Path)
--     (hl : validateV s false tr l = .ok ()) (hr : validateV s false tr r = .ok ())
--     (hm : mergeNode s fuel (some l) (some r) tr = .ok (some out))
--     (hfl : fsV s tr l = .ok fl) (hfr : fsV s tr r = .ok fr) (hfo : fsV s tr out = .ok fo) (p : Path) :
--     (SetTrie.ofPaths fo).has p = true → ((SetTrie.ofPaths fl).has p = true ∨ (SetTrie.ofPaths fr).has p = true)

/-- `merge_fieldset_sub_union` as originally stated does not hold -/
example : ¬ (∀ (s : Schema) (tr : TypeRef) (l r out : Value) (fuel : Nat) (fl fr fo : List Path),
    validateV s false tr l = .ok () → validateV s false tr r = .ok () →
    mergeNode s fuel (some l) (some r) tr = .ok (some out) →
    fsV s tr l = .ok fl → fsV s tr r = .ok fr → fsV s tr out = .ok fo → ∀ p : Path,
    (SetTrie.ofPaths fo).has p = true →
      ((SetTrie.ofPaths fl).has p = true ∨ (SetTrie.ofPaths fr).has p = true)) := by
  intro h
  have h1 := h ⟨[]⟩ keyedTR (.list []) (.list [itemBA]) (.list [itemAB]) 4 [] fsBA fsAB
    valid_empty valid_one merge_one fs_empty fs_right fs_out [keyAB] out_has
  rw [left_has_not, right_has_not] at h1
  rcases h1 with h1 | h1 <;> cases h1

/-- the field set of the result is within the union of the field sets (duplicate-free operands whose keyed
lists carry scalar key fields): every member of the result's field set is a member of L's or of R's -/
theorem merge_fieldset_sub_union_of_keysScalar (s : Schema) (tr : TypeRef) (l r out : Value) (fuel : Nat)
    (fl fr fo : List Path)
    (hl : validateV s false tr l = .ok ()) (hr : validateV s false tr r = .ok ())
    (hkl : keysScalar s tr l = true) (hkr : keysScalar s tr r = true)
    (hm : mergeNode s fuel (some l) (some r) tr = .ok (some out))
    (hfl : fsV s tr l = .ok fl) (hfr : fsV s tr r = .ok fr) (hfo : fsV s tr out = .ok fo) (p : Path) :
    (SetTrie.ofPaths fo).has p = true → ((SetTrie.ofPaths fl).has p = true ∨ (SetTrie.ofPaths fr).has p = true) :=
  MV.merge_fieldset_sub_union s tr l r out fuel fl fr fo hl hr hkl hkr hm hfl hfr hfo p

-- STATEMENT-FALSE: (1) the run above: p = [key {name: {b: 2, a: 1}}] is a member of R's field set and not
--   of the result's.  (2) with scalar keys everywhere (no list at all): s = ⟨[]⟩, tr = Counter12.holderTR
--   (a map type with one declared field "f", a map of untyped scalars), l = {f: {a: 1}}, r = {f: {}},
--   fuel = 4: out = {f: {a: 1}}; R's field set is {[f]} (an empty map is a member in its own right), the
--   result's is {[f, a]}; p = [f]
-- theorem merge_fieldset_right_sub (s : Schema) (tr : TypeRef) (l r out : Value) (fuel : Nat)
--     (fr fo : List Path)
--     (hl : validateV s false tr l = .ok ()) (hr : validateV s false tr r = .ok ())
--     (hm : mergeNode s fuel (some l) (some r) tr = .ok (some out))
--     (hfr : fsV s tr r = .ok fr) (hfo : fsV s tr out = .ok fo) (p : Path) :
--     (SetTrie.ofPaths fr).has p = true → (SetTrie.ofPaths fo).has p = true

/-- `merge_fieldset_right_sub` as originally stated does not hold: an out-of-order map as key field -/
example : ¬ (∀ (s : Schema) (tr : TypeRef) (l r out : Value) (fuel : Nat) (fr fo : List Path),
    validateV s false tr l = .ok () → validateV s false tr r = .ok () →
    mergeNode s fuel (some l) (some r) tr = .ok (some out) →
    fsV s tr r = .ok fr → fsV s tr out = .ok fo → ∀ p : Path,
    (SetTrie.ofPaths fr).has p = true → (SetTrie.ofPaths fo).has p = true) := by
  intro h
  have h1 := h ⟨[]⟩ keyedTR (.list []) (.list [itemBA]) (.list [itemAB]) 4 fsBA fsAB
    valid_empty valid_one merge_one fs_right fs_out [keyBA] right_has
  rw [out_has_not] at h1
  cases h1

/-- …nor with scalar key fields: an empty map under a declared field, filled from the left operand -/
example : ¬ (∀ (s : Schema) (tr : TypeRef) (l r out : Value) (fuel : Nat) (fr fo : List Path),
    validateV s false tr l = .ok () → validateV s false tr r = .ok () →
    keysScalar s tr l = true → keysScalar s tr r = true →
    mergeNode s fuel (some l) (some r) tr = .ok (some out) →
    fsV s tr r = .ok fr → fsV s tr out = .ok fo → ∀ p : Path,
    (SetTrie.ofPaths fr).has p = true → (SetTrie.ofPaths fo).has p = true) := by
  intro h
  have h1 := h ⟨[]⟩ holderTR fullL hollowR fullL 4 [[.field "f"]] fsFull
    valid_full valid_hollow keys_full keys_hollow Counter12.merge_hollow fs_hollow fs_full [.field "f"] hollow_has
  rw [full_has_not] at h1
  cases h1

/-- …nor when a map of R repeats a key (the model's association lists allow it): the merge only sees the
first entry of the key, the field-set walker sees both -/
example : ¬ (∀ (s : Schema) (tr : TypeRef) (l r out : Value) (fuel : Nat) (fr fo : List Path),
    validateV s false tr l = .ok () → validateV s false tr r = .ok () →
    keysScalar s tr l = true → keysScalar s tr r = true →
    mergeNode s fuel (some l) (some r) tr = .ok (some out) →
    fsV s tr r = .ok fr → fsV s tr out = .ok fo → ∀ p : Path,
    (SetTrie.ofPaths fr).has p = true → (SetTrie.ofPaths fo).has p = true) := by
  intro h
  have h1 := h ⟨[]⟩ holder2TR onceL twiceR onceL 4 fsTwice [[.field "f"]]
    valid_once valid_twice keys_once keys_twice merge_twice fs_twice fs_once [.field "f", .value (.int 2)] twice_has
  rw [once_has_not] at h1
  cases h1

/-- every member of R's field set is a member of the result's (duplicate-free operands whose keyed lists
carry scalar key fields), when the maps of R the walkers visit repeat no key and hold a null or an empty
map only under keys that are not declared fields -/
theorem merge_fieldset_right_sub_of_entriesPlain (s : Schema) (tr : TypeRef) (l r out : Value) (fuel : Nat)
    (fr fo : List Path)
    (hl : validateV s false tr l = .ok ()) (hr : validateV s false tr r = .ok ())
    (hkl : keysScalar s tr l = true) (hkr : keysScalar s tr r = true) (hpl : entriesPlain s tr r = true)
    (hm : mergeNode s fuel (some l) (some r) tr = .ok (some out))
    (hfr : fsV s tr r = .ok fr) (hfo : fsV s tr out = .ok fo) (p : Path) :
    (SetTrie.ofPaths fr).has p = true → (SetTrie.ofPaths fo).has p = true :=
  MV.merge_fieldset_right_sub s tr l r out fuel fr fo hl hr hkl hkr hpl hm hfr hfo p

-- STATEMENT-FALSE: s = ⟨[]⟩, tr = Counter01.keyedTR, l = .list [{name: {a: 1, b: 2}, x: 1}],
--   r = .list [{name: {b: 2, a: 1}, x: 2}] (distinct identities), fuel = fuel2 = 4:
--   out = .list [{name: {a: 1, b: 2}, x: 1}, {name: {a: 1, b: 2}, x: 2}] (the same identity twice), and merging
--   r again finds two left-only items and appends r's item once more: out2 has three items
-- /-- merging R again changes nothing -/
-- theorem merge_idempotent (s : Schema) (tr : TypeRef) (l r out out2 : Value) (fuel fuel2 : Nat)
--     (hl : validateV s false tr l = .ok ()) (hr : validateV s false tr r = .ok ())
--     (hm : mergeNode s fuel (some l) (some r) tr = .ok (some out))
--     (hm2 : mergeNode s fuel2 (some out) (some r) tr = .ok (some out2)) :
--     Value.equals out2 out = true

/-- `merge_idempotent` as originally stated does not hold -/
example : ¬ (∀ (s : Schema) (tr : TypeRef) (l r out out2 : Value) (fuel fuel2 : Nat),
    validateV s false tr l = .ok () → validateV s false tr r = .ok () →
    mergeNode s fuel (some l) (some r) tr = .ok (some out) →
    mergeNode s fuel2 (some out) (some r) tr = .ok (some out2) → Value.equals out2 out = true) := by
  intro h
  have h1 := h ⟨[]⟩ keyedTR idemL idemR idemOut idemOut2 4 4 idem_valid_left idem_valid_right idem_merge
    idem_merge_again
  rw [idem_differ] at h1
  cases h1

/-- merging R again changes nothing (duplicate-free operands whose keyed lists carry scalar key fields) -/
theorem merge_idempotent_of_keysScalar (s : Schema) (tr : TypeRef) (l r out out2 : Value) (fuel fuel2 : Nat)
    (hl : validateV s false tr l = .ok ()) (hr : validateV s false tr r = .ok ())
    (hkl : keysScalar s tr l = true) (hkr : keysScalar s tr r = true)
    (hm : mergeNode s fuel (some l) (some r) tr = .ok (some out))
    (hm2 : mergeNode s fuel2 (some out) (some r) tr = .ok (some out2)) :
    Value.equals out2 out = true :=
  MV.merge_idempotent s tr l r out out2 fuel fuel2 hl hr hkl hkr hm hm2

end SMD.C12
