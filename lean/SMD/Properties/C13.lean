/-
C13 — validation is exact and makes every operation total (values).

`Conf.conforms` (`SMD/Spec/Conforms.lean`) is the independent reference validator, written from the
schema documentation; `validateV` is the model of the validating walker (`typed/validate.go`,
`typed/helpers.go`), tied to the Go code by the `typ` and `sch` correspondence domains (the latter
also decides "a schema document is accepted exactly when it conforms to the schema of schemas" by
validating the decoded document against the schema of schemas shipped over from the source).
-/
import SMD.Proofs.ValidateExact
namespace SMD.C13

/-- a value is accepted exactly when it conforms -/
theorem validate_ok_iff_conforms (s : Schema) (dup : Bool) (tr : TypeRef) (v : Value) :
    validateV s dup tr v = .ok () ↔ Conf.conforms s dup tr v = true :=
  validateV_iff s dup v tr

/-- no unstructured input, however malformed, makes validation panic -/
theorem validate_never_panics (s : Schema) (dup : Bool) (tr : TypeRef) (v : Value) :
    validateV s dup tr v ≠ .panic :=
  validateV_ne_panic s dup v tr

/-- allowing duplicates only ever accepts more -/
theorem valid_implies_valid_with_duplicates (s : Schema) (tr : TypeRef) (v : Value) :
    validateV s false tr v = .ok () → validateV s true tr v = .ok () := fun h =>
  (validateV_iff s true v tr).2 (conforms_dup_mono s v tr ((validateV_iff s false v tr).1 h))

/-- named, inlined and relationship-overriding references behave identically when they resolve to the
same structure: validation depends on the reference only through `Schema.resolve` -/
theorem validate_congr_resolve (s : Schema) (dup : Bool) (tr tr' : TypeRef) (v : Value)
    (h : s.resolve tr = s.resolve tr') : validateV s dup tr v = validateV s dup tr' v :=
  validateV_congr_resolve s dup tr tr' v h

/-- the field-set and removal walkers never panic either -/
theorem fieldset_never_panics (s : Schema) (tr : TypeRef) (v : Value) : fsV s tr v ≠ .panic :=
  fsV_ne_panic s v tr

/-- non-vacuity: a keyed list with a defaulted key conforms, its duplicate does not -/
example :
    let item : Atom := .mk none none (some (.mk [.mk "port" (.mk none (.mk (some "numeric") none none) none) none,
                                                 .mk "proto" (.mk none (.mk (some "string") none none) none) (some (.str "TCP"))] [] TypeRef.zero ""))
    let lst : TypeRef := .mk none (.mk none (some (.mk (.mk none item none) "associative" ["port", "proto"])) none) none
    Conf.conforms ⟨[]⟩ false lst (.list [.map [("port", .int 1)], .map [("port", .int 2), ("proto", .str "UDP")]]) = true ∧
    Conf.conforms ⟨[]⟩ false lst (.list [.map [("port", .int 1)], .map [("port", .int 1), ("proto", .str "TCP")]]) = false := by
  decide

end SMD.C13
