/-
C13 (continued) — validation makes every operation total: on accepted values the field-set,
comparison and merge walkers return a result (no validation error, no panic).  Also the clause of C06
"no operation on valid inputs fails for any reason other than a reported conflict" at the level of the
typed operations.  `listsAssociative` (SMD/Proofs/MergeLaws.lean) restricts to the generated schema
family: every non-empty, non-atomic list node is declared associative (the schema documentation
requires every list to state atomic or associative; the schema of schemas does not enforce it).
-/
import SMD.Proofs.OpsTotal
namespace SMD.C13

/-- the field set of an accepted value exists -/
theorem fieldset_ok_of_valid (s : Schema) (tr : TypeRef) (v : Value)
    (hv : validateV s true tr v = .ok ()) : ∃ ps, fsV s tr v = .ok ps :=
  fsV_total s v tr hv

/-- comparing two accepted values of one type returns a comparison -/
theorem compare_ok_of_valid (s : Schema) (tr : TypeRef) (l r : Value) (fuel : Nat)
    (hl : validateV s true tr l = .ok ()) (hr : validateV s true tr r = .ok ())
    (hla : listsAssociative s tr l = true) (hra : listsAssociative s tr r = true)
    (hf : l.depth + r.depth < fuel) :
    ∃ c, cmpNode s fuel (some l) (some r) tr = .ok c :=
  cmpNode_ok s fuel (some l) (some r) tr (Or.inl rfl)
    (fun _ h => by cases h; exact ⟨hl, hla⟩) (fun _ h => by cases h; exact ⟨hr, hra⟩) hf

/-- merging an accepted duplicate-free value over an accepted value returns an object -/
theorem merge_ok_of_valid (s : Schema) (tr : TypeRef) (l r : Value) (fuel : Nat)
    (hl : validateV s true tr l = .ok ()) (hr : validateV s false tr r = .ok ())
    (hla : listsAssociative s tr l = true) (hra : listsAssociative s tr r = true)
    (hf : l.depth + r.depth < fuel) :
    ∃ out, mergeNode s fuel (some l) (some r) tr = .ok (some out) :=
  mergeNode_ok s fuel (some l) (some r) tr (Or.inl rfl)
    (fun _ h => by cases h; exact ⟨hl, hla⟩) (fun _ h => by cases h; exact ⟨hr, hra⟩) hf

end SMD.C13
