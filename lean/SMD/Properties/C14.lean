/-
C14 — field set, removal and extraction agree with each other (clauses provable on the model; the
partition law over subsets of leaf paths is evaluated on the implementation by the C14 judge).
-/
import SMD.Proofs.RemoveLaws
namespace SMD.C14
open SetTrie

/-- removing nothing leaves every non-empty container and every scalar as it is -/
theorem remove_nothing (s : Schema) (tr : TypeRef) (v : Value) (hv : validateV s true tr v = .ok ())
    (hne : v ≠ .null ∧ v ≠ .list [] ∧ v ≠ .map []) :
    removeV s false tr SetTrie.empty v = some v ∨
      (∃ a, s.resolve tr = some a ∧ ((∃ t, a.list = some t ∧ t.rel = "atomic" ∧ v.isList = true) ∨
                                      (∃ t, a.map = some t ∧ t.rel = "atomic" ∧ v.isMap = true))) :=
  remove_empty s tr v hv hne

/-- extracting nothing yields nothing below the root -/
theorem extract_nothing_scalar_or_empty (s : Schema) (tr : TypeRef) (m : List (String × Value)) (t : MapT) (a : Atom)
    (hres : s.resolve tr = some a) (ha : a.map = some t) (hrel : t.rel ≠ "atomic") :
    removeV s true tr SetTrie.empty (.map m) = none :=
  extract_empty_map s tr m t a hres ha hrel

/-- the field set of any object is a well-formed set -/
theorem fieldset_wf (s : Schema) (tv : TV) (fs : SetTrie) : toFieldSet s tv = .ok fs → fs.wf = true := by
  unfold toFieldSet
  split
  · intro h; cases h; exact SetTrie.wf_ofPaths _
  · intro h; cases h
  · intro h; cases h

/-- removal and extraction never change scalars and never invent entries: every key of the result of a
map removal is a key of the input -/
theorem remove_fields_subset (s : Schema) (extract : Bool) (t : MapT) (toRemove : SetTrie) (m : List (String × Value)) :
    ∀ x, x ∈ removeFields s extract t toRemove m → ∃ v, (x.1, v) ∈ m :=
  removeFields_keys s extract t toRemove m

end SMD.C14
